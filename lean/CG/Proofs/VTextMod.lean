/- C03 helper (text level): the whole module — the lexer and the parser invert `render` on modules of shape `WOK` -/
import CG.Proofs.VTextItem
namespace CG
namespace VX
open Verilog

/-! ### sequences of lines -/

theorem lines_split : ∀ {css : List (List Char)} {its : List Item}, All2 Line css its →
    ∃ tss, All2 LexCP css tss ∧ All2 ItemToks tss its
  | _, _, All2.nil => ⟨[], All2.nil, All2.nil⟩
  | _, _, All2.cons ⟨ts, h1, h2⟩ hs => by
    obtain ⟨tss, g1, g2⟩ := lines_split hs
    exact ⟨ts :: tss, All2.cons h1 g1, All2.cons h2 g2⟩

theorem All2.append {α β : Type} {R : α → β → Prop} : ∀ {l₁ l₂ : List α} {m₁ m₂ : List β}, All2 R l₁ m₁ → All2 R l₂ m₂ →
    All2 R (l₁ ++ l₂) (m₁ ++ m₂)
  | _, _, _, _, All2.nil, h => h
  | _, _, _, _, All2.cons h hs, h' => All2.cons h (All2.append hs h')

theorem itemToks_length : ∀ {tss : List (List Tok)} {its : List Item}, All2 ItemToks tss its →
    its.length ≤ tss.flatten.length
  | _, _, All2.nil => by simp
  | _, _, All2.cons (a := ts) h hs => by
    obtain ⟨_, t, tl, rfl, _⟩ := h
    have := itemToks_length hs
    simp only [List.flatten_cons, List.length_cons, List.length_append]
    omega

theorem pItemsGo_lines : ∀ {tss : List (List Tok)} {its : List Item}, All2 ItemToks tss its →
    ∀ (fuel : Nat) (acc : List Item) (rest : List Tok), its.length + 1 ≤ fuel →
    pItemsGo fuel acc (tss.flatten ++ Tok.kw "endmodule" :: rest) = some (acc.reverse ++ its, rest)
  | _, _, All2.nil, fuel, acc, rest, hf => by
    obtain ⟨f, rfl⟩ : ∃ f, fuel = f + 1 := ⟨fuel - 1, by omega⟩
    simp [pItemsGo]
  | _, _, All2.cons (a := ts) (b := it) (l := tss) (m := its) h hs, fuel, acc, rest, hf => by
    obtain ⟨f, rfl⟩ : ∃ f, fuel = f + 1 := ⟨fuel - 1, by omega⟩
    obtain ⟨hp, t, tl, rfl, hne⟩ := h
    have ih := pItemsGo_lines hs f (it :: acc) rest (by simp only [List.length_cons] at hf; omega)
    rw [List.flatten_cons, List.append_assoc]
    have hp' := hp (tss.flatten ++ Tok.kw "endmodule" :: rest)
    rw [List.cons_append] at hp' ⊢
    rw [pItemsGo.eq_3 _ _ _ (by intro r e; injection e with e1 _; exact hne e1), hp']
    simp only []
    rw [ih]
    simp

theorem pItems_lines {tss : List (List Tok)} {its : List Item} (h : All2 ItemToks tss its) (rest : List Tok) :
    pItems [] (tss.flatten ++ Tok.kw "endmodule" :: rest) = some (its, rest) := by
  unfold pItems
  have := pItemsGo_lines h ((tss.flatten ++ Tok.kw "endmodule" :: rest).length + 1) [] rest
    (by have := itemToks_length h; simp only [List.length_append, List.length_cons]; omega)
  simpa using this

/-! ### the statement lines -/

theorem stmt_lines (X : List Bool) : ∀ {stmts : List Item} {parens : List Bool}, All2 StmtOK stmts parens →
    All2 Line ((stmts.zip (parens ++ X)).map (fun i => ("  " ++ renderStmt i.2 i.1 ++ ";\n").toList)) stmts
  | _, _, All2.nil => by
    simp only [List.zip_nil_left, List.map_nil]
    exact All2.nil
  | _, _, All2.cons h hs => by
    simp only [List.cons_append, List.zip_cons_cons, List.map_cons]
    exact All2.cons (line_stmt h) (stmt_lines X hs)

theorem join_toList {α : Type} (l : List α) (f : α → String) :
    (String.join (l.map f)).toList = (l.map (fun x => (f x).toList)).flatten := by
  rw [String.toList_join]
  induction l with
  | nil => rfl
  | cons x l ih => simp [ih]

/-! ### the module -/

theorem ident_tok (n : Name) (r : List Tok) : Verilog.ident ([Tok.id n] ++ r) = some (n, r) := rfl

/-- **the lexer and the parser invert the renderer** on modules of the shape the writer emits -/
theorem module_text (wm : WModule) (h : WOK wm) :
    ∃ toks, Lexes (render wm).toList toks ∧ parseModule toks = some wm.toModule := by
  -- the four sections
  obtain ⟨t1, l1, p1⟩ := lines_split (All2.map (fun i => ("  input " ++ i ++ ";\n").toList) (fun i => Item.input [i])
    wm.inputs (fun i hi => line_input (h.inputs i hi)))
  obtain ⟨t2, l2, p2⟩ := lines_split (All2.map (fun i => ("  output " ++ i ++ ";\n").toList) (fun i => Item.output [i])
    wm.outputs (fun i hi => line_output (h.outputs i hi)))
  obtain ⟨t3, l3, p3⟩ := lines_split (All2.map (fun i => ("  wire " ++ i ++ ";\n").toList) (fun i => Item.wire [i])
    wm.wires (fun i hi => line_wire (h.wires i hi)))
  obtain ⟨t4, l4, p4⟩ := lines_split (stmt_lines (List.replicate wm.stmts.length false) h.stmts)
  have L1 := lexCP_flatten l1
  have L2 := lexCP_flatten l2
  have L3 := lexCP_flatten l3
  have L4 := lexCP_flatten l4
  have pall : All2 ItemToks (t1 ++ t2 ++ t3 ++ t4) wm.toModule.items :=
    All2.append (All2.append (All2.append p1 p2) p3) p4
  -- ports
  have hports : ∀ n ∈ wm.inputs ++ wm.outputs, Ident n := by
    intro n hn
    rcases List.mem_append.1 hn with hn | hn
    · exact h.inputs n hn
    · exact h.outputs n hn
  have LP := lex_commas (All2.map String.toList (fun n => [Tok.id n]) (wm.inputs ++ wm.outputs)
    (fun n hn => lexCPb_ident (hports n hn)))
  let ptoks := commas ((wm.inputs ++ wm.outputs).map (fun n => [Tok.id n]))
  let body := (t1 ++ t2 ++ t3 ++ t4).flatten
  refine ⟨Tok.kw "module" :: Tok.id wm.name :: Tok.sym "(" :: (ptoks ++ Tok.sym ")" :: Tok.sym ";" ::
    (body ++ [Tok.kw "endmodule"])), ?_, ?_⟩
  · -- lexing
    have e1 : "module ".toList = "module".toList ++ [' '] := by decide
    have e2 : " (".toList = [' ', '('] := by decide
    have e3 : ");\n".toList = [')', ';', '\n'] := by decide
    have e4 : "\n".toList = ['\n'] := by decide
    have e5 : "endmodule\n".toList = "endmodule".toList ++ ['\n'] := by decide
    have hend : Lexes ("endmodule".toList ++ ['\n']) [Tok.kw "endmodule"] :=
      Lexes.kw (by decide) (brk_nl _) (Lexes.nl Lexes.nil)
    have hbody : Lexes ((wm.inputs.map (fun i => ("  input " ++ i ++ ";\n").toList)).flatten ++ '\n' ::
        ((wm.outputs.map (fun i => ("  output " ++ i ++ ";\n").toList)).flatten ++ '\n' ::
        ((wm.wires.map (fun i => ("  wire " ++ i ++ ";\n").toList)).flatten ++ '\n' ::
        (((wm.stmts.zip (wm.parens ++ List.replicate wm.stmts.length false)).map
          (fun i => ("  " ++ renderStmt i.2 i.1 ++ ";\n").toList)).flatten ++ ("endmodule".toList ++ ['\n'])))))
        (body ++ [Tok.kw "endmodule"]) := by
      have := L1 _ _ (Lexes.nl (L2 _ _ (Lexes.nl (L3 _ _ (Lexes.nl (L4 _ _ hend))))))
      simpa [body, List.flatten_append, List.append_assoc] using this
    unfold render
    simp only [String.toList_append, List.append_assoc] at hbody
    simp only [String.toList_append, String.toList_intercalate, join_toList, e1, e2, e3, e4, e5, List.cons_append,
      List.nil_append, List.append_assoc]
    exact Lexes.kw (by decide) (brk_sp _) (Lexes.sp (Lexes.ident h.name (brk_sp _) (Lexes.sp (Lexes.lparen
      (LP _ _ (brk_rparen _) (Lexes.rparen (Lexes.semi (Lexes.nl hbody))))))))
  · -- parsing
    have hall : All2 (fun ts v => ∀ r, True → Verilog.ident (ts ++ r) = some (v, r))
        ((wm.inputs ++ wm.outputs).map (fun n => [Tok.id n])) ((wm.inputs ++ wm.outputs).map id) :=
      All2.map (fun n => [Tok.id n]) id _ (fun n _ r _ => ident_tok n r)
    rw [List.map_id] at hall
    have hs := sepBy_commas Verilog.ident (fun _ => True) (fun _ => trivial) hall (by simpa using h.ports)
      (Tok.sym ")" :: Tok.sym ";" :: (body ++ [Tok.kw "endmodule"])) trivial
      (by intro r hr; injection hr with h1; injection h1 with h1; exact absurd h1 (by decide))
    have hi := pItems_lines pall []
    have hm : pModule (Tok.kw "module" :: Tok.id wm.name :: Tok.sym "(" :: (ptoks ++ Tok.sym ")" :: Tok.sym ";" ::
        (body ++ [Tok.kw "endmodule"]))) = some (wm.toModule, []) := by
      simp only [pModule, Verilog.ident, Option.bind_eq_bind, Option.bind_some, Option.pure_def]
      rw [hs]
      simp only [Option.bind_some, expect_sym]
      rw [hi]
      rfl
    unfold parseModule
    rw [hm]

end VX
end CG
