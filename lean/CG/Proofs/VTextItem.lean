/- C03 helper (text level): one printed line = one item — declarations, named-port and positional instances, assigns -/
import CG.Proofs.VTextLine
namespace CG
namespace VX
open Verilog

/-- tokens which `pItem` reads as `it` (whatever follows), not starting with `endmodule` -/
def ItemToks (ts : List Tok) (it : Item) : Prop :=
  (∀ rest, pItem (ts ++ rest) = some (it, rest)) ∧ ∃ t tl, ts = t :: tl ∧ t ≠ Tok.kw "endmodule"

/-- a printed line: lexes to tokens read as `it` -/
def Line (cs : List Char) (it : Item) : Prop := ∃ ts, LexCP cs ts ∧ ItemToks ts it

theorem expect_sym (s : String) (rest : List Tok) : expectSym s (Tok.sym s :: rest) = some ((), rest) := by
  unfold expectSym
  simp

theorem sepBy_one {β : Type} (p : P β) (toks r : List Tok) (x : β) (hp : p toks = some (x, r))
    (hr : ∀ r', r ≠ Tok.sym "," :: r') : sepBy p "," toks = some ([x], r) :=
  sepByGo_last p _ toks r x hp hr

/-! ### declarations -/

theorem lex_decl {kw : String} (hk : kw ∈ keywords) {i : Name} (hi : Ident i) :
    LexCP (' ' :: ' ' :: (kw.toList ++ ' ' :: (i.toList ++ [';', '\n']))) [Tok.kw kw, Tok.id i, Tok.sym ";"] := by
  intro rest rts h
  simp only [List.cons_append, List.append_assoc, List.nil_append]
  exact Lexes.sp (Lexes.sp (Lexes.kw hk (brk_sp _) (Lexes.sp (Lexes.ident hi (brk_semi _) (Lexes.semi (Lexes.nl h))))))

theorem line_input {i : Name} (hi : Ident i) : Line ("  input " ++ i ++ ";\n").toList (Item.input [i]) := by
  refine ⟨[Tok.kw "input", Tok.id i, Tok.sym ";"], ?_, ?_, _, _, rfl, by decide⟩
  · have e1 : "  input ".toList = ' ' :: ' ' :: ("input".toList ++ [' ']) := by decide
    have e2 : ";\n".toList = [';', '\n'] := by decide
    have := lex_decl (kw := "input") (by decide) hi
    simp only [String.toList_append, e1, e2]
    simpa using this
  · intro rest
    simp [pItem, sepBy, sepByGo, ident, expectSym]

theorem line_output {i : Name} (hi : Ident i) : Line ("  output " ++ i ++ ";\n").toList (Item.output [i]) := by
  refine ⟨[Tok.kw "output", Tok.id i, Tok.sym ";"], ?_, ?_, _, _, rfl, by decide⟩
  · have e1 : "  output ".toList = ' ' :: ' ' :: ("output".toList ++ [' ']) := by decide
    have e2 : ";\n".toList = [';', '\n'] := by decide
    have := lex_decl (kw := "output") (by decide) hi
    simp only [String.toList_append, e1, e2]
    simpa using this
  · intro rest
    simp [pItem, sepBy, sepByGo, ident, expectSym]

theorem line_wire {i : Name} (hi : Ident i) : Line ("  wire " ++ i ++ ";\n").toList (Item.wire [i]) := by
  refine ⟨[Tok.kw "wire", Tok.id i, Tok.sym ";"], ?_, ?_, _, _, rfl, by decide⟩
  · have e1 : "  wire ".toList = ' ' :: ' ' :: ("wire".toList ++ [' ']) := by decide
    have e2 : ";\n".toList = [';', '\n'] := by decide
    have := lex_decl (kw := "wire") (by decide) hi
    simp only [String.toList_append, e1, e2]
    simpa using this
  · intro rest
    simp [pItem, sepBy, sepByGo, ident, expectSym]

/-! ### named-port instances -/

def connText (q : Name × Option Expr) : String :=
  "." ++ q.1 ++ "(" ++ (match q.2 with | some e => renderExpr e | none => "") ++ ")"

def connToks (q : Name × Option Expr) : List Tok :=
  match q.2 with
  | some (Expr.id d) => [Tok.sym ".", Tok.id q.1, Tok.sym "(", Tok.id d, Tok.sym ")"]
  | _ => [Tok.sym ".", Tok.id q.1, Tok.sym "(", Tok.sym ")"]

theorem lex_conn {q : Name × Option Expr} (hq : ConnOK q) : LexCPb (connText q).toList (connToks q) := by
  obtain ⟨pn, pe⟩ := q
  obtain ⟨hpn, hpe⟩ := hq
  simp only at hpn hpe
  have e1 : ".".toList = ['.'] := by decide
  have e2 : "(".toList = ['('] := by decide
  have e3 : ")".toList = [')'] := by decide
  have e4 : "".toList = [] := by decide
  intro rest rts _ h
  rcases hpe with rfl | ⟨d, rfl, hd⟩
  · simp only [connText, connToks, String.toList_append, e1, e2, e3, e4, List.cons_append, List.nil_append,
      List.append_assoc]
    exact Lexes.dot (Lexes.ident hpn (brk_lparen _) (Lexes.lparen (Lexes.rparen h)))
  · have er : renderExpr (Expr.id d) = d := rfl
    simp only [connText, connToks, er, String.toList_append, e1, e2, e3, List.cons_append, List.nil_append,
      List.append_assoc]
    exact Lexes.dot (Lexes.ident hpn (brk_lparen _) (Lexes.lparen (Lexes.ident hd (brk_rparen _) (Lexes.rparen h))))

theorem parse_conn {q : Name × Option Expr} (hq : ConnOK q) (r : List Tok) : pNamedConn (connToks q ++ r) = some (q, r) := by
  obtain ⟨pn, pe⟩ := q
  obtain ⟨_, hpe⟩ := hq
  simp only at hpe
  rcases hpe with rfl | ⟨d, rfl, _⟩
  · simp [connToks, pNamedConn, expectSym, ident]
  · have hp := parse_id d (Tok.sym ")" :: r) (by simp [VP.Stops])
    simp [connToks, pNamedConn, expectSym, ident, hp]

theorem connToks_head (q : Name × Option Expr) : ∃ tl, connToks q = Tok.sym "." :: tl := by
  unfold connToks
  split
  · exact ⟨_, rfl⟩
  · exact ⟨_, rfl⟩

theorem commas_head (t : Tok) (ts0 : List Tok) : ∀ (tss : List (List Tok)), ∃ tl, commas ((t :: ts0) :: tss) = t :: tl
  | [] => ⟨ts0, rfl⟩
  | _ :: _ => ⟨_, rfl⟩

theorem line_named {m i : Name} {ps : List (Name × Option Expr)} (hm : Ident m) (hi : Ident i) (hne : ps ≠ [])
    (hps : ∀ q ∈ ps, ConnOK q) :
    Line ("  " ++ renderStmt false (Item.inst m [(i, Conns.named ps)]) ++ ";\n").toList
      (Item.inst m [(i, Conns.named ps)]) := by
  refine ⟨Tok.id m :: Tok.id i :: Tok.sym "(" :: (commas (ps.map connToks) ++ [Tok.sym ")", Tok.sym ";"]), ?_, ?_,
    _, _, rfl, by simp⟩
  · have er : renderStmt false (Item.inst m [(i, Conns.named ps)]) =
        m ++ " " ++ i ++ " (" ++ ", ".intercalate (ps.map connText) ++ ")" := rfl
    have e1 : "  ".toList = [' ', ' '] := by decide
    have e2 : " ".toList = [' '] := by decide
    have e3 : " (".toList = [' ', '('] := by decide
    have e4 : ")".toList = [')'] := by decide
    have e5 : ";\n".toList = [';', '\n'] := by decide
    intro rest rts h
    simp only [er, String.toList_append, String.toList_intercalate, e1, e2, e3, e4, e5, List.cons_append,
      List.nil_append, List.append_assoc, List.map_map]
    have hl := lex_commas (All2.map (fun q => (connText q).toList) connToks ps (fun q hq => lex_conn (hps q hq)))
    have e6 : (List.map (String.toList ∘ connText) ps) = List.map (fun q => (connText q).toList) ps := rfl
    rw [e6]
    exact Lexes.sp (Lexes.sp (Lexes.ident hm (brk_sp _) (Lexes.sp (Lexes.ident hi (brk_sp _) (Lexes.sp (Lexes.lparen
      (hl _ _ (brk_rparen _) (Lexes.rparen (Lexes.semi (Lexes.nl h))))))))))
  · intro rest
    have hall : All2 (fun ts v => ∀ r, True → pNamedConn (ts ++ r) = some (v, r)) (ps.map connToks) (ps.map id) :=
      All2.map connToks id ps (fun q hq r _ => parse_conn (hps q hq) r)
    rw [List.map_id] at hall
    have hs := sepBy_commas pNamedConn (fun _ => True) (fun _ => trivial) hall (by simpa using hne)
      (Tok.sym ")" :: Tok.sym ";" :: rest) trivial (by intro r hr; injection hr with h1; injection h1 with h1; exact absurd h1 (by decide))
    obtain ⟨tl, htl⟩ : ∃ tl, commas (ps.map connToks) = Tok.sym "." :: tl := by
      cases ps with
      | nil => exact absurd rfl hne
      | cons q0 ps' =>
        obtain ⟨tl0, htl0⟩ := connToks_head q0
        rw [List.map_cons, htl0]
        exact commas_head (Tok.sym ".") tl0 (ps'.map connToks)
    have hinst : pInstance (Tok.id i :: Tok.sym "(" :: (commas (ps.map connToks) ++ Tok.sym ")" :: Tok.sym ";" :: rest)) =
        some ((i, Conns.named ps), Tok.sym ";" :: rest) := by
      rw [htl] at hs ⊢
      simp only [List.cons_append] at hs ⊢
      simp [pInstance, ident, expectSym, hs]
    have e : Tok.id m :: Tok.id i :: Tok.sym "(" :: (commas (ps.map connToks) ++ [Tok.sym ")", Tok.sym ";"]) ++ rest =
        Tok.id m :: (Tok.id i :: Tok.sym "(" :: (commas (ps.map connToks) ++ Tok.sym ")" :: Tok.sym ";" :: rest)) := by simp
    rw [e]
    have h1 := sepBy_one pInstance _ _ _ hinst (by intro r hr; injection hr with h1; injection h1 with h1; exact absurd h1 (by decide))
    simp [pItem, h1, expectSym]

/-! ### positional instances -/

theorem line_pos {t g : Name} {ns : List Name} (ht : Ident t) (hg : Ident g) (hne : ns ≠ []) (hns : ∀ n ∈ ns, Ident n) :
    Line ("  " ++ renderStmt false (Item.inst t [(g, Conns.positional (ns.map Expr.id))]) ++ ";\n").toList
      (Item.inst t [(g, Conns.positional (ns.map Expr.id))]) := by
  refine ⟨Tok.id t :: Tok.id g :: Tok.sym "(" :: (commas (ns.map (fun n => [Tok.id n])) ++ [Tok.sym ")", Tok.sym ";"]), ?_, ?_,
    _, _, rfl, by simp⟩
  · have er : renderStmt false (Item.inst t [(g, Conns.positional (ns.map Expr.id))]) =
        t ++ " " ++ g ++ "(" ++ ", ".intercalate ((ns.map Expr.id).map renderExpr) ++ ")" := rfl
    have em : (ns.map Expr.id).map renderExpr = ns := by
      rw [List.map_map]
      have : (renderExpr ∘ Expr.id) = id := rfl
      rw [this, List.map_id]
    have e1 : "  ".toList = [' ', ' '] := by decide
    have e2 : " ".toList = [' '] := by decide
    have e3 : "(".toList = ['('] := by decide
    have e4 : ")".toList = [')'] := by decide
    have e5 : ";\n".toList = [';', '\n'] := by decide
    intro rest rts h
    simp only [er, em, String.toList_append, String.toList_intercalate, e1, e2, e3, e4, e5, List.cons_append,
      List.nil_append, List.append_assoc]
    have hl := lex_commas (All2.map String.toList (fun n => [Tok.id n]) ns (fun n hn => lexCPb_ident (hns n hn)))
    exact Lexes.sp (Lexes.sp (Lexes.ident ht (brk_sp _) (Lexes.sp (Lexes.ident hg (brk_lparen _) (Lexes.lparen
      (hl _ _ (brk_rparen _) (Lexes.rparen (Lexes.semi (Lexes.nl h)))))))))
  · intro rest
    have hall : All2 (fun ts v => ∀ r, VP.Stops r → pExpr (ts ++ r) = some (v, r)) (ns.map (fun n => [Tok.id n]))
        (ns.map Expr.id) :=
      All2.map (fun n => [Tok.id n]) Expr.id ns (fun n _ r hr => parse_id n r hr)
    have hs := sepBy_commas pExpr VP.Stops (fun _ => by simp [VP.Stops]) hall (by simpa using hne)
      (Tok.sym ")" :: Tok.sym ";" :: rest) (by simp [VP.Stops])
      (by intro r hr; injection hr with h1; injection h1 with h1; exact absurd h1 (by decide))
    obtain ⟨n0, tl, htl⟩ : ∃ n0 tl, commas (ns.map (fun n => [Tok.id n])) = Tok.id n0 :: tl := by
      cases ns with
      | nil => exact absurd rfl hne
      | cons n0 ns' =>
        obtain ⟨tl, htl⟩ := commas_head (Tok.id n0) [] (ns'.map (fun n => [Tok.id n]))
        exact ⟨n0, tl, htl⟩
    have hinst : pInstance (Tok.id g :: Tok.sym "(" :: (commas (ns.map (fun n => [Tok.id n])) ++ Tok.sym ")" :: Tok.sym ";" :: rest)) =
        some ((g, Conns.positional (ns.map Expr.id)), Tok.sym ";" :: rest) := by
      rw [htl] at hs ⊢
      simp only [List.cons_append] at hs ⊢
      simp [pInstance, ident, expectSym, hs]
    have e : Tok.id t :: Tok.id g :: Tok.sym "(" :: (commas (ns.map (fun n => [Tok.id n])) ++ [Tok.sym ")", Tok.sym ";"]) ++ rest =
        Tok.id t :: (Tok.id g :: Tok.sym "(" :: (commas (ns.map (fun n => [Tok.id n])) ++ Tok.sym ")" :: Tok.sym ";" :: rest)) := by simp
    rw [e]
    have h1 := sepBy_one pInstance _ _ _ hinst (by intro r hr; injection hr with h1; injection h1 with h1; exact absurd h1 (by decide))
    simp [pItem, h1, expectSym]

/-! ### assigns -/

theorem render_asg_false (n : Name) (e : Expr) :
    renderStmt false (Item.assign [(n, e)]) = "assign " ++ n ++ " = " ++ renderExpr e := by
  cases e <;> rfl

theorem asg_prefix (n : Name) (t : String) :
    ("assign " ++ n ++ " = " ++ t).toList = "assign".toList ++ ' ' :: (n.toList ++ ' ' :: '=' :: ' ' :: t.toList) := by
  have e1 : "assign ".toList = "assign".toList ++ [' '] := by decide
  have e2 : " = ".toList = [' ', '=', ' '] := by decide
  simp only [String.toList_append, e1, e2]
  simp

/-- right-hand sides: text, tokens, and what `pExpr` makes of them -/
theorem asg_expr {p : Bool} {e : Expr} (h : AsgOK p e) :
    ∃ cs ts, (∀ n, (renderStmt p (Item.assign [(n, e)])).toList =
        "assign".toList ++ ' ' :: (n.toList ++ ' ' :: '=' :: ' ' :: cs)) ∧
      LexCPb cs ts ∧ ∀ r, VP.Stops r → pExpr (ts ++ r) = some (e, r) := by
  rcases h with ⟨rfl, t, rfl, ht⟩ | ⟨rfl, d, rfl, hd⟩ | ⟨rfl, op, s, x, xs, ho, rfl, hx⟩ | ⟨rfl, op, s, x, xs, ho, rfl, hx⟩
  · refine ⟨("1'b" ++ t).toList, [Tok.const t], fun n => ?_, ?_, fun r hr => parse_const t r hr⟩
    · rw [render_asg_false, ← asg_prefix]
      rfl
    · intro rest rts _ hr
      exact Lexes.const ht hr
  · refine ⟨'~' :: d.toList, [Tok.sym "~", Tok.id d], fun n => ?_, ?_, fun r hr => parse_notId d r hr⟩
    · rw [render_asg_false]
      have : renderExpr (Expr.not (Expr.id d)) = "~" ++ d := rfl
      rw [this, asg_prefix, String.toList_append]
      rfl
    · intro rest rts hb hr
      obtain ⟨ch, tl, hst, hch, _⟩ := word_head hd.1
      have h1 := Lexes.ident hd hb hr
      rw [hst] at h1 ⊢
      exact Lexes.tilde hch h1
  · refine ⟨chainText s x xs, chainToks s x xs, fun n => ?_, lex_chain ho x xs hx, fun r hr => parse_chain ho x xs r hr⟩
    rw [render_asg_false, asg_prefix, render_chain ho]
  · refine ⟨'~' :: '(' :: (chainText s x xs ++ [')']), Tok.sym "~" :: Tok.sym "(" :: (chainToks s x xs ++ [Tok.sym ")"]),
      fun n => ?_, ?_, fun r hr => ?_⟩
    · have er : renderStmt true (Item.assign [(n, Expr.not (chain op (x :: xs)))]) =
          "assign " ++ n ++ " = ~(" ++ renderExpr (chain op (x :: xs)) ++ ")" := rfl
      have e1 : "assign ".toList = "assign".toList ++ [' '] := by decide
      have e2 : " = ~(".toList = [' ', '=', ' ', '~', '('] := by decide
      have e3 : ")".toList = [')'] := by decide
      rw [er]
      simp only [String.toList_append, e1, e2, e3, render_chain ho]
      simp
    · intro rest rts _ hr
      have := lex_chain ho x xs hx (')' :: rest) (Tok.sym ")" :: rts) (brk_rparen _) (Lexes.rparen hr)
      simp only [List.cons_append, List.append_assoc, List.nil_append]
      exact Lexes.tilde (by decide) (Lexes.lparen this)
    · have := parse_nchain ho x xs r hr
      simpa using this

theorem line_assign {n : Name} {e : Expr} {p : Bool} (hn : Ident n) (he : AsgOK p e) :
    Line ("  " ++ renderStmt p (Item.assign [(n, e)]) ++ ";\n").toList (Item.assign [(n, e)]) := by
  obtain ⟨cs, ts, hr, hl, hp⟩ := asg_expr he
  refine ⟨Tok.kw "assign" :: Tok.id n :: Tok.sym "=" :: (ts ++ [Tok.sym ";"]), ?_, ?_, _, _, rfl, by decide⟩
  · have e1 : "  ".toList = [' ', ' '] := by decide
    have e5 : ";\n".toList = [';', '\n'] := by decide
    intro rest rts h
    simp only [String.toList_append, hr n, e1, e5, List.cons_append, List.nil_append, List.append_assoc]
    exact Lexes.sp (Lexes.sp (Lexes.kw (by decide) (brk_sp _) (Lexes.sp (Lexes.ident hn (brk_sp _) (Lexes.sp (Lexes.eq
      (Lexes.sp (hl _ _ (brk_semi _) (Lexes.semi (Lexes.nl h))))))))))
  · intro rest
    have hpe := hp (Tok.sym ";" :: rest) (by simp [VP.Stops])
    have hasg : pAssignment (Tok.id n :: Tok.sym "=" :: (ts ++ Tok.sym ";" :: rest)) = some ((n, e), Tok.sym ";" :: rest) := by
      simp [pAssignment, ident, expectSym, hpe]
    have h1 := sepBy_one pAssignment _ _ _ hasg (by intro r hr; injection hr with h1; injection h1 with h1; exact absurd h1 (by decide))
    have e : Tok.kw "assign" :: Tok.id n :: Tok.sym "=" :: (ts ++ [Tok.sym ";"]) ++ rest =
        Tok.kw "assign" :: (Tok.id n :: Tok.sym "=" :: (ts ++ Tok.sym ";" :: rest)) := by simp
    rw [e]
    simp [pItem, h1, expectSym]

/-- every emitted statement line -/
theorem line_stmt {it : Item} {p : Bool} (h : StmtOK it p) : Line ("  " ++ renderStmt p it ++ ";\n").toList it := by
  rcases h with ⟨rfl, m, i, ps, rfl, hm, hi, hne, hps⟩ | ⟨rfl, t, g, ns, rfl, ht, hg, hne, hns⟩ | ⟨n, e, rfl, hn, he⟩
  · exact line_named hm hi hne hps
  · exact line_pos ht hg hne hns
  · exact line_assign hn he

end VX
end CG
