/- C15 (character level) helper: list lemmas (alignment at the first delimiter, suffixes) and character facts -/
import CG.Proofs.BenchTextShape
set_option linter.unusedSimpArgs false
namespace CG
namespace BenchText
open Regex

/-- two decompositions at delimiters that do not occur before the other's delimiter coincide -/
theorem split_first {α : Type} {d e : α} : ∀ {a a' b b' : List α}, a ++ d :: b = a' ++ e :: b' → d ∉ a' → e ∉ a →
    a = a' ∧ d = e ∧ b = b'
  | [], [], b, b', h, _, _ => by
    simp only [List.nil_append, List.cons.injEq] at h
    exact ⟨rfl, h.1, h.2⟩
  | [], x :: a', b, b', h, hd, _ => by
    simp only [List.nil_append, List.cons_append, List.cons.injEq] at h
    exact absurd (by rw [h.1]; simp) hd
  | x :: a, [], b, b', h, _, he => by
    simp only [List.nil_append, List.cons_append, List.cons.injEq] at h
    exact absurd (by rw [h.1]; simp) he
  | x :: a, y :: a', b, b', h, hd, he => by
    simp only [List.cons_append, List.cons.injEq] at h
    obtain ⟨h1, h2, h3⟩ := split_first h.2 (fun hm => hd (List.mem_cons_of_mem _ hm))
      (fun hm => he (List.mem_cons_of_mem _ hm))
    exact ⟨by rw [h.1, h1], h2, h3⟩

/-- a suffix of `X ++ Y` -/
theorem suf_append {α : Type} {u t X Y : List α} (h : u ++ t = X ++ Y) :
    (∃ X', (∃ u', u' ++ X' = X) ∧ t = X' ++ Y) ∨ (∃ u', u' ++ t = Y) := by
  rcases List.append_eq_append_iff.mp h with ⟨a', h1, h2⟩ | ⟨c', h1, h2⟩
  · exact Or.inl ⟨a', ⟨u, h1.symm⟩, h2⟩
  · exact Or.inr ⟨c', h2.symm⟩

theorem suf_cons {α : Type} {u t : List α} {x : α} {Y : List α} (h : u ++ t = x :: Y) :
    t = x :: Y ∨ ∃ u', u' ++ t = Y := by
  cases u with
  | nil => exact Or.inl h
  | cons y u =>
    simp only [List.cons_append, List.cons.injEq] at h
    exact Or.inr ⟨u, h.2⟩

/-- a nonempty suffix of `X ++ [c]` -/
theorem suf_snoc {α : Type} {u t X : List α} {c : α} (h : u ++ t = X ++ [c]) (ht : t ≠ []) :
    ∃ B, t = B ++ [c] ∧ ∃ u', u' ++ B = X := by
  rcases suf_append h with ⟨X', hX, e⟩ | ⟨u', e⟩
  · exact ⟨X', e, hX⟩
  · cases u' with
    | nil => exact ⟨[], by simpa using e, X, by simp⟩
    | cons y u' =>
      simp only [List.cons_append, List.cons.injEq, List.append_eq_nil_iff] at e
      exact absurd e.2.2 ht

theorem mem_of_suf {α : Type} {u t X : List α} (h : u ++ t = X) {x : α} (hx : x ∈ t) : x ∈ X := by
  rw [← h]; exact List.mem_append_right _ hx

theorem eq_nil_of_forall {α : Type} {w : List α} (h : ∀ x ∈ w, False) : w = [] := by
  cases w with
  | nil => rfl
  | cons x w => exact absurd (h x (by simp)) id

/-! ### characters -/

def isLetter (x : Char) : Prop := (65 ≤ x.toNat ∧ x.toNat ≤ 90) ∨ (97 ≤ x.toNat ∧ x.toNat ≤ 122)
def AllLetter (w : List Char) : Prop := ∀ x ∈ w, isLetter x
instance (x : Char) : Decidable (isLetter x) := by unfold isLetter; infer_instance
instance (w : List Char) : Decidable (AllLetter w) := by unfold AllLetter; infer_instance

/-- an identifier of the dialect, as a list of characters -/
def IdentL (n : List Char) : Prop := ∃ x r, n = x :: r ∧ idS.mem x = true ∧ AllIdC r
/-- the characters of an operand list -/
def AllArg (w : List Char) : Prop := ∀ x ∈ w, idC.mem x = true ∨ x = ',' ∨ x = ' '

theorem idC_of_idS {x : Char} (h : idS.mem x = true) : idC.mem x = true := by
  rw [idS_mem] at h; rw [idC_mem]; omega
theorem IdentL.all {n : List Char} (h : IdentL n) : AllIdC n := by
  obtain ⟨x, r, rfl, hx, hr⟩ := h
  intro y hy
  rcases List.mem_cons.mp hy with rfl | hy
  · exact idC_of_idS hx
  · exact hr y hy
theorem IdentL.ne_nil {n : List Char} (h : IdentL n) : n ≠ [] := by
  obtain ⟨x, r, rfl, _⟩ := h; simp

theorem idC_of_letter {x : Char} (h : isLetter x) : idC.mem x = true := by
  unfold isLetter at h; rw [idC_mem]; omega
theorem not_ws_of_idC {x : Char} (h : idC.mem x = true) : wsS.mem x = true → False := by
  rw [idC_mem] at h; rw [wsS_mem]; omega
theorem not_idS_of_ws {x : Char} (h : wsS.mem x = true) : idS.mem x = true → False := by
  rw [wsS_mem] at h; rw [idS_mem]; omega
theorem idC_ne {x : Char} (h : idC.mem x = true) :
    x ≠ '(' ∧ x ≠ ')' ∧ x ≠ '=' ∧ x ≠ ' ' ∧ x ≠ ',' ∧ x ≠ '\n' ∧ x ≠ '\t' ∧ x ≠ '#' := by
  rw [idC_mem] at h
  simp only [ne_eq, eq_iff, Char.reduceToNat]
  omega
theorem ws_ne {x : Char} (h : wsS.mem x = true) : x ≠ '(' ∧ x ≠ ')' ∧ x ≠ '=' := by
  rw [wsS_mem] at h
  simp only [ne_eq, eq_iff, Char.reduceToNat]
  omega
theorem arg_ne {x : Char} (h : idC.mem x = true ∨ x = ',' ∨ x = ' ') : x ≠ '(' ∧ x ≠ ')' ∧ x ≠ '=' := by
  rcases h with h | rfl | rfl
  · exact ⟨(idC_ne h).1, (idC_ne h).2.1, (idC_ne h).2.2.1⟩
  · decide
  · decide
theorem ws_space : wsS.mem ' ' = true := by decide
theorem ws_nl : wsS.mem '\n' = true := by decide
theorem nrp_of_ne {x : Char} (h : x ≠ ')') : nrp.mem x = true := by
  rw [nrp_mem]; intro e; exact h ((eq_iff _ _).mpr (by rw [e]; rfl))
theorem ne_of_nrp {x : Char} (h : nrp.mem x = true) : x ≠ ')' := by
  rw [nrp_mem] at h; intro e; rw [e] at h; exact h rfl

theorem AllLetter.not_mem {K : List Char} (h : AllLetter K) {c : Char} (hc : ¬ isLetter c) : c ∉ K :=
  fun hm => hc (h c hm)
theorem AllIdC.not_mem {K : List Char} (h : AllIdC K) {c : Char} (hc : idC.mem c = false) : c ∉ K :=
  fun hm => by rw [h c hm] at hc; cases hc
theorem AllWs.not_mem {K : List Char} (h : AllWs K) {c : Char} (hc : wsS.mem c = false) : c ∉ K :=
  fun hm => by rw [h c hm] at hc; cases hc
theorem AllArg.not_mem {K : List Char} (h : AllArg K) {c : Char} (hc : c = '(' ∨ c = ')' ∨ c = '=') : c ∉ K := by
  intro hm
  have := arg_ne (h c hm)
  rcases hc with rfl | rfl | rfl
  · exact this.1 rfl
  · exact this.2.1 rfl
  · exact this.2.2 rfl

theorem allWs_append {a b : List Char} : AllWs (a ++ b) ↔ AllWs a ∧ AllWs b := by
  unfold AllWs; simp only [List.mem_append]
  exact ⟨fun h => ⟨fun x hx => h x (Or.inl hx), fun x hx => h x (Or.inr hx)⟩, fun h x hx => hx.elim (h.1 x) (h.2 x)⟩

end BenchText
end CG
