/- helper lemmas for C11 (selected endpoints): unfolding the endpoint branch of `sensitization_transform`; the re-marked
   sub-circuit is equivalent to the induced cone; the default-branch view applies to it -/
import CG.Proofs.SensEEquiv
import CG.Proofs.SensESub
set_option linter.unusedSimpArgs false
set_option linter.unusedVariables false
namespace CG
namespace SensE
open Circuit Miter Q Query

/-- re-marking of the outputs after `subcircuit` -/
def remark (E : List Name) (sc0 : Circuit) : Circuit :=
  sc0.nodeNames.foldl (fun acc x => acc.setOutRaw x (E.contains x)) sc0

theorem steps_E {c m : Circuit} {n : Name} {E : List Name} {ord : Ord} {ordE : List (Name × Name) → List (Name × Name)}
    (hb : c.bbs = []) (hE : E ≠ []) (h : Tx.sensitizationTransform c n E ord ordE = .ok m) :
    ∃ fi sc0 m0 m2 nm, Query.transitiveFanin c E = .ok fi ∧ n ∈ E ++ fi ∧
      Tx.subcircuit c (ord (dedup (E ++ fi))) false ordE = .ok sc0 ∧
      Tx.miter (remark E sc0) none none none ord = .ok m0 ∧ m0.has ("c1_" ++ n) = true ∧
      (Sens.cut m0 nm n).setType ["c1_" ++ n] "not" = (m2, .ok) ∧
      m2.connect ["c0_" ++ n] ["c1_" ++ n] = (m, .ok) := by
  have hEe : E.isEmpty = false := by
    cases E with
    | nil => exact absurd rfl hE
    | cons a l => rfl
  unfold Tx.sensitizationTransform at h
  simp only [hb, hEe, List.isEmpty_nil, Bool.not_true, Bool.false_eq_true, if_false] at h
  obtain ⟨r, hr, h⟩ := bind_ok h
  cases hfi : Query.transitiveFanin c E with
  | error e => rw [hfi] at hr; cases hr
  | ok fi =>
    rw [hfi] at hr
    dsimp only at hr
    by_cases hchk : (!fi.contains n && !E.contains n) = true
    · rw [if_pos hchk] at hr; cases hr
    · rw [if_neg hchk] at hr
      obtain ⟨sc0, hs0, hr⟩ := bind_ok hr
      injection hr with hr
      subst hr
      obtain ⟨m0, h0, h⟩ := bind_ok h
      dsimp only at h0 h
      have hmem : n ∈ E ++ fi := by
        rw [List.mem_append]
        simp only [Bool.and_eq_true, Bool.not_eq_true', not_and, Bool.not_eq_false] at hchk
        by_cases hf : fi.contains n = true
        · exact Or.inr (List.contains_iff_mem.1 hf)
        · exact Or.inl (List.contains_iff_mem.1 (hchk (by simpa using hf)))
      by_cases hh : m0.has ("c1_" ++ n) = true
      · generalize hnm : c.name ++ "_sensitize_" ++ n ++ "_to_" ++ "_".intercalate E = nm at h
        have e : ({ m0 with name := nm } : Circuit).has ("c1_" ++ n) = true := hh
        simp only [e, Bool.not_true, Bool.false_eq_true, if_false] at h
        obtain ⟨m2, h2, h3⟩ := bind_ok h
        exact ⟨fi, sc0, m0, m2, nm, rfl, hmem, hs0, h0, hh, liftO_ok h2, liftO_ok h3⟩
      · generalize hnm : c.name ++ "_sensitize_" ++ n ++ "_to_" ++ "_".intercalate E = nm at h
        have e : ({ m0 with name := nm } : Circuit).has ("c1_" ++ n) = false := by
          have : m0.has ("c1_" ++ n) = false := by simpa using hh
          exact this
        simp only [e, Bool.not_false, if_true] at h
        cases h


/-! ### the re-marked sub-circuit -/

theorem foldl_setOutRaw (f : Name → Bool) : ∀ (l : List Name) (sc : Circuit),
    l.foldl (fun acc x => acc.setOutRaw x (f x)) sc =
      { sc with nodes := sc.nodes.map (fun p => if l.contains p.1 then (p.1, { p.2 with out := some (f p.1) }) else p) } := by
  intro l
  induction l with
  | nil =>
    intro sc
    simp only [List.foldl_nil, List.contains_nil, Bool.false_eq_true, if_false, List.map_id']
  | cons x l ih =>
    intro sc
    rw [List.foldl_cons, ih]
    unfold setOutRaw
    simp only [List.map_map]
    congr 1
    apply List.map_congr_left
    intro p hp
    simp only [Function.comp, List.contains_cons]
    by_cases h1 : (p.1 == x) = true
    · have e : p.1 = x := by simpa using h1
      simp only [h1, if_true, Bool.true_or]
      rw [e]
      simp only [ite_self]
    · simp only [h1, if_false, Bool.false_or]
      rfl

theorem remark_nodes (E : List Name) (sc0 : Circuit) :
    (remark E sc0).nodes = sc0.nodes.map (fun p => (p.1, { p.2 with out := some (E.contains p.1) })) := by
  unfold remark
  rw [foldl_setOutRaw]
  apply List.map_congr_left
  intro p hp
  have : sc0.nodeNames.contains p.1 = true :=
    List.contains_iff_mem.2 (List.mem_map.2 ⟨p, hp, rfl⟩)
  simp only [this, if_true]

theorem remark_edges (E : List Name) (sc0 : Circuit) : (remark E sc0).edges = sc0.edges := by
  unfold remark
  rw [foldl_setOutRaw]

theorem remark_bbs (E : List Name) (sc0 : Circuit) : (remark E sc0).bbs = sc0.bbs := by
  unfold remark
  rw [foldl_setOutRaw]

/-- attribute of node `x` in the re-marked sub-circuit -/
def remAttr (c : Circuit) (E : List Name) (x : Name) : Attr := { ty := c.ty? x, out := some (E.contains x) }

theorem remark_shape {c sc0 : Circuit} {keep E : List Name} {ordE : List (Name × Name) → List (Name × Name)}
    (S : SubShape c keep ordE sc0) : (remark E sc0).nodes = keep.map (fun x => (x, remAttr c E x)) := by
  rw [remark_nodes, S.nodes, List.map_map]
  rfl

theorem lookup_map_key {β : Type} (g : Name → β) : ∀ (l : List Name) (x : Name),
    (l.map (fun y => (y, g y))).lookup x = if x ∈ l then some (g x) else none := by
  intro l x
  induction l with
  | nil => simp
  | cons y l ih =>
    rw [List.map_cons, List.lookup_cons]
    by_cases h : (x == y) = true
    · have e : x = y := by simpa using h
      subst e
      simp
    · have e : x ≠ y := by simpa using h
      simp only [h, List.mem_cons, e, false_or]
      exact ih

theorem ty?_none_of_not_has' {c : Circuit} {x : Name} (h : c.has x = false) : c.ty? x = none := by
  cases ht : c.ty? x with
  | none => rfl
  | some t => rw [has_of_ty? ht] at h; cases h

/-- the re-marked sub-circuit has the typed nodes and the edge set of the induced cone -/
theorem ceq_cone {c sc0 : Circuit} {K E : List Name} {ord : Ord} {ordE : List (Name × Name) → List (Name × Name)}
    (hord : OrdOK ord) (hordE : ∀ l, (ordE l).Perm l) (w : WF c) (hK : ∀ x ∈ K, c.has x = true)
    (S : SubShape c (ord (dedup K)) ordE sc0) : CEq (Tx.inducedSub c K) (remark E sc0) := by
  have hmem : ∀ x, x ∈ ord (dedup K) ↔ x ∈ K := fun x => by rw [Sens.ord_mem hord, mem_dedup]
  have hnames : (remark E sc0).nodeNames = ord (dedup K) := by
    unfold Circuit.nodeNames
    rw [remark_shape S, List.map_map]
    exact List.map_id' _
  refine ⟨?_, ?_, ?_⟩
  · rw [hnames]
    apply (List.perm_ext_iff_of_nodup (Sens.ord_nodup hord (nodup_dedup _)) (Sens.sub_wf w).nodup).2
    intro x
    rw [hmem, ← has_iff_mem, Sens.sub_has]
    exact ⟨fun h => ⟨hK x h, h⟩, fun h => h.2⟩
  · intro x
    have e1 : (remark E sc0).ty? x = if x ∈ ord (dedup K) then c.ty? x else none := by
      unfold Circuit.ty? Circuit.attr?
      rw [remark_shape S, lookup_map_key]
      by_cases hx : x ∈ ord (dedup K)
      · rw [if_pos hx, if_pos hx]; rfl
      · rw [if_neg hx, if_neg hx]; rfl
    rw [e1]
    by_cases hx : x ∈ K
    · rw [if_pos ((hmem x).2 hx), Sens.sub_ty hx]
    · rw [if_neg (fun h => hx ((hmem x).1 h))]
      symm
      apply ty?_none_of_not_has'
      cases hh : (Tx.inducedSub c K).has x with
      | false => rfl
      | true => exact absurd ((Sens.sub_has x).1 hh).2 hx
  · rw [remark_edges, S.edges]
    unfold Tx.inducedSub
    simp only []
    have : ∀ e : Name × Name, ((ord (dedup K)).contains e.1 && (ord (dedup K)).contains e.2) =
        (K.contains e.1 && K.contains e.2) := by
      intro e
      have h1 : ∀ y, (ord (dedup K)).contains y = K.contains y := by
        intro y
        cases hy : K.contains y with
        | true => exact List.contains_iff_mem.2 ((hmem y).2 (List.contains_iff_mem.1 hy))
        | false =>
          cases hy' : (ord (dedup K)).contains y with
          | false => rfl
          | true =>
            rw [List.contains_iff_mem.2 ((hmem y).1 (List.contains_iff_mem.1 hy'))] at hy
            cases hy
      rw [h1, h1]
    simp only [this]
    exact (hordE c.edges).filter _

/-! ### the cone of the selected endpoints -/

theorem tfi_has {c : Circuit} {E tfi : List Name} (htfi : transitiveFanin c E = .ok tfi) :
    ∀ e ∈ E, c.has e = true := by
  intro e he
  unfold transitiveFanin at htfi
  by_cases hany : (E.any fun n => !c.has n) = true
  · rw [if_pos hany] at htfi; cases htfi
  · cases hh : c.has e with
    | true => rfl
    | false =>
      exfalso
      apply hany
      rw [List.any_eq_true]
      exact ⟨e, he, by rw [hh]; rfl⟩

theorem mem_tfiE {c : Circuit} {E tfi : List Name} (w : WF c) (htfi : transitiveFanin c E = .ok tfi) (x : Name) :
    x ∈ tfi ↔ ∃ e ∈ E, Plus (EdgeRel c) x e ∧ x ≠ e := by
  rw [transitiveFanin_ok c E (tfi_has htfi)] at htfi
  injection htfi with htfi
  rw [← htfi, mem_tfi c w]

theorem cone_has {c : Circuit} {E tfi : List Name} (w : WF c) (htfi : transitiveFanin c E = .ok tfi) :
    ∀ x ∈ E ++ tfi, c.has x = true := by
  intro x hx
  rcases List.mem_append.1 hx with hx | hx
  · exact tfi_has htfi x hx
  · obtain ⟨e, _, hp, _⟩ := (mem_tfiE w htfi x).1 hx
    obtain ⟨b, hb, _⟩ := hp.head
    exact (w.closed (x, b) hb).1

/-- the cone of the selected endpoints is closed under fan-in -/
theorem cone_closed {c : Circuit} {E tfi : List Name} (w : WF c) (htfi : transitiveFanin c E = .ok tfi) :
    ∀ u y, y ∈ E ++ tfi → (u, y) ∈ c.edges → u ∈ E ++ tfi := by
  intro u y hy he
  have key : ∀ e ∈ E, Plus (EdgeRel c) u e → u ∈ E ++ tfi := by
    intro e hee hp
    by_cases hue : u = e
    · rw [hue]; exact List.mem_append.2 (Or.inl hee)
    · exact List.mem_append.2 (Or.inr ((mem_tfiE w htfi u).2 ⟨e, hee, hp, hue⟩))
  rcases List.mem_append.1 hy with hy | hy
  · exact key y hy (Plus.single he)
  · obtain ⟨e, hee, hp, _⟩ := (mem_tfiE w htfi y).1 hy
    exact key e hee (Plus.of_step_star he hp.star)

/-- the re-marked sub-circuit on the cone of `E`: equivalent to the induced cone, lint-clean, outputs exactly `E` -/
structure SubFacts (c : Circuit) (E K : List Name) (sc : Circuit) : Prop where
  eq : CEq (Tx.inducedSub c K) sc
  wcone : WF (Tx.inducedSub c K)
  lint : LintClean sc
  bbs : sc.bbs = []
  has : ∀ x, sc.has x = true ↔ x ∈ K
  out : ∀ e, e ∈ sc.outputs ↔ e ∈ E
  nobb : ∀ x t, sc.ty? x = some t → t ≠ "bb_input" ∧ t ≠ "bb_output"

theorem sub_facts {c sc0 : Circuit} {E tfi : List Name} {ord : Ord} {ordE : List (Name × Name) → List (Name × Name)}
    (hord : OrdOK ord) (hordE : ∀ l, (ordE l).Perm l) (hcl : LintClean c)
    (htfi : transitiveFanin c E = .ok tfi) (S : SubShape c (ord (dedup (E ++ tfi))) ordE sc0) :
    SubFacts c E (E ++ tfi) (remark E sc0) := by
  have w := hcl.toWF
  have hK := cone_has w htfi
  have hclosed := cone_closed w htfi
  have eq : CEq (Tx.inducedSub c (E ++ tfi)) (remark E sc0) := ceq_cone hord hordE w hK S
  have wcone : WF (Tx.inducedSub c (E ++ tfi)) := Sens.sub_wf w
  have lint : LintClean (remark E sc0) := eq.lint (Sens.sub_lint hcl hclosed)
  have bbs : (remark E sc0).bbs = [] := by rw [remark_bbs, S.bbs]
  have hmem : ∀ x, x ∈ ord (dedup (E ++ tfi)) ↔ x ∈ E ++ tfi := fun x => by rw [Sens.ord_mem hord, mem_dedup]
  have has : ∀ x, (remark E sc0).has x = true ↔ x ∈ E ++ tfi := by
    intro x
    rw [eq.has, Sens.sub_has]
    exact ⟨fun h => h.2, fun h => ⟨hK x h, h⟩⟩
  have hout : ∀ e, e ∈ (remark E sc0).outputs ↔ e ∈ E := by
    intro e
    constructor
    · intro he
      obtain ⟨a, ha⟩ := has_exists (mem_outputs_has he)
      have ho := (mem_outputs_of_mem lint.nodup ha).1 he
      rw [remark_shape S] at ha
      obtain ⟨x, _, hx⟩ := List.mem_map.1 ha
      injection hx with hx1 hx2
      subst hx1
      rw [← hx2] at ho
      unfold remAttr at ho
      simp only [Option.some.injEq] at ho
      exact List.contains_iff_mem.1 ho
    · intro he
      have hk : e ∈ ord (dedup (E ++ tfi)) := (hmem e).2 (List.mem_append.2 (Or.inl he))
      have ha : (e, remAttr c E e) ∈ (remark E sc0).nodes := by
        rw [remark_shape S]
        exact List.mem_map.2 ⟨e, hk, rfl⟩
      apply (mem_outputs_of_mem lint.nodup ha).2
      unfold remAttr
      simp only [Option.some.injEq]
      exact List.contains_iff_mem.2 he
  refine ⟨eq, wcone, lint, bbs, has, hout, ?_⟩
  intro x t ht
  have hx : x ∈ E ++ tfi := (has x).1 (has_of_ty? ht)
  rw [eq.ty, Sens.sub_ty hx] at ht
  obtain ⟨t', ht', h1, h2⟩ := S.typed x ((hmem x).2 hx)
  rw [ht] at ht'
  injection ht' with ht'
  subst ht'
  exact ⟨h1, h2⟩

/-- what a successful `sensitization_transform(c, n, E)` is: the default-branch view over a sub-circuit `sc` that is
    equivalent to the cone of `E` and has exactly the outputs `E` -/
structure EView (c : Circuit) (n : Name) (E K : List Name) (m sc m0 : Circuit) (sp ep : List Name) : Prop where
  hn : n ∈ K
  hEK : ∀ e ∈ E, e ∈ K
  eq : CEq (Tx.inducedSub c K) sc
  wcone : WF (Tx.inducedSub c K)
  lint : LintClean sc
  bbs : sc.bbs = []
  has : ∀ x, sc.has x = true ↔ x ∈ K
  sv : Sens.SView sc n sp ep m0 m
  spN : sp.Nodup
  epN : ep.Nodup
  spne : sp ≠ []
  epne : ep ≠ []
  hsp : ∀ s, s ∈ sp ↔ s ∈ sc.inputs
  hep : ∀ e, e ∈ ep ↔ e ∈ E
  nbo : ∀ q ∈ sc.nodes, q.2.ty ≠ some "bb_output"

/-- the cone contains an input, so the sub-circuit has one -/
theorem SubFacts.inputs_ne {c sc : Circuit} {E K : List Name} (F : SubFacts c E K sc) (w : WF c)
    (hin : ∃ s ∈ c.inputs, s ∈ K) : sc.inputs ≠ [] := by
  obtain ⟨s, hs, hsK⟩ := hin
  have h1 : s ∈ (Tx.inducedSub c K).inputs := by
    rw [CG.mem_inputs F.wcone.nodup, Sens.sub_ty hsK]
    exact (CG.mem_inputs w.nodup s).1 hs
  have h2 := (F.eq.inputs F.wcone s).2 h1
  intro e
  rw [e] at h2
  cases h2

theorem SubFacts.outputs_ne {c sc : Circuit} {E K : List Name} (F : SubFacts c E K sc) (hE : E ≠ []) :
    sc.outputs ≠ [] := by
  obtain ⟨e, he⟩ := List.exists_mem_of_ne_nil E hE
  have := (F.out e).2 he
  intro e'
  rw [e'] at this
  cases this

theorem eview {c m : Circuit} {n : Name} {E tfi : List Name} {ord : Ord} {ordE : List (Name × Name) → List (Name × Name)}
    (hord : OrdOK ord) (hordE : ∀ l, (ordE l).Perm l) (hcl : LintClean c) (hb : c.bbs = [])
    (hE : E ≠ []) (htfi : transitiveFanin c E = .ok tfi) (hin : ∃ s ∈ c.inputs, s ∈ E ++ tfi)
    (h : Tx.sensitizationTransform c n E ord ordE = .ok m) :
    ∃ sc m0 sp ep, EView c n E (E ++ tfi) m sc m0 sp ep := by
  obtain ⟨fi, sc0, m0, m2, nm, hfi, hn, hs0, h0, hh, h2, h3⟩ := steps_E hb hE h
  rw [htfi] at hfi
  injection hfi with hfi
  subst hfi
  have w := hcl.toWF
  have S := subcircuit_shape w hordE (Sens.ord_nodup hord (nodup_dedup _)) hs0
  have F := sub_facts hord hordE hcl htfi S
  obtain ⟨sp, ep, V, hspN, hepN, hspne, hepne, hsp, hep, hnbo⟩ :=
    Sens.self_miter hord F.lint F.bbs (F.inputs_ne w hin) (F.outputs_ne hE) h0
  have Sv := Sens.sview_of_steps V hh h2 h3
  exact ⟨remark E sc0, m0, sp, ep, hn, fun e he => List.mem_append.2 (Or.inl he), F.eq, F.wcone, F.lint, F.bbs, F.has,
    Sv, hspN, hepN, hspne, hepne, hsp, fun e => (hep e).trans (F.out e), hnbo⟩

end SensE
end CG
