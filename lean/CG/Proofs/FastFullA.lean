/- C14 helper: invariant of the circuit the full reader's transformer builds when statements come in arbitrary order
   (nets are auto-created as `buf` on first use and redefined later), and its preservation by the API calls. -/
import CG.Proofs.FastFacts
namespace CG
namespace FV
open Verilog FastVerilog Circuit Ternary

/-- `Def` = nodes defined so far (with type), `E` = edges so far, `B` = registry so far, `U` = nets that may exist
    as auto-created, not yet defined buffers -/
structure FI (Def : Name → String → Prop) (E : Name × Name → Prop) (B : Name × BBox → Prop) (U : Name → Prop)
    (c : Circuit) : Prop where
  wf : WF c
  tie0 : c.attr? "tie_0" = some { ty := some "0", out := some false }
  tie1 : c.attr? "tie_1" = some { ty := some "1", out := some false }
  tiex : c.attr? "tie_x" = some { ty := some "x", out := some false }
  def_ : ∀ x t, Def x t → c.attr? x = some { ty := some t, out := some false }
  other : ∀ x, c.has x = true → VR.isTie x ∨ (∃ t, Def x t) ∨ (c.attr? x = some bufAttr ∧ U x)
  edges : ∀ e, e ∈ c.edges ↔ E e
  bbs : ∀ q, q ∈ c.bbs ↔ B q
  defName : ∀ x t, Def x t → ¬ VR.isTie x
  defTy : ∀ x t, Def x t → Plain x → t ≠ "bb_input" ∧ t ≠ "bb_output"
  edgeDef : ∀ e, E e → ∃ t, Def e.2 t
  uPlain : ∀ x, U x → Plain x

theorem FI.congr {Def Def' : Name → String → Prop} {E E' : Name × Name → Prop} {B B' : Name × BBox → Prop}
    {U : Name → Prop} {c : Circuit} (h : FI Def E B U c) (hD : ∀ x t, Def' x t ↔ Def x t) (hE : ∀ e, E' e ↔ E e)
    (hB : ∀ q, B' q ↔ B q) : FI Def' E' B' U c where
  wf := h.wf
  tie0 := h.tie0
  tie1 := h.tie1
  tiex := h.tiex
  def_ := fun x t hd => h.def_ x t ((hD x t).1 hd)
  other := fun x hx => by
    rcases h.other x hx with h1 | ⟨t, h1⟩ | h1
    · exact Or.inl h1
    · exact Or.inr (Or.inl ⟨t, (hD x t).2 h1⟩)
    · exact Or.inr (Or.inr h1)
  edges := fun e => by rw [h.edges, hE]
  bbs := fun q => by rw [h.bbs, hB]
  defName := fun x t hd => h.defName x t ((hD x t).1 hd)
  defTy := fun x t hd => h.defTy x t ((hD x t).1 hd)
  edgeDef := fun e he => by
    obtain ⟨t, ht⟩ := h.edgeDef e ((hE e).1 he)
    exact ⟨t, (hD _ t).2 ht⟩
  uPlain := h.uPlain

/-- the set of nets that may exist as auto-created buffers can be enlarged -/
theorem FI.mono_U {Def : Name → String → Prop} {E : Name × Name → Prop} {B : Name × BBox → Prop}
    {U U' : Name → Prop} {c : Circuit} (h : FI Def E B U c) (hU : ∀ x, U x → U' x) (hP : ∀ x, U' x → Plain x) :
    FI Def E B U' c where
  wf := h.wf
  tie0 := h.tie0
  tie1 := h.tie1
  tiex := h.tiex
  def_ := h.def_
  other := fun x hx => by
    rcases h.other x hx with h1 | h1 | ⟨h1, h2⟩
    · exact Or.inl h1
    · exact Or.inr (Or.inl h1)
    · exact Or.inr (Or.inr ⟨h1, hU x h2⟩)
  edges := h.edges
  bbs := h.bbs
  defName := h.defName
  defTy := h.defTy
  edgeDef := h.edgeDef
  uPlain := hP

section
variable {Def : Name → String → Prop} {E : Name × Name → Prop} {B : Name × BBox → Prop} {U : Name → Prop} {c : Circuit}

theorem FI.has_def (h : FI Def E B U c) {x : Name} {t : String} (hd : Def x t) : c.has x = true :=
  has_of_attr' (h.def_ x t hd)

theorem FI.has_tie0 (h : FI Def E B U c) : c.has "tie_0" = true := has_of_attr' h.tie0
theorem FI.has_tie1 (h : FI Def E B U c) : c.has "tie_1" = true := has_of_attr' h.tie1
theorem FI.has_tiex (h : FI Def E B U c) : c.has "tie_x" = true := has_of_attr' h.tiex

theorem FI.has_tie (h : FI Def E B U c) {x : Name} (hx : VR.isTie x) : c.has x = true := by
  rcases hx with rfl | rfl | rfl
  · exact h.has_tie0
  · exact h.has_tie1
  · exact h.has_tiex

theorem FI.tie_attr (h : FI Def E B U c) {x : Name} (hx : VR.isTie x) :
    ∃ t, c.attr? x = some { ty := some t, out := some false } ∧ t ≠ "bb_input" ∧ t ≠ "bb_output" := by
  rcases hx with rfl | rfl | rfl
  · exact ⟨"0", h.tie0, by decide, by decide⟩
  · exact ⟨"1", h.tie1, by decide, by decide⟩
  · exact ⟨"x", h.tiex, by decide, by decide⟩

/-- a plain existing node is not typed as a pin -/
theorem FI.plain_ty (h : FI Def E B U c) {x : Name} (hx : c.has x = true) (hp : Plain x) :
    ∃ t, c.ty? x = some t ∧ t ≠ "bb_input" ∧ t ≠ "bb_output" := by
  rcases h.other x hx with h1 | ⟨t, h1⟩ | ⟨h1, _⟩
  · exact absurd h1 hp.not_isTie
  · exact ⟨t, ty_of_attr (h.def_ x t h1), h.defTy x t h1 hp⟩
  · exact ⟨"buf", ty_of_attr h1, by decide, by decide⟩

theorem FI.src_ty (h : FI Def E B U c) {u : Name} (hu : u = "tie_0" ∨ u = "tie_1" ∨ U u) (hx : c.has u = true) :
    ∃ t, c.ty? u = some t ∧ t ≠ "bb_input" ∧ t ≠ "bb_output" := by
  rcases hu with rfl | rfl | hu
  · exact ⟨"0", ty_of_attr h.tie0, by decide, by decide⟩
  · exact ⟨"1", ty_of_attr h.tie1, by decide, by decide⟩
  · exact h.plain_ty hx (h.uPlain u hu)

theorem FI.no_edge_into (h : FI Def E B U c) {n : Name} (hnew : ∀ t, ¬ Def n t) : ∀ e ∈ c.edges, e.2 ≠ n := by
  intro e he hen
  obtain ⟨t, ht⟩ := h.edgeDef e ((h.edges e).1 he)
  rw [hen] at ht
  exact hnew t ht

/-- `add_node(n, ty, fanin)` of the reader (allow_redefinition, add_connected_nodes) for a node not defined before -/
theorem fi_add (h : FI Def E B U c) (n ty : String) (F : List Name)
    (hn : Plain n) (hnew : ∀ t, ¬ Def n t)
    (hty : ty ∈ gateTypes ∨ ty = "input")
    (hF1 : ty = "buf" ∨ ty = "not" → F.length ≤ 1)
    (hF0 : ty = "input" → F = [])
    (hFm : ∀ u ∈ F, u = "tie_0" ∨ u = "tie_1" ∨ U u) :
    ∃ c', c.add (VR.rdArgs n ty F) = (c', .ok, n) ∧ c'.name = c.name ∧
      FI (fun x t => Def x t ∨ (x = n ∧ t = ty)) (fun e => E e ∨ (e.1 ∈ F ∧ e.2 = n)) B U c' := by
  have hsup : ty ∈ Expected.supported_types := by
    rcases hty with hty | rfl
    · exact gate_supported hty
    · decide
  have hnp : ty ≠ "bb_input" ∧ ty ≠ "bb_output" := by
    rcases hty with hty | rfl
    · exact ⟨(VR.gate_facts hty).2.1, (VR.gate_facts hty).2.2.1⟩
    · exact ⟨by decide, by decide⟩
  obtain ⟨c', hadd, s, hbbs, hname⟩ := VR.add_ok' c n ty F hn.nameOK hsup hnp
    (fun hb => ⟨hF1 hb, fun _ => h.no_edge_into hnew⟩)
    (by
      intro hc
      rcases hty with hty | rfl
      · exact absurd hc (VR.gate_facts hty).2.2.2.1
      · exact hF0 rfl)
    (by
      intro u hu
      cases hx : c.has u with
      | true => exact Or.inr (Or.inl (h.src_ty (hFm u hu) hx))
      | false =>
        right; right
        refine ⟨rfl, ?_⟩
        rcases hFm u hu with rfl | rfl | hU
        · rw [h.has_tie0] at hx; cases hx
        · rw [h.has_tie1] at hx; cases hx
        · exact (h.uPlain u hU).nameOK)
  refine ⟨c', hadd, hname, ?_⟩
  have hedge : ∀ e, e ∈ c'.edges ↔ (E e ∨ (e.1 ∈ F ∧ e.2 = n)) := by
    intro e
    rw [s.edges, h.edges]
    simp [VR.rdArgs]
  have hhas : ∀ x, c'.has x = true ↔ (c.has x = true ∨ x = n ∨ x ∈ F) := by
    intro x
    rw [s.has]
    simp [VR.rdArgs]
  have hself : c'.attr? n = some { ty := some ty, out := some false } := s.attr_self
  have hold : ∀ x, x ≠ n → c.has x = true → c'.attr? x = c.attr? x := s.attr_old
  have hnt : ¬ VR.isTie n := hn.not_isTie
  have htie : ∀ x, VR.isTie x → c'.attr? x = c.attr? x := by
    intro x hx
    exact hold x (fun e => hnt (e ▸ hx)) (h.has_tie hx)
  constructor
  · refine ⟨s.nodupN h.wf.nodup, s.nodupE h.wf.edgesNodup, ?_⟩
    intro e he
    rcases (hedge e).1 he with h1 | ⟨h1, h2⟩
    · obtain ⟨g1, g2⟩ := h.wf.closed e ((h.edges e).2 h1)
      exact ⟨(hhas _).2 (Or.inl g1), (hhas _).2 (Or.inl g2)⟩
    · exact ⟨(hhas _).2 (Or.inr (Or.inr h1)), (hhas _).2 (Or.inr (Or.inl h2))⟩
  · rw [htie _ (Or.inl rfl)]; exact h.tie0
  · rw [htie _ (Or.inr (Or.inl rfl))]; exact h.tie1
  · rw [htie _ (Or.inr (Or.inr rfl))]; exact h.tiex
  · rintro x t (hd | ⟨rfl, rfl⟩)
    · have hxn : x ≠ n := fun e => hnew t (e ▸ hd)
      rw [hold x hxn (h.has_def hd)]
      exact h.def_ x t hd
    · exact hself
  · intro x hx
    by_cases hxn : x = n
    · exact Or.inr (Or.inl ⟨ty, Or.inr ⟨hxn, rfl⟩⟩)
    · cases hcx : c.has x with
      | true =>
        rcases h.other x hcx with h1 | ⟨t, h1⟩ | ⟨h1, h2⟩
        · exact Or.inl h1
        · exact Or.inr (Or.inl ⟨t, Or.inl h1⟩)
        · exact Or.inr (Or.inr ⟨by rw [hold x hxn hcx]; exact h1, h2⟩)
      | false =>
        right; right
        refine ⟨s.attr_new x hxn hcx hx, ?_⟩
        rcases (hhas x).1 hx with h1 | h1 | h1
        · rw [hcx] at h1; cases h1
        · exact absurd h1 hxn
        · rcases hFm x h1 with rfl | rfl | hU
          · rw [h.has_tie0] at hcx; cases hcx
          · rw [h.has_tie1] at hcx; cases hcx
          · exact hU
  · exact hedge
  · intro q; rw [hbbs]; exact h.bbs q
  · rintro x t (hd | ⟨rfl, rfl⟩)
    · exact h.defName x t hd
    · exact hnt
  · rintro x t (hd | ⟨rfl, rfl⟩)
    · exact h.defTy x t hd
    · exact fun _ => hnp
  · rintro e (he | ⟨_, he⟩)
    · obtain ⟨t, ht⟩ := h.edgeDef e he
      exact ⟨t, Or.inl ht⟩
    · exact ⟨ty, Or.inr ⟨he, rfl⟩⟩
  · exact h.uPlain

/-- a plain `add(u, "buf")` of a net that is only used so far -/
theorem fi_fresh (h : FI Def E B U c) {u : Name} (hu : U u) (hfresh : c.has u = false) :
    FI Def E B U (c.addNodeAttr u { ty := some "buf", out := some false }) := by
  have hne : ∀ x, c.has x = true → x ≠ u := by
    rintro x hx rfl; rw [hfresh] at hx; cases hx
  have hattr : ∀ x, c.has x = true → (c.addNodeAttr u { ty := some "buf", out := some false }).attr? x = c.attr? x := by
    intro x hx; rw [addNodeAttr_attr?, if_neg (hne x hx)]
  have hself : (c.addNodeAttr u { ty := some "buf", out := some false }).attr? u = some bufAttr := by
    rw [addNodeAttr_attr?, if_pos rfl, attr?_none_of_not_has hfresh]; rfl
  constructor
  · refine ⟨addNodeAttr_nodup u _ h.wf.nodup, by rw [addNodeAttr_edges]; exact h.wf.edgesNodup, ?_⟩
    intro e he
    rw [addNodeAttr_edges] at he
    obtain ⟨g1, g2⟩ := h.wf.closed e he
    rw [addNodeAttr_has, addNodeAttr_has, g1, g2]
    exact ⟨rfl, rfl⟩
  · rw [hattr _ h.has_tie0]; exact h.tie0
  · rw [hattr _ h.has_tie1]; exact h.tie1
  · rw [hattr _ h.has_tiex]; exact h.tiex
  · intro x t hd; rw [hattr _ (h.has_def hd)]; exact h.def_ x t hd
  · intro x hx
    rw [addNodeAttr_has, Bool.or_eq_true, beq_iff_eq] at hx
    by_cases hcx : c.has x = true
    · rcases h.other x hcx with h1 | h1 | ⟨h1, h2⟩
      · exact Or.inl h1
      · exact Or.inr (Or.inl h1)
      · exact Or.inr (Or.inr ⟨by rw [hattr x hcx]; exact h1, h2⟩)
    · rcases hx with hx | rfl
      · exact absurd hx hcx
      · exact Or.inr (Or.inr ⟨hself, hu⟩)
  · intro e; rw [addNodeAttr_edges]; exact h.edges e
  · intro q; rw [addNodeAttr_bbs]; exact h.bbs q
  · exact h.defName
  · exact h.defTy
  · exact h.edgeDef
  · exact h.uPlain

theorem not_isTie_pin {i : Name} (hi : Plain i) (g : Name) : ¬ VR.isTie (i ++ "." ++ g) := by
  obtain ⟨_, _, h3, h4, h5⟩ := pin_ne_ties hi g
  rintro (h | h | h)
  · exact h3 h
  · exact h4 h
  · exact h5 h

/-- `add_blackbox` on nets that exist already -/
theorem fi_bb (h : FI Def E B U c) (bb : BBox) (inst : Name) (conns : List (Name × Name)) (ord : Ord) (hord : OrdOK ord)
    (hinst : Plain inst) (hreg : ∀ d, ¬ B (inst, d))
    (hnd : (bb.ins ++ bb.outs).Nodup)
    (hpinnew : ∀ g ∈ bb.ins ++ bb.outs, ∀ t, ¬ Def (inst ++ "." ++ g) t)
    (hkeys : (conns.map (·.1)).Nodup) (hkm : ∀ p ∈ conns, p.1 ∈ bb.ins ++ bb.outs)
    (hin : ∀ p ∈ conns, p.1 ∈ bb.ins → c.has p.2 = true ∧ (p.2 = "tie_0" ∨ p.2 = "tie_1" ∨ U p.2))
    (hout : ∀ p ∈ conns, p.1 ∈ bb.outs → Def p.2 "buf" ∧ Plain p.2 ∧ (∀ e, E e → e.2 ≠ p.2))
    (houtnets : ∀ p ∈ conns, ∀ p' ∈ conns, p.1 ∈ bb.outs → p'.1 ∈ bb.outs → p.2 = p'.2 → p = p') :
    ∃ c', c.addBlackbox bb inst (conns.map (fun p => (p.1, if p.2.isEmpty then [] else [p.2]))) ord = (c', .ok) ∧
      c'.name = c.name ∧
      FI (fun x t => Def x t ∨ (∃ g ∈ bb.ins, x = inst ++ "." ++ g ∧ t = "bb_input") ∨
            (∃ g ∈ bb.outs, x = inst ++ "." ++ g ∧ t = "bb_output"))
         (fun e => E e ∨ ∃ p ∈ conns, (p.1 ∈ bb.ins ∧ e = (p.2, inst ++ "." ++ p.1)) ∨
            (p.1 ∈ bb.outs ∧ e = (inst ++ "." ++ p.1, p.2)))
         (fun q => B q ∨ q = (inst, bb)) U c' := by
  have hnd' := List.nodup_append.1 hnd
  have hfreshpin : ∀ g ∈ bb.ins ++ bb.outs, c.has (inst ++ "." ++ g) = false := by
    intro g hg
    cases hx : c.has (inst ++ "." ++ g) with
    | false => rfl
    | true =>
      exfalso
      rcases h.other _ hx with h1 | ⟨t, h1⟩ | ⟨_, h1⟩
      · exact not_isTie_pin hinst g h1
      · exact hpinnew g hg t h1
      · exact pin_not_plain inst g (h.uPlain _ h1)
  obtain ⟨c', hbb, hname, hbbs, hwf, hhas, hold, hpi, hpo, hedges⟩ := VR.addBlackbox_ok c bb inst conns ord hord h.wf
    (by
      cases hl : c.bbs.lookup inst with
      | none => rfl
      | some d => exact absurd ((h.bbs _).1 (lookup_mem hl)) (hreg d))
    hinst.nameOK hnd'.1 hnd'.2.1 (fun g h1 h2 => hnd'.2.2 g h1 g h2 rfl) hfreshpin hkeys hkm
    (by
      intro p hp
      rcases List.mem_append.1 (hkm p hp) with hm | hm
      · rcases (hin p hp hm).2 with e | e | e
        · rw [e]; decide
        · rw [e]; decide
        · exact (h.uPlain _ e).1
      · exact (hout p hp hm).2.1.1)
    (fun p hp hm => h.src_ty (hin p hp hm).2 (hin p hp hm).1)
    (fun p hp hm => ⟨ty_of_attr (h.def_ _ _ (hout p hp hm).1),
      fanin_nil_of (fun e he => (hout p hp hm).2.2 e ((h.edges e).1 he))⟩)
    houtnets
  refine ⟨c', hbb, hname, ?_⟩
  constructor
  · exact hwf
  · rw [hold _ h.has_tie0]; exact h.tie0
  · rw [hold _ h.has_tie1]; exact h.tie1
  · rw [hold _ h.has_tiex]; exact h.tiex
  · rintro x t (hd | ⟨g, hg, rfl, rfl⟩ | ⟨g, hg, rfl, rfl⟩)
    · rw [hold _ (h.has_def hd)]; exact h.def_ x t hd
    · exact hpi g hg
    · exact hpo g hg
  · intro x hx
    rcases (hhas x).1 hx with hcx | ⟨g, hg, rfl⟩
    · rcases h.other x hcx with h1 | ⟨t, h1⟩ | ⟨h1, h2⟩
      · exact Or.inl h1
      · exact Or.inr (Or.inl ⟨t, Or.inl h1⟩)
      · exact Or.inr (Or.inr ⟨by rw [hold x hcx]; exact h1, h2⟩)
    · rcases List.mem_append.1 hg with hg | hg
      · exact Or.inr (Or.inl ⟨"bb_input", Or.inr (Or.inl ⟨g, hg, rfl, rfl⟩)⟩)
      · exact Or.inr (Or.inl ⟨"bb_output", Or.inr (Or.inr ⟨g, hg, rfl, rfl⟩)⟩)
  · intro e; rw [hedges, h.edges]
  · intro q
    rw [hbbs, List.mem_append, List.mem_singleton, h.bbs]
  · rintro x t (hd | ⟨g, hg, rfl, rfl⟩ | ⟨g, hg, rfl, rfl⟩)
    · exact h.defName x t hd
    · exact not_isTie_pin hinst g
    · exact not_isTie_pin hinst g
  · rintro x t (hd | ⟨g, hg, rfl, rfl⟩ | ⟨g, hg, rfl, rfl⟩)
    · exact h.defTy x t hd
    · exact fun hp => absurd hp (pin_not_plain inst g)
    · exact fun hp => absurd hp (pin_not_plain inst g)
  · rintro e (he | ⟨p, hp, ⟨hm, rfl⟩ | ⟨hm, rfl⟩⟩)
    · obtain ⟨t, ht⟩ := h.edgeDef e he
      exact ⟨t, Or.inl ht⟩
    · exact ⟨"bb_input", Or.inr (Or.inl ⟨p.1, hm, rfl, rfl⟩)⟩
    · exact ⟨"buf", Or.inl (hout p hp hm).1⟩
  · exact h.uPlain

end

end FV
end CG
