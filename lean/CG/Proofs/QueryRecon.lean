/- C12 helpers: reconvergent fan-out nodes -/
import CG.Proofs.QueryClosure
namespace CG
namespace Q
open Query

theorem mem_pairs : ∀ (l : List Name) (a b : Name), (a, b) ∈ pairs l → a ∈ l ∧ b ∈ l ∧ (l.Nodup → a ≠ b)
  | [], _, _, h => by simp [pairs] at h
  | x :: xs, a, b, h => by
    simp only [pairs, List.mem_append, List.mem_map, Prod.mk.injEq] at h
    rcases h with ⟨y, hy, rfl, rfl⟩ | h
    · refine ⟨by simp, by simp [hy], ?_⟩
      intro hnd hab
      rw [List.nodup_cons] at hnd
      exact hnd.1 (hab ▸ hy)
    · obtain ⟨h1, h2, h3⟩ := mem_pairs xs a b h
      exact ⟨List.mem_cons_of_mem _ h1, List.mem_cons_of_mem _ h2, fun hnd => h3 (List.nodup_cons.mp hnd).2⟩

theorem pairs_complete : ∀ (l : List Name) (a b : Name), a ∈ l → b ∈ l → a ≠ b →
    (a, b) ∈ pairs l ∨ (b, a) ∈ pairs l
  | [], _, _, h, _, _ => by cases h
  | x :: xs, a, b, ha, hb, hab => by
    simp only [pairs, List.mem_append, List.mem_map, Prod.mk.injEq]
    rcases List.mem_cons.mp ha with rfl | ha'
    · rcases List.mem_cons.mp hb with rfl | hb'
      · exact absurd rfl hab
      · exact Or.inl (Or.inl ⟨b, hb', rfl, rfl⟩)
    · rcases List.mem_cons.mp hb with rfl | hb'
      · exact Or.inr (Or.inl ⟨a, ha', rfl, rfl⟩)
      · rcases pairs_complete xs a b ha' hb' hab with h | h
        · exact Or.inl (Or.inr h)
        · exact Or.inr (Or.inr h)

theorem two_le_length_of_mem_ne {l : List Name} {a b : Name} (ha : a ∈ l) (hb : b ∈ l) (hab : a ≠ b) :
    1 < l.length := by
  match l, ha, hb with
  | [y], ha, hb =>
    simp only [List.mem_singleton] at ha hb
    exact absurd (ha.trans hb.symm) hab
  | _ :: _ :: _, _, _ => simp

/-- `x` is the branch `a` itself or one of its proper descendants -/
def Branch (c : Circuit) (a x : Name) : Prop := x = a ∨ Plus (EdgeRel c) a x

theorem mem_branch (c : Circuit) (hwf : WF c) (a x : Name) : x ∈ a :: descendants c a ↔ Branch c a x := by
  rw [List.mem_cons, mem_descendants c hwf, Branch]
  constructor
  · rintro (h | h)
    · exact Or.inl h
    · exact Or.inr h.1
  · intro h
    by_cases hxa : x = a
    · exact Or.inl hxa
    · rcases h with h | h
      · exact Or.inl h
      · exact Or.inr ⟨h, hxa⟩

theorem branches_meet (c : Circuit) (hwf : WF c) (a b : Name) :
    (a :: descendants c a).any (fun x => (b :: descendants c b).contains x) = true ↔
      ∃ x, Branch c a x ∧ Branch c b x := by
  rw [List.any_eq_true]
  constructor
  · rintro ⟨x, hx, hc⟩
    rw [List.contains_iff_mem] at hc
    exact ⟨x, (mem_branch c hwf a x).mp hx, (mem_branch c hwf b x).mp hc⟩
  · rintro ⟨x, h1, h2⟩
    refine ⟨x, (mem_branch c hwf a x).mpr h1, ?_⟩
    rw [List.contains_iff_mem]
    exact (mem_branch c hwf b x).mpr h2

theorem reconvergent_iff (c : Circuit) (hwf : WF c) (ord : Ord) (hord : OrdOK ord) (n : Name) :
    n ∈ reconvergentFanoutNodes c ord ↔
      (c.has n = true ∧ ∃ a b x, a ≠ b ∧ (n, a) ∈ c.edges ∧ (n, b) ∈ c.edges ∧
        Branch c a x ∧ Branch c b x) := by
  unfold reconvergentFanoutNodes
  rw [List.mem_filter, (hord c.nodeNames).mem_iff, ← has_iff]
  have hfo : ∀ y, y ∈ ord (dedup (c.fanout n)) ↔ (n, y) ∈ c.edges := by
    intro y
    rw [(hord _).mem_iff, mem_dedup, mem_fanout]
  have hnd : (ord (dedup (c.fanout n))).Nodup := (hord _).nodup_iff.mpr (nodup_dedup _)
  apply and_congr_right
  intro _
  simp only [Bool.and_eq_true, decide_eq_true_eq, List.any_eq_true]
  constructor
  · rintro ⟨_, p, hp, hm⟩
    obtain ⟨h1, h2, h3⟩ := mem_pairs _ p.1 p.2 hp
    obtain ⟨x, hx1, hx2⟩ := (branches_meet c hwf p.1 p.2).mp (List.any_eq_true.mpr hm)
    exact ⟨p.1, p.2, x, h3 hnd, (hfo _).mp h1, (hfo _).mp h2, hx1, hx2⟩
  · rintro ⟨a, b, x, hab, ha, hb, hx1, hx2⟩
    have ha' := (hfo a).mpr ha
    have hb' := (hfo b).mpr hb
    refine ⟨two_le_length_of_mem_ne ha' hb' hab, ?_⟩
    rcases pairs_complete _ a b ha' hb' hab with h | h
    · exact ⟨(a, b), h, List.any_eq_true.mp ((branches_meet c hwf a b).mpr ⟨x, hx1, hx2⟩)⟩
    · exact ⟨(b, a), h, List.any_eq_true.mp ((branches_meet c hwf b a).mpr ⟨x, hx2, hx1⟩)⟩

end Q
end CG
