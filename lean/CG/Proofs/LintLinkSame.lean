/-
  CG.Proofs.LintLinkSame — `LintClean` and the dotted-name clause of `RegistryOK` only depend on the graph (attributes
  per node, edge set, registry entries), not on the order of the node / edge / registry lists.
-/
import CG.Proofs.LintLinkNames
import CG.Proofs.RUBasic
import CG.Proofs.ApiBasic
import CG.Proofs.LimitOps
namespace CG
namespace LintLink
open Circuit

/-- same circuit up to the order of nodes, wires and registry entries (`C03.SameGraph` without the name) -/
structure Same (a b : Circuit) : Prop where
  attr : ∀ n, a.attr? n = b.attr? n
  edges : ∀ e, e ∈ a.edges ↔ e ∈ b.edges
  bbs : ∀ q, q ∈ a.bbs ↔ q ∈ b.bbs

theorem Same.ty {a b : Circuit} (h : Same a b) (n : Name) : a.ty? n = b.ty? n := by
  unfold Circuit.ty?; rw [h.attr]

theorem Same.fanin_len {a b : Circuit} (h : Same a b) (ha : a.edges.Nodup) (hb : b.edges.Nodup) (n : Name) :
    (a.fanin n).length = (b.fanin n).length := by
  apply List.Perm.length_eq
  apply (List.perm_ext_iff_of_nodup (RU.fanin_nodup a ha n) (RU.fanin_nodup b hb n)).2
  intro x
  rw [RU.mem_fanin, RU.mem_fanin, h.edges]

theorem Same.fanout_len {a b : Circuit} (h : Same a b) (ha : a.edges.Nodup) (hb : b.edges.Nodup) (n : Name) :
    (a.fanout n).length = (b.fanout n).length := by
  apply List.Perm.length_eq
  apply (List.perm_ext_iff_of_nodup (RU.fanout_nodup a ha n) (RU.fanout_nodup b hb n)).2
  intro x
  rw [RU.mem_fanout, RU.mem_fanout, h.edges]

theorem Same.lintClean {a b : Circuit} (h : Same a b) (hwf : WF b) (hc : LintClean a) : LintClean b where
  toWF := hwf
  typed := fun p hp => by
    have hb : b.attr? p.1 = some p.2 := attr?_of_mem hwf.nodup (by exact hp)
    rw [← h.attr] at hb
    exact hc.typed (p.1, p.2) (attr?_mem hb)
  noFanin := fun n t hty hs => by
    have h0 := hc.noFanin n t ((h.ty n).trans hty) hs
    have hl := h.fanin_len hc.edgesNodup hwf.edgesNodup n
    rw [h0] at hl
    exact List.eq_nil_of_length_eq_zero hl.symm
  single := fun n t hty hs => by
    rw [← h.fanin_len hc.edgesNodup hwf.edgesNodup n]
    exact hc.single n t ((h.ty n).trans hty) hs
  multi := fun n t hty hs => by
    rw [← h.fanin_len hc.edgesNodup hwf.edgesNodup n]
    exact hc.multi n t ((h.ty n).trans hty) hs
  bbOut := fun e he hty => by
    have := hc.bbOut e ((h.edges e).2 he) ((h.ty e.1).trans hty)
    rw [← h.ty, ← h.fanout_len hc.edgesNodup hwf.edgesNodup]
    exact this
  noBBInFanout := fun e he hty =>
    hc.noBBInFanout e ((h.edges e).2 he) ((h.ty e.1).trans hty)

theorem lookup_ne_none_iff {β} (l : List (Name × β)) (k : Name) : l.lookup k ≠ none ↔ ∃ q ∈ l, q.1 = k := by
  induction l with
  | nil => simp
  | cons x l ih =>
    obtain ⟨k', v⟩ := x
    rw [List.lookup_cons]
    by_cases hk : k = k'
    · subst hk
      simp
    · have : (k == k') = false := by simpa using hk
      rw [this]
      simp only [ih, List.mem_cons, exists_eq_or_imp]
      constructor
      · intro hq; exact Or.inr hq
      · rintro (hq | hq)
        · exact absurd hq.symm hk
        · exact hq

theorem Same.registered {a b : Circuit} (h : Same a b) (hr : DotsRegistered a) : DotsRegistered b := by
  intro g hg hd
  have hb : b.has g = true := (has_iff_mem b g).2 hg
  obtain ⟨x, hx⟩ := Limit.attr_of_has hb
  rw [← h.attr] at hx
  have ha := hr g ((has_iff_mem a g).1 (Limit.has_of_attr hx)) hd
  rw [lookup_ne_none_iff] at ha ⊢
  obtain ⟨q, hq, e⟩ := ha
  exact ⟨q, (h.bbs q).1 hq, e⟩

/-- the text before the first dot of `a.g` is `a` when `a` is dot-free -/
theorem dotPrefix_pin (a g : Name) (ha : hasDot a = false) : dotPrefix (a ++ "." ++ g) = a := by
  unfold dotPrefix
  have e : (a ++ "." ++ g).toList = a.toList ++ '.' :: g.toList := by
    rw [String.toList_append, String.toList_append]
    simp
  rw [e]
  have hall : ∀ x ∈ a.toList, (x != '.') = true := by
    intro x hx
    rw [bne_iff_ne]
    rintro rfl
    unfold hasDot at ha
    rw [List.contains_iff_mem.mpr hx] at ha
    cases ha
  have : (a.toList ++ '.' :: g.toList).takeWhile (· != '.') = a.toList := by
    generalize a.toList = l at hall
    induction l with
    | nil => simp
    | cons x l ih =>
      simp only [List.cons_append, List.takeWhile_cons, hall x (by simp), if_true]
      rw [ih (fun y hy => hall y (by simp [hy]))]
  rw [this, String.ofList_toList]

theorem hasDot_pin (a g : Name) : hasDot (a ++ "." ++ g) = true := by
  rw [hasDot_append, hasDot_append]
  have : hasDot "." = true := by decide
  rw [this, Bool.or_true, Bool.true_or]

end LintLink
end CG
