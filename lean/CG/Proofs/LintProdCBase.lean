/- helper lemmas for C20 (second half: sensitization / sensitivity / tied miter pass lint): generic facts
   `LintClean` from fan-in facts on blackbox-pin-free circuits, what a successful `add` says about its drivers,
   `NoDots` from a consistent registry without blackboxes -/
import CG.Proofs.Miter
import CG.Proofs.Sens
import CG.Proofs.LintLink
set_option linter.unusedSimpArgs false
set_option linter.unusedVariables false
namespace CG
namespace LintProd
open Circuit Miter

/-! ### `NoDots` -/

theorem noDots_of_registered {c : Circuit} (hb : c.bbs = []) (h : LintLink.DotsRegistered c) : LintLink.NoDots c := by
  refine ⟨hb, fun g hg => ?_⟩
  cases hd : hasDot g with
  | false => rfl
  | true =>
    have := h g ((has_iff_mem c g).1 hg) hd
    rw [hb] at this
    exact absurd rfl this

theorem NoDots.setType {c c' : Circuit} (h : LintLink.NoDots c) {x : Name} {t : String}
    (hr : c.setType [x] t = (c', .ok)) : LintLink.NoDots c' := by
  obtain ⟨_, e⟩ := AU.setType_ok hr
  subst e
  exact h.of_sub rfl (fun g hg => by rw [setTyRaw_has] at hg; exact hg)

/-! ### `LintClean` of a circuit without blackbox pins -/

theorem lintClean_of_nobb {c : Circuit} (wf : WF c)
    (typed : ∀ p ∈ c.nodes, ∃ t, p.2.ty = some t ∧ t ∈ Expected.supported_types)
    (noFanin : ∀ n t, c.ty? n = some t → t ∈ sourceTypes → c.fanin n = [])
    (single : ∀ n t, c.ty? n = some t → t ∈ singleTypes → (c.fanin n).length = 1)
    (multi : ∀ n t, c.ty? n = some t → t ∈ multiTypes → 1 ≤ (c.fanin n).length)
    (nobbo : ∀ x, c.ty? x ≠ some "bb_output") (nobbi : ∀ x, c.ty? x ≠ some "bb_input") : LintClean c :=
  { toWF := wf, typed := typed, noFanin := noFanin, single := single, multi := multi,
    bbOut := fun e _ h => absurd h (nobbo e.1), noBBInFanout := fun e _ => nobbi e.1 }

/-! ### a successful plain `add` -/

/-- a driver named in the fan-in list of a successful plain `add` of a gate other than `buf` is neither a `bb_input`
    nor a `bb_output` node -/
theorem add_fanin_src_ty {ci ci' : Circuit} {a : AddArgs} (hp : Plain a) (h : Tx.addC ci a = .ok ci')
    (hbuf : a.ty ≠ "buf") {u : Name} (hu : u ∈ a.fanin) :
    ∃ t, ci.ty? u = some t ∧ t ≠ "bb_input" ∧ t ≠ "bb_output" := by
  obtain ⟨hfresh, c3, h3, h4⟩ := AU.addC_ok hp.uid hp.conn hp.redef h
  have hne : a.fanin ≠ [] := by intro e; rw [e] at hu; cases hu
  have hk := (connect_ok h4).2.2.2.2.2.2 hne (by simp)
  obtain ⟨_, _, _, kU⟩ := connectCheck_none hk
  obtain ⟨t, ht, hnot, hbo⟩ := kU u hu
  have hun : u ≠ a.n := fun e => hp.notFi (e ▸ hu)
  have e3 : ∀ x, c3.ty? x = (ci.addNodeAttr a.n { ty := some a.ty, out := some a.output }).ty? x :=
    fun x => ty?_congr (connect_ok h3).1 x
  refine ⟨t, ?_, hnot, ?_⟩
  · rw [e3, addNodeAttr_ty?, if_neg hun] at ht
    exact ht
  · intro hb
    have := (hbo hb).1 a.n (by simp)
    rw [e3, addNodeAttr_ty?, if_pos rfl] at this
    simp only [Option.orElse] at this
    injection this with this
    exact hbuf this

end LintProd
end CG
