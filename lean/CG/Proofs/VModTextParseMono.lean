/- C14 (text level, module extraction) helper: fuel monotonicity of the regex pattern parser -/
import CG.Proofs.VModTextDefs
namespace CG
namespace VMT
open Regex

theorem parse_mono_succ : ∀ f : Nat,
    (∀ st r, parseAlt f st = some r → parseAlt (f + 1) st = some r) ∧
    (∀ st r, parseSeq f st = some r → parseSeq (f + 1) st = some r) ∧
    (∀ st r, parseQuant f st = some r → parseQuant (f + 1) st = some r) ∧
    (∀ st r, parseAtom f st = some r → parseAtom (f + 1) st = some r) := by
  intro f
  induction f with
  | zero => simp [parseAlt, parseSeq, parseQuant, parseAtom]
  | succ f ih =>
    obtain ⟨ihA, ihS, ihQ, ihT⟩ := ih
    refine ⟨?_, ?_, ?_, ?_⟩
    · intro st r h
      rw [parseAlt.eq_2] at h ⊢
      cases h1 : parseSeq f st with
      | none => simp [h1] at h
      | some p =>
        obtain ⟨a, st1⟩ := p
        rw [ihS _ _ h1]
        rw [h1] at h
        simp only [Option.bind_eq_bind, Option.bind_some] at h ⊢
        split at h
        · rename_i rest heq
          cases h2 : parseAlt f { rest := rest, ngroups := st1.ngroups } with
          | none => simp [h2] at h
          | some q =>
            rw [ihA _ _ h2]
            rw [h2] at h
            exact h
        · exact h
    · intro st r h
      rw [parseSeq.eq_2] at h ⊢
      split at h
      · exact h
      · exact h
      · exact h
      · cases h1 : parseQuant f st with
        | none => simp [h1] at h
        | some p =>
          obtain ⟨a, st1⟩ := p
          rw [ihQ _ _ h1]
          rw [h1] at h
          simp only [Option.bind_eq_bind, Option.bind_some] at h ⊢
          cases h2 : parseSeq f st1 with
          | none => simp [h2] at h
          | some q =>
            rw [ihS _ _ h2]
            rw [h2] at h
            exact h
    · intro st r h
      rw [parseQuant.eq_2] at h ⊢
      cases h1 : parseAtom f st with
      | none => simp [h1] at h
      | some p =>
        rw [ihT _ _ h1]
        rw [h1] at h
        exact h
    · intro st r h
      rw [parseAtom.eq_2] at h ⊢
      split at h
      · exact h
      · rename_i rest heq
        cases h1 : parseAlt f { rest := rest, ngroups := st.ngroups } with
        | none => simp [h1] at h
        | some p =>
          rw [ihA _ _ h1]
          rw [h1] at h
          exact h
      · rename_i rest hne heq
        cases h1 : parseAlt f { rest := rest, ngroups := st.ngroups + 1 } with
        | none => simp [h1] at h
        | some p =>
          simp only [] at h ⊢
          rw [ihA _ _ h1]
          rw [h1] at h
          exact h
      all_goals exact h

theorem parseAlt_mono {f f' : Nat} {st : PState} {r : Re × PState} (h : parseAlt f st = some r) (hle : f ≤ f') :
    parseAlt f' st = some r := by
  induction hle with
  | refl => exact h
  | step _ ih => exact (parse_mono_succ _).1 _ _ ih

theorem parseSeq_mono {f f' : Nat} {st : PState} {r : Re × PState} (h : parseSeq f st = some r) (hle : f ≤ f') :
    parseSeq f' st = some r := by
  induction hle with
  | refl => exact h
  | step _ ih => exact (parse_mono_succ _).2.1 _ _ ih

theorem parseQuant_mono {f f' : Nat} {st : PState} {r : Re × PState} (h : parseQuant f st = some r) (hle : f ≤ f') :
    parseQuant f' st = some r := by
  induction hle with
  | refl => exact h
  | step _ ih => exact (parse_mono_succ _).2.2.1 _ _ ih

theorem parseAtom_mono {f f' : Nat} {st : PState} {r : Re × PState} (h : parseAtom f st = some r) (hle : f ≤ f') :
    parseAtom f' st = some r := by
  induction hle with
  | refl => exact h
  | step _ ih => exact (parse_mono_succ _).2.2.2 _ _ ih

end VMT
end CG
