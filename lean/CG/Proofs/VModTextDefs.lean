/- C14 (text level, module extraction) helper: shared definitions — word characters of the regex engine, maximal
   occurrences of the word `endmodule` in a text, and the `Re` tree of the module-extraction pattern -/
import CG.Verilog
import CG.Proofs.BenchTextPat
namespace CG
namespace VMT
open Regex

/-- word character of the regex engine (`\w`, the class `\b` looks at) -/
def wc (c : Char) : Bool := CSet.mem { ranges := wordRanges } c

/-- the characters of the keyword `endmodule` -/
def kwE : List Char := ['e', 'n', 'd', 'm', 'o', 'd', 'u', 'l', 'e']

/-- nothing, or a non-word character, immediately to the left -/
def BrkL (pre : List Char) : Prop := ∀ c, pre.getLast? = some c → wc c = false

/-- nothing, or a non-word character, immediately to the right -/
def BrkR (post : List Char) : Prop := ∀ c, post.head? = some c → wc c = false

/-- `endmodule` occurs in `s` as a whole word (what `\bendmodule\b` finds) -/
def RunIn (s : List Char) : Prop := ∃ pre post, s = pre ++ kwE ++ post ∧ BrkL pre ∧ BrkR post

/-- literal characters followed by `r` (the shape `parseSeq` gives a run of literal characters) -/
def litThen (w : List Char) (r : Re) : Re := w.foldr (fun c acc => .seq (BenchText.ch c) acc) r

/-- `\s` -/
abbrev wsS : CSet := BenchText.wsS

/-- `\s*\(.*?\);(.*?)\bendmodule\b` -/
def rxTail : Re :=
  .seq (.star (.set wsS) true) (.seq (BenchText.ch '(') (.seq (.star .any false) (.seq (BenchText.ch ')')
    (.seq (BenchText.ch ';') (.seq (.group 2 (.star .any false)) (.seq .wordb (litThen kwE .wordb)))))))

/-- `(module\s+NAME\s*\(.*?\);(.*?)\bendmodule\b)` with the characters `w` for NAME -/
def rxMod (w : List Char) : Re :=
  .group 1 (litThen ['m', 'o', 'd', 'u', 'l', 'e'] (.seq (.plus (.set wsS) true) (litThen w rxTail)))

/-- the pattern text with `name` for NAME -/
def patText (name : String) : String := "(module\\s+" ++ name ++ "\\s*\\(.*?\\);(.*?)\\bendmodule\\b)"

example : Regex.parse (patText "foo") = some (rxMod ['f', 'o', 'o'], 2) := by decide +kernel

end VMT
end CG
