/- C09 (sequential_unroll, semantics): string facts about exposed pin names -/
import CG.Proofs.Unroll
import CG.Proofs.Strip
import CG.Lint
set_option linter.unusedSimpArgs false
set_option linter.unusedVariables false
namespace CG
namespace USS
open Circuit

theorem pin_toList (inst g : Name) : (inst ++ "." ++ g).toList = inst.toList ++ '.' :: g.toList := by
  rw [String.toList_append, String.toList_append]
  simp

theorem hasDot_append (a b : Name) : hasDot (a ++ b) = (hasDot a || hasDot b) := by
  unfold hasDot
  rw [String.toList_append, Bool.eq_iff_iff]
  simp only [List.contains_iff_mem, List.mem_append, Bool.or_eq_true]

theorem hasDot_iff (n : Name) : hasDot n = true ↔ '.' ∈ n.toList := by
  unfold hasDot
  exact List.contains_iff_mem

theorem replaceDots_toList (n : Name) :
    (Tx.replaceDots n).toList = n.toList.map (fun ch => if ch == '.' then '_' else ch) := by
  unfold Tx.replaceDots
  simp

/-- an exposed name never contains a dot -/
theorem hasDot_replaceDots (n : Name) : hasDot (Tx.replaceDots n) = false := by
  rw [Bool.eq_false_iff]
  intro h
  rw [hasDot_iff, replaceDots_toList] at h
  obtain ⟨ch, _, e⟩ := List.mem_map.1 h
  by_cases hc : ch = '.'
  · subst hc
    simp at e
  · have : (ch == '.') = false := by simpa using hc
    rw [this] at e
    simp only [Bool.false_eq_true, if_false] at e
    exact hc e

theorem map_id_of_nodot : ∀ (l : List Char), '.' ∉ l → l.map (fun ch => if ch == '.' then '_' else ch) = l
  | [], _ => rfl
  | a :: l, h => by
    have ha : a ≠ '.' := fun e => h (by rw [e]; simp)
    have : (a == '.') = false := by simpa using ha
    simp only [List.map_cons, this, Bool.false_eq_true, if_false]
    rw [map_id_of_nodot l (fun h' => h (List.mem_cons_of_mem _ h'))]

/-- the exposed name of a pin of a dot-free instance and pin name -/
theorem replaceDots_pin {u g : Name} (hu : hasDot u = false) (hg : hasDot g = false) :
    Tx.replaceDots (u ++ "." ++ g) = u ++ "_" ++ g := by
  apply String.toList_injective
  rw [replaceDots_toList, pin_toList, String.toList_append, String.toList_append]
  have h1 : '.' ∉ u.toList := fun h => by rw [← hasDot_iff, hu] at h; cases h
  have h2 : '.' ∉ g.toList := fun h => by rw [← hasDot_iff, hg] at h; cases h
  rw [List.map_append, List.map_cons, map_id_of_nodot _ h1, map_id_of_nodot _ h2]
  simp

theorem takeWhile_all (p : Char → Bool) : ∀ (l m : List Char) (x : Char), (∀ y ∈ l, p y = true) → p x = false →
    (l ++ x :: m).takeWhile p = l
  | [], m, x, _, hx => by simp [List.takeWhile_cons, hx]
  | a :: l, m, x, h, hx => by
    simp only [List.cons_append, List.takeWhile_cons, h a (by simp), if_true]
    rw [takeWhile_all p l m x (fun y hy => h y (List.mem_cons_of_mem _ hy)) hx]

/-- the pin name read back from a pin node -/
theorem lastDot_pin (u : Name) {g : Name} (hg : hasDot g = false) : Tx.lastDot (u ++ "." ++ g) = g := by
  apply String.toList_injective
  unfold Tx.lastDot
  rw [String.toList_ofList, pin_toList, List.reverse_append, List.reverse_cons, List.append_assoc]
  have h2 : ∀ y ∈ g.toList.reverse, (y != '.') = true := by
    intro y hy
    have : y ≠ '.' := fun e => by
      subst e
      have := (hasDot_iff g).2 (List.mem_reverse.1 hy)
      rw [hg] at this; cases this
    simpa using this
  show ((g.toList.reverse ++ '.' :: u.toList.reverse).takeWhile (· != '.')).reverse = _
  rw [takeWhile_all _ _ _ _ h2 (by decide), List.reverse_reverse]

theorem hasDot_under {u g : Name} (h : hasDot (u ++ "_" ++ g) = false) : hasDot u = false ∧ hasDot g = false := by
  rw [hasDot_append, hasDot_append] at h
  cases h1 : hasDot u <;> cases h2 : hasDot g <;> simp [h1, h2] at h ⊢

theorem under_inj {a b q : Name} (h : a ++ "_" ++ q = b ++ "_" ++ q) : a = b :=
  (String.append_left_inj _).mp ((String.append_left_inj _).mp h)

end USS
end CG
