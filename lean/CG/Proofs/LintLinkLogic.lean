/-
  CG.Proofs.LintLinkLogic — whatever the generators of `logic.py` return has no blackbox and no dotted node name
  (every name is a literal, `<literal><decimal index>`, or such a name prefixed by a dot-free instance name).
-/
import CG.Proofs.LintLinkNoDot
import CG.Logic
import CG.Proofs.ArithFA
namespace CG
namespace LintLink
open Logic Circuit
open Tx (addC)

theorem noDots_HA : NoDots Arith.HA :=
  ⟨rfl, fun g hg => by
    have key : ∀ g ∈ Arith.HA.nodeNames, hasDot g = false := by decide
    exact key g ((has_iff_mem _ g).1 hg)⟩

theorem noDots_FA : NoDots Arith.FA :=
  ⟨rfl, fun g hg => by
    have key : ∀ g ∈ Arith.FA.nodeNames, hasDot g = false := by decide
    exact key g ((has_iff_mem _ g).1 hg)⟩

theorem noDots_halfAdder (c : Circuit) (hr : halfAdder = .ok c) : NoDots c := by
  rw [Arith.halfAdder_eq] at hr
  cases hr
  exact noDots_HA

theorem noDots_fullAdder (c : Circuit) (hr : fullAdder = .ok c) : NoDots c := by
  rw [Arith.fullAdder_eq] at hr
  cases hr
  exact noDots_FA

theorem noDots_adderBit (fa : Circuit) (hfa : NoDots fa) (s s' : Circuit × Name) (bit : Nat) (h : NoDots s.1)
    (hr : adderBit fa s bit = .ok s') : NoDots s'.1 := by
  unfold adderBit at hr
  simp only [] at hr
  obtain ⟨c1, h1, hr⟩ := bind_ok_inv hr
  obtain ⟨c2, h2, hr⟩ := bind_ok_inv hr
  obtain ⟨c3, h3, hr⟩ := bind_ok_inv hr
  obtain ⟨c4, h4, hr⟩ := bind_ok_inv hr
  cases hr
  have n1 := h.addC (by nodot) rfl rfl h1
  have n2 := n1.addC (by nodot) rfl rfl h2
  have n3 := n2.addC (by nodot) rfl rfl h3
  exact n3.addSub hfa (by nodot) h4

theorem noDots_adder (w : Nat) (ci co : Bool) (c : Circuit) (hr : adder w ci co = .ok c) : NoDots c := by
  unfold adder at hr
  obtain ⟨fa, h0, hr⟩ := bind_ok_inv hr
  obtain ⟨r, h1, hr⟩ := bind_ok_inv hr
  obtain ⟨s, h2, hr⟩ := bind_ok_inv hr
  have hfa : NoDots fa := by
    rw [Arith.fullAdder_eq] at h0
    cases h0
    exact noDots_FA
  have n1 : NoDots r.1 := (noDots_empty _).addE (r := r.2) (show hasDot "cin" = false by decide) rfl rfl h1
  have n2 : NoDots s.1 := foldlM_inv (fun s => NoDots s.1) (adderBit fa)
    (fun a b a' ha h => noDots_adderBit fa hfa a a' b ha h) _ _ _ n1 h2
  split at hr
  · exact n2.addC (show hasDot "cout" = false by decide) rfl rfl hr
  · cases hr
    exact n2

theorem noDots_mux (w : Nat) (c : Circuit) (hr : mux w = .ok c) : NoDots c := by
  unfold mux at hr
  obtain ⟨k, _, hr⟩ := bind_ok_inv hr
  obtain ⟨c1, h1, hr⟩ := bind_ok_inv hr
  obtain ⟨c2, h2, hr⟩ := bind_ok_inv hr
  obtain ⟨c3, h3, hr⟩ := bind_ok_inv hr
  have n1 : NoDots c1 := foldlM_inv NoDots _ (fun a i a' ha h => ha.addC (by nodot) rfl rfl h) _ _ _ (noDots_empty _) h1
  have n2 : NoDots c2 := foldlM_inv NoDots _ (fun a i a' ha h => by
    obtain ⟨b, hb, h⟩ := bind_ok_inv h
    exact (ha.addC (by nodot) rfl rfl hb).addC (by nodot) rfl rfl h) _ _ _ n1 h2
  have n3 : NoDots c3 := n2.addC (show hasDot "out" = false by decide) rfl rfl h3
  exact foldlM_inv NoDots _ (fun a i a' ha h => ha.addC (by nodot) rfl rfl h) _ _ _ n3 hr

theorem noDots_popcountStep (s s' : Circuit × List (List Name) × Nat) (h : NoDots s.1)
    (hr : popcountStep s = .ok s') : NoDots s'.1 := by
  unfold popcountStep at hr
  split at hr
  · simp only [] at hr
    obtain ⟨ad, h1, hr⟩ := bind_ok_inv hr
    obtain ⟨c1, h2, hr⟩ := bind_ok_inv hr
    obtain ⟨c2, h3, hr⟩ := bind_ok_inv hr
    cases hr
    have nad := noDots_adder _ _ _ _ h1
    have n1 := h.addSub nad (by nodot) h2
    refine foldlM_inv NoDots _ (fun a j a' ha h => by
      obtain ⟨b, hb, h⟩ := bind_ok_inv h
      exact (ha.connect hb).connect h) _ _ _ (n1.relabel _ ?_) h3
    intro p hp
    rw [List.mem_singleton] at hp
    subst hp
    nodot
  · cases hr

theorem noDots_popcountLoop : ∀ (fuel : Nat) (s s' : Circuit × List (List Name) × Nat), NoDots s.1 →
    popcountLoop fuel s = .ok s' → NoDots s'.1
  | 0, _, _, _, hr => by
    unfold popcountLoop at hr
    cases hr
  | fuel + 1, s, s', h, hr => by
    unfold popcountLoop at hr
    split at hr
    · obtain ⟨s1, h1, hr⟩ := bind_ok_inv hr
      exact noDots_popcountLoop fuel s1 s' (noDots_popcountStep s s1 h h1) hr
    · cases hr
      exact h

theorem noDots_popcount (w : Nat) (c : Circuit) (hr : popcount w = .ok c) : NoDots c := by
  unfold popcount at hr
  obtain ⟨c1, h1, hr⟩ := bind_ok_inv hr
  obtain ⟨c2, h2, hr⟩ := bind_ok_inv hr
  obtain ⟨s, h3, hr⟩ := bind_ok_inv hr
  have n1 : NoDots c1 := foldlM_inv NoDots _ (fun a i a' ha h => ha.addC (by nodot) rfl rfl h) _ _ _ (noDots_empty _) h1
  have n2 : NoDots c2 := n1.addC (show hasDot "tie0" = false by decide) rfl rfl h2
  have n3 : NoDots s.1 := noDots_popcountLoop _ _ s n2 h3
  split at hr
  · cases hr
  · obtain ⟨c4, h4, hr⟩ := bind_ok_inv hr
    have n4 : NoDots c4 := foldlM_inv NoDots _ (fun a i a' ha h => ha.addC (by nodot) rfl rfl h) _ _ _ n3 h4
    split at hr
    · cases hr
      exact n4.remove _
    · cases hr
      exact n4

end LintLink
end CG
