/- C05 (`insert_registers_depths_ok`): the depth computation of `insert_registers` (`fanin_depth` of every node) succeeds
   on an acyclic circuit as soon as the fuel is at least the number of nodes -/
import CG.Proofs.QueryDepth
import CG.Proofs.LimitUid
set_option linter.unusedSimpArgs false
set_option linter.unusedVariables false
namespace CG
namespace TxOk
open Circuit Query Q

theorem foldlM_some {α β : Type} (f : β → α → Option β) : ∀ (l : List α),
    (∀ x ∈ l, ∀ b, ∃ b', f b x = some b') → ∀ b, ∃ b', l.foldlM f b = some b'
  | [], _, b => ⟨b, rfl⟩
  | x :: l, h, b => by
    obtain ⟨b1, h1⟩ := h x List.mem_cons_self b
    obtain ⟨b', h2⟩ := foldlM_some f l (fun y hy => h y (List.mem_cons_of_mem _ hy)) b1
    refine ⟨b', ?_⟩
    rw [List.foldlM_cons, h1]
    exact h2

/-- the recursive visit terminates within `fuel` when a measure that decreases along `succ` is below the fuel -/
theorem visit_some (pred succ : Name → List Name) (ord : Ord) (hord : OrdOK ord) (R : List Name) (ht : Name → Nat)
    (hdec : ∀ a b, b ∈ succ a → ht b < ht a) :
    ∀ (fuel : Nat) (n : Name) (vis : Visited) (depth : Nat), ht n < fuel →
      ∃ vis', visit pred succ ord true R fuel n vis depth = some vis' := by
  intro fuel
  induction fuel with
  | zero => intro n vis depth h; omega
  | succ fuel ih =>
    intro n vis depth h
    rw [visit_succ]
    split
    · apply foldlM_some
      intro fo hfo v
      have hfo' : fo ∈ succ n := (mem_dedup fo _).mp ((hord _).mem_iff.mp hfo)
      have := hdec n fo hfo'
      exact ih fo v _ (by omega)
    · exact ⟨_, rfl⟩

/-- **`fanin_depth(n)` succeeds** on a well-formed acyclic circuit with `fuel ≥ #nodes` -/
theorem depth_ok (c : Circuit) (hwf : WF c) (hacyc : Acyclic c) (n : Name) (hn : c.has n = true) (ord : Ord)
    (hord : OrdOK ord) (fuel : Nat) (hfuel : c.nodes.length ≤ fuel) :
    ∃ d, depth c false [n] true ord fuel = .ok d := by
  have hns : ∀ x ∈ [n], c.has x = true := by
    intro x hx; rw [List.mem_singleton] at hx; rw [hx]; exact hn
  have hcyc : isCyclic c = false := by
    cases h : isCyclic c with
    | false => rfl
    | true =>
      obtain ⟨m, hm⟩ := (isCyclic_iff c hwf).1 h
      exact absurd hm (no_cycle_of_acyclic c hacyc m)
  obtain ⟨l, hl⟩ := topoSort_of_not_cyclic c hcyc
  obtain ⟨lnd, lmem, _⟩ := topoSort_spec c hwf l hl
  have hrank := (rank_of_topo c hwf l hl).1
  have hlen : l.length ≤ c.nodes.length := by
    have := Limit.length_le_of_nodup_subset l c.nodeNames lnd (fun x hx => (lmem x).1 hx)
    simpa [Circuit.nodeNames] using this
  -- the top-level loop
  have hloop : ∀ (L : List Name), (∀ f ∈ L, c.has f = true) → ∀ v0, ∃ vis,
      L.foldlM (fun v f => visit c.fanout c.fanin ord true (unionAll ([n].map (ancestors c))) fuel f v 1) v0 =
        some vis := by
    intro L hL
    apply foldlM_some
    intro f hf v
    apply visit_some c.fanout c.fanin ord hord _ l.idxOf (fun a b hb => hrank b a (mem_fanin.1 hb))
    have : f ∈ l := (lmem f).2 ((has_iff c f).1 (hL f hf))
    have := List.idxOf_lt_length_of_mem this
    omega
  obtain ⟨vis, hvis⟩ := hloop (ord (unionAll ([n].map c.fanin))) (by
    intro f hf
    obtain ⟨m, hm, hfm⟩ := (mem_unionAll_map c.fanin [n] f).1 ((hord _).mem_iff.1 hf)
    exact (hwf.closed _ (mem_fanin.1 hfm)).1) ([n].foldl (fun v n => vset v n 0) [])
  -- the result is not empty: `n` stays in the table
  have hmono : Mono ([n].foldl (fun v n => vset v n 0) []) vis :=
    (fold_frame c.fanin _ 1 _ (fun fo _ v v' hv => visit_frame c.fanout c.fanin ord hord _ fuel fo v 1 v' hv) _ _ hvis).1
  have hne : vis.map (·.2) ≠ [] := by
    obtain ⟨w', hw', _⟩ := hmono n 0 (by rw [vget_init]; simp)
    intro h
    rw [List.map_eq_nil_iff] at h
    rw [h] at hw'
    cases hw'
  unfold depth
  rw [hcyc]
  simp only [Bool.false_eq_true, if_false, transitiveFanin_ok c [n] hns, faninOf_ok c [n] hns, hvis]
  cases hm : vis.map (·.2) with
  | nil => exact absurd hm hne
  | cons x xs => exact ⟨_, rfl⟩

/-- the whole depth table -/
theorem mapM_ok (g : Name → Except Outcome Nat) : ∀ (l : List Name), (∀ n ∈ l, ∃ d, g n = .ok d) →
    ∃ r, l.mapM (fun n => match g n with | .ok d => (Except.ok (n, d) : Except Outcome (Name × Nat)) | .error e => .error e) =
      .ok r
  | [], _ => ⟨[], rfl⟩
  | x :: l, h => by
    obtain ⟨d, hd⟩ := h x List.mem_cons_self
    obtain ⟨r, hr⟩ := mapM_ok g l (fun y hy => h y (List.mem_cons_of_mem _ hy))
    refine ⟨(x, d) :: r, ?_⟩
    rw [List.mapM_cons, hd, hr]
    rfl

/-- **the depth table of `insert_registers` is computed successfully** -/
theorem depths_ok (c : Circuit) (hwf : WF c) (hacyc : Acyclic c) (ord : Ord) (hord : OrdOK ord) (fuel : Nat)
    (hfuel : c.nodes.length ≤ fuel) :
    ∃ depths, c.nodeNames.mapM (fun n => match depth c false [n] true ord fuel with
      | .ok d => (Except.ok (n, d) : Except Outcome (Name × Nat)) | .error e => .error e) = .ok depths :=
  mapM_ok _ _ (fun n hn => depth_ok c hwf hacyc n ((has_iff c n).2 hn) ord hord fuel hfuel)

end TxOk
end CG
