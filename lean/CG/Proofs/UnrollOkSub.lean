/- C09 (unroll succeeds), phase B of an iteration: the copy of step `k` can be spliced in and wired to the io nodes -/
import CG.Proofs.UnrollOkIO
import CG.Proofs.UnrollOkConn
set_option linter.unusedSimpArgs false
set_option linter.unusedVariables false
namespace CG
namespace UnrollOk
open Circuit Unroll

/-- the single-net connections `add_subcircuit` makes in phase B: input copies are driven by their io node, the other io
    nodes are driven by their copy -/
def wire (c : Circuit) (pfx : String) (k : Nat) (x : Name) : Name × Name :=
  if c.inputs.contains x then (N c pfx x k, U k x) else (U k x, N c pfx x k)

theorem wire_in {c : Circuit} {pfx : String} {k : Nat} {x : Name} (h : x ∈ c.inputs) :
    wire c pfx k x = (N c pfx x k, U k x) := by
  unfold wire; rw [if_pos (List.contains_iff_mem.2 h)]

theorem wire_out {c : Circuit} {pfx : String} {k : Nat} {x : Name} (h : x ∉ c.inputs) :
    wire c pfx k x = (U k x, N c pfx x k) := by
  unfold wire; rw [if_neg (fun hc => h (List.contains_iff_mem.1 hc))]

theorem subConns_wire (c : Circuit) (pfx : String) (k : Nat) (io : List Name) :
    subConns c ("unrolled_" ++ toString k) (io.map (fun x => (x, [N c pfx x k]))) =
      (io.map (wire c pfx k)).map (fun q => ([q.1], [q.2])) := by
  unfold subConns
  rw [List.map_map, List.map_map]
  apply List.map_congr_left
  intro x _
  simp only [Function.comp]
  unfold wire
  by_cases h : c.inputs.contains x = true
  · rw [if_pos h, if_pos h]; rfl
  · rw [if_neg h, if_neg h]; rfl

theorem not_pin_of_cases {t : String} (h : t = "buf" ∨ t = "input") : t ≠ "bb_input" ∧ t ≠ "bb_output" := by
  rcases h with rfl | rfl <;> exact ⟨by decide, by decide⟩

/-- the outputs of the circuit can be wired to their io nodes: none is typed `bb_input`, and one typed `bb_output` has no
    load yet (`connect` lets a `bb_output` drive a single buffer) -/
def PinOK (c : Circuit) : Prop :=
  ∀ x ∈ c.outputs, c.ty? x ≠ some "bb_input" ∧ (c.ty? x = some "bb_output" → c.fanout x = [])

theorem pinOK_of_noPin {c : Circuit}
    (h : ∀ x ∈ c.outputs, c.ty? x ≠ some "bb_input" ∧ c.ty? x ≠ some "bb_output") : PinOK c :=
  fun x hx => ⟨(h x hx).1, fun e => absurd e (h x hx).2⟩

/-- phase B succeeds: no name clash between the parent and the prefixed copy, every output that is wired to its io
    node may be a source of `connect` -/
theorem subPhase_succeeds {c : Circuit} {stateIO : List (Name × Name)} {pfx : String} {k : Nat} {io : List Name}
    {Q P : Circuit} (hc : LintClean c) (hbb : c.bbs = [])
    (hpin : PinOK c)
    (hQ : WF Q) (hP : WF P)
    (hPn : P.nodes = Q.nodes ++ io.map (fun x => (N c pfx x k, ioAttr0 c stateIO x))) (hPe : P.edges = Q.edges)
    (hio : ∀ x ∈ io, x ∈ c.io) (hnd : io.Nodup)
    (hclash : ∀ y, c.has y = true → P.has (U k y) = false) :
    ∃ P', P.addSubcircuit c ("unrolled_" ++ toString k) (io.map (fun x => (x, [N c pfx x k]))) true = (P', .ok) := by
  have hsc : WF c := hc.toWF
  obtain ⟨inj, fresh, hasN, hasQ⟩ := ioNames_facts (stateIO := stateIO) hP hPn
  have hclash' : ∀ n, c.has n = true → P.has (pref ("unrolled_" ++ toString k) n) = false := hclash
  have c1 : (c.bbs.any fun p => (P.bbs.lookup (pref ("unrolled_" ++ toString k) p.1)).isSome) = false := by
    rw [hbb]; rfl
  have c2 : (c.nodeNames.any fun n => P.has (pref ("unrolled_" ++ toString k) n)) = false := by
    rw [List.any_eq_false]
    intro n hn
    rw [hclash' n ((has_iff_mem c n).2 hn)]
    simp
  have c3 : (c.nodes.any fun p => p.2.ty.isNone) = false := by
    rw [List.any_eq_false]
    intro p hp
    obtain ⟨t, ht, _⟩ := hc.typed p hp
    rw [ht]; simp
  have hio' : ∀ x ∈ io, x ∉ c.inputs → x ∈ c.outputs := by
    intro x hx hni
    rcases mem_union.1 (hio x hx) with h | h
    · exact absurd h hni
    · exact h
  have c4 : ((io.map (fun x => (x, [N c pfx x k]))).any
      fun p => !c.inputs.contains p.1 && !c.outputs.contains p.1) = false := by
    rw [List.any_eq_false]
    intro p hp
    obtain ⟨x, hx, rfl⟩ := List.mem_map.1 hp
    by_cases hi : x ∈ c.inputs
    · have := List.contains_iff_mem.2 hi
      simp only [this, Bool.not_true, Bool.false_and, Bool.false_eq_true, not_false_eq_true]
    · have := List.contains_iff_mem.2 (hio' x hx hi)
      simp only [this, Bool.not_true, Bool.and_false, Bool.false_eq_true, not_false_eq_true]
  suffices key : ∃ P', (subPre P c ("unrolled_" ++ toString k)).connectAll
      (subConns c ("unrolled_" ++ toString k) (io.map (fun x => (x, [N c pfx x k])))) = (P', .ok) by
    obtain ⟨P', hP'⟩ := key
    refine ⟨P', ?_⟩
    unfold addSubcircuit
    simp only [c1, c2, c3, c4, Bool.false_eq_true, if_false, if_true]
    exact hP'
  rw [subConns_wire]
  -- the io node of `x` in the parent
  have tyN : ∀ x ∈ io, (subPre P c ("unrolled_" ++ toString k)).ty? (N c pfx x k) = some (ioTy0 c stateIO x) := by
    intro x hx
    rw [Arith.subPre_ty_parent hP hsc _ hclash' (hasN x hx)]
    have hmem : (N c pfx x k, ioAttr0 c stateIO x) ∈ P.nodes := by
      rw [hPn]
      exact List.mem_append.2 (Or.inr (List.mem_map.2 ⟨x, hx, rfl⟩))
    rw [Arith.ty?_of_mem hP.nodup hmem]
    rfl
  have hsrc : ((io.map (wire c pfx k)).map (·.1)).Nodup := by
    rw [List.map_map]
    apply nodup_map_of_inj hnd
    intro x hx y hy e
    simp only [Function.comp] at e
    by_cases hxi : x ∈ c.inputs
    · by_cases hyi : y ∈ c.inputs
      · rw [wire_in hxi, wire_in hyi] at e
        exact inj x hx y hy e
      · rw [wire_in hxi, wire_out hyi] at e
        have h1 := hclash y (mem_outputs_has (hio' y hy hyi))
        have e' : N c pfx x k = U k y := e
        rw [← e', hasN x hx] at h1
        cases h1
    · by_cases hyi : y ∈ c.inputs
      · rw [wire_out hxi, wire_in hyi] at e
        have h1 := hclash x (mem_outputs_has (hio' x hx hxi))
        have e' : U k x = N c pfx y k := e
        rw [e', hasN y hy] at h1
        cases h1
      · rw [wire_out hxi, wire_out hyi] at e
        exact U_inj k e
  refine connectAll_singles_ok' _ _ ?_ hsrc ?_
  · rw [List.map_map]
    apply nodup_map_of_inj hnd
    intro x hx y hy e
    simp only [Function.comp] at e
    by_cases hxi : x ∈ c.inputs
    · by_cases hyi : y ∈ c.inputs
      · rw [wire_in hxi, wire_in hyi] at e
        exact U_inj k e
      · rw [wire_in hxi, wire_out hyi] at e
        have h1 := hclash x (mem_inputs_has hxi)
        have e' : U k x = N c pfx y k := e
        rw [e', hasN y hy] at h1
        cases h1
    · by_cases hyi : y ∈ c.inputs
      · rw [wire_out hxi, wire_in hyi] at e
        have h1 := hclash y (mem_inputs_has hyi)
        have e' : N c pfx x k = U k y := e
        rw [← e', hasN x hx] at h1
        cases h1
      · rw [wire_out hxi, wire_out hyi] at e
        exact inj x hx y hy e
  · intro q hq
    obtain ⟨x, hx, rfl⟩ := List.mem_map.1 hq
    by_cases hxi : x ∈ c.inputs
    · rw [wire_in hxi]
      obtain ⟨a, ha⟩ := has_exists (mem_inputs_has hxi)
      refine ⟨⟨ioTy0 c stateIO x, tyN x hx, (not_pin_of_cases (ioTy0_cases c stateIO x)).1,
        fun e => absurd e (not_pin_of_cases (ioTy0_cases c stateIO x)).2⟩, "buf", ?_, by decide, ?_⟩
      · show (subPre P c ("unrolled_" ++ toString k)).ty? (pref ("unrolled_" ++ toString k) x) = some "buf"
        rw [Arith.subPre_ty_child hP hsc _ hclash' ha]
        exact Arith.stripA_input ((mem_inputs_of_mem hsc.nodup ha).1 hxi)
      · intro _
        show (subPre P c ("unrolled_" ++ toString k)).fanin (pref ("unrolled_" ++ toString k) x) = []
        rw [Arith.subPre_fanin_child hP hsc _ hclash' (mem_inputs_has hxi)]
        have hty : c.ty? x = some "input" := by
          rw [Arith.ty?_of_mem hsc.nodup ha]
          exact (mem_inputs_of_mem hsc.nodup ha).1 hxi
        rw [hc.noFanin x "input" hty (by decide)]
        rfl
    · rw [wire_out hxi]
      have hxo := hio' x hx hxi
      obtain ⟨a, ha⟩ := has_exists (mem_outputs_has hxo)
      obtain ⟨t0, ht0, _⟩ := hc.typed _ ha
      simp only [] at ht0
      have hty : c.ty? x = some t0 := by rw [Arith.ty?_of_mem hsc.nodup ha]; exact ht0
      have hne : t0 ≠ "input" := by
        intro e
        apply hxi
        rw [mem_inputs_of_mem hsc.nodup ha, ht0, e]
      have hp := hpin x hxo
      rw [hty] at hp
      have tyT : (subPre P c ("unrolled_" ++ toString k)).ty? (N c pfx x k) = some "buf" := by
        rw [tyN x hx, ioTy0_not_input hxi]
      refine ⟨⟨t0, ?_, fun e => hp.1 (by rw [e]), fun e => ⟨tyT, ?_⟩⟩, "buf", ?_, by decide, ?_⟩
      · show (subPre P c ("unrolled_" ++ toString k)).ty? (pref ("unrolled_" ++ toString k) x) = some t0
        rw [Arith.subPre_ty_child hP hsc _ hclash' ha]
        exact stripA_ty_of_ne ht0 hne
      · -- a `bb_output` output has no load in `c`, hence its copy has none in the spliced circuit
        have hfo := fanout_nil_iff.1 (hp.2 (by rw [e]))
        show (subPre P c ("unrolled_" ++ toString k)).fanout (pref ("unrolled_" ++ toString k) x) = []
        rw [fanout_nil_iff, (subPre_view hP hsc _ hclash').2.1]
        intro e' he' e1
        rcases List.mem_append.1 he' with he' | he'
        · have := (hP.closed e' he').1
          rw [e1, hclash' x (mem_outputs_has hxo)] at this
          cases this
        · obtain ⟨e0, he0, rfl⟩ := List.mem_map.1 he'
          exact hfo e0 he0 (pref_inj _ e1)
      · show (subPre P c ("unrolled_" ++ toString k)).ty? (N c pfx x k) = some "buf"
        rw [tyN x hx, ioTy0_not_input hxi]
      · intro _
        show (subPre P c ("unrolled_" ++ toString k)).fanin (N c pfx x k) = []
        rw [Arith.subPre_fanin_parent hP hsc _ hclash' (hasN x hx), fanin_congr_edges hPe,
          fanin_nil_of_not_has hQ (fresh x hx)]

end UnrollOk
end CG
