/- C02 helper: the fold of `doAssign` / `doItem` over the assignments of a module keeps the invariant. -/
import CG.Proofs.VlogAssign
namespace CG
namespace VT
open Verilog Circuit Ternary

variable {D : Name → Prop} {ins : List Name}

theorem doAssign_ok (hD : DeclOK D ins) {todo done : List (Name × Expr)} {st : TState} {l : Name} {e : Expr}
    (h : FI D ins ((l, e) :: todo) done st) (hl : D l) (hlins : l ∉ ins) (hltodo : ∀ a ∈ todo, a.1 ≠ l)
    (htodoD : ∀ a ∈ todo, D a.1) (hids : ∀ x ∈ exprIds e, D x)
    (hdone : ∀ a ∈ done, D a.1 ∧ ∀ x ∈ exprIds a.2, D x) (hc : BinConsts e) :
    ∃ st', doAssign st (l, e) = .ok st' ∧ FI D ins todo ((l, e) :: done) st' := by
  obtain ⟨s1, m, h1, o⟩ := evalExpr_ok hD e st h.si h.ge hids hc
  have hlns : ¬ IsSyn l := hD.notSyn l hl
  have hundl : Und s1.c l := (h.und (l, e) (by simp)).ext o.ext hlns
  have hundt : ∀ a ∈ todo, Und s1.c a.1 := fun a ha =>
    (h.und a (List.mem_cons_of_mem _ ha)).ext o.ext (hD.notSyn _ (htodoD a ha))
  have htest := tie_test (hD.notTie l hl)
  have hdo : doAssign st (l, e) =
      (if s1.gateExprs.contains m then
        pure { c := s1.c.relabel [(m, l)], gateExprs := s1.gateExprs.filter (· != m) }
      else addNode s1 l "buf" [m] false >>= fun r2 => pure r2.1) := by
    unfold doAssign
    simp only []
    rw [h1]
    simp only [Arith.bind_ok, htest, Bool.false_eq_true, if_false]
  rw [hdo]
  rcases o.cls with hleft | ⟨hmem, hsyn, _, hhas, hnoOut⟩
  · -- buffer of a declared net or constant
    have hns : ¬ IsSyn m := by
      rcases hleft with h' | rfl | rfl
      · exact hD.notSyn m h'
      · exact tie0_not_syn
      · exact tie1_not_syn
    have hcont : s1.gateExprs.contains m = false := by
      cases hh : s1.gateExprs.contains m with
      | false => rfl
      | true => exact absurd (o.ge m (by simpa using hh)) hns
    rw [hcont]
    simp only [Bool.false_eq_true, if_false]
    obtain ⟨c', hadd, hsi, hmono, hhasl, hund', hsem⟩ := assign_buf hD o.si hl hlins hundl o.usable
    refine ⟨{ s1 with c := c' }, ?_, hsi, o.ge, ?_, ?_, ?_⟩
    · rw [hadd]; rfl
    · intro a ha
      exact hund' a.1 (hltodo a ha) (hundt a ha)
    · intro v hv a ha
      obtain ⟨hv1, hlm⟩ := hsem v hv
      rcases List.mem_cons.mp ha with rfl | ha
      · show v l = denote v e
        rw [hlm]
        exact o.val v hv1
      · exact h.sem v (o.ext.consistent h.si.wf o.si.wf hv1) a ha
    · intro a ha
      rcases List.mem_cons.mp ha with rfl | ha
      · exact hhasl
      · exact hmono _ (o.ext.mono _ (h.hasDone a ha))
  · -- the gate is renamed onto the net
    have hcont : s1.gateExprs.contains m = true := by simpa using hmem
    rw [hcont]
    simp only [if_true]
    obtain ⟨hsi, hmono, hhasl, hund', hsem⟩ := assign_relabel hD o.si hl hlins hundl hsyn hhas hnoOut
    refine ⟨_, rfl, hsi, ?_, ?_, ?_, ?_⟩
    · intro g hg
      exact o.ge g (List.mem_filter.mp hg).1
    · intro a ha
      exact hund' a.1 (hltodo a ha) (hD.notSyn _ (htodoD a ha)) (hundt a ha)
    · intro v hv a ha
      have hv1 := hsem v hv
      have hne : ∀ x, D x → (if x = m then l else x) = x := by
        intro x hx
        rw [if_neg]
        rintro rfl
        exact hD.notSyn x hx hsyn
      have hcongr : ∀ e', (∀ x ∈ exprIds e', D x) →
          denote (fun x => v (if x = m then l else x)) e' = denote v e' := by
        intro e' he'
        apply denote_congr
        intro x hx
        show v (if x = m then l else x) = v x
        rw [hne x (he' x hx)]
      rcases List.mem_cons.mp ha with rfl | ha
      · have hm : v (if m = m then l else m) = denote (fun x => v (if x = m then l else x)) e := o.val _ hv1
        rw [if_pos rfl] at hm
        show v l = denote v e
        rw [hm]
        exact hcongr e hids
      · have hm : v (if a.1 = m then l else a.1) = denote (fun x => v (if x = m then l else x)) a.2 :=
          h.sem _ (o.ext.consistent h.si.wf o.si.wf hv1) a ha
        rw [hne a.1 (hdone a ha).1, hcongr a.2 (hdone a ha).2] at hm
        exact hm
    · intro a ha
      rcases List.mem_cons.mp ha with rfl | ha
      · exact hhasl
      · refine hmono _ ?_ (o.ext.mono _ (h.hasDone a ha))
        rintro hx
        exact hD.notSyn _ (hdone a ha).1 (hx ▸ hsyn)

/-- the fold over the `assign` items -/
theorem assign_items (hD : DeclOK D ins) (bbs : List BBox) (ord : Ord) (d : Decls) :
    ∀ (todo done : List (Name × Expr)) (st : TState), FI D ins todo done st → (todo.map (·.1)).Nodup →
      (∀ a ∈ todo, D a.1 ∧ a.1 ∉ ins ∧ (∀ x ∈ exprIds a.2, D x) ∧ BinConsts a.2) →
      (∀ a ∈ done, D a.1 ∧ ∀ x ∈ exprIds a.2, D x) →
      ∃ st', (todo.map (fun a => Item.assign [a])).foldlM (doItem bbs ord) (st, d) = .ok (st', d) ∧
        FI D ins [] (todo.reverse ++ done) st'
  | [], done, st, h, _, _, _ => ⟨st, rfl, by simpa using h⟩
  | (l, e) :: todo, done, st, h, hnd, htodo, hdone => by
    obtain ⟨hl, hlins, hids, hc⟩ := htodo (l, e) (by simp)
    rw [List.map_cons, List.nodup_cons] at hnd
    obtain ⟨st1, h1, fi1⟩ := doAssign_ok hD h hl hlins
      (fun a ha hal => hnd.1 (List.mem_map.2 ⟨a, ha, hal⟩))
      (fun a ha => (htodo a (List.mem_cons_of_mem _ ha)).1) hids hdone hc
    obtain ⟨st', h2, fi2⟩ := assign_items hD bbs ord d todo ((l, e) :: done) st1 fi1 hnd.2
      (fun a ha => htodo a (List.mem_cons_of_mem _ ha))
      (by
        intro a ha
        rcases List.mem_cons.mp ha with rfl | ha
        · exact ⟨hl, hids⟩
        · exact hdone a ha)
    refine ⟨st', ?_, by simpa using fi2⟩
    rw [List.map_cons, List.foldlM_cons]
    have : doItem bbs ord (st, d) (Item.assign [(l, e)]) = .ok (st1, d) := by
      simp only [doItem, List.foldlM_cons, List.foldlM_nil]
      rw [h1]
      rfl
    rw [this]
    exact h2

end VT
end CG
