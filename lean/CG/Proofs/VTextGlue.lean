/- C03 helper (text level): executable checks for the identifier conditions (for the non-vacuity examples) -/
import CG.Proofs.VTextLex
namespace CG
namespace VX
open Verilog

def wordB (s : String) : Bool :=
  match s.toList with
  | [] => false
  | ch :: rest => (isLetter ch || ch == '_') && rest.all idc

def identB (s : String) : Bool := wordB s && !keywords.contains s

theorem ident_of_identB {s : String} (h : identB s = true) : Ident s := by
  unfold identB at h
  rw [Bool.and_eq_true] at h
  obtain ⟨h1, h2⟩ := h
  refine ⟨?_, by simpa using h2⟩
  unfold wordB at h1
  cases hs : s.toList with
  | nil => rw [hs] at h1; cases h1
  | cons ch rest =>
    rw [hs] at h1
    simp only [Bool.and_eq_true, Bool.or_eq_true, beq_iff_eq, List.all_eq_true] at h1
    refine ⟨ch, rest, hs, h1.1, fun x hx => ?_⟩
    have := h1.2 x hx
    simp only [idc, Bool.or_eq_true, beq_iff_eq] at this
    rcases this with (h | h) | h
    · exact Or.inl h
    · exact Or.inr (Or.inl h)
    · exact Or.inr (Or.inr h)

/-- executable form of `C03.NamesOK` -/
def namesB (c : Circuit) : Bool :=
  identB c.name &&
  c.nodes.all (fun p => (p.2.ty == some "bb_input" || p.2.ty == some "bb_output") || identB p.1) &&
  c.bbs.all (fun q => identB q.1 && identB q.2.name && (q.2.ins ++ q.2.outs).all identB)

theorem names_of_namesB {c : Circuit} (h : namesB c = true) :
    Ident c.name ∧
    (∀ p ∈ c.nodes, (p.2.ty ≠ some "bb_input" ∧ p.2.ty ≠ some "bb_output") → Ident p.1) ∧
    (∀ q ∈ c.bbs, Ident q.1 ∧ Ident q.2.name ∧ ∀ g ∈ q.2.ins ++ q.2.outs, Ident g) := by
  unfold namesB at h
  simp only [Bool.and_eq_true, List.all_eq_true, Bool.or_eq_true, beq_iff_eq] at h
  obtain ⟨⟨h1, h2⟩, h3⟩ := h
  refine ⟨ident_of_identB h1, fun p hp hty => ?_, fun q hq => ?_⟩
  · rcases h2 p hp with (h | h) | h
    · exact absurd h hty.1
    · exact absurd h hty.2
    · exact ident_of_identB h
  · obtain ⟨⟨g1, g2⟩, g3⟩ := h3 q hq
    exact ⟨ident_of_identB g1, ident_of_identB g2, fun g hg => ident_of_identB (g3 g hg)⟩

end VX
end CG
