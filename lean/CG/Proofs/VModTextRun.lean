/- C14 (text level, module extraction) helper: generic facts on whole-word occurrences of `endmodule` in a list of
   characters — cuts, closed segments, words -/
import CG.Proofs.VModTextDefs
import CG.Proofs.VTextDefs
namespace CG
namespace VMT
open Verilog

/-! ### boundaries -/

theorem wc_kwE : ∀ c ∈ kwE, wc c = true := by decide

theorem brkR_nil : BrkR [] := by intro c h; simp at h
theorem brkL_nil : BrkL [] := by intro c h; simp at h

theorem brkR_cons {c : Char} {r : List Char} (h : wc c = false) : BrkR (c :: r) := by
  intro d hd
  simp only [List.head?_cons, Option.some.injEq] at hd
  subst hd
  exact h

theorem brkR_left {x y : List Char} (h : BrkR (x ++ y)) : BrkR x := by
  cases x with
  | nil => exact brkR_nil
  | cons c t =>
    intro d hd
    apply h
    simpa using hd

theorem brkL_right {x y : List Char} (h : BrkL (x ++ y)) : BrkL y := by
  intro d hd
  apply h
  rw [List.getLast?_append]
  simp [hd]

theorem brkR_append {x y : List Char} (hx : BrkR x) (hy : BrkR y) : BrkR (x ++ y) := by
  cases x with
  | nil => simpa using hy
  | cons c t =>
    intro d hd
    apply hx
    simpa using hd

theorem brkL_append {x y : List Char} (hx : BrkL x) (hy : BrkL y) : BrkL (x ++ y) := by
  intro d hd
  rw [List.getLast?_append] at hd
  cases hl : y.getLast? with
  | none =>
    rw [hl] at hd
    exact hx d (by simpa using hd)
  | some e =>
    rw [hl] at hd
    simp only [Option.some_or, Option.some.injEq] at hd
    subst hd
    exact hy _ hl

theorem brkL_append_ne {x y : List Char} (hy : BrkL y) (hne : y ≠ []) : BrkL (x ++ y) := by
  intro d hd
  rw [List.getLast?_append] at hd
  cases hl : y.getLast? with
  | none => exact absurd (List.getLast?_eq_none_iff.1 hl) hne
  | some e =>
    rw [hl] at hd
    simp only [Option.some_or, Option.some.injEq] at hd
    subst hd
    exact hy _ hl

/-- a word character at the end is no boundary -/
theorem not_brkL_word {x u : List Char} (hu : ∀ c ∈ u, wc c = true) (hne : u ≠ []) : ¬ BrkL (x ++ u) := by
  intro h
  have hl : (x ++ u).getLast? = some (u.getLast hne) := by
    rw [List.getLast?_append, List.getLast?_eq_some_getLast hne]
    rfl
  have := h _ hl
  rw [hu _ (List.getLast_mem hne)] at this
  cases this

theorem not_brkR_word {u y : List Char} (hu : ∀ c ∈ u, wc c = true) (hne : u ≠ []) : ¬ BrkR (u ++ y) := by
  intro h
  cases u with
  | nil => exact hne rfl
  | cons c t =>
    have := h c (by simp)
    rw [hu c (by simp)] at this
    cases this

/-! ### cuts -/

/-- an occurrence in `a ++ b` whose junction is a cut lies in `a` or in `b` -/
theorem split {a b pre post : List Char} (e : a ++ b = pre ++ kwE ++ post) (cut : BrkL a ∨ BrkR b) :
    (∃ post', a = pre ++ kwE ++ post' ∧ post = post' ++ b) ∨ (∃ pre', b = pre' ++ kwE ++ post ∧ pre = a ++ pre') := by
  rw [List.append_assoc, List.append_eq_append_iff] at e
  rcases e with ⟨a', h1, h2⟩ | ⟨c', h1, h2⟩
  · exact Or.inr ⟨a', by rw [h2, List.append_assoc], h1⟩
  · rw [List.append_eq_append_iff] at h2
    rcases h2 with ⟨d, h3, h4⟩ | ⟨d, h3, h4⟩
    · exact Or.inl ⟨d, by rw [h1, h3, List.append_assoc], h4⟩
    · by_cases hd : d = []
      · subst hd
        rw [List.append_nil] at h3
        subst h3
        exact Or.inl ⟨[], by simpa using h1, by simpa using h4.symm⟩
      · by_cases hc : c' = []
        · subst hc
          rw [List.nil_append] at h3
          subst h3
          exact Or.inr ⟨[], by simpa using h4, by simpa using h1.symm⟩
        · exfalso
          have wc' : ∀ c ∈ c', wc c = true := fun c hm => wc_kwE c (by rw [h3]; simp [hm])
          have wd : ∀ c ∈ d, wc c = true := fun c hm => wc_kwE c (by rw [h3]; simp [hm])
          rcases cut with h | h
          · rw [h1] at h
            exact not_brkL_word wc' hc h
          · rw [h4] at h
            exact not_brkR_word wd hd h

/-- no whole-word occurrence of `endmodule` -/
def NoRun (s : List Char) : Prop := ¬ RunIn s

theorem noRun_append {a b : List Char} (ha : NoRun a) (hb : NoRun b) (cut : BrkL a ∨ BrkR b) : NoRun (a ++ b) := by
  rintro ⟨pre, post, e, hl, hr⟩
  rcases split e cut with ⟨post', h1, h2⟩ | ⟨pre', h1, h2⟩
  · exact ha ⟨pre, post', h1, hl, brkR_left (h2 ▸ hr)⟩
  · exact hb ⟨pre', post, h1, brkL_right (h2 ▸ hl), hr⟩

/-- no occurrence, and a boundary at the end -/
def SegL (s : List Char) : Prop := NoRun s ∧ BrkL s

/-- closed segment: no occurrence, boundaries at both ends -/
def Seg (s : List Char) : Prop := NoRun s ∧ BrkL s ∧ BrkR s

theorem Seg.segL {s : List Char} (h : Seg s) : SegL s := ⟨h.1, h.2.1⟩

theorem noRun_short {s : List Char} (h : s.length < 9) : NoRun s := by
  rintro ⟨pre, post, e, _, _⟩
  have := congrArg List.length e
  simp only [List.length_append, kwE, List.length_cons, List.length_nil] at this
  omega

theorem Seg.nil : Seg [] := ⟨noRun_short (by simp), brkL_nil, brkR_nil⟩

theorem Seg.append {a b : List Char} (ha : Seg a) (hb : Seg b) : Seg (a ++ b) :=
  ⟨noRun_append ha.1 hb.1 (Or.inl ha.2.1), brkL_append ha.2.1 hb.2.1, brkR_append ha.2.2 hb.2.2⟩

theorem SegL.append {a b : List Char} (ha : SegL a) (hb : Seg b) : SegL (a ++ b) :=
  ⟨noRun_append ha.1 hb.1 (Or.inl ha.2), brkL_append ha.2 hb.2.1⟩

theorem Seg.flatten : ∀ {L : List (List Char)}, (∀ l ∈ L, Seg l) → Seg L.flatten
  | [], _ => Seg.nil
  | l :: L, h => by
    rw [List.flatten_cons]
    exact (h l (by simp)).append (Seg.flatten (fun x hx => h x (by simp [hx])))

/-- a single non-word character -/
theorem Seg.one {c : Char} (h : wc c = false) : Seg [c] :=
  ⟨noRun_short (by simp), by intro d hd; simp at hd; subst hd; exact h, brkR_cons h⟩

/-- rule: a non-word character in front -/
theorem Seg.sym {c : Char} {r : List Char} (h : wc c = false) (hr : Seg r) : Seg (c :: r) :=
  (Seg.one h).append hr

/-! ### words -/

/-- a run of word characters which is not `endmodule` -/
def W (u : List Char) : Prop := (∀ c ∈ u, wc c = true) ∧ u ≠ kwE

theorem W.noRun {u : List Char} (h : W u) : NoRun u := by
  rintro ⟨pre, post, e, hl, hr⟩
  have hpre : pre = [] := by
    cases hp : pre.getLast? with
    | none => exact List.getLast?_eq_none_iff.1 hp
    | some c =>
      have := hl c hp
      rw [h.1 c (by rw [e]; simp [List.mem_of_getLast? hp])] at this
      cases this
  have hpost : post = [] := by
    cases post with
    | nil => rfl
    | cons c t =>
      have := hr c rfl
      rw [h.1 c (by rw [e]; simp)] at this
      cases this
  subst hpre hpost
  exact h.2 (by simpa using e)

/-- rule: a word in front of a non-empty closed segment: no occurrence up to here, boundary at the end -/
theorem SegL.word {u r : List Char} (hu : W u) (hr : Seg r) (hne : r ≠ []) : SegL (u ++ r) :=
  ⟨noRun_append hu.noRun hr.1 (Or.inr hr.2.2), brkL_append_ne hr.2.1 hne⟩

/-- rule: a non-word character, a word, then a non-empty closed segment -/
theorem Seg.symWord {c : Char} {u r : List Char} (h : wc c = false) (hu : W u) (hr : Seg r) (hne : r ≠ []) :
    Seg (c :: (u ++ r)) := by
  have h1 := SegL.word hu hr hne
  have h0 := Seg.one h
  exact ⟨noRun_append (a := [c]) h0.1 h1.1 (Or.inl h0.2.1), brkL_append_ne (x := [c]) h1.2 (by simp [hne]), brkR_cons h⟩

/-! ### the words the writer prints -/

theorem wc_eq (c : Char) : wc c = (isLetter c || isDigit c || c == '_') := by
  have h : ('_' ≤ c && c ≤ '_') = (c == '_') := by
    rw [Bool.eq_iff_iff]
    simp only [Bool.and_eq_true, decide_eq_true_eq, beq_iff_eq]
    constructor
    · rintro ⟨h1, h2⟩
      exact Char.le_antisymm h2 h1
    · rintro rfl
      exact ⟨Char.le_refl _, Char.le_refl _⟩
  simp only [wc, Regex.CSet.mem, Regex.wordRanges, List.any, isLetter, isDigit, h, Bool.or_false]
  simp [Bool.or_assoc]

theorem wc_idc {c : Char} (h : isLetter c = true ∨ isDigit c = true ∨ c = '_') : wc c = true := by
  rw [wc_eq]
  rcases h with h | h | h <;> simp [h]

theorem W.ident {n : String} (h : VX.Ident n) : W n.toList := by
  obtain ⟨⟨ch, rest, e, hch, hrest⟩, hk⟩ := h
  constructor
  · intro c hc
    rw [e] at hc
    rcases List.mem_cons.1 hc with rfl | hc
    · rcases hch with h | h
      · exact wc_idc (Or.inl h)
      · exact wc_idc (Or.inr (Or.inr h))
    · exact wc_idc (hrest c hc)
  · intro hn
    apply hk
    have : n = String.ofList kwE := by rw [← hn, String.ofList_toList]
    rw [this]
    decide

theorem W.lit {u : List Char} (h1 : u.all wc = true) (h2 : (u != kwE) = true) : W u :=
  ⟨by simpa using h1, by simpa using h2⟩

theorem W.module : W "module".toList := W.lit (by decide) (by decide)
theorem W.input : W "input".toList := W.lit (by decide) (by decide)
theorem W.output : W "output".toList := W.lit (by decide) (by decide)
theorem W.wire : W "wire".toList := W.lit (by decide) (by decide)
theorem W.assign : W "assign".toList := W.lit (by decide) (by decide)
theorem W.one : W ['1'] := W.lit (by decide) (by decide)
theorem W.bit {t : String} (h : t = "0" ∨ t = "1" ∨ t = "x") : W ('b' :: t.toList) := by
  rcases h with rfl | rfl | rfl <;> exact W.lit (by decide) (by decide)

theorem nw_sp : wc ' ' = false := by decide
theorem nw_nl : wc '\n' = false := by decide
theorem nw_semi : wc ';' = false := by decide
theorem nw_comma : wc ',' = false := by decide
theorem nw_lparen : wc '(' = false := by decide
theorem nw_rparen : wc ')' = false := by decide
theorem nw_dot : wc '.' = false := by decide
theorem nw_eq : wc '=' = false := by decide
theorem nw_tilde : wc '~' = false := by decide
theorem nw_quote : wc '\'' = false := by decide

end VMT
end CG
