/- helper lemmas for C11 (influence never fails): `sensitization_transform(c, n, E)` succeeds on lint-clean circuits
   whose cone has addable, non-clashing names and no blackbox pins -/
import CG.Proofs.SensESem
set_option linter.unusedSimpArgs false
set_option linter.unusedVariables false
namespace CG
namespace SensE
open Circuit Miter Q Query

theorem mapM_ok {α β : Type} (f : α → Except Outcome β) :
    ∀ l : List α, (∀ x ∈ l, ∃ y, f x = .ok y) → ∃ r, l.mapM f = .ok r := by
  intro l
  induction l with
  | nil => intro _; exact ⟨[], rfl⟩
  | cons a l ih =>
    intro h
    obtain ⟨y, hy⟩ := h a (by simp)
    obtain ⟨r, hr⟩ := ih (fun x hx => h x (by simp [hx]))
    refine ⟨y :: r, ?_⟩
    rw [List.mapM_cons, hy, hr]
    rfl

/-- the self-miter with default startpoints / endpoints succeeds on a lint-clean circuit without blackbox pins whose
    inputs have addable, non-clashing names -/
theorem self_miter_ok {sc : Circuit} {ord : Ord} (hord : OrdOK ord) (hc : LintClean sc) (hb : sc.bbs = [])
    (hin : sc.inputs ≠ []) (hout : sc.outputs ≠ [])
    (hnobb : ∀ x t, sc.ty? x = some t → t ≠ "bb_input" ∧ t ≠ "bb_output")
    (hnames : ∀ s ∈ sc.inputs, Limit.NameOK s)
    (hclash : ∀ s ∈ sc.inputs,
      s ≠ "sat" ∧ (∀ x, s ≠ "c0_" ++ x) ∧ (∀ x, s ≠ "c1_" ++ x) ∧ (∀ x, s ≠ "dif_" ++ x)) :
    ∃ m0 sp ep, Tx.miter sc none none none ord = .ok m0 ∧ MView sc sc sp ep m0 := by
  have hne : sc.nodes ≠ [] := by
    intro e
    apply hin
    unfold inputs filterType
    rw [e]; rfl
  rw [C04.miter_self, C04.miter_defaults sc sc ord hord hne]
  have hspA : ∀ s, s ∈ ord (Tx.inter sc.startpointsAll sc.startpointsAll) ↔ s ∈ sc.startpointsAll := by
    intro s
    rw [Sens.ord_mem hord, Sens.mem_inter, and_self]
  have hepA : ∀ e, e ∈ ord (Tx.inter sc.endpointsAll sc.endpointsAll) ↔ e ∈ sc.endpointsAll := by
    intro e
    rw [Sens.ord_mem hord, Sens.mem_inter, and_self]
  have hinSA : ∀ s, s ∈ sc.inputs → s ∈ sc.startpointsAll := by
    intro s hs
    unfold startpointsAll
    unfold inputs at hs
    rw [Sens.mem_filterType] at hs ⊢
    obtain ⟨a, ha, t, ht, hm⟩ := hs
    exact ⟨a, ha, t, ht, by simp only [List.mem_singleton] at hm; subst hm; simp⟩
  have hSAin : ∀ s, s ∈ sc.startpointsAll → s ∈ sc.inputs := by
    intro s hs
    unfold startpointsAll at hs
    rw [Sens.mem_filterType] at hs
    obtain ⟨a, ha, t, ht, hm⟩ := hs
    simp only [List.mem_cons, List.not_mem_nil, or_false] at hm
    rcases hm with rfl | rfl
    · exact (mem_inputs_of_mem hc.nodup ha).2 ht
    · exact absurd rfl (hnobb s _ (Miter.ty?_of_mem hc.nodup ha ht)).2
  have hsp : ord (Tx.inter sc.startpointsAll sc.startpointsAll) ≠ [] := by
    cases hi : sc.inputs with
    | nil => exact absurd hi hin
    | cons i l =>
      intro e
      have := (hspA i).2 (hinSA i (by rw [hi]; simp))
      rw [e] at this
      cases this
  have hep : ord (Tx.inter sc.endpointsAll sc.endpointsAll) ≠ [] := by
    cases ho : sc.outputs with
    | nil => exact absurd ho hout
    | cons o l =>
      intro e
      have : o ∈ sc.endpointsAll := by
        unfold endpointsAll
        rw [Q.mem_union]
        left; rw [ho]; simp
      have := (hepA o).2 this
      rw [e] at this
      cases this
  have H : OkHyps sc sc (ord (Tx.inter sc.startpointsAll sc.startpointsAll))
      (ord (Tx.inter sc.endpointsAll sc.endpointsAll)) := by
    refine ⟨hc, hc, Sens.ord_nodup hord (Sens.inter_nodup _ (Sens.filterType_nodup hc.nodup _)),
      Sens.ord_nodup hord (Sens.inter_nodup _
        (Sens.union_nodup (Sens.outputs_nodup hc.nodup) (Sens.filterType_nodup hc.nodup _))), ?_, ?_, ?_, ?_, ?_⟩
    · intro s hs
      have := hSAin s ((hspA s).1 hs)
      exact ⟨this, this⟩
    · intro e he
      have he' := (hepA e).1 he
      unfold endpointsAll at he'
      rw [Q.mem_union] at he'
      have : sc.has e = true := by
        rcases he' with he' | he'
        · exact mem_outputs_has he'
        · rw [Sens.mem_filterType] at he'
          obtain ⟨a, ha, _⟩ := he'
          exact Miter.has_of_mem ha
      exact ⟨this, this⟩
    · intro s hs
      exact hnames s (hSAin s ((hspA s).1 hs))
    · intro s hs
      obtain ⟨k1, k2, k3, k4⟩ := hclash s (hSAin s ((hspA s).1 hs))
      refine ⟨k1, ?_, ?_, k4⟩
      · intro n; rw [pref_c0]; exact k2 n
      · intro n; rw [pref_c1]; exact k3 n
    · intro e _ t ht
      rcases ht with ht | ht <;> exact hnobb e t ht
  obtain ⟨m0, h0⟩ := miter_ok_pref ord H hb hb hne
  exact ⟨m0, _, _, h0, mview_of_ok hc hc hb hb hne h0⟩

/-- the three edits on top of the self-miter succeed -/
theorem edits_ok {sc m0 : Circuit} {sp ep : List Name} (V : MView sc sc sp ep m0) (hc : LintClean sc)
    (hnobb : ∀ x t, sc.ty? x = some t → t ≠ "bb_input" ∧ t ≠ "bb_output") {n : Name} (hn : sc.has n = true)
    (nm : String) :
    m0.has ("c1_" ++ n) = true ∧
    ∃ m, (liftO ((Sens.cut m0 nm n).setType ["c1_" ++ n] "not") >>= fun m2 =>
      liftO (m2.connect ["c0_" ++ n] ["c1_" ++ n])) = .ok m := by
  obtain ⟨a, ha⟩ := has_exists hn
  have h1 : m0.has ("c1_" ++ n) = true := by
    rw [← pref_c1]; exact Miter.has_of_mem (V.mem_c1 ha)
  have h0 : m0.has ("c0_" ++ n) = true := by
    rw [← pref_c0]; exact Miter.has_of_mem (V.mem_c0 ha)
  have hcut : ∀ x, (Sens.cut m0 nm n).has x = m0.has x := fun x => rfl
  have hcutty : ∀ x, (Sens.cut m0 nm n).ty? x = m0.ty? x := fun x => rfl
  have hset : (Sens.cut m0 nm n).setType ["c1_" ++ n] "not" =
      ((Sens.cut m0 nm n).setTyRaw ("c1_" ++ n) "not", .ok) := by
    unfold Circuit.setType
    rw [if_neg (by decide)]
    rw [setType.go, if_pos (by rw [hcut]; exact h1), setType.go]
  refine ⟨h1, ?_⟩
  rw [hset, liftO_of, ok_bind]
  have hk : ((Sens.cut m0 nm n).setTyRaw ("c1_" ++ n) "not").connectCheck ["c0_" ++ n] ["c1_" ++ n] = none := by
    apply Limit.connectCheck_none
    · intro u hu
      simp only [List.mem_singleton] at hu
      subst hu
      rw [setTyRaw_has, hcut]; exact h0
    · intro v hv
      simp only [List.mem_singleton] at hv
      subst hv
      rw [setTyRaw_has, hcut]; exact h1
    · intro v hv
      simp only [List.mem_singleton] at hv
      subst hv
      refine ⟨"not", ?_, ?_, ?_⟩
      · rw [setTyRaw_ty?, if_pos ⟨rfl, by rw [hcut]; exact h1⟩]
      · rw [Limit.T_connectL0]; decide
      · intro _
        rw [fanin_congr (setTyRaw_edges _ _ _), Sens.cut_fanin1]
        simp
    · intro u hu
      simp only [List.mem_singleton] at hu
      subst hu
      obtain ⟨t, k1, k2, k3⟩ := hU_copy hc ha (hnobb n)
      refine ⟨t, ?_, k2, k3⟩
      have hne : ¬ ("c0_" ++ n = "c1_" ++ n ∧ (Sens.cut m0 nm n).has ("c1_" ++ n) = true) := by
        intro h
        have := c0_ne_c1 n n
        rw [pref_c0, pref_c1] at this
        exact this h.1
      rw [setTyRaw_ty?, if_neg hne, hcutty, ← pref_c0]
      exact Miter.ty?_of_mem V.wf.nodup (V.mem_c0 ha) k1
  rw [connect_of_check _ _ _ (fun _ _ => hk), liftO_of]
  exact ⟨_, rfl⟩

theorem transform_ok {c : Circuit} {n : Name} {E tfi : List Name} {ord : Ord}
    {ordE : List (Name × Name) → List (Name × Name)}
    (hord : OrdOK ord) (hordE : ∀ l, (ordE l).Perm l) (hcl : LintClean c) (hb : c.bbs = [])
    (hE : E ≠ []) (htfi : transitiveFanin c E = .ok tfi) (hn : n ∈ E ++ tfi)
    (hin : ∃ s ∈ c.inputs, s ∈ E ++ tfi)
    (hnames : ∀ x ∈ E ++ tfi, Limit.NameOK x)
    (hnbb : ∀ x ∈ E ++ tfi, c.ty? x ≠ some "bb_input" ∧ c.ty? x ≠ some "bb_output")
    (hclash : ∀ s ∈ c.inputs, s ∈ E ++ tfi →
      s ≠ "sat" ∧ (∀ x, s ≠ "c0_" ++ x) ∧ (∀ x, s ≠ "c1_" ++ x) ∧ (∀ x, s ≠ "dif_" ++ x)) :
    ∃ m, Tx.sensitizationTransform c n E ord ordE = .ok m := by
  have w := hcl.toWF
  have hEe : E.isEmpty = false := by
    cases E with
    | nil => exact absurd rfl hE
    | cons a l => rfl
  have hK := cone_has w htfi
  have hnd : (ord (dedup (E ++ tfi))).Nodup := Sens.ord_nodup hord (nodup_dedup _)
  have hmem : ∀ x, x ∈ ord (dedup (E ++ tfi)) ↔ x ∈ E ++ tfi := fun x => by rw [Sens.ord_mem hord, mem_dedup]
  obtain ⟨sc0, hs0⟩ := subcircuit_ok hcl hordE hnd (fun x hx => hK x ((hmem x).1 hx))
    (fun x hx => hnames x ((hmem x).1 hx)) (fun x hx => hnbb x ((hmem x).1 hx))
  have S := subcircuit_shape w hordE hnd hs0
  have F := sub_facts hord hordE hcl htfi S
  have hinp : ∀ s, s ∈ (remark E sc0).inputs → s ∈ c.inputs ∧ s ∈ E ++ tfi := by
    intro s hs
    have hsK : s ∈ E ++ tfi := (F.has s).1 (mem_inputs_has hs)
    have h1 := (F.eq.inputs F.wcone s).1 hs
    rw [CG.mem_inputs F.wcone.nodup, Sens.sub_ty hsK] at h1
    exact ⟨(CG.mem_inputs w.nodup s).2 h1, hsK⟩
  obtain ⟨m0, sp, ep, h0, V⟩ := self_miter_ok hord F.lint F.bbs (F.inputs_ne w hin) (F.outputs_ne hE) F.nobb
    (fun s hs => hnames s (hinp s hs).2) (fun s hs => hclash s (hinp s hs).1 (hinp s hs).2)
  obtain ⟨hh, m, hm⟩ := edits_ok V F.lint F.nobb ((F.has n).2 hn)
    (c.name ++ "_sensitize_" ++ n ++ "_to_" ++ "_".intercalate E)
  have hchk : ¬ ((!tfi.contains n && !E.contains n) = true) := by
    intro h
    simp only [Bool.and_eq_true, Bool.not_eq_true', List.contains_eq_mem, decide_eq_false_iff_not] at h
    rcases List.mem_append.1 hn with h' | h'
    · exact h.2 h'
    · exact h.1 h'
  refine ⟨m, ?_⟩
  unfold Tx.sensitizationTransform
  simp only [hb, hEe, List.isEmpty_nil, Bool.not_true, Bool.false_eq_true, if_false]
  rw [htfi]
  dsimp only
  rw [if_neg hchk, hs0]
  unfold remark at h0
  simp only [ok_bind, pure_bind, h0]
  have e : ({ m0 with name := c.name ++ "_sensitize_" ++ n ++ "_to_" ++ "_".intercalate E } : Circuit).has
      ("c1_" ++ n) = true := hh
  simp only [e, Bool.not_true, Bool.false_eq_true, if_false]
  exact hm

end SensE
end CG
