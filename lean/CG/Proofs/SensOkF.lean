/- helper lemmas for C11 (total correctness of `sensitivity_transform`): the output buffers, the whole construction and the
   instantiation of the abstract hypotheses on the cone of a node of a lint-clean circuit -/
import CG.Proofs.SensOkE
import CG.Proofs.LintProdCKView
set_option linter.unusedSimpArgs false
set_option linter.unusedVariables false
namespace CG
namespace SensOk
open Circuit Miter Sens
open Tx (addC)

section
variable {cone pcC : Circuit} {sp : List Name} {n : Name} {k : Nat}

/-! ### phase 4: the output buffers -/

theorem out_step_ok (H : OkH cone pcC sp n k) {s2 s3 : Circuit} (B : S2 cone pcC sp s2)
    (S : SA cone sp n s2 (idxL sp) s3) {l1 l2 : List Nat} {o : Nat} (hL : List.range k = l1 ++ o :: l2)
    {A : Circuit} (hA : l1.foldlM (fun acc o => addC acc (outA o)) s3 = .ok A) :
    ∃ A', addC A (outA o) = .ok A' := by
  obtain ⟨nA, _, _, wA⟩ := foldAdd_ok outA plain_outA l1 s3 A S.wf hA
  have ho : o < k := List.mem_range.1 (mem_mid hL)
  have hol : o ∉ l1 := not_mem_prefix List.nodup_range hL
  have nmA : A.nodeNames = s3.nodeNames ++ l1.map (fun o => "sen_out_" ++ toString o) := by
    rw [names_append nA, List.map_map]
    rfl
  have hfresh : A.has ("sen_out_" ++ toString o) = false := by
    rw [has_false_iff, nmA, List.mem_append, ← has_iff_mem]
    rintro (hh | hm)
    · rcases (S.has_iff _).1 hh with h2 | ⟨q, _, ⟨y, _, e⟩ | e⟩
      · rcases (B.has_iff _).1 h2 with ⟨x, _, e⟩ | hm | ⟨x, _, e⟩
        · exact orig_ne_out _ _ e.symm
        · exact H.clOut _ hm o rfl
        · exact pc_ne_out _ _ e.symm
      · exact inv_ne_out _ _ _ e.symm
      · exact dif_ne_out _ _ e.symm
    · obtain ⟨o', ho', e⟩ := List.mem_map.1 hm
      exact hol ((out_inj e) ▸ ho')
  have hpo := H.pcout o ho
  obtain ⟨a, ha⟩ := has_exists hpo
  have hp0 : s2.has (pref "pc" ("out_" ++ toString o)) = true := (B.has_iff _).2 (Or.inr (Or.inr ⟨_, hpo, rfl⟩))
  have hp3 : s3.has (pref "pc" ("out_" ++ toString o)) = true := S.mono hp0
  have hp1 : A.has (pref "pc" ("out_" ++ toString o)) = true := has_mono_of_names nmA hp3
  obtain ⟨t, k1, k2, k3⟩ := strip_nobb H.lpc ha (H.pcT _)
  exact out_ok wA hfresh hp1
    ⟨t, by rw [Arith.ty?_append_left nA hp3, S.tyOld _ hp0, B.tyPc _ ha]; exact k1, k2, k3⟩

/-! ### the whole construction -/

theorem build_ok (H : OkH cone pcC sp n k) :
    ∃ sen, (liftO (({} : Circuit).addSubcircuit cone "orig" []) >>= fun s0 =>
      sp.foldlM (fun acc s => addC acc (tieA s)) s0 >>= fun s1 =>
      liftO (s1.addSubcircuit pcC "pc" []) >>= fun s2 =>
      (idxL sp).foldlM (Tx.senCopy cone sp n) s2 >>= fun s3 =>
      (List.range k).foldlM (fun acc o => addC acc (outA o)) s3) = .ok sen := by
  obtain ⟨s0, h0⟩ := orig_ok H
  have Z := s0_of H h0
  obtain ⟨s1, h1⟩ := ties_ok H Z
  obtain ⟨s2, h2, B⟩ := pc_ok H Z h1
  obtain ⟨s3, h3, S⟩ := copies_ok H B
  obtain ⟨sen, h4⟩ := foldlM_ok_prefix (fun acc o => addC acc (outA o)) (List.range k) s3
    (fun l1 o l2 A hL hA => out_step_ok H B S hL hA)
  refine ⟨sen, ?_⟩
  rw [h0, liftO_of, Miter.ok_bind, h1, Miter.ok_bind, h2, liftO_of, Miter.ok_bind, h3, Miter.ok_bind]
  exact h4

end

/-! ### the population counter has no blackbox -/

open Logic Arith Limit in
theorem popcount_bbs (w : Nat) (hw : 1 ≤ w) {c : Circuit} (h : popcount w = .ok c) : c.bbs = [] := by
  obtain ⟨ci, c0, ei, e0, h0⟩ := popcount_init w
  obtain ⟨c1, p0, i1, e1, h1⟩ := popcountLoop_ok (w + 1) c0 _ 0 h0 (by simpa using hw) (by simp)
  obtain ⟨c2, e2, I⟩ := outLoop_ok h1 p0.length (Nat.le_refl _)
  have b2 : c2.bbs = [] := by rw [I.bbs, h1.bbs]
  by_cases hno : (c2.fanout "tie0").isEmpty = true
  · have hrun : popcount w = .ok (c2.remove ["tie0"]) := by
      unfold popcount
      rw [ei, Arith.bind_ok, e0, Arith.bind_ok, e1, Arith.bind_ok]
      simp only []
      rw [e2, Arith.bind_ok, if_pos hno]
      rfl
    rw [hrun] at h
    injection h with h
    subst h
    exact b2
  · have hrun : popcount w = .ok c2 := by
      unfold popcount
      rw [ei, Arith.bind_ok, e0, Arith.bind_ok, e1, Arith.bind_ok]
      simp only []
      rw [e2, Arith.bind_ok, if_neg hno]
      rfl
    rw [hrun] at h
    injection h with h
    subst h
    exact b2

/-! ### `sensitivity_transform` as a chain of the five phases -/

theorem sensitivity_eq {c : Circuit} {n : Name} {ord : Ord} (hb : c.bbs = []) {sp0 tfi : List Name}
    (hsp : Query.startpoints c [n] = .ok sp0) (htfi : Query.transitiveFanin c [n] = .ok tfi)
    (hpos : 1 ≤ (ord sp0).length) :
    Tx.sensitivityTransform c n ord =
      (liftO (({} : Circuit).addSubcircuit (Tx.inducedSub c (n :: tfi)) "orig" []) >>= fun s0 =>
        (ord sp0).foldlM (fun acc s => addC acc (tieA s)) s0 >>= fun s1 =>
        Logic.popcount (ord sp0).length >>= fun pc =>
        liftO (s1.addSubcircuit pc "pc" []) >>= fun s2 =>
        (idxL (ord sp0)).foldlM (Tx.senCopy (Tx.inducedSub c (n :: tfi)) (ord sp0) n) s2 >>= fun s3 =>
        Logic.clog2 ((ord sp0).length + 1) >>= fun k =>
        (List.range k).foldlM (fun acc o => addC acc (outA o)) s3) := by
  unfold Tx.sensitivityTransform
  simp only [hb, List.isEmpty_nil, Bool.not_true, Bool.false_eq_true, if_false]
  rw [hsp]
  simp only [pure_bind]
  rw [if_neg (by omega), htfi]
  simp only [pure_bind]
  rfl

/-! ### the transform succeeds -/

theorem sensitivity_ok {c : Circuit} {n : Name} {ord : Ord} (hord : OrdOK ord) (hc : LintClean c) (hb : c.bbs = [])
    (hn : c.has n = true) {sp0 tfi : List Name} (hsp : Query.startpoints c [n] = .ok sp0) (hne : sp0 ≠ [])
    (htfi : Query.transitiveFanin c [n] = .ok tfi)
    (hnames : ∀ x ∈ sp0, Limit.NameOK x)
    (hnbb : ∀ x ∈ n :: tfi, c.ty? x ≠ some "bb_input" ∧ c.ty? x ≠ some "bb_output")
    (hclash : ∀ s ∈ sp0,
      (∀ x ∈ n :: tfi, s ≠ "orig_" ++ x) ∧
      (∀ s' ∈ sp0, ∀ x ∈ n :: tfi, s ≠ "inv_" ++ s' ++ "_" ++ x) ∧
      (∀ s' ∈ sp0, s ≠ "dif_out_" ++ s') ∧
      (∀ x, s ≠ "pc_" ++ x) ∧ (∀ o : Nat, s ≠ "sen_out_" ++ toString o))
    (hsep : ∀ s ∈ sp0, ∀ s' ∈ sp0, ∀ x ∈ n :: tfi, ∀ x' ∈ n :: tfi,
      s ++ "_" ++ x = s' ++ "_" ++ x' → s = s') :
    ∃ sen, Tx.sensitivityTransform c n ord = .ok sen := by
  have hwf := hc.toWF
  have hpos : 1 ≤ (ord sp0).length := by
    rw [(hord sp0).length_eq]
    cases sp0 with
    | nil => exact absurd rfl hne
    | cons a l => simp
  have hcl : ∀ u y, y ∈ n :: tfi → (u, y) ∈ c.edges → u ∈ n :: tfi :=
    fun u y hy he => keep_closed hwf hn htfi hy he
  have lcone : LintClean (Tx.inducedSub c (n :: tfi)) := sub_lint hc hcl
  obtain ⟨pcC, m, hpc, S, _, hlt, _⟩ := popcount_good (ord sp0).length hpos
  obtain ⟨k, hk, _, _⟩ := Arith.clog2_spec' ((ord sp0).length + 1) (by omega)
  have hkm := clog2_le_of_lt hk hlt
  have hmem : ∀ s, s ∈ ord sp0 ↔ s ∈ sp0 := fun s => ord_mem hord sp0 s
  have hspmem : ∀ s ∈ ord sp0, s ∈ n :: tfi ∧ s ∈ c.startpointsAll := by
    intro s hs
    exact (mem_sp_iff hc hn htfi hsp s).1 ((hmem s).1 hs)
  have hconek : ∀ x, (Tx.inducedSub c (n :: tfi)).has x = true → x ∈ n :: tfi := fun x hx => ((sub_has x).1 hx).2
  have pcTy := LintProd.popcount_types (ord sp0).length hpos hpc
  have H : OkH (Tx.inducedSub c (n :: tfi)) pcC (ord sp0) n k := by
    refine { lcone := lcone, cbb := rfl, lpc := S.lint, pbb := popcount_bbs _ hpos hpc,
             spnd := ord_nodup hord (sp_nodup hc hn hsp), spin := ?_, hn := ?_, nobb := ?_, pcT := ?_, names := ?_,
             pcin := ?_, pcout := ?_, clOrig := ?_, clInv := ?_, clDif := ?_, clPc := ?_, clOut := ?_, sep := ?_ }
    · intro s hs
      obtain ⟨a, b⟩ := hspmem s hs
      rw [CG.mem_inputs lcone.nodup, sub_ty a]
      rcases (Q.mem_startpointsAll c hwf.nodup s).1 b with h' | h'
      · exact h'
      · exact absurd h' (hnbb s a).2
    · rw [sub_has]; exact ⟨hn, by simp⟩
    · intro x t ht
      have hx := hconek x (has_of_ty? ht)
      rw [sub_ty hx] at ht
      obtain ⟨k1, k2⟩ := hnbb x hx
      rw [ht] at k1 k2
      exact ⟨fun e => k1 (by rw [e]), fun e => k2 (by rw [e])⟩
    · intro x t ht
      obtain ⟨p, hp, rfl, hpt⟩ := Tseitin.mem_of_ty pcC x t ht
      exact LintProd.genTypes_nobb (pcTy p hp t hpt)
    · intro s hs
      exact hnames s ((hmem s).1 hs)
    · intro i hi
      exact (S.inputs _).2 ⟨i, hi, rfl⟩
    · intro o ho
      apply mem_outputs_has
      rw [S.outputs]
      exact List.mem_map.2 ⟨o, List.mem_range.2 (by omega), rfl⟩
    · intro s hs x hx e
      rw [pref_orig] at e
      exact (hclash s ((hmem s).1 hs)).1 x (hconek x hx) e
    · intro s hs s' hs' x hx e
      exact (hclash s ((hmem s).1 hs)).2.1 s' ((hmem s').1 hs') x (hconek x hx) e
    · intro s hs s' hs' e
      exact (hclash s ((hmem s).1 hs)).2.2.1 s' ((hmem s').1 hs') e
    · intro s hs x e
      rw [pref_pc] at e
      exact (hclash s ((hmem s).1 hs)).2.2.2.1 x e
    · intro s hs o e
      exact (hclash s ((hmem s).1 hs)).2.2.2.2 o e
    · intro s hs s' hs' x x' hx hx' e
      apply hsep s ((hmem s).1 hs) s' ((hmem s').1 hs') x (hconek x hx) x' (hconek x' hx')
      unfold pref at e
      rw [String.append_assoc, String.append_assoc, String.append_assoc, String.append_assoc,
        String.append_right_inj, ← String.append_assoc, ← String.append_assoc] at e
      exact e
  obtain ⟨sen, hsen⟩ := build_ok H
  refine ⟨sen, ?_⟩
  rw [sensitivity_eq hb hsp htfi hpos]
  obtain ⟨s0, h0, h⟩ := Miter.bind_ok hsen
  obtain ⟨s1, h1, h⟩ := Miter.bind_ok h
  obtain ⟨s2, h2, h⟩ := Miter.bind_ok h
  obtain ⟨s3, h3, h4⟩ := Miter.bind_ok h
  rw [h0, Miter.ok_bind, h1, Miter.ok_bind, hpc, Miter.ok_bind, h2, Miter.ok_bind, h3, Miter.ok_bind, hk, Miter.ok_bind]
  exact h4

end SensOk
end CG
