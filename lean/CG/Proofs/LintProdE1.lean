/-
  CG.Proofs.LintProdE1 — C20 (second half, hierarchical composition): glue shared by `add_subcircuit` and
  `fill_blackbox`.

  * `LintClean c ∧ C20.RegistryOK c` is the C07 invariant `Inv' c []` (wiring discipline `WS` + every recorded pin
    present with its type) plus "every gate is driven" (`Arith.Driven`) plus "every dotted name is registered"
    (`LintLink.DotsRegistered`);
  * the key set of the registry after a fold of `setBB` (no hypothesis on duplicate keys);
  * `dotPrefix` / `hasDot` of a prefixed name.
-/
import CG.Props.C20
import CG.Proofs.Compose
import CG.Proofs.Api
import CG.Proofs.ArithGen
import CG.Proofs.LintLinkNoDot
set_option linter.unusedSimpArgs false
set_option linter.unusedVariables false
namespace CG
namespace LintProdE
open Circuit LintLink

/-! ### LintClean + RegistryOK  ⇄  Inv' + Driven + DotsRegistered -/

theorem pinsOK_of_registry {c : Circuit} (hr : C20.RegistryOK c) : PinsOK' c [] := by
  intro p hp
  have hv := hr.2 p hp
  constructor
  · intro g hg _
    exact Classical.byContradiction fun hne => hv (Or.inl ⟨g, hg, hne⟩)
  · intro g hg _
    exact Classical.byContradiction fun hne => hv (Or.inr ⟨g, hg, hne⟩)

theorem inv_of_clean {c : Circuit} (hc : LintClean c) (hr : C20.RegistryOK c) : Inv' c [] :=
  ⟨Arith.WS_of_lintClean hc, pinsOK_of_registry hr⟩

theorem registry_of_inv {c : Circuit} (hi : Inv' c []) (hd : DotsRegistered c) : C20.RegistryOK c := by
  refine ⟨hd, fun p hp hv => ?_⟩
  obtain ⟨h1, h2⟩ := hi.2 p hp
  rcases hv with ⟨g, hg, hv⟩ | ⟨g, hg, hv⟩
  · exact hv (h1 g hg (by simp))
  · exact hv (h2 g hg (by simp))

/-- the three ingredients give acceptance by lint -/
theorem lint_of_parts {c : Circuit} (ord : Ord) (hord : C20.OrdOK ord) (hi : Inv' c []) (hdr : Arith.Driven c)
    (hd : DotsRegistered c) : lint c {} ord = Outcome.ok :=
  C20.lint_accepts c ord hord (Arith.lintClean_of_WS hi.1 hdr) (registry_of_inv hi hd)

/-! ### keys of the registry -/

def keys (l : List (Name × BBox)) : List Name := l.map (·.1)

theorem lookup_ne_none_keys (l : List (Name × BBox)) (k : Name) : l.lookup k ≠ none ↔ k ∈ keys l := by
  rw [lookup_ne_none_iff]
  unfold keys
  exact List.mem_map.symm

theorem setBB_keys (c : Circuit) (i : Name) (bb : BBox) (k : Name) :
    k ∈ keys (c.setBB i bb).bbs ↔ k ∈ keys c.bbs ∨ k = i := by
  unfold setBB
  by_cases hs : (c.bbs.lookup i).isSome = true
  · rw [if_pos hs]
    have hi : i ∈ keys c.bbs := by
      rw [← lookup_ne_none_keys]
      intro e; rw [e] at hs; cases hs
    have : keys (c.bbs.map (fun p => if p.1 == i then (i, bb) else p)) = keys c.bbs := by
      unfold keys
      rw [List.map_map]
      apply List.map_congr_left
      intro p _
      simp only [Function.comp]
      by_cases h : p.1 = i
      · simp [h]
      · have : (p.1 == i) = false := by simpa using h
        simp [this]
    show k ∈ keys (c.bbs.map (fun p => if p.1 == i then (i, bb) else p)) ↔ _
    rw [this]
    constructor
    · exact Or.inl
    · rintro (h | rfl)
      · exact h
      · exact hi
  · rw [if_neg hs]
    show k ∈ keys (c.bbs ++ [(i, bb)]) ↔ _
    unfold keys
    simp

theorem foldl_setBB_keys (f : Name → Name) : ∀ (l : List (Name × BBox)) (c : Circuit) (k : Name),
    k ∈ keys (l.foldl (fun acc p => acc.setBB (f p.1) p.2) c).bbs ↔ k ∈ keys c.bbs ∨ ∃ p ∈ l, f p.1 = k := by
  intro l
  induction l with
  | nil => intro c k; simp
  | cons p l ih =>
    intro c k
    simp only [List.foldl_cons]
    rw [ih, setBB_keys]
    constructor
    · rintro ((h | rfl) | ⟨q, hq, e⟩)
      · exact Or.inl h
      · exact Or.inr ⟨p, by simp, rfl⟩
      · exact Or.inr ⟨q, List.mem_cons_of_mem _ hq, e⟩
    · rintro (h | ⟨q, hq, e⟩)
      · exact Or.inl (Or.inl h)
      · rcases List.mem_cons.1 hq with rfl | hq
        · exact Or.inl (Or.inr e.symm)
        · exact Or.inr ⟨q, hq, e⟩

/-- every entry of the registry after a fold of `setBB` is an old entry or one of the written ones -/
theorem foldl_setBB_mem (f : Name → Name) : ∀ (l : List (Name × BBox)) (c : Circuit) (q : Name × BBox),
    q ∈ (l.foldl (fun acc p => acc.setBB (f p.1) p.2) c).bbs → q ∈ c.bbs ∨ ∃ p ∈ l, q = (f p.1, p.2) := by
  intro l
  induction l with
  | nil => intro c q h; exact Or.inl h
  | cons p l ih =>
    intro c q h
    simp only [List.foldl_cons] at h
    rcases ih _ q h with h1 | ⟨p', hp', e⟩
    · rcases setBB_mem c _ _ h1 with h2 | h2
      · exact Or.inl h2
      · exact Or.inr ⟨p, by simp, h2⟩
    · exact Or.inr ⟨p', List.mem_cons_of_mem _ hp', e⟩

/-- an old entry whose key is not written survives a fold of `setBB` -/
theorem foldl_setBB_keep (f : Name → Name) : ∀ (l : List (Name × BBox)) (c : Circuit) (q : Name × BBox),
    q ∈ c.bbs → (∀ p ∈ l, f p.1 ≠ q.1) → q ∈ (l.foldl (fun acc p => acc.setBB (f p.1) p.2) c).bbs := by
  intro l
  induction l with
  | nil => intro c q h _; exact h
  | cons p l ih =>
    intro c q h hne
    simp only [List.foldl_cons]
    apply ih _ q _ (fun p' hp' => hne p' (List.mem_cons_of_mem _ hp'))
    have hp : f p.1 ≠ q.1 := hne p (by simp)
    unfold setBB
    split
    · show q ∈ c.bbs.map _
      refine List.mem_map.2 ⟨q, h, ?_⟩
      have : (q.1 == f p.1) = false := by simpa using (Ne.symm hp)
      simp [this]
    · show q ∈ c.bbs ++ _
      exact List.mem_append.2 (Or.inl h)

/-! ### dots of prefixed names -/

theorem takeWhile_append_all (p : Char → Bool) : ∀ (l m : List Char), (∀ x ∈ l, p x = true) →
    (l ++ m).takeWhile p = l ++ m.takeWhile p
  | [], _, _ => rfl
  | a :: l, m, h => by
    simp only [List.cons_append, List.takeWhile_cons, h a (by simp), if_true]
    rw [takeWhile_append_all p l m (fun x hx => h x (by simp [hx]))]

/-- the text before the first dot of `a ++ b` when `a` is dot-free -/
theorem dotPrefix_append_nodot (a b : Name) (ha : hasDot a = false) : dotPrefix (a ++ b) = a ++ dotPrefix b := by
  unfold dotPrefix
  have hall : ∀ x ∈ a.toList, (x != '.') = true := by
    intro x hx
    rw [bne_iff_ne]
    rintro rfl
    unfold hasDot at ha
    rw [List.contains_iff_mem.mpr hx] at ha
    cases ha
  rw [String.toList_append, takeWhile_append_all _ _ _ hall, String.ofList_append, String.ofList_toList]

theorem dotPrefix_pref (name n : Name) (hname : hasDot name = false) :
    dotPrefix (pref name n) = pref name (dotPrefix n) := by
  unfold pref
  have h1 : hasDot (name ++ "_") = false := by
    rw [hasDot_append, hname]; decide
  exact dotPrefix_append_nodot (name ++ "_") n h1

theorem hasDot_pref' (name n : Name) (hname : hasDot name = false) : hasDot (pref name n) = hasDot n := by
  rw [hasDot_pref, hname, Bool.false_or]

theorem pref_ne_self (inst k : Name) : pref inst k ≠ inst := by
  intro e
  have := congrArg String.length e
  unfold pref at this
  rw [String.length_append, String.length_append] at this
  have h1 : "_".length = 1 := by decide
  omega

/-! ### small node-list facts -/

theorem ty?_of_mem {c : Circuit} (hnd : c.nodeNames.Nodup) {n : Name} {a : Attr} (h : (n, a) ∈ c.nodes) :
    c.ty? n = a.ty := by
  unfold ty?
  rw [attr?_of_mem hnd h]
  rfl

theorem ty?_of_attr {c : Circuit} {n : Name} {a : Attr} (h : c.attr? n = some a) : c.ty? n = a.ty := by
  unfold ty?
  rw [h]
  rfl

theorem stripA_ty_eq {a : Attr} (h : a.ty ≠ some "input") : (stripA a).ty = a.ty := by
  unfold stripA
  show (if a.ty = some "input" then some "buf" else a.ty) = a.ty
  rw [if_neg h]

end LintProdE
end CG
