/- C13 helper: the bit helpers of utils.py (`clog2`, `int_to_bin`, `bin_to_int`) -/
import CG.Logic
namespace CG
namespace Arith
open Logic

/-! ### clog2 -/

theorem clog2Go_spec (num : Nat) : ∀ fuel accum, num ≤ fuel + accum → (accum = 0 ∨ 2 ^ (accum - 1) < num) →
    num ≤ 2 ^ (clog2Go fuel num accum (2 ^ accum)) ∧
      (clog2Go fuel num accum (2 ^ accum) = 0 ∨ 2 ^ (clog2Go fuel num accum (2 ^ accum) - 1) < num)
  | 0, accum, hf, ha => by
    simp only [clog2Go]
    refine ⟨?_, ha⟩
    have h1 : num < 2 ^ num := Nat.lt_two_pow_self
    have h2 : 2 ^ num ≤ 2 ^ accum := Nat.pow_le_pow_right (by decide) (by omega)
    omega
  | fuel + 1, accum, hf, ha => by
    simp only [clog2Go]
    by_cases h : num > 2 ^ accum
    · rw [if_pos h]
      have e : 2 ^ accum * 2 = 2 ^ (accum + 1) := by rw [Nat.pow_succ]
      rw [e]
      apply clog2Go_spec num fuel (accum + 1) (by omega)
      right
      simpa using h
    · rw [if_neg h]
      exact ⟨by omega, ha⟩

theorem clog2_ok (n : Nat) (h : 1 ≤ n) : clog2 n = .ok (clog2Go n n 0 1) := by
  unfold clog2
  rw [if_neg (by omega)]

theorem clog2_spec' (n : Nat) (h : 1 ≤ n) :
    ∃ k, clog2 n = .ok k ∧ n ≤ 2 ^ k ∧ (k = 0 ∨ 2 ^ (k - 1) < n) := by
  refine ⟨clog2Go n n 0 1, clog2_ok n h, ?_⟩
  have := clog2Go_spec n n 0 (by omega) (Or.inl rfl)
  simpa using this

/-! ### int_to_bin / bin_to_int -/

/-- the msb-first Horner fold of `bin_to_int` -/
def horner (l : List Bool) (init : Nat) : Nat :=
  l.foldl (fun acc x => 2 * acc + (if x then 1 else 0)) init

theorem horner_append (l m : List Bool) (init : Nat) : horner (l ++ m) init = horner m (horner l init) := by
  simp [horner]

theorem horner_replicate_false (n : Nat) : horner (List.replicate n false) 0 = 0 := by
  induction n with
  | zero => rfl
  | succ n ih =>
    rw [List.replicate_succ']
    rw [horner_append, ih]
    rfl

theorem digitChar_mod_two (n : Nat) : (Nat.digitChar (n % 2) == '1') = decide (n % 2 = 1) := by
  rcases Nat.mod_two_eq_zero_or_one n with h | h <;> rw [h] <;> decide

theorem horner_toDigits : ∀ n : Nat, horner ((Nat.toDigits 2 n).map (· == '1')) 0 = n := by
  intro n
  induction n using Nat.strongRecOn with
  | _ n ih =>
    rw [Nat.toDigits_eq_if (by decide)]
    by_cases h : n < 2
    · rw [if_pos h]
      have : n = 0 ∨ n = 1 := by omega
      rcases this with rfl | rfl <;> decide
    · rw [if_neg h, List.map_append, horner_append, ih (n / 2) (by omega)]
      simp only [List.map_cons, List.map_nil, horner, List.foldl_cons, List.foldl_nil]
      rw [digitChar_mod_two]
      rcases Nat.mod_two_eq_zero_or_one n with h2 | h2
      · rw [h2]; simp only [Nat.zero_ne_one, decide_false, Bool.false_eq_true, if_false]; omega
      · rw [h2]; simp only [decide_true, if_true]; omega

theorem horner_binDigits (i : Nat) : horner (binDigits i) 0 = i := by
  unfold binDigits
  by_cases h : i = 0
  · subst h; rfl
  · rw [if_neg h]; exact horner_toDigits i

theorem binToInt_eq (b : List Bool) (lend : Bool) :
    binToInt b lend = horner (if lend then b.reverse else b) 0 := rfl

theorem bin_roundtrip_any' (i w : Nat) (lend : Bool) : binToInt (intToBin i w lend) lend = i := by
  rw [binToInt_eq]
  unfold intToBin
  simp only []
  have : (if lend = true then
      (if lend = true then (List.replicate (w - (binDigits i).length) false ++ binDigits i).reverse
        else List.replicate (w - (binDigits i).length) false ++ binDigits i).reverse
      else if lend = true then (List.replicate (w - (binDigits i).length) false ++ binDigits i).reverse
        else List.replicate (w - (binDigits i).length) false ++ binDigits i) =
      List.replicate (w - (binDigits i).length) false ++ binDigits i := by
    cases lend
    · simp
    · simp only [if_true, List.reverse_reverse]
  rw [this, horner_append, horner_replicate_false, horner_binDigits]

theorem length_binDigits_le (i w : Nat) (h : i < 2 ^ w) (hw : 1 ≤ w) : (binDigits i).length ≤ w := by
  unfold binDigits
  by_cases h0 : i = 0
  · rw [if_pos h0]; simpa using hw
  · rw [if_neg h0, List.length_map]
    exact (Nat.length_toDigits_le_iff (by decide) hw).2 h

theorem length_intToBin (i w : Nat) (lend : Bool) (h : i < 2 ^ w) (hw : 1 ≤ w) :
    (intToBin i w lend).length = w := by
  have hl := length_binDigits_le i w h hw
  unfold intToBin
  simp only []
  cases lend
  · simp only [Bool.false_eq_true, if_false, List.length_append, List.length_replicate]; omega
  · simp only [if_true, List.length_reverse, List.length_append, List.length_replicate]; omega

end Arith
end CG
