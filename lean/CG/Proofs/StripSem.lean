/- helper lemmas for C06 (strip_blackboxes): consistent valuations of `c` and of the stripped circuit correspond -/
import CG.Proofs.StripView
import CG.Proofs.LimitGate
set_option linter.unusedSimpArgs false
set_option linter.unusedVariables false
namespace CG.Strip
open CG Circuit

/-! ### gate table facts -/

theorem gateFn_buf_bbin (l : List Bool) : gateFn "buf" l = gateFn "bb_input" l := by
  simp [gateFn]
theorem gateFn_bbin_single (a : Bool) : gateFn "bb_input" [a] = some a := by simp [gateFn]
theorem gateFn_buf_single (a : Bool) : gateFn "buf" [a] = some a := by simp [gateFn]
theorem gateFn_buf_nil : gateFn "buf" [] = none := by simp [gateFn]
theorem gateFn_input (l : List Bool) : gateFn "input" l = none := by simp [gateFn]
theorem gateFn_bbout (l : List Bool) : gateFn "bb_output" l = none := by simp [gateFn]

theorem eq_singleton_of_length_le_one {α : Type} {l : List α} (h : l.length ≤ 1) {x : α} (hx : x ∈ l) : l = [x] := by
  match l, h, hx with
  | [y], _, hx => simp at hx; rw [hx]
  | _ :: _ :: _, h, _ => simp at h

/-! ### what lint-cleanness says about the neighbours of a pin -/

theorem driver_not_pin {c : Circuit} (hc : LintClean c) {u n : Name} (he : (u, n) ∈ c.edges)
    (hn : c.ty? n = some "bb_input") : isPin c u = false := by
  cases hp : isPin c u with
  | false => rfl
  | true =>
    rcases (isPin_iff c u).1 hp with h | h
    · exact absurd h (hc.noBBInFanout (u, n) he)
    · have := (hc.bbOut (u, n) he h).1
      rw [hn] at this; simp at this

theorem load_of_pin {c : Circuit} (hc : LintClean c) {d n : Name} (he : (d, n) ∈ c.edges)
    (hd : isPin c d = true) :
    c.ty? d = some "bb_output" ∧ c.ty? n = some "buf" ∧ c.fanin n = [d] ∧ c.fanout d = [n] := by
  rcases (isPin_iff c d).1 hd with h | h
  · exact absurd h (hc.noBBInFanout (d, n) he)
  · obtain ⟨h1, h2⟩ := hc.bbOut (d, n) he h
    have h3 := hc.single n "buf" h1 (by simp [singleTypes])
    exact ⟨h, h1, eq_singleton_of_length_le_one (by omega) (mem_fanin.2 he),
      eq_singleton_of_length_le_one h2 (mem_fanout.2 he)⟩

/-! ### fan-in of a surviving node -/

theorem fanin_perm {c c' : Circuit} {ig : List Name} (hc : WF c) (S : StripView c ig c') {n : Name}
    (h1 : c.has n = true) (h2 : dropped c ig n = false) :
    (c'.fanin (sname c ig n)).Perm (((c.fanin n).filter (fun u => !dropped c ig u)).map (sname c ig)) := by
  apply (List.perm_ext_iff_of_nodup (fanin_nodup S.edgesNodup _) ?_).2
  · intro u'
    rw [mem_fanin, S.edges]
    simp only [List.mem_map, List.mem_filter, mem_fanin, Bool.not_eq_true']
    constructor
    · rintro ⟨a, b, hab, da, db, e⟩
      injection e with e1 e2
      have := S.inj n b h1 (hc.closed _ hab).2 h2 db e2
      subst this
      exact ⟨a, ⟨hab, da⟩, e1.symm⟩
    · rintro ⟨a, ⟨hab, da⟩, rfl⟩
      exact ⟨a, n, hab, da, h2, rfl⟩
  · apply nodup_map_of_inj (nodup_filter _ (fanin_nodup hc.edgesNodup n))
    intro x hx y hy e
    simp only [List.mem_filter, mem_fanin, Bool.not_eq_true'] at hx hy
    exact S.inj x y (hc.closed _ hx.1).1 (hc.closed _ hy.1).1 hx.2 hy.2 e

/-- a surviving node none of whose drivers was deleted computes the same function -/
theorem gate_transfer {c c' : Circuit} {ig : List Name} (hc : WF c) (S : StripView c ig c') {n : Name}
    (h1 : c.has n = true) (h2 : dropped c ig n = false) (hall : ∀ u ∈ c.fanin n, dropped c ig u = false)
    (v v' : Val) (hvv : ∀ u ∈ c.fanin n, v u = v' (sname c ig u)) (t : String) :
    gateFn t ((c'.fanin (sname c ig n)).map v') = gateFn t ((c.fanin n).map v) := by
  have P := fanin_perm hc S h1 h2
  have hf : (c.fanin n).filter (fun u => !dropped c ig u) = c.fanin n := by
    apply List.filter_eq_self.2
    intro u hu; rw [hall u hu]; rfl
  rw [hf] at P
  rw [Limit.gateFn_perm_any t (P.map v'), List.map_map]
  congr 1
  apply List.map_congr_left
  intro u hu
  exact (hvv u hu).symm

/-! ### from the stripped circuit back to `c` -/

def pullVal (c : Circuit) (ig : List Name) (v' : Val) : Val := fun n =>
  if dropped c ig n then
    (if c.ty? n = some "bb_input" then (match c.fanin n with | [u] => v' u | _ => false)
     else (match c.fanout n with | [b] => v' b | _ => false))
  else v' (sname c ig n)

theorem pullVal_surv {c : Circuit} {ig : List Name} (v' : Val) {n : Name} (h : dropped c ig n = false) :
    pullVal c ig v' n = v' (sname c ig n) := by
  simp [pullVal, h]

theorem pull_consistent {c c' : Circuit} {ig : List Name} (hc : LintClean c) (S : StripView c ig c')
    (v' : Val) (hv' : Consistent c' v') : Consistent c (pullVal c ig v') := by
  intro p hp t ht b hg
  have hattr : c.attr? p.1 = some p.2 := attr?_of_mem hc.nodup hp
  have hty : c.ty? p.1 = some t := by simp [Circuit.ty?, hattr, ht]
  have hhas : c.has p.1 = true := has_of_ty? hty
  generalize p.1 = n at *
  cases hp' : isPin c n with
  | true =>
    rcases (isPin_iff c n).1 hp' with hI | hO
    · -- a blackbox input pin: buffer of its single driver, which is not a pin
      have ht' : t = "bb_input" := by rw [hty] at hI; injection hI
      subst ht'
      have hall : ∀ u ∈ c.fanin n, dropped c ig u = false := fun u hu =>
        dropped_false_of_not_pin (driver_not_pin hc (mem_fanin.1 hu) hty)
      cases hd : dropped c ig n with
      | true =>
        have hlen := hc.single n "bb_input" hty (by simp [singleTypes])
        match hf : c.fanin n, hlen with
        | [u], _ =>
          have hu := hall u (by rw [hf]; simp)
          rw [hf] at hg
          simp only [List.map_cons, List.map_nil, gateFn_bbin_single, pullVal_surv v' hu] at hg
          injection hg with hg
          have hk : kept c ig u = false :=
            kept_false_of_not_pin (driver_not_pin hc (mem_fanin.1 (by rw [hf]; simp)) hty)
          rw [sname_of_not_kept hk] at hg
          simp only [pullVal, hd, if_true, hty, hf]
          exact hg
      | false =>
        have hk := kept_of_pin_not_dropped hp' hd
        rw [pullVal_surv v' hd]
        have hnode : (sname c ig n, ({ ty := some "buf", out := some true } : Attr)) ∈ c'.nodes := by
          rw [sname_of_kept hk]; exact attr?_mem (S.attrIn n hty hk)
        apply hv' _ hnode "buf" rfl b
        rw [gate_transfer hc.toWF S hhas hd hall (pullVal c ig v') v'
          (fun u hu => pullVal_surv v' (hall u hu)) "buf", gateFn_buf_bbin]
        exact hg
    · have ht' : t = "bb_output" := by rw [hty] at hO; injection hO
      subst ht'
      rw [gateFn_bbout] at hg; cases hg
  | false =>
    have hd := dropped_false_of_not_pin (ig := ig) hp'
    have hk := kept_false_of_not_pin (ig := ig) hp'
    have hsn := sname_of_not_kept hk
    rw [pullVal_surv v' hd, hsn]
    have hnode : (n, p.2) ∈ c'.nodes := attr?_mem (by rw [S.attrKeep n hhas hp', hattr])
    by_cases hx : ∃ d ∈ c.fanin n, dropped c ig d = true
    · obtain ⟨d, hdn, hdd⟩ := hx
      obtain ⟨hdO, hnB, hfi, hfo⟩ := load_of_pin hc (mem_fanin.1 hdn) (dropped_isPin hdd)
      have ht' : t = "buf" := by rw [hty] at hnB; injection hnB
      subst ht'
      rw [hfi] at hg
      simp only [List.map_cons, List.map_nil, gateFn_buf_single] at hg
      injection hg with hg
      rw [← hg]
      have hne : ¬ c.ty? d = some "bb_input" := by rw [hdO]; simp
      simp only [pullVal, hdd, if_true, hne, if_false, hfo]
    · have hall : ∀ u ∈ c.fanin n, dropped c ig u = false := by
        intro u hu
        cases h : dropped c ig u with
        | false => rfl
        | true => exact absurd ⟨u, hu, h⟩ hx
      apply hv' _ hnode t ht b
      have := gate_transfer hc.toWF S hhas hd hall (pullVal c ig v') v'
        (fun u hu => pullVal_surv v' (hall u hu)) t
      rw [hsn] at this
      rw [this]; exact hg

/-! ### from `c` to the stripped circuit -/

def pushVal (c : Circuit) (ig : List Name) (v : Val) : Val := fun m =>
  match c.nodeNames.find? (fun n => !dropped c ig n && sname c ig n == m) with
  | some n => v n
  | none => false

theorem pushVal_surv {c c' : Circuit} {ig : List Name} (S : StripView c ig c') (v : Val) {n : Name}
    (h1 : c.has n = true) (h2 : dropped c ig n = false) : pushVal c ig v (sname c ig n) = v n := by
  unfold pushVal
  cases hf : c.nodeNames.find? (fun k => !dropped c ig k && sname c ig k == sname c ig n) with
  | none =>
    have := List.find?_eq_none.1 hf n ((has_iff_mem c n).1 h1)
    simp [h2] at this
  | some n0 =>
    have hp := List.find?_some hf
    have hm := List.mem_of_find?_eq_some hf
    simp only [Bool.and_eq_true, Bool.not_eq_true', beq_iff_eq] at hp
    have := S.inj n0 n ((has_iff_mem c n0).2 hm) h1 hp.1 h2 hp.2
    subst this; rfl

theorem push_consistent {c c' : Circuit} {ig : List Name} (hc : LintClean c) (S : StripView c ig c')
    (v : Val) (hv : Consistent c v) : Consistent c' (pushVal c ig v) := by
  intro p' hp' t' ht' b hg
  have hattr' : c'.attr? p'.1 = some p'.2 := attr?_of_mem S.nodup hp'
  have hhas' : c'.has p'.1 = true := by rw [has_eq_isSome, hattr']; rfl
  obtain ⟨n, h1, h2, hm⟩ := (S.has p'.1).1 hhas'
  generalize p'.1 = m at *
  subst hm
  have hvv : ∀ u ∈ c.fanin n, dropped c ig u = false → v u = pushVal c ig v (sname c ig u) := fun u hu hdu =>
    (pushVal_surv S v (hc.closed _ (mem_fanin.1 hu)).1 hdu).symm
  rw [pushVal_surv S v h1 h2]
  cases hp : isPin c n with
  | false =>
    have hk := kept_false_of_not_pin (ig := ig) hp
    have hsn := sname_of_not_kept hk
    rw [hsn] at hattr' hg
    have hattr : c.attr? n = some p'.2 := by rw [← S.attrKeep n h1 hp]; exact hattr'
    have hnode : (n, p'.2) ∈ c.nodes := attr?_mem hattr
    have hty : c.ty? n = some t' := by simp [Circuit.ty?, hattr, ht']
    by_cases hx : ∃ d ∈ c.fanin n, dropped c ig d = true
    · obtain ⟨d, hdn, hdd⟩ := hx
      obtain ⟨hdO, hnB, hfi, hfo⟩ := load_of_pin hc (mem_fanin.1 hdn) (dropped_isPin hdd)
      have ht'' : t' = "buf" := by rw [hty] at hnB; injection hnB
      subst ht''
      have P := fanin_perm hc.toWF S h1 h2
      rw [hsn, hfi] at P
      simp only [List.filter_cons, hdd, Bool.not_true, Bool.false_eq_true, if_false, List.filter_nil,
        List.map_nil] at P
      rw [List.perm_nil.1 P] at hg
      simp only [List.map_nil, gateFn_buf_nil] at hg
      cases hg
    · have hall : ∀ u ∈ c.fanin n, dropped c ig u = false := by
        intro u hu
        cases h : dropped c ig u with
        | false => rfl
        | true => exact absurd ⟨u, hu, h⟩ hx
      apply hv _ hnode t' ht' b
      have := gate_transfer hc.toWF S h1 h2 hall v (pushVal c ig v) (fun u hu => hvv u hu (hall u hu)) t'
      rw [hsn] at this
      rw [← this]; exact hg
  | true =>
    have hk := kept_of_pin_not_dropped hp h2
    rcases (isPin_iff c n).1 hp with hI | hO
    · have hall : ∀ u ∈ c.fanin n, dropped c ig u = false := fun u hu =>
        dropped_false_of_not_pin (driver_not_pin hc (mem_fanin.1 hu) hI)
      have ha := S.attrIn n hI hk
      rw [← sname_of_kept hk, hattr'] at ha
      injection ha with ha
      have ht'' : t' = "buf" := by
        rw [ha] at ht'; injection ht' with ht'; exact ht'.symm
      subst ht''
      have hh : (c.attr? n).isSome = true := by rw [← has_eq_isSome]; exact h1
      cases hca : c.attr? n with
      | none => rw [hca] at hh; cases hh
      | some a =>
        have hta : a.ty = some "bb_input" := by simpa [Circuit.ty?, hca] using hI
        apply hv _ (attr?_mem hca) "bb_input" hta b
        rw [← gateFn_buf_bbin, ← gate_transfer hc.toWF S h1 h2 hall v (pushVal c ig v)
          (fun u hu => hvv u hu (hall u hu)) "buf"]
        exact hg
    · have hh : (c.attr? n).isSome = true := by rw [← has_eq_isSome]; exact h1
      cases hca : c.attr? n with
      | none => rw [hca] at hh; cases hh
      | some a =>
        have hta : a.ty = some "bb_output" := by simpa [Circuit.ty?, hca] using hO
        have ha := S.attrOut n a hca hta hk
        rw [← sname_of_kept hk, hattr'] at ha
        injection ha with ha
        have ht'' : t' = "input" := by
          rw [ha] at ht'; injection ht' with ht'; exact ht'.symm
        subst ht''
        rw [gateFn_input] at hg; cases hg

end CG.Strip
