/-
  CG.Proofs.VRoundBeh — helper lemmas for the behavioural round trip (C03); import hub.
   * `VRoundBehWrite`  — what `toWModule c true` emits: one `assign` per non-input node whose right-hand side denotes
                         the node's gate function (`VB.write_beh`, `VB.asgs_spec`)
   * `VRoundBehBackA`  — valuations carried forward along `add`, the rename of a gate onto its net, `dropTie`
   * `VRoundBehBackB`  — `evalExpr` on mux-free expressions with the backward extension (`VB.evalExpr_ok2`)
   * `VRoundBehBackC`  — the fold over the assignments with the backward invariant, `VB.transform_back`,
                         `wire` declarations are no-ops (`VB.transform_wires`)
   * `VRoundBehMain`   — assembly (`VB.roundtrip`)
-/
import CG.Proofs.VRound
import CG.Proofs.Vlog
import CG.Proofs.VRoundBehMain
