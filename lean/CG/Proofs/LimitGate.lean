/- gate algebra for C05: permutation invariance and associativity of the multi-input gates -/
import CG.Tx
import CG.Spec
namespace CG
namespace Limit

theorem xorL_perm {l₁ l₂ : List Bool} (h : l₁.Perm l₂) : xorL l₁ = xorL l₂ := by
  induction h with
  | nil => rfl
  | cons x _ ih => simp [xorL, ih]
  | swap x y l => cases x <;> cases y <;> simp [xorL]
  | trans _ _ ih1 ih2 => exact ih1.trans ih2

/-- operand order is irrelevant for every gate type -/
theorem gateFn_perm_any (t : String) {l₁ l₂ : List Bool} (h : l₁.Perm l₂) :
    gateFn t l₁ = gateFn t l₂ := by
  match l₁, l₂, h with
  | [], l₂, h => rw [List.nil_perm.mp h]
  | [a], l₂, h => rw [List.singleton_perm.mp h]
  | a :: b :: r, [], h => exact absurd h.length_eq (by simp)
  | a :: b :: r, [x], h => exact absurd h.length_eq (by simp)
  | a :: b :: r, x :: y :: s, h =>
    unfold gateFn
    rw [h.all_eq, h.any_eq, xorL_perm h]

theorem gatemap_assoc (t g : String) (h : (t, g) ∈ Expected.gatemap) (a b : Bool) (r : List Bool) :
    gateFn t (a :: b :: r) = (gateFn g [a, b]).bind (fun ab => gateFn t (ab :: r)) := by
  simp only [Expected.gatemap, List.mem_cons, Prod.mk.injEq, List.not_mem_nil, or_false] at h
  rcases h with ⟨rfl, rfl⟩ | ⟨rfl, rfl⟩ | ⟨rfl, rfl⟩ | ⟨rfl, rfl⟩ | ⟨rfl, rfl⟩ | ⟨rfl, rfl⟩ <;>
    simp [gateFn, xorL, Bool.and_assoc, Bool.or_assoc]

end Limit
end CG
