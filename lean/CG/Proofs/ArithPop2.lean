/- C13 helper (popcount 2/3): one iteration of the queue loop -/
import CG.Proofs.ArithPop1
set_option linter.unusedSimpArgs false
set_option linter.unusedVariables false
namespace CG
namespace Arith
open Logic Circuit Limit
open Tx (addC)

/-! ### names -/

def PName (w i : Nat) (x : Name) : Prop :=
  x = "tie0" ∨ (∃ k, k < w ∧ x = "in_" ++ toString k) ∨ ∃ j n, j < i ∧ x = pref ("add_" ++ toString j) n

theorem PName.mono {w i : Nat} {x : Name} (h : PName w i x) : PName w (i + 1) x := by
  rcases h with h | h | ⟨j, n, hj, h⟩
  · exact Or.inl h
  · exact Or.inr (Or.inl h)
  · exact Or.inr (Or.inr ⟨j, n, by omega, h⟩)

theorem not_PName_add (w i : Nat) (n : Name) : ¬ PName w i (pref ("add_" ++ toString i) n) := by
  rintro (h | ⟨k, _, h⟩ | ⟨j, m, hj, h⟩)
  · revert h; unfold pref; name_ne
  · revert h; unfold pref; name_ne
  · have := (pref_idx_inj "add_" h).1; omega

theorem not_PName_out (w i j : Nat) : ¬ PName w i ("out_" ++ toString j) := by
  rintro (h | ⟨k, _, h⟩ | ⟨j, m, hj, h⟩)
  · revert h; name_ne
  · revert h; name_ne
  · revert h; unfold pref; name_ne

theorem lit_out : "_out_" = "_" ++ "out_" := by decide
theorem lit_a : "_a_" = "_" ++ "a_" := by decide
theorem lit_b : "_b_" = "_" ++ "b_" := by decide

theorem pref_out (s : String) (t : String) : s ++ "_out_" ++ t = pref s ("out_" ++ t) := by
  unfold pref; rw [lit_out]; simp only [String.append_assoc]
theorem pref_a (s : String) (t : String) : s ++ "_a_" ++ t = pref s ("a_" ++ t) := by
  unfold pref; rw [lit_a]; simp only [String.append_assoc]
theorem pref_b (s : String) (t : String) : s ++ "_b_" ++ t = pref s ("b_" ++ t) := by
  unfold pref; rw [lit_b]; simp only [String.append_assoc]

/-! ### what the step needs to know about the adder instance -/

section adderFacts
variable {aw : Nat} {AD : Circuit}

theorem AdderSpec.wf (S : AdderSpec aw false true AD) : WF AD := S.lint.toWF

theorem AdderSpec.has_cout (S : AdderSpec aw false true AD) : AD.has "cout" = true :=
  mem_outputs_has ((S.outputs "cout").2 (Or.inr ⟨rfl, rfl⟩))

theorem AdderSpec.not_has_out (S : AdderSpec aw false true AD) : AD.has ("out_" ++ toString aw) = false := by
  cases hh : AD.has ("out_" ++ toString aw) with
  | false => rfl
  | true =>
    rcases S.names _ hh with h | ⟨_, h⟩
    · exact absurd h (not_AName_out aw)
    · revert h; name_ne

theorem AdderSpec.input_a (S : AdderSpec aw false true AD) {j : Nat} (hj : j < aw) :
    ("a_" ++ toString j) ∈ AD.inputs := (S.inputs _).2 (Or.inl ⟨j, hj, Or.inl rfl⟩)

theorem AdderSpec.input_b (S : AdderSpec aw false true AD) {j : Nat} (hj : j < aw) :
    ("b_" ++ toString j) ∈ AD.inputs := (S.inputs _).2 (Or.inl ⟨j, hj, Or.inr rfl⟩)

theorem AdderSpec.inputs_cases (S : AdderSpec aw false true AD) {x : Name} (hx : x ∈ AD.inputs) :
    ∃ j, j < aw ∧ (x = "a_" ++ toString j ∨ x = "b_" ++ toString j) := by
  rcases (S.inputs x).1 hx with h | ⟨h, _⟩
  · exact h
  · cases h

theorem AdderSpec.input_fanin (S : AdderSpec aw false true AD) {x : Name} (hx : x ∈ AD.inputs) :
    ∀ e ∈ AD.edges, e.2 ≠ x := by
  intro e he e2
  have := S.lint.noFanin x "input" ((mem_inputs S.lint.nodup x).1 hx) (by decide)
  have hm : e.1 ∈ AD.fanin x := mem_fanin.2 (by rw [← e2]; exact he)
  rw [this] at hm
  cases hm

theorem AdderSpec.inv (S : AdderSpec aw false true AD) : Inv' AD [] :=
  inv_of_WS (WS_of_lintClean S.lint) S.bbs

theorem AdderSpec.typed (S : AdderSpec aw false true AD) :
    ∀ p ∈ AD.nodes, ∃ t, p.2.ty = some t ∧ t ≠ "bb_input" ∧ t ≠ "bb_output" := by
  intro p hp
  obtain ⟨t, ht, _⟩ := S.lint.typed p hp
  have : AD.ty? p.1 = some t := by rw [ty?_of_mem S.lint.nodup (a := p.2) hp]; exact ht
  have hg := S.plain p.1 t this
  refine ⟨t, ht, ?_, ?_⟩ <;> (rintro rfl; revert hg; decide)

end adderFacts

/-! ### running the three phases of a step: splice the adder, rename its carry-out, wire its inputs -/

/-- the renaming of the adder's nodes into the parent: prefix, except that `cout` becomes `out_aw` -/
def phi (inst : Name) (aw : Nat) (n : Name) : Name :=
  if n = "cout" then pref inst ("out_" ++ toString aw) else pref inst n

structure PopStep (c AD c3 : Circuit) (inst : Name) (aw : Nat) (sa sb : Nat → Name) : Prop where
  nodes : ∃ ac, ("cout", ac) ∈ AD.nodes ∧
    c3.nodes = (c.nodes ++ AD.nodes.map (fun p => (pref inst p.1, stripA p.2))).filter
      (fun p => !(p.1 == pref inst "cout")) ++ [(pref inst ("out_" ++ toString aw), stripA ac)]
  edges : ∀ e, e ∈ c3.edges ↔
    (∃ e0, (e0 ∈ c.edges ∨ e0 ∈ AD.edges.map (fun e => (pref inst e.1, pref inst e.2))) ∧
      e = (if e0.1 = pref inst "cout" then pref inst ("out_" ++ toString aw) else e0.1,
           if e0.2 = pref inst "cout" then pref inst ("out_" ++ toString aw) else e0.2)) ∨
    ∃ j, j < aw ∧ (e = (sa j, pref inst ("a_" ++ toString j)) ∨ e = (sb j, pref inst ("b_" ++ toString j)))
  inv : Inv' c3 []
  bbs : c3.bbs = []

theorem popStep_run {c AD : Circuit} {inst : Name} {aw : Nat} (sa sb : Nat → Name)
    (hinv : Inv' c []) (hbbs : c.bbs = []) (hplain : ∀ n t, c.ty? n = some t → t ∈ genTypes)
    (hclash : ∀ n, c.has (pref inst n) = false) (S : AdderSpec aw false true AD)
    (hsrc : ∀ j, j < aw → c.has (sa j) = true ∧ c.has (sb j) = true) :
    ∃ c1 c3, c.addSubcircuit AD inst [] = (c1, .ok) ∧
      (List.range aw).foldlM (fun c j =>
        liftO (c.connect [sa j] [inst ++ "_a_" ++ toString j]) >>= fun c =>
        liftO (c.connect [sb j] [inst ++ "_b_" ++ toString j]))
        (c1.relabel [(inst ++ "_cout", inst ++ "_out_" ++ toString aw)]) = .ok c3 ∧
      PopStep c AD c3 inst aw sa sb := by
  have hwf := wf_of_inv hinv
  have hADwf := S.wf
  -- splice
  obtain ⟨c1, e1⟩ := addSub_succeeds hwf hADwf inst [] [] S.bbs (fun n _ => hclash n) S.typed
    (fun q hq => by cases hq) (by simp) (fun q hq => by cases hq) (by simp)
  have e1' : c.addSubcircuit AD inst [] true = (c1, .ok) := e1
  have F := addSub_facts hwf hADwf e1'
  have inv1 : Inv' c1 [] := by
    have := (addSubcircuit_spec hinv S.inv inst []).1
    rw [e1'] at this
    exact this
  have bbs1 : c1.bbs = [] := by rw [F.bbs (by rw [S.bbs]; simp), hbbs, S.bbs]; rfl
  have ed1 : ∀ e, e ∈ c1.edges ↔ e ∈ c.edges ∨ e ∈ AD.edges.map (fun e => (pref inst e.1, pref inst e.2)) := by
    intro e
    rw [F.mem]
    constructor
    · rintro (h | h | ⟨q, hq, _⟩)
      · exact Or.inl h
      · exact Or.inr h
      · cases hq
    · rintro (h | h)
      · exact Or.inl h
      · exact Or.inr (Or.inl h)
  -- rename the carry-out
  obtain ⟨ac, hac⟩ := has_exists S.has_cout
  have hold : (pref inst "cout", stripA ac) ∈ c1.nodes := by
    rw [F.nodes]; exact List.mem_append.2 (Or.inr (List.mem_map.2 ⟨("cout", ac), hac, rfl⟩))
  have hnew : c1.has (pref inst ("out_" ++ toString aw)) = false := by
    cases hh : c1.has (pref inst ("out_" ++ toString aw)) with
    | false => rfl
    | true =>
      rcases (F.has_iff _).1 hh with h | ⟨m, hm, h⟩
      · rw [hclash] at h; cases h
      · rw [← pref_inj inst h, S.not_has_out] at hm; cases hm
  have R := relabel_single_spec inv1.1 hold hnew
  have hne_new : ∀ m, AD.has m = true → pref inst m ≠ pref inst ("out_" ++ toString aw) := by
    intro m hm e
    rw [pref_inj inst e, S.not_has_out] at hm; cases hm
  generalize hc2 : c1.relabel [(pref inst "cout", pref inst ("out_" ++ toString aw))] = c2 at R
  have inv2 : Inv' c2 [] := inv_of_WS R.ws (by rw [R.bbs, bbs1])
  -- facts about c2 used by the connect loop
  have ty2_parent : ∀ x, c.has x = true → ∃ t, c2.ty? x = some t ∧ t ≠ "bb_input" ∧ t ≠ "bb_output" := by
    intro x hx
    obtain ⟨a, ha⟩ := has_exists hx
    have hm : (x, a) ∈ c2.nodes := by
      rw [R.nodes]
      apply List.mem_append.2 (Or.inl (List.mem_filter.2 ⟨?_, ?_⟩))
      · rw [F.nodes]; exact List.mem_append.2 (Or.inl ha)
      · simp only [Bool.not_eq_true', beq_eq_false_iff_ne]
        rintro rfl
        rw [hclash] at hx; cases hx
    obtain ⟨t, ht, _⟩ := hinv.1.typed x hx
    have hg := hplain x t ht
    refine ⟨t, ?_, ?_, ?_⟩
    · rw [ty?_of_mem R.ws.nodup hm, ← ty?_of_mem hwf.nodup ha]; exact ht
    · rintro rfl; revert hg; decide
    · rintro rfl; revert hg; decide
  have ty2_input : ∀ x, x ∈ AD.inputs → c2.ty? (pref inst x) = some "buf" := by
    intro x hx
    obtain ⟨a, ha⟩ := has_exists (mem_inputs_has hx)
    have hty := (mem_inputs_of_mem hADwf.nodup ha).1 hx
    have hm : (pref inst x, stripA a) ∈ c2.nodes := by
      rw [R.nodes]
      apply List.mem_append.2 (Or.inl (List.mem_filter.2 ⟨?_, ?_⟩))
      · rw [F.nodes]; exact List.mem_append.2 (Or.inr (List.mem_map.2 ⟨(x, a), ha, rfl⟩))
      · simp only [Bool.not_eq_true', beq_eq_false_iff_ne]
        intro e
        have := pref_inj inst e
        subst this
        obtain ⟨j, _, h | h⟩ := S.inputs_cases hx
        · revert h; name_ne
        · revert h; name_ne
    rw [ty?_of_mem R.ws.nodup hm]
    exact stripA_input hty
  have free2 : ∀ x, x ∈ AD.inputs → ∀ e ∈ c2.edges, e.2 ≠ pref inst x := by
    intro x hx e he e2
    obtain ⟨e0, he0, rfl⟩ := (R.edges e).1 he
    simp only [] at e2
    by_cases hk : e0.2 = pref inst "cout"
    · rw [if_pos hk] at e2
      exact hne_new x (mem_inputs_has hx) e2.symm
    · rw [if_neg hk] at e2
      rcases (ed1 e0).1 he0 with h0 | h0
      · have := (hwf.closed _ h0).2
        rw [e2, hclash] at this; cases this
      · obtain ⟨e00, he00, rfl⟩ := List.mem_map.1 h0
        simp only [] at e2
        exact S.input_fanin hx e00 he00 (pref_inj inst e2)
  obtain ⟨c3, e3, L⟩ := connLoop_ok c2 inv2 sa (fun j => pref inst ("a_" ++ toString j))
    sb (fun j => pref inst ("b_" ++ toString j)) aw
    (fun j hj => ⟨ty2_parent _ (hsrc j hj).1, ty2_parent _ (hsrc j hj).2⟩)
    (fun j hj => ⟨ty2_input _ (S.input_a hj), ty2_input _ (S.input_b hj),
      fun e he => ⟨free2 _ (S.input_a hj) e he, free2 _ (S.input_b hj) e he⟩⟩)
    (by
      intro j j' _ _
      refine ⟨fun e => (idx_inj "a_").1 (pref_inj inst e), fun e => (idx_inj "b_").1 (pref_inj inst e), ?_⟩
      intro e
      have := pref_inj inst e
      revert this; name_ne)
  refine ⟨c1, c3, e1, ?_, ⟨⟨ac, hac, ?_⟩, ?_, L.inv, by rw [L.bbs, R.bbs, bbs1]⟩⟩
  · rw [pref_cout, pref_out, hc2]
    simp only [pref_a, pref_b]
    exact e3
  · rw [L.nodes, R.nodes, F.nodes]
  · intro e
    rw [L.edges, R.edges]
    apply or_congr ?_ Iff.rfl
    constructor
    · rintro ⟨e0, he0, rfl⟩; exact ⟨e0, (ed1 e0).1 he0, rfl⟩
    · rintro ⟨e0, he0, rfl⟩; exact ⟨e0, (ed1 e0).2 he0, rfl⟩

/-! ### the result of a step, seen through `phi` -/

theorem phi_eq (inst : Name) (aw : Nat) (n : Name) :
    (if pref inst n = pref inst "cout" then pref inst ("out_" ++ toString aw) else pref inst n) = phi inst aw n := by
  unfold phi
  by_cases h : n = "cout"
  · subst h; simp
  · have : pref inst n ≠ pref inst "cout" := fun e => h (pref_inj inst e)
    rw [if_neg this, if_neg h]

theorem phi_pref (inst : Name) (aw : Nat) (n : Name) : ∃ m, phi inst aw n = pref inst m := by
  unfold phi
  by_cases h : n = "cout"
  · rw [if_pos h]; exact ⟨_, rfl⟩
  · rw [if_neg h]; exact ⟨_, rfl⟩

theorem phi_of_ne (inst : Name) (aw : Nat) {n : Name} (h : n ≠ "cout") : phi inst aw n = pref inst n := by
  unfold phi; rw [if_neg h]

theorem phi_cout (inst : Name) (aw : Nat) : phi inst aw "cout" = pref inst ("out_" ++ toString aw) := by
  unfold phi; rw [if_pos rfl]

section view
variable {c AD c3 : Circuit} {inst : Name} {aw : Nat} {sa sb : Nat → Name}

theorem phi_inj (S : AdderSpec aw false true AD) {x y : Name} (hx : AD.has x = true) (hy : AD.has y = true)
    (e : phi inst aw x = phi inst aw y) : x = y := by
  unfold phi at e
  by_cases h1 : x = "cout"
  · by_cases h2 : y = "cout"
    · rw [h1, h2]
    · rw [if_pos h1, if_neg h2] at e
      rw [← pref_inj inst e, S.not_has_out] at hy; cases hy
  · by_cases h2 : y = "cout"
    · rw [if_neg h1, if_pos h2] at e
      rw [pref_inj inst e, S.not_has_out] at hx; cases hx
    · rw [if_neg h1, if_neg h2] at e
      exact pref_inj inst e

theorem PopStep.not_has_phi (hclash : ∀ n, c.has (pref inst n) = false) (n : Name) :
    c.has (phi inst aw n) = false := by
  obtain ⟨m, hm⟩ := phi_pref inst aw n
  rw [hm]; exact hclash m

theorem PopStep.mem_parent (P : PopStep c AD c3 inst aw sa sb) (hclash : ∀ n, c.has (pref inst n) = false)
    {p : Name × Attr} (hp : p ∈ c.nodes) : p ∈ c3.nodes := by
  obtain ⟨ac, _, hn⟩ := P.nodes
  rw [hn]
  apply List.mem_append.2 (Or.inl (List.mem_filter.2 ⟨List.mem_append.2 (Or.inl hp), ?_⟩))
  simp only [Bool.not_eq_true', beq_eq_false_iff_ne]
  intro e
  have : c.has p.1 = true := (has_iff_mem c p.1).2 (List.mem_map.2 ⟨p, hp, rfl⟩)
  rw [e, hclash] at this; cases this

theorem PopStep.mem_child (P : PopStep c AD c3 inst aw sa sb) (S : AdderSpec aw false true AD)
    {p : Name × Attr} (hp : p ∈ AD.nodes) : (phi inst aw p.1, stripA p.2) ∈ c3.nodes := by
  obtain ⟨ac, hac, hn⟩ := P.nodes
  rw [hn]
  by_cases h : p.1 = "cout"
  · have : p.2 = ac := by
      have h1 := attr?_of_mem S.wf.nodup (n := p.1) (a := p.2) hp
      rw [h, attr?_of_mem S.wf.nodup hac] at h1
      injection h1 with h1; exact h1.symm
    rw [h, phi_cout, this]
    exact List.mem_append.2 (Or.inr (List.mem_singleton.2 rfl))
  · rw [phi_of_ne inst aw h]
    apply List.mem_append.2 (Or.inl (List.mem_filter.2 ⟨List.mem_append.2 (Or.inr (List.mem_map.2 ⟨p, hp, rfl⟩)), ?_⟩))
    simp only [Bool.not_eq_true', beq_eq_false_iff_ne]
    exact fun e => h (pref_inj inst e)

theorem PopStep.mem_cases (P : PopStep c AD c3 inst aw sa sb) {q : Name × Attr} (hq : q ∈ c3.nodes) :
    q ∈ c.nodes ∨ ∃ p ∈ AD.nodes, q = (phi inst aw p.1, stripA p.2) := by
  obtain ⟨ac, hac, hn⟩ := P.nodes
  rw [hn] at hq
  rcases List.mem_append.1 hq with hq | hq
  · obtain ⟨h1, h2⟩ := List.mem_filter.1 hq
    rcases List.mem_append.1 h1 with h1 | h1
    · exact Or.inl h1
    · right
      obtain ⟨p, hp, rfl⟩ := List.mem_map.1 h1
      simp only [Bool.not_eq_true', beq_eq_false_iff_ne] at h2
      have : p.1 ≠ "cout" := by rintro e; apply h2; rw [e]
      exact ⟨p, hp, by rw [phi_of_ne inst aw this]⟩
  · right
    rw [List.mem_singleton] at hq
    exact ⟨("cout", ac), hac, by rw [hq, phi_cout]⟩

theorem PopStep.edges' (P : PopStep c AD c3 inst aw sa sb) (hwf : WF c)
    (hclash : ∀ n, c.has (pref inst n) = false) (e : Name × Name) :
    e ∈ c3.edges ↔ e ∈ c.edges ∨ (∃ e0 ∈ AD.edges, e = (phi inst aw e0.1, phi inst aw e0.2)) ∨
      ∃ j, j < aw ∧ (e = (sa j, pref inst ("a_" ++ toString j)) ∨ e = (sb j, pref inst ("b_" ++ toString j))) := by
  rw [P.edges, ← or_assoc]
  apply or_congr ?_ Iff.rfl
  constructor
  · rintro ⟨e0, h0 | h0, rfl⟩
    · left
      have h1 : e0.1 ≠ pref inst "cout" := by
        intro e1; have := (hwf.closed _ h0).1; rw [e1, hclash] at this; cases this
      have h2 : e0.2 ≠ pref inst "cout" := by
        intro e1; have := (hwf.closed _ h0).2; rw [e1, hclash] at this; cases this
      rw [if_neg h1, if_neg h2]
      exact h0
    · right
      obtain ⟨e00, he00, rfl⟩ := List.mem_map.1 h0
      exact ⟨e00, he00, by simp only [phi_eq]⟩
  · rintro (h0 | ⟨e0, he0, rfl⟩)
    · refine ⟨e, Or.inl h0, ?_⟩
      have h1 : e.1 ≠ pref inst "cout" := by
        intro e1; have := (hwf.closed _ h0).1; rw [e1, hclash] at this; cases this
      have h2 : e.2 ≠ pref inst "cout" := by
        intro e1; have := (hwf.closed _ h0).2; rw [e1, hclash] at this; cases this
      rw [if_neg h1, if_neg h2]
    · exact ⟨(pref inst e0.1, pref inst e0.2), Or.inr (List.mem_map.2 ⟨e0, he0, rfl⟩), by simp only [phi_eq]⟩

theorem filter_tail_nil {α} (f g : α → Bool) (A M : List α) (x : α) (hA : ∀ a ∈ A, f a = true)
    (hM : ∀ a ∈ M, g a = false) (hx : g x = false) :
    (((A ++ M).filter f) ++ [x]).filter g = A.filter g := by
  rw [List.filter_append, List.filter_append, List.filter_append]
  have h1 : A.filter f = A := List.filter_eq_self.2 hA
  have h2 : (M.filter f).filter g = [] := by
    rw [List.filter_eq_nil_iff]
    intro a ha
    rw [hM a (List.mem_filter.1 ha).1]; simp
  have h3 : [x].filter g = [] := by simp [hx]
  rw [h1, h2, h3, List.append_nil, List.append_nil]

theorem PopStep.outputs (P : PopStep c AD c3 inst aw sa sb) (hclash : ∀ n, c.has (pref inst n) = false) :
    c3.outputs = c.outputs := by
  obtain ⟨ac, _, hn⟩ := P.nodes
  unfold Circuit.outputs
  rw [hn, filter_tail_nil]
  · intro p hp
    simp only [Bool.not_eq_true', beq_eq_false_iff_ne]
    intro e
    have : c.has p.1 = true := (has_iff_mem c p.1).2 (List.mem_map.2 ⟨p, hp, rfl⟩)
    rw [e, hclash] at this; cases this
  · intro q hq
    obtain ⟨p, _, rfl⟩ := List.mem_map.1 hq
    exact stripA_out_false p.2
  · exact stripA_out_false ac

theorem stripA_not_input (a : Attr) :
    (match (stripA a).ty with | some t => ["input"].contains t | none => false) = false := by
  have := stripA_ty_ne_input a
  cases h : (stripA a).ty with
  | none => rfl
  | some t =>
    simp only [List.contains_cons, List.contains_nil, Bool.or_false, beq_eq_false_iff_ne, ne_eq]
    rintro rfl
    exact this h

theorem PopStep.inputs (P : PopStep c AD c3 inst aw sa sb) (hclash : ∀ n, c.has (pref inst n) = false) :
    c3.inputs = c.inputs := by
  obtain ⟨ac, _, hn⟩ := P.nodes
  unfold Circuit.inputs Circuit.filterType
  rw [hn, filter_tail_nil]
  · intro p hp
    simp only [Bool.not_eq_true', beq_eq_false_iff_ne]
    intro e
    have : c.has p.1 = true := (has_iff_mem c p.1).2 (List.mem_map.2 ⟨p, hp, rfl⟩)
    rw [e, hclash] at this; cases this
  · intro q hq
    obtain ⟨p, _, rfl⟩ := List.mem_map.1 hq
    exact stripA_not_input p.2
  · exact stripA_not_input ac

theorem ty?_mem {c : Circuit} {x : Name} {t : String} (h : c.ty? x = some t) :
    ∃ a, (x, a) ∈ c.nodes ∧ a.ty = some t := by
  unfold Circuit.ty? at h
  cases ha : c.attr? x with
  | none => rw [ha] at h; cases h
  | some a => rw [ha] at h; exact ⟨a, attr?_mem ha, h⟩

theorem has_of_mem {c : Circuit} {p : Name × Attr} (hp : p ∈ c.nodes) : c.has p.1 = true :=
  (has_iff_mem c p.1).2 (List.mem_map.2 ⟨p, hp, rfl⟩)

/-- case analysis on a typed node of the result -/
theorem PopStep.ty_cases (P : PopStep c AD c3 inst aw sa sb) (hwf : WF c) {x : Name} {t : String}
    (h : c3.ty? x = some t) :
    (c.has x = true ∧ c.ty? x = some t) ∨ ∃ p ∈ AD.nodes, x = phi inst aw p.1 ∧ (stripA p.2).ty = some t := by
  obtain ⟨a, ha, hta⟩ := ty?_mem h
  rcases P.mem_cases ha with h0 | ⟨p, hp, e⟩
  · left
    exact ⟨has_of_mem h0, by rw [ty?_of_mem hwf.nodup h0]; exact hta⟩
  · right
    injection e with e1 e2
    exact ⟨p, hp, e1, by rw [← e2]; exact hta⟩

theorem PopStep.plain (P : PopStep c AD c3 inst aw sa sb) (hwf : WF c) (S : AdderSpec aw false true AD)
    (hplain : ∀ n t, c.ty? n = some t → t ∈ genTypes) : ∀ n t, c3.ty? n = some t → t ∈ genTypes := by
  intro x t ht
  rcases P.ty_cases hwf ht with ⟨_, h0⟩ | ⟨p, hp, _, hta⟩
  · exact hplain x t h0
  · rcases stripA_ty_cases p.2 t hta with ⟨_, rfl⟩ | ⟨hty, _⟩
    · decide
    · exact S.plain p.1 t (by rw [ty?_of_mem S.wf.nodup (a := p.2) hp]; exact hty)

theorem PopStep.driven (P : PopStep c AD c3 inst aw sa sb) (hwf : WF c) (S : AdderSpec aw false true AD)
    (hclash : ∀ n, c.has (pref inst n) = false) (hd : Driven c) : Driven c3 := by
  intro x t ht hs
  rcases P.ty_cases hwf ht with ⟨_, h0⟩ | ⟨p, hp, rfl, hta⟩
  · obtain ⟨u, hu⟩ := hd x t h0 hs
    exact ⟨u, (P.edges' hwf hclash _).2 (Or.inl hu)⟩
  · rcases stripA_ty_cases p.2 t hta with ⟨hi, _⟩ | ⟨hty, _⟩
    · have hpi : p.1 ∈ AD.inputs := (mem_inputs_of_mem S.wf.nodup (a := p.2) hp).2 hi
      obtain ⟨j, hj, h | h⟩ := S.inputs_cases hpi
      · refine ⟨sa j, (P.edges' hwf hclash _).2 (Or.inr (Or.inr ⟨j, hj, Or.inl ?_⟩))⟩
        rw [h, phi_of_ne inst aw (by name_ne)]
      · refine ⟨sb j, (P.edges' hwf hclash _).2 (Or.inr (Or.inr ⟨j, hj, Or.inr ?_⟩))⟩
        rw [h, phi_of_ne inst aw (by name_ne)]
    · have : AD.ty? p.1 = some t := by rw [ty?_of_mem S.wf.nodup (a := p.2) hp]; exact hty
      obtain ⟨u, hu⟩ := driven_of_lintClean S.lint p.1 t this hs
      exact ⟨phi inst aw u, (P.edges' hwf hclash _).2 (Or.inr (Or.inl ⟨(u, p.1), hu, rfl⟩))⟩

theorem PopStep.has_parent (P : PopStep c AD c3 inst aw sa sb) (hclash : ∀ n, c.has (pref inst n) = false)
    {x : Name} (hx : c.has x = true) : c3.has x = true := by
  obtain ⟨a, ha⟩ := has_exists hx
  exact has_of_mem (P.mem_parent hclash ha)

theorem PopStep.has_child (P : PopStep c AD c3 inst aw sa sb) (S : AdderSpec aw false true AD)
    {m : Name} (hm : AD.has m = true) : c3.has (phi inst aw m) = true := by
  obtain ⟨a, ha⟩ := has_exists hm
  exact has_of_mem (P.mem_child S ha)

theorem PopStep.has_cases (P : PopStep c AD c3 inst aw sa sb) {x : Name} (hx : c3.has x = true) :
    c.has x = true ∨ ∃ m, x = pref inst m := by
  obtain ⟨a, ha⟩ := has_exists hx
  rcases P.mem_cases ha with h0 | ⟨p, _, e⟩
  · exact Or.inl (has_of_mem h0)
  · injection e with e1 _
    obtain ⟨m, hm⟩ := phi_pref inst aw p.1
    exact Or.inr ⟨m, by rw [e1, hm]⟩

theorem PopStep.has_out (P : PopStep c AD c3 inst aw sa sb) (S : AdderSpec aw false true AD) {j : Nat}
    (hj : j < aw + 1) : c3.has (pref inst ("out_" ++ toString j)) = true := by
  by_cases h : j = aw
  · rw [h, ← phi_cout]; exact P.has_child S S.has_cout
  · have : ("out_" ++ toString j) ∈ AD.outputs := (S.outputs _).2 (Or.inl ⟨j, by omega, rfl⟩)
    rw [← phi_of_ne inst aw (n := "out_" ++ toString j) (by name_ne)]
    exact P.has_child S (mem_outputs_has this)

theorem PopStep.sem (P : PopStep c AD c3 inst aw sa sb) (hwf : WF c) (S : AdderSpec aw false true AD)
    (hclash : ∀ n, c.has (pref inst n) = false) (v : Val) (hv : Consistent c3 v) :
    Consistent c v ∧
    sumBits (fun j => v (pref inst ("out_" ++ toString j))) aw +
        2 ^ aw * b2n (v (pref inst ("out_" ++ toString aw))) =
      sumBits (fun j => v (sa j)) aw + sumBits (fun j => v (sb j)) aw := by
  have hnd3 : c3.edges.Nodup := P.inv.1.edgesNodup
  have hnot : ∀ n, c.has (phi inst aw n) = false := fun n => PopStep.not_has_phi hclash n
  constructor
  · apply consistent_sub v hwf hnd3 (fun p hp => P.mem_parent hclash hp) ?_ hv
    intro p hp t _ _ u
    rw [P.edges' hwf hclash]
    constructor
    · rintro (h0 | ⟨e0, _, e⟩ | ⟨j, _, e | e⟩)
      · exact h0
      · injection e with _ e2
        have := has_of_mem hp
        rw [e2, hnot] at this; cases this
      · injection e with _ e2
        have := has_of_mem hp
        rw [e2, hclash] at this; cases this
      · injection e with _ e2
        have := has_of_mem hp
        rw [e2, hclash] at this; cases this
    · exact Or.inl
  · have hAD : Consistent AD (fun n => v (phi inst aw n)) := by
      apply consistent_embed (phi inst aw) v S.wf hnd3 (fun x y hx hy e => phi_inj S hx hy e) ?_ hv
      intro p hp t ht hne
      refine ⟨⟨stripA p.2, P.mem_child S hp, stripA_ty_of_ne ht hne⟩, ?_⟩
      intro u
      rw [P.edges' hwf hclash]
      constructor
      · rintro (h0 | ⟨e0, he0, e⟩ | ⟨j, hj, e | e⟩)
        · have := (hwf.closed _ h0).2
          rw [hnot] at this; cases this
        · injection e with e1 e2
          have := phi_inj S (has_of_mem hp) (S.wf.closed _ he0).2 e2
          exact ⟨e0.1, by rw [this]; exact he0, e1⟩
        · exfalso
          injection e with _ e2
          have hi := S.input_a hj
          rw [← phi_of_ne inst aw (n := "a_" ++ toString j) (by name_ne)] at e2
          have := phi_inj S (has_of_mem hp) (mem_inputs_has hi) e2
          rw [← this] at hi
          have := (mem_inputs_of_mem S.wf.nodup (a := p.2) hp).1 hi
          rw [ht] at this; injection this with this; exact hne this
        · exfalso
          injection e with _ e2
          have hi := S.input_b hj
          rw [← phi_of_ne inst aw (n := "b_" ++ toString j) (by name_ne)] at e2
          have := phi_inj S (has_of_mem hp) (mem_inputs_has hi) e2
          rw [← this] at hi
          have := (mem_inputs_of_mem S.wf.nodup (a := p.2) hp).1 hi
          rw [ht] at this; injection this with this; exact hne this
      · rintro ⟨u0, hu0, rfl⟩
        exact Or.inr (Or.inl ⟨(u0, p.1), hu0, rfl⟩)
    -- the adder's inputs are buffers of the nets they were wired to
    have hbuf : ∀ (x : Name) (src : Name), x ∈ AD.inputs → x ≠ "cout" →
        (∀ u, (∃ j, j < aw ∧ ((u, pref inst x) = (sa j, pref inst ("a_" ++ toString j)) ∨
          (u, pref inst x) = (sb j, pref inst ("b_" ++ toString j)))) ↔ u = src) →
        v (pref inst x) = v src := by
      intro x src hx hxc hconn
      obtain ⟨a, ha⟩ := has_exists (mem_inputs_has hx)
      have hty := (mem_inputs_of_mem S.wf.nodup ha).1 hx
      have hm := P.mem_child S ha
      rw [phi_of_ne inst aw hxc] at hm
      apply buf_val hv hnd3 hm (stripA_input hty)
      intro u
      rw [P.edges' hwf hclash, ← hconn u]
      constructor
      · rintro (h0 | ⟨e0, he0, e⟩ | h0)
        · have := (hwf.closed _ h0).2
          rw [hclash] at this; cases this
        · exfalso
          injection e with _ e2
          rw [← phi_of_ne inst aw hxc] at e2
          have := phi_inj S (mem_inputs_has hx) (S.wf.closed _ he0).2 e2
          exact S.input_fanin hx e0 he0 this.symm
        · exact h0
      · exact fun h0 => Or.inr (Or.inr h0)
    have ha : ∀ j, j < aw → v (phi inst aw ("a_" ++ toString j)) = v (sa j) := by
      intro j hj
      rw [phi_of_ne inst aw (by name_ne)]
      apply hbuf _ _ (S.input_a hj) (by name_ne)
      intro u
      constructor
      · rintro ⟨j', _, e | e⟩
        · injection e with e1 e2
          have := (idx_inj "a_").1 (pref_inj inst e2)
          rw [this, e1]
        · injection e with _ e2
          have := pref_inj inst e2
          revert this; name_ne
      · rintro rfl; exact ⟨j, hj, Or.inl rfl⟩
    have hb : ∀ j, j < aw → v (phi inst aw ("b_" ++ toString j)) = v (sb j) := by
      intro j hj
      rw [phi_of_ne inst aw (by name_ne)]
      apply hbuf _ _ (S.input_b hj) (by name_ne)
      intro u
      constructor
      · rintro ⟨j', _, e | e⟩
        · injection e with _ e2
          have := pref_inj inst e2
          revert this; name_ne
        · injection e with e1 e2
          have := (idx_inj "b_").1 (pref_inj inst e2)
          rw [this, e1]
      · rintro rfl; exact ⟨j, hj, Or.inr rfl⟩
    have hraw := S.semRaw _ hAD rfl
    simp only [Bool.false_eq_true, if_false, Nat.add_zero, bitsVal_eq_sumBits, phi_cout] at hraw
    rw [sumBits_congr aw (g' := fun j => v (sa j)) (fun j hj => ha j hj),
      sumBits_congr aw (g' := fun j => v (sb j)) (fun j hj => hb j hj),
      sumBits_congr aw (g' := fun j => v (pref inst ("out_" ++ toString j)))
        (fun j _ => by rw [phi_of_ne inst aw (by name_ne)])] at hraw
    exact hraw

end view

end Arith
end CG
