/- C09 (unroll): the loop invariant and the two shapes of phase C in terms of it -/
import CG.Proofs.UnrollLink
set_option linter.unusedSimpArgs false
set_option linter.unusedVariables false
namespace CG
namespace Unroll
open Circuit

/-- nodes created in iteration `t`, with their final attributes -/
def stepNodes (c : Circuit) (stateIO : List (Name × Name)) (pfx : String) (io : List Name) (t : Nat) :
    List (Name × Attr) :=
  io.map (fun x => (N c pfx x t, ioAttr c stateIO x t)) ++ c.nodes.map (fun p => (U t p.1, stripA p.2))

/-- static facts about the call -/
structure Ctx (c : Circuit) (stateIO : List (Name × Name)) (io : List Name) : Prop where
  wf : WF c
  ioNodup : io.Nodup
  ioIn : ∀ x ∈ c.inputs, x ∈ io
  valsIn : ∀ p ∈ stateIO, p.2 ∈ c.inputs
  keysIO : ∀ p ∈ stateIO, p.1 ∈ io
  valsNodup : (stateIO.map (·.2)).Nodup

/-- loop invariant of `unroll` after `k` iterations -/
structure Inv (c : Circuit) (stateIO : List (Name × Name)) (pfx : String) (io : List Name) (k : Nat)
    (s : Tx.UState) : Prop where
  wf : WF s.1
  map : s.2 = mapAt c pfx io k
  nodes : s.1.nodes = (List.range k).flatMap (stepNodes c stateIO pfx io)
  faninIn : ∀ t, t < k → ∀ x ∈ c.inputs, s.1.fanin (U t x) = [N c pfx x t]
  faninCopy : ∀ t, t < k → ∀ x, c.has x = true → x ∉ c.inputs → s.1.fanin (U t x) = (c.fanin x).map (U t)
  faninOut : ∀ t, t < k → ∀ x ∈ io, x ∉ c.inputs → s.1.fanin (N c pfx x t) = [U t x]
  faninVal : ∀ t, t + 1 < k → ∀ p ∈ stateIO, s.1.fanin (N c pfx p.2 (t + 1)) = [N c pfx p.1 t]
  faninFree : ∀ t, t < k → ∀ x ∈ c.inputs, (t = 0 ∨ isVal stateIO x = false) → s.1.fanin (N c pfx x t) = []

section
variable {c : Circuit} {stateIO : List (Name × Name)} {pfx : String} {io : List Name}

theorem mem_stepNodes_io {t : Nat} {x : Name} (hx : x ∈ io) :
    (N c pfx x t, ioAttr c stateIO x t) ∈ stepNodes c stateIO pfx io t :=
  List.mem_append.2 (Or.inl (List.mem_map.2 ⟨x, hx, rfl⟩))

theorem mem_stepNodes_copy {t : Nat} {p : Name × Attr} (hp : p ∈ c.nodes) :
    (U t p.1, stripA p.2) ∈ stepNodes c stateIO pfx io t :=
  List.mem_append.2 (Or.inr (List.mem_map.2 ⟨p, hp, rfl⟩))

theorem Inv.memN {k : Nat} {s : Tx.UState} (I : Inv c stateIO pfx io k s) {t : Nat} (ht : t < k) {x : Name}
    (hx : x ∈ io) : (N c pfx x t, ioAttr c stateIO x t) ∈ s.1.nodes := by
  rw [I.nodes]
  exact List.mem_flatMap.2 ⟨t, List.mem_range.2 ht, mem_stepNodes_io hx⟩

theorem Inv.memU {k : Nat} {s : Tx.UState} (I : Inv c stateIO pfx io k s) {t : Nat} (ht : t < k) {p : Name × Attr}
    (hp : p ∈ c.nodes) : (U t p.1, stripA p.2) ∈ s.1.nodes := by
  rw [I.nodes]
  exact List.mem_flatMap.2 ⟨t, List.mem_range.2 ht, mem_stepNodes_copy hp⟩

theorem has_of_mem_nodes {c : Circuit} {y : Name} {a : Attr} (h : (y, a) ∈ c.nodes) : c.has y = true :=
  (has_iff_mem c y).2 (List.mem_map.2 ⟨(y, a), h, rfl⟩)

theorem Inv.hasN {k : Nat} {s : Tx.UState} (I : Inv c stateIO pfx io k s) {t : Nat} (ht : t < k) {x : Name}
    (hx : x ∈ io) : s.1.has (N c pfx x t) = true := has_of_mem_nodes (I.memN ht hx)

theorem Inv.hasU {k : Nat} {s : Tx.UState} (I : Inv c stateIO pfx io k s) {t : Nat} (ht : t < k) {x : Name}
    (hx : c.has x = true) : s.1.has (U t x) = true := by
  obtain ⟨a, ha⟩ := has_exists hx
  exact has_of_mem_nodes (I.memU ht ha)

end

theorem wf_of_names_edges {c c' : Circuit} (h : WF c) (hn : c'.nodeNames = c.nodeNames) (he : c'.edges = c.edges) :
    WF c' := by
  refine ⟨by rw [hn]; exact h.nodup, by rw [he]; exact h.edgesNodup, ?_⟩
  intro e hm
  rw [he] at hm
  rw [has_iff_mem, has_iff_mem, hn, ← has_iff_mem, ← has_iff_mem]
  exact h.closed e hm

theorem isVal_iff (stateIO : List (Name × Name)) (x : Name) :
    isVal stateIO x = true ↔ ∃ p ∈ stateIO, p.2 = x := by
  unfold isVal
  rw [List.any_eq_true]
  constructor
  · rintro ⟨p, hp, e⟩; exact ⟨p, hp, by simpa using e⟩
  · rintro ⟨p, hp, e⟩; exact ⟨p, hp, by simpa using e⟩

theorem ioTy0_state {c : Circuit} {stateIO : List (Name × Name)} {p : Name × Name} (hp : p ∈ stateIO) :
    ioTy0 c stateIO p.2 = "buf" ∧ True := by
  unfold ioTy0
  have h1 : stateIO.any (fun q => q.2 == p.2) = true :=
    List.any_eq_true.2 ⟨p, hp, by simp⟩
  rw [h1]
  simp

theorem ioAttr_succ (c : Circuit) (stateIO : List (Name × Name)) (x : Name) (t : Nat) :
    ioAttr c stateIO x (t + 1) = ioAttr0 c stateIO x := by
  unfold ioAttr ioAttr0 ioTy
  simp

/-- phase C of iteration 0 -/
theorem linkPhase0 {c : Circuit} {stateIO : List (Name × Name)} {pfx : String} {io : List Name} {P' : Circuit}
    (hwf : WF P')
    (hn : P'.nodes = io.map (fun x => (N c pfx x 0, ioAttr0 c stateIO x)) ++ c.nodes.map (fun p => (U 0 p.1, stripA p.2)))
    (inj : ∀ x ∈ io, ∀ y ∈ io, N c pfx x 0 = N c pfx y 0 → x = y) (hvals : ∀ p ∈ stateIO, p.2 ∈ io) :
    WF ((stateIO.map (fun p => N c pfx p.2 0)).foldl (fun acc n => acc.setTyRaw n "input") P') ∧
    ((stateIO.map (fun p => N c pfx p.2 0)).foldl (fun acc n => acc.setTyRaw n "input") P').nodes =
      stepNodes c stateIO pfx io 0 ∧
    ((stateIO.map (fun p => N c pfx p.2 0)).foldl (fun acc n => acc.setTyRaw n "input") P').edges = P'.edges := by
  have hnodes := foldl_setTyRaw_nodes "input" (stateIO.map (fun p => N c pfx p.2 0)) P'
  obtain ⟨hedges, _, _⟩ := foldl_setTyRaw_frame "input" (stateIO.map (fun p => N c pfx p.2 0)) P'
  generalize (stateIO.map (fun p => N c pfx p.2 0)).foldl (fun acc n => acc.setTyRaw n "input") P' = uc at hnodes hedges
  have hnames : uc.nodeNames = P'.nodeNames := by
    unfold nodeNames
    rw [hnodes, List.map_map]
    apply List.map_congr_left
    intro p _
    simp only [Function.comp]
    split <;> rfl
  refine ⟨wf_of_names_edges hwf hnames hedges, ?_, hedges⟩
  have hnd := hwf.nodup
  have hnm : P'.nodeNames = io.map (fun x => N c pfx x 0) ++ c.nodes.map (fun p => U 0 p.1) := by
    unfold nodeNames; rw [hn, List.map_append, List.map_map, List.map_map]; rfl
  rw [hnm, List.nodup_append] at hnd
  have hL : ∀ x ∈ io, (stateIO.map (fun p => N c pfx p.2 0)).contains (N c pfx x 0) = isVal stateIO x := by
    intro x hx
    rw [Bool.eq_iff_iff, List.contains_iff_mem, isVal_iff, List.mem_map]
    constructor
    · rintro ⟨p, hp, e⟩; exact ⟨p, hp, inj _ (hvals p hp) _ hx e⟩
    · rintro ⟨p, hp, e⟩; exact ⟨p, hp, by rw [e]⟩
  rw [hnodes, hn, List.map_append, List.map_map, List.map_map]
  unfold stepNodes
  congr 1
  · apply List.map_congr_left
    intro x hx
    simp only [Function.comp]
    rw [hL x hx]
    unfold ioAttr ioAttr0 ioTy
    by_cases hv : isVal stateIO x = true
    · simp [hv]
    · simp [hv]
  · apply List.map_congr_left
    intro p hp
    simp only [Function.comp]
    rw [if_neg]
    intro hm
    obtain ⟨q, hq, e⟩ := List.mem_map.1 (List.contains_iff_mem.1 hm)
    exact hnd.2.2 _ (List.mem_map.2 ⟨q.2, hvals q hq, rfl⟩) _ (List.mem_map.2 ⟨p, hp, rfl⟩) e

end Unroll
end CG
