/- C13 helper: `add_subcircuit` with single-net connections succeeds -/
import CG.Proofs.ArithGen
set_option linter.unusedSimpArgs false
set_option linter.unusedVariables false
namespace CG
namespace Arith
open Logic Circuit Limit

theorem ty?_of_mem {c : Circuit} (hnd : c.nodeNames.Nodup) {n : Name} {a : Attr} (h : (n, a) ∈ c.nodes) :
    c.ty? n = a.ty := by
  unfold Circuit.ty?
  rw [attr?_of_mem hnd h]
  rfl

theorem stripA_input {a : Attr} (h : a.ty = some "input") : (stripA a).ty = some "buf" := by
  simp [stripA, h]

section
variable {P sc : Circuit} (hP : WF P) (hsc : WF sc) (name : Name)
  (hclash : ∀ n, sc.has n = true → P.has (pref name n) = false)
include hP hsc hclash

theorem subPre_nodup : (subPre P sc name).nodeNames.Nodup := by
  unfold nodeNames
  rw [(subPre_view hP hsc name hclash).1]
  exact names_append_nodup hP hsc name hclash stripA

theorem subPre_ty_parent {m : Name} (hm : P.has m = true) : (subPre P sc name).ty? m = P.ty? m := by
  obtain ⟨a, ha⟩ := has_exists hm
  rw [ty?_of_mem (subPre_nodup hP hsc name hclash) (a := a), ty?_of_mem hP.nodup ha]
  rw [(subPre_view hP hsc name hclash).1]
  exact List.mem_append.2 (Or.inl ha)

theorem subPre_ty_child {m : Name} {a : Attr} (hm : (m, a) ∈ sc.nodes) :
    (subPre P sc name).ty? (pref name m) = (stripA a).ty := by
  rw [ty?_of_mem (subPre_nodup hP hsc name hclash) (a := stripA a)]
  rw [(subPre_view hP hsc name hclash).1]
  exact List.mem_append.2 (Or.inr (List.mem_map.2 ⟨(m, a), hm, rfl⟩))

theorem subPre_fanin_parent {m : Name} (hm : P.has m = true) : (subPre P sc name).fanin m = P.fanin m := by
  rw [fanin_eq_faninL, (subPre_view hP hsc name hclash).2.1, faninL_append]
  have : faninL (sc.edges.map (fun e => (pref name e.1, pref name e.2))) m = [] := by
    apply faninL_nil_of
    intro e he e2
    obtain ⟨e0, he0, rfl⟩ := List.mem_map.1 he
    simp only [] at e2
    have := hclash e0.2 (hsc.closed e0 he0).2
    rw [e2, hm] at this
    cases this
  rw [this, List.append_nil]
  rfl

theorem subPre_fanin_child {m : Name} (hm : sc.has m = true) :
    (subPre P sc name).fanin (pref name m) = (sc.fanin m).map (pref name) := by
  rw [fanin_eq_faninL, (subPre_view hP hsc name hclash).2.1, faninL_append]
  have : faninL P.edges (pref name m) = [] := by
    apply faninL_nil_of
    intro e he e2
    have := (hP.closed e he).2
    rw [e2, hclash m hm] at this
    cases this
  rw [this, List.nil_append, faninL_map_inj (pref name) (fun a b e => pref_inj name e)]
  rfl

end

theorem addSub_succeeds {P sc : Circuit} (hP : WF P) (hsc : WF sc) (name : Name)
    (ins outs : List (Name × Name))
    (hbbs : sc.bbs = [])
    (hclash : ∀ n, sc.has n = true → P.has (pref name n) = false)
    (htyped : ∀ p ∈ sc.nodes, ∃ t, p.2.ty = some t ∧ t ≠ "bb_input" ∧ t ≠ "bb_output")
    (hins : ∀ q ∈ ins, q.1 ∈ sc.inputs ∧ sc.fanin q.1 = [] ∧
      ∃ t, P.ty? q.2 = some t ∧ t ≠ "bb_input" ∧ t ≠ "bb_output")
    (hinsnd : (ins.map (·.1)).Nodup)
    (houts : ∀ q ∈ outs, q.1 ∉ sc.inputs ∧ q.1 ∈ sc.outputs ∧
      ∃ t, P.ty? q.2 = some t ∧ t ∉ sourceTypes ∧ (t ∈ singleTypes → P.fanin q.2 = []))
    (houtsnd : (outs.map (·.2)).Nodup) :
    ∃ P', P.addSubcircuit sc name
      (ins.map (fun q => (q.1, [q.2])) ++ outs.map (fun q => (q.1, [q.2]))) true = (P', .ok) := by
  have c1 : (sc.bbs.any fun p => (P.bbs.lookup (pref name p.1)).isSome) = false := by rw [hbbs]; rfl
  have c2 : (sc.nodeNames.any fun n => P.has (pref name n)) = false := by
    rw [List.any_eq_false]
    intro n hn
    rw [hclash n ((has_iff_mem sc n).2 hn)]
    simp
  have c3 : (sc.nodes.any fun p => p.2.ty.isNone) = false := by
    rw [List.any_eq_false]
    intro p hp
    obtain ⟨t, ht, _⟩ := htyped p hp
    rw [ht]; simp
  have c4 : ((ins.map (fun q => (q.1, [q.2])) ++ outs.map (fun q => (q.1, [q.2]))).any
      fun p => !sc.inputs.contains p.1 && !sc.outputs.contains p.1) = false := by
    rw [List.any_eq_false]
    intro p hp
    rcases List.mem_append.1 hp with hp | hp
    · obtain ⟨q, hq, rfl⟩ := List.mem_map.1 hp
      have := List.contains_iff_mem.2 (hins q hq).1
      simp only [this, Bool.not_true, Bool.false_and, Bool.false_eq_true, not_false_eq_true]
    · obtain ⟨q, hq, rfl⟩ := List.mem_map.1 hp
      have := List.contains_iff_mem.2 (houts q hq).2.1
      simp only [this, Bool.not_true, Bool.and_false, Bool.false_eq_true, not_false_eq_true]
  have hsub : ((ins.map (fun q => (q.1, [q.2])) ++ outs.map (fun q => (q.1, [q.2]))).map (fun p =>
      if sc.inputs.contains p.1 then (p.2, [pref name p.1]) else ([pref name p.1], p.2))) =
      (ins.map (fun q => (q.2, pref name q.1)) ++ outs.map (fun q => (pref name q.1, q.2))).map
        (fun q => ([q.1], [q.2])) := by
    rw [List.map_append, List.map_append, List.map_map, List.map_map, List.map_map, List.map_map]
    congr 1
    · apply List.map_congr_left
      intro q hq
      simp only [Function.comp]
      rw [if_pos (List.contains_iff_mem.2 (hins q hq).1)]
    · apply List.map_congr_left
      intro q hq
      simp only [Function.comp]
      rw [if_neg (fun hc => (houts q hq).1 (List.contains_iff_mem.1 hc))]
  suffices key : ∃ P', (subPre P sc name).connectAll (subConns sc name
      (ins.map (fun q => (q.1, [q.2])) ++ outs.map (fun q => (q.1, [q.2])))) = (P', .ok) by
    obtain ⟨P', hP'⟩ := key
    refine ⟨P', ?_⟩
    unfold addSubcircuit
    simp only [c1, c2, c3, c4, Bool.false_eq_true, if_false, if_true]
    exact hP'
  unfold subConns
  rw [hsub]
  apply connectAll_singles_ok
  · rw [List.map_append, List.map_map, List.map_map, List.nodup_append]
    refine ⟨?_, ?_, ?_⟩
    · have : (ins.map ((fun q : Name × Name => q.2) ∘ fun q => (q.2, pref name q.1))) =
          (ins.map (·.1)).map (pref name) := by rw [List.map_map]; rfl
      rw [this]
      exact nodup_map_of_inj hinsnd (fun x _ y _ e => pref_inj name e)
    · exact houtsnd
    · intro x hx y hy e
      subst e
      obtain ⟨q, hq, rfl⟩ := List.mem_map.1 hx
      obtain ⟨q', hq', e'⟩ := List.mem_map.1 hy
      simp only [Function.comp] at e'
      obtain ⟨t, ht, _⟩ := (houts q' hq').2.2
      have h1 := has_of_ty ht
      rw [e'] at h1
      rw [hclash q.1 (mem_inputs_has (hins q hq).1)] at h1
      cases h1
  · intro q hq
    rcases List.mem_append.1 hq with hq | hq
    · obtain ⟨q0, hq0, rfl⟩ := List.mem_map.1 hq
      obtain ⟨h1, h2, t, ht, hb⟩ := hins q0 hq0
      refine ⟨⟨t, ?_, hb⟩, "buf", ?_, by decide, ?_⟩
      · rw [subPre_ty_parent hP hsc name hclash (has_of_ty ht)]; exact ht
      · obtain ⟨a, ha⟩ := has_exists (mem_inputs_has h1)
        rw [subPre_ty_child hP hsc name hclash ha]
        exact stripA_input ((mem_inputs_of_mem hsc.nodup ha).1 h1)
      · intro _
        rw [subPre_fanin_child hP hsc name hclash (mem_inputs_has h1), h2]
        rfl
    · obtain ⟨q0, hq0, rfl⟩ := List.mem_map.1 hq
      obtain ⟨h1, h2, t, ht, hs, hf⟩ := houts q0 hq0
      obtain ⟨a, ha⟩ := has_exists (mem_outputs_has h2)
      obtain ⟨t0, ht0, hb0⟩ := htyped _ ha
      simp only [] at ht0
      have hne : t0 ≠ "input" := by
        intro e
        apply h1
        rw [mem_inputs_of_mem hsc.nodup ha, ht0, e]
      refine ⟨⟨t0, ?_, hb0⟩, t, ?_, hs, ?_⟩
      · rw [subPre_ty_child hP hsc name hclash ha]
        exact stripA_ty_of_ne ht0 hne
      · rw [subPre_ty_parent hP hsc name hclash (has_of_ty ht)]; exact ht
      · intro hst
        rw [subPre_fanin_parent hP hsc name hclash (has_of_ty ht)]
        exact hf hst

/-! ### more consequences of `SubFacts` -/

section
variable {P sc P' : Circuit} {name : Name} {conns : List (Name × List Name)}

theorem _root_.CG.SubFacts.has_iff (F : SubFacts P sc P' name conns) (x : Name) :
    P'.has x = true ↔ P.has x = true ∨ ∃ m, sc.has m = true ∧ x = pref name m := by
  rw [has_iff_mem, has_iff_mem]
  unfold nodeNames
  rw [F.nodes, List.map_append, List.mem_append]
  apply or_congr Iff.rfl
  simp only [List.map_map, List.mem_map, Function.comp]
  constructor
  · rintro ⟨p, hp, rfl⟩
    exact ⟨p.1, (has_iff_mem sc p.1).2 (List.mem_map.2 ⟨p, hp, rfl⟩), rfl⟩
  · rintro ⟨m, hm, rfl⟩
    obtain ⟨p, hp, e⟩ := List.mem_map.1 ((has_iff_mem sc m).1 hm)
    exact ⟨p, hp, by rw [e]⟩

theorem _root_.CG.SubFacts.ty_parent (F : SubFacts P sc P' name conns) (hP : WF P) {m : Name} (hm : P.has m = true) :
    P'.ty? m = P.ty? m := by
  obtain ⟨a, ha⟩ := has_exists hm
  rw [ty?_of_mem F.nodup (a := a), ty?_of_mem hP.nodup ha]
  rw [F.nodes]
  exact List.mem_append.2 (Or.inl ha)

theorem _root_.CG.SubFacts.ty_child (F : SubFacts P sc P' name conns) {m : Name} {a : Attr} (hm : (m, a) ∈ sc.nodes) :
    P'.ty? (pref name m) = (stripA a).ty := by
  rw [ty?_of_mem F.nodup (a := stripA a)]
  rw [F.nodes]
  exact List.mem_append.2 (Or.inr (List.mem_map.2 ⟨(m, a), hm, rfl⟩))

theorem _root_.CG.SubFacts.ty_cases (F : SubFacts P sc P' name conns) (hP : WF P) {x : Name} {t : String}
    (h : P'.ty? x = some t) :
    (P.has x = true ∧ P.ty? x = some t) ∨
      ∃ m a, (m, a) ∈ sc.nodes ∧ x = pref name m ∧ (stripA a).ty = some t := by
  rcases (F.has_iff x).1 (has_of_ty h) with hx | ⟨m, hm, rfl⟩
  · left; exact ⟨hx, by rw [← F.ty_parent hP hx]; exact h⟩
  · right
    obtain ⟨a, ha⟩ := has_exists hm
    exact ⟨m, a, ha, rfl, by rw [← F.ty_child ha]; exact h⟩

theorem stripA_ty_cases (a : Attr) (t : String) (h : (stripA a).ty = some t) :
    (a.ty = some "input" ∧ t = "buf") ∨ (a.ty = some t ∧ t ≠ "input") := by
  unfold stripA at h
  simp only [] at h
  by_cases hi : a.ty = some "input"
  · rw [if_pos hi] at h
    injection h with h
    exact Or.inl ⟨hi, h.symm⟩
  · rw [if_neg hi] at h
    refine Or.inr ⟨h, ?_⟩
    rintro rfl
    exact hi h

/-- the composite is driven when the child is, every child input is connected, and the undriven parent gates
    are exactly targets of output connections -/
theorem _root_.CG.SubFacts.driven (F : SubFacts P sc P' name conns) (hP : WF P) (hsc : WF sc)
    (hdP : ∀ n t, P.ty? n = some t → t ∈ singleTypes ∨ t ∈ multiTypes →
      (∃ u, (u, n) ∈ P.edges) ∨ ∃ q ∈ conns, q.1 ∉ sc.inputs ∧ n ∈ q.2)
    (hdsc : Driven sc)
    (hin : ∀ k ∈ sc.inputs, ∃ q ∈ conns, q.1 = k ∧ q.2 ≠ []) : Driven P' := by
  intro x t ht hs
  rcases F.ty_cases hP ht with ⟨hx, htx⟩ | ⟨m, a, ha, rfl, hta⟩
  · rcases hdP x t htx hs with ⟨u, hu⟩ | ⟨q, hq, hq1, hq2⟩
    · exact ⟨u, (F.mem _).2 (Or.inl hu)⟩
    · exact ⟨pref name q.1, (F.mem _).2 (Or.inr (Or.inr ⟨q, hq, Or.inr ⟨hq1, rfl, hq2⟩⟩))⟩
  · rcases stripA_ty_cases a t hta with ⟨hi, _⟩ | ⟨hty, hne⟩
    · have hmi : m ∈ sc.inputs := (mem_inputs_of_mem hsc.nodup ha).2 hi
      obtain ⟨q, hq, rfl, hne⟩ := hin m hmi
      cases hq2 : q.2 with
      | nil => exact absurd hq2 hne
      | cons u l =>
        exact ⟨u, (F.mem _).2 (Or.inr (Or.inr ⟨q, hq, Or.inl ⟨hmi, by rw [hq2]; simp, rfl⟩⟩))⟩
    · have : sc.ty? m = some t := by rw [ty?_of_mem hsc.nodup ha]; exact hty
      obtain ⟨u, hu⟩ := hdsc m t this hs
      exact ⟨pref name u, (F.mem _).2 (Or.inr (Or.inl (List.mem_map.2 ⟨(u, m), hu, rfl⟩)))⟩

theorem _root_.CG.SubFacts.plain (F : SubFacts P sc P' name conns) (hP : WF P) (hsc : WF sc)
    (hpP : ∀ n t, P.ty? n = some t → t ∈ genTypes) (hpsc : ∀ n t, sc.ty? n = some t → t ∈ genTypes) :
    ∀ n t, P'.ty? n = some t → t ∈ genTypes := by
  intro x t ht
  rcases F.ty_cases hP ht with ⟨hx, htx⟩ | ⟨m, a, ha, rfl, hta⟩
  · exact hpP x t htx
  · rcases stripA_ty_cases a t hta with ⟨_, rfl⟩ | ⟨hty, _⟩
    · decide
    · exact hpsc m t (by rw [ty?_of_mem hsc.nodup ha]; exact hty)

end

end Arith
end CG
