/- helper lemmas for C19 (ownership analysis soundness) -/
import CG.Own
import CG.OwnSem
namespace CG
namespace Own

/-! ### association lists -/

theorem lookup_filter_ne {β : Type} (l : List (Var × β)) (x y : Var) (h : y ≠ x) :
    (l.filter (fun p => p.1 != x)).lookup y = l.lookup y := by
  induction l with
  | nil => rfl
  | cons p t ih =>
    obtain ⟨k, v⟩ := p
    by_cases hk : k = x
    · subst hk
      have hyk : (y == k) = false := by simpa using h
      simp [List.filter, List.lookup, hyk, ih]
    · have : ((k, v).1 != x) = true := by simpa using hk
      simp only [List.filter, this, List.lookup]
      rw [ih]

theorem lookup_set {β : Type} (l : List (Var × β)) (x y : Var) (v : β) :
    (((x, v) :: l.filter (fun p => p.1 != x)).lookup y) = if y = x then some v else l.lookup y := by
  by_cases h : y = x
  · subst h; simp [List.lookup]
  · have : (y == x) = false := by simpa using h
    simp only [List.lookup, this, h, if_false]
    exact lookup_filter_ne l x y h

theorem lookup_eq_none_of_keys {β : Type} (l : List (Var × β)) (x : Var) (h : ∀ p ∈ l, p.1 ≠ x) :
    l.lookup x = none := by
  induction l with
  | nil => rfl
  | cons p t ih =>
    obtain ⟨k, v⟩ := p
    have hk : k ≠ x := h (k, v) (List.mem_cons_self)
    have : (x == k) = false := by simpa using (fun e : x = k => hk e.symm)
    simp only [List.lookup, this]
    exact ih (fun p hp => h p (List.mem_cons_of_mem _ hp))

theorem lookup_map_key {β : Type} (f : Var → β) (l : List Var) (x : Var) :
    (l.map (fun y => (y, f y))).lookup x = if x ∈ l then some (f x) else none := by
  induction l with
  | nil => rfl
  | cons y t ih =>
    by_cases h : x = y
    · subst h; simp
    · have : (x == y) = false := by simpa using h
      simp only [List.map, List.lookup, this, ih, List.mem_cons, h, false_or]

theorem mem_dedupV (l : List Var) (x : Var) : x ∈ dedupV l ↔ x ∈ l := by
  induction l with
  | nil => simp [dedupV]
  | cons y t ih =>
    simp only [dedupV, List.mem_cons, List.mem_filter, ih]
    by_cases h : x = y
    · simp [h]
    · simp [h]

/-! ### abstract values -/

def AVal.rank : AVal → Nat
  | .none => 0
  | .fresh => 1
  | .tainted => 2

theorem AVal.rank_le_two (a : AVal) : a.rank ≤ 2 := by cases a <;> decide

theorem AVal.rank_join (a b : AVal) : (a.join b).rank = max a.rank b.rank := by
  cases a <;> cases b <;> decide

theorem AVal.join_eq_right_iff (a b : AVal) : a.join b = b ↔ a.rank ≤ b.rank := by
  cases a <;> cases b <;> decide

theorem AVal.ne_tainted_of_rank_le {a b : AVal} (h : a.rank ≤ b.rank) (hb : b ≠ .tainted) : a ≠ .tainted := by
  cases a <;> cases b <;> simp_all [AVal.rank]

/-! ### abstract environments -/

def keys (e : AEnv) : List Var := e.map (·.1)

def KeysIn (V : List Var) (e : AEnv) : Prop := ∀ x ∈ keys e, x ∈ V

theorem get_of_not_mem_keys (e : AEnv) (x : Var) (h : x ∉ keys e) : e.get x = .none := by
  unfold AEnv.get
  rw [lookup_eq_none_of_keys e x]
  · rfl
  · intro p hp hpx
    exact h (by rw [← hpx]; exact List.mem_map_of_mem hp)

theorem get_set (e : AEnv) (x y : Var) (v : AVal) : (e.set x v).get y = if y = x then v else e.get y := by
  unfold AEnv.get AEnv.set
  rw [lookup_set]
  by_cases h : y = x <;> simp [h]

theorem keys_set (e : AEnv) (x : Var) (v : AVal) : ∀ y ∈ keys (e.set x v), y = x ∨ y ∈ keys e := by
  intro y hy
  unfold keys AEnv.set at hy
  simp only [List.map_cons, List.mem_cons, List.mem_map, List.mem_filter] at hy
  rcases hy with h | ⟨p, ⟨hp, _⟩, rfl⟩
  · exact Or.inl h
  · exact Or.inr (List.mem_map_of_mem hp)

theorem mem_vars (a b : AEnv) (x : Var) : x ∈ vars a b ↔ x ∈ keys a ∨ x ∈ keys b := by
  unfold vars keys
  rw [mem_dedupV, List.mem_append]

theorem keys_join (a b : AEnv) : keys (a.join b) = vars a b := by
  unfold keys AEnv.join
  rw [List.map_map]
  simp [Function.comp_def]

theorem get_join (a b : AEnv) (x : Var) : (a.join b).get x = (a.get x).join (b.get x) := by
  unfold AEnv.join
  show ((List.lookup x ((vars a b).map (fun y => (y, (a.get y).join (b.get y))))).getD .none) = _
  rw [lookup_map_key (fun y => (a.get y).join (b.get y))]
  by_cases h : x ∈ vars a b
  · simp [h]
  · simp only [h, if_false, Option.getD_none]
    rw [mem_vars] at h
    have ha : x ∉ keys a := fun hh => h (Or.inl hh)
    have hb : x ∉ keys b := fun hh => h (Or.inr hh)
    rw [get_of_not_mem_keys a x ha, get_of_not_mem_keys b x hb]
    rfl

/-- pointwise order on abstract environments -/
def ELe (a b : AEnv) : Prop := ∀ x, (a.get x).rank ≤ (b.get x).rank

theorem ELe.refl (a : AEnv) : ELe a a := fun _ => Nat.le_refl _
theorem ELe.trans {a b c : AEnv} (h1 : ELe a b) (h2 : ELe b c) : ELe a c := fun x => Nat.le_trans (h1 x) (h2 x)

theorem ELe_join_left (a b : AEnv) : ELe a (a.join b) := by
  intro x; rw [get_join, AVal.rank_join]; exact Nat.le_max_left _ _
theorem ELe_join_right (a b : AEnv) : ELe b (a.join b) := by
  intro x; rw [get_join, AVal.rank_join]; exact Nat.le_max_right _ _

theorem le_true_ELe {a b : AEnv} (h : a.le b = true) : ELe a b := by
  intro x
  by_cases hx : x ∈ vars a b
  · unfold AEnv.le at h
    rw [List.all_eq_true] at h
    have := h x hx
    have : (a.get x).join (b.get x) = b.get x := by simpa using this
    exact (AVal.join_eq_right_iff _ _).1 this
  · rw [mem_vars] at hx
    have ha : x ∉ keys a := fun hh => hx (Or.inl hh)
    rw [get_of_not_mem_keys a x ha]
    exact Nat.zero_le _

theorem le_false_exists {a b : AEnv} (h : a.le b = false) :
    ∃ x, (x ∈ keys a ∨ x ∈ keys b) ∧ (b.get x).rank < (a.get x).rank := by
  unfold AEnv.le at h
  have : ¬ ((vars a b).all (fun x => (a.get x).join (b.get x) == b.get x) = true) := by simp [h]
  rw [List.all_eq_true] at this
  have ⟨x, hx, hne⟩ : ∃ x, x ∈ vars a b ∧ ¬ (((a.get x).join (b.get x) == b.get x) = true) := by
    apply Classical.byContradiction
    intro hcon
    apply this
    intro x hx
    apply Classical.byContradiction
    intro hh
    exact hcon ⟨x, hx, hh⟩
  refine ⟨x, (mem_vars a b x).1 hx, ?_⟩
  have hne' : ¬ ((a.get x).join (b.get x) = b.get x) := by simpa using hne
  rw [AVal.join_eq_right_iff] at hne'
  exact Nat.lt_of_not_le hne'

/-! ### termination measure for the loop iteration -/

def mu (V : List Var) (e : AEnv) : Nat := (V.map (fun x => (e.get x).rank)).sum

theorem mu_le (V : List Var) (e : AEnv) : mu V e ≤ 2 * V.length := by
  induction V with
  | nil => simp [mu]
  | cons x t ih =>
    unfold mu at *
    simp only [List.map_cons, List.sum_cons, List.length_cons]
    have := AVal.rank_le_two (e.get x)
    omega

theorem mu_mono (V : List Var) {a b : AEnv} (h : ELe a b) : mu V a ≤ mu V b := by
  induction V with
  | nil => simp [mu]
  | cons x t ih =>
    unfold mu at *
    simp only [List.map_cons, List.sum_cons]
    have := h x
    omega

theorem mu_strict (V : List Var) {a b : AEnv} (h : ELe a b) (x : Var) (hx : x ∈ V)
    (hlt : (a.get x).rank < (b.get x).rank) : mu V a < mu V b := by
  induction V with
  | nil => cases hx
  | cons y t ih =>
    have hm := mu_mono t h
    unfold mu at *
    simp only [List.map_cons, List.sum_cons]
    rcases List.mem_cons.1 hx with rfl | hx'
    · omega
    · have := ih hx'
      have := h y
      omega

/-! ### the loop iteration reaches a post-fixpoint within the fuel -/

theorem iterLoop_fix (step : AEnv → ARes) (k : Nat) (cur : AEnv) (m a : Bool)
    (h : (cur.join (step cur).env).le cur = true) :
    iterLoop step (k + 1) cur m a =
      { env := cur, mutates := m || (step cur).mutates, aliases := a || (step cur).aliases } := by
  simp only [iterLoop, h, if_true]

theorem keysIn_join {V : List Var} {a b : AEnv} (ha : KeysIn V a) (hb : KeysIn V b) : KeysIn V (a.join b) := by
  intro x hx
  rw [keys_join, mem_vars] at hx
  rcases hx with h | h
  · exact ha x h
  · exact hb x h

theorem iterLoop_spec (step : AEnv → ARes) (V : List Var)
    (hstep : ∀ cur, KeysIn V cur → KeysIn V (step cur).env) :
    ∀ (k : Nat) (cur : AEnv) (m a : Bool), KeysIn V cur → 2 * V.length + 1 ≤ k + mu V cur →
      ∃ cur', (iterLoop step k cur m a).env = cur' ∧ ELe cur cur' ∧ KeysIn V cur' ∧
        (cur'.join (step cur').env).le cur' = true ∧
        ((iterLoop step k cur m a).mutates = false → (step cur').mutates = false) ∧
        ((iterLoop step k cur m a).aliases = false → (step cur').aliases = false) := by
  intro k
  induction k with
  | zero =>
    intro cur m a _ hf
    have := mu_le V cur
    omega
  | succ k ih =>
    intro cur m a hk hf
    by_cases hle : (cur.join (step cur).env).le cur = true
    · rw [iterLoop_fix step k cur m a hle]
      refine ⟨cur, rfl, ELe.refl _, hk, hle, ?_, ?_⟩
      · intro h; simp only [Bool.or_eq_false_iff] at h; exact h.2
      · intro h; simp only [Bool.or_eq_false_iff] at h; exact h.2
    · have hle' : (cur.join (step cur).env).le cur = false := by simpa using hle
      have hnk : KeysIn V (cur.join (step cur).env) := keysIn_join hk (hstep cur hk)
      have hmono : ELe cur (cur.join (step cur).env) := ELe_join_left _ _
      obtain ⟨x, hxk, hlt⟩ := le_false_exists hle'
      have hxV : x ∈ V := by
        rcases hxk with h | h
        · exact hnk x h
        · exact hk x h
      have hmu := mu_strict V hmono x hxV hlt
      have heq : iterLoop step (k + 1) cur m a =
          iterLoop step k (cur.join (step cur).env) (m || (step cur).mutates) (a || (step cur).aliases) := by
        simp only [iterLoop, hle', Bool.false_eq_true, if_false]
      rw [heq]
      obtain ⟨cur', h1, h2, h3, h4, h5, h6⟩ :=
        ih (cur.join (step cur).env) (m || (step cur).mutates) (a || (step cur).aliases) hnk (by omega)
      exact ⟨cur', h1, ELe.trans hmono h2, h3, h4, h5, h6⟩

/-! ### keys of the analysis result stay inside the variable universe -/

theorem keysIn_set {V : List Var} {e : AEnv} (he : KeysIn V e) (x : Var) (hx : x ∈ V) (v : AVal) :
    KeysIn V (e.set x v) := by
  intro y hy
  rcases keys_set e x v y hy with rfl | h
  · exact hx
  · exact he y h

theorem iterLoop_keys (step : AEnv → ARes) (V : List Var)
    (hstep : ∀ cur, KeysIn V cur → KeysIn V (step cur).env) :
    ∀ (k : Nat) (cur : AEnv) (m a : Bool), KeysIn V cur → KeysIn V (iterLoop step k cur m a).env := by
  intro k
  induction k with
  | zero => intro cur m a h; simpa [iterLoop] using h
  | succ k ih =>
    intro cur m a h
    by_cases hle : (cur.join (step cur).env).le cur = true
    · rw [iterLoop_fix step k cur m a hle]; exact h
    · have hle' : (cur.join (step cur).env).le cur = false := by simpa using hle
      have heq : iterLoop step (k + 1) cur m a =
          iterLoop step k (cur.join (step cur).env) (m || (step cur).mutates) (a || (step cur).aliases) := by
        simp only [iterLoop, hle', Bool.false_eq_true, if_false]
      rw [heq]
      exact ih _ _ _ (keysIn_join h (hstep cur h))

theorem analyze_keys (s : Sums) (fuel : Nat) (V : List Var) :
    ∀ (stmt : Stmt) (e : AEnv), KeysIn V e → (∀ x ∈ stmtVars stmt, x ∈ V) → KeysIn V (analyze s fuel stmt e).env := by
  intro stmt
  induction stmt with
  | skip => intro e he _; simpa [analyze] using he
  | assign x r =>
    intro e he hv
    simp only [analyze]
    exact keysIn_set he x (hv x (by simp [stmtVars])) _
  | mutate x => intro e he _; simpa [analyze] using he
  | exec f args => intro e he _; simpa [analyze] using he
  | seq a b iha ihb =>
    intro e he hv
    simp only [analyze]
    have hva : ∀ x ∈ stmtVars a, x ∈ V := fun x hx => hv x (by simp [stmtVars, hx])
    have hvb : ∀ x ∈ stmtVars b, x ∈ V := fun x hx => hv x (by simp [stmtVars, hx])
    exact ihb _ (iha e he hva) hvb
  | ite a b iha ihb =>
    intro e he hv
    simp only [analyze]
    have hva : ∀ x ∈ stmtVars a, x ∈ V := fun x hx => hv x (by simp [stmtVars, hx])
    have hvb : ∀ x ∈ stmtVars b, x ∈ V := fun x hx => hv x (by simp [stmtVars, hx])
    exact keysIn_join (iha e he hva) (ihb e he hvb)
  | loop body ih =>
    intro e he hv
    simp only [analyze]
    have hvb : ∀ x ∈ stmtVars body, x ∈ V := fun x hx => hv x (by simpa [stmtVars] using hx)
    exact iterLoop_keys _ V (fun cur hc => ih cur hc hvb) _ _ _ _ he
  | ret r => intro e he _; simpa [analyze] using he
  | raise => intro e he _; simpa [analyze] using he

/-! ### concrete states -/

theorem cells_bind (st : CState) (x y : Var) (cs : List Cell) :
    (st.bind x cs).cells y = if y = x then cs else st.cells y := by
  unfold CState.cells CState.bind
  simp only
  rw [lookup_set]
  by_cases h : y = x <;> simp [h]

/-- simulation invariant: variables that are not `tainted` reach no parameter cell, and every parameter cell is
    allocated (so newly allocated cells are distinct from them) -/
structure Inv (P : List Cell) (e : AEnv) (st : CState) : Prop where
  clean : ∀ x, e.get x ≠ .tainted → ∀ c ∈ st.cells x, c ∉ P
  bound : ∀ c ∈ P, c < st.next

theorem Inv.weaken {P : List Cell} {e e' : AEnv} {st : CState} (h : Inv P e st) (hle : ELe e e') : Inv P e' st :=
  ⟨fun x hx => h.clean x (AVal.ne_tainted_of_rank_le (hle x) hx), h.bound⟩

theorem anyTainted_false {e : AEnv} {xs : List Var} (h : anyTainted e xs = false) :
    ∀ x ∈ xs, e.get x ≠ .tainted := by
  intro x hx ht
  unfold anyTainted at h
  have : xs.any (fun x => e.get x == .tainted) = true := by
    rw [List.any_eq_true]
    exact ⟨x, hx, by simp [ht]⟩
  rw [h] at this
  cases this

theorem Inv.flatMap_clean {P : List Cell} {e : AEnv} {st : CState} (h : Inv P e st) {xs : List Var}
    (hx : anyTainted e xs = false) : ∀ c ∈ xs.flatMap st.cells, c ∉ P := by
  intro c hc
  rw [List.mem_flatMap] at hc
  obtain ⟨x, hxs, hcx⟩ := hc
  exact h.clean x (anyTainted_false hx x hxs) c hcx

theorem evalRhs_sound (s : Sums) (P : List Cell) (e : AEnv) {r : Rhs} {st st1 : CState} {cs : List Cell}
    (h : EvalRhs s r st cs st1) (hi : Inv P e st) :
    Inv P e st1 ∧ (aRhs s e r ≠ .tainted → ∀ c ∈ cs, c ∉ P) ∧
      (rhsMutates s e r = false → ∀ c ∈ P, st1.ver c = st.ver c) ∧
      (∀ x, st1.cells x = st.cells x) := by
  cases h with
  | pure => exact ⟨hi, fun _ c hc => (by cases hc), fun _ _ _ => rfl, fun _ => rfl⟩
  | alias x => exact ⟨hi, fun ht c hc => hi.clean x ht c hc, fun _ _ _ => rfl, fun _ => rfl⟩
  | fresh =>
    refine ⟨⟨hi.clean, fun c hc => Nat.lt_succ_of_lt (hi.bound c hc)⟩, ?_, fun _ _ _ => rfl, fun _ => rfl⟩
    intro _ c hc hcP
    have hc' : c = st.next := by simpa using hc
    have hb := hi.bound c hcP
    rw [hc'] at hb
    exact Nat.lt_irrefl _ hb
  | build parts _ k =>
    refine ⟨⟨hi.clean, fun c hc => Nat.lt_of_lt_of_le (hi.bound c hc) (Nat.le_add_right _ _)⟩, ?_,
      fun _ _ _ => rfl, fun _ => rfl⟩
    intro ht c hc hcP
    have hat : anyTainted e parts = false := by
      cases hh : anyTainted e parts
      · rfl
      · exact absurd (by simp [aRhs, hh]) ht
    rcases List.mem_append.1 hc with h1 | h2
    · exact hi.flatMap_clean hat c h1 hcP
    · rw [List.mem_map] at h2
      obtain ⟨i, _, rfl⟩ := h2
      have hb := hi.bound _ hcP
      exact Nat.not_lt.2 (Nat.le_add_left _ _) hb
  | call f args _ st2 ws res k hws hwr hres =>
    obtain ⟨henv, hnext, hver⟩ := hwr
    have hcells : ∀ x, CState.cells { st2 with next := st.next + k } x = st.cells x := by
      intro x; unfold CState.cells; simp only; rw [henv]
    refine ⟨⟨?_, fun c hc => Nat.lt_of_lt_of_le (hi.bound c hc) (Nat.le_add_right _ _)⟩, ?_, ?_, hcells⟩
    · intro x hx c hc
      rw [hcells] at hc
      exact hi.clean x hx c hc
    · intro ht c hc hcP
      rcases hres c hc with ⟨h1, _⟩ | ⟨h1, h2⟩
      · have hb := hi.bound _ hcP
        exact Nat.not_lt.2 h1 hb
      · have hat : anyTainted e args = false := by
          cases hh : anyTainted e args
          · rfl
          · exact absurd (by simp [aRhs, hh, h2]) ht
        exact hi.flatMap_clean hat c h1 hcP
    · intro hm c hcP
      show st2.ver c = st.ver c
      apply hver
      intro hcw
      obtain ⟨h1, h2⟩ := hws c hcw
      have hat : anyTainted e args = false := by
        simpa [rhsMutates, callMutates, h2] using hm
      exact hi.flatMap_clean hat c h1 hcP

theorem Inv.bind {P : List Cell} {e : AEnv} {st : CState} (h : Inv P e st) (x : Var) (v : AVal) (cs : List Cell)
    (hcs : v ≠ .tainted → ∀ c ∈ cs, c ∉ P) : Inv P (e.set x v) (st.bind x cs) := by
  refine ⟨?_, h.bound⟩
  intro y hy c hc
  rw [get_set] at hy
  rw [cells_bind] at hc
  by_cases hyx : y = x
  · simp only [hyx, if_true] at hy hc
    exact hcs hy c hc
  · simp only [hyx, if_false] at hy hc
    exact h.clean y hy c hc

/-- what the analysis result promises about an outcome -/
def Post (P : List Cell) (st : CState) (r : ARes) : Out → Prop
  | .normal st' => Inv P r.env st' ∧ (r.mutates = false → ∀ c ∈ P, st'.ver c = st.ver c)
  | .returned cs st' =>
      (r.mutates = false → ∀ c ∈ P, st'.ver c = st.ver c) ∧ (r.aliases = false → ∀ c ∈ cs, c ∉ P)
  | .raised st' => (r.mutates = false → ∀ c ∈ P, st'.ver c = st.ver c)

theorem analyze_loop_eq (s : Sums) (fuel : Nat) (body : Stmt) (e : AEnv) :
    analyze s fuel (.loop body) e = iterLoop (fun cur => analyze s fuel body cur) fuel e false false := by
  simp only [analyze]

theorem analyze_sound (s : Sums) (fuel : Nat) (V : List Var) (P : List Cell) (hfuel : 2 * V.length + 1 ≤ fuel)
    {stmt : Stmt} {st : CState} {o : Out} (h : Exec s stmt st o) :
    ∀ e, KeysIn V e → (∀ x ∈ stmtVars stmt, x ∈ V) → Inv P e st → Post P st (analyze s fuel stmt e) o := by
  induction h with
  | skip st => intro e _ _ hi; exact ⟨by simpa [analyze] using hi, fun _ _ _ => rfl⟩
  | assign x r st cs st1 hev =>
    intro e _ _ hi
    obtain ⟨h1, h2, h3, _⟩ := evalRhs_sound s P e hev hi
    simp only [analyze, Post]
    exact ⟨h1.bind x _ cs h2, h3⟩
  | mutate x st st1 ws hws hwr =>
    intro e _ _ hi
    obtain ⟨henv, hnext, hver⟩ := hwr
    simp only [analyze, Post]
    refine ⟨⟨?_, ?_⟩, ?_⟩
    · intro y hy c hc
      have : st1.cells y = st.cells y := by unfold CState.cells; rw [henv]
      rw [this] at hc
      exact hi.clean y hy c hc
    · intro c hc; rw [hnext]; exact hi.bound c hc
    · intro hm c hcP
      apply hver
      intro hcw
      have hnt : e.get x ≠ .tainted := by simpa using hm
      exact hi.clean x hnt c (hws c hcw) hcP
  | exec f args st cs st1 hev =>
    intro e _ _ hi
    obtain ⟨h1, _, h3, _⟩ := evalRhs_sound s P e hev hi
    simp only [analyze, Post]
    exact ⟨h1, h3⟩
  | seqN a b st st1 o _ _ iha ihb =>
    intro e hk hv hi
    have hva : ∀ x ∈ stmtVars a, x ∈ V := fun x hx => hv x (by simp [stmtVars, hx])
    have hvb : ∀ x ∈ stmtVars b, x ∈ V := fun x hx => hv x (by simp [stmtVars, hx])
    obtain ⟨ha1, ha2⟩ := iha e hk hva hi
    have hb := ihb _ (analyze_keys s fuel V a e hk hva) hvb ha1
    simp only [analyze]
    cases o with
    | normal st2 =>
      obtain ⟨hb1, hb2⟩ := hb
      refine ⟨hb1, ?_⟩
      intro hm c hc
      simp only [Bool.or_eq_false_iff] at hm
      rw [hb2 hm.2 c hc, ha2 hm.1 c hc]
    | returned cs st2 =>
      obtain ⟨hb1, hb2⟩ := hb
      refine ⟨?_, ?_⟩
      · intro hm c hc
        simp only [Bool.or_eq_false_iff] at hm
        rw [hb1 hm.2 c hc, ha2 hm.1 c hc]
      · intro hal
        simp only [Bool.or_eq_false_iff] at hal
        exact hb2 hal.2
    | raised st2 =>
      intro hm c hc
      simp only [Bool.or_eq_false_iff] at hm
      rw [hb hm.2 c hc, ha2 hm.1 c hc]
  | seqRet a b st cs st1 _ iha =>
    intro e hk hv hi
    have hva : ∀ x ∈ stmtVars a, x ∈ V := fun x hx => hv x (by simp [stmtVars, hx])
    obtain ⟨ha1, ha2⟩ := iha e hk hva hi
    simp only [analyze]
    refine ⟨?_, ?_⟩
    · intro hm; simp only [Bool.or_eq_false_iff] at hm; exact ha1 hm.1
    · intro hal; simp only [Bool.or_eq_false_iff] at hal; exact ha2 hal.1
  | seqRaise a b st st1 _ iha =>
    intro e hk hv hi
    have hva : ∀ x ∈ stmtVars a, x ∈ V := fun x hx => hv x (by simp [stmtVars, hx])
    have ha := iha e hk hva hi
    simp only [analyze]
    intro hm; simp only [Bool.or_eq_false_iff] at hm; exact ha hm.1
  | iteL a b st o _ iha =>
    intro e hk hv hi
    have hva : ∀ x ∈ stmtVars a, x ∈ V := fun x hx => hv x (by simp [stmtVars, hx])
    have ha := iha e hk hva hi
    simp only [analyze]
    cases o with
    | normal st2 =>
      obtain ⟨ha1, ha2⟩ := ha
      refine ⟨ha1.weaken (ELe_join_left _ _), ?_⟩
      intro hm; simp only [Bool.or_eq_false_iff] at hm; exact ha2 hm.1
    | returned cs st2 =>
      obtain ⟨ha1, ha2⟩ := ha
      refine ⟨?_, ?_⟩
      · intro hm; simp only [Bool.or_eq_false_iff] at hm; exact ha1 hm.1
      · intro hal; simp only [Bool.or_eq_false_iff] at hal; exact ha2 hal.1
    | raised st2 =>
      intro hm; simp only [Bool.or_eq_false_iff] at hm; exact ha hm.1
  | iteR a b st o _ ihb =>
    intro e hk hv hi
    have hvb : ∀ x ∈ stmtVars b, x ∈ V := fun x hx => hv x (by simp [stmtVars, hx])
    have hb := ihb e hk hvb hi
    simp only [analyze]
    cases o with
    | normal st2 =>
      obtain ⟨hb1, hb2⟩ := hb
      refine ⟨hb1.weaken (ELe_join_right _ _), ?_⟩
      intro hm; simp only [Bool.or_eq_false_iff] at hm; exact hb2 hm.2
    | returned cs st2 =>
      obtain ⟨hb1, hb2⟩ := hb
      refine ⟨?_, ?_⟩
      · intro hm; simp only [Bool.or_eq_false_iff] at hm; exact hb1 hm.2
      · intro hal; simp only [Bool.or_eq_false_iff] at hal; exact hb2 hal.2
    | raised st2 =>
      intro hm; simp only [Bool.or_eq_false_iff] at hm; exact hb hm.2
  | loopDone body st =>
    intro e hk hv hi
    have hvb : ∀ x ∈ stmtVars body, x ∈ V := fun x hx => hv x (by simpa [stmtVars] using hx)
    rw [analyze_loop_eq]
    obtain ⟨cur', h1, h2, _, _, _, _⟩ :=
      iterLoop_spec (fun cur => analyze s fuel body cur) V (fun cur hc => analyze_keys s fuel V body cur hc hvb)
        fuel e false false hk (by omega)
    refine ⟨?_, fun _ _ _ => rfl⟩
    rw [h1]
    exact hi.weaken h2
  | loopStep body st st1 o _ _ ihb ihl =>
    intro e hk hv hi
    have hvb : ∀ x ∈ stmtVars body, x ∈ V := fun x hx => hv x (by simpa [stmtVars] using hx)
    rw [analyze_loop_eq]
    obtain ⟨cur', h1, h2, h3, h4, h5, h6⟩ :=
      iterLoop_spec (fun cur => analyze s fuel body cur) V (fun cur hc => analyze_keys s fuel V body cur hc hvb)
        fuel e false false hk (by omega)
    obtain ⟨hb1, hb2⟩ := ihb cur' h3 hvb (hi.weaken h2)
    have hpost : ELe (analyze s fuel body cur').env cur' :=
      ELe.trans (ELe_join_right cur' _) (le_true_ELe h4)
    have hl := ihl cur' h3 hv (hb1.weaken hpost)
    rw [analyze_loop_eq] at hl
    obtain ⟨k, rfl⟩ : ∃ k, fuel = k + 1 := ⟨fuel - 1, by omega⟩
    rw [iterLoop_fix _ k cur' false false h4] at hl
    simp only [Bool.false_or] at hl
    cases o with
    | normal st2 =>
      obtain ⟨hl1, hl2⟩ := hl
      refine ⟨?_, ?_⟩
      · rw [h1]; exact hl1
      · intro hm c hc
        rw [hl2 (h5 hm) c hc, hb2 (h5 hm) c hc]
    | returned cs st2 =>
      obtain ⟨hl1, hl2⟩ := hl
      refine ⟨?_, ?_⟩
      · intro hm c hc
        rw [hl1 (h5 hm) c hc, hb2 (h5 hm) c hc]
      · intro hal; exact hl2 (h6 hal)
    | raised st2 =>
      intro hm c hc
      rw [hl (h5 hm) c hc, hb2 (h5 hm) c hc]
  | loopRet body st cs st1 _ ihb =>
    intro e hk hv hi
    have hvb : ∀ x ∈ stmtVars body, x ∈ V := fun x hx => hv x (by simpa [stmtVars] using hx)
    rw [analyze_loop_eq]
    obtain ⟨cur', h1, h2, h3, h4, h5, h6⟩ :=
      iterLoop_spec (fun cur => analyze s fuel body cur) V (fun cur hc => analyze_keys s fuel V body cur hc hvb)
        fuel e false false hk (by omega)
    obtain ⟨hb1, hb2⟩ := ihb cur' h3 hvb (hi.weaken h2)
    exact ⟨fun hm => hb1 (h5 hm), fun hal => hb2 (h6 hal)⟩
  | loopRaise body st st1 _ ihb =>
    intro e hk hv hi
    have hvb : ∀ x ∈ stmtVars body, x ∈ V := fun x hx => hv x (by simpa [stmtVars] using hx)
    rw [analyze_loop_eq]
    obtain ⟨cur', h1, h2, h3, h4, h5, h6⟩ :=
      iterLoop_spec (fun cur => analyze s fuel body cur) V (fun cur hc => analyze_keys s fuel V body cur hc hvb)
        fuel e false false hk (by omega)
    have hb := ihb cur' h3 hvb (hi.weaken h2)
    exact fun hm => hb (h5 hm)
  | ret r st cs st1 hev =>
    intro e _ _ hi
    obtain ⟨_, h2, h3, _⟩ := evalRhs_sound s P e hev hi
    simp only [analyze, Post]
    refine ⟨h3, ?_⟩
    intro hal
    apply h2
    simpa using hal
  | raise st => intro e _ _ _; exact fun _ _ _ => rfl
  | abort stmt st => intro e _ _ _; exact fun _ _ _ => rfl

/-! ### entry states -/

theorem entryEnv_get_param (f : Fn) (x : Var) (hx : x ∈ f.params) : (entryEnv f).get x = .tainted := by
  unfold entryEnv AEnv.get
  rw [lookup_map_key (fun _ => AVal.tainted)]
  simp [hx]

theorem entry_inv (f : Fn) (st : CState) (hst : Entry f st) : Inv (paramCells f st) (entryEnv f) st := by
  obtain ⟨h1, h2⟩ := hst
  refine ⟨?_, ?_⟩
  · intro x hx c hc
    by_cases hp : x ∈ f.params
    · exact absurd (entryEnv_get_param f x hp) hx
    · have : st.cells x = [] := by
        unfold CState.cells
        rw [lookup_eq_none_of_keys st.env x]
        · rfl
        · intro p hpe hpx
          exact hp (hpx ▸ h1 p hpe)
      rw [this] at hc
      cases hc
  · intro c hc
    unfold paramCells at hc
    rw [List.mem_flatMap] at hc
    obtain ⟨x, _, hcx⟩ := hc
    exact h2 x c hcx

theorem entry_keys (f : Fn) : KeysIn (dedupV (stmtVars f.body) ++ f.params) (entryEnv f) := by
  intro x hx
  unfold keys entryEnv at hx
  rw [List.map_map] at hx
  have : x ∈ f.params := by simpa [Function.comp_def] using hx
  exact List.mem_append.2 (Or.inr this)

theorem summarize_post (s : Sums) (f : Fn) (st : CState) (hst : Entry f st) (o : Out) (h : Exec s f.body st o) :
    Post (paramCells f st) st
      (analyze s (2 * ((dedupV (stmtVars f.body)).length + f.params.length) + 2) f.body (entryEnv f)) o := by
  apply analyze_sound s _ (dedupV (stmtVars f.body) ++ f.params) (paramCells f st) _ h (entryEnv f)
    (entry_keys f) _ (entry_inv f st hst)
  · rw [List.length_append]; omega
  · intro x hx
    exact List.mem_append.2 (Or.inl ((mem_dedupV _ _).2 hx))

end Own
end CG
