/- C14 (character level, fast parser) helper: `FastVerilog.extract` on the text of a restricted netlist -/
import CG.Proofs.FastTextMain
set_option linter.unusedSimpArgs false
set_option linter.unusedVariables false
namespace CG
namespace FT
open Regex BenchText Verilog C14 FastVerilog

/-- the instance record the regular expressions really deliver (the raw operand list of a blackbox instance is the
    comma-split text of its named connections) -/
def finstX : RStmt → Option FInst
  | .gate ty inst out ops => some (.inst ty inst (out :: ops.map ROp.text) [])
  | .bb ty inst pins => some (.inst ty inst
      (((String.ofList (pinsT (pins.map pinOf))).splitOn ",").map FastVerilog.strip)
      (pins.filterMap (fun p => p.2.map (fun o => (p.1, o.text)))))
  | .assign .. => none

/-- `findall` of the named-connection pattern on a text -/
theorem findall_pin (T : List Char) (res : List (List String))
    (h : ∀ ctx : Ctx, txt ctx = T →
      (allMatches ctx rxPin 2 (ctx.s.size + 2) 0).map (fun mt => mt.groups.map (·.getD "")) = res) :
    Regex.findall (FastVerilog.rx 4).1 (String.ofList T) (FastVerilog.rx 4).2 = some res := by
  rw [findall_eq parse_rx4.1]
  simp only [String.toList_ofList]
  let ctx : Ctx := { s := T.toArray, dotall := (FastVerilog.rx 4).2 }
  have := h ctx (by simp [txt, ctx])
  have hne : ((2 : Nat) == 0) = false := by decide
  simp only [hne, Bool.false_eq_true, if_false]
  show some (List.map _ (allMatches ctx rxPin 2 (ctx.s.size + 2) 0)) = _
  rw [this]

theorem opT_ne_nil {o : ROp} (h : OpOK o) : opT o ≠ [] := (rhsL_op h).all.1

theorem pins_pairs : ∀ (pins : List (Name × Option ROp)), (∀ p ∈ pins, Word p.1 ∧ ∀ o, p.2 = some o → OpOK o) →
    ((pins.map pinOf).filterMap (fun q => if q.2 = [] then none else some [String.ofList q.1, String.ofList q.2])).map
      (fun (pg : List String) => (pg.getD 0 "", pg.getD 1 "")) = pins.filterMap (fun p => p.2.map (fun o => (p.1, o.text)))
  | [], _ => rfl
  | (n, none) :: pins, h => by
    have ih := pins_pairs pins (fun p hp => h p (by simp [hp]))
    simp only [List.map_cons, pinOf, Option.map_none, Option.getD_none, List.filterMap_cons, if_true] at ih ⊢
    exact ih
  | (n, some o) :: pins, h => by
    have ih := pins_pairs pins (fun p hp => h p (by simp [hp]))
    have hne := opT_ne_nil ((h (n, some o) (by simp)).2 o rfl)
    simp only [List.map_cons, pinOf, Option.map_some, Option.getD_some, List.filterMap_cons, if_neg hne] at ih ⊢
    rw [ih]
    simp [opT, String.ofList_toList]

/-- what the named-connection pattern finds in the connection list of a statement -/
def pinRes : RStmt → List (List String)
  | .bb _ _ pins => (pins.map pinOf).filterMap (fun q => if q.2 = [] then none else some [String.ofList q.1, String.ofList q.2])
  | _ => []

theorem inst_find (s : RStmt) (hs : StmtOK s) (g : List String) (hg : instHit s = some g) :
    Regex.findall (FastVerilog.rx 4).1 (g.getD 2 "") (FastVerilog.rx 4).2 = some (pinRes s) := by
  cases s with
  | gate ty inst out ops =>
    obtain ⟨h1, h2, h3, h4⟩ := hs
    simp only [instHit, Option.some.injEq] at hg
    subst hg
    simp only [List.getD_cons_zero, List.getD_cons_succ]
    exact findall_pin _ [] (fun ctx ht => pin_scan_args ctx _ (gate_args h3 h4).1 ht)
  | assign l r => simp [instHit] at hg
  | bb ty inst pins =>
    obtain ⟨h1, h2, h3, h4⟩ := hs
    simp only [instHit, Option.some.injEq] at hg
    subst hg
    simp only [List.getD_cons_zero, List.getD_cons_succ]
    exact findall_pin _ _ (fun ctx ht => pin_scan ctx _ (pins_ok h4) ht)

theorem inst_rec (s : RStmt) (hs : StmtOK s) (g : List String) (hg : instHit s = some g) :
    some (FInst.inst (g.getD 0 "") (g.getD 1 "") (((g.getD 2 "").splitOn ",").map strip)
      ((pinRes s).map (fun (pg : List String) => (pg.getD 0 "", pg.getD 1 "")))) = finstX s := by
  cases s with
  | gate ty inst out ops =>
    obtain ⟨h1, h2, h3, h4⟩ := hs
    simp only [instHit, Option.some.injEq] at hg
    subst hg
    simp only [List.getD_cons_zero, List.getD_cons_succ, finstX, pinRes, List.map_nil]
    have := split_commaSep (gateWords out ops) (by simp [gateWords])
      (fun w hw => (gateWords_rhs h3 h4 w hw).all)
    rw [this]
    simp [gateWords, opT, String.ofList_toList, Function.comp]
  | assign l r => simp [instHit] at hg
  | bb ty inst pins =>
    obtain ⟨h1, h2, h3, h4⟩ := hs
    simp only [instHit, Option.some.injEq] at hg
    subst hg
    simp only [List.getD_cons_zero, List.getD_cons_succ, finstX, pinRes, pins_pairs pins h4]

theorem mapM_insts (f : List String → E FInst) : ∀ (stmts : List RStmt),
    (∀ s ∈ stmts, ∀ g, instHit s = some g → f g = (finstX s).elim (.error (Outcome.other "regex")) .ok) →
    (stmts.filterMap instHit).mapM f = .ok (stmts.filterMap finstX)
  | [], _ => rfl
  | s :: stmts, h => by
    have ih := mapM_insts f stmts (fun x hx => h x (by simp [hx]))
    cases hh : instHit s with
    | none =>
      have : finstX s = none := by cases s <;> simp [instHit] at hh <;> rfl
      rw [List.filterMap_cons_none hh, List.filterMap_cons_none this]
      exact ih
    | some g =>
      have hp := h s (by simp) g hh
      obtain ⟨fi, hfi⟩ : ∃ fi, finstX s = some fi := by cases s <;> simp [instHit] at hh <;> exact ⟨_, rfl⟩
      rw [List.filterMap_cons_some hh, List.filterMap_cons_some hfi, List.mapM_cons, hp, hfi, ih]
      rfl

theorem words_split (kw : String) : ∀ (l : List Name), (∀ i ∈ l, Word i) →
    (l.map (fun i => [kw, i])).flatMap (fun g => ((g.getD 1 "").splitOn ",").map strip) = l
  | [], _ => rfl
  | i :: l, h => by
    have ih := words_split kw l (fun x hx => h x (by simp [hx]))
    simp only [List.map_cons, List.flatMap_cons, List.getD_cons_zero, List.getD_cons_succ, ih]
    have := split_word i.toList (rhsL_of_ident (h i (by simp)).1).all
    rw [String.ofList_toList] at this
    rw [this]
    rfl

theorem asg_pairs : ∀ (stmts : List RStmt),
    (stmts.filterMap asgHit).map (fun (g : List String) => (g.getD 0 "", g.getD 1 "")) = stmts.filterMap RStmt.fassign
  | [] => rfl
  | s :: stmts => by
    have ih := asg_pairs stmts
    cases s with
    | gate ty inst out ops => rw [List.filterMap_cons_none rfl, List.filterMap_cons_none rfl]; exact ih
    | bb ty inst pins => rw [List.filterMap_cons_none rfl, List.filterMap_cons_none rfl]; exact ih
    | assign l r =>
      show List.map _ ([l, r.text] :: List.filterMap asgHit stmts) = (l, r.text) :: List.filterMap RStmt.fassign stmts
      rw [List.map_cons, ih]; rfl

theorem hdrLen_ge (r : RMod) : 10 ≤ hdrLen r := by simp [hdrLen, kModule]; omega

/-- **the regular-expression passes on the writer-layout text** -/
theorem extract_ok (r : RMod) (wires : List Name) (h : TOK r wires) :
    FastVerilog.extract (render (toW r wires)) = .ok
      { name := r.name, inputs := dedup r.inputs, insts := r.stmts.filterMap finstX,
        assigns := r.stmts.filterMap RStmt.fassign, outputs := r.outputs } := by
  obtain ⟨m0, hs0, hstop, hname⟩ := search_hdr r wires h
  obtain ⟨m1, hs1, hstart⟩ := search_end r wires h
  have hmod : ((render (toW r wires)).toList.drop m0.stop).take m1.start = bodyT r wires ++ VMT.kwE ++ ['\n'] := by
    rw [hstop, hstart, text_eq]
    have e : kModule ++ ' ' :: (r.name.toList ++ ' ' :: '(' :: (portsT r ++ ')' :: ';' :: (bodyT r wires ++ VMT.kwE ++ ['\n']))) =
        (kModule ++ ' ' :: (r.name.toList ++ ' ' :: '(' :: (portsT r ++ [')', ';']))) ++ (bodyT r wires ++ VMT.kwE ++ ['\n']) := by
      simp
    have hl : (kModule ++ ' ' :: (r.name.toList ++ ' ' :: '(' :: (portsT r ++ [')', ';']))).length = hdrLen r := by
      simp [hdrLen]; omega
    rw [e, ← hl, List.drop_left, hl]
    apply List.take_of_length_le
    have := hdrLen_ge r
    simp [VMT.kwE]
    omega
  have f2 := findall_decl true r wires h
  have f6 := findall_decl false r wires h
  have f3 := findall_inst r wires h
  have f5 := findall_asg r wires h
  simp only [if_true, Bool.false_eq_true, if_false] at f2 f6
  unfold FastVerilog.extract
  rw [hs0, hs1]
  simp only [hmod, hname, parse_rx2.2, parse_rx3.2, parse_rx5.2, parse_rx6.2, f2, f3, f5, f6]
  have key : ∀ (f : List String → E FInst) (k : List FInst → E FParsed) (res : E FParsed),
      (∀ s ∈ r.stmts, ∀ g, instHit s = some g → f g = (finstX s).elim (.error (Outcome.other "regex")) .ok) →
      k (r.stmts.filterMap finstX) = res → ((r.stmts.filterMap instHit).mapM f >>= k) = res := by
    intro f k res hf hk
    rw [mapM_insts f r.stmts hf]
    exact hk
  apply key
  · intro s hs g hg
    simp only [inst_find s (h.stmts s hs) g hg, ← inst_rec s (h.stmts s hs) g hg, Option.elim]
  · simp only [words_split _ _ h.inputs, words_split _ _ h.outputs, asg_pairs]
    rfl

end FT
end CG
