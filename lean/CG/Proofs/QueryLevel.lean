/- C12 helpers: levelize -/
import CG.Proofs.QueryKahn
namespace CG
namespace Q
open Query

/-- `d` is the length of a longest path ending in `n` -/
def LongestB (c : Circuit) (n : Name) (d : Nat) : Prop :=
  (∃ b, RPath (EdgeRel c) b n d) ∧ ∀ b k, RPath (EdgeRel c) b n k → k ≤ d

def lvl : List Nat → Nat
  | [] => 0
  | x :: xs => xs.foldl max x + 1

def lvStepP (c : Circuit) (lv : List (Name × Nat)) (n : Name) : List (Name × Nat) :=
  if (lv.lookup n).isSome then lv
  else lv ++ [(n, lvl ((c.fanin n).map (fun fi => (lv.lookup fi).getD 0)))]

theorem foldlM_ok {α β ε : Type} (f : β → α → Except ε β) (g : β → α → β) (h : ∀ b a, f b a = .ok (g b a)) :
    ∀ (l : List α) (b : β), l.foldlM f b = .ok (l.foldl g b)
  | [], b => rfl
  | a :: l, b => by
    rw [List.foldlM_cons, h, List.foldl_cons]
    exact foldlM_ok f g h l (g b a)

def lvInit (c : Circuit) : List Name := dedup (c.inputs ++ c.filterType ["0", "1", "x"])

theorem levelize_eq (c : Circuit) (order : List Name) (h : topoSort c = some order)
    (htyped : ∀ p ∈ c.nodes, p.2.ty.isSome = true) :
    levelize c = .ok (order.foldl (lvStepP c) ((lvInit c).map (fun n => (n, 0)))) := by
  unfold levelize
  rw [h]
  simp only [any_ty_none_false c htyped]
  refine foldlM_ok _ _ ?_ _ _
  intro lv n
  unfold lvStepP
  by_cases hl : (lv.lookup n).isSome = true
  · simp only [hl, if_true]
  · simp only [hl, if_false, Bool.false_eq_true]
    cases (c.fanin n).map (fun fi => (lv.lookup fi).getD 0) <;> rfl

theorem levelize_cyclic (c : Circuit) (h : isCyclic c = true) : levelize c = .error .valueError := by
  unfold isCyclic at h
  unfold levelize
  cases ht : topoSort c with
  | none => rfl
  | some l => simp [ht] at h

theorem lvl_spec : ∀ vals : List Nat, (vals = [] ∧ lvl vals = 0) ∨
    (∃ M, lvl vals = M + 1 ∧ M ∈ vals ∧ ∀ y ∈ vals, y ≤ M)
  | [] => Or.inl ⟨rfl, rfl⟩
  | x :: xs => by
    refine Or.inr ⟨xs.foldl max x, rfl, ?_, ?_⟩
    · rcases foldl_max_mem xs x with h | h
      · rw [h]; simp
      · exact List.mem_cons_of_mem _ h
    · intro y hy
      rcases List.mem_cons.mp hy with rfl | hy
      · exact (foldl_max_ge 0 xs y).1
      · exact (foldl_max_ge 0 xs x).2 y hy

structure LvInv (c : Circuit) (K : List Name) (lv : List (Name × Nat)) (pre : List Name) : Prop where
  nodup : (lv.map (·.1)).Nodup
  keys : ∀ x, x ∈ lv.map (·.1) ↔ x ∈ K ∨ x ∈ pre
  longest : ∀ p ∈ lv, LongestB c p.1 p.2

theorem longestB_zero (c : Circuit) (n : Name) (h : c.fanin n = []) : LongestB c n 0 := by
  refine ⟨⟨n, .nil n⟩, ?_⟩
  intro b k hp
  cases k with
  | zero => exact Nat.le_refl _
  | succ k =>
    obtain ⟨f, _, he⟩ := hp.snoc_inv
    have : f ∈ c.fanin n := mem_fanin.mpr he
    rw [h] at this
    cases this

theorem lvStep_inv (c : Circuit) (K : List Name) (lv : List (Name × Nat)) (pre : List Name) (n : Name)
    (hinv : LvInv c K lv pre) (hfi : ∀ fi ∈ c.fanin n, fi ∈ pre) : LvInv c K (lvStepP c lv n) (pre ++ [n]) := by
  unfold lvStepP
  by_cases hl : (lv.lookup n).isSome = true
  · simp only [hl, if_true]
    have hn : n ∈ lv.map (·.1) := (lookup_isSome_iff lv n).mp hl
    refine ⟨hinv.nodup, ?_, hinv.longest⟩
    intro x
    rw [hinv.keys, List.mem_append, List.mem_singleton]
    constructor
    · rintro (h | h)
      · exact Or.inl h
      · exact Or.inr (Or.inl h)
    · rintro (h | h | h)
      · exact Or.inl h
      · exact Or.inr h
      · subst h
        exact (hinv.keys x).mp hn
  · simp only [hl, if_false, Bool.false_eq_true]
    have hn : n ∉ lv.map (·.1) := fun h => hl ((lookup_isSome_iff lv n).mpr h)
    -- every fan-in has a level already, and it is its longest path length
    have hfi' : ∀ fi ∈ c.fanin n, ∃ d, lv.lookup fi = some d ∧ LongestB c fi d := by
      intro fi h
      have h1 : fi ∈ lv.map (·.1) := (hinv.keys fi).mpr (Or.inr (hfi fi h))
      have h2 := (lookup_isSome_iff lv fi).mpr h1
      cases hd : lv.lookup fi with
      | none => simp [hd] at h2
      | some d => exact ⟨d, rfl, hinv.longest _ (mem_of_lookup lv fi d hd)⟩
    refine ⟨?_, ?_, ?_⟩
    · rw [List.map_append, List.nodup_append]
      refine ⟨hinv.nodup, by simp, ?_⟩
      intro a ha b hb hab
      simp only [List.map_cons, List.map_nil, List.mem_singleton] at hb
      subst hab; subst hb
      exact hn ha
    · intro x
      rw [List.map_append, List.mem_append, hinv.keys, List.mem_append]
      simp only [List.map_cons, List.map_nil, List.mem_singleton]
      exact or_assoc
    · intro p hp
      rcases List.mem_append.mp hp with hp | hp
      · exact hinv.longest p hp
      · simp only [List.mem_singleton] at hp
        subst hp
        simp only []
        rcases lvl_spec ((c.fanin n).map (fun fi => (lv.lookup fi).getD 0)) with ⟨hnil, hz⟩ | ⟨M, hM, hmem, hmax⟩
        · rw [hz]
          exact longestB_zero c n (List.map_eq_nil_iff.mp hnil)
        · rw [hM]
          constructor
          · obtain ⟨fi, hfim, hfiv⟩ := List.mem_map.mp hmem
            obtain ⟨d, hd, ⟨b, hb⟩, _⟩ := hfi' fi hfim
            rw [hd] at hfiv
            simp only [Option.getD_some] at hfiv
            subst hfiv
            exact ⟨b, hb.snoc (mem_fanin.mp hfim)⟩
          · intro b k hp
            cases k with
            | zero => omega
            | succ k =>
              obtain ⟨f, hpf, he⟩ := hp.snoc_inv
              have hfm : f ∈ c.fanin n := mem_fanin.mpr he
              obtain ⟨d, hd, _, hub⟩ := hfi' f hfm
              have h1 : k ≤ d := hub b k hpf
              have h2 : d ≤ M := by
                apply hmax
                refine List.mem_map.mpr ⟨f, hfm, ?_⟩
                rw [hd]; rfl
              omega

theorem lv_fold (c : Circuit) (K order : List Name) (htopo : TopoOK c order)
    (hmem : ∀ a b, (a, b) ∈ c.edges → a ∈ order) :
    ∀ (post pre : List Name) (lv : List (Name × Nat)), order = pre ++ post → LvInv c K lv pre →
      LvInv c K (post.foldl (lvStepP c) lv) order
  | [], pre, lv, ho, hinv => by
    rw [List.append_nil] at ho
    rw [ho]; exact hinv
  | n :: post, pre, lv, ho, hinv => by
    rw [List.foldl_cons]
    apply lv_fold c K order htopo hmem post (pre ++ [n]) _ (by rw [ho, List.append_assoc]; rfl)
    apply lvStep_inv c K lv pre n hinv
    intro fi hfi
    have h1 := htopo pre n post ho fi hfi
    have h2 : fi ∈ order := hmem fi n (mem_fanin.mp hfi)
    rw [ho, List.mem_append] at h2
    rcases h2 with h2 | h2
    · exact h2
    · exact absurd h2 h1

theorem has_of_ty (c : Circuit) (x : Name) (t : String) (h : c.ty? x = some t) : x ∈ c.nodeNames := by
  simp only [Circuit.ty?] at h
  cases ha : c.attr? x with
  | none => simp [ha] at h
  | some a =>
    have := mem_of_lookup c.nodes x a ha
    exact List.mem_map.mpr ⟨(x, a), this, rfl⟩

theorem mem_lvInit (c : Circuit) (hnd : c.nodeNames.Nodup) (x : Name) :
    x ∈ lvInit c → ∃ t, c.ty? x = some t ∧ t ∈ ["input", "0", "1", "x"] := by
  unfold lvInit Circuit.inputs
  rw [mem_dedup, List.mem_append, mem_filterType c hnd, mem_filterType c hnd]
  rintro (⟨t, h1, h2⟩ | ⟨t, h1, h2⟩)
  · refine ⟨t, h1, ?_⟩
    simp only [List.mem_cons, List.not_mem_nil, or_false] at h2 ⊢
    exact Or.inl h2
  · refine ⟨t, h1, ?_⟩
    simp only [List.mem_cons, List.not_mem_nil, or_false] at h2 ⊢
    exact Or.inr h2

theorem levelize_ok (c : Circuit) (hwf : WF c) (htyped : ∀ p ∈ c.nodes, p.2.ty.isSome = true)
    (hsrc : ∀ n t, c.ty? n = some t → t ∈ ["input", "0", "1", "x"] → c.fanin n = [])
    (h : isCyclic c = false) :
    ∃ lv, levelize c = .ok lv ∧ (lv.map (·.1)).Perm c.nodeNames ∧ ∀ p ∈ lv, LongestB c p.1 p.2 := by
  obtain ⟨order, ho⟩ := topoSort_of_not_cyclic c h
  obtain ⟨_, homem, htopo⟩ := topoSort_spec c hwf order ho
  refine ⟨_, levelize_eq c order ho htyped, ?_⟩
  have hinit : LvInv c (lvInit c) ((lvInit c).map (fun n => (n, 0))) [] := by
    have hk : ((lvInit c).map (fun n => (n, 0))).map (·.1) = lvInit c := by
      rw [List.map_map]
      exact List.map_id' _
    refine ⟨by rw [hk]; exact nodup_dedup _, ?_, ?_⟩
    · intro x; rw [hk]; simp
    · intro p hp
      obtain ⟨n, hn, rfl⟩ := List.mem_map.mp hp
      obtain ⟨t, ht1, ht2⟩ := mem_lvInit c hwf.nodup n hn
      exact longestB_zero c n (hsrc n t ht1 ht2)
  have hfin := lv_fold c (lvInit c) order htopo
    (fun a b he => (homem a).mpr ((has_iff c a).mp (hwf.closed _ he).1)) order [] _ rfl hinit
  refine ⟨perm_of_nodup_mem hfin.nodup hwf.nodup ?_, hfin.longest⟩
  intro x
  rw [hfin.keys, homem]
  constructor
  · rintro (hx | hx)
    · obtain ⟨t, ht, _⟩ := mem_lvInit c hwf.nodup x hx
      exact has_of_ty c x t ht
    · exact hx
  · exact Or.inr

end Q
end CG
