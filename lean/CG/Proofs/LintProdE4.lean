/-
  CG.Proofs.LintProdE4 — C20 (second half, fill_blackbox): the corrected theorem, and the proof that the two added side
  conditions are exactly what is needed (for lint-clean arguments and a successful call, the result passes lint if and
  only if they hold).
-/
import CG.Proofs.LintProdE3
set_option linter.unusedSimpArgs false
set_option linter.unusedVariables false
namespace CG
namespace LintProdE
open Circuit LintLink

/-- **fill_blackbox, corrected.**  `hdots` and `hsh` are the hypotheses missing from `C20.fill_blackbox_passes_lint`;
    its hypothesis `hio` is not needed. -/
theorem fill_passes_lint (P sub P' : Circuit) (inst : Name) (ord ord' : Ord) (hord : C20.OrdOK ord)
    (hord' : C20.OrdOK ord') (hP : LintClean P) (hrP : C20.RegistryOK P) (hsub : LintClean sub)
    (hrsub : C20.RegistryOK sub) (hinst : hasDot inst = false)
    (hfull : ∀ p ∈ sub.nodes, p.2.ty.isSome = true ∧ p.2.out.isSome = true)
    (hpins : ∀ n ∈ sub.outputs, sub.ty? n ≠ some "bb_input" ∧ sub.ty? n ≠ some "bb_output")
    (hdots : DotsArePinsOf P inst) (hsh : PinsNotShared P inst)
    (h : P.fillBlackbox inst sub ord = (P', .ok)) :
    lint P' {} ord' = Outcome.ok := by
  obtain ⟨bb, hbb⟩ := fill_lookup h
  have hI : Inv' P' [] := by
    have := (fillBlackbox_spec hord (inv_of_clean hP hrP) (inv_of_clean hsub hrsub) hpins inst
      (fillOK_of hrP hsh)).1
    rw [h] at this
    exact this
  exact lint_of_parts ord' hord' hI
    (fill_driven hord hP.toWF hsub.toWF hfull (Arith.driven_of_lintClean hP) (Arith.driven_of_lintClean hsub) hbb
      (pin_types hrP hbb).1 h)
    (fill_dots hord hP.toWF hsub.toWF hfull hrP.1 hrsub.1 hinst hbb hdots h)

/-! ### necessity of the two side conditions -/

theorem nodeViolates_of_unregistered {c : Circuit} {g : Name} (hg : c.has g = true) (hd : hasDot g = true)
    (hl : c.bbs.lookup (dotPrefix g) = none) : C20.NodeViolates c {} g := by
  obtain ⟨a, ha⟩ := Limit.attr_of_has hg
  unfold C20.NodeViolates
  rw [ha]
  obtain ⟨ty, o⟩ := a
  cases ty with
  | none => trivial
  | some t => exact Or.inr (Or.inl ⟨hd, hl⟩)

theorem fill_conditions_of_lint (P sub P' : Circuit) (inst : Name) (ord ord' : Ord) (hord : C20.OrdOK ord)
    (hord' : C20.OrdOK ord') (hP : WF P) (hsub : WF sub)
    (hfull : ∀ p ∈ sub.nodes, p.2.ty.isSome = true ∧ p.2.out.isSome = true)
    (h : P.fillBlackbox inst sub ord = (P', .ok)) (hok : lint P' {} ord' = Outcome.ok) :
    DotsArePinsOf P inst ∧ PinsNotShared P inst := by
  have hnv : ¬ C20.Violates P' {} := fun hv => by
    have := (C20.lint_iff P' {} ord' hord').mpr hv
    rw [hok] at this
    cases this
  constructor
  · intro bb hbb g hg hd hpre
    have F := fill_facts hord hP hsub hfull hbb h
    obtain ⟨_, _, _, _, hP'⟩ := fill_unfold hbb h
    apply Classical.byContradiction
    intro hno
    have hnp : ∀ p ∈ bb.outs ++ bb.ins, g ≠ inst ++ "." ++ p := fun p hp e => hno ⟨p, hp, e⟩
    have hg' : P'.has g = true := (F.has g).2 (Or.inl ⟨(has_iff_mem P g).2 hg, hnp⟩)
    have hl : P'.bbs.lookup (dotPrefix g) = none := by
      apply Classical.byContradiction
      intro hne
      have hne : P'.bbs.lookup (dotPrefix g) ≠ none := hne
      rw [lookup_ne_none_keys, hP', fillRes_keys, hpre] at hne
      rcases hne with ⟨_, hne⟩ | ⟨p, _, e⟩
      · exact hne rfl
      · exact pref_ne_self inst p.1 e
    exact hnv (Or.inl ⟨g, (has_iff_mem P' g).1 hg', nodeViolates_of_unregistered hg' hd hl⟩)
  · intro bb hbb q hq hne g hg p hp e
    have F := fill_facts hord hP hsub hfull hbb h
    obtain ⟨k1, _, _, _, hP'⟩ := fill_unfold hbb h
    have hbbclash : ∀ p ∈ sub.bbs, P.bbs.lookup (pref inst p.1) = none := by
      intro p hp
      rw [List.any_eq_false] at k1
      have := k1 p hp
      cases hl : P.bbs.lookup (pref inst p.1) with
      | none => rfl
      | some b => rw [hl] at this; simp at this
    have hq' : q ∈ P'.bbs := by rw [hP']; exact fillRes_keep P inst bb sub ord q hq hne hbbclash
    have hpv : ¬ C20.PinViolates P' q := fun hv => hnv (Or.inr ⟨q, hq', hv⟩)
    -- the shared pin node would have to exist in the result
    have hhas : P'.has (q.1 ++ "." ++ g) = true := by
      rw [has_eq_isSome]
      rcases List.mem_append.1 hg with hg | hg
      · have : (P'.attr? (q.1 ++ "." ++ g)).bind (·.ty) = some "bb_input" :=
          Classical.byContradiction fun hc => hpv (Or.inl ⟨g, hg, hc⟩)
        cases ha : P'.attr? (q.1 ++ "." ++ g) with
        | none => rw [ha] at this; cases this
        | some a => rfl
      · have : (P'.attr? (q.1 ++ "." ++ g)).bind (·.ty) = some "bb_output" :=
          Classical.byContradiction fun hc => hpv (Or.inr ⟨g, hg, hc⟩)
        cases ha : P'.attr? (q.1 ++ "." ++ g) with
        | none => rw [ha] at this; cases this
        | some a => rfl
    rw [e] at hhas
    have hp' : p ∈ bb.outs ++ bb.ins := by
      rcases List.mem_append.1 hp with hp | hp
      · exact List.mem_append.2 (Or.inr hp)
      · exact List.mem_append.2 (Or.inl hp)
    rcases (F.has _).1 hhas with ⟨_, hnp⟩ | ⟨m, _, e'⟩
    · exact hnp p hp' rfl
    · exact pin_ne_pref inst p m e'

/-- for lint-clean arguments and a successful call, the result passes lint **iff** the two side conditions hold -/
theorem fill_passes_lint_iff (P sub P' : Circuit) (inst : Name) (ord ord' : Ord) (hord : C20.OrdOK ord)
    (hord' : C20.OrdOK ord') (hP : LintClean P) (hrP : C20.RegistryOK P) (hsub : LintClean sub)
    (hrsub : C20.RegistryOK sub) (hinst : hasDot inst = false)
    (hfull : ∀ p ∈ sub.nodes, p.2.ty.isSome = true ∧ p.2.out.isSome = true)
    (hpins : ∀ n ∈ sub.outputs, sub.ty? n ≠ some "bb_input" ∧ sub.ty? n ≠ some "bb_output")
    (h : P.fillBlackbox inst sub ord = (P', .ok)) :
    lint P' {} ord' = Outcome.ok ↔ DotsArePinsOf P inst ∧ PinsNotShared P inst :=
  ⟨fill_conditions_of_lint P sub P' inst ord ord' hord hord' hP.toWF hsub.toWF hfull h,
    fun hh => fill_passes_lint P sub P' inst ord ord' hord hord' hP hrP hsub hrsub hinst hfull hpins hh.1 hh.2 h⟩

end LintProdE
end CG
