/- helper lemmas for C11: from a successful `sensitivity_transform` to the kind view of its result -/
import CG.Proofs.SensView2
set_option linter.unusedSimpArgs false
set_option linter.unusedVariables false
namespace CG
namespace Sens
open Circuit Miter Q Query Arith Logic

theorem clog2_le_of_lt {w m k : Nat} (hk : clog2 (w + 1) = .ok k) (hlt : w < 2 ^ m) : k ≤ m := by
  obtain ⟨k', hk', _, h2⟩ := Arith.clog2_spec' (w + 1) (by omega)
  rw [hk] at hk'
  injection hk' with hk'
  subst hk'
  rcases h2 with h2 | h2
  · omega
  · apply Classical.byContradiction
    intro hc
    have : 2 ^ m ≤ 2 ^ (k - 1) := Nat.pow_le_pow_right (by decide) (by omega)
    omega

/-- everything the proofs need to know about a successful `sensitivity_transform` -/
structure SenSetup (c : Circuit) (n : Name) (ord : Ord) (sp0 tfi : List Name) (sen : Circuit) (pcC : Circuit)
    (m k : Nat) : Prop where
  pop : PopSpec (ord sp0).length pcC m
  pcAcyc : Acyclic pcC
  pcnox : ∀ p ∈ pcC.nodes, p.2.ty ≠ some "x"
  hk : clog2 ((ord sp0).length + 1) = .ok k
  hkm : k ≤ m
  hlen : (ord sp0).length < 2 ^ m
  pos : 1 ≤ (ord sp0).length
  hyp : SenHyp (Tx.inducedSub c (n :: tfi)) pcC (ord sp0) n k
  phases : Phases (Tx.inducedSub c (n :: tfi)) pcC (ord sp0) n k sen

theorem sen_setup {c sen : Circuit} {n : Name} {ord : Ord} (hord : OrdOK ord) (hc : LintClean c) (hb : c.bbs = [])
    (hn : c.has n = true) (h : Tx.sensitivityTransform c n ord = .ok sen)
    {sp0 tfi : List Name} (hsp : startpoints c [n] = .ok sp0) (htfi : transitiveFanin c [n] = .ok tfi) :
    ∃ pcC m k, SenSetup c n ord sp0 tfi sen pcC m k := by
  obtain ⟨sp0', tfi', pcC, k, s0, s1, s2, s3, hsp', hpos, htfi', h0, h1, hpc, h2, h3, hk, h4⟩ :=
    sensitivity_steps hb h
  rw [hsp] at hsp'
  injection hsp' with hsp'
  subst hsp'
  rw [htfi] at htfi'
  injection htfi' with htfi'
  subst htfi'
  have hwf := hc.toWF
  have hcl : ∀ u y, y ∈ n :: tfi → (u, y) ∈ c.edges → u ∈ n :: tfi :=
    fun u y hy he => keep_closed hwf hn htfi hy he
  have lcone : LintClean (Tx.inducedSub c (n :: tfi)) := sub_lint hc hcl
  obtain ⟨pcC', m, hpc', S, hac, hlt, hnx⟩ := popcount_good (ord sp0).length hpos
  rw [hpc] at hpc'
  injection hpc' with hpc'
  subst hpc'
  have hkm := clog2_le_of_lt hk hlt
  have spnd : (ord sp0).Nodup := ord_nodup hord (sp_nodup hc hn hsp)
  have hspmem : ∀ s ∈ ord sp0, s ∈ n :: tfi ∧ s ∈ c.startpointsAll := by
    intro s hs
    exact (mem_sp_iff hc hn htfi hsp s).1 ((ord_mem hord sp0 s).1 hs)
  have hsphas : ∀ s ∈ ord sp0, (Tx.inducedSub c (n :: tfi)).has s = true := by
    intro s hs
    obtain ⟨a, b⟩ := hspmem s hs
    rw [sub_has]
    refine ⟨?_, a⟩
    rcases (mem_startpointsAll c hwf.nodup s).1 b with h' | h' <;> exact has_of_ty? h'
  obtain ⟨n0, _, _, w0⟩ := sub_exact wf_empty lcone.toWF h0
  have spin : ∀ s ∈ ord sp0, s ∈ (Tx.inducedSub c (n :: tfi)).inputs := by
    intro s hs
    obtain ⟨a, b⟩ := hspmem s hs
    rw [CG.mem_inputs lcone.nodup, sub_ty a]
    rcases (mem_startpointsAll c hwf.nodup s).1 b with h' | h'
    · exact h'
    · exfalso
      obtain ⟨at', hat⟩ := has_exists (hsphas s hs)
      have hty : at'.ty = some "bb_output" := by
        have := ty?_of_mem lcone.nodup hat (t := "bb_output")
        have h2 : (Tx.inducedSub c (n :: tfi)).ty? s = some "bb_output" := by rw [sub_ty a]; exact h'
        rw [ty?, attr?_of_mem lcone.nodup hat] at h2
        exact h2
      obtain ⟨ci, ci', w, hsub, hadd⟩ := foldAdd_each tieA plain_tieA (ord sp0) s0 s1 w0 h1 s hs
      have hm : (pref "orig" s, stripA at') ∈ s0.nodes := by
        rw [n0]
        exact List.mem_append.2 (Or.inr (List.mem_map.2 ⟨(s, at'), hat, rfl⟩))
      exact tieA_target_ty w hadd (hsub _ hm) (stripA_ty_of_ne hty (by decide))
  refine ⟨pcC, m, k, ⟨S, hac, hnx, hk, hkm, hlt, hpos, ⟨lcone, S.lint, spnd, spin, ?_, ?_, ?_, ?_, ?_⟩, ?_⟩⟩
  · intro s hs
    have hty := (CG.mem_inputs lcone.nodup s).1 hs
    have hk' := ((sub_has s).1 (has_of_ty? hty)).2
    rw [sub_ty hk'] at hty
    rw [ord_mem hord, mem_sp_iff hc hn htfi hsp]
    exact ⟨hk', (mem_startpointsAll c hwf.nodup s).2 (Or.inl hty)⟩
  · intro y hty
    have hk' := ((sub_has y).1 (has_of_ty? hty)).2
    have hty' := hty
    rw [sub_ty hk'] at hty'
    have hy0 : y ∈ sp0 := (mem_sp_iff hc hn htfi hsp y).2
      ⟨hk', (mem_startpointsAll c hwf.nodup y).2 (Or.inr hty')⟩
    have := (CG.mem_inputs lcone.nodup y).1 (spin y ((ord_mem hord sp0 y).2 hy0))
    rw [hty] at this
    injection this with this
    exact absurd this (by decide)
  · rw [sub_has]; exact ⟨hn, by simp⟩
  · intro i hi
    exact (S.inputs _).2 ⟨i, hi, rfl⟩
  · intro o ho
    apply mem_outputs_has
    rw [S.outputs]
    exact List.mem_map.2 ⟨o, List.mem_range.2 (by omega), rfl⟩
  · exact phases_of lcone.toWF S.lint.toWF hsphas h0 h1 h2 h3 h4

end Sens
end CG
