/- C20 (second half, sequential_unroll): the circuit handed to `unroll` (stripped, exposed non-data pins and unloaded
   inputs removed) is lint-clean and dot-free -/
import CG.Proofs.LintProdG1
import CG.Proofs.UnrollSeqSemSetup
import CG.Proofs.LintProdD1
set_option linter.unusedSimpArgs false
set_option linter.unusedVariables false
namespace CG
namespace LintProdG
open Circuit Unroll USS Strip

/-- the flops' output pins other than the data output drive nothing (a loaded one: finding K41) -/
def ExtraOutsUnloaded (c : Circuit) (bb : BBox) (q : Name) : Prop :=
  ∀ u ∈ c.bbs, ∀ g ∈ bb.outs, g ≠ q → c.fanout (u.1 ++ "." ++ g) = []

/-- every pin-typed node belongs to an instance (field `pinsOwned` of `C09.SeqGood`) -/
def PinsOwned (c : Circuit) (bb : BBox) : Prop :=
  ∀ x, (c.ty? x = some "bb_input" ∨ c.ty? x = some "bb_output") →
    ∃ u ∈ c.bbs, ∃ g ∈ bb.ins ++ bb.outs, x = u.1 ++ "." ++ g

/-- refined membership in the removed names: an input pin, or an output pin other than the data output -/
theorem mem_R12' {c : Circuit} {bb : BBox} {d q x : Name} {ig : List Name} (h : x ∈ R12 c bb d q ig) :
    ∃ u ∈ c.bbs, ∃ g, (g ∈ bb.ins ∨ (g ∈ bb.outs ∧ g ≠ q)) ∧ g ∉ ig ∧ x = u.1 ++ "_" ++ g := by
  unfold R12 R1 R2 insts at h
  rcases List.mem_append.1 h with h | h
  · obtain ⟨p, hp, hx⟩ := List.mem_flatMap.1 h
    obtain ⟨b, hb, e⟩ := List.mem_map.1 hx
    obtain ⟨u, hu, rfl⟩ := List.mem_map.1 hb
    exact ⟨u, hu, p, Or.inl (List.mem_filter.1 hp).1, not_ig_of_filter (List.mem_filter.1 hp).2, e.symm⟩
  · obtain ⟨p, hp, hx⟩ := List.mem_flatMap.1 h
    obtain ⟨b, hb, e⟩ := List.mem_map.1 hx
    obtain ⟨u, hu, rfl⟩ := List.mem_map.1 hb
    have hf := (List.mem_filter.1 hp).2
    have hne : p ≠ q := by
      intro e'
      subst e'
      simp at hf
    exact ⟨u, hu, p, Or.inr ⟨(List.mem_filter.1 hp).1, hne⟩, not_ig_of_filter hf, e.symm⟩

section
variable {c cs0 : Circuit} {bb : BBox} {d q : Name} {ig : List Name}

/-- a pin of `c` that drives nothing is exposed (if at all) as a node that drives nothing -/
theorem strip_fanout_nil (hc : LintClean c) (S : StripView c ig cs0) {n : Name} (hk : kept c ig n = true)
    (hfo : c.fanout n = []) : cs0.fanout (sname c ig n) = [] := by
  have hhas := has_of_isPin (kept_isPin hk)
  have hd := kept_not_dropped hk
  apply eq_nil_of_forall_not_mem
  intro y hy
  obtain ⟨a, b, hab, da, db, e⟩ := (S.edges _).1 (mem_fanout.1 hy)
  injection e with e1 e2
  have : n = a := S.inj n a hhas (hc.closed _ hab).1 hd da e1
  subst this
  have : b ∈ c.fanout n := mem_fanout.2 hab
  rw [hfo] at this
  cases this

/-- the names removed after stripping drive nothing in the stripped circuit -/
theorem R12_unloaded (G : SeqGood' c bb d q) (K : NoClash c bb ig) (S : StripView c ig cs0)
    (hx : ExtraOutsUnloaded c bb q) : ∀ x ∈ R12 c bb d q ig, cs0.fanout x = [] := by
  intro x hxm
  cases hhas : cs0.has x with
  | false => exact fanout_nil_of_not_has (USS.strip_wf G.clean.toWF S) hhas
  | true =>
    obtain ⟨u, hu, g, hg, hgi, rfl⟩ := mem_R12' hxm
    have hg' : g ∈ bb.ins ++ bb.outs := by
      rcases hg with h | h
      · exact List.mem_append.2 (Or.inl h)
      · exact List.mem_append.2 (Or.inr h.1)
    obtain ⟨hk, hsn⟩ := key_name G K S hu hg' hgi hhas
    rw [← hsn]
    apply strip_fanout_nil G.clean S hk
    rcases hg with h | ⟨h, hne⟩
    · have hty := (G.pinsPresent u hu).1 g h
      apply eq_nil_of_forall_not_mem
      intro y hy
      exact G.clean.noBBInFanout (u.1 ++ "." ++ g, y) (mem_fanout.1 hy) hty
    · exact hx u hu g h hne

/-- the unloaded inputs removed on request drive nothing -/
theorem R3_unloaded (c2 : Circuit) (l : List Name) (ru : Bool) : ∀ x ∈ R3 c2 l q ru, c2.fanout x = [] := by
  intro x hx
  unfold R3 at hx
  cases ru with
  | false => cases hx
  | true =>
    simp only [if_true, List.mem_filter, Bool.and_eq_true, List.isEmpty_iff] at hx
    exact hx.2.1.1

/-- **the circuit handed to `unroll` is lint-clean and dot-free** -/
theorem prune_clean (G : SeqGood' c bb d q) (K : NoClash c bb ig) (S : StripView c ig cs0)
    (hx : ExtraOutsUnloaded c bb q) (hcl : LintClean cs0) (hnd : LintLink.NoDots cs0) (ru : Bool) :
    LintClean (prune cs0 bb (insts c) d q ig ru) ∧ LintLink.NoDots (prune cs0 bb (insts c) d q ig ru) := by
  rw [prune_eq]
  have h1 : LintClean (cs0.remove (R12 c bb d q ig)) := remove_lintClean hcl _ (R12_unloaded G K S hx)
  exact ⟨remove_lintClean h1 _ (R3_unloaded _ _ ru), (hnd.remove _).remove _⟩

/-- the ignored output pins drive nothing: a non-data one by hypothesis, and the data output is not dropped when the
    call succeeds -/
theorem droppedOuts (G : SeqGood' c bb d q) (hown : PinsOwned c bb) (hx : ExtraOutsUnloaded c bb q)
    (hq : ∀ u ∈ c.bbs, dropped c ig (u.1 ++ "." ++ q) = false) : LintProdD.DroppedOutsUnloaded c ig := by
  intro n hty hign
  obtain ⟨u, hu, g, hg, rfl⟩ := hown n (Or.inr hty)
  rcases List.mem_append.1 hg with h | h
  · rw [(G.pinsPresent u hu).1 g h] at hty
    exact absurd hty (by decide)
  · by_cases hgq : g = q
    · subst hgq
      have := hq u hu
      unfold dropped at this
      rw [(isPin_iff c _).2 (Or.inr hty), hign] at this
      cases this
    · exact hx u hu g h hgq

end
end LintProdG
end CG
