/- C20 (second half, strip_blackboxes): the result passes lint exactly when every dotted node of the argument is a pin
   and the ignored output pins drive nothing -/
import CG.Proofs.LintProdD1
import CG.Props.C20
set_option linter.unusedSimpArgs false
set_option linter.unusedVariables false
namespace CG
namespace LintProdD
open Circuit Strip

theorem strip_wf {c c' : Circuit} {ig : List Name} (hc : WF c) (S : StripView c ig c') : WF c' := by
  refine ⟨S.nodup, S.edgesNodup, ?_⟩
  intro e he
  obtain ⟨a, b, hab, da, db, rfl⟩ := (S.edges e).1 he
  exact ⟨(S.has _).2 ⟨a, (hc.closed _ hab).1, da, rfl⟩, (S.has _).2 ⟨b, (hc.closed _ hab).2, db, rfl⟩⟩

/-- sufficiency -/
theorem strip_passes_lint (c c' : Circuit) (ignore : List Name) (ord ord' : Ord) (hord : OrdOK ord)
    (hord' : OrdOK ord') (hc : LintClean c) (hdots : DotsArePins c) (hdrop : DroppedOutsUnloaded c ignore)
    (h : Tx.stripBlackboxes c ignore ord = .ok c') : lint c' {} ord' = Outcome.ok := by
  obtain ⟨hb, S⟩ := strip_ok (ig := ignore) hord hc.toWF h
  exact C20.lint_accepts c' ord' hord' (strip_lintClean hc S hdrop)
    (C20.registryOK_of_noDots (strip_noDots S hb hdots))

/-- necessity -/
theorem strip_conditions_of_lint (c c' : Circuit) (ignore : List Name) (ord ord' : Ord) (hord : OrdOK ord)
    (hord' : OrdOK ord') (hc : LintClean c) (h : Tx.stripBlackboxes c ignore ord = .ok c')
    (hok : lint c' {} ord' = Outcome.ok) : DotsArePins c ∧ DroppedOutsUnloaded c ignore := by
  obtain ⟨hb, S⟩ := strip_ok (ig := ignore) hord hc.toWF h
  obtain ⟨hcl, hreg⟩ := C20.lintClean_of_lint_ok c' ord' hord' (strip_wf hc.toWF S)
    (fun e _ => (no_pin_types S e.1).1) hok
  apply strip_conditions_of_clean hc S hcl
  intro g hg
  cases hd : hasDot g with
  | false => rfl
  | true =>
    have := hreg.1 g ((has_iff_mem c' g).1 hg) hd
    rw [hb] at this
    exact absurd rfl this

end LintProdD
end CG
