/- C03 helper: the gate fold of `toWModule` -/
import CG.Proofs.VRoundWriteC
namespace CG
namespace VR
open Verilog Circuit

/-! ### wires, either form -/

def isWire (c2 : Circuit) (n : Name) : Bool :=
  match c2.ty? n with
  | some t => gateTypes.contains t || (t == "0" || t == "1" || t == "x")
  | none => false

theorem gateStep_wires (ord : Ord) (beh : Bool) (c2 : Circuit) (st st' : List Item × List Name × List Bool) (n : Name)
    (h : gateStep ord beh c2 st n = .ok st') :
    st'.2.1 = st.2.1 ++ (if isWire c2 n then [n] else []) := by
  unfold gateStep at h
  unfold isWire
  cases hty : c2.ty? n with
  | none => rw [hty] at h; simp at h
  | some t =>
    rw [hty] at h
    simp only at h ⊢
    by_cases hg : gateTypes.contains t = true
    · rw [if_pos hg] at h
      simp only [hg, Bool.true_or, if_true]
      repeat' split at h
      all_goals first
        | (injection h with h; rw [← h])
        | (exact absurd h (by simp))
    · rw [if_neg hg] at h
      simp only [hg, Bool.false_or]
      repeat' split at h
      all_goals first
        | (injection h with h; rw [← h]; simp [*])
        | (exact absurd h (by simp))

theorem gateFold_wires (ord : Ord) (beh : Bool) (c2 : Circuit) :
    ∀ (l : List Name) (st st' : List Item × List Name × List Bool),
    l.foldlM (gateStep ord beh c2) st = .ok st' → st'.2.1 = st.2.1 ++ l.filter (isWire c2)
  | [], st, st', h => by
    rw [List.foldlM_nil] at h
    injection h with h
    simp [h]
  | n :: l, st, st', h => by
    rw [List.foldlM_cons] at h
    cases h1 : gateStep ord beh c2 st n with
    | error e => rw [h1] at h; exact absurd h (by intro h; cases h)
    | ok st1 =>
      rw [h1, Arith.bind_ok] at h
      rw [gateFold_wires ord beh c2 l st1 st' h, gateStep_wires ord beh c2 st st1 n h1, List.filter_cons]
      split <;> simp

theorem isWire_iff {c c2 : Circuit} (hn : c2.nodes = c.nodes) (x : Name) :
    isWire c2 x = true ↔ ∃ t, c.ty? x = some t ∧ t ∈ gateTypes ++ ["0", "1", "x"] := by
  unfold isWire
  rw [ty?_congr hn]
  cases c.ty? x with
  | none => simp
  | some t =>
    simp only [Option.some.injEq, exists_eq_left', List.mem_append, List.contains_iff_mem, Bool.or_eq_true,
      beq_iff_eq, List.mem_cons, List.not_mem_nil, or_false, or_assoc]

/-! ### statements, gate-primitive form -/

def needsB (c2 : Circuit) (n : Name) : Bool :=
  match c2.ty? n with
  | some t => (gateTypes.contains t && !(c2.fanin n).isEmpty) || constTys.contains t
  | none => false

theorem ord_isEmpty {ord : Ord} (hord : OrdOK ord) (l : List Name) : (ord l).isEmpty = l.isEmpty := by
  have := (hord l).length_eq
  cases h1 : ord l with
  | nil =>
    rw [h1] at this
    rw [List.eq_nil_of_length_eq_zero this.symm]
  | cons a r =>
    rw [h1] at this
    cases l with
    | nil => simp at this
    | cons _ _ => rfl

/-- result of one step: either one more statement, for a node that needs one, or none -/
def StepRes (c c2 : Circuit) (st st' : List Item × List Name × List Bool) (n : Name) : Prop :=
  (needsB c2 n = true ∧ ∃ it, st'.1 = st.1 ++ [it] ∧ GSpec c n it) ∨ (needsB c2 n = false ∧ st'.1 = st.1)

theorem gateStep_gate {c c2 : Circuit} {ord : Ord} (hord : OrdOK ord)
    (h2 : CInv c (fun x => c.ty? x = some "bb_output") c2) (st : List Item × List Name × List Bool) (n : Name)
    (t : String) (hty : c.ty? n = some t) (hg : gateTypes.contains t = true) :
    ∃ st', gateStep ord false c2 st n = .ok st' ∧ StepRes c c2 st st' n := by
  have hty2 : c2.ty? n = some t := by rw [ty?_congr h2.nodes]; exact hty
  have hc1 : constTys.contains t = false := by
    have : t ∈ gateTypes := by simpa using hg
    simp only [gateTypes, List.mem_cons, List.not_mem_nil, or_false] at this
    rcases this with rfl | rfl | rfl | rfl | rfl | rfl | rfl | rfl <;> decide
  unfold gateStep StepRes needsB
  rw [hty2]
  simp only [hg, if_true, Bool.true_and, hc1, Bool.or_false, ord_isEmpty hord]
  cases he : (c2.fanin n).isEmpty with
  | true => exact ⟨_, rfl, Or.inr ⟨rfl, rfl⟩⟩
  | false =>
    simp only [Bool.false_eq_true, if_false]
    have hu := Limit.uid_isSome c2 ("g_" ++ toString st.1.length) []
    cases hg' : c2.uid ("g_" ++ toString st.1.length) with
    | none => rw [hg'] at hu; simp at hu
    | some g =>
      refine ⟨_, rfl, Or.inl ⟨rfl, _, rfl, t, hty, Or.inl ⟨by simpa using hg, g, ord (c2.fanin n), rfl, ?_, ?_, ?_⟩⟩⟩
      · exact (hord _).nodup_iff.2 (fanin_nodup h2.nodup n)
      · intro h
        rw [← ord_isEmpty hord, h] at he
        simp at he
      · intro u
        rw [(hord _).mem_iff, mem_fanin, h2.edges]

theorem gateStep_const {c c2 : Circuit} {ord : Ord}
    (h2 : CInv c (fun x => c.ty? x = some "bb_output") c2) (st : List Item × List Name × List Bool) (n : Name)
    (t : String) (hty : c.ty? n = some t) (hg : gateTypes.contains t = false)
    (hk : (t == "0" || t == "1" || t == "x") = true) :
    ∃ st', gateStep ord false c2 st n = .ok st' ∧ StepRes c c2 st st' n := by
  have hty2 : c2.ty? n = some t := by rw [ty?_congr h2.nodes]; exact hty
  have hc1 : t ∈ constTys := by
    simpa [constTys, or_assoc] using hk
  have hc2 : constTys.contains t = true := by simpa using hc1
  unfold gateStep StepRes needsB
  rw [hty2]
  simp only [hg, hk, if_true, Bool.false_eq_true, if_false, Bool.false_and, Bool.false_or, hc2]
  exact ⟨_, rfl, Or.inl ⟨trivial, _, rfl, t, hty, Or.inr ⟨hc1, rfl⟩⟩⟩

theorem gateStep_skip {c c2 : Circuit} {ord : Ord}
    (h2 : CInv c (fun x => c.ty? x = some "bb_output") c2) (st : List Item × List Name × List Bool) (n : Name)
    (t : String) (hty : c.ty? n = some t) (hg : gateTypes.contains t = false)
    (hk : (t == "0" || t == "1" || t == "x") = false)
    (hi : (t == "input" || t == "bb_input" || t == "bb_output") = true) :
    ∃ st', gateStep ord false c2 st n = .ok st' ∧ StepRes c c2 st st' n := by
  have hty2 : c2.ty? n = some t := by rw [ty?_congr h2.nodes]; exact hty
  have hc2 : constTys.contains t = false := by
    cases hcc : constTys.contains t with
    | false => rfl
    | true =>
      have : t ∈ constTys := by simpa using hcc
      simp only [constTys, List.mem_cons, List.not_mem_nil, or_false] at this
      rcases this with rfl | rfl | rfl <;> exact absurd hk (by decide)
  unfold gateStep StepRes needsB
  rw [hty2]
  simp only [hg, hk, hi, if_true, Bool.false_eq_true, if_false, Bool.false_and, Bool.false_or, hc2]
  exact ⟨_, rfl, Or.inr ⟨trivial, rfl⟩⟩

theorem gateStep_ok {c c2 : Circuit} {ord : Ord} (hord : OrdOK ord)
    (h2 : CInv c (fun x => c.ty? x = some "bb_output") c2) (st : List Item × List Name × List Bool) (n : Name)
    (t : String) (hty : c.ty? n = some t) (hsup : t ∈ Expected.supported_types) :
    ∃ st', gateStep ord false c2 st n = .ok st' ∧ StepRes c c2 st st' n := by
  simp only [Expected.supported_types, Expected.addable_types, Expected.primitive_gates, List.mem_append,
    List.mem_cons, List.not_mem_nil, or_false] at hsup
  rcases hsup with ((rfl | rfl | rfl | rfl | rfl | rfl | rfl | rfl) | (rfl | rfl | rfl | rfl)) | (rfl | rfl)
  · exact gateStep_gate hord h2 st n _ hty (by decide)
  · exact gateStep_gate hord h2 st n _ hty (by decide)
  · exact gateStep_gate hord h2 st n _ hty (by decide)
  · exact gateStep_gate hord h2 st n _ hty (by decide)
  · exact gateStep_gate hord h2 st n _ hty (by decide)
  · exact gateStep_gate hord h2 st n _ hty (by decide)
  · exact gateStep_gate hord h2 st n _ hty (by decide)
  · exact gateStep_gate hord h2 st n _ hty (by decide)
  · exact gateStep_const h2 st n _ hty (by decide) (by decide)
  · exact gateStep_const h2 st n _ hty (by decide) (by decide)
  · exact gateStep_const h2 st n _ hty (by decide) (by decide)
  · exact gateStep_skip h2 st n _ hty (by decide) (by decide) (by decide)
  · exact gateStep_skip h2 st n _ hty (by decide) (by decide) (by decide)
  · exact gateStep_skip h2 st n _ hty (by decide) (by decide) (by decide)

theorem gateFold_ok {c c2 : Circuit} {ord : Ord} (hord : OrdOK ord)
    (h2 : CInv c (fun x => c.ty? x = some "bb_output") c2) :
    ∀ (l : List Name) (st : List Item × List Name × List Bool),
    (∀ n ∈ l, ∃ t, c.ty? n = some t ∧ t ∈ Expected.supported_types) →
    ∃ st' gi, l.foldlM (gateStep ord false c2) st = .ok st' ∧ st'.1 = st.1 ++ gi ∧
      All2 (GSpec c) (l.filter (needsB c2)) gi
  | [], st, _ => ⟨st, [], rfl, by simp, All2.nil⟩
  | n :: l, st, h => by
    obtain ⟨t, hty, hsup⟩ := h n (by simp)
    obtain ⟨st1, h1, hres⟩ := gateStep_ok hord h2 st n t hty hsup
    obtain ⟨st', gi, hf, hst, hall⟩ := gateFold_ok hord h2 l st1 (fun m hm => h m (by simp [hm]))
    rw [List.foldlM_cons, h1, Arith.bind_ok, hf, List.filter_cons]
    rcases hres with ⟨hn, it, hit, hspec⟩ | ⟨hn, hit⟩
    · rw [hn, if_pos rfl]
      exact ⟨st', it :: gi, rfl, by rw [hst, hit]; simp, All2.cons hspec hall⟩
    · rw [hn]
      exact ⟨st', gi, rfl, by rw [hst, hit], hall⟩

theorem needsB_iff {c c2 : Circuit} (h2 : CInv c (fun x => c.ty? x = some "bb_output") c2) (n : Name) :
    needsB c2 n = true ↔ NeedsStmt c n := by
  unfold needsB NeedsStmt
  rw [ty?_congr h2.nodes]
  have hfan : (c2.fanin n).isEmpty = false ↔ ∃ u, (u, n) ∈ c.edges ∧ c.ty? u ≠ some "bb_output" := by
    constructor
    · intro h
      cases hf : c2.fanin n with
      | nil => rw [hf] at h; simp at h
      | cons u r =>
        have : u ∈ c2.fanin n := by rw [hf]; simp
        exact ⟨u, (h2.edges _).1 (mem_fanin.1 this)⟩
    · rintro ⟨u, hu⟩
      have : u ∈ c2.fanin n := mem_fanin.2 ((h2.edges _).2 hu)
      cases hf : c2.fanin n with
      | nil => rw [hf] at this; simp at this
      | cons _ _ => rfl
  cases c.ty? n with
  | none => simp
  | some t =>
    simp only [Option.some.injEq, exists_eq_left', Bool.or_eq_true, Bool.and_eq_true, List.contains_iff_mem,
      Bool.not_eq_true', hfan]

end VR
end CG
