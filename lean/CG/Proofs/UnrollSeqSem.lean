/-
  CG.Proofs.UnrollSeqSem — helper lemmas for the cycle-accurate semantics of sequential_unroll (C09); import hub.
   UnrollSeqSemRemove   `Circuit.remove` of unloaded nodes / free inputs with one buffer load: valuations transport
   UnrollSeqSemNames    string facts about exposed pin names
   UnrollSeqSemUnfold   unfolding of a successful call with the pruned circuit identified
   UnrollSeqSemAttr     the attribute folds after `unroll`
   UnrollSeqSemStrip    the stripped circuit: well-formed, every exposed pin removable
   UnrollSeqSemPrune    the removed names, names of the data pins
   UnrollSeqSemVal      transport of valuations sequential circuit <-> pruned circuit, surviving outputs
   UnrollSeqSemSetup    what a successful call establishes
   UnrollSeqSemMain     soundness and completeness
-/
import CG.Proofs.Unroll
import CG.Proofs.Strip
import CG.Proofs.UnrollSeqSemMain
