/- helper lemmas for C18 (acyclic_unroll): the statements of `CG/Props/C18.lean` in the vocabulary of the
   `AcycUnroll*` files -/
import CG.Tx3
import CG.Spec
import CG.Props.C01
import CG.Props.C06
import CG.Proofs.AcycUnrollSem
import CG.Proofs.AcycUnrollFas
set_option linter.unusedSimpArgs false
set_option linter.unusedVariables false
namespace CG
namespace AU
open Circuit Query

theorem c0name (f : Name) : pref (cn 0) (aux f) = "c0_aux_in_" ++ f := by
  rw [← auxName]
  rfl

theorem shape {c a : Circuit} {ord ordF : Ord} (hord : OrdOK ord) (hordF : OrdOK ordF) (hc : WF c)
    (h : Tx.acyclicUnroll c ord ordF = .ok a) :
    isCyclic a = false ∧ lint a {} ord = .ok ∧
    (∀ x, x ∈ a.outputs ↔ x ∈ c.outputs) ∧
    (∀ x, x ∈ a.inputs ↔ (x ∈ c.inputs ∨ ∃ f ∈ (Tx.approxMinFas c).map (·.1), x = "c0_aux_in_" ++ f)) := by
  obtain ⟨cCut, U⟩ := unroll_spec hord hordF hc h
  refine ⟨U.acyc, U.lint, ?_, ?_⟩
  · intro x
    rw [Q.mem_outputs a U.wf.nodup, U.out]
  · intro x
    rw [CG.mem_inputs U.wf.nodup, U.inp]
    apply or_congr Iff.rfl
    constructor
    · rintro ⟨f, hf, e⟩
      exact ⟨f, (U.Fmem f).1 hf, by rw [e, c0name]⟩
    · rintro ⟨f, hf, e⟩
      exact ⟨f, (U.Fmem f).2 hf, by rw [e, c0name]⟩

theorem preserved {c a : Circuit} {ord ordF : Ord} (hord : OrdOK ord) (hordF : OrdOK ordF) (hc : LintClean c)
    (hnox : ∀ p ∈ c.nodes, p.2.ty ≠ some "x")
    (h : Tx.acyclicUnroll c ord ordF = .ok a) (v : Val) (hv : Consistent c v)
    (w : Val) (hw : Consistent a w) (hin : ∀ i ∈ c.inputs, w i = v i)
    (haux : ∀ f ∈ (Tx.approxMinFas c).map (·.1), w ("c0_aux_in_" ++ f) = v f) :
    ∀ o ∈ c.outputs, w o = v o := by
  obtain ⟨cCut, U⟩ := unroll_spec hord hordF hc.toWF h
  apply outputs_stable hc hnox U hv hw hin
  intro f hf
  rw [c0name]
  exact haux f ((U.Fmem f).1 hf)

theorem realised' {c a : Circuit} {ord ordF : Ord} (hord : OrdOK ord) (hordF : OrdOK ordF) (hc : WF c)
    (h : Tx.acyclicUnroll c ord ordF = .ok a) (v : Val) :
    ∃ w, Consistent a w ∧ (∀ i ∈ c.inputs, w i = v i) ∧
      (∀ f ∈ (Tx.approxMinFas c).map (·.1), w ("c0_aux_in_" ++ f) = v f) := by
  obtain ⟨cCut, U⟩ := unroll_spec hord hordF hc h
  obtain ⟨w, h1, h2, h3⟩ := realised hc U v
  refine ⟨w, h1, h2, ?_⟩
  intro f hf
  rw [← c0name]
  exact h3 f ((U.Fmem f).2 hf)

end AU
end CG
