/- C14 helper: replay of one statement of the restricted subset by the full reader's transformer -/
import CG.Proofs.FastFullA
namespace CG
namespace FV
open Verilog FastVerilog Circuit Ternary

/-! ### evaluating operands -/

theorem evalExpr_op (st : TState) (o : ROp) : evalExpr st o.expr = .ok (st, o.nm "tie_0" "tie_1") := by
  cases o <;> rfl

theorem evalExprs_ops (st : TState) : ∀ ops : List ROp,
    evalExprs st (ops.map ROp.expr) = .ok (st, ops.map (ROp.nm "tie_0" "tie_1"))
  | [] => rfl
  | o :: ops => by
    rw [List.map_cons, evalExprs, evalExpr_op]
    show evalExprs st (ops.map ROp.expr) >>= _ = _
    rw [evalExprs_ops st ops]
    rfl

theorem plain_valid {n : Name} (h : Plain n) : (ROp.net n).Valid "tie_0" "tie_1" :=
  ⟨h.ne_ties.2.2.1, h.ne_ties.2.2.2.1⟩

theorem ops_valid {ops : List ROp} (h : ∀ n ∈ ops.flatMap ROp.nets, Plain n) : ∀ a ∈ ops, a.Valid "tie_0" "tie_1" := by
  intro a ha
  cases a with
  | net n => exact plain_valid (h n (List.mem_flatMap.2 ⟨_, ha, by simp [ROp.nets]⟩))
  | c0 => trivial
  | c1 => trivial

/-- the operand names a gate is connected to: constants or nets the gate reads (after parity cancellation) -/
theorem op_src {U : Name → Prop} {ops : List ROp} (hU : ∀ n, ROp.net n ∈ ops → U n) {a : ROp}
    (ha : a ∈ ops) :
    a.nm "tie_0" "tie_1" = "tie_0" ∨ a.nm "tie_0" "tie_1" = "tie_1" ∨ U (a.nm "tie_0" "tie_1") := by
  cases a with
  | net n => exact Or.inr (Or.inr (hU n ha))
  | c0 => exact Or.inl rfl
  | c1 => exact Or.inr (Or.inl rfl)

section
variable {Def : Name → String → Prop} {E : Name × Name → Prop} {B : Name × BBox → Prop} {U : Name → Prop}

/-! ### gate instances and assigns -/

theorem gate_step {bbs : List BBox} {ord : Ord} {st : TState} (d : Decls) (h : FI Def E B U st.c)
    (hg : st.gateExprs = []) (ty inst out : Name) (ops : List ROp) (hok : (RStmt.gate ty inst out ops).OK bbs)
    (hnew : ∀ t, ¬ Def out t) (hU : ∀ n, ROp.net n ∈ parityOps ty ops → U n) :
    ∃ st', doItem bbs ord (st, d) (RStmt.gate ty inst out ops).item = .ok (st', d) ∧ st'.gateExprs = [] ∧
      st'.c.name = st.c.name ∧
      FI (fun x t => Def x t ∨ (RStmt.gate ty inst out ops).dty bbs x t)
         (fun e => E e ∨ ∃ a b, (RStmt.gate ty inst out ops).edge bbs a b ∧ e = (a.nm "tie_0" "tie_1", b))
         (fun q => B q ∨ (RStmt.gate ty inst out ops).reg bbs q) U st'.c := by
  obtain ⟨hty, _, hout, hne, hlen, hpl⟩ := hok
  have hpar : Verilog.parityFanin ty (ops.map (ROp.nm "tie_0" "tie_1")) = (parityOps ty ops).map (ROp.nm "tie_0" "tie_1") := by
    rw [vparity_eq]; exact parity_map "tie_0" "tie_1" (by decide) ty ops (ops_valid hpl)
  obtain ⟨c', hadd, hname, hfi⟩ := fi_add h out ty ((parityOps ty ops).map (ROp.nm "tie_0" "tie_1")) hout hnew (Or.inl hty)
    (by
      intro hb
      have hl := hlen hb
      match ops, hl with
      | [a], _ => rw [parityOps_single]; simp)
    (by rintro rfl; exact absurd hty (by decide))
    (by
      intro u hu
      obtain ⟨a, ha, rfl⟩ := List.mem_map.1 hu
      exact op_src hU ha)
  refine ⟨{ st with c := c' }, ?_, hg, hname, ?_⟩
  · show (do let st ← [(inst, Conns.positional (Expr.id out :: ops.map ROp.expr))].foldlM (doInstance bbs ord ty) st; pure (st, d)) = _
    rw [VR.foldlM_single]
    unfold doInstance
    rw [if_pos (VR.primitive_of_gate hty)]
    show (evalExprs st (Expr.id out :: ops.map ROp.expr) >>= _) >>= _ = _
    rw [evalExprs, evalExpr]
    show ((evalExprs st (ops.map ROp.expr) >>= _) >>= _) >>= _ = _
    rw [evalExprs_ops]
    show (addNode st out ty (Verilog.parityFanin ty (ops.map (ROp.nm "tie_0" "tie_1"))) false >>= _) >>= _ = _
    rw [hpar, VR.addNode_ok hadd]
    rfl
  · refine hfi.congr (fun x t => Iff.rfl) ?_ ?_
    · intro e
      constructor
      · rintro (he | ⟨a, b, ⟨ha, rfl⟩, rfl⟩)
        · exact Or.inl he
        · exact Or.inr ⟨List.mem_map.2 ⟨a, ha, rfl⟩, rfl⟩
      · rintro (he | ⟨he1, he2⟩)
        · exact Or.inl he
        · obtain ⟨a, ha, e1⟩ := List.mem_map.1 he1
          exact Or.inr ⟨a, e.2, ⟨ha, he2⟩, by rw [e1]⟩
    · intro q
      simp [RStmt.reg]

theorem assign_step {bbs : List BBox} {ord : Ord} {st : TState} (d : Decls) (h : FI Def E B U st.c)
    (hg : st.gateExprs = []) (l : Name) (r : ROp) (hok : (RStmt.assign l r).OK bbs)
    (hnew : ∀ t, ¬ Def l t) (hU : ∀ n ∈ r.nets, U n) :
    ∃ st', doItem bbs ord (st, d) (RStmt.assign l r).item = .ok (st', d) ∧ st'.gateExprs = [] ∧
      st'.c.name = st.c.name ∧
      FI (fun x t => Def x t ∨ (RStmt.assign l r).dty bbs x t)
         (fun e => E e ∨ ∃ a b, (RStmt.assign l r).edge bbs a b ∧ e = (a.nm "tie_0" "tie_1", b))
         (fun q => B q ∨ (RStmt.assign l r).reg bbs q) U st'.c := by
  obtain ⟨hl, hpl⟩ := hok
  obtain ⟨c', hadd, hname, hfi⟩ := fi_add h l "buf" [r.nm "tie_0" "tie_1"] hl hnew (Or.inl buf_gate)
    (fun _ => by simp) (fun hc => absurd hc (by decide))
    (by
      intro u hu
      rw [List.mem_singleton] at hu; subst hu
      exact op_src (ops := [r]) (fun n hn => hU n (by rw [← List.mem_singleton.1 hn]; simp [ROp.nets])) (by simp))
  refine ⟨{ st with c := c' }, ?_, hg, hname, ?_⟩
  · show (do let st ← [(l, r.expr)].foldlM doAssign st; pure (st, d)) = _
    rw [VR.foldlM_single]
    unfold doAssign
    rw [evalExpr_op]
    show (if (l == "tie_0" || l == "tie_1" || l == "tie_x") = true then _ else _) >>= _ = _
    have h1 : (l == "tie_0" || l == "tie_1" || l == "tie_x") = false := by
      obtain ⟨_, _, h3, h4, h5⟩ := hl.ne_ties
      simp [h3, h4, h5]
    rw [h1]
    simp only [Bool.false_eq_true, if_false]
    have h2 : st.gateExprs.contains (r.nm "tie_0" "tie_1") = false := by rw [hg]; rfl
    rw [h2]
    simp only [Bool.false_eq_true, if_false]
    rw [VR.addNode_ok hadd]
    rfl
  · refine hfi.congr (fun x t => Iff.rfl) ?_ ?_
    · intro e
      constructor
      · rintro (he | ⟨a, b, ⟨rfl, rfl⟩, rfl⟩)
        · exact Or.inl he
        · exact Or.inr ⟨by simp, rfl⟩
      · rintro (he | ⟨he1, he2⟩)
        · exact Or.inl he
        · rw [List.mem_singleton] at he1
          exact Or.inr ⟨r, e.2, ⟨rfl, he2⟩, by rw [← he1]⟩
    · intro q
      simp [RStmt.reg]

end

end FV
end CG
