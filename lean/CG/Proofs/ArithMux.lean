/- C13 helper: the multiplexer generator `mux`, by induction over its three construction loops -/
import CG.Proofs.ArithAdder
import CG.Proofs.ArithBits
set_option linter.unusedSimpArgs false
set_option linter.unusedVariables false
namespace CG
namespace Arith
open Logic Circuit Limit
open Tx (addC)

namespace Mux

/-! ### the shape of the circuit under construction

`a` inputs `in_i`, `s1` selects `sel_j`, `s2` inverters `not_sel_j`, `o` = the `or` gate `out` is present,
`g` product terms `and_m`. -/

def MTy (a s1 s2 : Nat) (o : Bool) (g : Nat) (x : Name) (t : String) : Prop :=
  (∃ i, i < a ∧ x = "in_" ++ toString i ∧ t = "input") ∨
  (∃ j, j < s1 ∧ x = "sel_" ++ toString j ∧ t = "input") ∨
  (∃ j, j < s2 ∧ x = "not_sel_" ++ toString j ∧ t = "not") ∨
  (o = true ∧ x = "out" ∧ t = "or") ∨
  (∃ m, m < g ∧ x = "and_" ++ toString m ∧ t = "and")

def MEdge (k s2 g : Nat) (u n : Name) : Prop :=
  (∃ j, j < s2 ∧ u = "sel_" ++ toString j ∧ n = "not_sel_" ++ toString j) ∨
  (∃ m, m < g ∧ u ∈ muxSel k m ++ ["in_" ++ toString m] ∧ n = "and_" ++ toString m) ∨
  (∃ m, m < g ∧ u = "and_" ++ toString m ∧ n = "out")

structure MuxSt (k a s1 s2 : Nat) (o : Bool) (g : Nat) (c : Circuit) : Prop where
  inv : Inv' c []
  ty : ∀ x t, c.ty? x = some t ↔ MTy a s1 s2 o g x t
  edges : ∀ u n, (u, n) ∈ c.edges ↔ MEdge k s2 g u n
  outputs : c.outputs = if o then ["out"] else []

theorem ex_lt_succ (n : Nat) (P : Nat → Prop) : (∃ i, i < n + 1 ∧ P i) ↔ (∃ i, i < n ∧ P i) ∨ P n := by
  constructor
  · rintro ⟨i, hi, h⟩
    by_cases e : i = n
    · subst e; exact Or.inr h
    · exact Or.inl ⟨i, by omega, h⟩
  · rintro (⟨i, hi, h⟩ | h)
    · exact ⟨i, by omega, h⟩
    · exact ⟨n, by omega, h⟩

theorem MTy_plain {a s1 s2 : Nat} {o : Bool} {g : Nat} {x : Name} {t : String} (h : MTy a s1 s2 o g x t) :
    t ≠ "bb_input" ∧ t ≠ "bb_output" := by
  rcases h with ⟨_, _, _, rfl⟩ | ⟨_, _, _, rfl⟩ | ⟨_, _, _, rfl⟩ | ⟨_, _, rfl⟩ | ⟨_, _, _, rfl⟩ <;> decide

theorem ty_add {c c' : Circuit} {n : Name} {ty : String} {out : Bool} {fi fo : List Name}
    (r : AddRes c c' n { ty := some ty, out := some out } fi fo) (hf : c.has n = false) (x : Name) (t : String) :
    c'.ty? x = some t ↔ c.ty? x = some t ∨ (x = n ∧ t = ty) := by
  constructor
  · intro h
    rcases ext_ty_cases r.nodes hf h with ⟨_, h1⟩ | ⟨h1, h2⟩
    · exact Or.inl h1
    · injection h2 with h2; exact Or.inr ⟨h1, h2.symm⟩
  · rintro (h | ⟨rfl, rfl⟩)
    · rw [ext_ty_old r.nodes (has_of_ty h)]; exact h
    · exact ext_ty_new r.nodes hf

/-- one `add` call, generically -/
theorem mux_add {k a s1 s2 : Nat} {o : Bool} {g : Nat} {c : Circuit} (h : MuxSt k a s1 s2 o g c)
    (n ty : String) (fi fo : List Name) (out : Bool) (a' s1' s2' : Nat) (o' : Bool) (g' : Nat)
    (hfresh : ∀ t, ¬ MTy a s1 s2 o g n t) (hok : NameOK n) (hty : ty ∈ genTypes)
    (hsrc : ty = "input" ∨ ty = "0" → fi = [])
    (hsingle : ty = "buf" ∨ ty = "not" → fi.length ≤ 1)
    (hfi : ∀ u ∈ fi, ∃ t, MTy a s1 s2 o g u t)
    (hfo : ∀ w ∈ fo, MTy a s1 s2 o g w "or")
    (hT : ∀ x t, MTy a' s1' s2' o' g' x t ↔ MTy a s1 s2 o g x t ∨ (x = n ∧ t = ty))
    (hE : ∀ u m, MEdge k s2' g' u m ↔ MEdge k s2 g u m ∨ (u = n ∧ m ∈ fo) ∨ (u ∈ fi ∧ m = n))
    (hO : (if o' then ["out"] else []) = (if o then ["out"] else []) ++ (if out then [n] else [])) :
    ∃ c', addC c { n := n, ty := ty, fanin := fi, fanout := fo, output := out } = .ok c' ∧
      MuxSt k a' s1' s2' o' g' c' := by
  have hf : c.has n = false := by
    cases hh : c.has n with
    | false => rfl
    | true =>
      obtain ⟨t, ht, _⟩ := h.inv.1.typed n hh
      exact absurd ((h.ty n t).1 ht) (hfresh t)
  obtain ⟨c', e, _, r⟩ := add_spec c h.inv n ty fi fo out hf hok hty hsrc hsingle
    (by
      intro u hu
      obtain ⟨t, ht⟩ := hfi u hu
      exact ⟨t, (h.ty u t).2 ht, MTy_plain ht⟩)
    (by
      intro w hw
      exact ⟨"or", (h.ty w "or").2 (hfo w hw), by decide⟩)
  refine ⟨c', e, ⟨r.inv, ?_, ?_, ?_⟩⟩
  · intro x t
    rw [ty_add r hf, h.ty, hT]
  · intro u m
    rw [r.edges (u, m), h.edges, hE]
  · rw [r.outputs, h.outputs, hO]
    cases out <;> simp

/-! ### freshness of the five name families -/

theorem fresh_in (a s1 s2 : Nat) (o : Bool) (g : Nat) (t : String) :
    ¬ MTy a s1 s2 o g ("in_" ++ toString a) t := by
  rintro (⟨i, hi, h, _⟩ | ⟨i, hi, h, _⟩ | ⟨i, hi, h, _⟩ | ⟨_, h, _⟩ | ⟨i, hi, h, _⟩)
  · have := (idx_inj "in_").1 h; omega
  · revert h; name_ne
  · revert h; name_ne
  · revert h; name_ne
  · revert h; name_ne

theorem fresh_sel (a s1 s2 : Nat) (o : Bool) (g : Nat) (t : String) :
    ¬ MTy a s1 s2 o g ("sel_" ++ toString s1) t := by
  rintro (⟨i, hi, h, _⟩ | ⟨i, hi, h, _⟩ | ⟨i, hi, h, _⟩ | ⟨_, h, _⟩ | ⟨i, hi, h, _⟩)
  · revert h; name_ne
  · have := (idx_inj "sel_").1 h; omega
  · revert h; name_ne
  · revert h; name_ne
  · revert h; name_ne

theorem fresh_nsel (a s1 s2 : Nat) (o : Bool) (g : Nat) (t : String) :
    ¬ MTy a s1 s2 o g ("not_sel_" ++ toString s2) t := by
  rintro (⟨i, hi, h, _⟩ | ⟨i, hi, h, _⟩ | ⟨i, hi, h, _⟩ | ⟨_, h, _⟩ | ⟨i, hi, h, _⟩)
  · revert h; name_ne
  · revert h; name_ne
  · have := (idx_inj "not_sel_").1 h; omega
  · revert h; name_ne
  · revert h; name_ne

theorem fresh_out (a s1 s2 : Nat) (g : Nat) (t : String) :
    ¬ MTy a s1 s2 false g "out" t := by
  rintro (⟨i, hi, h, _⟩ | ⟨i, hi, h, _⟩ | ⟨i, hi, h, _⟩ | ⟨h, _, _⟩ | ⟨i, hi, h, _⟩)
  · revert h; name_ne
  · revert h; name_ne
  · revert h; name_ne
  · cases h
  · revert h; name_ne

theorem fresh_and (a s1 s2 : Nat) (o : Bool) (g : Nat) (t : String) :
    ¬ MTy a s1 s2 o g ("and_" ++ toString g) t := by
  rintro (⟨i, hi, h, _⟩ | ⟨i, hi, h, _⟩ | ⟨i, hi, h, _⟩ | ⟨_, h, _⟩ | ⟨i, hi, h, _⟩)
  · revert h; name_ne
  · revert h; name_ne
  · revert h; name_ne
  · revert h; name_ne
  · have := (idx_inj "and_").1 h; omega

theorem nameOK_in (i : Nat) : NameOK ("in_" ++ toString i) := nameOK_lit "in_" 'i' ['n', '_'] rfl (by decide) _
theorem nameOK_sel (i : Nat) : NameOK ("sel_" ++ toString i) := nameOK_lit "sel_" 's' ['e', 'l', '_'] rfl (by decide) _
theorem nameOK_nsel (i : Nat) : NameOK ("not_sel_" ++ toString i) :=
  nameOK_lit "not_sel_" 'n' ['o', 't', '_', 's', 'e', 'l', '_'] rfl (by decide) _
theorem nameOK_and (i : Nat) : NameOK ("and_" ++ toString i) := nameOK_lit "and_" 'a' ['n', 'd', '_'] rfl (by decide) _
theorem nameOK_outm : NameOK "out" := nameOK_lit "out" 'o' ['u', 't'] rfl (by decide) ""

theorem mem_muxSel {k i : Nat} {u : Name} (h : u ∈ muxSel k i) :
    ∃ j, j < k ∧ (u = "sel_" ++ toString j ∨ u = "not_sel_" ++ toString j) := by
  unfold muxSel at h
  obtain ⟨j, hj, rfl⟩ := List.mem_map.1 h
  rw [List.mem_reverse, List.mem_range] at hj
  refine ⟨j, hj, ?_⟩
  by_cases e : (i / 2 ^ j % 2 == 1) = true
  · rw [if_pos e]; exact Or.inl rfl
  · rw [if_neg e]; exact Or.inr rfl

/-! ### the five kinds of `add` call -/

section steps
variable {k a s1 s2 : Nat} {o : Bool} {g : Nat} {c : Circuit}

theorem step_in (h : MuxSt k a s1 s2 o g c) :
    ∃ c', addC c { n := "in_" ++ toString a, ty := "input" } = .ok c' ∧ MuxSt k (a + 1) s1 s2 o g c' := by
  apply mux_add h ("in_" ++ toString a) "input" [] [] false (a + 1) s1 s2 o g (fresh_in a s1 s2 o g) (nameOK_in a)
    (by decide) (fun _ => rfl) (fun _ => by simp) (fun u hu => by cases hu) (fun u hu => by cases hu)
  · intro x t
    unfold MTy
    rw [ex_lt_succ]
    simp only [or_assoc, or_comm, or_left_comm]
  · intro u m
    simp
  · simp

theorem step_sel (h : MuxSt k a s1 s2 o g c) :
    ∃ c', addC c { n := "sel_" ++ toString s1, ty := "input" } = .ok c' ∧ MuxSt k a (s1 + 1) s2 o g c' := by
  apply mux_add h ("sel_" ++ toString s1) "input" [] [] false a (s1 + 1) s2 o g (fresh_sel a s1 s2 o g) (nameOK_sel s1)
    (by decide) (fun _ => rfl) (fun _ => by simp) (fun u hu => by cases hu) (fun u hu => by cases hu)
  · intro x t
    unfold MTy
    rw [ex_lt_succ]
    simp only [or_assoc, or_comm, or_left_comm]
  · intro u m
    simp
  · simp

theorem step_nsel (h : MuxSt k a s1 s2 o g c) (hs : s2 < s1) :
    ∃ c', addC c { n := "not_sel_" ++ toString s2, ty := "not", fanin := ["sel_" ++ toString s2] } = .ok c' ∧
      MuxSt k a s1 (s2 + 1) o g c' := by
  apply mux_add h ("not_sel_" ++ toString s2) "not" ["sel_" ++ toString s2] [] false a s1 (s2 + 1) o g
    (fresh_nsel a s1 s2 o g) (nameOK_nsel s2)
    (by decide) (fun h => by rcases h with h | h <;> exact absurd h (by decide)) (fun _ => by simp)
    (fun u hu => by
      rw [List.mem_singleton] at hu
      subst hu
      exact ⟨"input", Or.inr (Or.inl ⟨s2, hs, rfl, rfl⟩)⟩)
    (fun u hu => by cases hu)
  · intro x t
    unfold MTy
    rw [ex_lt_succ]
    simp only [or_assoc, or_comm, or_left_comm]
  · intro u m
    unfold MEdge
    rw [ex_lt_succ]
    simp only [List.not_mem_nil, and_false, false_or, List.mem_singleton, or_assoc, or_comm, or_left_comm]
  · simp

theorem step_out (h : MuxSt k a s1 s2 false g c) :
    ∃ c', addC c { n := "out", ty := "or", output := true } = .ok c' ∧ MuxSt k a s1 s2 true g c' := by
  apply mux_add h "out" "or" [] [] true a s1 s2 true g (fresh_out a s1 s2 g) nameOK_outm
    (by decide) (fun h => by rcases h with h | h <;> exact absurd h (by decide))
    (fun h => by rcases h with h | h <;> exact absurd h (by decide))
    (fun u hu => by cases hu) (fun u hu => by cases hu)
  · intro x t
    unfold MTy
    simp only [Bool.false_eq_true, false_and, true_and, or_false, false_or, or_assoc, or_comm, or_left_comm]
  · intro u m
    simp
  · simp

theorem step_and (h : MuxSt k a k k true g c) (hg : g < a) :
    ∃ c', addC c { n := "and_" ++ toString g, ty := "and", fanin := muxSel k g ++ ["in_" ++ toString g],
                     fanout := ["out"] } = .ok c' ∧
      MuxSt k a k k true (g + 1) c' := by
  apply mux_add h ("and_" ++ toString g) "and" (muxSel k g ++ ["in_" ++ toString g]) ["out"] false a k k true (g + 1)
    (fresh_and a k k true g) (nameOK_and g)
    (by decide) (fun h => by rcases h with h | h <;> exact absurd h (by decide))
    (fun h => by rcases h with h | h <;> exact absurd h (by decide))
    (fun u hu => by
      rcases List.mem_append.1 hu with hu | hu
      · obtain ⟨j, hj, hu | hu⟩ := mem_muxSel hu
        · exact ⟨"input", Or.inr (Or.inl ⟨j, hj, hu, rfl⟩)⟩
        · exact ⟨"not", Or.inr (Or.inr (Or.inl ⟨j, hj, hu, rfl⟩))⟩
      · rw [List.mem_singleton] at hu
        exact ⟨"input", Or.inl ⟨g, hg, hu, rfl⟩⟩)
    (fun u hu => by
      rw [List.mem_singleton] at hu
      subst hu
      exact Or.inr (Or.inr (Or.inr (Or.inl ⟨rfl, rfl, rfl⟩))))
  · intro x t
    unfold MTy
    rw [ex_lt_succ]
    simp only [or_assoc]
  · intro u m
    unfold MEdge
    rw [ex_lt_succ, ex_lt_succ]
    simp only [List.mem_singleton, or_assoc, or_comm, or_left_comm]
  · simp

end steps

/-! ### the three loops -/

theorem mux_base (k : Nat) : MuxSt k 0 0 0 false 0 ({ name := "mux" } : Circuit) := by
  refine ⟨empty_Inv "mux", ?_, ?_, rfl⟩
  · intro x t
    constructor
    · intro h; cases h
    · rintro (⟨i, hi, _⟩ | ⟨i, hi, _⟩ | ⟨i, hi, _⟩ | ⟨h, _⟩ | ⟨i, hi, _⟩)
      · omega
      · omega
      · omega
      · cases h
      · omega
  · intro u n
    constructor
    · intro h; cases h
    · rintro (⟨i, hi, _⟩ | ⟨i, hi, _⟩ | ⟨i, hi, _⟩) <;> omega

theorem loop_in (k : Nat) : ∀ a, ∃ c,
    (List.range a).foldlM (fun c i => addC c { n := "in_" ++ toString i, ty := "input" })
      ({ name := "mux" } : Circuit) = .ok c ∧ MuxSt k a 0 0 false 0 c
  | 0 => ⟨_, rfl, mux_base k⟩
  | a + 1 => by
    obtain ⟨c, e, h⟩ := loop_in k a
    obtain ⟨c', e', h'⟩ := step_in h
    refine ⟨c', ?_, h'⟩
    rw [foldlM_range_succ, e, bind_ok]
    exact e'

theorem loop_sel {k a : Nat} {c0 : Circuit} (h0 : MuxSt k a 0 0 false 0 c0) : ∀ s, ∃ c,
    (List.range s).foldlM (fun c i =>
      addC c { n := "sel_" ++ toString i, ty := "input" } >>= fun c =>
      addC c { n := "not_sel_" ++ toString i, ty := "not", fanin := ["sel_" ++ toString i] }) c0 = .ok c ∧
      MuxSt k a s s false 0 c
  | 0 => ⟨c0, rfl, h0⟩
  | s + 1 => by
    obtain ⟨c, e, h⟩ := loop_sel h0 s
    obtain ⟨c1, e1, h1⟩ := step_sel h
    obtain ⟨c2, e2, h2⟩ := step_nsel h1 (Nat.lt_succ_self s)
    refine ⟨c2, ?_, h2⟩
    rw [foldlM_range_succ, e, bind_ok, e1, bind_ok]
    exact e2

theorem loop_and {k a : Nat} {c0 : Circuit} (h0 : MuxSt k a k k true 0 c0) : ∀ g, g ≤ a → ∃ c,
    (List.range g).foldlM (fun c i =>
      addC c { n := "and_" ++ toString i, ty := "and", fanin := muxSel k i ++ ["in_" ++ toString i],
               fanout := ["out"] }) c0 = .ok c ∧
      MuxSt k a k k true g c
  | 0, _ => ⟨c0, rfl, h0⟩
  | g + 1, hg => by
    obtain ⟨c, e, h⟩ := loop_and h0 g (by omega)
    obtain ⟨c', e', h'⟩ := step_and h (by omega)
    refine ⟨c', ?_, h'⟩
    rw [foldlM_range_succ, e, bind_ok]
    exact e'

/-- the construction succeeds and has the expected shape -/
theorem mux_struct (w k : Nat) (hk : clog2 w = .ok k) : ∃ c, mux w = .ok c ∧ MuxSt k w k k true w c := by
  obtain ⟨c1, e1, h1⟩ := loop_in k w
  obtain ⟨c2, e2, h2⟩ := loop_sel h1 k
  obtain ⟨c3, e3, h3⟩ := step_out h2
  obtain ⟨c4, e4, h4⟩ := loop_and h3 w (Nat.le_refl w)
  refine ⟨c4, ?_, h4⟩
  unfold mux
  rw [hk, bind_ok, e1, bind_ok, e2, bind_ok, e3, bind_ok]
  exact e4

/-! ### lint -/

section final
variable {k w : Nat} {c : Circuit}

theorem mux_driven (h : MuxSt k w k k true w c) (hw : 1 ≤ w) : Driven c := by
  intro n t ht hs
  rcases (h.ty n t).1 ht with ⟨i, hi, rfl, rfl⟩ | ⟨j, hj, rfl, rfl⟩ | ⟨j, hj, rfl, rfl⟩ | ⟨_, rfl, rfl⟩ |
    ⟨m, hm, rfl, rfl⟩
  · exfalso; revert hs; decide
  · exfalso; revert hs; decide
  · exact ⟨"sel_" ++ toString j, (h.edges _ _).2 (Or.inl ⟨j, hj, rfl, rfl⟩)⟩
  · exact ⟨"and_" ++ toString 0, (h.edges _ _).2 (Or.inr (Or.inr ⟨0, hw, rfl, rfl⟩))⟩
  · exact ⟨"in_" ++ toString m, (h.edges _ _).2 (Or.inr (Or.inl ⟨m, hm, by simp, rfl⟩))⟩

/-! ### gate equations -/

theorem mem_of_ty {c : Circuit} {n : Name} {t : String} (h : c.ty? n = some t) :
    ∃ a, (n, a) ∈ c.nodes ∧ a.ty = some t := by
  unfold Circuit.ty? at h
  cases ha : c.attr? n with
  | none => rw [ha] at h; cases h
  | some a => rw [ha] at h; exact ⟨a, mem_nodes_of_attr ha, h⟩

theorem sem_nsel (h : MuxSt k w k k true w c) {v : Val} (hv : Consistent c v) {j : Nat} (hj : j < k) :
    v ("not_sel_" ++ toString j) = !v ("sel_" ++ toString j) := by
  obtain ⟨a, ha, hta⟩ := mem_of_ty ((h.ty _ _).2 (Or.inr (Or.inr (Or.inl ⟨j, hj, rfl, rfl⟩))))
  apply node_val hv h.inv.1.edgesNodup ha hta ["sel_" ++ toString j] (by simp) ?_ rfl
  intro u
  rw [h.edges, List.mem_singleton]
  constructor
  · rintro (⟨j', _, hu, hn⟩ | ⟨m, _, _, hn⟩ | ⟨m, _, _, hn⟩)
    · have := (idx_inj "not_sel_").1 hn
      subst this
      exact hu
    · revert hn; name_ne
    · revert hn; name_ne
  · rintro rfl
    exact Or.inl ⟨j, hj, rfl, rfl⟩

/-- the select literal of bit `j` with polarity `b` -/
def selLit (b : Bool) (j : Nat) : Name := if b then "sel_" ++ toString j else "not_sel_" ++ toString j

theorem muxSel_eq (k i : Nat) :
    muxSel k i = (List.range k).reverse.map (fun j => selLit (i / 2 ^ j % 2 == 1) j) := rfl

theorem selLit_inj {b b' : Bool} {j j' : Nat} (h : selLit b j = selLit b' j') : j = j' := by
  cases b <;> cases b' <;> simp only [selLit, if_true, if_false, Bool.false_eq_true] at h
  · exact (idx_inj "not_sel_").1 h
  · revert h; name_ne
  · revert h; name_ne
  · exact (idx_inj "sel_").1 h

theorem muxSel_nodup (k i : Nat) : (muxSel k i).Nodup := by
  rw [muxSel_eq]
  apply nodup_map_of_inj ((List.reverse_perm _).nodup_iff.2 List.nodup_range)
  intro x _ y _ e
  exact selLit_inj e

theorem muxIn_nodup (k i : Nat) : (muxSel k i ++ ["in_" ++ toString i]).Nodup := by
  rw [List.nodup_append]
  refine ⟨muxSel_nodup k i, by simp, ?_⟩
  intro x hx y hy e
  rw [List.mem_singleton] at hy
  subst hy
  subst e
  obtain ⟨j, _, h | h⟩ := mem_muxSel hx
  · revert h; name_ne
  · revert h; name_ne

theorem sem_and (h : MuxSt k w k k true w c) {v : Val} (hv : Consistent c v) {m : Nat} (hm : m < w) :
    v ("and_" ++ toString m) = ((muxSel k m).all v && v ("in_" ++ toString m)) := by
  obtain ⟨a, ha, hta⟩ := mem_of_ty ((h.ty _ _).2 (Or.inr (Or.inr (Or.inr (Or.inr ⟨m, hm, rfl, rfl⟩)))))
  apply node_val hv h.inv.1.edgesNodup ha hta (muxSel k m ++ ["in_" ++ toString m]) (muxIn_nodup k m) ?_ ?_
  · intro u
    rw [h.edges]
    constructor
    · rintro (⟨j', _, hu, hn⟩ | ⟨m', _, hu, hn⟩ | ⟨m', _, _, hn⟩)
      · revert hn; name_ne
      · have := (idx_inj "and_").1 hn
        subst this
        exact hu
      · revert hn; name_ne
    · intro hu
      exact Or.inr (Or.inl ⟨m, hm, hu, rfl⟩)
  · have e : gateFn "and" ((muxSel k m ++ ["in_" ++ toString m]).map v) =
        some (((muxSel k m ++ ["in_" ++ toString m]).map v).all id) := rfl
    rw [e]
    simp [List.all_map, List.all_append]

theorem sem_out (h : MuxSt k w k k true w c) {v : Val} (hv : Consistent c v) :
    v "out" = ((List.range w).map (fun m => "and_" ++ toString m)).any v := by
  obtain ⟨a, ha, hta⟩ := mem_of_ty ((h.ty _ _).2 (Or.inr (Or.inr (Or.inr (Or.inl ⟨rfl, rfl, rfl⟩)))))
  apply node_val hv h.inv.1.edgesNodup ha hta ((List.range w).map (fun m => "and_" ++ toString m)) ?_ ?_ ?_
  · apply nodup_map_of_inj List.nodup_range
    intro x _ y _ e
    exact (idx_inj "and_").1 e
  · intro u
    rw [h.edges]
    constructor
    · rintro (⟨j', _, hu, hn⟩ | ⟨m', _, hu, hn⟩ | ⟨m', hm', hu, _⟩)
      · revert hn; name_ne
      · revert hn; name_ne
      · exact List.mem_map.2 ⟨m', List.mem_range.2 hm', hu.symm⟩
    · intro hu
      obtain ⟨m, hm, e⟩ := List.mem_map.1 hu
      exact Or.inr (Or.inr ⟨m, List.mem_range.1 hm, e.symm, rfl⟩)
  · have e : gateFn "or" (((List.range w).map (fun m => "and_" ++ toString m)).map v) =
        some ((((List.range w).map (fun m => "and_" ++ toString m)).map v).any id) := rfl
    rw [e]
    simp [List.any_map]

end final

/-! ### the product term `i` is the minterm of the select value `i` -/

theorem selLit_val {v : Val} {k : Nat} (hns : ∀ j, j < k → v ("not_sel_" ++ toString j) = !v ("sel_" ++ toString j))
    (b : Bool) {j : Nat} (hj : j < k) : v (selLit b j) = (v ("sel_" ++ toString j) == b) := by
  cases b
  · simp only [selLit, Bool.false_eq_true, if_false]
    rw [hns j hj]
    cases v ("sel_" ++ toString j) <;> rfl
  · simp only [selLit, if_true]
    cases v ("sel_" ++ toString j) <;> rfl

theorem muxSel_all {v : Val} {k : Nat} (hns : ∀ j, j < k → v ("not_sel_" ++ toString j) = !v ("sel_" ++ toString j))
    (i : Nat) : (muxSel k i).all v = true ↔ ∀ j, j < k → v ("sel_" ++ toString j) = (i / 2 ^ j % 2 == 1) := by
  rw [muxSel_eq, List.all_eq_true]
  constructor
  · intro H j hj
    have := H (selLit (i / 2 ^ j % 2 == 1) j)
      (List.mem_map.2 ⟨j, List.mem_reverse.2 (List.mem_range.2 hj), rfl⟩)
    rw [selLit_val hns _ hj] at this
    exact beq_iff_eq.1 this
  · intro H x hx
    obtain ⟨j, hj, rfl⟩ := List.mem_map.1 hx
    rw [List.mem_reverse, List.mem_range] at hj
    rw [selLit_val hns _ hj]
    exact beq_iff_eq.2 (H j hj)

theorem bit_arith (P A B d : Nat) (b : Bool) (hA : A < P) (hB : B < P) (hd : d < 2) :
    (A = B ∧ b = (d == 1)) ↔ A + P * d = B + b2n b * P := by
  have hd' : d = 0 ∨ d = 1 := by omega
  rcases hd' with rfl | rfl <;> cases b <;>
    simp only [b2n, Nat.mul_zero, Nat.mul_one, Nat.zero_mul, Nat.one_mul, Nat.add_zero, if_true, if_false,
      Bool.false_eq_true] <;>
    constructor
  · rintro ⟨h, _⟩; exact h
  · intro h; exact ⟨h, by decide⟩
  · rintro ⟨_, h⟩; exact absurd h (by decide)
  · intro h; omega
  · rintro ⟨_, h⟩; exact absurd h (by decide)
  · intro h; omega
  · rintro ⟨h, _⟩; omega
  · intro h; exact ⟨by omega, by decide⟩

theorem bits_iff (v : Val) (i : Nat) : ∀ k,
    (∀ j, j < k → v ("sel_" ++ toString j) = (i / 2 ^ j % 2 == 1)) ↔ i % 2 ^ k = bitsVal v "sel_" k
  | 0 => by
    rw [bitsVal_zero, Nat.pow_zero, Nat.mod_one]
    exact ⟨fun _ => rfl, fun _ j hj => by omega⟩
  | k + 1 => by
    have ih := bits_iff v i k
    have hs : (∀ j, j < k + 1 → v ("sel_" ++ toString j) = (i / 2 ^ j % 2 == 1)) ↔
        ((∀ j, j < k → v ("sel_" ++ toString j) = (i / 2 ^ j % 2 == 1)) ∧
          v ("sel_" ++ toString k) = (i / 2 ^ k % 2 == 1)) := by
      constructor
      · intro H; exact ⟨fun j hj => H j (by omega), H k (by omega)⟩
      · rintro ⟨H1, H2⟩ j hj
        by_cases e : j = k
        · subst e; exact H2
        · exact H1 j (by omega)
    rw [hs, ih, Nat.mod_pow_succ, bitsVal_succ]
    exact bit_arith (2 ^ k) _ _ _ _ (Nat.mod_lt _ (Nat.pow_pos (by decide))) (bitsVal_lt v "sel_" k)
      (Nat.mod_lt _ (by decide))

/-! ### the multiplexer -/

theorem mux_sem {k w : Nat} {c : Circuit} (h : MuxSt k w k k true w c) (hwk : w ≤ 2 ^ k) {v : Val}
    (hv : Consistent c v) :
    v "out" = (if bitsVal v "sel_" k < w then v ("in_" ++ toString (bitsVal v "sel_" k)) else false) := by
  have hns : ∀ j, j < k → v ("not_sel_" ++ toString j) = !v ("sel_" ++ toString j) := fun j hj => sem_nsel h hv hj
  have hand : ∀ m, m < w → (v ("and_" ++ toString m) = true ↔
      m = bitsVal v "sel_" k ∧ v ("in_" ++ toString m) = true) := by
    intro m hm
    rw [sem_and h hv hm, Bool.and_eq_true, muxSel_all hns, bits_iff, Nat.mod_eq_of_lt (by omega)]
  have hout : v "out" = true ↔ ∃ m, m < w ∧ m = bitsVal v "sel_" k ∧ v ("in_" ++ toString m) = true := by
    rw [sem_out h hv, List.any_eq_true]
    constructor
    · rintro ⟨x, hx, hvx⟩
      obtain ⟨m, hm, rfl⟩ := List.mem_map.1 hx
      rw [List.mem_range] at hm
      exact ⟨m, hm, (hand m hm).1 hvx⟩
    · rintro ⟨m, hm, h1⟩
      exact ⟨"and_" ++ toString m, List.mem_map.2 ⟨m, List.mem_range.2 hm, rfl⟩, (hand m hm).2 h1⟩
  by_cases hS : bitsVal v "sel_" k < w
  · rw [if_pos hS]
    apply Bool.eq_iff_iff.2
    rw [hout]
    constructor
    · rintro ⟨m, _, rfl, h1⟩; exact h1
    · intro h1; exact ⟨_, hS, rfl, h1⟩
  · rw [if_neg hS]
    cases hvo : v "out" with
    | false => rfl
    | true =>
      obtain ⟨m, hm, rfl, _⟩ := hout.1 hvo
      exact absurd hm hS

end Mux

open Mux in
theorem mux_full (w : Nat) (hw : 1 ≤ w) :
    ∃ c k, clog2 w = .ok k ∧ mux w = .ok c ∧ LintClean c ∧ c.outputs = ["out"] ∧
      ∀ v, Consistent c v →
        v "out" = (if bitsVal v "sel_" k < w then v ("in_" ++ toString (bitsVal v "sel_" k)) else false) := by
  obtain ⟨k, hk, hwk, _⟩ := clog2_spec' w hw
  obtain ⟨c, e, h⟩ := mux_struct w k hk
  exact ⟨c, k, hk, e, lintClean_of_WS h.inv.1 (mux_driven h hw), h.outputs, fun v hv => mux_sem h hwk hv⟩

end Arith
end CG
