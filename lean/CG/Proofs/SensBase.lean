/- helper lemmas for C11 (sensitivity transforms): the three edits of `sensitization_transform` on top of the miter -/
import CG.Tx2
import CG.Spec
import CG.Props.C01
import CG.Props.C04
import CG.Props.C08
import CG.Props.C13
import CG.Proofs.AcycUnrollFold
set_option linter.unusedSimpArgs false
set_option linter.unusedVariables false
namespace CG
namespace Sens
open Circuit Miter

/-! ### unfolding `sensitization_transform` -/

/-- the miter after the `disconnect` of the three edits -/
def cut (m0 : Circuit) (nm : String) (n : Name) : Circuit :=
  ({ m0 with name := nm } : Circuit).disconnect (m0.fanin ("c1_" ++ n)) ["c1_" ++ n]

theorem sensitization_steps {c m : Circuit} {n : Name} {ord : Ord} {ordE : List (Name × Name) → List (Name × Name)}
    (hb : c.bbs = []) (h : Tx.sensitizationTransform c n [] ord ordE = .ok m) :
    ∃ m0 m2, Tx.miter c none none none ord = .ok m0 ∧ m0.has ("c1_" ++ n) = true ∧
      (cut m0 (c.name ++ "_sensitize_" ++ n) n).setType ["c1_" ++ n] "not" = (m2, .ok) ∧
      m2.connect ["c0_" ++ n] ["c1_" ++ n] = (m, .ok) := by
  unfold Tx.sensitizationTransform at h
  simp only [hb, List.isEmpty_nil, Bool.not_true, Bool.false_eq_true, if_false, if_true, pure_bind] at h
  obtain ⟨m0, h0, h⟩ := bind_ok h
  by_cases hh : m0.has ("c1_" ++ n) = true
  · have e : ({ m0 with name := c.name ++ "_sensitize_" ++ n } : Circuit).has ("c1_" ++ n) = true := hh
    simp only [e, Bool.not_true, Bool.false_eq_true, if_false] at h
    obtain ⟨m2, h2, h3⟩ := bind_ok h
    exact ⟨m0, m2, h0, hh, liftO_ok h2, liftO_ok h3⟩
  · have e : ({ m0 with name := c.name ++ "_sensitize_" ++ n } : Circuit).has ("c1_" ++ n) = false := by
      have : m0.has ("c1_" ++ n) = false := by simpa using hh
      exact this
    simp only [e, Bool.not_false, if_true] at h
    cases h

/-! ### what a successful miter says about the tied startpoints and the compared endpoints -/

theorem foldAdd_each {α : Type} (g : α → AddArgs) (hg : ∀ x, Plain (g x)) :
    ∀ (l : List α) (c c' : Circuit), WF c → l.foldlM (fun m x => Tx.addC m (g x)) c = .ok c' →
      ∀ x ∈ l, ∃ ci ci', WF ci ∧ (∀ p ∈ c.nodes, p ∈ ci.nodes) ∧ Tx.addC ci (g x) = .ok ci' := by
  intro l
  induction l with
  | nil => intro c c' _ _ x hx; cases hx
  | cons a l ih =>
    intro c c' hc h x hx
    obtain ⟨c1, h1, h2⟩ := foldlM_cons_ok h
    rcases List.mem_cons.1 hx with rfl | hx
    · exact ⟨c, c1, hc, fun p hp => hp, h1⟩
    · have A := addOK_of hc (hg a) h1
      obtain ⟨ci, ci', w, hsub, hadd⟩ := ih c1 c' A.wf h2 x hx
      refine ⟨ci, ci', w, ?_, hadd⟩
      intro p hp
      apply hsub
      rw [A.nodes]
      exact List.mem_append.2 (Or.inl hp)

/-- a tied startpoint cannot feed a `bb_output` node -/
theorem tie_target_ty {ci ci' : Circuit} {s : Name} (w : WF ci) (h : Tx.addC ci (tieArgs s) = .ok ci')
    {a : Attr} (hm : (pref "c0" s, a) ∈ ci.nodes) : a.ty ≠ some "bb_output" := by
  obtain ⟨hfresh, c3, h3, _⟩ := AU.addC_ok rfl rfl rfl h
  have hk := (connect_ok h3).2.2.2.2.2.2 (by simp) (by rw [tie_fanout]; simp)
  obtain ⟨_, _, kV, _⟩ := connectCheck_none hk
  obtain ⟨t, ht, hnot, _⟩ := kV (pref "c0" s) (by rw [tie_fanout]; simp)
  have keep := AU.keeps_addNodeAttr (A := ci) { ty := some (tieArgs s).ty, out := some (tieArgs s).output } hfresh
    (pref "c0" s) (has_of_mem hm) (by simp)
  rw [keep.2.1, ty?, attr?_of_mem w.nodup hm] at ht
  simp only [Option.bind_some] at ht
  intro e
  rw [e] at ht
  injection ht with ht
  subst ht
  exact hnot (by decide)

/-- a compared endpoint cannot be a `bb_input` node -/
theorem dif_source_ty {ci ci' : Circuit} {e : Name} (w : WF ci) (h : Tx.addC ci (difArgs e) = .ok ci')
    {a : Attr} (hm : (pref "c0" e, a) ∈ ci.nodes) : a.ty ≠ some "bb_input" := by
  obtain ⟨hfresh, c3, h3, h4⟩ := AU.addC_ok rfl rfl rfl h
  have hk := (connect_ok h4).2.2.2.2.2.2 (by rw [dif_fanin]; simp) (by simp)
  obtain ⟨_, _, _, kU⟩ := connectCheck_none hk
  obtain ⟨t, ht, hnot, _⟩ := kU (pref "c0" e) (by rw [dif_fanin]; simp)
  have keep := AU.keeps_addNodeAttr (A := ci) { ty := some (difArgs e).ty, out := some (difArgs e).output } hfresh
    (pref "c0" e) (has_of_mem hm) (by simp)
  rw [ty?_congr (connect_ok h3).1, keep.2.1, ty?, attr?_of_mem w.nodup hm] at ht
  simp only [Option.bind_some] at ht
  intro e'
  rw [e'] at ht
  injection ht with ht
  exact hnot ht.symm

/-! ### lists -/

theorem mem_filterType (c : Circuit) (ts : List String) (x : Name) :
    x ∈ c.filterType ts ↔ ∃ a, (x, a) ∈ c.nodes ∧ ∃ t, a.ty = some t ∧ t ∈ ts := by
  unfold filterType
  simp only [List.mem_map, List.mem_filter]
  constructor
  · rintro ⟨⟨y, a⟩, ⟨hp, hq⟩, rfl⟩
    refine ⟨a, hp, ?_⟩
    cases hty : a.ty with
    | none => rw [hty] at hq; cases hq
    | some t =>
      rw [hty] at hq
      exact ⟨t, rfl, List.contains_iff_mem.1 hq⟩
  · rintro ⟨a, hp, t, ht, hm⟩
    refine ⟨(x, a), ⟨hp, ?_⟩, rfl⟩
    simp only [ht]
    exact List.contains_iff_mem.2 hm

theorem filterType_nodup {c : Circuit} (h : c.nodeNames.Nodup) (ts : List String) : (c.filterType ts).Nodup := by
  unfold filterType
  unfold nodeNames at h
  exact (List.Sublist.map _ List.filter_sublist).nodup h

theorem outputs_nodup {c : Circuit} (h : c.nodeNames.Nodup) : c.outputs.Nodup := by
  unfold outputs
  unfold nodeNames at h
  exact (List.Sublist.map _ List.filter_sublist).nodup h

theorem mem_inter (a b : List Name) (x : Name) : x ∈ Tx.inter a b ↔ x ∈ a ∧ x ∈ b := by
  unfold Tx.inter
  rw [List.mem_filter, List.contains_iff_mem]

theorem inter_nodup {a : List Name} (b : List Name) (h : a.Nodup) : (Tx.inter a b).Nodup :=
  (List.filter_sublist).nodup h

theorem union_nodup {a b : List Name} (ha : a.Nodup) (hb : b.Nodup) : (Circuit.union a b).Nodup := by
  unfold Circuit.union
  rw [List.nodup_append]
  refine ⟨ha, (List.filter_sublist).nodup hb, ?_⟩
  intro x hx y hy e
  subst e
  have := (List.mem_filter.1 hy).2
  rw [List.contains_iff_mem.2 hx] at this
  cases this

theorem ord_mem {ord : Ord} (hord : OrdOK ord) (l : List Name) (x : Name) : x ∈ ord l ↔ x ∈ l :=
  (hord l).mem_iff

theorem ord_nodup {ord : Ord} (hord : OrdOK ord) {l : List Name} (h : l.Nodup) : (ord l).Nodup :=
  (hord l).nodup_iff.2 h

/-! ### the self-miter with default startpoints / endpoints -/

theorem self_miter {c m0 : Circuit} {ord : Ord} (hord : OrdOK ord) (hc : LintClean c) (hb : c.bbs = [])
    (hin : c.inputs ≠ []) (hout : c.outputs ≠ []) (h : Tx.miter c none none none ord = .ok m0) :
    ∃ sp ep, MView c c sp ep m0 ∧ sp.Nodup ∧ ep.Nodup ∧ sp ≠ [] ∧ ep ≠ [] ∧
      (∀ s, s ∈ sp ↔ s ∈ c.inputs) ∧ (∀ e, e ∈ ep ↔ e ∈ c.outputs) ∧
      (∀ q ∈ c.nodes, q.2.ty ≠ some "bb_output") := by
  have hne : c.nodes ≠ [] := by
    intro e
    apply hin
    unfold inputs filterType
    rw [e]; rfl
  rw [C04.miter_self, C04.miter_defaults c c ord hord hne] at h
  have hspA : ∀ s, s ∈ ord (Tx.inter c.startpointsAll c.startpointsAll) ↔ s ∈ c.startpointsAll := by
    intro s
    rw [ord_mem hord, mem_inter, and_self]
  have hepA : ∀ e, e ∈ ord (Tx.inter c.endpointsAll c.endpointsAll) ↔ e ∈ c.endpointsAll := by
    intro e
    rw [ord_mem hord, mem_inter, and_self]
  have hinSA : ∀ s, s ∈ c.inputs → s ∈ c.startpointsAll := by
    intro s hs
    unfold startpointsAll
    unfold inputs at hs
    rw [mem_filterType] at hs ⊢
    obtain ⟨a, ha, t, ht, hm⟩ := hs
    exact ⟨a, ha, t, ht, by simp only [List.mem_singleton] at hm; subst hm; simp⟩
  have hsp : ord (Tx.inter c.startpointsAll c.startpointsAll) ≠ [] := by
    cases hi : c.inputs with
    | nil => exact absurd hi hin
    | cons i l =>
      intro e
      have := (hspA i).2 (hinSA i (by rw [hi]; simp))
      rw [e] at this
      cases this
  have hep : ord (Tx.inter c.endpointsAll c.endpointsAll) ≠ [] := by
    cases ho : c.outputs with
    | nil => exact absurd ho hout
    | cons o l =>
      intro e
      have : o ∈ c.endpointsAll := by
        unfold endpointsAll
        rw [mem_union]
        left; rw [ho]; simp
      have := (hepA o).2 this
      rw [e] at this
      cases this
  have V := mview_of_ok hc hc hb hb hne h
  obtain ⟨m1, m2, m3, m4, s1, s2, s3, s4, s5⟩ :=
    miter_steps hb hb hne (typed_isNone hc) (typed_isNone hc) h
  obtain ⟨n1, e1, b1, w1⟩ := sub_exact (wf_m0 c c) hc.toWF s1
  obtain ⟨n2, e2, b2, w2⟩ := sub_exact w1 hc.toWF s2
  obtain ⟨n3, e3, b3, w3⟩ := foldAdd_ok tieArgs plain_tie _ m2 m3 w2 s3
  have A4 := addOK_of w3 (plain_sat _) s4
  have hm2 : ∀ q ∈ c.nodes, (pref "c0" q.1, stripA q.2) ∈ m2.nodes := by
    intro q hq
    rw [n2, n1]
    exact List.mem_append.2 (Or.inl (List.mem_append.2 (Or.inr (List.mem_map.2 ⟨q, hq, rfl⟩))))
  have hm4 : ∀ q ∈ c.nodes, (pref "c0" q.1, stripA q.2) ∈ m4.nodes := by
    intro q hq
    rw [A4.nodes, n3]
    exact List.mem_append.2 (Or.inl (List.mem_append.2 (Or.inl (hm2 q hq))))
  have hSAin : ∀ s, s ∈ c.startpointsAll → s ∈ c.inputs := by
    intro s hs
    have hs' := hs
    unfold startpointsAll at hs'
    rw [mem_filterType] at hs'
    obtain ⟨a, ha, t, ht, hm⟩ := hs'
    obtain ⟨ci, ci', w, hsub, hadd⟩ := foldAdd_each tieArgs plain_tie _ m2 m3 w2 s3 s ((hspA s).2 hs)
    have hty := tie_target_ty w hadd (hsub _ (hm2 (s, a) ha))
    simp only [List.mem_cons, List.not_mem_nil, or_false] at hm
    rcases hm with rfl | rfl
    · exact (mem_inputs_of_mem hc.nodup ha).2 ht
    · exact absurd (stripA_ty_of_ne ht (by decide)) hty
  refine ⟨_, _, V, ord_nodup hord (inter_nodup _ (filterType_nodup hc.nodup _)),
    ord_nodup hord (inter_nodup _ (union_nodup (outputs_nodup hc.nodup) (filterType_nodup hc.nodup _))), hsp, hep, ?_, ?_, ?_⟩
  · intro s
    rw [hspA]
    exact ⟨hSAin s, hinSA s⟩
  rotate_left
  · intro q hq hty
    have h1 : q.1 ∈ c.startpointsAll := by
      unfold startpointsAll
      rw [mem_filterType]
      exact ⟨q.2, hq, "bb_output", hty, by simp⟩
    have h2 := (mem_inputs_of_mem hc.nodup (a := q.2) hq).1 (hSAin _ h1)
    rw [hty] at h2
    injection h2 with h2
    exact absurd h2 (by decide)
  · intro e
    rw [hepA]
    unfold endpointsAll
    rw [mem_union]
    refine ⟨fun he => ?_, Or.inl⟩
    rcases he with he | he
    · exact he
    · have he' : e ∈ c.endpointsAll := by
        unfold endpointsAll; rw [mem_union]; exact Or.inr he
      rw [mem_filterType] at he
      obtain ⟨a, ha, t, ht, hm⟩ := he
      simp only [List.mem_singleton] at hm
      subst hm
      obtain ⟨ci, ci', w, hsub, hadd⟩ := foldAdd_each difArgs plain_dif _ m4 m0 A4.wf s5 e ((hepA e).2 he')
      have hty := dif_source_ty w hadd (hsub _ (hm4 (e, a) ha))
      exact absurd (stripA_ty_of_ne ht (by decide)) hty

/-! ### the three edits -/

theorem connect_single_fanin {c c' : Circuit} {u x : Name} (h : c.connect [u] [x] = (c', .ok))
    (hf : c.fanin x = []) : c'.fanin x = [u] := by
  obtain ⟨e, _⟩ := connect_ok_eq h
  subst e
  have hnot : (u, x) ∉ c.edges := by
    intro hm
    have := (mem_faninL (es := c.edges)).2 hm
    rw [← fanin_eq_faninL, hf] at this
    cases this
  have : (c.addEdges [u] [x]).edges = c.edges ++ [(u, x)] := by
    show (c.addEdge u x).edges = _
    unfold addEdge
    rw [if_neg (by simpa using hnot)]
  rw [fanin_eq_faninL, this, faninL_append, ← fanin_eq_faninL, hf]
  simp [faninL]

theorem connect_other_fanin {c c' : Circuit} {us vs : List Name} (h : c.connect us vs = (c', .ok))
    {x : Name} (hx : x ∉ vs) : c'.fanin x = c.fanin x := by
  obtain ⟨_, _, _, ⟨ext, a4, a4'⟩, _, _, _⟩ := connect_ok h
  rw [fanin_eq_faninL, a4, faninL_append, ← fanin_eq_faninL]
  have : faninL ext x = [] := by
    apply faninL_nil_of
    intro e he e2
    exact hx (e2 ▸ (a4' e he).2)
  rw [this, List.append_nil]

/-- the result of `sensitization_transform`: the self-miter `m0` with the equation of `c1_n` replaced by
    `c1_n = not c0_n` -/
structure SView (c : Circuit) (n : Name) (sp ep : List Name) (m0 m : Circuit) : Prop where
  mv : MView c c sp ep m0
  has1 : m0.has (pref "c1" n) = true
  nodes : m.nodes = m0.nodes.map (fun p => if p.1 == pref "c1" n then (p.1, { p.2 with ty := some "not" }) else p)
  fanin1 : m.fanin (pref "c1" n) = [pref "c0" n]
  fanin : ∀ x, x ≠ pref "c1" n → m.fanin x = m0.fanin x
  bbs : m.bbs = []

theorem cut_fanin1 (m0 : Circuit) (nm : String) (n : Name) : (cut m0 nm n).fanin ("c1_" ++ n) = [] := by
  rw [fanin_eq_faninL]
  apply faninL_nil_of
  intro e he e2
  unfold cut disconnect at he
  simp only [List.mem_filter] at he
  obtain ⟨h1, h2⟩ := he
  have hm : e.1 ∈ m0.fanin ("c1_" ++ n) := mem_fanin.2 (by rw [← e2]; exact h1)
  rw [List.contains_iff_mem.2 hm, e2] at h2
  simp at h2

theorem cut_fanin (m0 : Circuit) (nm : String) (n : Name) {x : Name} (hx : x ≠ "c1_" ++ n) :
    (cut m0 nm n).fanin x = m0.fanin x := by
  rw [fanin_eq_faninL, fanin_eq_faninL]
  unfold cut disconnect
  apply faninL_filter
  intro e he e2
  have : (["c1_" ++ n].contains e.2) = false := by
    rw [e2]
    simpa using hx
  rw [this]
  simp

theorem sview_of_steps {c m0 m2 m : Circuit} {n : Name} {sp ep : List Name} {nm : String}
    (V : MView c c sp ep m0) (hh : m0.has ("c1_" ++ n) = true)
    (h2 : (cut m0 nm n).setType ["c1_" ++ n] "not" = (m2, .ok))
    (h3 : m2.connect ["c0_" ++ n] ["c1_" ++ n] = (m, .ok)) : SView c n sp ep m0 m := by
  obtain ⟨_, e2⟩ := AU.setType_ok h2
  subst e2
  obtain ⟨a1, a2, _⟩ := connect_ok h3
  refine ⟨V, by rw [pref_c1]; exact hh, ?_, ?_, ?_, ?_⟩
  · rw [a1, pref_c1]
    rfl
  · rw [pref_c1, pref_c0]
    apply connect_single_fanin h3
    show (cut m0 nm n).fanin ("c1_" ++ n) = []
    exact cut_fanin1 m0 nm n
  · intro x hx
    rw [pref_c1] at hx
    rw [connect_other_fanin h3 (by simpa using hx)]
    show (cut m0 nm n).fanin x = _
    exact cut_fanin m0 nm n hx
  · rw [a2]
    show m0.bbs = []
    exact V.bbs

end Sens
end CG
