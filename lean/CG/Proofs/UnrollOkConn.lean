/- C09 (unroll succeeds): `connect` / `connectAll` with single nets, also for `bb_output` sources (which may drive one
   buffer), and what a successful `connectAll` says about each of its connections -/
import CG.Proofs.ArithSub
set_option linter.unusedSimpArgs false
set_option linter.unusedVariables false
namespace CG
namespace UnrollOk
open Circuit

theorem fanout_nil_iff {c : Circuit} {u : Name} : c.fanout u = [] ↔ ∀ e ∈ c.edges, e.1 ≠ u := by
  constructor
  · intro h e he e1
    have : e.2 ∈ c.fanout u := mem_fanout.2 (by rw [← e1]; exact he)
    rw [h] at this
    cases this
  · intro h
    apply List.eq_nil_iff_forall_not_mem.2
    intro v hv
    exact h (u, v) (mem_fanout.1 hv) rfl

/-- the source checks of `connect` pass: no `bb_input` source; a `bb_output` source only drives buffers, one at most -/
theorem goU_none' (c : Circuit) (vs : List Name) : ∀ (us : List Name),
    (∀ u ∈ us, ∃ t, c.ty? u = some t ∧ t ≠ "bb_input" ∧
      (t = "bb_output" → (∀ v ∈ vs, c.ty? v = some "buf") ∧ (c.fanout u).length + vs.length ≤ 1)) →
    Circuit.connectCheck.goU c vs us = none
  | [], _ => rfl
  | u :: rest, h => by
    obtain ⟨t, h1, h2, h3⟩ := h u (by simp)
    have ih := goU_none' c vs rest (fun u' hu' => h u' (by simp [hu']))
    unfold Circuit.connectCheck.goU
    simp only [h1]
    have k2 : (T.connectL 2).contains t = false := by rw [Limit.T_connectL2]; simp [h2]
    simp only [k2, Bool.false_eq_true, if_false]
    by_cases hb : t = "bb_output"
    · obtain ⟨g1, g2⟩ := h3 hb
      have k3 : (T.connectL 3).contains t = true := by rw [Limit.T_connectL3, hb]; rfl
      have k4 : (vs.any fun v => c.ty? v != some "buf") = false := by
        rw [List.any_eq_false]
        intro v hv
        rw [g1 v hv]
        simp
      have k5 : ¬ ((c.fanout u).length + vs.length > 1) := by omega
      simp only [k3, k4, k5, if_true, Bool.false_eq_true, if_false]
      exact ih
    · have k3 : (T.connectL 3).contains t = false := by rw [Limit.T_connectL3]; simp [hb]
      simp only [k3, Bool.false_eq_true, if_false]
      exact ih

theorem connect_succeeds' (c : Circuit) (us vs : List Name)
    (hus : ∀ u ∈ us, ∃ t, c.ty? u = some t ∧ t ≠ "bb_input" ∧
      (t = "bb_output" → (∀ v ∈ vs, c.ty? v = some "buf") ∧ (c.fanout u).length + vs.length ≤ 1))
    (hvs : ∀ v ∈ vs, ∃ t, c.ty? v = some t ∧ t ∉ sourceTypes ∧
      (t ∈ singleTypes → (c.fanin v).length + us.length ≤ 1)) :
    ∃ c', c.connect us vs = (c', .ok) := by
  unfold connect
  split
  · exact ⟨c, rfl⟩
  · have : c.connectCheck us vs = none := by
      unfold Circuit.connectCheck
      have h1 : (us.any fun n => !c.has n) = false := by
        rw [List.any_eq_false]; intro u hu
        obtain ⟨t, ht, _⟩ := hus u hu
        simp [Limit.has_of_ty ht]
      have h2 : (vs.any fun n => !c.has n) = false := by
        rw [List.any_eq_false]; intro v hv
        obtain ⟨t, ht, _⟩ := hvs v hv
        simp [Limit.has_of_ty ht]
      have hV : Circuit.connectCheck.goV c us vs = none := by
        apply Limit.goV_none
        intro v hv
        obtain ⟨t, ht, h1, h2⟩ := hvs v hv
        refine ⟨t, ht, ?_, ?_⟩
        · rw [Limit.T_connectL0]
          cases hc : ["input", "0", "1", "x", "bb_output"].contains t with
          | false => rfl
          | true => exact absurd (List.contains_iff_mem.1 hc) h1
        · intro hc
          rw [Limit.T_connectL1] at hc
          apply h2
          have := List.contains_iff_mem.1 hc
          simp only [List.mem_cons, List.not_mem_nil, or_false] at this
          rcases this with rfl | rfl | rfl <;> decide
      simp only [h1, h2, hV, goU_none' c vs us hus]
      rfl
    rw [this]
    exact ⟨_, rfl⟩

/-- `connectAll` with single nets; a `bb_output` source must be unloaded and drive a buffer, and occur once -/
theorem connectAll_singles_ok' : ∀ (l : List (Name × Name)) (c : Circuit),
    (l.map (·.2)).Nodup → (l.map (·.1)).Nodup →
    (∀ q ∈ l, (∃ t, c.ty? q.1 = some t ∧ t ≠ "bb_input" ∧
          (t = "bb_output" → c.ty? q.2 = some "buf" ∧ c.fanout q.1 = [])) ∧
        ∃ t, c.ty? q.2 = some t ∧ t ∉ sourceTypes ∧ (t ∈ singleTypes → c.fanin q.2 = [])) →
    ∃ c', c.connectAll (l.map fun q => ([q.1], [q.2])) = (c', .ok)
  | [], c, _, _, _ => ⟨c, rfl⟩
  | q :: l, c, hnd, hnd1, h => by
    obtain ⟨⟨t1, ht1, hb1, ho1⟩, t2, ht2, hs2, hf2⟩ := h q (by simp)
    obtain ⟨c1, h1⟩ := connect_succeeds' c [q.1] [q.2]
      (by
        intro u hu; simp only [List.mem_singleton] at hu; subst hu
        refine ⟨t1, ht1, hb1, fun hb => ?_⟩
        obtain ⟨g1, g2⟩ := ho1 hb
        refine ⟨fun v hv => ?_, by rw [g2]; simp⟩
        simp only [List.mem_singleton] at hv; subst hv; exact g1)
      (by
        intro w hw; simp only [List.mem_singleton] at hw; subst hw
        exact ⟨t2, ht2, hs2, fun hs => by rw [hf2 hs]; simp⟩)
    obtain ⟨a1, _, _, _, a5, _, _⟩ := connect_ok h1
    simp only [List.map_cons, List.nodup_cons] at hnd hnd1
    obtain ⟨c', h2⟩ := connectAll_singles_ok' l c1 hnd.2 hnd1.2 (by
      intro q' hq'
      obtain ⟨⟨t, ht, hb, ho⟩, t', ht', hs', hf'⟩ := h q' (by simp [hq'])
      refine ⟨⟨t, by rw [ty?_congr a1]; exact ht, hb, fun hbo => ?_⟩,
        t', by rw [ty?_congr a1]; exact ht', hs', ?_⟩
      · obtain ⟨g1, g2⟩ := ho hbo
        refine ⟨by rw [ty?_congr a1]; exact g1, ?_⟩
        rw [fanout_nil_iff] at g2 ⊢
        intro e he e1
        rcases (a5 e).1 he with h0 | ⟨h0, _⟩
        · exact g2 e h0 e1
        · simp only [List.mem_singleton] at h0
          apply hnd1.1
          rw [← h0, e1]
          exact List.mem_map.2 ⟨q', hq', rfl⟩
      · intro hs
        rw [fanin_eq_faninL]
        apply faninL_nil_of
        intro e he e2
        rcases (a5 e).1 he with h0 | ⟨_, h0⟩
        · have : e.1 ∈ c.fanin q'.2 := mem_fanin.2 (by rw [← e2]; exact h0)
          rw [hf' hs] at this; cases this
        · simp only [List.mem_singleton] at h0
          apply hnd.1
          rw [← h0, e2]
          exact List.mem_map.2 ⟨q', hq', rfl⟩)
    refine ⟨c', ?_⟩
    simp only [List.map_cons]
    rw [connectAll, h1]
    exact h2

/-- every connection of a successful `connectAll` passed the checks of `connect` on a circuit with the same nodes and
    at least the edges of the start circuit -/
theorem connectAll_each : ∀ (l : List (List Name × List Name)) (c c' : Circuit), c.connectAll l = (c', .ok) →
    ∀ q ∈ l, ∃ ci : Circuit, ci.nodes = c.nodes ∧ (∀ e ∈ c.edges, e ∈ ci.edges) ∧
      ∃ cj : Circuit, ci.connect q.1 q.2 = (cj, Outcome.ok)
  | [], _, _, _, q, hq => by cases hq
  | (us, vs) :: l, c, c', h, q, hq => by
    obtain ⟨c1, h1, h2⟩ := connectAll_cons_ok h
    rcases List.mem_cons.1 hq with rfl | hq'
    · exact ⟨c, rfl, fun e he => he, c1, h1⟩
    · obtain ⟨a1, _, _, _, a5, _, _⟩ := connect_ok h1
      obtain ⟨ci, b1, b2, b3⟩ := connectAll_each l c1 c' h2 q hq'
      exact ⟨ci, by rw [b1, a1], fun e he => b2 e ((a5 e).2 (Or.inl he)), b3⟩

end UnrollOk
end CG
