/- C14 helper: the nodes the fast reader creates, read back through `view` -/
import CG.Proofs.FastAsmC
set_option linter.unusedSimpArgs false
set_option linter.unusedVariables false
namespace CG
namespace FV
open Verilog FastVerilog Circuit

/-- the attributed nodes the reader creates -/
def NodeOf (r : RMod) (bbs : List BBox) (n : Name) (x : Attr) : Prop :=
  (n ∈ r.inputs ∧ x = { ty := some "input", out := none }) ∨ (n = "tie0" ∧ x = { ty := some "0" }) ∨
  (n = "tie1" ∧ x = { ty := some "1" }) ∨
  ∃ k, (∃ s, s ∈ r.stmts ∧ s.dty bbs n k) ∧ x = { ty := some k, out := some false }

theorem defTy_ne_ties {r : RMod} {bbs : List BBox} (h : Restricted r bbs) {n : Name} {t : String}
    (hd : DefTy bbs r.inputs r.stmts n t) : n ≠ "tie0" ∧ n ≠ "tie1" := by
  have := defTy_not_tie (RL.of_restricted h) hd
  simp only [List.mem_cons, List.not_mem_nil, or_false, not_or] at this
  exact ⟨this.1, this.2.1⟩

theorem nodeOf_fun {r : RMod} {bbs : List BBox} (h : Restricted r bbs) {n : Name} {x y : Attr}
    (hx : NodeOf r bbs n x) (hy : NodeOf r bbs n y) : x = y := by
  have hrl := RL.of_restricted h
  have hin : ∀ {m}, m ∈ r.inputs → m ≠ "tie0" ∧ m ≠ "tie1" := fun hm => defTy_ne_ties h (t := "input") (Or.inl ⟨hm, rfl⟩)
  have hdt : ∀ {m s k}, s ∈ r.stmts → s.dty bbs m k → m ≠ "tie0" ∧ m ≠ "tie1" :=
    fun hs hd => defTy_ne_ties h (Or.inr ⟨_, hs, hd⟩)
  rcases hx with ⟨hi, rfl⟩ | ⟨e, rfl⟩ | ⟨e, rfl⟩ | ⟨k, ⟨s, hs, hd⟩, rfl⟩ <;>
    rcases hy with ⟨hi', rfl⟩ | ⟨e', rfl⟩ | ⟨e', rfl⟩ | ⟨k', ⟨s', hs', hd'⟩, rfl⟩
  · rfl
  · exact absurd e' (hin hi).1
  · exact absurd e' (hin hi).2
  · exact absurd hi (hrl.not_input hs' hd')
  · exact absurd e (hin hi').1
  · rfl
  · rw [e] at e'; exact absurd e' (by decide)
  · exact absurd e (hdt hs' hd').1
  · exact absurd e (hin hi').2
  · rw [e] at e'; exact absurd e' (by decide)
  · rfl
  · exact absurd e (hdt hs' hd').2
  · exact absurd hi' (hrl.not_input hs hd)
  · exact absurd e' (hdt hs hd).1
  · exact absurd e' (hdt hs hd).2
  · rw [hrl.defTy_fun (Or.inr ⟨s, hs, hd⟩) (Or.inr ⟨s', hs', hd'⟩)]

/-- an edge leaves a constant node exactly when the constant is used -/
theorem tie_edge_iff {r : RMod} {bbs : List BBox} (h : Restricted r bbs) (k : ROp) (hk : k = .c0 ∨ k = .c1) :
    (∃ v, EdgeOf bbs r.stmts "tie0" "tie1" (k.nm "tie0" "tie1", v)) ↔ ConstUsed bbs r.stmts k := by
  constructor
  · rintro ⟨v, s, hs, x, b, hxb, e⟩
    injection e with e1 e2
    have hxv := edge_src_valid (h.stmts s hs) hxb (t0 := "tie0") (t1 := "tie1") (by simp) (by simp)
    have hkv : k.Valid "tie0" "tie1" := by rcases hk with rfl | rfl <;> trivial
    have := nm_inj (by decide) hkv hxv e1
    subst this
    exact ⟨s, hs, b, hxb⟩
  · rintro ⟨s, hs, b, hb⟩
    exact ⟨b, s, hs, k, b, hb, rfl⟩

theorem floating_ne_ties {r : RMod} {bbs : List BBox} (h : Restricted r bbs) {n : Name}
    (hf : Floating bbs r.inputs r.stmts n) : n ≠ "tie0" ∧ n ≠ "tie1" := by
  have := (floating_plain h.stmts hf).ne_ties
  exact ⟨this.1, this.2.1⟩

theorem floating_not_output {r : RMod} {bbs : List BBox} (h : Restricted r bbs) {n : Name}
    (hf : Floating bbs r.inputs r.stmts n) : n ∉ r.outputs := by
  intro hm
  obtain ⟨t, ht⟩ := h.out_def hm
  exact hf.2 t ht

theorem view4 {r : RMod} {bbs : List BBox} (h : Restricted r bbs) {g2 g4 : Circuit}
    (g2a : ∀ n x, g2.attr? n = some x ↔
      NodeOf r bbs n x ∨ (Floating bbs r.inputs r.stmts n ∧ x = { ty := some "buf", out := some false }))
    (g4a : ∀ n, g4.attr? n =
      (g2.attr? n).map (fun a => if n ∈ r.outputs then { a with out := some true } else a)) (n : Name)
    (a : Option String × Bool) :
    view g4 n = some a ↔
      (∃ t, DefTy bbs r.inputs r.stmts n t ∧ a = (some t, decide (n ∈ r.outputs))) ∨
      (n = "tie0" ∧ a = (some "0", false)) ∨ (n = "tie1" ∧ a = (some "1", false)) ∨
      (Floating bbs r.inputs r.stmts n ∧ a = (some "buf", false)) := by
  have key : ∀ x, g2.attr? n = some x → x.out.getD false = false →
      view g4 n = some (x.ty, decide (n ∈ r.outputs)) := by
    intro x hx ho
    unfold view
    rw [g4a, hx]
    by_cases hn : n ∈ r.outputs
    · simp [hn]
    · simp [hn, ho]
  have hout : ∀ m, m ∈ r.outputs → m ≠ "tie0" ∧ m ≠ "tie1" := by
    intro m hm
    obtain ⟨t, ht⟩ := h.out_def hm
    exact defTy_ne_ties h ht
  constructor
  · intro hv
    cases hx : g2.attr? n with
    | none =>
      unfold view at hv
      rw [g4a, hx] at hv
      cases hv
    | some x =>
      rcases (g2a n x).1 hx with (⟨hi, rfl⟩ | ⟨e, rfl⟩ | ⟨e, rfl⟩ | ⟨k, ⟨s, hs, hd⟩, rfl⟩) | ⟨hfl, rfl⟩
      · rw [key _ hx rfl] at hv
        injection hv with hv
        exact Or.inl ⟨"input", Or.inl ⟨hi, rfl⟩, hv.symm⟩
      · rw [key _ hx rfl] at hv
        injection hv with hv
        have : decide (n ∈ r.outputs) = false := by
          simp only [decide_eq_false_iff_not]
          exact fun hm => (hout n hm).1 e
        rw [this] at hv
        exact Or.inr (Or.inl ⟨e, hv.symm⟩)
      · rw [key _ hx rfl] at hv
        injection hv with hv
        have : decide (n ∈ r.outputs) = false := by
          simp only [decide_eq_false_iff_not]
          exact fun hm => (hout n hm).2 e
        rw [this] at hv
        exact Or.inr (Or.inr (Or.inl ⟨e, hv.symm⟩))
      · rw [key _ hx rfl] at hv
        injection hv with hv
        exact Or.inl ⟨k, Or.inr ⟨s, hs, hd⟩, hv.symm⟩
      · rw [key _ hx rfl] at hv
        injection hv with hv
        have : decide (n ∈ r.outputs) = false := by
          simp only [decide_eq_false_iff_not]
          exact floating_not_output h hfl
        rw [this] at hv
        exact Or.inr (Or.inr (Or.inr ⟨hfl, hv.symm⟩))
  · rintro (⟨t, hd, rfl⟩ | ⟨e, rfl⟩ | ⟨e, rfl⟩ | ⟨hfl, rfl⟩)
    · rcases hd with ⟨hi, rfl⟩ | ⟨s, hs, hd⟩
      · exact key _ ((g2a n _).2 (Or.inl (Or.inl ⟨hi, rfl⟩))) rfl
      · exact key _ ((g2a n _).2 (Or.inl (Or.inr (Or.inr (Or.inr ⟨t, ⟨s, hs, hd⟩, rfl⟩))))) rfl
    · have : decide (n ∈ r.outputs) = false := by
        simp only [decide_eq_false_iff_not]
        exact fun hm => (hout n hm).1 e
      rw [key _ ((g2a n _).2 (Or.inl (Or.inr (Or.inl ⟨e, rfl⟩)))) rfl, this]
    · have : decide (n ∈ r.outputs) = false := by
        simp only [decide_eq_false_iff_not]
        exact fun hm => (hout n hm).2 e
      rw [key _ ((g2a n _).2 (Or.inl (Or.inr (Or.inr (Or.inl ⟨e, rfl⟩))))) rfl, this]
    · have : decide (n ∈ r.outputs) = false := by
        simp only [decide_eq_false_iff_not]
        exact floating_not_output h hfl
      rw [key _ ((g2a n _).2 (Or.inr ⟨hfl, rfl⟩)) rfl, this]

/-- the specification of a node, split into "present before the constants are pruned" and "survives pruning" -/
theorem nodeSpec_iff {r : RMod} {bbs : List BBox} (h : Restricted r bbs) (n : Name) (a : Option String × Bool) :
    NodeSpec r bbs "tie0" "tie1" n a ↔
      ((∃ t, DefTy bbs r.inputs r.stmts n t ∧ a = (some t, decide (n ∈ r.outputs))) ∨
        (n = "tie0" ∧ a = (some "0", false)) ∨ (n = "tie1" ∧ a = (some "1", false)) ∨
        (Floating bbs r.inputs r.stmts n ∧ a = (some "buf", false))) ∧
      (n = "tie0" → ConstUsed bbs r.stmts .c0) ∧ (n = "tie1" → ConstUsed bbs r.stmts .c1) := by
  unfold NodeSpec
  constructor
  · rintro (⟨t, hd, ha⟩ | ⟨e, ha, hu⟩ | ⟨e, ha, hu⟩ | ⟨hfl, ha⟩)
    · have := defTy_ne_ties h hd
      exact ⟨Or.inl ⟨t, hd, ha⟩, fun e => absurd e this.1, fun e => absurd e this.2⟩
    · exact ⟨Or.inr (Or.inl ⟨e, ha⟩), fun _ => hu, fun e' => by rw [e] at e'; exact absurd e' (by decide)⟩
    · exact ⟨Or.inr (Or.inr (Or.inl ⟨e, ha⟩)), fun e' => by rw [e] at e'; exact absurd e' (by decide), fun _ => hu⟩
    · have := floating_ne_ties h hfl
      exact ⟨Or.inr (Or.inr (Or.inr ⟨hfl, ha⟩)), fun e => absurd e this.1, fun e => absurd e this.2⟩
  · rintro ⟨⟨t, hd, ha⟩ | ⟨e, ha⟩ | ⟨e, ha⟩ | ⟨hfl, ha⟩, h0, h1⟩
    · exact Or.inl ⟨t, hd, ha⟩
    · exact Or.inr (Or.inl ⟨e, ha, h0 e⟩)
    · exact Or.inr (Or.inr (Or.inl ⟨e, ha, h1 e⟩))
    · exact Or.inr (Or.inr (Or.inr ⟨hfl, ha⟩))

theorem addEdge_name (c : Circuit) (u v : Name) : (c.addEdge u v).name = c.name := by
  unfold addEdge; split <;> rfl

theorem foldl_addEdge_name (l : List (Name × Name)) (c : Circuit) :
    (l.foldl (fun c e => c.addEdge e.1 e.2) c).name = c.name := by
  induction l generalizing c with
  | nil => rfl
  | cons e l ih => simp only [List.foldl_cons]; rw [ih, addEdge_name]

end FV
end CG
