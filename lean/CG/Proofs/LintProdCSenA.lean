/- helper lemmas for C20 (sensitivity_transform passes lint): the result has no blackbox and no dotted name; the node whose
   sensitivity is computed is not a `bb_input` pin -/
import CG.Proofs.LintProdCBase
set_option linter.unusedSimpArgs false
set_option linter.unusedVariables false
namespace CG
namespace LintProd
open Circuit Miter Sens
open Tx (addC)

/-! ### folds with membership -/

theorem foldlM_inv_mem {α β : Type} (P : α → Prop) (f : α → β → E α) :
    ∀ (l : List β) (a a' : α), (∀ a b a', b ∈ l → P a → f a b = .ok a' → P a') → P a →
      l.foldlM f a = .ok a' → P a'
  | [], a, a', _, hp, h => by
    injection h with h
    subst h
    exact hp
  | b :: l, a, a', hf, hp, h => by
    rw [List.foldlM_cons] at h
    obtain ⟨a1, h1, h2⟩ := bind_ok h
    exact foldlM_inv_mem P f l a1 a' (fun a b a' hb => hf a b a' (List.mem_cons_of_mem _ hb))
      (hf a b a1 (List.mem_cons_self) hp h1) h2

theorem liftO_of_eq {r : Circuit × Outcome} {c : Circuit} (h : r = (c, .ok)) : liftO r = .ok c := by
  rw [h]; rfl

/-! ### no dots -/

theorem noDots_invStep {s0 : Name} {A B : Circuit} {s1 : Name} (hA : LintLink.NoDots A)
    (h : invStep s0 A s1 = .ok B) : LintLink.NoDots B := by
  unfold invStep at h
  split at h
  · exact hA.connect h
  · obtain ⟨A0, h0, h1⟩ := bind_ok h
    exact (NoDots.setType hA (liftO_ok h0)).connect h1

theorem noDots_senCopy {cone : Circuit} {sp : List Name} {n : Name} {A B : Circuit} {q : Nat × Name}
    (hcone : LintLink.NoDots cone) (hq : hasDot q.2 = false) (hA : LintLink.NoDots A)
    (h : Tx.senCopy cone sp n A q = .ok B) : LintLink.NoDots B := by
  obtain ⟨i, s0⟩ := q
  obtain ⟨A1, A2, a1, a2, a3⟩ := senCopy_unfold h
  simp only [] at hq
  have hpre : hasDot ("inv_" ++ s0) = false := by
    rw [LintLink.hasDot_append, hq]
    rfl
  have d1 : LintLink.NoDots A1 := hA.addSub hcone hpre (liftO_of_eq a1)
  have d2 : LintLink.NoDots A2 :=
    LintLink.foldlM_inv LintLink.NoDots (invStep s0) (fun a b a' ha hab => noDots_invStep ha hab) sp A1 A2 d1 a2
  refine d2.addC ?_ rfl rfl a3
  show hasDot ("dif_out_" ++ s0) = false
  rw [LintLink.hasDot_append, hq]
  rfl

/-- the result of `sensitivity_transform` has no blackbox and no dotted name -/
theorem sen_noDots {cone pcC : Circuit} {sp : List Name} {n : Name} {k : Nat} {s0 s1 s2 s3 sen : Circuit}
    (hcone : LintLink.NoDots cone) (hpc : LintLink.NoDots pcC) (hsp : ∀ s ∈ sp, hasDot s = false)
    (h0 : ({} : Circuit).addSubcircuit cone "orig" [] = (s0, .ok))
    (h1 : sp.foldlM (fun acc s => addC acc (tieA s)) s0 = .ok s1)
    (h2 : s1.addSubcircuit pcC "pc" [] = (s2, .ok))
    (h3 : (idxL sp).foldlM (Tx.senCopy cone sp n) s2 = .ok s3)
    (h4 : (List.range k).foldlM (fun acc o => addC acc (outA o)) s3 = .ok sen) : LintLink.NoDots sen := by
  have d0 : LintLink.NoDots s0 :=
    (LintLink.noDots_empty "circuit").addSub hcone (show hasDot "orig" = false by decide) (liftO_of_eq h0)
  have d1 : LintLink.NoDots s1 := by
    apply foldlM_inv_mem LintLink.NoDots _ sp s0 s1 _ d0 h1
    intro a b a' hb ha hab
    exact ha.addC (hsp b hb) rfl rfl hab
  have d2 : LintLink.NoDots s2 := d1.addSub hpc (show hasDot "pc" = false by decide) (liftO_of_eq h2)
  have d3 : LintLink.NoDots s3 := by
    apply foldlM_inv_mem LintLink.NoDots _ (idxL sp) s2 s3 _ d2 h3
    intro a b a' hb ha hab
    exact noDots_senCopy hcone (hsp _ (mem_idxL_snd hb)) ha hab
  apply LintLink.foldlM_inv LintLink.NoDots _ _ (List.range k) s3 sen d3 h4
  intro a b a' ha hab
  refine ha.addC ?_ rfl rfl hab
  show hasDot ("sen_out_" ++ toString b) = false
  rw [LintLink.hasDot_append, LintLink.hasDot_toString]
  rfl

/-! ### the analysed node is not a `bb_input` pin -/

theorem difA_fanin_orig (n s0 : Name) (i : Nat) : pref "orig" n ∈ (difA n s0 i).fanin := by
  rw [pref_orig]; simp [difA]

theorem idxL_length (sp : List Name) : (idxL sp).length = sp.length := by
  unfold idxL
  rw [List.length_map, List.length_zipIdx]

theorem orig_ne_inv (n s0 y : Name) : pref "orig" n ≠ pref ("inv_" ++ s0) y := by
  rw [pref_orig]
  unfold pref
  name_ne

/-- the `xor` comparing `orig_n` with its inverted copies could not be wired to a `bb_input` node -/
theorem sen_n_not_bbi {cone pcC : Circuit} {sp : List Name} {n : Name} {s0 s1 s2 s3 : Circuit}
    (wfcone : WF cone) (wfpc : WF pcC) (hpos : 1 ≤ sp.length) (hn : cone.has n = true)
    (h0 : ({} : Circuit).addSubcircuit cone "orig" [] = (s0, .ok))
    (h1 : sp.foldlM (fun acc s => addC acc (tieA s)) s0 = .ok s1)
    (h2 : s1.addSubcircuit pcC "pc" [] = (s2, .ok))
    (h3 : (idxL sp).foldlM (Tx.senCopy cone sp n) s2 = .ok s3) : cone.ty? n ≠ some "bb_input" := by
  obtain ⟨n0, _, _, w0⟩ := sub_exact wf_empty wfcone h0
  obtain ⟨n1, _, _, w1⟩ := foldAdd_ok tieA plain_tieA sp s0 s1 w0 h1
  obtain ⟨n2, _, _, w2⟩ := sub_exact w1 wfpc h2
  obtain ⟨a, ha⟩ := has_exists hn
  have hm0 : (pref "orig" n, stripA a) ∈ s0.nodes := by
    rw [n0]
    exact List.mem_append.2 (Or.inr (List.mem_map.2 ⟨(n, a), ha, rfl⟩))
  have hh0 : s0.has (pref "orig" n) = true := Miter.has_of_mem hm0
  have hh1 : s1.has (pref "orig" n) = true := has_mono_of_names (names_append n1) hh0
  have hh2 : s2.has (pref "orig" n) = true := has_mono_of_names (names_append n2) hh1
  have ty2 : s2.ty? (pref "orig" n) = (stripA a).ty := by
    rw [Arith.ty?_append_left n2 hh1, Arith.ty?_append_left n1 hh0, ty?, attr?_of_mem w0.nodup hm0]
    rfl
  cases hL : idxL sp with
  | nil =>
    have := idxL_length sp
    rw [hL] at this
    simp only [List.length_nil] at this
    omega
  | cons q L =>
    rw [hL] at h3
    obtain ⟨B, hB, _⟩ := foldlM_cons_ok h3
    obtain ⟨i, s0'⟩ := q
    obtain ⟨A1, A2, a1, a2, a3⟩ := senCopy_unfold hB
    obtain ⟨nA1, _, _, wA1⟩ := sub_exact w2 wfcone a1
    obtain ⟨wA2, nmA2, _, tyA2, _, _⟩ := invFold s0' sp A1 A2 a2 wA1
    obtain ⟨t, ht, hnot, _⟩ := add_fanin_src_ty (plain_difA n s0' i) a3 (show "xor" ≠ "buf" by decide)
      (difA_fanin_orig n s0' i)
    rw [tyA2 _ (orig_ne_inv n s0' s0'), Arith.ty?_append_left nA1 hh2, ty2] at ht
    intro hty
    have hat : a.ty = some "bb_input" := by
      rw [ty?, attr?_of_mem wfcone.nodup ha] at hty
      exact hty
    rw [stripA_ty_of_ne hat (by decide)] at ht
    injection ht with ht
    exact hnot ht.symm

end LintProd
end CG
