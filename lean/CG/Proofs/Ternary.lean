/- helper lemmas for C10 (ternary encoding): entry point.
   TernaryAlg    three-valued algebra, the evaluation folds, the encoding gate family by gate family
   TernaryNames  companion names `m_X[_k]` vs helper names `base<sfx>[_k]`: disjoint, companion map injective
   TernaryAdd    a successful `Circuit.add` call described by its effect on nodes, attributes and edges
   TernaryFrame  frames between states, the working invariant, fresh helper gates and companion definitions
   TernaryStep   the gadget built for one node, its stability, the operand loops
   TernaryNode   one iteration of the main loop (`Tx.ternaryNode`)
   TernaryMain   the companion table, the main loop, the final state
   TernarySem    consistent valuations of the encoded circuit denote fixpoints of the Kleene step
   TernaryTop    the statements of C10 in the helper vocabulary
   TernaryEx     decidable checks for the non-vacuity examples -/
import CG.Tx
import CG.Spec
import CG.Kleene
import CG.Proofs.TernaryAlg
import CG.Proofs.TernaryTop
import CG.Proofs.TernaryEx
namespace CG
end CG
