/- helper lemmas for C06 (add_subcircuit / fill_blackbox): aggregator of the `Compose*` files -/
import CG.Tx
import CG.Spec
import CG.Proofs.ComposeBase
import CG.Proofs.ComposeView
import CG.Proofs.ComposeSub
import CG.Proofs.ComposeSubThm
import CG.Proofs.ComposeRel
import CG.Proofs.ComposeFill
import CG.Proofs.ComposeFillThm
