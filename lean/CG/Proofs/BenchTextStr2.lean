/- C15 (character level) helper: `stripComments`, `squeeze` and the splitting of operand lists, on character lists -/
import CG.Bench
import CG.Proofs.BenchTextStr
set_option linter.unusedSimpArgs false
namespace CG
namespace BenchText
open Bench

/-- a line without its comment -/
def stripLine (l : List Char) : List Char := (l.splitOn '#').headD []

theorem stripLine_of_not_mem {l : List Char} (h : '#' ∉ l) : stripLine l = l := by
  unfold stripLine
  rw [List.splitOn_eq_singleton h]
  rfl

theorem stripLine_hash (l : List Char) : stripLine ('#' :: l) = [] := by
  unfold stripLine
  have := List.splitOn_append_cons_self_of_not_mem (a := '#') (xs := []) (as := l) (by simp)
  simp only [List.nil_append] at this
  rw [this]
  rfl

theorem headD_map {α β : Type} (f : α → β) (l : List α) (a : α) : (l.map f).headD (f a) = f (l.headD a) := by
  cases l <;> rfl

theorem stripComments_toList (s : String) :
    (stripComments s).toList = ['\n'].intercalate ((s.toList.splitOn '\n').map stripLine) := by
  unfold stripComments
  have e1 : ("\n" : String) = String.singleton '\n' := rfl
  have e2 : ("#" : String) = String.singleton '#' := rfl
  rw [String.toList_intercalate, e1, e2, splitOn_single]
  simp only [List.map_map]
  congr 1
  apply List.map_congr_left
  intro l _
  simp only [Function.comp]
  rw [splitOn_single, String.toList_ofList]
  unfold stripLine
  have : ("" : String) = String.ofList [] := rfl
  rw [this, headD_map, String.toList_ofList]

/-- stripping the comments of a text given as lines -/
theorem stripComments_lines (s : String) (ls : List (List Char)) (hne : ls ≠ []) (hnl : ∀ l ∈ ls, '\n' ∉ l)
    (h : s.toList = ['\n'].intercalate ls) : (stripComments s).toList = ['\n'].intercalate (ls.map stripLine) := by
  rw [stripComments_toList, h, List.splitOn_intercalate _ hnl hne]

theorem squeeze_toList (s : String) :
    (squeeze s).toList = s.toList.filter (fun c => !pySpace c) := by
  unfold squeeze
  rw [String.toList_ofList]

/-- `pySpace` on the code point -/
theorem pySpace_iff (c : Char) : pySpace c = true ↔
    ((9 ≤ c.toNat ∧ c.toNat ≤ 13) ∨ (28 ≤ c.toNat ∧ c.toNat ≤ 32) ∨ c.toNat = 133 ∨ c.toNat = 160 ∨ c.toNat = 5760 ∨
      (8192 ≤ c.toNat ∧ c.toNat ≤ 8202) ∨ c.toNat = 8232 ∨ c.toNat = 8233 ∨ c.toNat = 8239 ∨ c.toNat = 8287 ∨
      c.toNat = 12288) := by
  simp only [pySpace, Bool.or_eq_true, Bool.and_eq_true, decide_eq_true_eq, beq_iff_eq]
  omega

/-- a character below `'{'` and above `' '` (in particular every identifier character) is no white space -/
theorem pySpace_false_of_range {c : Char} (h1 : 33 ≤ c.toNat) (h2 : c.toNat ≤ 126) : pySpace c = false := by
  cases h : pySpace c with
  | false => rfl
  | true => rw [pySpace_iff] at h; omega

/-- characters that `squeeze` keeps (no white space in the sense of `str.isspace`) and that are no separator -/
def Solid (l : List Char) : Prop := ∀ x ∈ l, pySpace x = false ∧ x ≠ ','

theorem filter_solid {l : List Char} (h : Solid l) :
    l.filter (fun c => !pySpace c) = l := by
  rw [List.filter_eq_self]
  intro x hx
  simp [(h x hx).1]

theorem squeeze_solid {s : String} (h : Solid s.toList) : squeeze s = s := by
  rw [← String.toList_inj, squeeze_toList, filter_solid h]

theorem filter_commas : ∀ (ls : List (List Char)), (∀ l ∈ ls, Solid l) →
    ([',', ' '].intercalate ls).filter (fun c => !pySpace c) = [','].intercalate ls
  | [], _ => rfl
  | [l], h => by
    simp only [List.intercalate, List.intersperse_singleton, List.flatten_cons, List.flatten_nil, List.append_nil]
    exact filter_solid (h l (by simp))
  | l :: l' :: ls, h => by
    have ih := filter_commas (l' :: ls) (fun x hx => h x (by simp [hx]))
    simp only [List.intercalate] at ih ⊢
    simp only [List.intersperse_cons_cons, List.flatten_cons, List.filter_append] at ih ⊢
    rw [ih, filter_solid (h l (by simp))]
    have e : List.filter (fun c => !pySpace c) [',', ' '] = [','] := by decide
    rw [e]

/-- the operand list of a gate line is split back into the operands -/
theorem split_operands (ins : List String) (hne : ins ≠ []) (h : ∀ i ∈ ins, Solid i.toList) :
    (squeeze (", ".intercalate ins)).splitOn "," = ins := by
  have e1 : ("," : String) = String.singleton ',' := rfl
  rw [e1, splitOn_single, squeeze_toList, String.toList_intercalate]
  have e2 : (", " : String).toList = [',', ' '] := rfl
  rw [e2, filter_commas _ (by
    intro l hl
    obtain ⟨i, hi, rfl⟩ := List.mem_map.mp hl
    exact h i hi)]
  rw [List.splitOn_intercalate]
  · rw [List.map_map]
    have : String.ofList ∘ String.toList = id := by funext x; simp
    rw [this, List.map_id]
  · intro l hl
    obtain ⟨i, hi, rfl⟩ := List.mem_map.mp hl
    intro hm
    exact (h i hi _ hm).2 rfl
  · simpa using hne

theorem split_one (n : String) (h : Solid n.toList) : (squeeze n).splitOn "," = [n] := by
  have := split_operands [n] (by simp) (by simpa using h)
  have e : ", ".intercalate [n] = n := by
    rw [← String.toList_inj, String.toList_intercalate]
    simp [List.intercalate]
  rw [e] at this
  exact this

end BenchText
end CG
