/- C15 helper: reading back what the writer emitted -/
import CG.Proofs.BenchWF
import CG.Proofs.LimitRefine
set_option linter.unusedSimpArgs false
set_option linter.unusedVariables false
namespace CG
namespace BenchP
open Circuit Ternary Bench

theorem isOut_iff {c : Circuit} (hnd : c.nodeNames.Nodup) (x : Name) : c.isOut x = true ↔ x ∈ c.outputs := by
  unfold Circuit.isOut
  cases ha : c.attr? x with
  | none =>
    simp only [Bool.false_eq_true, false_iff]
    intro hx
    have := mem_outputs_has hx
    rw [has_eq_isSome, ha] at this; cases this
  | some a =>
    rw [mem_outputs_of_mem hnd (attr?_mem ha)]
    simp only []
    cases hao : a.out with
    | none => simp
    | some b => cases b <;> simp

/-- everything known about one round trip -/
structure RT (c : Circuit) (ord : Ord) (c' : Circuit) : Prop where
  ex : ∃ (i : Name) (gs : List Def) (invO : Option Name), i ∈ c.inputs ∧
    WInv c ord i (ord (nonInputs c)) gs invO ∧ WFP (ord c.inputs) gs [] (ord c.outputs) ∧
    Built (defsOf (ord c.inputs) gs []) [] (ord c.outputs) c'

theorem roundtrip_ex {c : Circuit} {ord : Ord} (hc : WritableP c) (hord : OrdOK ord) :
    ∃ ss c', toStmts c ord = .ok ss ∧ build c.name ss = .ok c' ∧ RT c ord c' := by
  obtain ⟨i, gs, invO, hi, h, e⟩ := hc.written hord
  have hw := hc.wfp hord hi h
  obtain ⟨c', e', B⟩ := build_struct c.name hw
  exact ⟨_, c', e, e', ⟨i, gs, invO, hi, h, hw, B⟩⟩

section
variable {c : Circuit} {ord : Ord} {c' : Circuit} {i : Name} {gs : List Def} {invO : Option Name}

theorem mem_defs_gs {ins : List Name} {g : Def} (hg : g ∈ gs) : g ∈ defsOf ins gs [] := by
  unfold defsOf; simp [hg]

theorem mem_defs_in {ins : List Name} {x : Name} (hx : x ∈ ins) : ((x, "input", []) : Def) ∈ defsOf ins gs [] := by
  unfold defsOf insDefs
  simp only [List.mem_append, List.mem_map]
  exact Or.inl ⟨x, hx, rfl⟩

theorem mem_defs_cases {ins : List Name} {d : Def} (hd : d ∈ defsOf ins gs []) :
    (∃ x ∈ ins, d = (x, "input", [])) ∨ d ∈ gs := by
  unfold defsOf insDefs dffDefs at hd
  simp only [List.map_nil, List.append_nil, List.mem_append, List.mem_map] at hd
  rcases hd with ⟨x, hx, e⟩ | hd
  · exact Or.inl ⟨x, hx, e.symm⟩
  · exact Or.inr hd

/-- the line written for a non-input node -/
theorem gs_of_node (hc : WritableP c) (hord : OrdOK ord) (h : WInv c ord i (ord (nonInputs c)) gs invO) {x : Name}
    (hx : c.has x = true) (hni : x ∉ c.inputs) :
    ∃ g ∈ gs, g.1 = x ∧ ∃ t, c.ty? x = some t ∧ GDesc c ord i invO g t := by
  have hL : x ∈ ord (nonInputs c) := (hord _).mem_iff.mpr ((mem_nonInputs c x).mpr ⟨hx, hni⟩)
  obtain ⟨g, hg, rfl⟩ := List.mem_map.mp ((h.mem x).mpr (Or.inl hL))
  rcases h.desc g hg with ⟨_, t, h1, h2⟩ | ⟨h1, _⟩
  · exact ⟨g, hg, rfl, t, h1, h2⟩
  · have := h.inv_fresh h1
    rw [hx] at this; cases this

theorem ty_mem_nodes {c : Circuit} {x : Name} {t : String} (h : c.ty? x = some t) :
    ∃ a, (x, a) ∈ c.nodes ∧ a.ty = some t := by
  obtain ⟨a, ha⟩ := Limit.attr_of_has (has_of_ty? h)
  refine ⟨a, attr?_mem ha, ?_⟩
  rw [ty_of_attr ha] at h; exact h
end

/-! ### the exact round trip (no constants) -/

theorem roundtrip_exactP {c : Circuit} {ord : Ord} {c' : Circuit} (hc : WritableP c) (hord : OrdOK ord)
    (hnc : ∀ p ∈ c.nodes, p.2.ty ≠ some "0" ∧ p.2.ty ≠ some "1") (R : RT c ord c') :
    (∀ n, c'.has n = c.has n) ∧ (∀ n, c.has n = true → c'.ty? n = c.ty? n ∧ c'.isOut n = c.isOut n) ∧
      (∀ e, e ∈ c'.edges ↔ e ∈ c.edges) := by
  obtain ⟨i, gs, invO, hi, h, hw, B⟩ := R.ex
  have hnd := hc.clean.nodup
  have hin : ∀ x, x ∈ ord c.inputs ↔ x ∈ c.inputs := fun x => (hord _).mem_iff
  have noConst : ∀ x t, c.ty? x = some t → t ≠ "0" ∧ t ≠ "1" := by
    intro x t ht
    obtain ⟨a, ha, hat⟩ := ty_mem_nodes ht
    have := hnc (x, a) ha
    constructor
    · rintro rfl; exact this.1 hat
    · rintro rfl; exact this.2 hat
  have hinv : invO = none := by
    cases hv : invO with
    | none => rfl
    | some inv =>
      exfalso
      obtain ⟨_, _, n, _, h1 | h1⟩ := h.uid inv hv
      · exact (noConst n _ h1).1 rfl
      · exact (noConst n _ h1).2 rfl
  have hprim : ∀ x, c.has x = true → x ∉ c.inputs →
      ∃ g ∈ gs, g.1 = x ∧ c.ty? x = some g.2.1 ∧ g.2.2 = ord (c.fanin x) := by
    intro x hx hni
    obtain ⟨g, hg, rfl, t, ht, hd | ⟨rfl, _⟩ | ⟨rfl, _⟩⟩ := gs_of_node hc hord h hx hni
    · exact ⟨g, hg, rfl, by rw [hd.2.1]; exact ht, hd.2.2⟩
    · exact absurd rfl (noConst _ _ ht).1
    · exact absurd rfl (noConst _ _ ht).2
  have hhas : ∀ n, c'.has n = true ↔ c.has n = true := by
    intro n
    rw [B.has, mem_names_defsOf]
    simp only [List.map_nil, List.not_mem_nil, or_false, false_and, exists_false]
    have hmem' : ∀ x, x ∈ gs.map (·.1) ↔ (x ∈ ord (nonInputs c) ∨ invO = some x) := h.mem
    rw [hin, hmem', hinv, (hord _).mem_iff, mem_nonInputs]
    constructor
    · rintro (h1 | (h1 | h1))
      · exact mem_inputs_has h1
      · exact h1.1
      · cases h1
    · intro h1
      by_cases h2 : n ∈ c.inputs
      · exact Or.inl h2
      · exact Or.inr (Or.inl ⟨h1, h2⟩)
  have hattr : ∀ n, c.has n = true → ∃ t, c'.attr? n = some { ty := some t, out := some (decide (n ∈ ord c.outputs)) } ∧
      c.ty? n = some t := by
    intro n hn
    by_cases h2 : n ∈ c.inputs
    · exact ⟨"input", B.attrD _ (mem_defs_in ((hin n).mpr h2)), (CG.mem_inputs hnd n).mp h2⟩
    · obtain ⟨g, hg, rfl, ht, _⟩ := hprim n hn h2
      exact ⟨g.2.1, B.attrD g (mem_defs_gs hg), ht⟩
  refine ⟨?_, ?_, ?_⟩
  · intro n; rw [Bool.eq_iff_iff]; exact hhas n
  · intro n hn
    obtain ⟨t, ha, ht⟩ := hattr n hn
    refine ⟨by rw [ty_of_attr ha, ht], ?_⟩
    rw [Bool.eq_iff_iff, isOut_iff hnd]
    unfold Circuit.isOut
    rw [ha]
    simp only [Option.getD_some, decide_eq_true_eq]
    exact (hord _).mem_iff
  · intro e
    rw [B.edges]
    simp only [List.not_mem_nil, false_and, exists_false, or_false]
    constructor
    · rintro ⟨d, hd, h1, h2⟩
      rcases mem_defs_cases hd with ⟨x, _, rfl⟩ | hg
      · cases h2
      · rcases h.desc d hg with ⟨_, t, ht, hd' | ⟨rfl, _⟩ | ⟨rfl, _⟩⟩ | ⟨h3, _⟩
        · rw [hd'.2.2, (hord _).mem_iff, mem_fanin, ← h1] at h2
          exact h2
        · exact absurd rfl (noConst _ _ ht).1
        · exact absurd rfl (noConst _ _ ht).2
        · rw [hinv] at h3; cases h3
    · intro he
      have hcl := hc.clean.closed e he
      have hni : e.2 ∉ c.inputs := by
        intro hm
        have := hc.clean.noFanin e.2 "input" ((CG.mem_inputs hnd _).mp hm) (by decide)
        have hmem : e.1 ∈ c.fanin e.2 := mem_fanin.mpr he
        rw [this] at hmem; cases hmem
      obtain ⟨g, hg, h1, _, h3⟩ := hprim e.2 hcl.2 hni
      refine ⟨g, mem_defs_gs hg, h1.symm, ?_⟩
      rw [h3, (hord _).mem_iff, mem_fanin]
      exact he

/-! ### the general round trip: interface and refinement -/

theorem gateFn_and2 (a b : Bool) : gateFn "and" [a, b] = some (a && b) := by simp [gateFn]
theorem gateFn_or2 (a b : Bool) : gateFn "or" [a, b] = some (a || b) := by simp [gateFn]
theorem gateFn_not1 (a : Bool) : gateFn "not" [a] = some (!a) := by simp [gateFn]
theorem gateFn_zero (l : List Bool) : gateFn "0" l = some false := by simp [gateFn]
theorem gateFn_one (l : List Bool) : gateFn "1" l = some true := by simp [gateFn]
theorem gateFn_input (l : List Bool) : gateFn "input" l = none := by simp [gateFn]

theorem roundtrip_ifaceP {c : Circuit} {ord : Ord} {c' : Circuit} (hc : WritableP c) (hord : OrdOK ord)
    (R : RT c ord c') :
    (∀ x, x ∈ c'.inputs ↔ x ∈ c.inputs) ∧ (∀ x, x ∈ c'.outputs ↔ x ∈ c.outputs) := by
  obtain ⟨i, gs, invO, hi, h, hw, B⟩ := R.ex
  constructor
  · intro x
    rw [B.mem_inputs, ← (hord c.inputs).mem_iff]
    constructor
    · rintro ⟨d, hd, rfl, h2⟩
      rcases mem_defs_cases hd with ⟨y, hy, rfl⟩ | hg
      · exact hy
      · exact absurd h2 (gateTys_facts (hw.gateTy d hg)).2.2.2.1
    · intro hx
      exact ⟨_, mem_defs_in hx, rfl, rfl⟩
  · intro x
    rw [B.mem_outputs (fun y hy => mem_names_defsOf.mpr (hw.outsDef y hy)), (hord _).mem_iff]

theorem roundtrip_refinesP {c : Circuit} {ord : Ord} {c' : Circuit} (hc : WritableP c) (hord : OrdOK ord)
    (R : RT c ord c') : Refines c c' id := by
  obtain ⟨i, gs, invO, hi, h, hw, B⟩ := R.ex
  have hnd := hc.clean.nodup
  have hndD : (names (defsOf (ord c.inputs) gs [])).Nodup := by
    rw [names_defsOf, ← List.append_assoc]; exact hw.defsNodup
  have hdot : ∀ x ∈ names (defsOf (ord c.inputs) gs []), ¬ hasDotB x :=
    fun x hx => (hw.names x (mem_names_defsOf.mp hx)).2.2
  have hnodff : ∀ x : Name, x ∉ ([] : List (Name × Name)).map (·.1) := fun x hx => by cases hx
  have hihas : c.has i = true := mem_inputs_has hi
  constructor
  · -- every valuation of the re-read circuit is one of the original
    intro v' hv' p hp t ht b hb
    change gateFn t ((c.fanin p.1).map v') = some b at hb
    show v' p.1 = b
    have hx : c.has p.1 = true := (RU.has_iff_exists c p.1).mpr ⟨p.2, hp⟩
    have hty : c.ty? p.1 = some t := by rw [ty_of_attr (attr?_of_mem hnd hp)]; exact ht
    by_cases hpi : p.1 ∈ c.inputs
    · have := (CG.mem_inputs hnd p.1).mp hpi
      rw [hty] at this
      rw [Option.some.inj this, gateFn_input] at hb
      cases hb
    · obtain ⟨g, hg, hg1, t0, ht0, hd⟩ := gs_of_node hc hord h hx hpi
      rw [hty] at ht0
      have ht0' : t = t0 := Option.some.inj ht0
      subst ht0'
      have eqn := fun b hb => B.gate_eq hndD hdot (mem_defs_gs hg) (hnodff _) (hw.gateArity g hg).2.1 v' hv' b hb
      rw [← hg1]
      have invEq : ∀ inv, invO = some inv → v' inv = !v' i := by
        intro inv hinv
        have hm := (h.uid inv hinv).2.1
        exact B.gate_eq hndD hdot (mem_defs_gs hm) (hnodff _) (hw.gateArity _ hm).2.1 v' hv' (!v' i)
          (gateFn_not1 _)
      rcases hd with ⟨_, e1, e2⟩ | ⟨rfl, e1, inv, e3, e4⟩ | ⟨rfl, e1, inv, e3, e4⟩
      · apply eqn
        rw [e1, e2, Limit.gateFn_perm_any t ((hord _).map v'), hg1]
        exact hb
      · rw [gateFn_zero] at hb
        rw [← Option.some.inj hb, eqn (v' i && v' inv) (by rw [e1, e4]; exact gateFn_and2 _ _), invEq inv e3]
        cases v' i <;> rfl
      · rw [gateFn_one] at hb
        rw [← Option.some.inj hb, eqn (v' i || v' inv) (by rw [e1, e4]; exact gateFn_or2 _ _), invEq inv e3]
        cases v' i <;> rfl
  · -- every valuation of the original extends to the re-read circuit (the inverter gets `¬ i`)
    intro v hv
    obtain ⟨v', hv'def⟩ : ∃ v' : Val, v' = fun x => if invO = some x then !v i else v x := ⟨_, rfl⟩
    have agree : ∀ n, c.has n = true → v' n = v n := by
      intro n hn
      have : invO ≠ some n := by
        intro e
        have := h.inv_fresh e
        rw [hn] at this; cases this
      rw [hv'def]; simp only [this, if_false]
    have invV : ∀ inv, invO = some inv → v' inv = !v i := by
      intro inv e
      rw [hv'def]; simp only [e, if_true]
    refine ⟨v', ?_, fun n hn => agree n hn⟩
    intro p hp t ht b hb
    have hx : c'.has p.1 = true := (RU.has_iff_exists c' p.1).mpr ⟨p.2, hp⟩
    have hD : p.1 ∈ names (defsOf (ord c.inputs) gs []) := by
      rcases (B.has p.1).mp hx with h1 | ⟨d, hd, _⟩
      · exact h1
      · cases hd
    obtain ⟨d, hd, hd1⟩ := List.mem_map.mp hD
    have hops : d.2.2.Nodup := by
      rcases mem_defs_cases hd with ⟨y, _, rfl⟩ | hg
      · exact List.nodup_nil
      · exact (hw.gateArity d hg).2.1
    have htd : t = d.2.1 := by
      have h1 := attr?_of_mem B.nodupN hp
      have hd1' : d.1 = p.1 := hd1
      rw [← hd1', B.attrD d hd] at h1
      have : p.2.ty = some d.2.1 := by rw [← Option.some.inj h1]
      rw [ht] at this
      exact Option.some.inj this
    have hd1' : d.1 = p.1 := hd1
    rw [← hd1'] at hb ⊢
    unfold NodeOK at *
    rw [Limit.gateFn_perm_any t ((B.fanin_perm hndD hdot hd (hnodff _) hops).map v'), htd] at hb
    rcases mem_defs_cases hd with ⟨y, _, rfl⟩ | hg
    · rw [gateFn_input] at hb; cases hb
    · rcases h.desc d hg with ⟨hdL, t0, ht0, hdesc⟩ | ⟨e0, e1, e2⟩
      · have hdn : c.has d.1 = true := h.doneHas _ hdL
        rw [agree _ hdn]
        obtain ⟨a, ha, hat⟩ := ty_mem_nodes ht0
        rcases hdesc with ⟨_, e1, e2⟩ | ⟨rfl, e1, inv, e3, e4⟩ | ⟨rfl, e1, inv, e3, e4⟩
        · apply hv (d.1, a) ha t0 hat b
          rw [e1, e2, Limit.gateFn_perm_any t0 ((hord _).map v')] at hb
          have hmap : (c.fanin d.1).map v' = (c.fanin d.1).map v := by
            apply List.map_congr_left
            intro x hx
            exact agree x (hc.clean.closed _ (mem_fanin.mp hx)).1
          rw [← hmap]; exact hb
        · rw [e1, e4] at hb
          simp only [List.map_cons, List.map_nil] at hb
          rw [gateFn_and2, invV inv e3, agree i hihas] at hb
          rw [hv (d.1, a) ha "0" hat false (gateFn_zero _), ← Option.some.inj hb]
          cases v i <;> rfl
        · rw [e1, e4] at hb
          simp only [List.map_cons, List.map_nil] at hb
          rw [gateFn_or2, invV inv e3, agree i hihas] at hb
          rw [hv (d.1, a) ha "1" hat true (gateFn_one _), ← Option.some.inj hb]
          cases v i <;> rfl
      · rw [e1, e2] at hb
        simp only [List.map_cons, List.map_nil] at hb
        rw [gateFn_not1, agree i hihas] at hb
        rw [invV d.1 e0, ← Option.some.inj hb]

end BenchP
end CG
