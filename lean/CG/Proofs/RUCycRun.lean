/- `remove_unloaded` on possibly cyclic circuits: running the loop, the final characterisation and the exact statement -/
import CG.Proofs.RUCycInv
namespace CG
namespace RUC
open RU

theorem run {c : Circuit} (hg : GoodCyc c) {inputs : Bool} {ord : Ord} (hord : OrdOK ord) :
    ∀ (fuel : Nat) (rem wl : List Name), Inv c inputs rem wl → (restrict c rem).nodes.length < fuel →
      ∃ rem', Circuit.removeUnloadedGo inputs ord fuel (restrict c rem) wl rem
          = some (restrict c rem', rem'.reverse) ∧ Inv c inputs rem' []
  | 0, _, _, _, hlt => absurd hlt (Nat.not_lt_zero _)
  | fuel + 1, rem, wl, hinv, hlt => by
    rcases List.eq_nil_or_concat wl with rfl | ⟨wl0, n, rfl⟩
    · exact ⟨rem, go_nil _ _ _ _ _, hinv⟩
    · rw [List.concat_eq_append] at hinv ⊢
      rw [go_concat, restrict_removeNode]
      have hn : n ∈ wl0 ++ [n] := by simp
      have hlt' := restrict_length_lt c rem n (hinv.disj n hn) (hinv.wlOK n hn).1
      exact run hg hord fuel (n :: rem) _ (hinv.step hg hord) (by omega)

/-- when the worklist is empty the survivors form a self-sustaining set, so everything not kept has been deleted -/
theorem Inv.final {c : Circuit} (hg : GoodCyc c) {inputs : Bool} {rem : List Name} (h : Inv c inputs rem []) :
    ∀ n, n ∈ rem ↔ (c.has n = true ∧ ¬ Kept c inputs n) := by
  intro n
  constructor
  · intro hn
    exact ⟨h.remHas n hn, h.dead n (Or.inl hn)⟩
  · rintro ⟨hh, hd⟩
    apply Classical.byContradiction
    intro hnr
    apply hd
    refine ⟨fun m => c.has m = true ∧ m ∉ rem, ?_, hh, hnr⟩
    rintro m ⟨hm, hmr⟩
    refine ⟨hm, ?_⟩
    by_cases hk : Kept c inputs m
    · rcases (kept_unfold hk).2 with ho | hr | ⟨b, hb, hkb⟩
      · exact Or.inl ho
      · exact Or.inr (Or.inl hr)
      · exact Or.inr (Or.inr ⟨b, hb, (hg.closed _ hb).2, fun hbr => h.dead b (Or.inl hbr) hkb⟩)
    · obtain ⟨b, hb, hbr⟩ := h.complete m hm hk hmr List.not_mem_nil
      exact Or.inr (Or.inr ⟨b, hb, (hg.closed _ hb).2, hbr⟩)

theorem spec {c : Circuit} (hg : GoodCyc c) (inputs : Bool) {ord : Ord} (hord : OrdOK ord) :
    ∃ rem, c.removeUnloaded inputs ord = some (restrict c rem, rem.reverse) ∧ rem.Nodup ∧
      ∀ n, n ∈ rem ↔ (c.has n = true ∧ ¬ Kept c inputs n) := by
  have hinit := Inv.init hg inputs
  obtain ⟨rem, hrun, hinv⟩ := run hg hord (2 * c.nodes.length + c.edges.length + 2) [] _ hinit
    (by rw [restrict_nil]; omega)
  rw [restrict_nil] at hrun
  exact ⟨rem, by rw [removeUnloaded_eq]; exact hrun, hinv.remNodup, hinv.final hg⟩

/-- the form of `C16.remove_unloaded_exact_cyclic` -/
theorem exact_cyc {c : Circuit} (hg : GoodCyc c) (inputs : Bool) {ord : Ord} (hord : OrdOK ord) :
    ∃ c' removed, c.removeUnloaded inputs ord = some (c', removed) ∧ removed.Nodup ∧
      (∀ n, n ∈ removed ↔ (c.has n = true ∧ ¬ Kept c inputs n)) ∧
      c'.nodes = c.nodes.filter (fun p => !removed.contains p.1) ∧
      c'.edges = c.edges.filter (fun e => !removed.contains e.1 && !removed.contains e.2) ∧
      c'.bbs = c.bbs ∧ c'.name = c.name := by
  obtain ⟨rem, h1, h2, h3⟩ := spec hg inputs hord
  have heq : restrict c rem = restrict c rem.reverse :=
    restrict_congr c _ _ (fun n => List.mem_reverse.symm)
  refine ⟨restrict c rem, rem.reverse, h1, (List.reverse_perm rem).nodup_iff.2 h2, ?_, ?_, ?_, ?_, ?_⟩
  · intro n; rw [List.mem_reverse]; exact h3 n
  all_goals rw [heq]; rfl

end RUC
end CG
