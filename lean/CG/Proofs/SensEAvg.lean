/- helper lemmas for C11 (avg_sensitivity): in an acyclic circuit every valuation of the startpoints of `n` extends to
   exactly one valuation of the cone of `n`; the sum of the influence counts is the sum over all startpoint valuations
   of the size of the flip set -/
import CG.Proofs.SensEInf
import CG.Proofs.SensECount
set_option linter.unusedSimpArgs false
set_option linter.unusedVariables false
namespace CG
namespace SensE
open Circuit Miter Q Query

/-- flipping startpoint `s` flips `n` under the valuation `v` of the cone (`C11.FlipsN` unfolded) -/
def Fl (cone : Circuit) (n s : Name) (v : Val) : Prop :=
  ∃ w, (Consistent cone w ∧ w s = !v s ∧ ∀ i ∈ cone.inputs, i ≠ s → w i = v i) ∧ w n ≠ v n

section cone
variable {c : Circuit} {n : Name} {tfi sp : List Name}

theorem sp_free (hcl : LintClean c) (hn : c.has n = true) (hsp : startpoints c [n] = .ok sp)
    (htfi : transitiveFanin c [n] = .ok tfi) {s : Name} (hs : s ∈ sp) : C01.Free (Tx.inducedSub c (n :: tfi)) s := by
  obtain ⟨hk, hsa⟩ := (Sens.mem_sp_iff hcl hn htfi hsp s).1 hs
  unfold Circuit.startpointsAll at hsa
  rw [Sens.mem_filterType] at hsa
  obtain ⟨a, ha, t, ht, hm⟩ := hsa
  have e : c.ty? s = some t := ty?_of_mem hcl.nodup ha ht
  simp only [List.mem_cons, List.not_mem_nil, or_false] at hm
  rcases hm with rfl | rfl
  · left; rw [Sens.sub_ty hk]; exact e
  · right; left; rw [Sens.sub_ty hk]; exact e

theorem free_sp (hcl : LintClean c) (hn : c.has n = true) (hsp : startpoints c [n] = .ok sp)
    (htfi : transitiveFanin c [n] = .ok tfi) {y : Name} (hy : C01.Free (Tx.inducedSub c (n :: tfi)) y) : y ∈ sp := by
  have hlc : LintClean (Tx.inducedSub c (n :: tfi)) :=
    Sens.sub_lint hcl (fun u y hy he => Sens.keep_closed hcl.toWF hn htfi hy he)
  have key : ∀ t, (Tx.inducedSub c (n :: tfi)).ty? y = some t → t ∈ ["input", "bb_output"] → y ∈ sp := by
    intro t ht hm
    have hk : y ∈ n :: tfi := ((Sens.sub_has y).1 (has_of_ty? ht)).2
    rw [Sens.sub_ty hk] at ht
    rw [Sens.mem_sp_iff hcl hn htfi hsp]
    refine ⟨hk, ?_⟩
    obtain ⟨p, hp, rfl, hpt⟩ := Tseitin.mem_of_ty c y t ht
    unfold Circuit.startpointsAll
    rw [Sens.mem_filterType]
    exact ⟨p.2, hp, t, hpt, hm⟩
  rcases hy with h | h | ⟨t, ht, hm, hf⟩
  · exact key _ h (by simp)
  · exact key _ h (by simp)
  · have := hlc.single y t ht hm
    rw [hf] at this
    cases this

theorem cone_exists (hcl : LintClean c) (hac : Acyclic c) (hn : c.has n = true) (hsp : startpoints c [n] = .ok sp)
    (htfi : transitiveFanin c [n] = .ok tfi) (free : Val) :
    ∃ v, Consistent (Tx.inducedSub c (n :: tfi)) v ∧ ∀ s ∈ sp, v s = free s := by
  have hacone : Acyclic (Tx.inducedSub c (n :: tfi)) :=
    Sens.acyclic_of_subset hac (fun e he => ((Sens.sub_mem_edges e).1 he).1)
  obtain ⟨v, hv, hfree⟩ := Sens.exists_of_acyclic (Sens.sub_wf hcl.toWF) hacone free
  exact ⟨v, hv, fun s hs => hfree s (sp_free hcl hn hsp htfi hs)⟩

theorem cone_unique (hcl : LintClean c) (hnox : ∀ p ∈ c.nodes, p.2.ty ≠ some "x") (hac : Acyclic c)
    (hn : c.has n = true) (hsp : startpoints c [n] = .ok sp) (htfi : transitiveFanin c [n] = .ok tfi)
    {u w : Val} (hu : Consistent (Tx.inducedSub c (n :: tfi)) u) (hw : Consistent (Tx.inducedSub c (n :: tfi)) w)
    (hag : ∀ s ∈ sp, w s = u s) : ∀ y ∈ n :: tfi, w y = u y := by
  have hlc : LintClean (Tx.inducedSub c (n :: tfi)) :=
    Sens.sub_lint hcl (fun u y hy he => Sens.keep_closed hcl.toWF hn htfi hy he)
  have hcx : ∀ p ∈ (Tx.inducedSub c (n :: tfi)).nodes, p.2.ty ≠ some "x" :=
    fun p hp => hnox p ((Sens.sub_mem_nodes p).1 hp).1
  have hacone : Acyclic (Tx.inducedSub c (n :: tfi)) :=
    Sens.acyclic_of_subset hac (fun e he => ((Sens.sub_mem_edges e).1 he).1)
  have := C01.acyclic_unique _ (Sens.clean_of_lint hlc hcx) hlc.closed hacone w u hw hu
    (fun y hy => hag y (free_sp hcl hn hsp htfi hy))
  intro y hy
  apply this y
  rw [Sens.sub_has]
  refine ⟨?_, hy⟩
  have w0 := hcl.toWF
  rcases List.mem_cons.1 hy with rfl | hy'
  · exact hn
  · obtain ⟨hp, _⟩ := (Sens.mem_tfi_iff w0 hn htfi y).1 hy'
    obtain ⟨b, hb, _⟩ := hp.head
    exact (w0.closed (y, b) hb).1

/-- `Fl` only reads the valuation on the cone -/
theorem fl_congr (hcl : LintClean c) (hn : c.has n = true) (hsp : startpoints c [n] = .ok sp)
    (htfi : transitiveFanin c [n] = .ok tfi) {v v' : Val} (hag : ∀ y ∈ n :: tfi, v y = v' y) {s : Name} (hs : s ∈ sp)
    (h : Fl (Tx.inducedSub c (n :: tfi)) n s v) : Fl (Tx.inducedSub c (n :: tfi)) n s v' := by
  obtain ⟨w, ⟨h1, h2, h3⟩, h4⟩ := h
  have hsk : s ∈ n :: tfi := ((Sens.mem_sp_iff hcl hn htfi hsp s).1 hs).1
  refine ⟨w, ⟨h1, ?_, ?_⟩, ?_⟩
  · rw [← hag s hsk]; exact h2
  · intro i hi hne
    have hik : i ∈ n :: tfi := ((Sens.sub_has i).1 (mem_inputs_has hi)).2
    rw [← hag i hik]
    exact h3 i hi hne
  · rw [← hag n (by simp)]; exact h4

end cone

/-! ### reading a Boolean vector as a valuation of the startpoints -/

/-- the valuation that gives the `i`-th startpoint the `i`-th bit -/
def bitsVal (sp : List Name) (bs : List Bool) : Val := fun x => ((sp.zip bs).lookup x).getD false

theorem map_bitsVal : ∀ (sp : List Name) (bs : List Bool), sp.Nodup → bs.length = sp.length →
    sp.map (bitsVal sp bs) = bs := by
  intro sp
  induction sp with
  | nil =>
    intro bs _ hl
    cases bs with
    | nil => rfl
    | cons b bs => cases hl
  | cons x sp ih =>
    intro bs hnd hl
    cases bs with
    | nil => cases hl
    | cons b bs =>
      rw [List.nodup_cons] at hnd
      rw [List.map_cons]
      have h1 : bitsVal (x :: sp) (b :: bs) x = b := by
        unfold bitsVal
        simp [List.zip_cons_cons, List.lookup_cons]
      have h2 : sp.map (bitsVal (x :: sp) (b :: bs)) = sp.map (bitsVal sp bs) := by
        apply List.map_congr_left
        intro y hy
        have hne : y ≠ x := fun e => hnd.1 (e ▸ hy)
        unfold bitsVal
        have : (y == x) = false := by simpa using hne
        simp only [List.zip_cons_cons, List.lookup_cons, this]
      rw [h1, h2, ih bs hnd.2 (by simpa using hl)]

/-! ### the sum of the counts -/

open Classical in
/-- **avg_sensitivity, core**: the reported counts add up to the sum, over all startpoint valuations, of the number of
    startpoints whose flip flips `n` under the unique cone valuation extending it -/
theorem avg_core {c : Circuit} {n : Name} {tfi sp : List Name} {ord : Ord} (hord : OrdOK ord)
    (hcl : LintClean c) (hnox : ∀ p ∈ c.nodes, p.2.ty ≠ some "x") (hac : Acyclic c)
    (hn : c.has n = true) (hsp : startpoints c [n] = .ok sp) (htfi : transitiveFanin c [n] = .ok tfi)
    (r : List (Name × Nat × Nat)) (hnames : r.map (·.1) = ord sp)
    (hr : ∀ p ∈ r, ∃ L : List (List Bool), L.Nodup ∧ L.length = p.2.1 ∧
      ∀ bs, bs ∈ L ↔ ∃ v, Consistent (Tx.inducedSub c (n :: tfi)) v ∧ sp.map v = bs ∧
        Fl (Tx.inducedSub c (n :: tfi)) n p.1 v) :
    ∃ f : List Bool → Nat,
      (∀ (v : Val) (S : List Name), Consistent (Tx.inducedSub c (n :: tfi)) v →
        (S.Nodup ∧ ∀ s, s ∈ S ↔ (s ∈ sp ∧ Fl (Tx.inducedSub c (n :: tfi)) n s v)) → S.length = f (sp.map v)) ∧
      (r.map (·.2.1)).sum = ((allBoolsF sp.length).map f).sum := by
  have hspN : sp.Nodup := Sens.sp_nodup hcl hn hsp
  -- the cone valuation extending a Boolean vector
  have hex : ∀ bs : List Bool, ∃ v, Consistent (Tx.inducedSub c (n :: tfi)) v ∧ ∀ s ∈ sp, v s = bitsVal sp bs s :=
    fun bs => cone_exists hcl hac hn hsp htfi (bitsVal sp bs)
  let val : List Bool → Val := fun bs => Classical.choose (hex bs)
  have hval1 : ∀ bs, Consistent (Tx.inducedSub c (n :: tfi)) (val bs) := fun bs => (Classical.choose_spec (hex bs)).1
  have hval2 : ∀ bs, bs.length = sp.length → sp.map (val bs) = bs := by
    intro bs hl
    have : sp.map (val bs) = sp.map (bitsVal sp bs) :=
      List.map_congr_left (fun s hs => (Classical.choose_spec (hex bs)).2 s hs)
    rw [this, map_bitsVal sp bs hspN hl]
  -- any consistent valuation is the chosen one for its own startpoint bits
  have hsame : ∀ v, Consistent (Tx.inducedSub c (n :: tfi)) v → ∀ y ∈ n :: tfi, v y = val (sp.map v) y := by
    intro v hv
    apply cone_unique hcl hnox hac hn hsp htfi (hval1 _) hv
    intro s hs
    have h1 := hval2 (sp.map v) (List.length_map _)
    have h2 := List.map_inj_left.1 h1 s hs
    exact h2.symm
  let χ : Name → List Bool → Bool := fun s bs => decide (Fl (Tx.inducedSub c (n :: tfi)) n s (val bs))
  refine ⟨fun bs => (sp.filter (fun s => χ s bs)).length, ?_, ?_⟩
  · intro v S hv hS
    apply List.Perm.length_eq
    apply (List.perm_ext_iff_of_nodup hS.1 (hspN.filter _)).2
    intro s
    rw [hS.2 s, List.mem_filter]
    constructor
    · rintro ⟨h1, h2⟩
      exact ⟨h1, decide_eq_true (fl_congr hcl hn hsp htfi (hsame v hv) h1 h2)⟩
    · rintro ⟨h1, h2⟩
      exact ⟨h1, fl_congr hcl hn hsp htfi (fun y hy => (hsame v hv y hy).symm) h1 (of_decide_eq_true h2)⟩
  · apply double_count r sp (ord sp) (allBoolsF sp.length) (allBoolsF_nodup _) χ hnames (hord sp)
    intro p hp
    have hp1 : p.1 ∈ sp := by
      rw [← Sens.ord_mem hord sp, ← hnames]
      exact List.mem_map.2 ⟨p, hp, rfl⟩
    obtain ⟨L, hnd, hlen, hmem⟩ := hr p hp
    refine ⟨L, hnd, hlen, ?_⟩
    intro b
    rw [hmem, mem_allBoolsF]
    constructor
    · rintro ⟨v, hv, rfl, hfl⟩
      exact ⟨List.length_map _, decide_eq_true (fl_congr hcl hn hsp htfi (hsame v hv) hp1 hfl)⟩
    · rintro ⟨hl, hfl⟩
      exact ⟨val b, hval1 b, hval2 b hl, of_decide_eq_true hfl⟩

end SensE
end CG
