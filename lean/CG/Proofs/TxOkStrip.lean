/- helper lemmas for C06 (`strip_blackboxes_ok_iff`): the call succeeds when the exposed names are free -/
import CG.Proofs.Strip
set_option linter.unusedSimpArgs false
set_option linter.unusedVariables false
namespace CG.Strip
open CG Circuit

theorem dedup_length_of_nodup {α : Type} [BEq α] [LawfulBEq α] : ∀ l : List α, l.Nodup → (dedup l).length = l.length
  | [], _ => rfl
  | y :: l, h => by
    have hn := List.nodup_cons.1 h
    have ih := dedup_length_of_nodup l hn.2
    simp only [dedup, List.length_cons]
    have : ((dedup l).filter (fun z => !(z == y))).length = (dedup l).length := by
      rw [List.length_filter_eq_length_iff]
      intro z hz
      have hz' : z ∈ l := (mem_dedup z l).1 hz
      have : z ≠ y := fun e => hn.1 (e ▸ hz')
      simpa using this
    omega

theorem nodup_map_of_inj_on {α β : Type} (f : α → β) : ∀ (l : List α), l.Nodup →
    (∀ x ∈ l, ∀ y ∈ l, f x = f y → x = y) → (l.map f).Nodup
  | [], _, _ => List.nodup_nil
  | a :: l, h, inj => by
    have hn := List.nodup_cons.1 h
    simp only [List.map_cons, List.nodup_cons]
    refine ⟨?_, nodup_map_of_inj_on f l hn.2 (fun x hx y hy e =>
      inj x (List.mem_cons_of_mem _ hx) y (List.mem_cons_of_mem _ hy) e)⟩
    intro hm
    obtain ⟨y, hy, e⟩ := List.mem_map.1 hm
    have := inj y (List.mem_cons_of_mem _ hy) a (List.mem_cons_self) e
    exact hn.1 (this ▸ hy)

/-- success of `strip_blackboxes` when no exposed name collides -/
theorem strip_succeeds {c : Circuit} {ig : List Name} {ord : Ord} (hord : OrdOK ord)
    (hty : ∀ p ∈ c.nodes, p.2.ty.isSome = true) (hnd : c.nodeNames.Nodup)
    (hno : ¬ ((∃ n, c.has n = true ∧ kept c ig n = true ∧ c.has (Tx.replaceDots n) = true ∧
              dropped c ig (Tx.replaceDots n) = false) ∨
           (∃ n₁ n₂, n₁ ≠ n₂ ∧ c.has n₁ = true ∧ c.has n₂ = true ∧ kept c ig n₁ = true ∧ kept c ig n₂ = true ∧
              Tx.replaceDots n₁ = Tx.replaceDots n₂))) :
    ∃ c', Tx.stripBlackboxes c ig ord = .ok c' := by
  rw [strip_eq]
  have hnone : c.nodes.any (fun p => p.2.ty.isNone) = false := by
    rw [List.any_eq_false]
    intro p hp
    have := hty p hp
    cases h : p.2.ty <;> simp [h] at this ⊢
  rw [hnone]
  simp only [Bool.false_eq_true, if_false]
  have P := phaseView ig hord hnd
  suffices hh : ¬ (((pmap (phase c ig ord).2).any (fun p => (phase c ig ord).1.has p.2) ||
      decide ((dedup ((pmap (phase c ig ord).2).map (·.2))).length < (pmap (phase c ig ord).2).length)) = true) by
    rw [if_neg hh]
    exact ⟨_, rfl⟩
  generalize phase c ig ord = r at P
  rw [Bool.or_eq_true, decide_eq_true_eq]
  rintro (h | h)
  · rw [List.any_eq_true] at h
    obtain ⟨p, hp, hhas⟩ := h
    unfold pmap at hp
    obtain ⟨n, hn, rfl⟩ := List.mem_map.1 hp
    have hk := (P.pins n).1 hn
    have hhas' : r.1.has (Tx.replaceDots n) = true := hhas
    rw [P.has] at hhas'
    simp only [Bool.and_eq_true, Bool.not_eq_true'] at hhas'
    exact hno (Or.inl ⟨n, has_of_isPin (kept_isPin hk), hk, hhas'.1, hhas'.2⟩)
  · have e' : (pmap r.2).map (·.2) = r.2.map Tx.replaceDots := by
      unfold pmap; rw [List.map_map]; rfl
    have hl : (pmap r.2).length = ((pmap r.2).map (·.2)).length := by rw [List.length_map]
    rw [hl, e'] at h
    have hN : (r.2.map Tx.replaceDots).Nodup := by
      apply nodup_map_of_inj_on _ _ P.pinsNodup
      intro x hx y hy e
      apply Classical.byContradiction
      intro hne
      have kx := (P.pins x).1 hx
      have ky := (P.pins y).1 hy
      exact hno (Or.inr ⟨x, y, hne, has_of_isPin (kept_isPin kx), has_of_isPin (kept_isPin ky), kx, ky, e⟩)
    have := dedup_length_of_nodup _ hN
    omega

theorem strip_ok_iff {c : Circuit} {ig : List Name} {ord : Ord} (hord : OrdOK ord)
    (hty : ∀ p ∈ c.nodes, p.2.ty.isSome = true) (hnd : c.nodeNames.Nodup) :
    (∃ c', Tx.stripBlackboxes c ig ord = .ok c') ↔
      ¬ ((∃ n, c.has n = true ∧ kept c ig n = true ∧ c.has (Tx.replaceDots n) = true ∧
              dropped c ig (Tx.replaceDots n) = false) ∨
         (∃ n₁ n₂, n₁ ≠ n₂ ∧ c.has n₁ = true ∧ c.has n₂ = true ∧ kept c ig n₁ = true ∧ kept c ig n₂ = true ∧
              Tx.replaceDots n₁ = Tx.replaceDots n₂)) := by
  constructor
  · rintro ⟨c', h⟩ hov
    rw [strip_rejects hord hty hnd hov] at h
    cases h
  · exact strip_succeeds hord hty hnd

end CG.Strip
