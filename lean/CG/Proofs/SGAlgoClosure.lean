/- C17 (algorithm) helpers, part 9: closure properties of the node set of a supergate under fan-in / fan-out -/
import CG.Proofs.SGAlgoStruct
set_option linter.unusedSectionVars false
set_option linter.unusedVariables false
set_option linter.unusedSimpArgs false
namespace CG
namespace SGA
open Query Supergates Q

/-- membership in the node set of the supergate headed by `h` in the cone of `o` -/
def InS (c2 : Circuit) (o h x : Name) : Prop := x = h ∨ Chain (domChildren c2 o) h x

abbrev HeadOf (c2 : Circuit) (o h : Name) : Prop := IsHead (domChildren c2 o) (coneOf c2 o) o h

theorem two_of_length_gt {l : List Name} (hnd : l.Nodup) (h : 1 < l.length) : ∃ x1 x2, x1 ≠ x2 ∧ x1 ∈ l ∧ x2 ∈ l := by
  match l, h with
  | x1 :: x2 :: _, _ =>
    refine ⟨x1, x2, ?_, List.mem_cons_self, List.mem_cons_of_mem _ List.mem_cons_self⟩
    intro h
    exact (List.nodup_cons.mp hnd).1 (h ▸ List.mem_cons_self)

theorem eq_singleton_of_all_eq {l : List Name} (hnd : l.Nodup) {b : Name} (hb : b ∈ l) (h : ∀ x ∈ l, x = b) :
    l = [b] := by
  match l with
  | [] => exact absurd hb List.not_mem_nil
  | [x] => rw [h x List.mem_cons_self]
  | x :: y :: _ =>
    have hx := h x List.mem_cons_self
    have hy := h y (List.mem_cons_of_mem _ List.mem_cons_self)
    exact absurd (hx.trans hy.symm ▸ List.mem_cons_self) (List.nodup_cons.mp hnd).1

section
variable (c2 : Circuit) (hwf : WF c2) (hac : Acyclic c2) (o : Name)
include hwf hac

theorem chain_SD {h x : Name} (hc : Chain (domChildren c2 o) h x) : SD c2 o h x := by
  have T := treeOK c2 hwf hac o
  induction hc with
  | child hx =>
    have := T.ch_par _ _ hx
    exact par_SD c2 hwf hac this.1 this.2
  | step _ hs ih =>
    have := T.ch_par _ _ (mem_children_of_single hs)
    exact SD_trans c2 hwf hac ih (par_SD c2 hwf hac this.1 this.2) this.1

theorem chain_of_par {h x : Name} (hx : x ∈ coneOf c2 o) (hp : par c2 o x = some h) :
    Chain (domChildren c2 o) h x :=
  .child ((treeOK c2 hwf hac o).par_ch h x hx hp)

theorem InS.mem {h x : Name} (hh : h ∈ coneOf c2 o) (hx : InS c2 o h x) : x ∈ coneOf c2 o := by
  rcases hx with h1 | h1
  · exact h1 ▸ hh
  · exact h1.mem (treeOK c2 hwf hac o)

/-- the parent of a member other than the head is a member -/
theorem InS.parent {h x p : Name} (hc : Chain (domChildren c2 o) h x) (hp : par c2 o x = some p) : InS c2 o h p := by
  rcases hc.par_cases (treeOK c2 hwf hac o) with h1 | ⟨y, h1, _, h3⟩
  · rw [hp] at h1; cases h1; exact Or.inl rfl
  · rw [hp] at h1; cases h1; exact Or.inr h3

/-- siblings of a member are members (then the parent has several children, so it is the head) -/
theorem chain_sibling {h x w : Name} (hc : Chain (domChildren c2 o) h x) (hw : w ∈ coneOf c2 o)
    (hp : par c2 o x = par c2 o w) (hne : x ≠ w) : Chain (domChildren c2 o) h w := by
  have T := treeOK c2 hwf hac o
  rcases hc.par_cases T with h1 | ⟨y, h1, h2, _⟩
  · exact chain_of_par c2 hwf hac o hw (hp ▸ h1)
  · have : w ∈ childrenOf (domChildren c2 o) y := T.par_ch y w hw (hp ▸ h1)
    rw [h2, List.mem_singleton] at this
    exact absurd this.symm hne

/-- every fan-in of a head is one of its children -/
theorem head_fanins (hfi : ∀ n, (c2.fanin n).length ≤ 2) {h y : Name} (hh : HeadOf c2 o h)
    (he : (y, h) ∈ c2.edges) : par c2 o y = some h := by
  have T := treeOK c2 hwf hac o
  rcases hh.2 with h1 | h1
  · subst h1; exact par_fanin_root c2 hwf hac _ he
  · by_cases hho : h = o
    · subst hho; exact par_fanin_root c2 hwf hac _ he
    · obtain ⟨x1, x2, hne, hx1, hx2⟩ := two_of_length_gt (T.ch_nd h) h1
      have p1 := T.ch_par _ _ hx1
      have p2 := T.ch_par _ _ hx2
      exact fanins_children_of_two c2 hwf hac o hfi hho p1.1 p1.2 p2.1 p2.2 hne he

/-- fan-outs (inside the cone) of a member other than the head are members -/
theorem fanout_closed {h x w : Name} (hc : Chain (domChildren c2 o) h x) (he : (x, w) ∈ c2.edges)
    (hw : w ∈ coneOf c2 o) : InS c2 o h w := by
  have hx := hc.mem (treeOK c2 hwf hac o)
  by_cases hwo : w = o
  · subst hwo
    have hp := par_fanin_root c2 hwf hac _ he
    have hid := (par_eq_iff c2 hwf hac hx).mp hp
    rcases hid.2 h (chain_SD c2 hwf hac _ hc) with h1 | h1
    · exact Or.inl h1.symm
    · exact absurd h1 (not_SD_root c2)
  · rcases adj c2 hwf hac o he hw hwo with h1 | h1
    · exact InS.parent c2 hwf hac o hc h1
    · exact Or.inr (chain_sibling c2 hwf hac o hc hw h1 (edge_ne c2 hwf hac he))

/-- a member (not the head) with at most one child has all its fan-ins in the set -/
theorem fanins_of_nonfrontier {h v a : Name} (hc : Chain (domChildren c2 o) h v)
    (hle : ¬ 1 < (childrenOf (domChildren c2 o) v).length) (he : (a, v) ∈ c2.edges) :
    Chain (domChildren c2 o) h a := by
  have T := treeOK c2 hwf hac o
  have hv := hc.mem T
  have ha : a ∈ coneOf c2 o := cone_fanin c2 hwf hv he
  have hvo : v ≠ o := fun h1 => not_SD_root c2 (h1 ▸ chain_SD c2 hwf hac _ hc)
  rcases adj c2 hwf hac o he hv hvo with h1 | h1
  · have hach := T.par_ch v a ha h1
    have : childrenOf (domChildren c2 o) v = [a] := by
      match hch : childrenOf (domChildren c2 o) v with
      | [] => rw [hch] at hach; exact absurd hach List.not_mem_nil
      | [c] => rw [hch, List.mem_singleton] at hach; rw [hach]
      | _ :: _ :: _ => rw [hch] at hle; simp at hle
    exact .step hc this
  · exact chain_sibling c2 hwf hac o hc ha h1.symm (fun h => edge_ne c2 hwf hac he h.symm)

/-- a member with one fan-in in the set has all of them in the set -/
theorem fanin_closed (hfi : ∀ n, (c2.fanin n).length ≤ 2) {h v a b : Name} (hh : HeadOf c2 o h)
    (hv : InS c2 o h v) (ha : InS c2 o h a) (hea : (a, v) ∈ c2.edges) (heb : (b, v) ∈ c2.edges) :
    InS c2 o h b := by
  have T := treeOK c2 hwf hac o
  rcases hv with hv | hv
  · subst hv
    have hb : b ∈ coneOf c2 o := cone_fanin c2 hwf hh.1 heb
    exact Or.inr (chain_of_par c2 hwf hac o hb (head_fanins c2 hwf hac o hfi hh heb))
  · refine Or.inr ?_
    by_cases hle : 1 < (childrenOf (domChildren c2 o) v).length
    · -- `v` is a frontier node: its fan-ins are its children, and `a` cannot be in the set
      have hvc := hv.mem T
      have hvo : v ≠ o := fun h1 => not_SD_root c2 (h1 ▸ chain_SD c2 hwf hac _ hv)
      have hpa : par c2 o a = some v := head_fanins c2 hwf hac o hfi ⟨hvc, Or.inr hle⟩ hea
      have hav : a ≠ v := edge_ne c2 hwf hac hea
      rcases ha with ha | ha
      · subst ha
        have h1 := par_SD c2 hwf hac hh.1 hpa
        exact (SD_asymm c2 hwf hac h1 (chain_SD c2 hwf hac _ hv)).elim
      · rcases ha.par_cases T with h1 | ⟨y, h1, h2, _⟩
        · rw [hpa] at h1; cases h1
          exact (chain_SD c2 hwf hac _ hv).2.1.elim rfl
        · rw [hpa] at h1; cases h1
          rw [h2] at hle; simp at hle
    · exact fanins_of_nonfrontier c2 hwf hac o hv hle heb

end

end SGA
end CG
