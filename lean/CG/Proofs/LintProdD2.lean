/- C20 (second half, insert_registers): one splice step (`InsReg.Splice`) keeps the circuit lint-clean, provided the
   spliced driver and the clock are not blackbox pins (which `connect` checks) -/
import CG.Proofs.InsRegSem
set_option linter.unusedSimpArgs false
set_option linter.unusedVariables false
set_option linter.unusedSectionVars false
namespace CG
namespace LintProdD
open Circuit InsReg

/-- `n` is not a blackbox pin node -/
def NotPin (c : Circuit) (n : Name) : Prop := c.ty? n ≠ some "bb_input" ∧ c.ty? n ≠ some "bb_output"

namespace SpliceL
variable {a b : Circuit} {n r inst : Name} (h : Splice a b n r inst)
include h

theorem attr_r : b.attr? r = some bufA := attr?_of_mem h.nodup ((h.nodes _).mpr (Or.inr (Or.inl rfl)))
theorem attr_d : b.attr? (inst ++ ".d") = some inA :=
  attr?_of_mem h.nodup ((h.nodes _).mpr (Or.inr (Or.inr (Or.inl rfl))))
theorem attr_q : b.attr? (inst ++ ".q") = some outA :=
  attr?_of_mem h.nodup ((h.nodes _).mpr (Or.inr (Or.inr (Or.inr (Or.inl rfl)))))
theorem attr_k : b.attr? (inst ++ ".clk") = some inA :=
  attr?_of_mem h.nodup ((h.nodes _).mpr (Or.inr (Or.inr (Or.inr (Or.inr rfl)))))

theorem ty_r : b.ty? r = some "buf" := by unfold Circuit.ty?; rw [attr_r h]; rfl
theorem ty_d : b.ty? (inst ++ ".d") = some "bb_input" := by unfold Circuit.ty?; rw [attr_d h]; rfl
theorem ty_q : b.ty? (inst ++ ".q") = some "bb_output" := by unfold Circuit.ty?; rw [attr_q h]; rfl
theorem ty_k : b.ty? (inst ++ ".clk") = some "bb_input" := by unfold Circuit.ty?; rw [attr_k h]; rfl

theorem ty_old {m : Name} (hm : a.has m = true) : b.ty? m = a.ty? m := by
  unfold Circuit.ty?
  rw [h.attr_old hm]

/-- the nodes of the result: the old ones and the four new ones -/
theorem has_cases {m : Name} (hm : b.has m = true) :
    a.has m = true ∨ m = r ∨ m = inst ++ ".d" ∨ m = inst ++ ".q" ∨ m = inst ++ ".clk" := by
  obtain ⟨at', hp⟩ := (RU.has_iff_exists b m).mp hm
  rcases (h.nodes _).mp hp with hp | hp | hp | hp | hp
  · exact Or.inl ((RU.has_iff_exists a m).mpr ⟨at', hp⟩)
  · exact Or.inr (Or.inl (Prod.mk.inj hp).1)
  · exact Or.inr (Or.inr (Or.inl (Prod.mk.inj hp).1))
  · exact Or.inr (Or.inr (Or.inr (Or.inl (Prod.mk.inj hp).1)))
  · exact Or.inr (Or.inr (Or.inr (Or.inr (Prod.mk.inj hp).1)))

theorem fanin_len_old {m : Name} (hm : a.has m = true) : (b.fanin m).length = (a.fanin m).length := by
  rw [(h.fanin_old hm).length_eq, List.length_map]

theorem fanin_q : b.fanin (inst ++ ".q") = [] := by
  cases hf : b.fanin (inst ++ ".q") with
  | nil => rfl
  | cons x xs =>
    exfalso
    have hx : x ∈ b.fanin (inst ++ ".q") := by rw [hf]; exact List.mem_cons_self
    rw [mem_fanin, h.edges] at hx
    rcases hx with ⟨h1, _⟩ | ⟨_, h2⟩ | h1 | h1 | h1
    · have := (h.closed_a h1).2; simp only [] at this; rw [h.fq] at this; cases this
    · have := (h.closed_a h2).2; simp only [] at this; rw [h.fq] at this; cases this
    · exact absurd (Prod.mk.inj h1).2.symm (pin_dq inst)
    · exact absurd (Prod.mk.inj h1).2.symm h.rq
    · exact absurd (Prod.mk.inj h1).2 (pin_qk inst)

theorem fanout_q : b.fanout (inst ++ ".q") = [r] := by
  apply eq_singleton_of_nodup (fanout_nodup h.enodup _)
  intro x
  rw [mem_fanout, h.edges]
  constructor
  · rintro (⟨h1, _⟩ | ⟨h1, _⟩ | h1 | h1 | h1)
    · have := (h.closed_a h1).1; simp only [] at this; rw [h.fq] at this; cases this
    · simp only [] at h1; exact absurd h1.symm h.rq
    · have := (Prod.mk.inj h1).1
      have hn := h.hasn
      rw [← this, h.fq] at hn; cases hn
    · exact (Prod.mk.inj h1).2
    · have := (Prod.mk.inj h1).1
      have hn := h.hasclk
      rw [← this, h.fq] at hn; cases hn
  · rintro rfl
    exact Or.inr (Or.inr (Or.inr (Or.inl rfl)))

/-- an old node other than the spliced driver and the clock drives only what it drove before -/
theorem fanout_sub_old {m : Name} (hm : a.has m = true) (hmn : m ≠ n) (hmk : m ≠ "clk") {y : Name}
    (hy : y ∈ b.fanout m) : y ∈ a.fanout m := by
  obtain ⟨m1, m2, m3, m4⟩ := h.old_ne hm
  rw [mem_fanout, h.edges] at hy
  rw [mem_fanout]
  rcases hy with ⟨h1, _⟩ | ⟨h1, _⟩ | h1 | h1 | h1
  · exact h1
  · exact absurd h1 m1
  · exact absurd (Prod.mk.inj h1).1 hmn
  · exact absurd (Prod.mk.inj h1).1 m3
  · exact absurd (Prod.mk.inj h1).1 hmk

theorem fanout_len_old {m : Name} (hm : a.has m = true) (hmn : m ≠ n) (hmk : m ≠ "clk") :
    (b.fanout m).length ≤ (a.fanout m).length :=
  List.Nodup.length_le_of_subset (fanout_nodup h.enodup m) (fun y hy => fanout_sub_old h hm hmn hmk hy)

/-- **one splice step keeps the circuit lint-clean** -/
theorem lintClean (hc : LintClean a) (hn : NotPin a n) (hk : NotPin a "clk") : LintClean b := by
  have hty_n : b.ty? n = a.ty? n := ty_old h h.hasn
  have hty_k : b.ty? "clk" = a.ty? "clk" := ty_old h h.hasclk
  -- what is known about a typed node of the result
  have key : ∀ m t, b.ty? m = some t →
      (t ∈ Expected.supported_types) ∧ (t ∈ sourceTypes → b.fanin m = []) ∧
      (t ∈ singleTypes → (b.fanin m).length = 1) ∧ (t ∈ multiTypes → 1 ≤ (b.fanin m).length) := by
    intro m t hty
    rcases has_cases h (has_of_ty? hty) with hm | rfl | rfl | rfl | rfl
    · rw [ty_old h hm] at hty
      obtain ⟨at', ha⟩ := Limit.attr_of_has hm
      obtain ⟨t', ht', hsup⟩ := hc.typed _ (attr?_mem ha)
      have : t' = t := by
        have : a.ty? m = some t' := by unfold Circuit.ty?; rw [ha]; exact ht'
        rw [this] at hty
        exact Option.some.inj hty
      subst this
      have hlen := fanin_len_old h hm
      refine ⟨hsup, ?_, ?_, ?_⟩
      · intro hs
        rw [hc.noFanin m t' hty hs] at hlen
        exact List.eq_nil_of_length_eq_zero hlen
      · intro hs; rw [hlen]; exact hc.single m t' hty hs
      · intro hs; rw [hlen]; exact hc.multi m t' hty hs
    · rw [ty_r h] at hty
      have := Option.some.inj hty; subst this
      refine ⟨by decide, fun hs => absurd hs (by decide), fun _ => ?_, fun hs => absurd hs (by decide)⟩
      rw [h.fanin_r]; rfl
    · rw [ty_d h] at hty
      have := Option.some.inj hty; subst this
      refine ⟨by decide, fun hs => absurd hs (by decide), fun _ => ?_, fun hs => absurd hs (by decide)⟩
      rw [h.fanin_d]; rfl
    · rw [ty_q h] at hty
      have := Option.some.inj hty; subst this
      exact ⟨by decide, fun _ => fanin_q h, fun hs => absurd hs (by decide), fun hs => absurd hs (by decide)⟩
    · rw [ty_k h] at hty
      have := Option.some.inj hty; subst this
      refine ⟨by decide, fun hs => absurd hs (by decide), fun _ => ?_, fun hs => absurd hs (by decide)⟩
      rw [h.fanin_k]; rfl
  refine
    { toWF := h.step_wf, typed := ?_, noFanin := fun n t h1 h2 => (key n t h1).2.1 h2,
      single := fun n t h1 h2 => (key n t h1).2.2.1 h2, multi := fun n t h1 h2 => (key n t h1).2.2.2 h2,
      bbOut := ?_, noBBInFanout := ?_ }
  · intro p hp
    rcases (h.nodes p).mp hp with hp | rfl | rfl | rfl | rfl
    · exact hc.typed p hp
    · exact ⟨"buf", rfl, by decide⟩
    · exact ⟨"bb_input", rfl, by decide⟩
    · exact ⟨"bb_output", rfl, by decide⟩
    · exact ⟨"bb_input", rfl, by decide⟩
  · intro e he hty
    rcases (h.edges e).mp he with ⟨h1, h2⟩ | ⟨h1, h2⟩ | rfl | rfl | rfl
    · obtain ⟨c1, c2⟩ := h.closed_a h1
      rw [ty_old h c1] at hty
      obtain ⟨k1, k2⟩ := hc.bbOut e h1 hty
      have hek : e.1 ≠ "clk" := by
        intro e1
        rw [e1] at hty
        exact hk.2 hty
      refine ⟨by rw [ty_old h c2]; exact k1, ?_⟩
      exact Nat.le_trans (fanout_len_old h c1 h2 hek) k2
    · rw [h1, ty_r h] at hty
      exact absurd (Option.some.inj hty) (by decide)
    · simp only [] at hty
      rw [hty_n] at hty
      exact absurd hty hn.2
    · simp only []
      rw [fanout_q h]
      exact ⟨ty_r h, Nat.le_refl _⟩
    · simp only [] at hty
      rw [hty_k] at hty
      exact absurd hty hk.2
  · intro e he hty
    rcases (h.edges e).mp he with ⟨h1, h2⟩ | ⟨h1, h2⟩ | rfl | rfl | rfl
    · rw [ty_old h (h.closed_a h1).1] at hty
      exact hc.noBBInFanout e h1 hty
    · rw [h1, ty_r h] at hty
      exact absurd (Option.some.inj hty) (by decide)
    · simp only [] at hty
      rw [hty_n] at hty
      exact hn.1 hty
    · simp only [] at hty
      rw [ty_q h] at hty
      exact absurd (Option.some.inj hty) (by decide)
    · simp only [] at hty
      rw [hty_k] at hty
      exact hk.1 hty

end SpliceL
end LintProdD
end CG
