/- the dead combinational cycle of K42: not live, yet kept by `remove_unloaded` -/
import CG.Proofs.RUCycInv
import CG.Props.C16
namespace CG
namespace RUC
open RU

/-- `g1 = and(a, g2)`, `g2 = buf(g1)`, nothing observes the loop (same literal as `C16.deadCycle`) -/
def deadCycle : Circuit :=
  { nodes := [("a", { ty := some "input", out := some false }), ("g1", { ty := some "and", out := some false }),
              ("g2", { ty := some "buf", out := some false }), ("o", { ty := some "not", out := some true })],
    edges := [("a", "g1"), ("g2", "g1"), ("g1", "g2"), ("a", "o")] }

theorem deadCycle_good : GoodCyc deadCycle :=
  ⟨by decide, by decide, by decide, by decide, by decide⟩

/-- the loop is closed under successors -/
theorem deadCycle_reach {a d : Name} (h : C16.Reach deadCycle a d) :
    (a = "g1" ∨ a = "g2") → (d = "g1" ∨ d = "g2") := by
  induction h with
  | refl a => exact id
  | step he _ ih =>
    intro ha
    apply ih
    simp only [deadCycle, List.mem_cons, Prod.mk.injEq, List.not_mem_nil, or_false] at he
    rcases ha with rfl | rfl
    · rcases he with ⟨h1, _⟩ | ⟨h1, _⟩ | ⟨_, h2⟩ | ⟨h1, _⟩
      · exact absurd h1 (by decide)
      · exact absurd h1 (by decide)
      · exact Or.inr h2
      · exact absurd h1 (by decide)
    · rcases he with ⟨h1, _⟩ | ⟨_, h2⟩ | ⟨h1, _⟩ | ⟨h1, _⟩
      · exact absurd h1 (by decide)
      · exact Or.inl h2
      · exact absurd h1 (by decide)
      · exact absurd h1 (by decide)

theorem deadCycle_not_live : ¬ C16.Live deadCycle "g1" := by
  rintro ⟨s, _, hsink, hr⟩
  rcases deadCycle_reach hr (Or.inl rfl) with rfl | rfl
  · revert hsink; decide
  · revert hsink; decide

theorem deadCycle_kept : Kept deadCycle true "g1" := by
  refine ⟨fun x => x = "g1" ∨ x = "g2", ?_, Or.inl rfl⟩
  rintro x (rfl | rfl)
  · exact ⟨by decide, Or.inr (Or.inr ⟨"g2", by decide, Or.inr rfl⟩)⟩
  · exact ⟨by decide, Or.inr (Or.inr ⟨"g1", by decide, Or.inl rfl⟩)⟩

theorem deadCycle_run : (deadCycle.removeUnloaded true id).map (·.2) = some [] := by decide

/-- the form of `C16.dead_cycle_kept` -/
theorem dead_cycle_kept : GoodCyc deadCycle ∧ ¬ C16.Live deadCycle "g1" ∧ Kept deadCycle true "g1" ∧
    (deadCycle.removeUnloaded true id).map (·.2) = some [] :=
  ⟨deadCycle_good, deadCycle_not_live, deadCycle_kept, deadCycle_run⟩

end RUC
end CG
