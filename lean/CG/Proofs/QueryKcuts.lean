/- C12 helpers: k-cuts -/
import CG.Proofs.QueryBasic
namespace CG
namespace Q
open Query

inductive QWalk (E : Name → Name → Prop) : Name → Name → List Name → Prop where
  | nil (a : Name) : QWalk E a a [a]
  | cons {a b d : Name} {l : List Name} : E a b → QWalk E b d l → QWalk E a d (a :: l)

theorem QWalk.last_mem {E : Name → Name → Prop} {a b : Name} {l : List Name} (h : QWalk E a b l) : b ∈ l := by
  induction h with
  | nil a => simp
  | cons _ _ ih => exact List.mem_cons_of_mem _ ih

theorem QWalk.snoc_inv {E : Name → Name → Prop} {a b : Name} {l : List Name} (h : QWalk E a b l) :
    (l = [a] ∧ a = b) ∨ ∃ f l0, QWalk E a f l0 ∧ E f b ∧ l = l0 ++ [b] := by
  induction h with
  | nil a => exact Or.inl ⟨rfl, rfl⟩
  | @cons a x d l' he hw ih =>
    right
    rcases ih with ⟨hl, hxd⟩ | ⟨f, l0, hw0, hfe, hl⟩
    · subst hxd
      exact ⟨a, [a], .nil a, he, by rw [hl]; rfl⟩
    · exact ⟨f, a :: l0, .cons he hw0, hfe, by rw [hl]; rfl⟩

def kmerge (k : Nat) (a b : List (List Name)) : List (List Name) :=
  (a.flatMap (fun ac => b.map (fun bc => dedup (ac ++ bc)))).filter (fun m => m.length ≤ k)

theorem kcuts_succ (c : Circuit) (k : Nat) (ord : Ord) (fuel : Nat) (n : Name) :
    kcuts c k ord (fuel + 1) n =
      match ord (dedup (c.fanin n)) with
      | [] => some [[n]]
      | f :: fs =>
        match kcuts c k ord fuel f, fs.mapM (kcuts c k ord fuel) with
        | some c0, some rest => some (rest.foldl (kmerge k) c0 ++ [[n]])
        | _, _ => none := by
  rfl

theorem mem_kmerge (k : Nat) (a b : List (List Name)) (m : List Name) (h : m ∈ kmerge k a b) :
    m.length ≤ k ∧ ∃ ac ∈ a, ∃ bc ∈ b, (∀ x ∈ ac, x ∈ m) ∧ (∀ x ∈ bc, x ∈ m) := by
  unfold kmerge at h
  rw [List.mem_filter, List.mem_flatMap] at h
  obtain ⟨⟨ac, hac, hm⟩, hlen⟩ := h
  obtain ⟨bc, hbc, rfl⟩ := List.mem_map.mp hm
  refine ⟨by simpa using hlen, ac, hac, bc, hbc, ?_, ?_⟩
  · intro x hx; rw [mem_dedup]; exact List.mem_append_left _ hx
  · intro x hx; rw [mem_dedup]; exact List.mem_append_right _ hx

theorem fold_kmerge (k : Nat) : ∀ (rest : List (List (List Name))) (acc : List (List Name)) (m : List Name),
    m ∈ rest.foldl (kmerge k) acc →
    (∃ a ∈ acc, ∀ x ∈ a, x ∈ m) ∧ (∀ r ∈ rest, ∃ b ∈ r, ∀ x ∈ b, x ∈ m) ∧ (rest ≠ [] → m.length ≤ k)
  | [], acc, m, h => ⟨⟨m, h, fun _ hx => hx⟩, by simp, fun h => absurd rfl h⟩
  | r :: rest, acc, m, h => by
    rw [List.foldl_cons] at h
    obtain ⟨⟨a', ha', hsub⟩, h2, h3⟩ := fold_kmerge k rest (kmerge k acc r) m h
    obtain ⟨hlen, ac, hac, bc, hbc, s1, s2⟩ := mem_kmerge k acc r a' ha'
    refine ⟨⟨ac, hac, fun x hx => hsub x (s1 x hx)⟩, ?_, ?_⟩
    · intro r' hr'
      rcases List.mem_cons.mp hr' with rfl | hr'
      · exact ⟨bc, hbc, fun x hx => hsub x (s2 x hx)⟩
      · exact h2 r' hr'
    · intro _
      cases rest with
      | nil =>
        simp only [List.foldl_nil] at h
        exact (mem_kmerge k acc r m h).1
      | cons _ _ => exact h3 (by simp)

theorem mapM_some {β : Type} (f : Name → Option β) : ∀ (l : List Name) (r : List β), l.mapM f = some r →
    ∀ x ∈ l, ∃ y ∈ r, f x = some y
  | [], _, _, x, hx => by cases hx
  | a :: l, r, h, x, hx => by
    rw [List.mapM_cons] at h
    cases hfa : f a with
    | none => simp [hfa] at h
    | some b =>
      cases hl : l.mapM f with
      | none => simp [hfa, hl] at h
      | some bs =>
        simp only [hfa, hl, Option.bind_eq_bind, Option.bind_some, Option.pure_def, Option.some.injEq] at h
        subst h
        rcases List.mem_cons.mp hx with rfl | hx
        · exact ⟨b, by simp, hfa⟩
        · obtain ⟨y, hy, hfy⟩ := mapM_some f l bs hl x hx
          exact ⟨y, List.mem_cons_of_mem _ hy, hfy⟩

theorem kcuts_sep (c : Circuit) (k : Nat) (hk : 0 < k) (ord : Ord) (hord : OrdOK ord) :
    ∀ (fuel : Nat) (n : Name) (cuts : List (List Name)), kcuts c k ord fuel n = some cuts →
    ∀ cut ∈ cuts, cut = [n] ∨
      (cut.length ≤ k ∧ ∀ s l, c.fanin s = [] → QWalk (EdgeRel c) s n l → ∃ x ∈ cut, x ∈ l) := by
  intro fuel
  induction fuel with
  | zero => intro n cuts h; simp [kcuts] at h
  | succ fuel ih =>
    intro n cuts h cut hcut
    rw [kcuts_succ] at h
    have hmemT : ∀ y, y ∈ ord (dedup (c.fanin n)) ↔ y ∈ c.fanin n := by
      intro y; rw [(hord _).mem_iff, mem_dedup]
    generalize hT : ord (dedup (c.fanin n)) = T at h hmemT
    cases T with
    | nil =>
      simp only [Option.some.injEq] at h
      subst h
      exact Or.inl (by simpa using hcut)
    | cons f fs =>
      simp only [] at h
      cases h0 : kcuts c k ord fuel f with
      | none => simp [h0] at h
      | some c0 =>
        cases h1 : fs.mapM (kcuts c k ord fuel) with
        | none => simp [h0, h1] at h
        | some rest =>
          simp only [h0, h1, Option.some.injEq] at h
          subst h
          rcases List.mem_append.mp hcut with hm | hm
          · right
            obtain ⟨⟨a0, ha0, hsub0⟩, hrest, hlen⟩ := fold_kmerge k rest c0 cut hm
            -- every fan-in has one of its cuts inside `cut`
            have hcover : ∀ f' ∈ c.fanin n, ∃ cs, kcuts c k ord fuel f' = some cs ∧ ∃ a ∈ cs, ∀ x ∈ a, x ∈ cut := by
              intro f' hf'
              rcases List.mem_cons.mp ((hmemT f').mpr hf') with rfl | hfs
              · exact ⟨c0, h0, a0, ha0, hsub0⟩
              · obtain ⟨cs, hcs, hk'⟩ := mapM_some _ fs rest h1 f' hfs
                exact ⟨cs, hk', hrest cs hcs⟩
            constructor
            · cases rest with
              | nil =>
                simp only [List.foldl_nil] at hm
                rcases ih f c0 h0 cut hm with h | h
                · rw [h]; exact hk
                · exact h.1
              | cons _ _ => exact hlen (by simp)
            · intro s l hs hw
              rcases hw.snoc_inv with ⟨_, hsn⟩ | ⟨f', l0, hw0, hfe, hl⟩
              · subst hsn
                have : f ∈ c.fanin s := (hmemT f).mp (by simp)
                rw [hs] at this
                cases this
              · obtain ⟨cs, hcs, a, ha, hsub⟩ := hcover f' (mem_fanin.mpr hfe)
                rcases ih f' cs hcs a ha with h | h
                · refine ⟨f', hsub f' (by rw [h]; simp), ?_⟩
                  rw [hl]
                  exact List.mem_append_left _ hw0.last_mem
                · obtain ⟨x, hxa, hxl⟩ := h.2 s l0 hs hw0
                  exact ⟨x, hsub x hxa, by rw [hl]; exact List.mem_append_left _ hxl⟩
          · left
            simpa using hm

end Q
end CG
