/- C02 helper: the structural invariant of the circuit under construction, the extension relation between
   successive states, and the step "add a freshly named gate". -/
import CG.Proofs.VlogAdd
import CG.Proofs.TernaryFrame
import CG.Proofs.ArithGen
namespace CG
namespace VT
open Verilog Circuit Ternary

/-- assumptions on the declared nets `D` (inputs `ins` among them) -/
structure DeclOK (D : Name → Prop) (ins : List Name) : Prop where
  notSyn : ∀ n, D n → ¬ IsSyn n
  notTie : ∀ n, D n → n ≠ "tie_0" ∧ n ≠ "tie_1" ∧ n ≠ "tie_x"
  nameOK : ∀ n, D n → Limit.NameOK n
  insD : ∀ n ∈ ins, D n

/-- structural invariant of the circuit being built -/
structure SI (D : Name → Prop) (ins : List Name) (c : Circuit) : Prop where
  wf : WF c
  cls : ∀ x, c.has x = true → x = "tie_0" ∨ x = "tie_1" ∨ x = "tie_x" ∨ D x ∨ IsSyn x
  tie0 : c.attr? "tie_0" = some { ty := some "0", out := some false }
  tie1 : c.attr? "tie_1" = some { ty := some "1", out := some false }
  tiex : c.attr? "tie_x" = some { ty := some "x", out := some false }
  typed : ∀ x a, c.attr? x = some a → x ≠ "tie_x" → a.out = some false ∧ ∃ ty, a.ty = some ty ∧ ty ∈ okTypes
  inp : ∀ x, c.ty? x = some "input" ↔ x ∈ ins

/-- `c'` extends `c`: old nodes keep attributes and fan-in, new edges only enter new synthetic nodes, new nodes
    are synthetic or plain undriven buffers -/
structure Ext (c c' : Circuit) : Prop where
  mono : ∀ x, c.has x = true → c'.has x = true
  attr : ∀ x, c.has x = true → c'.attr? x = c.attr? x
  edgesOld : ∀ e ∈ c.edges, e ∈ c'.edges
  edgesNew : ∀ e ∈ c'.edges, e ∈ c.edges ∨ (IsSyn e.2 ∧ c.has e.2 = false)
  newNode : ∀ x, c.has x = false → c'.has x = true → IsSyn x ∨ c'.attr? x = some bufAttr

theorem Ext.refl (c : Circuit) : Ext c c :=
  ⟨fun _ h => h, fun _ _ => rfl, fun _ h => h, fun _ h => Or.inl h, fun x h h' => by rw [h] at h'; cases h'⟩

theorem Ext.trans {c c' c'' : Circuit} (h1 : Ext c c') (h2 : Ext c' c'') : Ext c c'' where
  mono := fun x h => h2.mono x (h1.mono x h)
  attr := fun x h => by rw [h2.attr x (h1.mono x h), h1.attr x h]
  edgesOld := fun e h => h2.edgesOld e (h1.edgesOld e h)
  edgesNew := fun e h => by
    rcases h2.edgesNew e h with h | ⟨hs, hn⟩
    · exact h1.edgesNew e h
    · right
      refine ⟨hs, ?_⟩
      cases hc : c.has e.2 with
      | false => rfl
      | true => rw [h1.mono _ hc] at hn; cases hn
  newNode := fun x h h'' => by
    cases hc' : c'.has x with
    | true =>
      rcases h1.newNode x h hc' with hs | ha
      · exact Or.inl hs
      · right; rw [h2.attr x hc', ha]
    | false => exact h2.newNode x hc' h''

/-- in-edges of old non-synthetic-fresh nodes are unchanged -/
theorem Ext.edge_iff {c c' : Circuit} (h : Ext c c') {y : Name} (hy : c.has y = true) (u : Name) :
    (u, y) ∈ c'.edges ↔ (u, y) ∈ c.edges := by
  constructor
  · intro he
    rcases h.edgesNew _ he with h1 | ⟨_, h1⟩
    · exact h1
    · rw [hy] at h1; cases h1
  · exact h.edgesOld _

theorem Ext.consistent {c c' : Circuit} (h : Ext c c') (hc : WF c) (hc' : WF c') {v : Val}
    (hv : Consistent c' v) : Consistent c v := by
  apply Arith.consistent_sub v hc hc'.edgesNodup ?_ ?_ hv
  · intro p hp
    have hhas : c.has p.1 = true := (has_iff_mem c p.1).2 (List.mem_map.2 ⟨p, hp, rfl⟩)
    have ha : c.attr? p.1 = some p.2 := attr?_of_mem hc.nodup hp
    have ha' := h.attr p.1 hhas
    rw [ha] at ha'
    exact attr?_mem ha'
  · intro p hp t _ _ u
    have hhas : c.has p.1 = true := (has_iff_mem c p.1).2 (List.mem_map.2 ⟨p, hp, rfl⟩)
    exact h.edge_iff hhas u

/-- a net that may be used as a gate input: an existing node other than `tie_x`, or a declared net -/
def Usable (D : Name → Prop) (c : Circuit) (u : Name) : Prop := (c.has u = true ∧ u ≠ "tie_x") ∨ D u

theorem Usable.mono {D : Name → Prop} {c c' : Circuit} {u : Name} (h : Usable D c u) (hm : ∀ x, c.has x = true → c'.has x = true) :
    Usable D c' u := h.imp (fun h => ⟨hm u h.1, h.2⟩) id

def gateTys : List String := ["not", "and", "or", "xor", "xnor"]

theorem gateTys_ok {ty : String} (h : ty ∈ gateTys) : ty ∈ okTypes ∧ ty ≠ "buf" ∧ ty ≠ "0" ∧ ty ≠ "1" ∧ ty ≠ "input" := by
  simp only [gateTys, List.mem_cons, List.not_mem_nil, or_false] at h
  rcases h with rfl | rfl | rfl | rfl | rfl <;> decide

theorem SI.has_tie0 {D ins c} (h : SI D ins c) : c.has "tie_0" = true := has_of_attr' h.tie0
theorem SI.has_tie1 {D ins c} (h : SI D ins c) : c.has "tie_1" = true := has_of_attr' h.tie1
theorem SI.has_tiex {D ins c} (h : SI D ins c) : c.has "tie_x" = true := has_of_attr' h.tiex

theorem SI.not_has_of_edge {D ins c} (h : SI D ins c) {n : Name} (hn : c.has n = false) (e : Name × Name)
    (he : e ∈ c.edges) : e.1 ≠ n ∧ e.2 ≠ n := by
  obtain ⟨h1, h2⟩ := h.wf.closed e he
  constructor
  · rintro rfl; rw [hn] at h1; cases h1
  · rintro rfl; rw [hn] at h2; cases h2

/-- what adding a fresh synthetic gate gives -/
structure GateOut (D : Name → Prop) (ins : List Name) (c c' : Circuit) (n : Name) (ty : String) (fanin : List Name) : Prop where
  si : SI D ins c'
  ext : Ext c c'
  syn : IsSyn n
  fresh : c.has n = false
  has : c'.has n = true
  noOut : ∀ e ∈ c'.edges, e.1 ≠ n
  ty : c'.attr? n = some { ty := some ty, out := some false }
  fanin : FaninIs c' n fanin

theorem gateOut_of_spec {D : Name → Prop} {ins : List Name} (hD : DeclOK D ins) {c c' : Circuit} (hSI : SI D ins c)
    {a : AddArgs} {n : Name} (s : AddSpec c a n c') (hn : IsSyn n) (hfresh : c.has n = false)
    (hty : a.ty ∈ gateTys) (hout : a.output = false) (hfo : a.fanout = []) (hac : a.addConnected = true)
    (hfi : ∀ u ∈ a.fanin, Usable D c u) :
    GateOut D ins c c' n a.ty a.fanin := by
  have hnotD : ¬ D n := fun h => hD.notSyn n h hn
  have hn_fi : n ∉ a.fanin := by
    intro hm
    rcases hfi n hm with ⟨h, _⟩ | h
    · rw [hfresh] at h; cases h
    · exact hnotD h
  have hedge : ∀ e, e ∈ c'.edges ↔ (e ∈ c.edges ∨ (e.1 ∈ a.fanin ∧ e.2 = n)) := by
    intro e; rw [s.edges, hfo]; simp
  have hold : ∀ x, c.has x = true → x ≠ n := by
    rintro x hx rfl; rw [hfresh] at hx; cases hx
  have hext : Ext c c' := by
    refine ⟨fun x h => (s.has x).mpr (Or.inl h), fun x h => s.attr_old x (hold x h) h,
      fun e h => (hedge e).mpr (Or.inl h), ?_, ?_⟩
    · intro e he
      rcases (hedge e).mp he with h | ⟨_, h⟩
      · exact Or.inl h
      · right; rw [h]; exact ⟨hn, hfresh⟩
    · intro x hx hx'
      by_cases hxn : x = n
      · left; rw [hxn]; exact hn
      · right; exact s.attr_new x hxn hx hx'
  have hself : c'.attr? n = some { ty := some a.ty, out := some false } := by
    rw [← hout]; exact s.attr_self
  have hgt := gateTys_ok hty
  have hhasn : c'.has n = true := (s.has n).mpr (Or.inr (Or.inl rfl))
  have hnoedge := hSI.not_has_of_edge hfresh
  -- attributes of every node of c'
  have hattr : ∀ x, c'.has x = true → x = n ∨ (c.has x = true ∧ c'.attr? x = c.attr? x) ∨
      (c.has x = false ∧ x ∈ a.fanin ∧ c'.attr? x = some bufAttr) := by
    intro x hx
    by_cases hxn : x = n
    · exact Or.inl hxn
    · right
      cases hcx : c.has x with
      | true => exact Or.inl ⟨rfl, s.attr_old x hxn hcx⟩
      | false =>
        right
        refine ⟨rfl, ?_, s.attr_new x hxn hcx hx⟩
        rcases (s.has x).mp hx with h | h | ⟨_, h⟩
        · rw [hcx] at h; cases h
        · exact absurd h hxn
        · exact h
  refine ⟨?_, hext, hn, hfresh, hhasn, ?_, hself, ?_⟩
  · constructor
    · refine ⟨s.nodupN hSI.wf.nodup, s.nodupE hSI.wf.edgesNodup, ?_⟩
      intro e he
      rcases (hedge e).mp he with h | ⟨h1, h2⟩
      · obtain ⟨g1, g2⟩ := hSI.wf.closed e h
        exact ⟨hext.mono _ g1, hext.mono _ g2⟩
      · exact ⟨(s.has e.1).mpr (Or.inr (Or.inr ⟨hac, h1⟩)), by rw [h2]; exact hhasn⟩
    · intro x hx
      rcases hattr x hx with rfl | ⟨h, _⟩ | ⟨_, h, _⟩
      · exact Or.inr (Or.inr (Or.inr (Or.inr hn)))
      · exact hSI.cls x h
      · rcases hfi x h with ⟨g, _⟩ | g
        · exact hSI.cls x g
        · exact Or.inr (Or.inr (Or.inr (Or.inl g)))
    · rw [hext.attr _ hSI.has_tie0]; exact hSI.tie0
    · rw [hext.attr _ hSI.has_tie1]; exact hSI.tie1
    · rw [hext.attr _ hSI.has_tiex]; exact hSI.tiex
    · intro x ax hx hxx
      rcases hattr x (has_of_attr' hx) with rfl | ⟨_, h⟩ | ⟨_, _, h⟩
      · rw [hself] at hx
        injection hx with hx
        rw [← hx]
        exact ⟨rfl, a.ty, rfl, hgt.1⟩
      · rw [h] at hx; exact hSI.typed x ax hx hxx
      · rw [h] at hx
        injection hx with hx
        rw [← hx]
        exact ⟨rfl, "buf", rfl, by decide⟩
    · intro x
      rw [← hSI.inp x]
      cases hx : c'.has x with
      | false =>
        rw [ty?_none_of_not_has hx]
        cases hcx : c.has x with
        | false => rw [ty?_none_of_not_has hcx]
        | true => rw [hext.mono x hcx] at hx; cases hx
      | true =>
        rcases hattr x hx with rfl | ⟨_, h⟩ | ⟨g, _, h⟩
        · rw [ty_of_attr hself, ty?_none_of_not_has hfresh]
          constructor
          · intro h; injection h with h; exact absurd h hgt.2.2.2.2
          · intro h; cases h
        · unfold Circuit.ty?; rw [h]
        · rw [ty_of_attr h, ty?_none_of_not_has g]
          simp [bufAttr]
  · intro e he hen
    rcases (hedge e).mp he with h | ⟨_, h⟩
    · exact (hnoedge e h).1 hen
    · apply hn_fi
      rw [← hen]
      rcases (hedge e).mp he with h' | ⟨h', _⟩
      · exact absurd hen (hnoedge e h').1
      · exact h'
  · intro u
    rw [hedge]
    constructor
    · rintro (h | ⟨h, _⟩)
      · exact absurd rfl (hnoedge _ h).2
      · exact h
    · intro h; exact Or.inr ⟨h, rfl⟩

end VT
end CG
