/-
  CG.Proofs.LintLinkOps — which node names an `add` call (without auto-created neighbours) can introduce, whatever its
  outcome: at most the returned name, which is the requested one or a `uid` variant of it; the registry is untouched.
-/
import CG.Proofs.LintLinkNames
import CG.Proofs.ApiCore
import CG.Proofs.LimitUid
import CG.Tx
namespace CG
namespace LintLink
open Circuit

theorem addTail_nodes (c : Circuit) (a : AddArgs) (n : Name) (hac : a.addConnected = false) :
    (addTail c a n).1.nodes = (c.addNodeAttr n { ty := some a.ty, out := some a.output }).nodes ∧
    (addTail c a n).1.bbs = c.bbs := by
  have hr : addR2 c a n = (c.addNodeAttr n { ty := some a.ty, out := some a.output }, .ok) := by
    unfold addR2; rw [hac]; rfl
  rw [addTail_eq, hr]
  simp only [bne_self_eq_false, Bool.false_eq_true, if_false]
  refine ⟨addTail3_nodes _ a n, ?_⟩
  unfold addTail3
  split
  · rw [connect_bbs, addNodeAttr_bbs]
  · simp only []; rw [connect_bbs, connect_bbs, addNodeAttr_bbs]

/-- frame of `add` (no `add_connected`), for every outcome -/
theorem add_frame (c : Circuit) (a : AddArgs) (hac : a.addConnected = false) :
    (c.add a).1.bbs = c.bbs ∧
    (∀ m, c.has m = true → (c.add a).1.has m = true) ∧
    (∀ m, (c.add a).1.has m = true → c.has m = true ∨ m = a.n ∨ (a.uid = true ∧ ∃ j, m = uidName a.n j)) := by
  rcases add_cases c a with ⟨o, m, e, _⟩ | ⟨n, hn, _, _, _, _, _, e⟩
  · rw [e]
    exact ⟨rfl, fun _ h => h, fun _ h => Or.inl h⟩
  · rw [e]
    obtain ⟨h1, h2⟩ := addTail_nodes c a n hac
    refine ⟨h2, ?_, ?_⟩
    · intro m hm
      rw [has_congr h1, addNodeAttr_has, hm]
      rfl
    · intro m hm
      rw [has_congr h1, addNodeAttr_has, Bool.or_eq_true] at hm
      rcases hm with hm | hm
      · exact Or.inl hm
      · have hmn : m = n := by simpa using hm
        subst hmn
        right
        cases hu : a.uid with
        | false =>
          rw [hu] at hn
          simp only [Bool.false_eq_true, if_false] at hn
          injection hn with hn
          exact Or.inl hn.symm
        | true =>
          rw [hu] at hn
          simp only [if_true] at hn
          rcases (Limit.uid_spec c a.n m hn).2 with h | h
          · exact Or.inl h
          · exact Or.inr ⟨rfl, h⟩

theorem addE_fst {c c' : Circuit} {a : AddArgs} {r : Name} (h : addE c a = .ok (c', r)) : c' = (c.add a).1 := by
  unfold addE at h
  generalize c.add a = x at h
  obtain ⟨c1, o, n⟩ := x
  cases o <;> simp only [] at h <;> first | (cases h; rfl) | cases h

theorem addC_fst {c c' : Circuit} {a : AddArgs} (h : Tx.addC c a = .ok c') : c' = (c.add a).1 := by
  unfold Tx.addC at h
  cases hx : addE c a with
  | error e => rw [hx] at h; cases h
  | ok p =>
    rw [hx] at h
    obtain ⟨c1, r⟩ := p
    simp only [Except.map] at h
    injection h with h
    subst h
    exact addE_fst hx

end LintLink
end CG
