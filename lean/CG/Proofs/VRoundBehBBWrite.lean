/- C03 helper (behavioural round trip WITH blackboxes): what `toWModule c true` emits for a writable circuit with
   blackbox instances: the instance statements of the gate-primitive form followed by one `assign` per node that is
   neither an input, nor a pin, nor the buffer driven by an output pin.  Generalises `VB.write_beh`, `VB.asgs_spec`. -/
import CG.Proofs.VRoundBehBBInv
import CG.Proofs.VRoundBehWrite
namespace CG
namespace VBB
open Verilog Circuit Ternary VT VB

/-- the writer succeeds: instance statements (as in the gate-primitive form), then the assignments of the private copy
    `c2` in which the wires leaving the output pins have been removed -/
theorem write_beh_bb (c : Circuit) (ord : Ord) (hord : OrdOK ord) (hc : VR.Wr c) :
    ∃ wm c2 bi, toWModule c true ord = .ok wm ∧ wm.name = c.name ∧ wm.inputs = ord c.inputs ∧
      wm.outputs = ord c.outputs ∧ wm.stmts = bi ++ (asgs ord c2).map (fun a => Item.assign [a]) ∧
      VR.All2 (VR.BBSpec c) c.bbs bi ∧ VR.CInv c (fun x => c.ty? x = some "bb_output") c2 := by
  obtain ⟨c2, bi, hbb, hall, h2⟩ := VR.bbFold_spec hord hc
  have hnn : c2.nodeNames = c.nodeNames := nodeNames_congr h2.nodes
  obtain ⟨w, p, hf⟩ := fold_ok c2 ord (ord c2.nodeNames) (bi, [], bi.map (fun _ => false))
    (fun n hn => by
      obtain ⟨t, ht, hs⟩ := VR.ty?_of_mem_nodeNames hc (hnn ▸ (hord _).mem_iff.1 hn)
      exact ⟨t, by rw [ty?_congr h2.nodes]; exact ht, hs⟩)
  refine ⟨{ name := c2.name, inputs := ord c.inputs, outputs := ord c.outputs, wires := w,
            stmts := bi ++ (asgs ord c2).map (fun a => Item.assign [a]), parens := p }, c2, bi, ?_, h2.name, rfl, rfl,
          rfl, hall, h2⟩
  rw [VR.toWModule_eq, VR.c1_eq ord hord hc, VR.any_none hc]
  simp only [Bool.false_eq_true, if_false, pure_bind]
  rw [hbb, Arith.bind_ok, hf, Arith.bind_ok]
  rfl

variable {c c2 : Circuit}

theorem fanin2_mem (h2 : VR.CInv c (fun x => c.ty? x = some "bb_output") c2) (u n : Name) :
    u ∈ c2.fanin n ↔ ((u, n) ∈ c.edges ∧ c.ty? u ≠ some "bb_output") := by
  rw [mem_fanin, h2.edges]

theorem fanin2_perm (hc : VR.Wr c) (h2 : VR.CInv c (fun x => c.ty? x = some "bb_output") c2) (n : Name)
    (hnp : ∀ u, (u, n) ∈ c.edges → c.ty? u ≠ some "bb_output") : (c2.fanin n).Perm (c.fanin n) := by
  rw [List.perm_ext_iff_of_nodup (fanin_nodup h2.nodup n) (fanin_nodup hc.clean.edgesNodup n)]
  intro u
  rw [fanin2_mem h2, mem_fanin]
  exact ⟨fun h => h.1, fun h => ⟨h, hnp u h⟩⟩

theorem fanin2_nil (hc : VR.Wr c) (h2 : VR.CInv c (fun x => c.ty? x = some "bb_output") c2) {n u : Name}
    (he : (u, n) ∈ c.edges) (hu : c.ty? u = some "bb_output") : c2.fanin n = [] := by
  have hb := (hc.ws.bbOut u n he hu).1
  apply List.eq_nil_iff_forall_not_mem.2
  intro u' hu'
  obtain ⟨h1, h3⟩ := (fanin2_mem h2 u' n).1 hu'
  have : u' = u := hc.ws.single n "buf" hb (by decide) u' u h1 he
  exact h3 (this ▸ hu)

/-- classification of the nodes of `c` by the assignment the writer emits for them -/
theorem classify2 {ord : Ord} (hord : OrdOK ord) (hc : VR.Wr c)
    (h2 : VR.CInv c (fun x => c.ty? x = some "bb_output") c2)
    (hnx : ∀ p ∈ c.nodes, p.2.ty ≠ some "x") {n : Name} {t : String} (hty : c.ty? n = some t) :
    (t ∈ gateTypes ∧ (∀ u, (u, n) ∈ c.edges → c.ty? u ≠ some "bb_output") ∧
      ∃ x xs, ord (c2.fanin n) = x :: xs ∧ ((t = "buf" ∨ t = "not") → xs = []) ∧
        asgOf ord c2 n = [(n, bexpr t (x :: xs))]) ∨
    ((t = "0" ∨ t = "1") ∧ asgOf ord c2 n = [(n, Expr.const t)]) ∨
    ((t = "input" ∨ t = "bb_input" ∨ t = "bb_output" ∨
        (t = "buf" ∧ ∃ u, (u, n) ∈ c.edges ∧ c.ty? u = some "bb_output")) ∧ asgOf ord c2 n = []) := by
  obtain ⟨t', hty', hsup⟩ := VR.ty?_of_mem_nodeNames hc (VR.mem_nodeNames_of_ty? hty)
  rw [hty] at hty'
  injection hty' with hty'
  subst hty'
  have hty2 : c2.ty? n = some t := by rw [ty?_congr h2.nodes]; exact hty
  obtain ⟨a, ha, hat⟩ := VR.mem_of_ty? hty
  have hS := fun h => hc.clean.single n t hty h
  have hM := fun h => hc.clean.multi n t hty h
  -- a gate: either driven by an output pin (then a `buf` without statement) or with all its fan-in
  have gate : t ∈ gateTypes → (1 ≤ (c.fanin n).length) → ((t = "buf" ∨ t = "not") → (c.fanin n).length = 1) →
      (t ∈ gateTypes ∧ (∀ u, (u, n) ∈ c.edges → c.ty? u ≠ some "bb_output") ∧
        ∃ x xs, ord (c2.fanin n) = x :: xs ∧ ((t = "buf" ∨ t = "not") → xs = []) ∧
          asgOf ord c2 n = [(n, bexpr t (x :: xs))]) ∨
      ((t = "0" ∨ t = "1") ∧ asgOf ord c2 n = [(n, Expr.const t)]) ∨
      ((t = "input" ∨ t = "bb_input" ∨ t = "bb_output" ∨
          (t = "buf" ∧ ∃ u, (u, n) ∈ c.edges ∧ c.ty? u = some "bb_output")) ∧ asgOf ord c2 n = []) := by
    intro hg hlen h1
    by_cases hdr : ∃ u, (u, n) ∈ c.edges ∧ c.ty? u = some "bb_output"
    · obtain ⟨u, he, hu⟩ := hdr
      have hb := (hc.ws.bbOut u n he hu).1
      rw [hty] at hb
      injection hb with hb
      refine Or.inr (Or.inr ⟨Or.inr (Or.inr (Or.inr ⟨hb, u, he, hu⟩)), ?_⟩)
      unfold asgOf
      rw [hty2]
      have hgc : gateTypes.contains t = true := List.contains_iff_mem.2 hg
      simp only [hgc, if_true, VR.ord_isEmpty hord, fanin2_nil hc h2 he hu, List.isEmpty_nil]
    · have hnp : ∀ u, (u, n) ∈ c.edges → c.ty? u ≠ some "bb_output" := fun u he hu => hdr ⟨u, he, hu⟩
      have hp := (fanin2_perm hc h2 n hnp).length_eq
      refine Or.inl ⟨hg, hnp, classify_gate hord n t hty2 (List.contains_iff_mem.2 hg) (by omega) (fun h => ?_)⟩
      rw [hp]; exact h1 h
  simp only [Expected.supported_types, Expected.addable_types, Expected.primitive_gates, List.mem_append,
    List.mem_cons, List.not_mem_nil, or_false] at hsup
  rcases hsup with ((rfl | rfl | rfl | rfl | rfl | rfl | rfl | rfl) | (rfl | rfl | rfl | rfl)) | (rfl | rfl)
  · have := hS (by decide)
    exact gate (by decide) (by omega) (fun _ => this)
  · exact gate (by decide) (hM (by decide)) (fun h => absurd h (by decide))
  · exact gate (by decide) (hM (by decide)) (fun h => absurd h (by decide))
  · exact gate (by decide) (hM (by decide)) (fun h => absurd h (by decide))
  · have := hS (by decide)
    exact gate (by decide) (by omega) (fun _ => this)
  · exact gate (by decide) (hM (by decide)) (fun h => absurd h (by decide))
  · exact gate (by decide) (hM (by decide)) (fun h => absurd h (by decide))
  · exact gate (by decide) (hM (by decide)) (fun h => absurd h (by decide))
  · refine Or.inr (Or.inl ⟨Or.inl rfl, ?_⟩)
    unfold asgOf; rw [hty2]; rfl
  · refine Or.inr (Or.inl ⟨Or.inr rfl, ?_⟩)
    unfold asgOf; rw [hty2]; rfl
  · exact absurd hat (hnx (n, a) ha)
  · refine Or.inr (Or.inr ⟨Or.inl rfl, ?_⟩)
    unfold asgOf; rw [hty2]; rfl
  · refine Or.inr (Or.inr ⟨Or.inr (Or.inl rfl), ?_⟩)
    unfold asgOf; rw [hty2]; rfl
  · refine Or.inr (Or.inr ⟨Or.inr (Or.inr (Or.inl rfl)), ?_⟩)
    unfold asgOf; rw [hty2]; rfl

/-- the nodes that get an assignment -/
def Asg (c : Circuit) (n : Name) : Prop :=
  ∃ t, c.ty? n = some t ∧ t ≠ "input" ∧ t ≠ "bb_input" ∧ t ≠ "bb_output" ∧
    ∀ u, (u, n) ∈ c.edges → c.ty? u ≠ some "bb_output"

/-- every emitted assignment defines a node of `c` that is not an input, a pin or the load of an output pin, by an
    expression over non-pin nodes of `c` whose Verilog value is the gate function of the node; every such node is
    assigned exactly once -/
theorem asgs_spec_bb (ord : Ord) (hord : OrdOK ord) (hc : VR.Wr c)
    (h2 : VR.CInv c (fun x => c.ty? x = some "bb_output") c2) (hnx : ∀ p ∈ c.nodes, p.2.ty ≠ some "x") :
    (∀ a ∈ asgs ord c2, Asg c a.1 ∧ BinConsts a.2 ∧ VP.NoMux a.2 ∧
        (∀ x ∈ exprIds a.2, c.has x = true ∧ ¬ VR.PinTy c x) ∧
        ∃ t, c.ty? a.1 = some t ∧ ∀ v : Val, gateFn t ((c.fanin a.1).map v) = some (denote v a.2)) ∧
    ((asgs ord c2).map (·.1)).Nodup ∧
    (∀ n, Asg c n → n ∈ (asgs ord c2).map (·.1)) := by
  have hnn : c2.nodeNames = c.nodeNames := nodeNames_congr h2.nodes
  refine ⟨?_, ?_, ?_⟩
  · intro a ha
    simp only [asgs, List.mem_flatMap] at ha
    obtain ⟨n, hn, ha⟩ := ha
    obtain ⟨t, hty, _⟩ := VR.ty?_of_mem_nodeNames hc (hnn ▸ (hord _).mem_iff.1 hn)
    rcases classify2 hord hc h2 hnx hty with ⟨hg, hnp, x, xs, hf, h1, hasg⟩ | ⟨hk, hasg⟩ | ⟨_, hasg⟩
    · rw [hasg, List.mem_singleton] at ha
      subst ha
      have hgf := VR.gate_facts hg
      refine ⟨⟨t, hty, ?_, hgf.2.1, hgf.2.2.1, hnp⟩, ?_, ?_, ?_, t, hty, ?_⟩
      · intro h; exact hgf.2.2.2.1 (Or.inr (Or.inr (Or.inr h)))
      · exact bexpr_prop VT.BinConsts (fun _ => trivial) (fun _ h => h) (fun _ _ h1 h2 => ⟨h1, h2⟩)
          (fun _ _ h1 h2 => ⟨h1, h2⟩) (fun _ _ h1 h2 => ⟨h1, h2⟩) t _
      · exact bexpr_prop VP.NoMux (fun _ => trivial) (fun _ h => h) (fun _ _ h1 h2 => ⟨h1, h2⟩)
          (fun _ _ h1 h2 => ⟨h1, h2⟩) (fun _ _ h1 h2 => ⟨h1, h2⟩) t _
      · intro y hy
        have hy' : y ∈ ord (c2.fanin n) := by rw [hf]; exact exprIds_bexpr t x xs y hy
        obtain ⟨he, hyo⟩ := (fanin2_mem h2 y n).1 ((hord _).mem_iff.1 hy')
        refine ⟨(hc.clean.closed _ he).1, ?_⟩
        rintro (h | h)
        · exact hc.ws.noBBInFanout y n he h
        · exact hyo h
      · intro v
        show gateFn t ((c.fanin n).map v) = _
        rw [← Limit.gateFn_perm_any t ((fanin2_perm hc h2 n hnp).map v),
          ← Limit.gateFn_perm_any t ((hord (c2.fanin n)).map v), hf]
        exact gateFn_bexpr v t x xs hg h1
    · rw [hasg, List.mem_singleton] at ha
      subst ha
      refine ⟨⟨t, hty, ?_, ?_, ?_, ?_⟩, hk, trivial, ?_, t, hty, ?_⟩
      · rcases hk with rfl | rfl <;> decide
      · rcases hk with rfl | rfl <;> decide
      · rcases hk with rfl | rfl <;> decide
      · intro u he
        exact absurd (hc.ws.noFanin u n he t hty) (by rcases hk with rfl | rfl <;> decide)
      · intro y hy; simp [VT.exprIds] at hy
      · intro v
        rcases hk with rfl | rfl <;> simp [gateFn, VT.denote]
    · rw [hasg] at ha
      cases ha
  · have hs : ((asgs ord c2).map (·.1)).Sublist (ord c2.nodeNames) := fst_sublist ord c2 _
    exact hs.nodup ((hord _).nodup_iff.2 (hnn ▸ hc.clean.nodup))
  · rintro n ⟨t, hty, hti, hbi, hbo, hnp⟩
    have hn : n ∈ ord c2.nodeNames := (hord _).mem_iff.2 (hnn ▸ VR.mem_nodeNames_of_ty? hty)
    simp only [asgs, List.mem_map, List.mem_flatMap]
    rcases classify2 hord hc h2 hnx hty with ⟨_, _, x, xs, _, _, hasg⟩ | ⟨_, hasg⟩ | ⟨h, _⟩
    · exact ⟨_, ⟨n, hn, by rw [hasg]; exact List.mem_singleton.2 rfl⟩, rfl⟩
    · exact ⟨_, ⟨n, hn, by rw [hasg]; exact List.mem_singleton.2 rfl⟩, rfl⟩
    · rcases h with h | h | h | ⟨_, u, he, hu⟩
      · exact absurd h hti
      · exact absurd h hbi
      · exact absurd h hbo
      · exact absurd hu (hnp u he)

end VBB
end CG
