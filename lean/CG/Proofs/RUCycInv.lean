/- `remove_unloaded` on possibly cyclic circuits (C16, K42): definitions, the fan-in filter and the worklist invariant.
   Nothing here uses acyclicity; the liveness predicate is the greatest self-sustaining set `Kept`. -/
import CG.Proofs.RUInv
namespace CG
namespace RUC
open RU

/-- `RU.Good` without the acyclicity field -/
structure GoodCyc (c : Circuit) : Prop where
  nodup : c.nodeNames.Nodup
  edgesNodup : c.edges.Nodup
  closed : ∀ e ∈ c.edges, c.has e.1 = true ∧ c.has e.2 = true
  noFaninOnSources : ∀ e ∈ c.edges, c.ty? e.2 ≠ some "input" ∧ c.ty? e.2 ≠ some "bb_output"
  noBBInFanout : ∀ e ∈ c.edges, c.ty? e.1 ≠ some "bb_input"

def SelfSustaining (c : Circuit) (inputs : Bool) (K : Name → Prop) : Prop :=
  ∀ n, K n → c.has n = true ∧
    (c.isOut n = true ∨ ¬ Removable c inputs n ∨ ∃ m, (n, m) ∈ c.edges ∧ K m)

def Kept (c : Circuit) (inputs : Bool) (n : Name) : Prop := ∃ K, SelfSustaining c inputs K ∧ K n

/-- `Kept` is itself self-sustaining (it is the greatest such set) -/
theorem kept_selfSustaining (c : Circuit) (inputs : Bool) : SelfSustaining c inputs (Kept c inputs) := by
  rintro n ⟨K, hK, hn⟩
  obtain ⟨hh, h⟩ := hK n hn
  refine ⟨hh, ?_⟩
  rcases h with h | h | ⟨m, he, hm⟩
  · exact Or.inl h
  · exact Or.inr (Or.inl h)
  · exact Or.inr (Or.inr ⟨m, he, K, hK, hm⟩)

theorem kept_unfold {c : Circuit} {inputs : Bool} {n : Name} (h : Kept c inputs n) :
    c.has n = true ∧ (c.isOut n = true ∨ ¬ Removable c inputs n ∨ ∃ m, (n, m) ∈ c.edges ∧ Kept c inputs m) :=
  kept_selfSustaining c inputs n h

theorem kept_of_out {c : Circuit} {inputs : Bool} {n : Name} (hh : c.has n = true) (ho : c.isOut n = true) :
    Kept c inputs n :=
  ⟨fun m => m = n, fun m hm => by subst hm; exact ⟨hh, Or.inl ho⟩, rfl⟩

theorem kept_of_not_removable {c : Circuit} {inputs : Bool} {n : Name} (hh : c.has n = true)
    (hr : ¬ Removable c inputs n) : Kept c inputs n :=
  ⟨fun m => m = n, fun m hm => by subst hm; exact ⟨hh, Or.inr (Or.inl hr)⟩, rfl⟩

theorem kept_of_succ {c : Circuit} {inputs : Bool} {n m : Name} (hh : c.has n = true) (he : (n, m) ∈ c.edges)
    (hm : Kept c inputs m) : Kept c inputs n := by
  refine ⟨fun x => x = n ∨ Kept c inputs x, ?_, Or.inl rfl⟩
  rintro x (rfl | hx)
  · exact ⟨hh, Or.inr (Or.inr ⟨m, he, Or.inr hm⟩)⟩
  · obtain ⟨hxh, h⟩ := kept_unfold hx
    refine ⟨hxh, ?_⟩
    rcases h with h | h | ⟨b, hb, hkb⟩
    · exact Or.inl h
    · exact Or.inr (Or.inl h)
    · exact Or.inr (Or.inr ⟨b, hb, Or.inr hkb⟩)

/-- a node that is not kept is a non-output of a deletable kind -/
theorem dead_facts {c : Circuit} {inputs : Bool} {n : Name} (hh : c.has n = true) (hd : ¬ Kept c inputs n) :
    c.isOut n = false ∧ Removable c inputs n := by
  constructor
  · cases h : c.isOut n
    · rfl
    · exact absurd (kept_of_out hh h) hd
  · apply Classical.byContradiction
    intro hr
    exact hd (kept_of_not_removable hh hr)

/-! ### the fan-in filter (copy of `RU.app_mem` / `RU.app_nodup`, which only need `edges.Nodup`) -/

theorem app_mem (c : Circuit) (hen : c.edges.Nodup) (inputs : Bool) (ord : Ord) (hord : OrdOK ord)
    (rem : List Name) (n : Name) (hn : n ∉ rem) (fi : Name) :
    fi ∈ appList inputs ord (restrict c rem) n ↔
      ((fi, n) ∈ c.edges ∧ fi ∉ rem ∧
        (inputs = true ∨ (c.ty? fi ≠ some "input" ∧ c.ty? fi ≠ some "bb_output")) ∧
        c.isOut fi = false ∧ ∀ b, (fi, b) ∈ c.edges → b ∈ rem ∨ b = n) := by
  unfold appList
  rw [List.mem_filter, (hord _).mem_iff, mem_fanin, mem_restrict_edges]
  simp only [Bool.and_eq_true, skip_iff]
  constructor
  · rintro ⟨⟨he, hfi, _⟩, ⟨hs, ho⟩, hl⟩
    rw [restrict_ty c rem fi hfi] at hs
    rw [restrict_isOut c rem fi hfi] at ho
    refine ⟨he, hfi, hs, by simpa using ho, ?_⟩
    intro b hb
    by_cases hbr : b ∈ rem
    · exact Or.inl hbr
    · right
      have hl' : ((restrict c rem).fanout fi).length = 1 := by simpa using hl
      exact all_eq_of_length_one hl' (n := n)
        ((mem_fanout _ _ _).2 ((mem_restrict_edges _ _ _ _).2 ⟨he, hfi, hn⟩)) b
        ((mem_fanout _ _ _).2 ((mem_restrict_edges _ _ _ _).2 ⟨hb, hfi, hbr⟩))
  · rintro ⟨he, hfi, hs, ho, hall⟩
    refine ⟨⟨he, hfi, hn⟩, ⟨by rwa [restrict_ty c rem fi hfi], by rw [restrict_isOut c rem fi hfi]; simp [ho]⟩, ?_⟩
    have : ((restrict c rem).fanout fi).length = 1 :=
      length_one_of_all_eq (fanout_nodup _ (restrict_edges_nodup c hen rem) fi) (n := n)
        ((mem_fanout _ _ _).2 ((mem_restrict_edges _ _ _ _).2 ⟨he, hfi, hn⟩))
        (by
          intro b hb
          rw [mem_fanout, mem_restrict_edges] at hb
          rcases hall b hb.1 with h | h
          · exact absurd h hb.2.2
          · exact h)
    simpa using this

theorem app_nodup (c : Circuit) (hen : c.edges.Nodup) (inputs : Bool) (ord : Ord) (hord : OrdOK ord)
    (rem : List Name) (n : Name) : (appList inputs ord (restrict c rem) n).Nodup := by
  unfold appList
  refine List.Pairwise.filter _ ?_
  exact (hord _).nodup_iff.2 (fanin_nodup _ (restrict_edges_nodup c hen rem) n)

/-! ### the invariant -/

structure Inv (c : Circuit) (inputs : Bool) (rem wl : List Name) : Prop where
  remNodup : rem.Nodup
  wlNodup : wl.Nodup
  disj : ∀ n ∈ wl, n ∉ rem
  remHas : ∀ n ∈ rem, c.has n = true
  wlOK : ∀ n ∈ wl, c.has n = true ∧ ∀ b, (n, b) ∈ c.edges → b ∈ rem
  dead : ∀ n, n ∈ rem ∨ n ∈ wl → ¬ Kept c inputs n
  complete : ∀ m, c.has m = true → ¬ Kept c inputs m → m ∉ rem → m ∉ wl →
      ∃ b, (m, b) ∈ c.edges ∧ b ∉ rem

theorem Inv.step {c : Circuit} (hg : GoodCyc c) {inputs : Bool}
    {ord : Ord} (hord : OrdOK ord) {rem wl0 : List Name} {n : Name}
    (h : Inv c inputs rem (wl0 ++ [n])) :
    Inv c inputs (n :: rem) (wl0 ++ appList inputs ord (restrict c rem) n) := by
  have hnwl : n ∈ wl0 ++ [n] := by simp
  have hnrem : n ∉ rem := h.disj n hnwl
  have hnd := List.nodup_append.1 h.wlNodup
  have hnwl0 : n ∉ wl0 := fun hx => hnd.2.2 n hx n (by simp) rfl
  have hnOK := h.wlOK n hnwl
  have hndead := h.dead n (Or.inr hnwl)
  have happ := app_mem c hg.edgesNodup inputs ord hord rem n hnrem
  refine ⟨?_, ?_, ?_, ?_, ?_, ?_, ?_⟩
  · exact List.nodup_cons.2 ⟨hnrem, h.remNodup⟩
  · refine List.nodup_append.2 ⟨hnd.1, app_nodup c hg.edgesNodup inputs ord hord rem n, ?_⟩
    intro a ha b hb hab
    subst hab
    obtain ⟨he, _, _, _, _⟩ := (happ a).1 hb
    exact hnrem ((h.wlOK a (by simp [ha])).2 n he)
  · intro x hx
    rw [List.mem_append] at hx
    rw [List.mem_cons, not_or]
    rcases hx with hx | hx
    · exact ⟨fun hxn => hnwl0 (hxn ▸ hx), h.disj x (by simp [hx])⟩
    · obtain ⟨he, hfi, _, _, _⟩ := (happ x).1 hx
      refine ⟨fun hxn => ?_, hfi⟩
      subst hxn
      exact hnrem (hnOK.2 x he)
  · intro x hx
    rcases List.mem_cons.1 hx with hx | hx
    · exact hx ▸ hnOK.1
    · exact h.remHas x hx
  · intro x hx
    rcases List.mem_append.1 hx with hx | hx
    · have := h.wlOK x (by simp [hx])
      exact ⟨this.1, fun b hb => List.mem_cons_of_mem _ (this.2 b hb)⟩
    · obtain ⟨he, _, _, _, hall⟩ := (happ x).1 hx
      refine ⟨(hg.closed _ he).1, fun b hb => ?_⟩
      rcases hall b hb with hb | hb
      · exact List.mem_cons_of_mem _ hb
      · exact hb ▸ List.mem_cons_self
  · intro x hx
    have hx' : (x ∈ rem ∨ x ∈ wl0 ++ [n]) ∨ x ∈ appList inputs ord (restrict c rem) n := by
      rcases hx with hx | hx
      · rcases List.mem_cons.1 hx with hx | hx
        · exact Or.inl (Or.inr (hx ▸ hnwl))
        · exact Or.inl (Or.inl hx)
      · rcases List.mem_append.1 hx with hx | hx
        · exact Or.inl (Or.inr (List.mem_append_left _ hx))
        · exact Or.inr hx
    rcases hx' with hx' | hx'
    · exact h.dead x hx'
    · obtain ⟨he, hfi, hs, ho, hall⟩ := (happ x).1 hx'
      have hnb := hg.noBBInFanout _ he
      intro hkx
      rcases (kept_unfold hkx).2 with hout | hnr | ⟨b, hb, hkb⟩
      · rw [ho] at hout; exact Bool.noConfusion hout
      · exact hnr ⟨hnb, hs⟩
      · rcases hall b hb with hbr | hbn
        · exact h.dead b (Or.inl hbr) hkb
        · exact hndead (hbn ▸ hkb)
  · intro m hm hdm hmr hmw
    rw [List.mem_cons, not_or] at hmr
    rw [List.mem_append, not_or] at hmw
    have hmw' : m ∉ wl0 ++ [n] := by
      simp only [List.mem_append, List.mem_singleton, not_or]
      exact ⟨hmw.1, hmr.1⟩
    obtain ⟨b, hb, hbr⟩ := h.complete m hm hdm hmr.2 hmw'
    by_cases hex : ∃ b, (m, b) ∈ c.edges ∧ b ∉ rem ∧ b ≠ n
    · obtain ⟨b', hb', hbr', hbn'⟩ := hex
      exact ⟨b', hb', by rw [List.mem_cons, not_or]; exact ⟨hbn', hbr'⟩⟩
    · exfalso
      have hall : ∀ b, (m, b) ∈ c.edges → b ∈ rem ∨ b = n := by
        intro b' hb'
        by_cases h1 : b' ∈ rem
        · exact Or.inl h1
        · by_cases h2 : b' = n
          · exact Or.inr h2
          · exact absurd ⟨b', hb', h1, h2⟩ hex
      have hbn : b = n := by
        rcases hall b hb with h1 | h1
        · exact absurd h1 hbr
        · exact h1
      have hf := dead_facts hm hdm
      exact hmw.2 ((happ m).2 ⟨hbn ▸ hb, hmr.2, hf.2.2, hf.1, hall⟩)

theorem Inv.init {c : Circuit} (hg : GoodCyc c) (inputs : Bool) :
    Inv c inputs [] (initList c inputs) := by
  refine ⟨List.nodup_nil, initList_nodup c hg.nodup inputs, ?_, ?_, ?_, ?_, ?_⟩
  · intro n _; exact List.not_mem_nil
  · intro n hn; exact absurd hn List.not_mem_nil
  · intro n hn
    obtain ⟨hh, _, _, hf, _⟩ := (mem_initList c hg.nodup inputs n).1 hn
    exact ⟨hh, fun b hb => absurd hb (hf b)⟩
  · intro n hn
    rcases hn with hn | hn
    · exact absurd hn List.not_mem_nil
    · obtain ⟨_, h0, ho, hf, h1⟩ := (mem_initList c hg.nodup inputs n).1 hn
      intro hk
      rcases (kept_unfold hk).2 with hout | hnr | ⟨b, hb, _⟩
      · rw [ho] at hout; exact Bool.noConfusion hout
      · exact hnr ⟨h0, h1⟩
      · exact hf b hb
  · intro m hm hdm _ hmw
    by_cases hex : ∃ b, (m, b) ∈ c.edges
    · obtain ⟨b, hb⟩ := hex
      exact ⟨b, hb, List.not_mem_nil⟩
    · exfalso
      apply hmw
      have hf := dead_facts hm hdm
      exact (mem_initList c hg.nodup inputs m).2
        ⟨hm, hf.2.1, hf.1, fun b hb => hex ⟨b, hb⟩, hf.2.2⟩

end RUC
end CG
