/- C18 total correctness helpers: the cutting loop of `acyclic_unroll` succeeds -/
import CG.Proofs.AcycOkBase
set_option linter.unusedSimpArgs false
set_option linter.unusedVariables false
namespace CG
namespace AU
open Circuit Query
open Tx (addC)

theorem nameOK_aux (f : Name) : Limit.NameOK (aux f) :=
  Arith.nameOK_lit "aux_in_" 'a' "ux_in_".toList rfl (by decide) f

theorem hasDot_aux (f : Name) : hasDot (aux f) = hasDot f := by
  unfold aux
  rw [LintLink.hasDot_append]
  have : hasDot "aux_in_" = false := by decide
  rw [this, Bool.false_or]

theorem cutInv_has {c cc : Circuit} {L : List Name} (hI : CutInv c L cc) (x : Name) :
    cc.has x = true ↔ (c.has x = true ∨ ∃ g ∈ L, x = aux g) := by
  rw [has_iff_mem, has_iff_mem]
  unfold nodeNames
  rw [hI.nodes, List.map_append, List.mem_append, List.map_map]
  apply or_congr Iff.rfl
  simp only [List.mem_map, Function.comp]
  constructor
  · rintro ⟨g, hg, e⟩; exact ⟨g, hg, e.symm⟩
  · rintro ⟨g, hg, e⟩; exact ⟨g, hg, e.symm⟩

theorem cutInv_ty {c cc : Circuit} {L : List Name} (hI : CutInv c L cc) {x : Name} (hx : c.has x = true) :
    cc.ty? x = c.ty? x := by
  unfold ty?
  rw [attr?_append_left hI.nodes hx]

theorem ok_cutStep {c : Circuit} {ord : Ord} (hord : OrdOK ord) (hc : LintClean c) {L : List Name} {cc : Circuit}
    {f : Name} (hI : CutInv c L cc) (hf : c.has f = true) (hfL : f ∉ L) (hfresh : c.has (aux f) = false) :
    ∃ cc', cutStep c ord cc f = .ok cc' := by
  have hwf : WF c := hc.toWF
  generalize hfo : ord (dedup (c.fanout f)) = fo
  have hmemfo : ∀ x, x ∈ fo ↔ (f, x) ∈ c.edges := fun x => by rw [← hfo]; exact mem_fo hord
  have hccfr : cc.has (aux f) = false := by
    cases hh : cc.has (aux f) with
    | false => rfl
    | true =>
      rcases (cutInv_has hI _).1 hh with h1 | ⟨g, hg, e⟩
      · rw [hfresh] at h1; cases h1
      · exact absurd (aux_inj e ▸ hg) hfL
  have hdfr : (cc.disconnect [f] fo).has (aux f) = false := hccfr
  let c1 := (cc.disconnect [f] fo).addNodeAttr (aux f) { ty := some "buf", out := some false }
  have hc1ty : ∀ v, c.has v = true → c1.ty? v = c.ty? v := by
    intro v hv
    have hne : v ≠ aux f := by
      intro e
      rw [e, hfresh] at hv
      cases hv
    show ((cc.disconnect [f] fo).addNodeAttr (aux f) { ty := some "buf", out := some false }).ty? v = _
    rw [addNodeAttr_ty_fresh _ hdfr, if_neg hne]
    exact cutInv_ty hI hv
  have hc1aux : c1.ty? (aux f) = some "buf" := by
    show ((cc.disconnect [f] fo).addNodeAttr (aux f) { ty := some "buf", out := some false }).ty? (aux f) = _
    rw [addNodeAttr_ty_fresh _ hdfr, if_pos rfl]
  -- the readers of `f` lose their only driver
  have hfanin : ∀ v ∈ fo, ∀ t, c.ty? v = some t → t ∈ singleTypes → c1.fanin v = [] := by
    intro v hv t ht hst
    have hev : (f, v) ∈ c.edges := (hmemfo v).1 hv
    have hlen := hc.single v t ht hst
    have hfi : ∀ u, (u, v) ∈ c.edges → u = f := by
      intro u hu
      exact eq_of_length_le_one (by omega) (mem_fanin.2 hu) (mem_fanin.2 hev)
    show faninL ((cc.disconnect [f] fo).addNodeAttr (aux f) { ty := some "buf", out := some false }).edges v = []
    rw [addNodeAttr_edges]
    apply faninL_nil_of
    intro e he e2
    have he' : e ∈ cc.edges := disconnect_mem_of _ _ _ he
    have hnot : ¬ (e.1 = f ∧ e.2 ∈ fo) := by
      unfold disconnect at he
      have := (List.mem_filter.1 he).2
      simp only [Bool.not_eq_true', Bool.and_eq_false_iff, List.contains_iff_mem, List.mem_singleton] at this
      rintro ⟨k1, k2⟩
      rcases this with h | h
      · simp [k1] at h
      · simp [k2] at h
    rcases (hI.mem e).1 he' with ⟨h1, _⟩ | ⟨g, hg, _, h2⟩
    · apply hnot
      have : (e.1, v) ∈ c.edges := by rw [← e2]; exact h1
      exact ⟨hfi _ this, e2 ▸ hv⟩
    · rw [e2] at h2
      exact hfL (hfi g h2 ▸ hg)
  obtain ⟨c3, h3⟩ := Arith.connect_succeeds c1 [aux f] fo
    (by
      intro u hu; simp only [List.mem_singleton] at hu; subst hu
      exact ⟨"buf", hc1aux, by decide, by decide⟩)
    (by
      intro v hv
      have hev : (f, v) ∈ c.edges := (hmemfo v).1 hv
      have hvc : c.has v = true := (hwf.closed _ hev).2
      obtain ⟨a, ha⟩ := has_exists hvc
      obtain ⟨t, ht, _⟩ := hc.typed _ ha
      have hty : c.ty? v = some t := by rw [Arith.ty?_of_mem hwf.nodup ha]; exact ht
      refine ⟨t, by rw [hc1ty v hvc]; exact hty, ?_, ?_⟩
      · intro hs
        have := hc.noFanin v t hty hs
        have hm : f ∈ c.fanin v := mem_fanin.2 hev
        rw [this] at hm
        cases hm
      · intro hst
        rw [hfanin v hv t hty hst]
        simp)
  refine ⟨c3, ?_⟩
  unfold cutStep
  rw [hfo]
  apply addC_ok_conn (cc.disconnect [f] fo) { n := "aux_in_" ++ f, ty := "buf", fanout := fo } rfl rfl hdfr
    (show T.supported.contains "buf" = true by decide)
    (fun h => absurd h.1 (show ¬ 1 < 0 by decide)) (fun h => h.1 rfl) (nameOK_aux f) c3 c3 h3
    (connect_empty_left _ _)

theorem ok_cutFold {c : Circuit} {ord : Ord} (hord : OrdOK ord) (hc : LintClean c) :
    ∀ (R L : List Name) (cc : Circuit), CutInv c L cc → (∀ f ∈ R, c.has f = true ∧ c.has (aux f) = false) →
    (L ++ R).Nodup → ∃ r, R.foldlM (cutStep c ord) cc = .ok r := by
  intro R
  induction R with
  | nil => intro L cc _ _ _; exact ⟨cc, rfl⟩
  | cons f R ih =>
    intro L cc hI hR hnd
    have hfL : f ∉ L := by
      intro hcn
      rw [List.nodup_append] at hnd
      exact hnd.2.2 f hcn f (by simp) rfl
    obtain ⟨cc', h1⟩ := ok_cutStep hord hc hI (hR f (by simp)).1 hfL (hR f (by simp)).2
    have hI' := cutStep_inv hord hI (hR f (by simp)).1 hfL h1
    have e : L ++ f :: R = (L ++ [f]) ++ R := by simp
    obtain ⟨r, hr⟩ := ih (L ++ [f]) cc' hI' (fun g hg => hR g (by simp [hg])) (by rw [← e]; exact hnd)
    refine ⟨r, ?_⟩
    rw [List.foldlM_cons, h1]
    exact hr

end AU
end CG
