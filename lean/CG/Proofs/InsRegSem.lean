/- C05 (insert_registers) helpers: the effect of one splice step, stated order-free, extends the circuit -/
import CG.Proofs.InsRegBase
set_option linter.unusedSimpArgs false
set_option linter.unusedVariables false
set_option linter.unusedSectionVars false
namespace CG
namespace InsReg
open Circuit

def bufA : Attr := { ty := some "buf", out := some false }
def inA : Attr := { ty := some "bb_input", out := some false }
def outA : Attr := { ty := some "bb_output", out := some false }

/-- what one splice step does: node `n` loses all its loads to the new buf `r`; the flop `inst` sits between -/
structure Splice (a b : Circuit) (n r inst : Name) : Prop where
  wf : WF a
  hasn : a.has n = true
  hasclk : a.has "clk" = true
  fr : a.has r = false
  fd : a.has (inst ++ ".d") = false
  fq : a.has (inst ++ ".q") = false
  fk : a.has (inst ++ ".clk") = false
  rd : r ≠ inst ++ ".d"
  rq : r ≠ inst ++ ".q"
  rk : r ≠ inst ++ ".clk"
  nodes : ∀ p, p ∈ b.nodes ↔ p ∈ a.nodes ∨ p = (r, bufA) ∨ p = (inst ++ ".d", inA) ∨
    p = (inst ++ ".q", outA) ∨ p = (inst ++ ".clk", inA)
  nodup : b.nodeNames.Nodup
  edges : ∀ e, e ∈ b.edges ↔ (e ∈ a.edges ∧ e.1 ≠ n) ∨ (e.1 = r ∧ (n, e.2) ∈ a.edges) ∨
    e = (n, inst ++ ".d") ∨ e = (inst ++ ".q", r) ∨ e = ("clk", inst ++ ".clk")
  enodup : b.edges.Nodup
  bbs : b.bbs = a.bbs ++ [(inst, ffBox)]

theorem pin_dq (inst : Name) : inst ++ ".d" ≠ inst ++ ".q" := fun h =>
  absurd ((String.append_right_inj _).1 h) (by decide)
theorem pin_dk (inst : Name) : inst ++ ".d" ≠ inst ++ ".clk" := fun h =>
  absurd ((String.append_right_inj _).1 h) (by decide)
theorem pin_qk (inst : Name) : inst ++ ".q" ≠ inst ++ ".clk" := fun h =>
  absurd ((String.append_right_inj _).1 h) (by decide)

theorem eq_singleton_of_nodup {l : List Name} {a : Name} (hnd : l.Nodup) (h : ∀ x, x ∈ l ↔ x = a) : l = [a] := by
  have hp : l.Perm [a] := (List.perm_ext_iff_of_nodup hnd (by simp)).mpr (fun x => by rw [h]; simp)
  exact List.perm_singleton.mp hp

theorem mem_inputs_iff' (c : Circuit) (y : Name) :
    y ∈ c.inputs ↔ ∃ a, (y, a) ∈ c.nodes ∧ a.ty = some "input" := by
  unfold inputs filterType
  simp only [List.mem_map, List.mem_filter]
  constructor
  · rintro ⟨⟨n, a⟩, ⟨hp, hq⟩, e⟩
    simp only [] at e; subst e
    refine ⟨a, hp, ?_⟩
    cases hty : a.ty with
    | none => rw [hty] at hq; simp at hq
    | some t => rw [hty] at hq; simp at hq; rw [hq]
  · rintro ⟨a, hp, ht⟩
    exact ⟨(y, a), ⟨hp, by simp [ht]⟩, rfl⟩

theorem mem_outputs_iff' (c : Circuit) (y : Name) :
    y ∈ c.outputs ↔ ∃ a, (y, a) ∈ c.nodes ∧ a.out = some true := by
  unfold outputs
  simp only [List.mem_map, List.mem_filter]
  constructor
  · rintro ⟨⟨n, a⟩, ⟨hp, hq⟩, e⟩
    simp only [] at e; subst e
    refine ⟨a, hp, ?_⟩
    cases ho : a.out with
    | none => rw [ho] at hq; simp at hq
    | some t => rw [ho] at hq; simp at hq; rw [hq]
  · rintro ⟨a, hp, ht⟩
    exact ⟨(y, a), ⟨hp, by simp [ht]⟩, rfl⟩

/-- the substitution of the spliced driver -/
def sub (n r : Name) (x : Name) : Name := if x = n then r else x

namespace Splice
variable {a b : Circuit} {n r inst : Name} (h : Splice a b n r inst)
include h

theorem old_ne {m : Name} (hm : a.has m = true) :
    m ≠ r ∧ m ≠ inst ++ ".d" ∧ m ≠ inst ++ ".q" ∧ m ≠ inst ++ ".clk" := by
  refine ⟨?_, ?_, ?_, ?_⟩ <;> rintro rfl
  · rw [h.fr] at hm; cases hm
  · rw [h.fd] at hm; cases hm
  · rw [h.fq] at hm; cases hm
  · rw [h.fk] at hm; cases hm

theorem mem_old {p : Name × Attr} (hp : p ∈ a.nodes) : p ∈ b.nodes := (h.nodes p).mpr (Or.inl hp)

theorem has_old {m : Name} (hm : a.has m = true) : b.has m = true := by
  obtain ⟨at', ha⟩ := (RU.has_iff_exists a m).mp hm
  exact (RU.has_iff_exists b m).mpr ⟨at', h.mem_old ha⟩

theorem has_r : b.has r = true := (RU.has_iff_exists b r).mpr ⟨_, (h.nodes _).mpr (Or.inr (Or.inl rfl))⟩
theorem has_d : b.has (inst ++ ".d") = true :=
  (RU.has_iff_exists b _).mpr ⟨_, (h.nodes _).mpr (Or.inr (Or.inr (Or.inl rfl)))⟩
theorem has_q : b.has (inst ++ ".q") = true :=
  (RU.has_iff_exists b _).mpr ⟨_, (h.nodes _).mpr (Or.inr (Or.inr (Or.inr (Or.inl rfl))))⟩
theorem has_k : b.has (inst ++ ".clk") = true :=
  (RU.has_iff_exists b _).mpr ⟨_, (h.nodes _).mpr (Or.inr (Or.inr (Or.inr (Or.inr rfl))))⟩

theorem attr_old {m : Name} (hm : a.has m = true) : b.attr? m = a.attr? m := by
  obtain ⟨at', ha⟩ := Limit.attr_of_has hm
  rw [ha]
  exact attr?_of_mem h.nodup (h.mem_old (attr?_mem ha))

theorem closed_a {e : Name × Name} (he : e ∈ a.edges) : a.has e.1 = true ∧ a.has e.2 = true := h.wf.closed e he

theorem step_wf : WF b := by
  refine ⟨h.nodup, h.enodup, ?_⟩
  intro e he
  rcases (h.edges e).mp he with ⟨he, _⟩ | ⟨h1, h2⟩ | rfl | rfl | rfl
  · exact ⟨h.has_old (h.closed_a he).1, h.has_old (h.closed_a he).2⟩
  · rw [h1]
    exact ⟨h.has_r, h.has_old (h.closed_a h2).2⟩
  · exact ⟨h.has_old h.hasn, h.has_d⟩
  · exact ⟨h.has_q, h.has_r⟩
  · exact ⟨h.has_old h.hasclk, h.has_k⟩

theorem step_pins (hp : PinsIn a) : PinsIn b := by
  intro q hq
  rw [h.bbs, List.mem_append, List.mem_singleton] at hq
  rcases hq with hq | rfl
  · exact ⟨h.has_old (hp q hq).1, h.has_old (hp q hq).2⟩
  · exact ⟨h.has_q, h.has_d⟩

theorem mem_fanin_old {m : Name} (hm : a.has m = true) (x : Name) :
    x ∈ b.fanin m ↔ ((x, m) ∈ a.edges ∧ x ≠ n) ∨ (x = r ∧ (n, m) ∈ a.edges) := by
  obtain ⟨m1, m2, m3, m4⟩ := h.old_ne hm
  rw [mem_fanin, h.edges]
  constructor
  · rintro (h1 | h1 | h1 | h1 | h1)
    · exact Or.inl h1
    · exact Or.inr h1
    · exact absurd (Prod.mk.inj h1).2 m2
    · exact absurd (Prod.mk.inj h1).2 m1
    · exact absurd (Prod.mk.inj h1).2 m4
  · rintro (h1 | h1)
    · exact Or.inl h1
    · exact Or.inr (Or.inl h1)

theorem fanin_old {m : Name} (hm : a.has m = true) : (b.fanin m).Perm ((a.fanin m).map (sub n r)) := by
  have hnd : ((a.fanin m).map (sub n r)).Nodup := by
    apply nodup_map_of_inj (fanin_nodup h.wf.edgesNodup m)
    intro x hx y hy e
    have hx' := (h.old_ne (h.closed_a (mem_fanin.mp hx)).1).1
    have hy' := (h.old_ne (h.closed_a (mem_fanin.mp hy)).1).1
    unfold sub at e
    by_cases h1 : x = n <;> by_cases h2 : y = n
    · rw [h1, h2]
    · rw [if_pos h1, if_neg h2] at e; exact absurd e.symm hy'
    · rw [if_neg h1, if_pos h2] at e; exact absurd e hx'
    · rw [if_neg h1, if_neg h2] at e; exact e
  rw [List.perm_ext_iff_of_nodup (fanin_nodup h.enodup m) hnd]
  intro x
  rw [h.mem_fanin_old hm, List.mem_map]
  constructor
  · rintro (⟨h1, h2⟩ | ⟨h1, h2⟩)
    · exact ⟨x, mem_fanin.mpr h1, by simp [sub, h2]⟩
    · exact ⟨n, mem_fanin.mpr h2, by simp [sub, h1]⟩
  · rintro ⟨y, hy, e⟩
    rw [mem_fanin] at hy
    by_cases h1 : y = n
    · subst h1
      right
      simp only [sub, if_true] at e
      exact ⟨e.symm, hy⟩
    · left
      simp only [sub, if_neg h1] at e
      subst e
      exact ⟨hy, h1⟩

theorem fanin_r : b.fanin r = [inst ++ ".q"] := by
  apply eq_singleton_of_nodup (fanin_nodup h.enodup r)
  intro x
  rw [mem_fanin, h.edges]
  constructor
  · rintro (⟨h1, _⟩ | ⟨_, h2⟩ | h1 | h1 | h1)
    · have := (h.closed_a h1).2; simp only [] at this; rw [h.fr] at this; cases this
    · have := (h.closed_a h2).2; simp only [] at this; rw [h.fr] at this; cases this
    · exact absurd (Prod.mk.inj h1).2 h.rd
    · exact (Prod.mk.inj h1).1
    · exact absurd (Prod.mk.inj h1).2 h.rk
  · rintro rfl
    exact Or.inr (Or.inr (Or.inr (Or.inl rfl)))

theorem fanin_d : b.fanin (inst ++ ".d") = [n] := by
  apply eq_singleton_of_nodup (fanin_nodup h.enodup _)
  intro x
  rw [mem_fanin, h.edges]
  constructor
  · rintro (⟨h1, _⟩ | ⟨_, h2⟩ | h1 | h1 | h1)
    · have := (h.closed_a h1).2; simp only [] at this; rw [h.fd] at this; cases this
    · have := (h.closed_a h2).2; simp only [] at this; rw [h.fd] at this; cases this
    · exact (Prod.mk.inj h1).1
    · exact absurd (Prod.mk.inj h1).2.symm h.rd
    · exact absurd (Prod.mk.inj h1).2 (pin_dk inst)
  · rintro rfl
    exact Or.inr (Or.inr (Or.inl rfl))

theorem fanin_k : b.fanin (inst ++ ".clk") = ["clk"] := by
  apply eq_singleton_of_nodup (fanin_nodup h.enodup _)
  intro x
  rw [mem_fanin, h.edges]
  constructor
  · rintro (⟨h1, _⟩ | ⟨_, h2⟩ | h1 | h1 | h1)
    · have := (h.closed_a h1).2; simp only [] at this; rw [h.fk] at this; cases this
    · have := (h.closed_a h2).2; simp only [] at this; rw [h.fk] at this; cases this
    · exact absurd (Prod.mk.inj h1).2.symm (pin_dk inst)
    · exact absurd (Prod.mk.inj h1).2.symm h.rk
    · exact (Prod.mk.inj h1).1
  · rintro rfl
    exact Or.inr (Or.inr (Or.inr (Or.inr rfl)))

theorem step_outs (x : Name) : x ∈ b.outputs ↔ x ∈ a.outputs := by
  rw [mem_outputs_iff', mem_outputs_iff']
  constructor
  · rintro ⟨at', hp, ho⟩
    rcases (h.nodes _).mp hp with hp | hp | hp | hp | hp
    · exact ⟨at', hp, ho⟩
    all_goals
      have := (Prod.mk.inj hp).2
      subst this
      cases ho
  · rintro ⟨at', hp, ho⟩
    exact ⟨at', h.mem_old hp, ho⟩

theorem step_ins (x : Name) : x ∈ b.inputs ↔ x ∈ a.inputs := by
  rw [mem_inputs_iff', mem_inputs_iff']
  constructor
  · rintro ⟨at', hp, ho⟩
    rcases (h.nodes _).mp hp with hp | hp | hp | hp | hp
    · exact ⟨at', hp, ho⟩
    all_goals
      have := (Prod.mk.inj hp).2
      subst this
      exact absurd ho (by decide)
  · rintro ⟨at', hp, ho⟩
    exact ⟨at', h.mem_old hp, ho⟩

theorem has_of_mem_nodes {p : Name × Attr} (hp : p ∈ a.nodes) : a.has p.1 = true :=
  (RU.has_iff_exists a p.1).mpr ⟨p.2, hp⟩

theorem step_down (v : Val) (hv : Consistent b v) (hw : Wired b v) : Consistent a v := by
  have h1 : v r = v (inst ++ ".q") := by
    apply hv (r, bufA) ((h.nodes _).mpr (Or.inr (Or.inl rfl))) "buf" rfl
    rw [h.fanin_r]
    simp [gateFn]
  have h2 : v (inst ++ ".q") = v (inst ++ ".d") :=
    hw (inst, ffBox) (by rw [h.bbs]; simp)
  have h3 : v (inst ++ ".d") = v n := by
    apply hv (inst ++ ".d", inA) ((h.nodes _).mpr (Or.inr (Or.inr (Or.inl rfl)))) "bb_input" rfl
    rw [h.fanin_d]
    simp [gateFn]
  have hrn : v r = v n := h1.trans (h2.trans h3)
  intro p hp t ht bb hb
  apply hv p (h.mem_old hp) t ht bb
  rw [Limit.gateFn_perm_any t ((h.fanin_old (h.has_of_mem_nodes hp)).map v), List.map_map]
  have : (a.fanin p.1).map (v ∘ sub n r) = (a.fanin p.1).map v := by
    apply List.map_congr_left
    intro x _
    simp only [Function.comp, sub]
    by_cases hx : x = n
    · rw [if_pos hx, hx, hrn]
    · rw [if_neg hx]
  rw [this]
  exact hb

/-- the extension of a valuation to the four new nodes -/
def ext (v : Val) (n r inst : Name) : Val := fun x =>
  if x = r then v n else if x = inst ++ ".d" then v n else if x = inst ++ ".q" then v n
  else if x = inst ++ ".clk" then v "clk" else v x

theorem ext_old (v : Val) {m : Name} (hm : a.has m = true) : ext v n r inst m = v m := by
  obtain ⟨m1, m2, m3, m4⟩ := h.old_ne hm
  simp [ext, m1, m2, m3, m4]
theorem ext_r (v : Val) : ext v n r inst r = v n := by simp [ext]
theorem ext_d (v : Val) : ext v n r inst (inst ++ ".d") = v n := by
  simp [ext, Ne.symm h.rd]
theorem ext_q (v : Val) : ext v n r inst (inst ++ ".q") = v n := by
  simp [ext, Ne.symm h.rq, Ne.symm (pin_dq inst)]
theorem ext_k (v : Val) : ext v n r inst (inst ++ ".clk") = v "clk" := by
  simp [ext, Ne.symm h.rk, Ne.symm (pin_dk inst), Ne.symm (pin_qk inst)]

theorem step_up (hp : PinsIn a) (v : Val) (hv : Consistent a v) (hw : Wired a v) :
    ∃ v', Consistent b v' ∧ Wired b v' ∧ ∀ m, a.has m = true → v' m = v m := by
  refine ⟨ext v n r inst, ?_, ?_, fun m hm => h.ext_old v hm⟩
  · intro p hpb t ht bb hb
    rcases (h.nodes p).mp hpb with hpa | rfl | rfl | rfl | rfl
    · have hm := h.has_of_mem_nodes hpa
      rw [Limit.gateFn_perm_any t ((h.fanin_old hm).map _), List.map_map] at hb
      have : (a.fanin p.1).map (ext v n r inst ∘ sub n r) = (a.fanin p.1).map v := by
        apply List.map_congr_left
        intro x hx
        have hxa := (h.closed_a (mem_fanin.mp hx)).1
        simp only [Function.comp, sub]
        by_cases hxn : x = n
        · rw [if_pos hxn, hxn, h.ext_r]
        · rw [if_neg hxn, h.ext_old v hxa]
      rw [this] at hb
      rw [h.ext_old v hm]
      exact hv p hpa t ht bb hb
    · simp only [bufA] at ht
      injection ht with ht
      subst ht
      rw [h.fanin_r] at hb
      simp only [List.map_cons, List.map_nil, h.ext_q, gateFn] at hb
      simp at hb
      rw [h.ext_r, hb]
    · simp only [inA] at ht
      injection ht with ht
      subst ht
      rw [h.fanin_d] at hb
      simp only [List.map_cons, List.map_nil, h.ext_old v h.hasn, gateFn] at hb
      simp at hb
      rw [h.ext_d, hb]
    · simp only [outA] at ht
      injection ht with ht
      subst ht
      simp [gateFn] at hb
    · simp only [inA] at ht
      injection ht with ht
      subst ht
      rw [h.fanin_k] at hb
      simp only [List.map_cons, List.map_nil, h.ext_old v h.hasclk, gateFn] at hb
      simp at hb
      rw [h.ext_k, hb]
  · intro q hq
    rw [h.bbs, List.mem_append, List.mem_singleton] at hq
    rcases hq with hq | rfl
    · rw [h.ext_old v (hp q hq).1, h.ext_old v (hp q hq).2]
      exact hw q hq
    · rw [h.ext_q, h.ext_d]

theorem step_ext (hp : PinsIn a) : Ext a b where
  attr m hm := h.attr_old hm
  outs := h.step_outs
  ins := h.step_ins
  bbsSub q hq := by rw [h.bbs]; exact List.mem_append_left _ hq
  bbsNew q hq := by
    rw [h.bbs, List.mem_append, List.mem_singleton] at hq
    rcases hq with hq | rfl
    · exact Or.inl hq
    · exact Or.inr rfl
  down := h.step_down
  up := h.step_up hp

theorem step_st (hs : St a) : St b := ⟨h.step_wf, h.step_pins hs.pins⟩

end Splice
end InsReg
end CG
