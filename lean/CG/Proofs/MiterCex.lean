/- C04: counterexamples to the original statement of `miter_ok` (every hypothesis of the original statement holds,
   the construction raises ValueError).  They justify the added hypothesis `hept`.
   (Before the K51 repair an EMPTY startpoint/endpoint list selected the defaults, and two further hypotheses
   `sp ≠ []`, `ep ≠ []` were needed; with `if startpoints is None` an empty list is an explicit choice and the former
   counterexamples 1 and 2' now build — recorded below as positive facts.) -/
import CG.Props.C04
namespace CG.C04Cex
open CG.C04

theorem lit_ne_pref (s p n : String) (h : ∀ l, s.toList ≠ p.toList ++ l) : s ≠ p ++ n := by
  intro e
  exact h n.toList (by rw [e, String.toList_append])

/-! ### 1. an explicitly empty startpoint list, the shared input is called `sat`: no longer a counterexample (nothing is
    tied, so no node `sat` of type input is created) -/

def cx1 : Circuit :=
  { nodes := [("sat", { ty := some "input", out := some false }), ("o", { ty := some "buf", out := some true })],
    edges := [("sat", "o")] }

theorem cx1_good : Good cx1 :=
  ⟨Limit.lintClean_of_checks cx1 ⟨by decide, by decide, by decide⟩ (by decide) (by decide) (by decide), rfl⟩

theorem cx1_shared : Shared cx1 cx1 [] ["o"] := ⟨by decide, by decide, by decide, by decide⟩

theorem cx1_names : ∀ p ∈ cx1.nodes ++ cx1.nodes, p.1 ≠ "" ∧ Circuit.isDigit0 p.1 = false := by decide

theorem cx1_clash : ∀ s ∈ ([] : List Name),
    s ≠ "sat" ∧ (∀ n, s ≠ "c0_" ++ n) ∧ (∀ n, s ≠ "c1_" ++ n) ∧ (∀ n, s ≠ "dif_" ++ n) := by
  intro s hs; cases hs

/-- with the repaired library the empty startpoint list is honoured and the miter is built -/
theorem cx1_builds : (Tx.miter cx1 (some cx1) (some []) (some ["o"]) id).toOption.isSome = true := by decide

/-- the default startpoints (`None`) still collide with `sat` — outside the scope of `miter_ok` (explicit lists) -/
theorem cx1_default_fails : (Tx.miter cx1 (some cx1) none (some ["o"]) id).toOption = none := by decide

/-! ### 2. a compared endpoint is a `bb_input` pin node (`hept`); with the default endpoints (`None`) the same node is
    picked up by `c0.endpoints() & c1.endpoints()`; an explicitly empty endpoint list builds -/

def cx2 : Circuit :=
  { nodes := [("a", { ty := some "input", out := some false }), ("p", { ty := some "bb_input", out := some false })],
    edges := [("a", "p")] }

theorem cx2_good : Good cx2 :=
  ⟨Limit.lintClean_of_checks cx2 ⟨by decide, by decide, by decide⟩ (by decide) (by decide) (by decide), rfl⟩

theorem cx2_shared : Shared cx2 cx2 ["a"] ["p"] := ⟨by decide, by decide, by decide, by decide⟩
theorem cx2_shared' : Shared cx2 cx2 ["a"] [] := ⟨by decide, by decide, by decide, by decide⟩

theorem cx2_names : ∀ p ∈ cx2.nodes ++ cx2.nodes, p.1 ≠ "" ∧ Circuit.isDigit0 p.1 = false := by decide

theorem cx2_clash : ∀ s ∈ ["a"],
    s ≠ "sat" ∧ (∀ n, s ≠ "c0_" ++ n) ∧ (∀ n, s ≠ "c1_" ++ n) ∧ (∀ n, s ≠ "dif_" ++ n) := by
  intro s hs
  simp only [List.mem_singleton] at hs
  subst hs
  refine ⟨by decide, fun n => ?_, fun n => ?_, fun n => ?_⟩ <;>
  · apply lit_ne_pref
    intro l
    simp

/-- explicit startpoints and endpoints, all original hypotheses hold, but the endpoint is a `bb_input` node -/
theorem cx2_fails : (Tx.miter cx2 (some cx2) (some ["a"]) (some ["p"]) id).toOption = none := by decide

/-- explicit startpoints, default endpoints: the default endpoints contain the `bb_input` node -/
theorem cx2_fails' : (Tx.miter cx2 (some cx2) (some ["a"]) none id).toOption = none := by decide

/-- explicit startpoints, explicitly no endpoints: built, `sat` is the constant 0 -/
theorem cx2_builds' : (Tx.miter cx2 (some cx2) (some ["a"]) (some []) id).toOption.map (fun m => m.ty? "sat") =
    some (some "0") := by decide

/-- the original statement of `miter_ok` (without `hept`) is false -/
theorem original_miter_ok_false :
    ¬ (∀ (c0 c1 : Circuit) (sp ep : List Name) (ord : Ord), OrdOK ord → Good c0 → Good c1 → c1.nodes ≠ [] →
        Shared c0 c1 sp ep →
        (∀ p ∈ c0.nodes ++ c1.nodes, p.1 ≠ "" ∧ Circuit.isDigit0 p.1 = false) →
        (∀ s ∈ sp, s ≠ "sat" ∧ (∀ n, s ≠ "c0_" ++ n) ∧ (∀ n, s ≠ "c1_" ++ n) ∧ (∀ n, s ≠ "dif_" ++ n)) →
        ∃ m, Tx.miter c0 (some c1) (some sp) (some ep) ord = .ok m) := by
  intro h
  obtain ⟨m, hm⟩ := h cx2 cx2 ["a"] ["p"] id (fun l => List.Perm.refl l) cx2_good cx2_good (by decide) cx2_shared
    cx2_names cx2_clash
  have := cx2_fails
  rw [hm] at this
  cases this

/-! ### 3. a compared endpoint is a `bb_output` node (`hept`) -/

def cx3 : Circuit :=
  { nodes := [("a", { ty := some "bb_output", out := some false }), ("i", { ty := some "input", out := some false })],
    edges := [] }

theorem cx3_good : Good cx3 :=
  ⟨Limit.lintClean_of_checks cx3 ⟨by decide, by decide, by decide⟩ (by decide) (by decide) (by decide), rfl⟩

theorem cx3_shared : Shared cx3 cx3 ["i"] ["a"] := ⟨by decide, by decide, by decide, by decide⟩

theorem cx3_fails : (Tx.miter cx3 (some cx3) (some ["i"]) (some ["a"]) id).toOption = none := by decide

end CG.C04Cex
