/- helper lemmas for C11: the `KView` of the result of `sensitivity_transform` -/
import CG.Proofs.SensView
set_option linter.unusedSimpArgs false
set_option linter.unusedVariables false
namespace CG
namespace Sens
open Circuit Miter

section view
variable {cone pcC : Circuit} {sp : List Name} {n : Name} {k : Nat} {sen : Circuit}

theorem sen_tys (H : SenHyp cone pcC sp n k) (P : Phases cone pcC sp n k sen) :
    ∀ x ∈ KL cone pcC sp k, sen.ty? x.name = some (kty cone pcC x) := by
  intro x hx
  rcases (mem_KL cone pcC sp k x).1 hx with ⟨y, hy, rfl⟩ | ⟨s, hs, rfl⟩ | ⟨y, hy, rfl⟩ |
    ⟨q, hq, ⟨y, hy, rfl⟩ | rfl⟩ | ⟨o, ho, rfl⟩
  · obtain ⟨a, ha⟩ := mem_names_exists hy
    obtain ⟨t, ht, _⟩ := H.lcone.typed _ ha
    have := P.tyOrig _ ha
    simp only [] at this
    show sen.ty? (pref "orig" y) = some (styOf cone y)
    rw [this, stripA_sty ht, styOf_of_mem H.lcone.nodup ha ht]
  · exact P.tyInp s hs
  · obtain ⟨a, ha⟩ := mem_names_exists hy
    obtain ⟨t, ht, _⟩ := H.lpc.typed _ ha
    have := P.tyPc _ ha
    simp only [] at this
    show sen.ty? (pref "pc" y) = some (styOf pcC y)
    rw [this, stripA_sty ht, styOf_of_mem H.lpc.nodup ha ht]
  · obtain ⟨a, ha⟩ := mem_names_exists hy
    obtain ⟨t, ht, _⟩ := H.lcone.typed _ ha
    have := (P.tyCopy q hq).1 _ ha
    simp only [] at this
    show sen.ty? (pref ("inv_" ++ q.2) y) = some (if y = q.2 then "not" else styOf cone y)
    rw [this]
    by_cases hy0 : y = q.2
    · rw [if_pos ⟨hy0, mem_idxL_snd hq⟩, if_pos hy0]
    · rw [if_neg (fun hc => hy0 hc.1), if_neg hy0, stripA_sty ht, styOf_of_mem H.lcone.nodup ha ht]
  · exact (P.tyCopy q hq).2
  · exact P.tyOut o ho

theorem has_names {c : Circuit} {y : Name} (h : c.has y = true) : y ∈ c.nodeNames := (has_iff_mem c y).1 h

theorem sen_fiKL (H : SenHyp cone pcC sp n k) :
    ∀ x ∈ KL cone pcC sp k, ∀ x' ∈ kfi cone pcC sp n x, x' ∈ KL cone pcC sp k := by
  intro x hx x' hx'
  have wc := H.lcone.toWF
  have wp := H.lpc.toWF
  rw [mem_KL]
  rcases (mem_KL cone pcC sp k x).1 hx with ⟨y, hy, rfl⟩ | ⟨s, hs, rfl⟩ | ⟨y, hy, rfl⟩ |
    ⟨q, hq, ⟨y, hy, rfl⟩ | rfl⟩ | ⟨o, ho, rfl⟩
  · simp only [kfi, List.mem_append, List.mem_map] at hx'
    rcases hx' with ⟨a, ha, rfl⟩ | hx'
    · exact Or.inl ⟨a, has_names (wc.closed _ (mem_fanin.1 ha)).1, rfl⟩
    · by_cases hs : y ∈ sp
      · rw [if_pos hs, List.mem_singleton] at hx'
        exact Or.inr (Or.inl ⟨y, hs, hx'⟩)
      · rw [if_neg hs] at hx'; cases hx'
  · cases hx'
  · simp only [kfi, List.mem_append, List.mem_map, List.mem_filter] at hx'
    rcases hx' with ⟨a, ha, rfl⟩ | ⟨q, ⟨hq, _⟩, rfl⟩
    · exact Or.inr (Or.inr (Or.inl ⟨a, has_names (wp.closed _ (mem_fanin.1 ha)).1, rfl⟩))
    · exact Or.inr (Or.inr (Or.inr (Or.inl ⟨q, hq, Or.inr rfl⟩)))
  · simp only [kfi, List.mem_append, List.mem_map] at hx'
    rcases hx' with ⟨a, ha, rfl⟩ | hx'
    · exact Or.inr (Or.inr (Or.inr (Or.inl ⟨q, hq, Or.inl ⟨a, has_names (wc.closed _ (mem_fanin.1 ha)).1, rfl⟩⟩)))
    · by_cases hs : y ∈ sp
      · rw [if_pos hs, List.mem_singleton] at hx'
        exact Or.inr (Or.inl ⟨y, hs, hx'⟩)
      · rw [if_neg hs] at hx'; cases hx'
  · simp only [kfi, List.mem_cons, List.not_mem_nil, or_false] at hx'
    rcases hx' with rfl | rfl
    · exact Or.inl ⟨n, has_names H.hn, rfl⟩
    · exact Or.inr (Or.inr (Or.inr (Or.inl ⟨q, hq, Or.inl ⟨n, has_names H.hn, rfl⟩⟩)))
  · simp only [kfi, List.mem_singleton] at hx'
    subst hx'
    exact Or.inr (Or.inr (Or.inl ⟨_, has_names (H.pcout o ho), rfl⟩))

theorem sen_fiNodup (H : SenHyp cone pcC sp n k) : ∀ x ∈ KL cone pcC sp k, (kfi cone pcC sp n x).Nodup := by
  intro x _
  have wc := H.lcone.toWF
  have wp := H.lpc.toWF
  cases x with
  | inp s => exact List.nodup_nil
  | orig y =>
    simp only [kfi]
    rw [List.nodup_append]
    refine ⟨nodup_map_of_inj (fanin_nodup wc.edgesNodup y) (fun a _ b _ e => by injection e), ?_, ?_⟩
    · split <;> simp
    · intro a ha b hb e
      obtain ⟨a', _, rfl⟩ := List.mem_map.1 ha
      subst e
      split at hb
      · simp at hb
      · cases hb
  | inv s0 y =>
    simp only [kfi]
    rw [List.nodup_append]
    refine ⟨nodup_map_of_inj (fanin_nodup wc.edgesNodup y) (fun a _ b _ e => by injection e), ?_, ?_⟩
    · split <;> simp
    · intro a ha b hb e
      obtain ⟨a', _, rfl⟩ := List.mem_map.1 ha
      subst e
      split at hb
      · simp at hb
      · cases hb
  | dif s0 =>
    simp only [kfi, List.nodup_cons, List.mem_singleton, List.not_mem_nil, not_false_eq_true, List.nodup_nil, and_true]
    intro e; cases e
  | pc y =>
    simp only [kfi]
    rw [List.nodup_append]
    refine ⟨nodup_map_of_inj (fanin_nodup wp.edgesNodup y) (fun a _ b _ e => by injection e), ?_, ?_⟩
    · apply nodup_map_of_inj (nodup_filter _ (idxL_nodup H.spnd))
      intro a ha b hb e
      injection e with e
      exact idxL_snd_inj H.spnd (List.mem_filter.1 ha).1 (List.mem_filter.1 hb).1 e
    · intro a ha b hb e
      obtain ⟨a', _, rfl⟩ := List.mem_map.1 ha
      obtain ⟨b', _, rfl⟩ := List.mem_map.1 hb
      cases e
  | out o => simp [kfi]

theorem sen_edges_fwd (H : SenHyp cone pcC sp n k) (P : Phases cone pcC sp n k sen) (e : Name × Name)
    (he : e ∈ sen.edges) :
    ∃ x ∈ KL cone pcC sp k, ∃ x' ∈ kfi cone pcC sp n x, e = (x'.name, x.name) := by
  have wc := H.lcone.toWF
  have wp := H.lpc.toWF
  rcases (P.edges e).1 he with ⟨e0, he0, rfl⟩ | ⟨s, hs, rfl⟩ | ⟨e0, he0, rfl⟩ | ⟨q, hq, hce⟩ | ⟨o, ho, rfl⟩
  · refine ⟨.orig e0.2, (mem_KL _ _ _ _ _).2 (Or.inl ⟨_, has_names (wc.closed e0 he0).2, rfl⟩), .orig e0.1, ?_, rfl⟩
    simp only [kfi, List.mem_append]
    exact Or.inl (List.mem_map.2 ⟨e0.1, mem_fanin.2 he0, rfl⟩)
  · refine ⟨.orig s, (mem_KL _ _ _ _ _).2 (Or.inl ⟨_, has_names (mem_inputs_has (H.spin s hs)), rfl⟩), .inp s, ?_,
      rfl⟩
    simp only [kfi, List.mem_append]
    right
    rw [if_pos hs]; simp
  · refine ⟨.pc e0.2, (mem_KL _ _ _ _ _).2 (Or.inr (Or.inr (Or.inl ⟨_, has_names (wp.closed e0 he0).2, rfl⟩))),
      .pc e0.1, ?_, rfl⟩
    simp only [kfi, List.mem_append]
    exact Or.inl (List.mem_map.2 ⟨e0.1, mem_fanin.2 he0, rfl⟩)
  · rcases hce with ⟨e0, he0, rfl⟩ | ⟨s1, hs1, rfl⟩ | rfl | rfl | rfl
    · refine ⟨.inv q.2 e0.2, (mem_KL _ _ _ _ _).2 (Or.inr (Or.inr (Or.inr (Or.inl ⟨q, hq,
        Or.inl ⟨_, has_names (wc.closed e0 he0).2, rfl⟩⟩)))), .inv q.2 e0.1, ?_, rfl⟩
      simp only [kfi, List.mem_append]
      exact Or.inl (List.mem_map.2 ⟨e0.1, mem_fanin.2 he0, rfl⟩)
    · refine ⟨.inv q.2 s1, (mem_KL _ _ _ _ _).2 (Or.inr (Or.inr (Or.inr (Or.inl ⟨q, hq,
        Or.inl ⟨_, has_names (mem_inputs_has (H.spin s1 hs1)), rfl⟩⟩)))), .inp s1, ?_, rfl⟩
      simp only [kfi, List.mem_append]
      right
      rw [if_pos hs1]; simp
    · refine ⟨.pc ("in_" ++ toString q.1), (mem_KL _ _ _ _ _).2 (Or.inr (Or.inr (Or.inl ⟨_,
        has_names (mem_inputs_has (H.pcin q.1 (mem_idxL_lt hq))), rfl⟩))), .dif q.2, ?_, rfl⟩
      simp only [kfi, List.mem_append]
      right
      exact List.mem_map.2 ⟨q, List.mem_filter.2 ⟨hq, by simp⟩, rfl⟩
    · refine ⟨.dif q.2, (mem_KL _ _ _ _ _).2 (Or.inr (Or.inr (Or.inr (Or.inl ⟨q, hq, Or.inr rfl⟩)))),
        .orig n, by simp [kfi], rfl⟩
    · refine ⟨.dif q.2, (mem_KL _ _ _ _ _).2 (Or.inr (Or.inr (Or.inr (Or.inl ⟨q, hq, Or.inr rfl⟩)))),
        .inv q.2 n, by simp [kfi], rfl⟩
  · exact ⟨.out o, (mem_KL _ _ _ _ _).2 (Or.inr (Or.inr (Or.inr (Or.inr ⟨o, ho, rfl⟩)))),
      .pc ("out_" ++ toString o), by simp [kfi], rfl⟩

theorem sen_edges_bwd (H : SenHyp cone pcC sp n k) (P : Phases cone pcC sp n k sen) (x : K)
    (hx : x ∈ KL cone pcC sp k) (x' : K) (hx' : x' ∈ kfi cone pcC sp n x) : (x'.name, x.name) ∈ sen.edges := by
  rw [P.edges]
  rcases (mem_KL cone pcC sp k x).1 hx with ⟨y, hy, rfl⟩ | ⟨s, hs, rfl⟩ | ⟨y, hy, rfl⟩ |
    ⟨q, hq, ⟨y, hy, rfl⟩ | rfl⟩ | ⟨o, ho, rfl⟩
  · simp only [kfi, List.mem_append, List.mem_map] at hx'
    rcases hx' with ⟨a, ha, rfl⟩ | hx'
    · exact Or.inl ⟨(a, y), mem_fanin.1 ha, rfl⟩
    · by_cases hs : y ∈ sp
      · rw [if_pos hs, List.mem_singleton] at hx'
        subst hx'
        exact Or.inr (Or.inl ⟨y, hs, rfl⟩)
      · rw [if_neg hs] at hx'; cases hx'
  · cases hx'
  · simp only [kfi, List.mem_append, List.mem_map, List.mem_filter] at hx'
    rcases hx' with ⟨a, ha, rfl⟩ | ⟨q, ⟨hq, hy0⟩, rfl⟩
    · exact Or.inr (Or.inr (Or.inl ⟨(a, y), mem_fanin.1 ha, rfl⟩))
    · simp only [beq_iff_eq] at hy0
      subst hy0
      exact Or.inr (Or.inr (Or.inr (Or.inl ⟨q, hq, Or.inr (Or.inr (Or.inl rfl))⟩)))
  · simp only [kfi, List.mem_append, List.mem_map] at hx'
    rcases hx' with ⟨a, ha, rfl⟩ | hx'
    · exact Or.inr (Or.inr (Or.inr (Or.inl ⟨q, hq, Or.inl ⟨(a, y), mem_fanin.1 ha, rfl⟩⟩)))
    · by_cases hs : y ∈ sp
      · rw [if_pos hs, List.mem_singleton] at hx'
        subst hx'
        exact Or.inr (Or.inr (Or.inr (Or.inl ⟨q, hq, Or.inr (Or.inl ⟨y, hs, rfl⟩)⟩)))
      · rw [if_neg hs] at hx'; cases hx'
  · simp only [kfi, List.mem_cons, List.not_mem_nil, or_false] at hx'
    rcases hx' with rfl | rfl
    · exact Or.inr (Or.inr (Or.inr (Or.inl ⟨q, hq, Or.inr (Or.inr (Or.inr (Or.inl rfl)))⟩)))
    · exact Or.inr (Or.inr (Or.inr (Or.inl ⟨q, hq, Or.inr (Or.inr (Or.inr (Or.inr rfl)))⟩)))
  · simp only [kfi, List.mem_singleton] at hx'
    subst hx'
    exact Or.inr (Or.inr (Or.inr (Or.inr ⟨o, ho, rfl⟩)))

/-- the result of `sensitivity_transform`, kind by kind -/
theorem senView (H : SenHyp cone pcC sp n k) (P : Phases cone pcC sp n k sen) :
    KView sen (KL cone pcC sp k) K.name (kty cone pcC) (kfi cone pcC sp n) := by
  refine ⟨P.wf, by rw [P.names, KL_names], sen_tys H P, ?_, sen_fiKL H, sen_fiNodup H⟩
  intro e
  constructor
  · exact sen_edges_fwd H P e
  · rintro ⟨x, hx, x', hx', rfl⟩
    exact sen_edges_bwd H P x hx x' hx'

end view

end Sens
end CG
