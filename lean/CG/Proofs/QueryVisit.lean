/- C12 helpers: the recursive depth visit (`visit_node`), generic over the search direction -/
import CG.Proofs.QueryClosure
namespace CG
namespace Q
open Query

/-! ### the `visited` dictionary -/

theorem lookup_cons_eq {β : Type} (k m : Name) (x : β) (l : List (Name × β)) :
    ((k, x) :: l).lookup m = if m = k then some x else l.lookup m := by
  by_cases h : m = k
  · subst h; simp [List.lookup]
  · have : (m == k) = false := by simpa using h
    simp [List.lookup, this, h]

theorem lookup_replace_self (n : Name) (d : Nat) : ∀ vis : Visited, (vis.lookup n).isSome = true →
    (vis.map (fun p => if p.1 == n then (n, d) else p)).lookup n = some d
  | [], h => by simp at h
  | (k, x) :: vis, h => by
    rw [lookup_cons_eq] at h
    rw [List.map_cons]
    by_cases hk : k = n
    · have e : (if ((k, x) : Name × Nat).1 == n then (n, d) else (k, x)) = (n, d) := by simp [hk]
      rw [e, lookup_cons_eq, if_pos rfl]
    · have e : (if ((k, x) : Name × Nat).1 == n then (n, d) else (k, x)) = (k, x) := by simp [hk]
      have hnk : ¬ n = k := fun h => hk h.symm
      rw [if_neg hnk] at h
      rw [e, lookup_cons_eq, if_neg hnk]
      exact lookup_replace_self n d vis h

theorem lookup_replace_ne (n m : Name) (d : Nat) (hm : m ≠ n) : ∀ vis : Visited,
    (vis.map (fun p => if p.1 == n then (n, d) else p)).lookup m = vis.lookup m
  | [] => rfl
  | (k, x) :: vis => by
    rw [List.map_cons, lookup_cons_eq]
    by_cases hk : k = n
    · have e : (if ((k, x) : Name × Nat).1 == n then (n, d) else (k, x)) = (n, d) := by simp [hk]
      rw [e, lookup_cons_eq, if_neg hm, if_neg (hk ▸ hm)]
      exact lookup_replace_ne n m d hm vis
    · have e : (if ((k, x) : Name × Nat).1 == n then (n, d) else (k, x)) = (k, x) := by simp [hk]
      rw [e, lookup_cons_eq, lookup_replace_ne n m d hm vis]

theorem lookup_append_single (n m : Name) (d : Nat) : ∀ vis : Visited,
    (vis ++ [(n, d)]).lookup m = match vis.lookup m with
      | some v => some v
      | none => if m = n then some d else none
  | [] => by
    by_cases h : m = n
    · subst h; simp [List.lookup]
    · have : (m == n) = false := by simpa using h
      simp [List.lookup, this, h]
  | (k, x) :: vis => by
    simp only [List.cons_append, List.lookup]
    cases m == k
    · exact lookup_append_single n m d vis
    · rfl

theorem vget_vset (vis : Visited) (n m : Name) (d : Nat) :
    vget (vset vis n d) m = if m = n then some d else vget vis m := by
  unfold vget vset
  by_cases hs : (vis.lookup n).isSome = true
  · rw [if_pos hs]
    by_cases hm : m = n
    · subst hm
      rw [if_pos rfl]
      exact lookup_replace_self m d vis hs
    · rw [if_neg hm]
      exact lookup_replace_ne n m d hm vis
  · rw [if_neg hs, lookup_append_single]
    by_cases hm : m = n
    · subst hm
      have : vis.lookup m = none := by
        cases h : vis.lookup m with
        | none => rfl
        | some v => simp [h] at hs
      simp [this]
    · rw [if_neg hm]
      cases vis.lookup m <;> simp [hm]

theorem vget_vset_self (vis : Visited) (n : Name) (d : Nat) : vget (vset vis n d) n = some d := by
  rw [vget_vset, if_pos rfl]

theorem vget_vset_ne (vis : Visited) (n m : Name) (d : Nat) (h : m ≠ n) : vget (vset vis n d) m = vget vis m := by
  rw [vget_vset, if_neg h]

theorem mem_vset (vis : Visited) (n : Name) (d : Nat) (p : Name × Nat) (h : p ∈ vset vis n d) :
    p ∈ vis ∨ p = (n, d) := by
  unfold vset at h
  by_cases hs : (vis.lookup n).isSome = true
  · rw [if_pos hs] at h
    obtain ⟨q, hq, rfl⟩ := List.mem_map.mp h
    by_cases hqn : (q.1 == n) = true
    · right; simp [hqn]
    · left
      have : (q.1 == n) = false := by simpa using hqn
      simpa [this] using hq
  · rw [if_neg hs] at h
    rcases List.mem_append.mp h with h | h
    · exact Or.inl h
    · right; simpa using h

theorem vget_init (ns : List Name) (x : Name) : ∀ v0 : Visited,
    vget (ns.foldl (fun v n => vset v n 0) v0) x = if x ∈ ns then some 0 else vget v0 x := by
  induction ns with
  | nil => intro v0; simp
  | cons a ns ih =>
    intro v0
    rw [List.foldl_cons, ih, vget_vset]
    by_cases hx : x ∈ ns
    · simp [hx]
    · by_cases hxa : x = a
      · simp [hxa]
      · simp [hx, hxa]

theorem mem_init (ns : List Name) : ∀ (v0 : Visited) (p : Name × Nat),
    p ∈ ns.foldl (fun v n => vset v n 0) v0 → p ∈ v0 ∨ (p.1 ∈ ns ∧ p.2 = 0) := by
  induction ns with
  | nil => intro v0 p h; exact Or.inl h
  | cons a ns ih =>
    intro v0 p h
    rw [List.foldl_cons] at h
    rcases ih _ p h with h | h
    · rcases mem_vset v0 a 0 p h with h | h
      · exact Or.inl h
      · right; rw [h]; simp
    · exact Or.inr ⟨List.mem_cons_of_mem _ h.1, h.2⟩

/-! ### unfolding one call -/

/-- the merged depth written by a call -/
def newVal (vis : Visited) (n : Name) (depth : Nat) : Nat :=
  match vget vis n with
  | some old => max old depth
  | none => depth

/-- the gate: all reachable predecessors are visited -/
def gate (pred : Name → List Name) (R : List Name) (vis : Visited) (n : Name) : Bool :=
  ((pred n).filter R.contains).all (fun fi => (vget vis fi).isSome)

theorem visit_succ (pred succ : Name → List Name) (ord : Ord) (R : List Name) (fuel : Nat) (n : Name)
    (vis : Visited) (depth : Nat) :
    visit pred succ ord true R (fuel + 1) n vis depth =
      if gate pred R (vset vis n (newVal vis n depth)) n = true then
        (ord (dedup (succ n))).foldlM
          (fun v fo => visit pred succ ord true R fuel fo v (newVal vis n depth + 1)) (vset vis n (newVal vis n depth))
      else some (vset vis n (newVal vis n depth)) := by
  unfold newVal gate
  cases h : vget vis n <;> simp [visit, h]

theorem newVal_ge (vis : Visited) (n : Name) (depth : Nat) : depth ≤ newVal vis n depth := by
  unfold newVal
  cases vget vis n with
  | none => exact Nat.le_refl _
  | some old => exact Nat.le_max_right _ _

theorem newVal_ge_old (vis : Visited) (n : Name) (depth old : Nat) (h : vget vis n = some old) :
    old ≤ newVal vis n depth := by
  unfold newVal
  rw [h]
  exact Nat.le_max_left _ _

theorem newVal_cases (vis : Visited) (n : Name) (depth : Nat) :
    newVal vis n depth = depth ∨ vget vis n = some (newVal vis n depth) := by
  unfold newVal
  cases h : vget vis n with
  | none => exact Or.inl rfl
  | some old =>
    simp only []
    rcases Nat.le_total old depth with h1 | h1
    · left; exact Nat.max_eq_right h1
    · right; rw [Nat.max_eq_left h1]

/-- induction principle for a monadic fold in `Option` -/
theorem foldlM_some_induct {α β : Type} (f : β → α → Option β) (Inv : List α → β → Prop)
    (step : ∀ a rest b b1, f b a = some b1 → Inv (a :: rest) b → Inv rest b1) :
    ∀ (l : List α) (b b' : β), l.foldlM f b = some b' → Inv l b → Inv [] b'
  | [], b, b', h, hi => by
    simp only [List.foldlM_nil, Option.pure_def, Option.some.injEq] at h
    exact h ▸ hi
  | a :: l, b, b', h, hi => by
    rw [List.foldlM_cons] at h
    cases hf : f b a with
    | none => simp [hf] at h
    | some b1 =>
      simp only [hf, Option.bind_eq_bind, Option.bind_some] at h
      exact foldlM_some_induct f Inv step l b1 b' h (step a l b b1 hf hi)

/-! ### soundness: every stored value satisfies a predicate closed under taking a step -/

section Sound
variable (pred succ : Name → List Name) (ord : Ord) (hord : OrdOK ord) (R : List Name)
variable (P : Name → Nat → Prop) (hP : ∀ n d m, P n d → m ∈ succ n → P m (d + 1))
include hord hP

theorem visit_sound : ∀ (fuel : Nat) (n : Name) (vis : Visited) (depth : Nat) (vis' : Visited),
    (∀ p ∈ vis, P p.1 p.2) → P n depth → visit pred succ ord true R fuel n vis depth = some vis' →
    ∀ p ∈ vis', P p.1 p.2 := by
  intro fuel
  induction fuel with
  | zero => intro n vis depth vis' _ _ h; simp [visit] at h
  | succ fuel ih =>
    intro n vis depth vis' hvis hn h
    rw [visit_succ] at h
    have hd : P n (newVal vis n depth) := by
      rcases newVal_cases vis n depth with h1 | h1
      · rw [h1]; exact hn
      · exact hvis _ (mem_of_lookup vis n _ h1)
    have hvis1 : ∀ p ∈ vset vis n (newVal vis n depth), P p.1 p.2 := by
      intro p hp
      rcases mem_vset _ _ _ _ hp with hp | hp
      · exact hvis p hp
      · rw [hp]; exact hd
    split at h
    · refine foldlM_some_induct _ (fun rem v => (∀ fo ∈ rem, fo ∈ succ n) ∧ ∀ p ∈ v, P p.1 p.2) ?_ _ _ _ h
        ⟨?_, hvis1⟩ |>.2
      · intro a rest b b1 hf hinv
        refine ⟨fun fo hfo => hinv.1 fo (List.mem_cons_of_mem _ hfo), ?_⟩
        exact ih a b _ b1 hinv.2 (hP n _ a hd (hinv.1 a (by simp))) hf
      · intro fo hfo
        exact (mem_dedup fo _).mp ((hord _).mem_iff.mp hfo)
    · simp only [Option.some.injEq] at h
      exact h ▸ hvis1

end Sound

end Q
end CG
