/- C15 helper: the reader on a well-formed netlist — success and the structure of the result -/
import CG.Proofs.BenchOuts
import CG.Proofs.BenchParity
set_option linter.unusedSimpArgs false
set_option linter.unusedVariables false
namespace CG
namespace BenchP
open Circuit Ternary Bench

def gateTysP : List String := ["buf", "not", "or", "nor", "and", "nand", "xor", "xnor"]

theorem gateTys_facts {t : String} (h : t ∈ gateTysP) :
    t ∈ okTypes ∧ t ≠ "0" ∧ t ≠ "1" ∧ t ≠ "input" ∧ t ∈ T.primitive := by
  simp only [gateTysP, List.mem_cons, List.not_mem_nil, or_false] at h
  rcases h with rfl | rfl | rfl | rfl | rfl | rfl | rfl | rfl <;> decide

/-- copy of `C15.WellFormed` (which lives in the property file): operands may repeat -/
structure WFP0 (ins : List Name) (gates : List (Name × String × List Name)) (dffs : List (Name × Name))
    (outs : List Name) : Prop where
  names : ∀ n, (n ∈ ins ∨ n ∈ gates.map (·.1) ∨ n ∈ dffs.map (·.1)) → n ≠ "" ∧ Circuit.isDigit0 n = false ∧ ¬ hasDotB n
  defsNodup : (ins ++ gates.map (·.1) ++ dffs.map (·.1)).Nodup
  gateTy : ∀ g ∈ gates, g.2.1 ∈ gateTysP
  gateArity : ∀ g ∈ gates, g.2.2 ≠ [] ∧ ((g.2.1 = "buf" ∨ g.2.1 = "not") → g.2.2.length = 1)
  uses : ∀ g ∈ gates, ∀ x ∈ g.2.2, x ∈ ins ∨ x ∈ gates.map (·.1) ∨ x ∈ dffs.map (·.1)
  dffUses : ∀ d ∈ dffs, d.2 ∈ ins ∨ d.2 ∈ gates.map (·.1) ∨ d.2 ∈ dffs.map (·.1)
  outsDef : ∀ o ∈ outs, o ∈ ins ∨ o ∈ gates.map (·.1) ∨ o ∈ dffs.map (·.1)

/-- a well-formed netlist without repeated operands (what the writer emits) -/
structure WFP (ins : List Name) (gates : List (Name × String × List Name)) (dffs : List (Name × Name))
    (outs : List Name) : Prop where
  names : ∀ n, (n ∈ ins ∨ n ∈ gates.map (·.1) ∨ n ∈ dffs.map (·.1)) → n ≠ "" ∧ Circuit.isDigit0 n = false ∧ ¬ hasDotB n
  defsNodup : (ins ++ gates.map (·.1) ++ dffs.map (·.1)).Nodup
  gateTy : ∀ g ∈ gates, g.2.1 ∈ gateTysP
  gateArity : ∀ g ∈ gates, g.2.2 ≠ [] ∧ g.2.2.Nodup ∧ ((g.2.1 = "buf" ∨ g.2.1 = "not") → g.2.2.length = 1)
  uses : ∀ g ∈ gates, ∀ x ∈ g.2.2, x ∈ ins ∨ x ∈ gates.map (·.1) ∨ x ∈ dffs.map (·.1)
  dffUses : ∀ d ∈ dffs, d.2 ∈ ins ∨ d.2 ∈ gates.map (·.1) ∨ d.2 ∈ dffs.map (·.1)
  outsDef : ∀ o ∈ outs, o ∈ ins ∨ o ∈ gates.map (·.1) ∨ o ∈ dffs.map (·.1)

theorem WFP.to0 {ins : List Name} {gates : List (Name × String × List Name)} {dffs : List (Name × Name)}
    {outs : List Name} (hw : WFP ins gates dffs outs) : WFP0 ins gates dffs outs :=
  ⟨hw.names, hw.defsNodup, hw.gateTy, fun g hg => ⟨(hw.gateArity g hg).1, (hw.gateArity g hg).2.2⟩, hw.uses, hw.dffUses,
    hw.outsDef⟩

def stmtsP (ins : List Name) (gates : List (Name × String × List Name)) (dffs : List (Name × Name)) (outs : List Name) :
    List Stmt :=
  ins.map Stmt.input ++ gates.map (fun g => Stmt.gate g.1 g.2.1 g.2.2) ++ dffs.map (fun d => Stmt.dffNet d.1) ++
  dffs.map (fun d => Stmt.dff d.1 d.2) ++ outs.map Stmt.output

def insDefs (ins : List Name) : List Def := ins.map (fun n => (n, "input", []))
def dffDefs (dffs : List (Name × Name)) : List Def := dffs.map (fun d => (d.1, "buf", []))

/-- all definitions of a netlist, in reader order -/
def defsOf (ins : List Name) (gates : List Def) (dffs : List (Name × Name)) : List Def :=
  insDefs ins ++ (gates ++ dffDefs dffs)

theorem names_insDefs (ins : List Name) : names (insDefs ins) = ins := by
  simp [names, insDefs, List.map_map, Function.comp_def]

theorem names_dffDefs (dffs : List (Name × Name)) : names (dffDefs dffs) = dffs.map (·.1) := by
  simp [names, dffDefs, List.map_map, Function.comp_def]

theorem names_defsOf (ins : List Name) (gates : List Def) (dffs : List (Name × Name)) :
    names (defsOf ins gates dffs) = ins ++ (gates.map (·.1) ++ dffs.map (·.1)) := by
  unfold defsOf
  rw [names_append, names_append, names_insDefs, names_dffDefs]
  rfl

theorem mem_names_defsOf {ins : List Name} {gates : List Def} {dffs : List (Name × Name)} {x : Name} :
    x ∈ names (defsOf ins gates dffs) ↔ (x ∈ ins ∨ x ∈ gates.map (·.1) ∨ x ∈ dffs.map (·.1)) := by
  rw [names_defsOf]; simp only [List.mem_append]

/-! ### the definition a gate line really makes: repeated XOR/XNOR operands cancel (K35) -/

def normDef (g : Def) : Def := (g.1, (parityGate g.2.1 g.2.2).1, (parityGate g.2.1 g.2.2).2)

theorem normDef_nodup {g : Def} (h : g.2.2.Nodup) : normDef g = g := by
  unfold normDef
  rw [parityGate_nodup g.2.1 h]

theorem map_normDef_nodup {gates : List Def} (h : ∀ g ∈ gates, g.2.2.Nodup) : gates.map normDef = gates := by
  induction gates with
  | nil => rfl
  | cons g gs ih =>
    rw [List.map_cons, normDef_nodup (h g (by simp)), ih (fun g' hg' => h g' (by simp [hg']))]

theorem names_map_normDef (gates : List Def) : (gates.map normDef).map (·.1) = gates.map (·.1) := by
  rw [List.map_map]; rfl

theorem names_defsOf_norm (ins : List Name) (gates : List Def) (dffs : List (Name × Name)) :
    names (defsOf ins (gates.map normDef) dffs) = ins ++ (gates.map (·.1) ++ dffs.map (·.1)) := by
  rw [names_defsOf, names_map_normDef]

theorem mem_names_defsOf_norm {ins : List Name} {gates : List Def} {dffs : List (Name × Name)} {x : Name} :
    x ∈ names (defsOf ins (gates.map normDef) dffs) ↔ (x ∈ ins ∨ x ∈ gates.map (·.1) ∨ x ∈ dffs.map (·.1)) := by
  rw [names_defsOf_norm]; simp only [List.mem_append]

theorem normDef_facts {g : Def} (ht : g.2.1 ∈ gateTysP) (ha : (g.2.1 = "buf" ∨ g.2.1 = "not") → g.2.2.length = 1) :
    (∀ u ∈ (normDef g).2.2, u ∈ g.2.2) ∧ (normDef g).2.1 ∈ okTypes ∧ (normDef g).2.1 ≠ "input" ∧
    ((normDef g).2.1 = "buf" ∨ (normDef g).2.1 = "not" → (normDef g).2.2.length ≤ 1) ∧
    ((normDef g).2.1 = "0" ∨ (normDef g).2.1 = "1" ∨ (normDef g).2.1 = "input" → (normDef g).2.2 = []) := by
  obtain ⟨n, t, ops⟩ := g
  have hty := gateTys_facts ht
  simp only [normDef] at ht ha hty ⊢
  refine ⟨fun u hu => parityGate_mem hu, ?_⟩
  rcases parityGate_ty t ops with e | ⟨hx, hc, hn⟩
  · rw [e]
    refine ⟨hty.1, hty.2.2.2.1, ?_, ?_⟩
    · intro hb
      have hne : t ≠ "xor" ∧ t ≠ "xnor" := by
        rcases hb with rfl | rfl <;> decide
      rw [parityGate_other ops hne.1 hne.2, ha hb]
      exact Nat.le_refl _
    · rintro (h | h | h)
      · exact absurd h hty.2.1
      · exact absurd h hty.2.2.1
      · exact absurd h hty.2.2.2.1
  · rw [hn]
    refine ⟨?_, ?_, fun _ => Nat.zero_le _, fun _ => rfl⟩
    · rcases hc with h | h <;> rw [h] <;> decide
    · rcases hc with h | h <;> rw [h] <;> decide

theorem nameOK_of {n : Name} (h : n ≠ "" ∧ Circuit.isDigit0 n = false ∧ ¬ hasDotB n) : Limit.NameOK n := by
  refine ⟨h.2.1, ?_⟩
  cases he : n.isEmpty with
  | false => rfl
  | true => exact absurd (String.isEmpty_iff.mp he) h.1

theorem foldlM_append_ok {f : Circuit → Stmt → E Circuit} {l l' : List Stmt} {b b' : Circuit}
    (h : l.foldlM f b = .ok b') : (l ++ l').foldlM f b = l'.foldlM f b' := by
  rw [List.foldlM_append, h]; rfl

section
variable {ins : List Name} {gates : List Def} {dffs : List (Name × Name)} {outs : List Name}

theorem WFP0.defOK_ins (hw : WFP0 ins gates dffs outs) : ∀ d ∈ insDefs ins, DefOK d := by
  intro d hd
  obtain ⟨n, hn, rfl⟩ := List.mem_map.mp hd
  exact ⟨nameOK_of (hw.names n (Or.inl hn)), (fun u hu => by cases hu), (by decide : "input" ∈ okTypes),
    fun _ => by simp, fun _ => rfl⟩

theorem WFP0.defOK_gates (hw : WFP0 ins gates dffs outs) : ∀ d ∈ gates.map normDef, DefOK d := by
  intro d hd
  obtain ⟨g, hg, rfl⟩ := List.mem_map.mp hd
  obtain ⟨f1, f2, _, f4, f5⟩ := normDef_facts (hw.gateTy g hg) (hw.gateArity g hg).2
  refine ⟨nameOK_of (hw.names g.1 (Or.inr (Or.inl (List.mem_map.mpr ⟨g, hg, rfl⟩)))), ?_, f2, f4, f5⟩
  intro u hu; exact nameOK_of (hw.names u (hw.uses g hg u (f1 u hu)))

theorem WFP0.defOK_dffs (hw : WFP0 ins gates dffs outs) : ∀ d ∈ dffDefs dffs, DefOK d := by
  intro d hd
  obtain ⟨n, hn, rfl⟩ := List.mem_map.mp hd
  exact ⟨nameOK_of (hw.names n.1 (Or.inr (Or.inr (List.mem_map.mpr ⟨n, hn, rfl⟩)))), (fun u hu => by cases hu),
    (by decide : "buf" ∈ okTypes), fun _ => by simp, fun _ => rfl⟩

theorem WFP0.defOK (hw : WFP0 ins gates dffs outs) : ∀ d ∈ defsOf ins (gates.map normDef) dffs, DefOK d := by
  intro d hd
  unfold defsOf at hd
  rcases List.mem_append.mp hd with h | h
  · exact hw.defOK_ins d h
  · rcases List.mem_append.mp h with h | h
    · exact hw.defOK_gates d h
    · exact hw.defOK_dffs d h

theorem WFP0.closedD (hw : WFP0 ins gates dffs outs) :
    ∀ d ∈ defsOf ins (gates.map normDef) dffs, ∀ u ∈ d.2.2,
      u ∈ BenchP.names (defsOf ins (gates.map normDef) dffs) := by
  intro d hd u hu
  rw [mem_names_defsOf_norm]
  unfold defsOf at hd
  rcases List.mem_append.mp hd with h | h
  · obtain ⟨n, _, rfl⟩ := List.mem_map.mp h; cases hu
  · rcases List.mem_append.mp h with h | h
    · obtain ⟨g, hg, rfl⟩ := List.mem_map.mp h
      exact hw.uses g hg u (parityGate_mem hu)
    · obtain ⟨n, _, rfl⟩ := List.mem_map.mp h; cases hu

/-- **the reader succeeds on a well-formed netlist and builds exactly the described circuit** (gate lines with
    their parity-normalised operands) -/
theorem build_struct0 (name : String) (hw : WFP0 ins gates dffs outs) :
    ∃ c, build name (stmtsP ins gates dffs outs) = .ok c ∧ Built (defsOf ins (gates.map normDef) dffs) dffs outs c := by
  have hndAll : (names (defsOf ins (gates.map normDef) dffs)).Nodup := by
    rw [names_defsOf_norm, ← List.append_assoc]; exact hw.defsNodup
  -- pass 1: inputs
  obtain ⟨c1, e1, h1⟩ := build_adds (ins.map (fun n => (Stmt.input n, ((n, "input", []) : Def))))
    ({ name := if name.isEmpty then "circuit" else name } : Circuit) [] (BInv.init _) (by intro d hd; cases hd)
    (by
      have : names (List.map (fun x => x.2) (ins.map (fun n => (Stmt.input n, ((n, "input", []) : Def))))) = ins := by
        simp [names, List.map_map, Function.comp_def]
      rw [this]
      simpa [names] using (List.nodup_append.mp (List.nodup_append.mp hw.defsNodup).1).1)
    (by
      intro p hp
      obtain ⟨n, hn, rfl⟩ := List.mem_map.mp hp
      exact ⟨StmtFor.input n, hw.defOK_ins _ (List.mem_map.mpr ⟨n, hn, rfl⟩)⟩)
    (by
      intro p hp _ d' hd'
      simp only [List.nil_append, List.map_map, List.mem_map, Function.comp_def] at hd'
      obtain ⟨n, _, rfl⟩ := hd'
      exact List.not_mem_nil)
  have m1 : List.map (fun x => x.1) (ins.map (fun n => (Stmt.input n, ((n, "input", []) : Def)))) = ins.map Stmt.input := by
    simp [List.map_map, Function.comp_def]
  have d1 : List.map (fun x => x.2) (ins.map (fun n => (Stmt.input n, ((n, "input", []) : Def)))) = insDefs ins := by
    simp [insDefs, List.map_map, Function.comp_def]
  rw [m1] at e1
  rw [d1, List.nil_append] at h1
  -- passes 2 and 3: gate lines and DFF nets
  obtain ⟨c3, e3, h3⟩ := build_adds
    (gates.map (fun g => (Stmt.gate g.1 g.2.1 g.2.2, normDef g)) ++ dffs.map (fun d => (Stmt.dffNet d.1, ((d.1, "buf", []) : Def))))
    c1 (insDefs ins) h1 (fun d hd => (hw.defOK_ins d hd).ty)
    (by
      have : List.map (fun x => x.2) (gates.map (fun g => (Stmt.gate g.1 g.2.1 g.2.2, normDef g)) ++
          dffs.map (fun d => (Stmt.dffNet d.1, ((d.1, "buf", []) : Def)))) = gates.map normDef ++ dffDefs dffs := by
        simp [dffDefs, List.map_map, Function.comp_def]
      rw [this, ← names_append]
      exact hndAll)
    (by
      intro p hp
      rcases List.mem_append.mp hp with h | h
      · obtain ⟨g, hg, rfl⟩ := List.mem_map.mp h
        exact ⟨StmtFor.gate _ _ _, hw.defOK_gates _ (List.mem_map.mpr ⟨g, hg, rfl⟩)⟩
      · obtain ⟨d, hd, rfl⟩ := List.mem_map.mp h
        exact ⟨StmtFor.dffNet _, hw.defOK_dffs _ (List.mem_map.mpr ⟨d, hd, rfl⟩)⟩)
    (by
      intro p hp ht
      exfalso
      rcases List.mem_append.mp hp with h | h
      · obtain ⟨g, hg, rfl⟩ := List.mem_map.mp h
        exact (normDef_facts (hw.gateTy g hg) (hw.gateArity g hg).2).2.2.1 ht
      · obtain ⟨d, hd, rfl⟩ := List.mem_map.mp h
        exact absurd (show "buf" = "input" from ht) (by decide))
  have m3 : List.map (fun x => x.1) (gates.map (fun g => (Stmt.gate g.1 g.2.1 g.2.2, normDef g)) ++
      dffs.map (fun d => (Stmt.dffNet d.1, ((d.1, "buf", []) : Def)))) =
      gates.map (fun g => Stmt.gate g.1 g.2.1 g.2.2) ++ dffs.map (fun d => Stmt.dffNet d.1) := by
    simp [List.map_map, Function.comp_def]
  have d3 : insDefs ins ++ List.map (fun x => x.2) (gates.map (fun g => (Stmt.gate g.1 g.2.1 g.2.2, normDef g)) ++
      dffs.map (fun d => (Stmt.dffNet d.1, ((d.1, "buf", []) : Def)))) = defsOf ins (gates.map normDef) dffs := by
    simp [defsOf, dffDefs, List.map_map, Function.comp_def]
  rw [m3] at e3
  rw [d3] at h3
  -- pass 4: the flops
  have hDok : ∀ x ∈ names (defsOf ins (gates.map normDef) dffs), Limit.NameOK x ∧ ¬ hasDotB x := by
    intro x hx
    have := hw.names x (mem_names_defsOf_norm.mp hx)
    exact ⟨nameOK_of this, this.2.2⟩
  obtain ⟨c4, e4, h4⟩ := build_dffs hndAll (fun d hd => (hw.defOK d hd).ty) hDok dffs c3 []
    (DInv.ofB h3 hw.closedD)
    (by
      intro p hp
      refine ⟨?_, mem_names_defsOf_norm.mpr (hw.dffUses p hp)⟩
      unfold defsOf dffDefs
      simp only [List.mem_append, List.mem_map]
      exact Or.inr (Or.inr ⟨p, hp, rfl⟩))
    (by
      simpa using (List.nodup_append.mp hw.defsNodup).2.1)
  rw [List.nil_append] at h4
  -- pass 5: outputs
  obtain ⟨c5, e5, h5⟩ := build_outs c4 outs c4 [] (OInv.init c4)
    (fun n hn => (h4.has n).mpr (Or.inl (mem_names_defsOf_norm.mpr (hw.outsDef n hn))))
  rw [List.nil_append] at h5
  refine ⟨c5, ?_, Built.of h4 h5 (fun x hx => (hDok x hx).2) (fun x hx => mem_names_defsOf_norm.mpr (hw.outsDef x hx))⟩
  have hs : stmtsP ins gates dffs outs = ins.map Stmt.input ++
      ((gates.map (fun g => Stmt.gate g.1 g.2.1 g.2.2) ++ dffs.map (fun d => Stmt.dffNet d.1)) ++
        (dffs.map (fun d => Stmt.dff d.1 d.2) ++ outs.map Stmt.output)) := by
    simp only [stmtsP, List.append_assoc]
  unfold build
  rw [hs, foldlM_append_ok e1, foldlM_append_ok e3, foldlM_append_ok e4]
  exact e5

/-- without repeated operands the definitions are the gate lines themselves -/
theorem build_struct (name : String) (hw : WFP ins gates dffs outs) :
    ∃ c, build name (stmtsP ins gates dffs outs) = .ok c ∧ Built (defsOf ins gates dffs) dffs outs c := by
  have h := build_struct0 name hw.to0
  rw [map_normDef_nodup (fun g hg => (hw.gateArity g hg).2.1)] at h
  exact h
end

end BenchP
end CG
