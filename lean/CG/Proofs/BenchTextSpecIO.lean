/- C15 (character level) helper: the INPUT and OUTPUT patterns on a text made of canonical lines -/
import CG.Proofs.BenchTextLines
set_option linter.unusedSimpArgs false
set_option linter.unusedVariables false
namespace CG
namespace BenchText
open Regex

theorem grp1 (ctx : Ctx) (a b : Nat) : grp ctx 1 [(1, a, b)] = [slice ctx.s a b] := by
  simp [grp, capOf, List.range, List.range.loop]

theorem grp3 (ctx : Ctx) (a1 b1 a2 b2 a3 b3 : Nat) :
    grp ctx 3 [(3, a3, b3), (2, a2, b2), (1, a1, b1)] = [slice ctx.s a1 b1, slice ctx.s a2 b2, slice ctx.s a3 b3] := by
  simp [grp, capOf, List.range, List.range.loop, List.find?]

/-- the slice of a captured group -/
theorem slice_eq (ctx : Ctx) {p : Nat} (hp : p ≤ ctx.s.size) {pre g post : List Char}
    (h : (txt ctx).drop p = pre ++ (g ++ post)) :
    slice ctx.s (ctx.s.size - (g ++ post).length) (ctx.s.size - post.length) = String.ofList g := by
  obtain ⟨_, hd, _⟩ := drop_of_append ctx hp h
  have hl := congrArg List.length h
  rw [drop_length] at hl
  simp only [List.length_append] at hl
  unfold slice
  have : ctx.s.toList = txt ctx := rfl
  rw [this, hd]
  have e : ctx.s.size - post.length - (ctx.s.size - (g ++ post).length) = g.length := by
    rw [List.length_append]; omega
  rw [e, List.take_left']
  rfl

theorem end_pos (ctx : Ctx) {p : Nat} (hp : p ≤ ctx.s.size) {l rest : List Char} (h : (txt ctx).drop p = l ++ rest) :
    ctx.s.size - rest.length = p + l.length := (drop_of_append ctx hp h).2.2

def Kof (b : Bool) : List Char := if b then kINPUT else kOUTPUT
def kof (b : Bool) : List Char := if b then kinput else koutput

/-- what `findall` returns per line for the INPUT (`true`) / OUTPUT (`false`) pattern -/
def hitIO (b : Bool) : Ln → Option (List String)
  | .inp n => if b then some [String.ofList n] else none
  | .out n => if b then none else some [String.ofList n]
  | _ => none

theorem Kof_facts (b : Bool) : AllLetter (Kof b) ∧ AllLetter (kof b) ∧ Kof b ≠ [] ∧ kof b ≠ [] ∧
    ¬ Kof b <:+ Kof (!b) ∧ ¬ kof b <:+ Kof (!b) ∧ ¬ Kof b <:+ kDFF ∧ ¬ kof b <:+ kDFF ∧
    (∀ K' ∈ upKws, ¬ Kof b <:+ K' ∧ ¬ kof b <:+ K') ∧ '(' ∉ Kof b := by
  cases b <;> decide

theorem specIO (ctx : Ctx) (b : Bool) (hneed : need ctx.s.size (rxIO (Kof b) (kof b)) ≤ fuelFor ctx.s) :
    LineSpec Ln.chars ctx (rxIO (Kof b) (kof b)) 1 Ln.ok (hitIO b) := by
  obtain ⟨hK, hk, hK0, hk0, hs1, hs2, hd1, hd2, hup, hKp⟩ := Kof_facts b
  have hcomma : ∀ {A : List Char}, AllArg A → '(' ∉ A := fun hA => hA.not_mem (Or.inl rfl)
  have hid : ∀ {n : List Char}, AllIdC n → '(' ∉ n := fun hn => hn.not_mem (by decide)
  refine ⟨?_, ?_, ?_, ?_⟩
  · intro p hp hd
    apply m_none ctx _ _ p hp
    intro s' c'
    rw [hd]
    exact io_nil ctx hK0 hk0
  · intro p rest hp hd
    apply m_none ctx _ _ p hp
    intro s' c'
    rw [hd]
    exact io_first ctx hK hk hK0 hk0 (by decide)
  · intro l hl hh u t rest p hu ht hp hd
    apply m_none ctx _ _ p hp
    intro s' c'
    rw [hd]
    cases l with
    | inp n =>
      have hb : b = false := by cases b <;> simp_all [hitIO]
      subst hb
      exact io_miss ctx hK hk hK0 hk0 (H0 := []) (K' := kINPUT) (A := n) (Or.inl rfl) (by simp) (by decide) (by decide)
        hs1 hs2 (hid hl.all) (by simpa [Ln.chars] using hu) ht
    | out n =>
      have hb : b = true := by cases b <;> simp_all [hitIO]
      subst hb
      exact io_miss ctx hK hk hK0 hk0 (H0 := []) (K' := kOUTPUT) (A := n) (Or.inl rfl) (by simp) (by decide) (by decide)
        hs1 hs2 (hid hl.all) (by simpa [Ln.chars] using hu) ht
    | gate n K A =>
      obtain ⟨hn, hKm, hA, _⟩ := hl
      have hKl := upKws_letters hKm
      refine io_miss ctx hK hk hK0 hk0 (H0 := n ++ [' ', '=', ' ']) (K' := K) (A := A) (Or.inr ⟨n ++ [' ', '='], by simp⟩)
        ?_ hKl.1 hKl.2 (hup K hKm).1 (hup K hKm).2 (hcomma hA) (by simpa [Ln.chars] using hu) ht
      intro hm
      simp only [List.mem_append, List.mem_cons, List.not_mem_nil, or_false] at hm
      rcases hm with hm | hm | hm | hm
      · exact hid hn.all hm
      all_goals exact absurd hm (by decide)
    | dff n A =>
      obtain ⟨hn, hA, _⟩ := hl
      refine io_miss ctx hK hk hK0 hk0 (H0 := n ++ [' ', '=', ' ']) (K' := kDFF) (A := A) (Or.inr ⟨n ++ [' ', '='], by simp⟩)
        ?_ (by decide) (by decide) hd1 hd2 (hcomma hA) (by simpa [Ln.chars] using hu) ht
      intro hm
      simp only [List.mem_append, List.mem_cons, List.not_mem_nil, or_false] at hm
      rcases hm with hm | hm | hm | hm
      · exact hid hn.all hm
      all_goals exact absurd hm (by decide)
    | blank =>
      simp only [Ln.chars, List.append_eq_nil_iff] at hu
      exact absurd hu.2 ht
  · intro l gs hl hh rest p hp hd
    have key : ∀ n, IdentL n → Ln.chars l = Kof b ++ '(' :: (n ++ [')']) → gs = [String.ofList n] →
        Ln.chars l ≠ [] ∧ ∃ caps, m ctx (fuelFor ctx.s) (rxIO (Kof b) (kof b)) p [] k0 =
          some (p + (Ln.chars l).length, caps) ∧ grp ctx 1 caps = gs := by
      intro n hn hc hgs
      rw [hc] at hd ⊢
      refine ⟨by simp, ?_⟩
      have hd' : (txt ctx).drop p = Kof b ++ '(' :: (n ++ ')' :: rest) := by rw [hd]; simp
      have hm := m_some ctx (fuelFor ctx.s) (rxIO (Kof b) (kof b)) p hp hneed rest
        [(1, ctx.s.size - (n ++ ')' :: rest).length, ctx.s.size - (')' :: rest).length)]
        (by rw [hd']; exact (io_success ctx hK hk hK0 hn).mpr ⟨rfl, rfl⟩)
        (by intro s' c' h; rw [hd'] at h; exact (io_success ctx hK hk hK0 hn).mp h)
      refine ⟨[(1, ctx.s.size - (n ++ ')' :: rest).length, ctx.s.size - (')' :: rest).length)], ?_, ?_⟩
      · rw [hm, end_pos ctx hp hd]
      · rw [grp1, hgs]
        have : (txt ctx).drop p = (Kof b ++ ['(']) ++ (n ++ ')' :: rest) := by rw [hd']; simp
        rw [slice_eq ctx hp this]
    cases l with
    | inp n =>
      cases b with
      | false => simp [hitIO] at hh
      | true =>
        simp only [hitIO, if_true, Option.some.injEq] at hh
        exact key n hl rfl hh.symm
    | out n =>
      cases b with
      | true => simp [hitIO] at hh
      | false =>
        simp only [hitIO, Bool.false_eq_true, if_false, Option.some.injEq] at hh
        exact key n hl rfl hh.symm
    | gate n K A => simp [hitIO] at hh
    | dff n A => simp [hitIO] at hh
    | blank => simp [hitIO] at hh

end BenchText
end CG
