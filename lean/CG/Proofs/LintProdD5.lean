/- C20 (second half, insert_registers): the clock input, the two loops, and the main statement -/
import CG.Proofs.LintProdD4
import CG.Proofs.InsRegMain
set_option linter.unusedSimpArgs false
set_option linter.unusedVariables false
namespace CG
namespace LintProdD
open Circuit InsReg

/-- adding a fresh primary input keeps the circuit lint-clean -/
theorem lintClean_addInput {c : Circuit} (hc : LintClean c) {x : Name} (hx : c.has x = false) :
    LintClean (c.addNodeAttr x { ty := some "input", out := some false }) := by
  have hnodes : (c.addNodeAttr x { ty := some "input", out := some false }).nodes =
      c.nodes ++ [(x, { ty := some "input", out := some false })] := by rw [addNodeAttr_fresh _ hx]
  have hedges := addNodeAttr_edges c x { ty := some "input", out := some false }
  have hwf := AU.wf_addNodeAttr (n := x) ({ ty := some "input", out := some false } : Attr) hc.toWF
  generalize c.addNodeAttr x { ty := some "input", out := some false } = c1 at hnodes hedges hwf
  have hfanin : ∀ m, c1.fanin m = c.fanin m := by intro m; unfold fanin; rw [hedges]
  have hfanout : ∀ m, c1.fanout m = c.fanout m := by intro m; unfold fanout; rw [hedges]
  have hold : ∀ m, c.has m = true → c1.ty? m = c.ty? m := by
    intro m hm
    unfold Circuit.ty?
    rw [Limit.ext_attr_old hnodes hm]
  have hnofi : ∀ m, c.has m = false → c.fanin m = [] := by
    intro m hm
    cases hf : c.fanin m with
    | nil => rfl
    | cons u us =>
      have : (u, m) ∈ c.edges := mem_fanin.mp (by rw [hf]; exact List.mem_cons_self)
      have := (hc.closed _ this).2
      simp only [] at this
      rw [hm] at this; cases this
  have hnew : ∀ m t, c.has m = false → c1.ty? m = some t → t = "input" := by
    intro m t hm hty
    have h1 : c1.has m = true := has_of_ty? hty
    obtain ⟨a, ha⟩ := Limit.attr_of_has h1
    have hmem := attr?_mem ha
    rw [hnodes, List.mem_append, List.mem_singleton] at hmem
    rcases hmem with hmem | hmem
    · have := (RU.has_iff_exists c m).mpr ⟨a, hmem⟩
      rw [hm] at this; cases this
    · have e2 := (Prod.mk.inj hmem).2
      unfold Circuit.ty? at hty
      rw [ha, e2] at hty
      exact (Option.some.inj hty).symm
  have key : ∀ m t, c1.ty? m = some t →
      (t ∈ sourceTypes → c1.fanin m = []) ∧ (t ∈ singleTypes → (c1.fanin m).length = 1) ∧
      (t ∈ multiTypes → 1 ≤ (c1.fanin m).length) := by
    intro m t hty
    rw [hfanin]
    cases hm : c.has m with
    | true =>
      rw [hold m hm] at hty
      exact ⟨hc.noFanin m t hty, hc.single m t hty, hc.multi m t hty⟩
    | false =>
      have := hnew m t hm hty
      subst this
      exact ⟨fun _ => hnofi m hm, fun hs => absurd hs (by decide), fun hs => absurd hs (by decide)⟩
  refine
    { toWF := hwf, typed := ?_, noFanin := fun n t h1 h2 => (key n t h1).1 h2,
      single := fun n t h1 h2 => (key n t h1).2.1 h2, multi := fun n t h1 h2 => (key n t h1).2.2 h2,
      bbOut := ?_, noBBInFanout := ?_ }
  · intro p hp
    rw [hnodes, List.mem_append, List.mem_singleton] at hp
    rcases hp with hp | rfl
    · exact hc.typed p hp
    · exact ⟨"input", rfl, by decide⟩
  · intro e he hty
    rw [hedges] at he
    obtain ⟨c1', c2'⟩ := hc.closed e he
    rw [hold _ c1'] at hty
    rw [hold _ c2', hfanout]
    exact hc.bbOut e he hty
  · intro e he hty
    rw [hedges] at he
    rw [hold _ (hc.closed e he).1] at hty
    exact hc.noBBInFanout e he hty

/-- ensuring the clock input keeps the invariant -/
theorem clk_clean {c c1 : Circuit} (hc : LintClean c) (hbb : c.bbs = []) (hr : C20.RegistryOK c)
    (h : (if c.has "clk" then pure c else Tx.addC c { n := "clk", ty := "input" }) = Except.ok c1) :
    LintClean c1 ∧ C20.RegistryOK c1 ∧ ∀ m, c.has m = true → c1.has m = true := by
  by_cases hk : c.has "clk" = true
  · rw [if_pos hk] at h
    injection h with h
    subst h
    exact ⟨hc, hr, fun _ hm => hm⟩
  · rw [if_neg hk] at h
    have hk' : c.has "clk" = false := by simpa using hk
    have hnd := (noDots_of_registryOK hbb hr).addC (a := { n := "clk", ty := "input" }) (by decide) rfl rfl h
    obtain ⟨_, c3, h3, h4⟩ := AU.addC_ok rfl rfl rfl h
    rw [connect_empty_right] at h3
    injection h3 with h3 _
    subst h3
    rw [connect_empty_left] at h4
    injection h4 with h4 _
    subst h4
    refine ⟨lintClean_addInput hc hk', C20.registryOK_of_noDots hnd, ?_⟩
    intro m hm
    rw [addNodeAttr_has, hm]
    rfl

/-- a fold that keeps an invariant as long as the folded elements are good -/
theorem foldlM_inv_mem {α β : Type} (P : α → Prop) (Q : β → Prop) (f : α → β → E α)
    (hf : ∀ a b a', P a → Q b → f a b = .ok a' → P a') :
    ∀ (l : List β) (a a' : α), (∀ b ∈ l, Q b) → P a → l.foldlM f a = .ok a' → P a'
  | [], a, a', _, hp, h => by
    rw [List.foldlM_nil] at h
    injection h with h
    subst h
    exact hp
  | b :: l, a, a', hq, hp, h => by
    rw [List.foldlM_cons] at h
    obtain ⟨a1, h1, h2⟩ := AU.bind_ok h
    exact foldlM_inv_mem P Q f hf l a1 a' (fun x hx => hq x (List.mem_cons_of_mem _ hx))
      (hf a b a1 hp (hq b List.mem_cons_self) h1) h2

/-- the names in the depth table are the node names -/
theorem mapM_fst (g : Name → Except Outcome Nat) : ∀ (l : List Name) (r : List (Name × Nat)),
    l.mapM (fun n => match g n with | .ok d => (Except.ok (n, d) : E (Name × Nat)) | .error e => .error e) = .ok r →
    ∀ p ∈ r, p.1 ∈ l
  | [], r, h => by
    rw [List.mapM_nil] at h
    injection h with h
    subst h
    intro p hp
    cases hp
  | x :: l, r, h => by
    rw [List.mapM_cons] at h
    obtain ⟨y, h1, h⟩ := AU.bind_ok h
    obtain ⟨ys, h2, h⟩ := AU.bind_ok h
    injection h with h
    subst h
    intro p hp
    rcases List.mem_cons.mp hp with rfl | hp
    · cases hg : g x with
      | error e => rw [hg] at h1; cases h1
      | ok d =>
        rw [hg] at h1
        injection h1 with h1
        subst h1
        exact List.mem_cons_self
    · exact List.mem_cons_of_mem _ (mapM_fst g l ys h2 p hp)

/-- **insert_registers keeps a blackbox-free lint-clean circuit lint-clean with a consistent registry** -/
theorem insert_registers_clean (c c' : Circuit) (k : Nat) (ord : Ord) (hord : OrdOK ord) (fuel : Nat)
    (hc : LintClean c) (hnobb : c.bbs = []) (hr : C20.RegistryOK c) (h : Tx.insertRegisters c k ord fuel = .ok c') :
    LintClean c' ∧ C20.RegistryOK c' := by
  have hnd := noDots_of_registryOK hnobb hr
  rw [insertRegisters_eq] at h
  obtain ⟨depths, hdep, h⟩ := AU.bind_ok h
  obtain ⟨c1, hclk, h⟩ := AU.bind_ok h
  split at h
  · cases h
  obtain ⟨l1, r1, _⟩ := clk_clean hc hnobb hr hclk
  have hnames : ∀ p ∈ depths, hasDot p.1 = false := by
    intro p hp
    exact hnd.names p.1 ((has_iff_mem c p.1).2 (mapM_fst _ _ _ hdep p hp))
  refine foldlM_inv_mem (fun cr => LintClean cr ∧ C20.RegistryOK cr) (fun _ => True) _ ?_ _ c1 c'
    (fun _ _ => trivial) ⟨l1, r1⟩ h
  intro cr i cr2 hcr _ h2
  refine foldlM_inv_mem (fun cr => LintClean cr ∧ C20.RegistryOK cr) (fun n => hasDot n = false) _ ?_ _ cr cr2
    ?_ hcr h2
  · intro a n a' ha hn hs
    exact step_clean hord ha.1 ha.2 hn hs
  · intro n hn
    obtain ⟨p, hp, rfl⟩ := List.mem_map.mp hn
    exact hnames p (List.mem_filter.mp hp).1

end LintProdD
end CG
