/- refinement by adding one defined node; list permutation helpers (C05 helper) -/
import CG.Proofs.LimitOps
namespace CG
namespace Limit
open Circuit

/-! ### list helpers -/

theorem perm_cons_filter_ne : ∀ (l : List Name) (a : Name), l.Nodup → a ∈ l →
    l.Perm (a :: l.filter (fun x => !(x == a)))
  | [], _, _, h => by simp at h
  | x :: l, a, hnd, h => by
    have hnd' := List.nodup_cons.mp hnd
    by_cases hx : x = a
    · subst hx
      have hf : l.filter (fun y => !(y == x)) = l := by
        rw [List.filter_eq_self]
        intro y hy
        have : y ≠ x := by rintro rfl; exact hnd'.1 hy
        simp [this]
      simp [hf]
    · have ha : a ∈ l := by
        rcases List.mem_cons.mp h with h | h
        · exact absurd h.symm hx
        · exact h
      have ih := perm_cons_filter_ne l a hnd'.2 ha
      have hxa : (!(x == a)) = true := by simp [hx]
      rw [List.filter_cons, if_pos hxa]
      exact (List.Perm.cons x ih).trans (List.Perm.swap a x _)

theorem perm_cons_cons_filter (l : List Name) (a b : Name) (hnd : l.Nodup) (ha : a ∈ l) (hb : b ∈ l)
    (hab : a ≠ b) : l.Perm (a :: b :: l.filter (fun x => !(x == a || x == b))) := by
  have h1 := perm_cons_filter_ne l a hnd ha
  have hnd2 : (l.filter (fun x => !(x == a))).Nodup := List.Pairwise.filter _ hnd
  have hb2 : b ∈ l.filter (fun x => !(x == a)) := by
    rw [List.mem_filter]
    exact ⟨hb, by simp [Ne.symm hab]⟩
  have h2 := perm_cons_filter_ne _ b hnd2 hb2
  rw [List.filter_filter] at h2
  have hfun : (fun x : Name => (!(x == b)) && !(x == a)) = fun x => !(x == a || x == b) := by
    funext x
    cases (x == a) <;> cases (x == b) <;> rfl
  rw [hfun] at h2
  exact h1.trans (List.Perm.cons a h2)

/-! ### refinement -/

def upd (v : Val) (r : Name) (b : Bool) : Val := fun x => if x = r then b else v x

theorem upd_self (v : Val) (r : Name) (b : Bool) : upd v r b r = b := by simp [upd]

theorem upd_ne (v : Val) {r m : Name} (b : Bool) (h : m ≠ r) : upd v r b m = v m := by simp [upd, h]

theorem refines_refl (c : Circuit) : Refines c c id :=
  ⟨fun _ h => h, fun v h => ⟨v, h, fun _ _ => rfl⟩⟩

theorem refines_trans {c1 c2 c3 : Circuit} (h12 : Refines c1 c2 id) (h23 : Refines c2 c3 id)
    (hh : ∀ n, c1.has n = true → c2.has n = true) : Refines c1 c3 id := by
  constructor
  · intro v h
    exact h12.1 _ (h23.1 v h)
  · intro v h
    obtain ⟨v2, hv2, e2⟩ := h12.2 v h
    obtain ⟨v3, hv3, e3⟩ := h23.2 v2 hv2
    refine ⟨v3, hv3, ?_⟩
    intro n hn
    rw [e3 n (hh n hn)]
    exact e2 n hn

/-- adding one node `r` whose gate equation defines its value as `F` of the old values, such that all old
    gate equations are unchanged once `r` has that value, is a refinement in both directions -/
theorem refines_ext {c c' : Circuit} {r : Name} {a : Attr} {g : String}
    (hn : c'.nodes = c.nodes ++ [(r, a)]) (hr : c.has r = false) (ha : a.ty = some g)
    (hnotin : ∀ m, r ∉ c.fanin m)
    (F : Val → Bool) (hF : ∀ w b, F (upd w r b) = F w)
    (hnew : ∀ w, gateFn g ((c'.fanin r).map w) = some (F w))
    (hkey : ∀ w, w r = F w → ∀ p ∈ c.nodes, ∀ t, p.2.ty = some t →
      gateFn t ((c'.fanin p.1).map w) = gateFn t ((c.fanin p.1).map w)) :
    Refines c c' id := by
  constructor
  · intro v' hv'
    have hr' : v' r = F v' := hv' (r, a) (by rw [hn]; simp) g ha (F v') (hnew v')
    intro p hp t ht b hb
    have hp' : p ∈ c'.nodes := by rw [hn]; simp [hp]
    apply hv' p hp' t ht b
    rw [hkey v' hr' p hp t ht]
    exact hb
  · intro v hv
    refine ⟨upd v r (F v), ?_, ?_⟩
    · intro p hp t ht
      rw [hn, List.mem_append] at hp
      rcases hp with hp | hp
      · have hne : p.1 ≠ r := by
          intro he
          have : c.has p.1 = true := (RU.has_iff_exists c p.1).mpr ⟨p.2, hp⟩
          rw [he, hr] at this
          cases this
        intro b hb
        rw [hkey _ (by rw [upd_self, hF]) p hp t ht] at hb
        have hmap : (c.fanin p.1).map (upd v r (F v)) = (c.fanin p.1).map v := by
          apply List.map_congr_left
          intro x hx
          apply upd_ne
          rintro rfl
          exact hnotin _ hx
        rw [hmap] at hb
        rw [upd_ne _ _ hne]
        exact hv p hp t ht b hb
      · simp only [List.mem_singleton] at hp
        subst hp
        have : t = g := by
          simp only at ht
          rw [ha] at ht
          exact (Option.some.inj ht).symm
        subst this
        intro b hb
        rw [hnew] at hb
        rw [upd_self, ← Option.some.inj hb, hF]
    · intro m hm
      have hne : m ≠ r := by
        rintro rfl
        rw [hr] at hm
        cases hm
      exact upd_ne _ _ hne

end Limit
end CG
