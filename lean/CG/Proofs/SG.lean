/- helper lemmas for C17 (supergates checker) -/
import CG.Supergates
import CG.Spec
import CG.Props.C12
namespace CG
namespace SG
open Supergates Query CG.C12

/-- `closedAnc` lists exactly the node and its proper ancestors -/
theorem mem_closedAnc (c : Circuit) (hwf : WF c) (n x : Name) :
    x ∈ closedAnc c n ↔ (x = n ∨ Reach1 c x n) := by
  unfold closedAnc
  rw [List.mem_cons, Q.mem_ancestors c hwf, reach1_iff]
  constructor
  · rintro (h | ⟨h, _⟩)
    · exact Or.inl h
    · exact Or.inr h
  · intro h
    by_cases hx : x = n
    · exact Or.inl hx
    · rcases h with h | h
      · exact Or.inl h
      · exact Or.inr ⟨h, hx⟩

theorem disjointL_iff (a b : List Name) : disjointL a b = true ↔ ∀ x, ¬ (x ∈ a ∧ x ∈ b) := by
  unfold disjointL
  rw [List.all_eq_true]
  constructor
  · intro h x ⟨ha, hb⟩
    have := h x ha
    rw [Bool.not_eq_true', ← Bool.not_eq_true, List.contains_iff_mem] at this
    exact this hb
  · intro h x ha
    rw [Bool.not_eq_true', ← Bool.not_eq_true, List.contains_iff_mem]
    exact fun hb => h x ⟨ha, hb⟩

theorem disjointL_symm (a b : List Name) : disjointL a b = disjointL b a := by
  rw [Bool.eq_iff_iff, disjointL_iff, disjointL_iff]
  exact ⟨fun h x hx => h x ⟨hx.2, hx.1⟩, fun h x hx => h x ⟨hx.2, hx.1⟩⟩

theorem allPairs_iff {α} (p : α → α → Bool) (hsym : ∀ a b, p a b = p b a) : ∀ l : List α,
    allPairs l p = true ↔
      ∀ (i j : Nat) (a b : α), l[i]? = some a → l[j]? = some b → i ≠ j → p a b = true
  | [] => by
    simp [allPairs]
  | x :: xs => by
    unfold allPairs
    rw [Bool.and_eq_true, List.all_eq_true, allPairs_iff p hsym xs]
    constructor
    · rintro ⟨h1, h2⟩ i j a b hi hj hij
      cases i with
      | zero =>
        cases j with
        | zero => exact absurd rfl hij
        | succ j =>
          rw [List.getElem?_cons_zero] at hi
          rw [List.getElem?_cons_succ] at hj
          cases hi
          exact h1 b (List.mem_of_getElem? hj)
      | succ i =>
        cases j with
        | zero =>
          rw [List.getElem?_cons_zero] at hj
          rw [List.getElem?_cons_succ] at hi
          cases hj
          rw [hsym]
          exact h1 a (List.mem_of_getElem? hi)
        | succ j =>
          rw [List.getElem?_cons_succ] at hi hj
          exact h2 i j a b hi hj (fun h => hij (by rw [h]))
    · intro h
      refine ⟨?_, ?_⟩
      · intro y hy
        obtain ⟨j, hj⟩ := List.getElem?_of_mem hy
        exact h 0 (j + 1) x y (by simp) (by simpa using hj) (by omega)
      · intro i j a b hi hj hij
        exact h (i + 1) (j + 1) a b (by simpa using hi) (by simpa using hj) (by omega)

theorem orderOK_iff (c2 : Circuit) : ∀ (sgs : List Circuit) (done : List Name),
    orderOK c2 done sgs = true ↔
      ∀ (k : Nat) (sg : Circuit), sgs[k]? = some sg → ∀ i ∈ sg.inputs, c2.ty? i = some "input" ∨ i ∈ done ∨
        ∃ (k2 : Nat) (sg2 : Circuit), k2 < k ∧ sgs[k2]? = some sg2 ∧ i ∈ internal sg2
  | [], done => by
    simp [orderOK]
  | sg :: rest, done => by
    unfold orderOK
    rw [Bool.and_eq_true, List.all_eq_true, orderOK_iff c2 rest]
    constructor
    · rintro ⟨h1, h2⟩ k sg' hk i hi
      cases k with
      | zero =>
        rw [List.getElem?_cons_zero] at hk
        cases hk
        have := h1 i hi
        rw [Bool.or_eq_true, beq_iff_eq, List.contains_iff_mem] at this
        rcases this with h | h
        · exact Or.inl h
        · exact Or.inr (Or.inl h)
      | succ k =>
        rw [List.getElem?_cons_succ] at hk
        rcases h2 k sg' hk i hi with h | h | ⟨k2, sg2, hlt, hk2, hin⟩
        · exact Or.inl h
        · rcases List.mem_append.mp h with h | h
          · exact Or.inr (Or.inl h)
          · exact Or.inr (Or.inr ⟨0, sg, by omega, by simp, h⟩)
        · exact Or.inr (Or.inr ⟨k2 + 1, sg2, by omega, by simpa using hk2, hin⟩)
    · intro h
      refine ⟨?_, ?_⟩
      · intro i hi
        rw [Bool.or_eq_true, beq_iff_eq, List.contains_iff_mem]
        rcases h 0 sg (by simp) i hi with h | h | ⟨k2, _, hlt, _, _⟩
        · exact Or.inl h
        · exact Or.inr h
        · omega
      · intro k sg' hk i hi
        rcases h (k + 1) sg' (by simpa using hk) i hi with h | h | ⟨k2, sg2, hlt, hk2, hin⟩
        · exact Or.inl h
        · exact Or.inr (Or.inl (List.mem_append.mpr (Or.inl h)))
        · cases k2 with
          | zero =>
            rw [List.getElem?_cons_zero] at hk2
            cases hk2
            exact Or.inr (Or.inl (List.mem_append.mpr (Or.inr hin)))
          | succ k2 =>
            rw [List.getElem?_cons_succ] at hk2
            exact Or.inr (Or.inr ⟨k2, sg2, by omega, hk2, hin⟩)

theorem setEq_iff (a b : List Name) : setEq a b = true ↔ ∀ x, x ∈ a ↔ x ∈ b := by
  unfold setEq
  rw [Bool.and_eq_true, List.all_eq_true, List.all_eq_true]
  simp only [List.contains_iff_mem]
  exact ⟨fun h x => ⟨h.1 x, h.2 x⟩, fun h => ⟨fun x => (h x).1, fun x => (h x).2⟩⟩

/-- the per-supergate check, clause by clause -/
theorem sgOK_iff (c2 : Circuit) (hwf : WF c2) (sg : Circuit) :
    sgOK c2 sg = true ↔
      sg.outputs.length = 1 ∧
      (∀ n ∈ internal sg, c2.has n = true ∧ sg.ty? n = c2.ty? n ∧ (∀ x, x ∈ sg.fanin n ↔ x ∈ c2.fanin n)) ∧
      (∀ i ∈ sg.inputs, c2.has i = true) ∧
      (∀ (i j : Nat) (a b : Name), sg.inputs[i]? = some a → sg.inputs[j]? = some b → i ≠ j →
        ∀ x, ¬ ((x = a ∨ Reach1 c2 x a) ∧ (x = b ∨ Reach1 c2 x b))) := by
  unfold sgOK
  rw [Bool.and_eq_true, Bool.and_eq_true, Bool.and_eq_true, beq_iff_eq, List.all_eq_true, List.all_eq_true,
    allPairs_iff _ (fun a b => disjointL_symm _ _), and_assoc, and_assoc]
  refine and_congr Iff.rfl (and_congr ?_ (and_congr Iff.rfl ?_))
  · refine forall_congr' fun n => forall_congr' fun _ => ?_
    rw [Bool.and_eq_true, Bool.and_eq_true, beq_iff_eq, setEq_iff, and_assoc]
  · refine forall_congr' fun i => forall_congr' fun j => forall_congr' fun a => forall_congr' fun b =>
      forall_congr' fun _ => forall_congr' fun _ => forall_congr' fun _ => ?_
    rw [disjointL_iff]
    simp only [mem_closedAnc c2 hwf]

theorem coverOK_iff (c2 : Circuit) (hwf : WF c2) (sgs : List Circuit) :
    coverOK c2 sgs = true ↔
      ∀ o ∈ c2.outputs, ∀ n, (n = o ∨ Reach1 c2 n o) → c2.ty? n ≠ some "input" → ∃ sg ∈ sgs, n ∈ internal sg := by
  unfold coverOK
  simp only
  rw [List.all_eq_true]
  simp only [List.mem_filter, Q.mem_dedup, List.mem_flatMap, mem_closedAnc c2 hwf, List.any_eq_true,
    List.contains_iff_mem, bne_iff_ne, ne_eq]
  constructor
  · intro h o ho n hn hty
    exact h n ⟨⟨o, ho, hn⟩, hty⟩
  · rintro h n ⟨⟨o, ho, hn⟩, hty⟩
    exact h o ho n hn hty

end SG
end CG
