/- C15 (character level) helper: the reader on a canonical netlist whose lines come in any order -/
import CG.Proofs.BenchTextLayout
set_option linter.unusedSimpArgs false
set_option linter.unusedVariables false
namespace CG
namespace BenchText
open Regex Bench

/-- a permutation of a mapped list is the map of a permutation -/
theorem perm_map_inv {α β : Type} (f : α → β) {l : List β} {m : List β} (h : l.Perm m) :
    ∀ l' : List α, m = l'.map f → ∃ l'' : List α, l''.Perm l' ∧ l = l''.map f := by
  induction h with
  | nil =>
    intro l' e
    refine ⟨l', List.Perm.refl _, e⟩
  | cons x h ih =>
    intro l' e
    cases l' with
    | nil => cases e
    | cons y l0 =>
      simp only [List.map_cons, List.cons.injEq] at e
      obtain ⟨l'', hp, rfl⟩ := ih l0 e.2
      exact ⟨y :: l'', hp.cons y, by rw [e.1]; rfl⟩
  | swap x y l =>
    intro l' e
    cases l' with
    | nil => cases e
    | cons b1 l1 =>
      cases l1 with
      | nil => simp at e
      | cons b2 l0 =>
        simp only [List.map_cons, List.cons.injEq] at e
        refine ⟨b2 :: b1 :: l0, List.Perm.swap _ _ _, ?_⟩
        simp only [List.map_cons]
        rw [e.1, e.2.1, e.2.2]
  | trans h1 h2 ih1 ih2 =>
    intro l' e
    obtain ⟨l2, hp2, e2⟩ := ih2 l' e
    obtain ⟨l1, hp1, e1⟩ := ih1 l2 e2
    exact ⟨l1, hp1.trans hp2, e1⟩

def getIn : Stmt → Option Name | .input n => some n | _ => none
def getOut : Stmt → Option Name | .output n => some n | _ => none
def getGate : Stmt → Option (Name × String × List Name) | .gate n t is => some (n, t, is) | _ => none
def getDff : Stmt → Option (Name × Name) | .dff q d => some (q, d) | _ => none

theorem filterMap_map_some {α β : Type} (f : β → Option α) (g : α → β) (h : ∀ x, f (g x) = some x) (l : List α) :
    (l.map g).filterMap f = l := by
  induction l with
  | nil => rfl
  | cons x l ih => rw [List.map_cons, List.filterMap_cons_some (h x), ih]

theorem filterMap_map_none {α β γ : Type} (f : β → Option γ) (g : α → β) (h : ∀ x, f (g x) = none) (l : List α) :
    (l.map g).filterMap f = [] := by
  induction l with
  | nil => rfl
  | cons x l ih => rw [List.map_cons, List.filterMap_cons_none (h x), ih]

/-- the statements of a netlist, one per line -/
def canonStmts (ins : List Name) (gates : List (Name × String × List Name)) (dffs : List (Name × Name))
    (outs : List Name) : List Stmt :=
  ins.map Stmt.input ++ outs.map Stmt.output ++ gates.map (fun g => Stmt.gate g.1 g.2.1 g.2.2) ++
    dffs.map (fun d => Stmt.dff d.1 d.2)

theorem canon_filter (ins : List Name) (gates : List (Name × String × List Name)) (dffs : List (Name × Name))
    (outs : List Name) :
    (canonStmts ins gates dffs outs).filterMap getIn = ins ∧ (canonStmts ins gates dffs outs).filterMap getGate = gates ∧
    (canonStmts ins gates dffs outs).filterMap getDff = dffs ∧ (canonStmts ins gates dffs outs).filterMap getOut = outs := by
  unfold canonStmts
  simp only [List.filterMap_append]
  refine ⟨?_, ?_, ?_, ?_⟩
  · rw [filterMap_map_some getIn _ (fun _ => rfl), filterMap_map_none getIn _ (fun _ => rfl),
      filterMap_map_none getIn _ (fun _ => rfl), filterMap_map_none getIn _ (fun _ => rfl)]
    simp
  · rw [filterMap_map_none getGate _ (fun _ => rfl), filterMap_map_none getGate _ (fun _ => rfl),
      filterMap_map_some getGate _ (fun _ => rfl), filterMap_map_none getGate _ (fun _ => rfl)]
    simp
  · rw [filterMap_map_none getDff _ (fun _ => rfl), filterMap_map_none getDff _ (fun _ => rfl),
      filterMap_map_none getDff _ (fun _ => rfl), filterMap_map_some getDff _ (fun _ => rfl)]
    simp
  · rw [filterMap_map_none getOut _ (fun _ => rfl), filterMap_map_some getOut _ (fun _ => rfl),
      filterMap_map_none getOut _ (fun _ => rfl), filterMap_map_none getOut _ (fun _ => rfl)]
    simp

theorem collect_eq (L : List Stmt) :
    collect L = (L.filterMap getIn).map Stmt.input ++ (L.filterMap getGate).map (fun g => Stmt.gate g.1 g.2.1 g.2.2) ++
      (L.filterMap getDff).map (fun d => Stmt.dffNet d.1) ++ (L.filterMap getDff).map (fun d => Stmt.dff d.1 d.2) ++
      (L.filterMap getOut).map Stmt.output := by
  unfold collect
  rw [filterMap_map' getIn Stmt.input selIn L (by intro s _; cases s <;> rfl),
    filterMap_map' getGate (fun g => Stmt.gate g.1 g.2.1 g.2.2) selGate L (by intro s _; cases s <;> rfl),
    filterMap_map' getDff (fun d => Stmt.dffNet d.1) selDffNet L (by intro s _; cases s <;> rfl),
    filterMap_map' getDff (fun d => Stmt.dff d.1 d.2) selDff L (by intro s _; cases s <;> rfl),
    filterMap_map' getOut Stmt.output selOut L (by intro s _; cases s <;> rfl)]

/-- **the reader on a canonical netlist, lines in any order** -/
theorem parse_canonical_core (ins : List Name) (gates : List (Name × String × List Name)) (dffs : List (Name × Name))
    (outs : List Name)
    (hnm : ∀ n, (n ∈ ins ∨ n ∈ gates.map (·.1) ∨ n ∈ dffs.map (·.1)) → NameOK n)
    (hty : ∀ g ∈ gates, g.2.1 ∈ gTys) (har : ∀ g ∈ gates, g.2.2 ≠ [])
    (huses : ∀ g ∈ gates, ∀ x ∈ g.2.2, x ∈ ins ∨ x ∈ gates.map (·.1) ∨ x ∈ dffs.map (·.1))
    (hdu : ∀ d ∈ dffs, d.2 ∈ ins ∨ d.2 ∈ gates.map (·.1) ∨ d.2 ∈ dffs.map (·.1))
    (hou : ∀ o ∈ outs, o ∈ ins ∨ o ∈ gates.map (·.1) ∨ o ∈ dffs.map (·.1))
    (lines : List String) (hperm : lines.Perm ((canonStmts ins gates dffs outs).map renderStmt)) :
    ∃ (ins' : List Name) (gates' : List (Name × String × List Name)) (dffs' : List (Name × Name))
      (outs' : List Name), ins'.Perm ins ∧ gates'.Perm gates ∧ dffs'.Perm dffs ∧ outs'.Perm outs ∧
      Bench.parse ("\n".intercalate lines) =
        some (ins'.map Stmt.input ++ gates'.map (fun g => Stmt.gate g.1 g.2.1 g.2.2) ++
          dffs'.map (fun d => Stmt.dffNet d.1) ++ dffs'.map (fun d => Stmt.dff d.1 d.2) ++ outs'.map Stmt.output) := by
  obtain ⟨L, hp, rfl⟩ := perm_map_inv renderStmt hperm _ rfl
  obtain ⟨f1, f2, f3, f4⟩ := canon_filter ins gates dffs outs
  refine ⟨L.filterMap getIn, L.filterMap getGate, L.filterMap getDff, L.filterMap getOut,
    by rw [← f1]; exact hp.filterMap _, by rw [← f2]; exact hp.filterMap _, by rw [← f3]; exact hp.filterMap _,
    by rw [← f4]; exact hp.filterMap _, ?_⟩
  rw [← collect_eq]
  have hok : ∀ s ∈ L, StOK s := by
    intro s hs
    have hs' : s ∈ canonStmts ins gates dffs outs := hp.mem_iff.mp hs
    unfold canonStmts at hs'
    simp only [List.mem_append, List.mem_map] at hs'
    rcases hs' with ((⟨i, hi, rfl⟩ | ⟨o, ho, rfl⟩) | ⟨g, hg, rfl⟩) | ⟨d, hd, rfl⟩
    · exact hnm i (Or.inl hi)
    · exact hnm o (hou o ho)
    · exact ⟨hnm g.1 (Or.inr (Or.inl (List.mem_map.mpr ⟨g, hg, rfl⟩))), hty g hg, har g hg,
        fun x hx => hnm x (huses g hg x hx)⟩
    · exact ⟨hnm d.1 (Or.inr (Or.inr (List.mem_map.mpr ⟨d, hd, rfl⟩))), hnm d.2 (hdu d hd)⟩
  by_cases hL : L = []
  · subst hL
    have : collect [] = collect [Stmt.dffNet ""] := rfl
    rw [this]
    exact parse_plain _ [Stmt.dffNet ""] (by simp) (by intro s hs; rw [List.mem_singleton.mp hs]; trivial) rfl
  · apply parse_plain _ L hL hok
    rw [String.toList_intercalate, List.map_map]
    have e2 : ("\n" : String).toList = ['\n'] := rfl
    rw [e2]
    congr 1
    apply List.map_congr_left
    intro s _
    exact render_chars s

end BenchText
end CG
