/- C10 helper: the names created by `ternary` — companions `m_X` / `m_X_<k>` and helper gates
   `base<sfx>` / `base<sfx>_<k>` can never coincide, and the companion map is injective.
   All arguments are on reversed character lists. -/
import CG.Ops
import CG.Proofs.LimitUid
namespace CG
namespace Ternary
open Circuit

/-- reversed character list of a name -/
def rl (s : String) : List Char := s.toList.reverse

theorem rl_append (a b : String) : rl (a ++ b) = rl b ++ rl a := by
  simp [rl, String.toList_append]

theorem rl_inj {a b : String} (h : rl a = rl b) : a = b := by
  unfold rl at h
  exact String.toList_inj.mp (List.reverse_inj.mp h)

def IsDigits (l : List Char) : Prop := ∀ c ∈ l, c.isDigit = true

theorem rl_toString (i : Nat) : IsDigits (rl (toString i)) ∧ rl (toString i) ≠ [] := by
  have h : (toString i).toList = Nat.toDigits 10 i := by rw [Nat.toString_eq_repr, Nat.toList_repr]
  unfold rl IsDigits
  rw [h]
  constructor
  · intro c hc
    exact Nat.isDigit_of_mem_toDigits (by decide) (by decide) (List.mem_reverse.mp hc)
  · intro hnil
    exact Nat.toDigits_ne_nil (List.reverse_eq_nil_iff.mp hnil)

theorem rl_uidName (n : Name) (i : Nat) : rl (uidName n i) = rl (toString i) ++ '_' :: rl n := by
  unfold uidName
  rw [rl_append, rl_append]
  rfl

/-- a digit block followed by an underscore splits uniquely -/
theorem digits_sep : ∀ (ds1 ds2 r1 r2 : List Char), IsDigits ds1 → IsDigits ds2 →
    ds1 ++ '_' :: r1 = ds2 ++ '_' :: r2 → ds1 = ds2 ∧ r1 = r2
  | [], [], _, _, _, _, h => by
    simp only [List.nil_append, List.cons.injEq, true_and] at h
    exact ⟨rfl, h⟩
  | [], d :: ds2, _, _, _, h2, h => by
    simp only [List.nil_append, List.cons_append, List.cons.injEq] at h
    have := h2 d (by simp)
    rw [← h.1] at this
    exact absurd this (by decide)
  | d :: ds1, [], _, _, h1, _, h => by
    simp only [List.nil_append, List.cons_append, List.cons.injEq] at h
    have := h1 d (by simp)
    rw [h.1] at this
    exact absurd this (by decide)
  | d :: ds1, e :: ds2, r1, r2, h1, h2, h => by
    simp only [List.cons_append, List.cons.injEq] at h
    obtain ⟨h3, h4⟩ := digits_sep ds1 ds2 r1 r2 (fun c hc => h1 c (by simp [hc]))
      (fun c hc => h2 c (by simp [hc])) h.2
    exact ⟨by rw [h.1, h3], h4⟩

/-! ### companion and helper name forms -/

def helperSfx : List String := ["_x_in_fi", "_0_not_in_fi", "_1_not_in_fi", "_is_0", "_is_1", "_not_x"]

/-- `x` is `base` or `base_<j>` -/
def UidOf (base x : Name) : Prop := x = base ∨ ∃ j, x = uidName base j

def IsComp (x : Name) : Prop := ∃ m : Name, UidOf (m ++ "_X") x

def IsHelper (x : Name) : Prop := ∃ (base sfx : Name), sfx ∈ helperSfx ∧ UidOf (base ++ sfx) x

theorem sfx_shape {sfx : Name} (h : sfx ∈ helperSfx) :
    ∃ c0 r, rl sfx = c0 :: r ∧ c0 ≠ 'X' ∧
      (c0.isDigit = false ∨ ∃ c2 r', r = '_' :: c2 :: r' ∧ c2 ≠ 'X') := by
  simp only [helperSfx, List.mem_cons, List.not_mem_nil, or_false] at h
  rcases h with rfl | rfl | rfl | rfl | rfl | rfl
  · exact ⟨'i', _, rfl, by decide, Or.inl (by decide)⟩
  · exact ⟨'i', _, rfl, by decide, Or.inl (by decide)⟩
  · exact ⟨'i', _, rfl, by decide, Or.inl (by decide)⟩
  · exact ⟨'0', _, rfl, by decide, Or.inr ⟨'s', _, rfl, by decide⟩⟩
  · exact ⟨'1', _, rfl, by decide, Or.inr ⟨'s', _, rfl, by decide⟩⟩
  · exact ⟨'x', _, rfl, by decide, Or.inl (by decide)⟩

theorem rl_comp (m : Name) : rl (m ++ "_X") = 'X' :: '_' :: rl m := by
  rw [rl_append]; rfl

/-- a companion name is never a helper name -/
theorem comp_not_helper {x : Name} (hc : IsComp x) (hh : IsHelper x) : False := by
  obtain ⟨m, hc⟩ := hc
  obtain ⟨base, sfx, hs, hh⟩ := hh
  obtain ⟨c0, r, hr, hX, hdig⟩ := sfx_shape hs
  have hbase : rl (base ++ sfx) = c0 :: (r ++ rl base) := by rw [rl_append, hr]; rfl
  rcases hc with rfl | ⟨j, rfl⟩
  · rcases hh with hh | ⟨k, hh⟩
    · have := congrArg rl hh
      rw [rl_comp, hbase] at this
      simp only [List.cons.injEq] at this
      exact hX this.1.symm
    · have := congrArg rl hh
      rw [rl_comp, rl_uidName] at this
      obtain ⟨hd, hne⟩ := rl_toString k
      cases hD : rl (toString k) with
      | nil => exact hne hD
      | cons d ds =>
        rw [hD] at this hd
        simp only [List.cons_append, List.cons.injEq] at this
        have hdd := hd d (by simp)
        rw [← this.1] at hdd
        exact absurd hdd (by decide)
  · obtain ⟨hdj, hnej⟩ := rl_toString j
    rcases hh with hh | ⟨k, hh⟩
    · have he := congrArg rl hh
      rw [rl_uidName, rl_comp, hbase] at he
      cases hD : rl (toString j) with
      | nil => exact hnej hD
      | cons d ds =>
        rw [hD] at he hdj
        have hc0 : c0 = d := by
          simp only [List.cons_append, List.cons.injEq] at he
          exact he.1.symm
        have hc0d : c0.isDigit = true := by rw [hc0]; exact hdj d (by simp)
        rcases hdig with hnd | ⟨c2, r', hr', hc2⟩
        · rw [hc0d] at hnd; cases hnd
        · rw [hr'] at he
          have := digits_sep (d :: ds) [c0] _ (c2 :: (r' ++ rl base)) hdj
            (by intro c hc; simp only [List.mem_singleton] at hc; rw [hc]; exact hc0d)
            (by simpa using he)
          simp only [List.cons.injEq] at this
          exact hc2 this.2.1.symm
    · obtain ⟨hdk, _⟩ := rl_toString k
      have he := congrArg rl hh
      rw [rl_uidName, rl_uidName, rl_comp, hbase] at he
      have := (digits_sep _ _ _ _ hdj hdk he).2
      simp only [List.cons.injEq] at this
      exact hX this.1.symm

/-- the companion map is injective -/
theorem comp_inj {m m' x : Name} (h1 : UidOf (m ++ "_X") x) (h2 : UidOf (m' ++ "_X") x) : m = m' := by
  rcases h1 with rfl | ⟨j, rfl⟩
  · rcases h2 with h2 | ⟨k, h2⟩
    · have := congrArg rl h2
      rw [rl_comp, rl_comp] at this
      simp only [List.cons.injEq, true_and] at this
      exact rl_inj this
    · have := congrArg rl h2
      rw [rl_comp, rl_uidName] at this
      obtain ⟨hd, hne⟩ := rl_toString k
      cases hD : rl (toString k) with
      | nil => exact absurd hD hne
      | cons d ds =>
        rw [hD] at this hd
        simp only [List.cons_append, List.cons.injEq] at this
        have hdd := hd d (by simp)
        rw [← this.1] at hdd
        exact absurd hdd (by decide)
  · obtain ⟨hdj, hnej⟩ := rl_toString j
    rcases h2 with h2 | ⟨k, h2⟩
    · have := congrArg rl h2
      rw [rl_comp, rl_uidName] at this
      cases hD : rl (toString j) with
      | nil => exact absurd hD hnej
      | cons d ds =>
        rw [hD] at this hdj
        simp only [List.cons_append, List.cons.injEq] at this
        have hdd := hdj d (by simp)
        rw [this.1] at hdd
        exact absurd hdd (by decide)
    · obtain ⟨hdk, _⟩ := rl_toString k
      have he := congrArg rl h2
      rw [rl_uidName, rl_uidName, rl_comp, rl_comp] at he
      have := (digits_sep _ _ _ _ hdj hdk he).2
      simp only [List.cons.injEq, true_and] at this
      exact rl_inj this

theorem uidOf_of_uid {c : Circuit} {base r : Name} (h : c.uid base = some r) : UidOf base r :=
  (Limit.uid_spec c base r h).2

end Ternary
end CG
