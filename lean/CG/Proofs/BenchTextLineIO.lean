/- C15 (character level) helper: where the INPUT/OUTPUT patterns can match inside a line `H K ( A )` -/
import CG.Proofs.BenchTextList
set_option linter.unusedSimpArgs false
set_option linter.unusedVariables false
namespace CG
namespace BenchText
open Regex

section
variable (ctx : Ctx) {K0 k0 : List Char}

/-- the pattern needs a first character, a letter -/
theorem io_nil (hK : K0 ≠ []) (hk : k0 ≠ []) {s' : List Char} {c' : Caps} : ¬ Den ctx (rxIO K0 k0) [] [] s' c' := by
  rw [den_rxIO]
  rintro ⟨kw, w1, w2, x, idr, w3, hkw, _, _, _, _, _, e, _⟩
  have : kw = [] := by
    cases kw with
    | nil => rfl
    | cons y kw => simp at e
  rcases hkw with rfl | rfl
  · exact hK this
  · exact hk this

theorem io_first (hK : AllLetter K0) (hk : AllLetter k0) (hK0 : K0 ≠ []) (hk0 : k0 ≠ []) {c : Char} (hc : ¬ isLetter c)
    {r s' : List Char} {c' : Caps} : ¬ Den ctx (rxIO K0 k0) (c :: r) [] s' c' := by
  rw [den_rxIO]
  rintro ⟨kw, w1, w2, x, idr, w3, hkw, _, _, _, _, _, e, _⟩
  have hl : AllLetter kw ∧ kw ≠ [] := by rcases hkw with rfl | rfl <;> exact ⟨‹_›, ‹_›⟩
  cases kw with
  | nil => exact hl.2 rfl
  | cons y kw =>
    simp only [List.cons_append, List.cons.injEq] at e
    exact hc (by rw [e.1]; exact hl.1 y (by simp))

/-- alignment at the opening parenthesis -/
theorem io_head (hK : AllLetter K0) (hk : AllLetter k0) {H' Y s' : List Char} {c' : Caps} (hH : '(' ∉ H')
    (h : Den ctx (rxIO K0 k0) (H' ++ '(' :: Y) [] s' c') :
    ∃ kw w1 w2 x idr w3, (kw = K0 ∨ kw = k0) ∧ AllWs w1 ∧ AllWs w2 ∧ AllWs w3 ∧ idS.mem x = true ∧ AllIdC idr ∧
      H' = kw ++ w1 ∧ Y = w2 ++ x :: (idr ++ (w3 ++ ')' :: s')) ∧
      c' = [(1, ctx.s.size - (x :: (idr ++ (w3 ++ ')' :: s'))).length, ctx.s.size - (w3 ++ ')' :: s').length)] := by
  rw [den_rxIO] at h
  obtain ⟨kw, w1, w2, x, idr, w3, hkw, hw1, hw2, hw3, hx, hidr, e, hc⟩ := h
  have hl : AllLetter kw := by rcases hkw with rfl | rfl <;> assumption
  rw [← List.append_assoc] at e
  have hno : '(' ∉ kw ++ w1 := by
    intro hm
    rcases List.mem_append.mp hm with hm | hm
    · exact absurd (hl _ hm) (by decide)
    · exact (ws_ne (hw1 _ hm)).1 rfl
  obtain ⟨e1, _, e2⟩ := split_first e hno hH
  exact ⟨kw, w1, w2, x, idr, w3, hkw, hw1, hw2, hw3, hx, hidr, e1, e2, hc⟩

/-- after the opening parenthesis of a line the pattern cannot match -/
theorem io_fail_tail (hK : AllLetter K0) (hk : AllLetter k0) {B rest s' : List Char} {c' : Caps} (hB : '(' ∉ B) :
    ¬ Den ctx (rxIO K0 k0) (B ++ ')' :: rest) [] s' c' := by
  rw [den_rxIO]
  rintro ⟨kw, w1, w2, x, idr, w3, hkw, hw1, hw2, hw3, hx, hidr, e, hc⟩
  have hl : AllLetter kw := by rcases hkw with rfl | rfl <;> assumption
  rw [← List.append_assoc] at e
  have hno : ')' ∉ kw ++ w1 := by
    intro hm
    rcases List.mem_append.mp hm with hm | hm
    · exact absurd (hl _ hm) (by decide)
    · exact (ws_ne (hw1 _ hm)).2.1 rfl
  obtain ⟨_, e1, _⟩ := split_first e hno hB
  exact absurd e1 (by decide)

/-- inside the header `H0 ++ K'` of a line (`H0` empty or ending in a blank): the keyword of the pattern is a suffix
    of the keyword of the line -/
theorem io_header (hK : AllLetter K0) (hk : AllLetter k0) {H0 K' u H' Y s' : List Char} {c' : Caps}
    (hH0 : H0 = [] ∨ ∃ Z, H0 = Z ++ [' ']) (hK' : AllLetter K') (hK'0 : K' ≠ []) (hu : u ++ H' = H0 ++ K')
    (hH : '(' ∉ H') (h : Den ctx (rxIO K0 k0) (H' ++ '(' :: Y) [] s' c') :
    (K0 <:+ K' ∨ k0 <:+ K') := by
  obtain ⟨kw, w1, w2, x, idr, w3, hkw, hw1, hw2, hw3, hx, hidr, e1, e2, hc⟩ := io_head ctx hK hk hH h
  have hl : AllLetter kw := by rcases hkw with rfl | rfl <;> assumption
  have hw1nil : w1 = [] := by
    rw [e1, ← List.append_assoc] at hu
    rcases suf_append hu with ⟨X', _, e⟩ | ⟨u', e⟩
    · obtain ⟨y, K'', rfl⟩ := List.exists_cons_of_ne_nil hK'0
      have hy : y ∈ w1 := by rw [e]; simp
      exact absurd (hw1 y hy) (fun hh => not_ws_of_idC (idC_of_letter (hK' y (by simp))) hh)
    · apply eq_nil_of_forall
      intro z hz
      exact not_ws_of_idC (idC_of_letter (hK' z (mem_of_suf e hz))) (hw1 z hz)
  rw [hw1nil, List.append_nil] at e1
  rw [e1] at hu
  have key : kw <:+ K' := by
    rcases suf_append hu with ⟨X', ⟨u', hX⟩, e⟩ | ⟨u', e⟩
    · have hX'nil : X' = [] := by
        rcases hH0 with rfl | ⟨Z, rfl⟩
        · exact (List.append_eq_nil_iff.mp hX).2
        · by_cases hne : X' = []
          · exact hne
          · obtain ⟨B, eB, _⟩ := suf_snoc hX hne
            have : ' ' ∈ kw := by rw [e, eB]; simp
            exact absurd (hl _ this) (by decide)
      rw [hX'nil, List.nil_append] at e
      rw [e]; exact List.suffix_refl _
    · exact ⟨u', e⟩
  rcases hkw with rfl | rfl
  · exact Or.inl key
  · exact Or.inr key

/-- at the start of a line `K0(n)` the pattern matches exactly the line and captures the name -/
theorem io_success (hK : AllLetter K0) (hk : AllLetter k0) (hK0 : K0 ≠ []) {n rest s' : List Char} {c' : Caps}
    (hn : IdentL n) :
    Den ctx (rxIO K0 k0) (K0 ++ '(' :: (n ++ ')' :: rest)) [] s' c' ↔
      s' = rest ∧ c' = [(1, ctx.s.size - (n ++ ')' :: rest).length, ctx.s.size - (')' :: rest).length)] := by
  constructor
  · intro h
    have hno : '(' ∉ K0 := fun hm => absurd (hK _ hm) (by decide)
    obtain ⟨kw, w1, w2, x, idr, w3, hkw, hw1, hw2, hw3, hx, hidr, e1, e2, hc⟩ := io_head ctx hK hk hno h
    have hidn := hn.all
    have hn1 : ')' ∉ n := hidn.not_mem (by decide)
    have e2' : n ++ ')' :: rest = (w2 ++ x :: (idr ++ w3)) ++ ')' :: s' := by
      rw [e2]; simp only [List.append_assoc, List.cons_append]
    have hn2 : ')' ∉ w2 ++ x :: (idr ++ w3) := by
      intro hm
      simp only [List.mem_append, List.mem_cons] at hm
      rcases hm with hm | hm | hm | hm
      · exact (ws_ne (hw2 _ hm)).2.1 rfl
      · rw [← hm] at hx; exact absurd hx (by decide)
      · exact (idC_ne (hidr _ hm)).2.1 rfl
      · exact (ws_ne (hw3 _ hm)).2.1 rfl
    obtain ⟨e3, _, e4⟩ := split_first e2' hn2 hn1
    have hw2nil : w2 = [] := by
      apply eq_nil_of_forall
      intro z hz
      exact not_ws_of_idC (hidn z (by rw [e3]; simp [hz])) (hw2 z hz)
    have hw3nil : w3 = [] := by
      apply eq_nil_of_forall
      intro z hz
      exact not_ws_of_idC (hidn z (by rw [e3]; simp [hz])) (hw3 z hz)
    subst hw2nil hw3nil
    simp only [List.nil_append, List.append_nil] at e3 hc
    refine ⟨e4.symm, ?_⟩
    rw [hc, e3, e4]
    simp
  · rintro ⟨rfl, rfl⟩
    obtain ⟨x, r, rfl, hx, hr⟩ := hn
    rw [den_rxIO]
    refine ⟨K0, [], [], x, r, [], Or.inl rfl, by simp [AllWs], by simp [AllWs], by simp [AllWs], hx, hr, by simp, by simp⟩
end

end BenchText
end CG
