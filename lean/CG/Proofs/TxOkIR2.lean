/- C05 (`insert_registers_ok`) helpers: `add_blackbox(ff, inst, {d: n, q: r, clk: clk})` succeeds -/
import CG.Proofs.TxOkIR1
set_option linter.unusedSimpArgs false
set_option linter.unusedVariables false
namespace CG
namespace TxOk
open Circuit InsReg

/-- the pin nodes are created one after the other -/
theorem pins_ok (inst : Name) (t : String) (hsup : T.supported.contains t = true) (hinst : Limit.NameOK inst) :
    ∀ (ps : List Name) (c : Circuit), ps.Nodup → (∀ p ∈ ps, c.has (inst ++ "." ++ p) = false) →
      ∃ c', addBlackbox.pins inst c t ps = (c', .ok)
  | [], c, _, _ => ⟨c, by rw [addBlackbox.pins]⟩
  | p :: ps, c, hnd, hf => by
    have hn := List.nodup_cons.1 hnd
    rw [addBlackbox.pins, pin_add_ok c _ t (hf p List.mem_cons_self) ((hinst.append ".").append p) hsup]
    simp only []
    apply pins_ok inst t hsup hinst ps _ hn.2
    intro p' hp'
    rw [addNodeAttr_has, hf p' (List.mem_cons_of_mem _ hp')]
    have : p' ≠ p := fun e => hn.1 (e ▸ hp')
    have h2 : inst ++ "." ++ p' ≠ inst ++ "." ++ p := fun e => this ((String.append_right_inj _).1 e)
    simpa using h2

theorem go_ok {inst n r : Name} {c c3 c4 c' : Circuit}
    (h3 : c.connect [n] [inst ++ "." ++ "d"] = (c3, .ok)) (h4 : c3.connect [inst ++ "." ++ "q"] [r] = (c4, .ok))
    (h5 : c4.connect ["clk"] [inst ++ "." ++ "clk"] = (c', .ok)) :
    addBlackbox.go ffBox inst c [("d", [n]), ("q", [r]), ("clk", ["clk"])] = (c', .ok) := by
  have e1 : ffBox.ins.contains "d" = true := by decide
  have e2 : ffBox.ins.contains "q" = false := by decide
  have e3 : ffBox.outs.contains "q" = true := by decide
  have e4 : ffBox.ins.contains "clk" = true := by decide
  rw [addBlackbox.go, if_pos e1, h3]
  simp only []
  rw [addBlackbox.go, e2, if_neg (by decide), if_pos e3, h4]
  simp only []
  rw [addBlackbox.go, if_pos e4, h5]
  simp only []
  rw [addBlackbox.go]

/-- in a closed graph a node that does not exist has neither fan-in nor fan-out -/
theorem fanin_nil_of_fresh {c : Circuit} (hcl : ∀ e ∈ c.edges, c.has e.1 = true ∧ c.has e.2 = true) {x : Name}
    (hx : c.has x = false) : c.fanin x = [] := by
  apply Ternary.fanin_nil_of
  intro e he h
  have := (hcl e he).2
  rw [h, hx] at this; cases this

theorem fanout_nil_of {c : Circuit} {x : Name} (h : ∀ e ∈ c.edges, e.1 ≠ x) : c.fanout x = [] := by
  unfold Circuit.fanout
  rw [List.map_eq_nil_iff, List.filter_eq_nil_iff]
  intro e he
  simpa using h e he

/-- **`add_blackbox` of the default flop succeeds** on a well-formed circuit when the instance and its pins are new, the
    d source and the clock are typed nodes other than blackbox pins and the q target is an undriven buf -/
theorem addBlackbox_ok {c : Circuit} {inst n r : Name} {ord : Ord} (hord : OrdOK ord) (hwf : WF c)
    (hinst : Limit.NameOK inst) (hl : c.bbs.lookup inst = none)
    (fd : c.has (inst ++ ".d") = false) (fq : c.has (inst ++ ".q") = false) (fk : c.has (inst ++ ".clk") = false)
    {tn tk : String} (hn : c.ty? n = some tn) (hn1 : tn ≠ "bb_input") (hn2 : tn ≠ "bb_output")
    (hk : c.ty? "clk" = some tk) (hk1 : tk ≠ "bb_input") (hk2 : tk ≠ "bb_output")
    (hr : c.ty? r = some "buf") (hrfi : c.fanin r = []) :
    ∃ c', c.addBlackbox ffBox inst [("d", [n]), ("q", [r]), ("clk", ["clk"])] ord = (c', .ok) := by
  have hfresh : ∀ p ∈ ["clk", "d", "q"], c.has (inst ++ "." ++ p) = false := by
    intro p hp
    simp only [List.mem_cons, List.not_mem_nil, or_false] at hp
    rcases hp with rfl | rfl | rfl
    · rw [pin_k]; exact fk
    · rw [pin_d]; exact fd
    · rw [pin_q]; exact fq
  unfold addBlackbox
  have hl' : ¬ (c.bbs.lookup inst).isSome = true := by rw [hl]; simp
  rw [if_neg hl']
  obtain ⟨c1, hp1⟩ := pins_ok inst "bb_input" sup_bbin hinst (ord ffBox.ins) c
    ((hord _).nodup_iff.2 (by decide)) (by
      intro p hp
      have : p ∈ ffBox.ins := (hord _).mem_iff.1 hp
      apply hfresh
      simp only [ffBox, List.mem_cons, List.not_mem_nil, or_false] at this ⊢
      rcases this with rfl | rfl <;> simp)
  obtain ⟨a1, a2, a3, a4, a5⟩ := pins_inv inst "bb_input" _ c c1 hp1
  have hc1has : ∀ m, c1.has m = true ↔ (c.has m = true ∨ m = inst ++ ".clk" ∨ m = inst ++ ".d") := by
    intro m
    rw [has_iff_mem, has_iff_mem]
    have e : c1.nodeNames = c.nodeNames ++ (ord ffBox.ins).map (fun p => inst ++ "." ++ p) := by
      unfold nodeNames
      rw [a1, List.map_append, List.map_map]
      rfl
    rw [e, List.mem_append, List.mem_map]
    constructor
    · rintro (h | ⟨p, hp, rfl⟩)
      · exact Or.inl h
      · have : p ∈ ffBox.ins := (hord _).mem_iff.1 hp
        simp only [ffBox, List.mem_cons, List.not_mem_nil, or_false] at this
        rcases this with rfl | rfl
        · exact Or.inr (Or.inl (pin_k inst))
        · exact Or.inr (Or.inr (pin_d inst))
    · rintro (h | rfl | rfl)
      · exact Or.inl h
      · exact Or.inr ⟨"clk", (hord _).mem_iff.2 (by decide), (pin_k inst)⟩
      · exact Or.inr ⟨"d", (hord _).mem_iff.2 (by decide), (pin_d inst)⟩
  rw [hp1]
  simp only []
  have ho : ord ffBox.outs = ["q"] := List.perm_singleton.mp (hord _)
  obtain ⟨c2, hp2⟩ := pins_ok inst "bb_output" sup_bbout hinst (ord ffBox.outs) c1
    ((hord _).nodup_iff.2 (by decide)) (by
      intro p hp
      rw [ho, List.mem_singleton] at hp
      subst hp
      cases hh : c1.has (inst ++ "." ++ "q") with
      | false => rfl
      | true =>
        exfalso
        rw [pin_q] at hh
        rcases (hc1has _).1 hh with h | h | h
        · rw [fq] at h; cases h
        · exact pin_qk inst h
        · exact pin_dq inst h.symm)
  obtain ⟨b1, b2, b3, b4, b5⟩ := pins_inv inst "bb_output" _ c1 c2 hp2
  rw [hp2]
  simp only []
  rw [ho] at b1
  -- the circuit after the pins and the registry entry
  have hnd2 : c2.nodeNames.Nodup := b5 (a5 hwf.nodup)
  have hmem2 : ∀ p, p ∈ c2.nodes ↔ p ∈ c.nodes ∨ p ∈ (ord ffBox.ins).map (fun p => (inst ++ "." ++ p, pinA "bb_input")) ∨
      p = (inst ++ ".q", pinA "bb_output") := by
    intro p
    rw [b1, a1]
    simp only [List.map_cons, List.map_nil, List.mem_append, List.mem_singleton, pin_q, or_assoc]
  have hattr : ∀ {m : Name} {a : Attr}, (m, a) ∈ c2.nodes → (c2.setBB inst ffBox).attr? m = some a := by
    intro m a h
    rw [attr?_congr (setBB_nodes c2 inst ffBox)]
    exact attr?_of_mem hnd2 h
  have hold : ∀ {m : Name} {t : String}, c.ty? m = some t → (c2.setBB inst ffBox).ty? m = some t := by
    intro m t h
    obtain ⟨a, ha⟩ := Limit.attr_of_has (has_of_ty? h)
    have := hattr ((hmem2 _).2 (Or.inl (attr?_mem ha)))
    unfold Circuit.ty? at h ⊢
    rw [this]
    rw [ha] at h
    exact h
  have hpin_in : ∀ p ∈ ffBox.ins, (c2.setBB inst ffBox).ty? (inst ++ "." ++ p) = some "bb_input" := by
    intro p hp
    have := hattr ((hmem2 (inst ++ "." ++ p, pinA "bb_input")).2
      (Or.inr (Or.inl (List.mem_map.2 ⟨p, (hord _).mem_iff.2 hp, rfl⟩))))
    unfold Circuit.ty?
    rw [this]; rfl
  have hpin_q : (c2.setBB inst ffBox).ty? (inst ++ "." ++ "q") = some "bb_output" := by
    have := hattr ((hmem2 (inst ++ ".q", pinA "bb_output")).2 (Or.inr (Or.inr rfl)))
    unfold Circuit.ty?
    rw [pin_q, this]; rfl
  have hedges : (c2.setBB inst ffBox).edges = c.edges := by rw [setBB_edges, b2, a2]
  have hnoedge : ∀ p ∈ ["clk", "d", "q"], ∀ e ∈ c.edges, e.1 ≠ inst ++ "." ++ p ∧ e.2 ≠ inst ++ "." ++ p := by
    intro p hp e he
    have hf := hfresh p hp
    obtain ⟨h1, h2⟩ := hwf.closed e he
    constructor
    · intro h; rw [h, hf] at h1; cases h1
    · intro h; rw [h, hf] at h2; cases h2
  -- first connect: n -> inst.d
  obtain ⟨c3, h3, s3⟩ := Ternary.connect_ok (c2.setBB inst ffBox) [n] [inst ++ "." ++ "d"] (Or.inr (Or.inr (by
    refine connectCheck_plain _ n _ tn "bb_input" (hold hn) (hpin_in "d" (by decide)) hn1 hn2 (by decide) ?_
    apply Ternary.fanin_nil_of
    intro e he
    rw [hedges] at he
    exact (hnoedge "d" (by decide) e he).2)))
  have hn3 : ∀ m, c3.ty? m = (c2.setBB inst ffBox).ty? m := ty?_congr s3.nodes
  have he3 : ∀ e, e ∈ c3.edges ↔ e ∈ c.edges ∨ e = (n, inst ++ "." ++ "d") := by
    intro e
    rw [s3.edges, hedges]
    obtain ⟨x, y⟩ := e
    simp only [List.mem_singleton, Prod.mk.injEq]
  have hrd : r ≠ inst ++ "." ++ "d" := by
    intro h
    have := has_of_ty? hr
    rw [h, hfresh "d" (by decide)] at this; cases this
  have hrq : r ≠ inst ++ "." ++ "q" := by
    intro h
    have := has_of_ty? hr
    rw [h, hfresh "q" (by decide)] at this; cases this
  have hnq : n ≠ inst ++ "." ++ "q" := by
    intro h
    have := has_of_ty? hn
    rw [h, hfresh "q" (by decide)] at this; cases this
  -- second connect: inst.q -> r
  obtain ⟨c4, h4, s4⟩ := Ternary.connect_ok c3 [inst ++ "." ++ "q"] [r] (Or.inr (Or.inr (by
    refine connectCheck_bbout _ _ r (by rw [hn3]; exact hpin_q) (by rw [hn3]; exact hold hr) ?_ ?_
    · apply fanout_nil_of
      intro e he
      rcases (he3 e).1 he with h | h
      · exact (hnoedge "q" (by decide) e h).1
      · rw [h]; exact hnq
    · apply Ternary.fanin_nil_of
      intro e he
      rcases (he3 e).1 he with h | h
      · intro h2
        have : e.1 ∈ c.fanin r := by rw [mem_fanin, ← h2]; exact h
        rw [hrfi] at this; cases this
      · rw [h]; exact fun h2 => hrd h2.symm)))
  have hn4 : ∀ m, c4.ty? m = (c2.setBB inst ffBox).ty? m := fun m => by rw [ty?_congr s4.nodes, hn3]
  have he4 : ∀ e, e ∈ c4.edges ↔ e ∈ c.edges ∨ e = (n, inst ++ "." ++ "d") ∨ e = (inst ++ "." ++ "q", r) := by
    intro e
    rw [s4.edges, he3, or_assoc]
    obtain ⟨x, y⟩ := e
    simp only [List.mem_singleton, Prod.mk.injEq]
  have hdk : inst ++ "." ++ "d" ≠ inst ++ "." ++ "clk" := by rw [pin_d, pin_k]; exact pin_dk inst
  have hrk : r ≠ inst ++ "." ++ "clk" := by
    intro h
    have := has_of_ty? hr
    rw [h, hfresh "clk" (by decide)] at this; cases this
  -- third connect: clk -> inst.clk
  obtain ⟨c5, h5, s5⟩ := Ternary.connect_ok c4 ["clk"] [inst ++ "." ++ "clk"] (Or.inr (Or.inr (by
    refine connectCheck_plain _ "clk" _ tk "bb_input" (by rw [hn4]; exact hold hk)
      (by rw [hn4]; exact hpin_in "clk" (by decide)) hk1 hk2 (by decide) ?_
    apply Ternary.fanin_nil_of
    intro e he
    rcases (he4 e).1 he with h | h | h
    · exact (hnoedge "clk" (by decide) e h).2
    · rw [h]; exact hdk
    · rw [h]; exact hrk)))
  exact ⟨c5, go_ok h3 h4 h5⟩

end TxOk
end CG
