/- C15 helper: the invariant of the reader's `add` passes (inputs, gate lines, DFF nets) -/
import CG.Proofs.BenchAdd
import CG.Proofs.BenchP
set_option linter.unusedSimpArgs false
set_option linter.unusedVariables false
namespace CG
namespace BenchP
open Circuit Ternary Bench

/-! ### `add` leaves the blackbox registry alone -/

theorem addPlainBuf_bbs (c : Circuit) (f : Name) : (c.addPlainBuf f).1.bbs = c.bbs := by
  rcases addPlainBuf_cases c f with h | ⟨_, h⟩
  · rw [h]
  · rw [h, addNodeAttr_bbs]

theorem addConnectedNodes_bbs (c : Circuit) (fs : List Name) : (c.addConnectedNodes fs).1.bbs = c.bbs := by
  induction fs generalizing c with
  | nil => rfl
  | cons f fs ih =>
    rw [addConnectedNodes]
    split
    · exact ih c
    · have he := addPlainBuf_bbs c f
      split
      · rename_i c' heq; rw [heq] at he; rw [ih c']; exact he
      · exact he

theorem addR2_bbs (c : Circuit) (a : AddArgs) (n : Name) : (addR2 c a n).1.bbs = c.bbs := by
  unfold addR2
  split
  · rw [addConnectedNodes_bbs, addNodeAttr_bbs]
  · exact addNodeAttr_bbs c n _

theorem addTail3_bbs (c2 : Circuit) (a : AddArgs) (n : Name) : (addTail3 c2 a n).1.bbs = c2.bbs := by
  unfold addTail3
  split
  · exact connect_bbs _ _ _
  · simp only []; rw [connect_bbs, connect_bbs]

theorem addTail_bbs (c : Circuit) (a : AddArgs) (n : Name) : (addTail c a n).1.bbs = c.bbs := by
  rw [addTail_eq]
  split
  · exact addR2_bbs c a n
  · rw [addTail3_bbs]; exact addR2_bbs c a n

theorem add_bbs (c : Circuit) (a : AddArgs) : (c.add a).1.bbs = c.bbs := by
  rcases add_cases c a with ⟨o, m, e, _⟩ | ⟨n, _, _, _, _, _, _, e⟩
  · rw [e]
  · rw [e]; exact addTail_bbs c a n

/-! ### the invariant -/

/-- a net definition: name, type, operands -/
abbrev Def := Name × String × List Name

def names (D : List Def) : List Name := D.map (·.1)

theorem names_append (D E : List Def) : names (D ++ E) = names D ++ names E := by simp [names]

/-- state of the circuit after the definitions `D` were processed: defined nets carry their type, nets that were
    only used are plain `buf`s, the wires are exactly operand → gate -/
structure BInv (c : Circuit) (D : List Def) : Prop where
  nodupN : c.nodeNames.Nodup
  nodupE : c.edges.Nodup
  bbs : c.bbs = []
  has : ∀ x, c.has x = true ↔ (x ∈ names D ∨ ∃ d ∈ D, x ∈ d.2.2)
  attrD : ∀ d ∈ D, c.attr? d.1 = some { ty := some d.2.1, out := some false }
  attrU : ∀ x, c.has x = true → x ∉ names D → c.attr? x = some bufAttr
  edges : ∀ e, e ∈ c.edges ↔ ∃ d ∈ D, e.2 = d.1 ∧ e.1 ∈ d.2.2

theorem BInv.init (nm : String) : BInv ({ name := nm } : Circuit) [] :=
  ⟨List.nodup_nil, List.nodup_nil, rfl, (by intro x; simp [Circuit.has, names]), (by intro d hd; cases hd),
   (by intro x hx; simp [Circuit.has] at hx), (by intro e; simp)⟩

theorem BInv.typed {c : Circuit} {D : List Def} (h : BInv c D) (hD : ∀ d ∈ D, d.2.1 ∈ okTypes) : Typed c := by
  intro x hx
  by_cases hm : x ∈ names D
  · obtain ⟨d, hd, rfl⟩ := List.mem_map.mp hm
    exact ⟨d.2.1, by rw [ty_of_attr (h.attrD d hd)], hD d hd⟩
  · exact ⟨"buf", by rw [ty_of_attr (h.attrU x hx hm)]; rfl, by decide⟩

/-- the invariant after one more successful `add` -/
theorem BInv.step {c c' : Circuit} {D : List Def} {d : Def} {a : AddArgs} (h : BInv c D)
    (hnew : d.1 ∉ names D) (s : AddSpec c a d.1 c') (hb : c'.bbs = c.bbs)
    (hty : a.ty = d.2.1) (hfi : a.fanin = d.2.2) (hfo : a.fanout = []) (hout : a.output = false)
    (hac : a.addConnected = true ∨ a.fanin = []) : BInv c' (D ++ [d]) := by
  have hacx : ∀ x, (a.addConnected = true ∧ x ∈ a.fanin) ↔ x ∈ d.2.2 := by
    intro x
    rw [hfi]
    constructor
    · exact fun h => h.2
    · intro hx
      rcases hac with h1 | h1
      · exact ⟨h1, hx⟩
      · rw [hfi] at h1; rw [h1] at hx; cases hx
  have hne : ∀ d' ∈ D, d'.1 ≠ d.1 := by
    intro d' hd' e
    exact hnew (List.mem_map.mpr ⟨d', hd', e⟩)
  refine ⟨s.nodupN h.nodupN, s.nodupE h.nodupE, by rw [hb, h.bbs], ?_, ?_, ?_, ?_⟩
  · intro x
    rw [s.has, h.has, hacx, names_append]
    simp only [List.mem_append, names, List.map_cons, List.map_nil, List.mem_singleton]
    constructor
    · rintro ((h1 | ⟨d', h1, h2⟩) | h1 | h1)
      · exact Or.inl (Or.inl h1)
      · exact Or.inr ⟨d', Or.inl h1, h2⟩
      · exact Or.inl (Or.inr h1)
      · exact Or.inr ⟨d, Or.inr rfl, h1⟩
    · rintro ((h1 | h1) | ⟨d', h1 | h1, h2⟩)
      · exact Or.inl (Or.inl h1)
      · exact Or.inr (Or.inl h1)
      · exact Or.inl (Or.inr ⟨d', h1, h2⟩)
      · rw [h1] at h2; exact Or.inr (Or.inr h2)
  · intro d' hd'
    rcases List.mem_append.mp hd' with h1 | h1
    · rw [s.attr_old d'.1 (hne d' h1) ((h.has _).mpr (Or.inl (List.mem_map.mpr ⟨d', h1, rfl⟩)))]
      exact h.attrD d' h1
    · rw [List.mem_singleton] at h1
      rw [h1, s.attr_self, hty, hout]
  · intro x hx hm
    rw [names_append, List.mem_append] at hm
    have hxd : x ≠ d.1 := by
      intro e; apply hm; right; simp [names, e]
    by_cases hcx : c.has x = true
    · rw [s.attr_old x hxd hcx]
      exact h.attrU x hcx (fun h1 => hm (Or.inl h1))
    · exact s.attr_new x hxd (by simpa using hcx) hx
  · intro e
    rw [s.edges, h.edges, hfo, hfi]
    simp only [List.not_mem_nil, and_false, false_or, List.mem_append, List.mem_singleton]
    constructor
    · rintro (⟨d', h1, h2⟩ | ⟨h1, h2⟩)
      · exact ⟨d', Or.inl h1, h2⟩
      · exact ⟨d, Or.inr rfl, h2, h1⟩
    · rintro ⟨d', h1 | h1, h2⟩
      · exact Or.inl ⟨d', h1, h2⟩
      · rw [h1] at h2; exact Or.inr ⟨h2.2, h2.1⟩

end BenchP
end CG
