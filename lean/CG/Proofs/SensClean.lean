/- helper lemmas for C11: the sensitivity circuit is `C01.Clean` and, over an acyclic circuit, acyclic -/
import CG.Proofs.SensCount
set_option linter.unusedSimpArgs false
set_option linter.unusedVariables false
namespace CG
namespace Sens
open Circuit Miter Arith

theorem sty_ok {t : String} (h1 : t ∈ Expected.supported_types) (h2 : t ≠ "x") :
    sty t ∈ Expected.supported_types ∧ sty t ≠ "x" := by
  unfold sty
  by_cases h : t = "input"
  · rw [if_pos h]; exact ⟨by decide, by decide⟩
  · rw [if_neg h]; exact ⟨h1, h2⟩

theorem sty_single {t : String} (h : sty t ∈ ["buf", "not", "bb_input"]) :
    t = "input" ∨ (t ≠ "input" ∧ t ∈ singleTypes) := by
  unfold sty at h
  by_cases h0 : t = "input"
  · exact Or.inl h0
  · rw [if_neg h0] at h; exact Or.inr ⟨h0, h⟩

theorem sty_multi {t : String} (h : sty t ∈ ["and", "nand", "or", "nor", "xor", "xnor"]) :
    t ≠ "input" ∧ t ∈ multiTypes := by
  unfold sty at h
  by_cases h0 : t = "input"
  · rw [if_pos h0] at h; exact absurd h (by decide)
  · rw [if_neg h0] at h; exact ⟨h0, h⟩

theorem ok_lit_input : "input" ∈ Expected.supported_types ∧ "input" ≠ "x" := ⟨by decide, by decide⟩
theorem ok_lit_xor : "xor" ∈ Expected.supported_types ∧ "xor" ≠ "x" := ⟨by decide, by decide⟩
theorem ok_lit_buf : "buf" ∈ Expected.supported_types ∧ "buf" ≠ "x" := ⟨by decide, by decide⟩
theorem input_not_single : ¬ "input" ∈ ["buf", "not", "bb_input"] := by decide
theorem xor_not_single : ¬ "xor" ∈ ["buf", "not", "bb_input"] := by decide
theorem input_not_multi : ¬ "input" ∈ ["and", "nand", "or", "nor", "xor", "xnor"] := by decide
theorem buf_not_multi : ¬ "buf" ∈ ["and", "nand", "or", "nor", "xor", "xnor"] := by decide

section clean
variable {cone pcC : Circuit} {sp : List Name} {n : Name} {k m : Nat} {sen : Circuit}

/-- fan-in size of a copied cone node whose (stripped) type is single-input -/
theorem cone_single (H : SenHyp cone pcC sp n k) {α : Type} (f : Name → α) (g : Name → α) {y t : String}
    (hty : cone.ty? y = some t) (hs : sty t ∈ ["buf", "not", "bb_input"]) :
    ((cone.fanin y).map f ++ if y ∈ sp then [g y] else []).length ≤ 1 := by
  rcases sty_single hs with h0 | ⟨h0, h1⟩
  · subst h0
    have hin : y ∈ cone.inputs := (CG.mem_inputs H.lcone.nodup y).2 hty
    rw [noFanin_inputs H.lcone y hin]
    split <;> simp
  · rw [if_neg (not_sp_of_ty H hty h0), List.append_nil, List.length_map, H.lcone.single y t hty h1]
    exact Nat.le_refl 1

theorem cone_multi (H : SenHyp cone pcC sp n k) {α : Type} (f : Name → α) (g : Name → α) {y t : String}
    (hty : cone.ty? y = some t) (hs : sty t ∈ ["and", "nand", "or", "nor", "xor", "xnor"]) :
    1 ≤ ((cone.fanin y).map f ++ if y ∈ sp then [g y] else []).length := by
  obtain ⟨h0, h1⟩ := sty_multi hs
  have := H.lcone.multi y t hty h1
  rw [List.length_append, List.length_map]
  omega

theorem cone_ty_of_names (H : SenHyp cone pcC sp n k) {y : Name} (hy : y ∈ cone.nodeNames) :
    ∃ a t, (y, a) ∈ cone.nodes ∧ a.ty = some t ∧ cone.ty? y = some t ∧ t ∈ Expected.supported_types := by
  obtain ⟨a, ha⟩ := mem_names_exists hy
  obtain ⟨t, ht, hs⟩ := H.lcone.typed _ ha
  exact ⟨a, t, ha, ht, ty?_of_mem H.lcone.nodup ha ht, hs⟩

theorem pc_ty_of_names (H : SenHyp cone pcC sp n k) {y : Name} (hy : y ∈ pcC.nodeNames) :
    ∃ a t, (y, a) ∈ pcC.nodes ∧ a.ty = some t ∧ pcC.ty? y = some t ∧ t ∈ Expected.supported_types := by
  obtain ⟨a, ha⟩ := mem_names_exists hy
  obtain ⟨t, ht, hs⟩ := H.lpc.typed _ ha
  exact ⟨a, t, ha, ht, ty?_of_mem H.lpc.nodup ha ht, hs⟩

theorem sen_clean (H : SenHyp cone pcC sp n k) (V : SV cone pcC sp n k sen) (S : PopSpec sp.length pcC m)
    (hcx : ∀ p ∈ cone.nodes, p.2.ty ≠ some "x") (hpx : ∀ p ∈ pcC.nodes, p.2.ty ≠ some "x") : C01.Clean sen := by
  apply V.clean
  · intro x hx
    rcases (mem_KL cone pcC sp k x).1 hx with ⟨y, hy, rfl⟩ | ⟨s, hs, rfl⟩ | ⟨y, hy, rfl⟩ |
      ⟨q, hq, ⟨y, hy, rfl⟩ | rfl⟩ | ⟨o, ho, rfl⟩
    · obtain ⟨a, t, ha, ht, hty, hsup⟩ := cone_ty_of_names H hy
      show styOf cone y ∈ _ ∧ styOf cone y ≠ "x"
      rw [styOf_ty hty]
      exact sty_ok hsup (fun e => hcx _ ha (by rw [ht, e]))
    · exact ok_lit_input
    · obtain ⟨a, t, ha, ht, hty, hsup⟩ := pc_ty_of_names H hy
      show styOf pcC y ∈ _ ∧ styOf pcC y ≠ "x"
      rw [styOf_ty hty]
      exact sty_ok hsup (fun e => hpx _ ha (by rw [ht, e]))
    · obtain ⟨a, t, ha, ht, hty, hsup⟩ := cone_ty_of_names H hy
      show (if y = q.2 then "not" else styOf cone y) ∈ _ ∧ (if y = q.2 then "not" else styOf cone y) ≠ "x"
      by_cases hy0 : y = q.2
      · rw [if_pos hy0]; exact ⟨by decide, by decide⟩
      · rw [if_neg hy0, styOf_ty hty]
        exact sty_ok hsup (fun e => hcx _ ha (by rw [ht, e]))
    · exact ok_lit_xor
    · exact ok_lit_buf
  · intro x hx hs
    rcases (mem_KL cone pcC sp k x).1 hx with ⟨y, hy, rfl⟩ | ⟨s, hs', rfl⟩ | ⟨y, hy, rfl⟩ |
      ⟨q, hq, ⟨y, hy, rfl⟩ | rfl⟩ | ⟨o, ho, rfl⟩
    · obtain ⟨a, t, ha, ht, hty, hsup⟩ := cone_ty_of_names H hy
      have hs1 : styOf cone y ∈ ["buf", "not", "bb_input"] := hs
      rw [styOf_ty hty] at hs1
      exact cone_single H K.orig K.inp hty hs1
    · exact absurd hs input_not_single
    · obtain ⟨a, t, ha, ht, hty, hsup⟩ := pc_ty_of_names H hy
      have hs1 : styOf pcC y ∈ ["buf", "not", "bb_input"] := hs
      rw [styOf_ty hty] at hs1
      show ((pcC.fanin y).map K.pc ++
        ((idxL sp).filter (fun q => y == "in_" ++ toString q.1)).map (fun q => K.dif q.2)).length ≤ 1
      rcases sty_single hs1 with h0 | ⟨h0, h1⟩
      · subst h0
        have hin : y ∈ pcC.inputs := (CG.mem_inputs H.lpc.nodup y).2 hty
        obtain ⟨i, hi, rfl⟩ := (S.inputs y).1 hin
        rw [noFanin_inputs H.lpc _ hin, idxL_filter H.spnd hi]
        simp
      · rw [pc_filter_nil H hty h0, List.map_nil, List.append_nil, List.length_map, H.lpc.single y t hty h1]
        exact Nat.le_refl 1
    · obtain ⟨a, t, ha, ht, hty, hsup⟩ := cone_ty_of_names H hy
      have hs1 : (if y = q.2 then "not" else styOf cone y) ∈ ["buf", "not", "bb_input"] := hs
      show ((cone.fanin y).map (K.inv q.2) ++ if y ∈ sp then [K.inp y] else []).length ≤ 1
      by_cases hy0 : y = q.2
      · have hsp := mem_idxL_snd hq
        rw [hy0, cone_input_fanin H hsp]
        split <;> simp
      · rw [if_neg hy0, styOf_ty hty] at hs1
        exact cone_single H (K.inv q.2) K.inp hty hs1
    · exact absurd hs xor_not_single
    · simp [kfi]
  · intro x hx hs
    rcases (mem_KL cone pcC sp k x).1 hx with ⟨y, hy, rfl⟩ | ⟨s, hs', rfl⟩ | ⟨y, hy, rfl⟩ |
      ⟨q, hq, ⟨y, hy, rfl⟩ | rfl⟩ | ⟨o, ho, rfl⟩
    · obtain ⟨a, t, ha, ht, hty, hsup⟩ := cone_ty_of_names H hy
      have hs1 : styOf cone y ∈ ["and", "nand", "or", "nor", "xor", "xnor"] := hs
      rw [styOf_ty hty] at hs1
      exact cone_multi H K.orig K.inp hty hs1
    · exact absurd hs input_not_multi
    · obtain ⟨a, t, ha, ht, hty, hsup⟩ := pc_ty_of_names H hy
      have hs1 : styOf pcC y ∈ ["and", "nand", "or", "nor", "xor", "xnor"] := hs
      rw [styOf_ty hty] at hs1
      obtain ⟨h0, h1⟩ := sty_multi hs1
      have := H.lpc.multi y t hty h1
      show 1 ≤ ((pcC.fanin y).map K.pc ++ _).length
      rw [List.length_append, List.length_map]
      omega
    · obtain ⟨a, t, ha, ht, hty, hsup⟩ := cone_ty_of_names H hy
      have hs1 : (if y = q.2 then "not" else styOf cone y) ∈ ["and", "nand", "or", "nor", "xor", "xnor"] := hs
      by_cases hy0 : y = q.2
      · rw [if_pos hy0] at hs1; exact absurd hs1 (by decide)
      · rw [if_neg hy0, styOf_ty hty] at hs1
        exact cone_multi H (K.inv q.2) K.inp hty hs1
    · simp [kfi]
    · exact absurd hs buf_not_multi

def senRank (rC rP : Name → Nat) (RC RP : Nat) : K → Nat
  | .inp _ => 0
  | .orig y => 1 + rC y
  | .inv _ y => 1 + rC y
  | .dif _ => 2 + RC
  | .pc y => 3 + RC + rP y
  | .out _ => 4 + RC + RP

theorem sen_acyclic (H : SenHyp cone pcC sp n k) (V : SV cone pcC sp n k sen) (hcone : Acyclic cone)
    (hpc : Acyclic pcC) : Acyclic sen := by
  obtain ⟨rC, hrC⟩ := hcone
  obtain ⟨rP, hrP⟩ := hpc
  apply V.acyclic (senRank rC rP (cone.nodeNames.map rC).sum (pcC.nodeNames.map rP).sum)
  intro x hx x' hx'
  have hn' : rC n ≤ (cone.nodeNames.map rC).sum := le_sum_map rC cone.nodeNames n (has_names H.hn)
  rcases (mem_KL cone pcC sp k x).1 hx with ⟨y, hy, rfl⟩ | ⟨s, hs', rfl⟩ | ⟨y, hy, rfl⟩ |
    ⟨q, hq, ⟨y, hy, rfl⟩ | rfl⟩ | ⟨o, ho, rfl⟩
  · simp only [kfi, List.mem_append, List.mem_map] at hx'
    rcases hx' with ⟨a, ha, rfl⟩ | hx'
    · have : rC a < rC y := hrC (a, y) (mem_fanin.1 ha)
      simp only [senRank]
      omega
    · split at hx'
      · simp only [List.mem_singleton] at hx'
        subst hx'
        simp only [senRank]
        omega
      · cases hx'
  · cases hx'
  · simp only [kfi, List.mem_append, List.mem_map, List.mem_filter] at hx'
    rcases hx' with ⟨a, ha, rfl⟩ | ⟨q, _, rfl⟩
    · have : rP a < rP y := hrP (a, y) (mem_fanin.1 ha)
      simp only [senRank]
      omega
    · simp only [senRank]
      omega
  · simp only [kfi, List.mem_append, List.mem_map] at hx'
    rcases hx' with ⟨a, ha, rfl⟩ | hx'
    · have : rC a < rC y := hrC (a, y) (mem_fanin.1 ha)
      simp only [senRank]
      omega
    · split at hx'
      · simp only [List.mem_singleton] at hx'
        subst hx'
        simp only [senRank]
        omega
      · cases hx'
  · simp only [kfi, List.mem_cons, List.not_mem_nil, or_false] at hx'
    rcases hx' with rfl | rfl <;> (simp only [senRank]; omega)
  · simp only [kfi, List.mem_singleton] at hx'
    subst hx'
    have := le_sum_map rP pcC.nodeNames _ (has_names (H.pcout o ho))
    simp only [senRank]
    omega

end clean

end Sens
end CG
