/- helper lemmas for C11 (selected endpoints): semantics and completeness of `sensitization_transform(c, n, E)` over
   the induced cone of `E` (the statements of CG/Props/C11.lean with `Inverted` unfolded) -/
import CG.Proofs.SensESteps
set_option linter.unusedSimpArgs false
set_option linter.unusedVariables false
namespace CG
namespace SensE
open Circuit Miter Q Query

section eview
variable {c m sc m0 : Circuit} {n : Name} {E K sp ep : List Name}

theorem EView.hasn (X : EView c n E K m sc m0 sp ep) : sc.has n = true := (X.has n).2 X.hn

theorem EView.sem (X : EView c n E K m sc m0 sp ep) (v : Val) (hv : Consistent m v) :
    Consistent (Tx.inducedSub c K) (fun x => v ("c0_" ++ x)) ∧
    (v ("c1_" ++ n) = !v ("c0_" ++ n) ∧
      (∀ p ∈ (Tx.inducedSub c K).nodes, p.1 ≠ n → ∀ t, p.2.ty = some t →
        NodeOK (Tx.inducedSub c K) (fun x => v ("c1_" ++ x)) p.1 t) ∧
      (∀ s ∈ (Tx.inducedSub c K).inputs, s ≠ n → v ("c1_" ++ s) = v ("c0_" ++ s))) ∧
    (∀ s ∈ (Tx.inducedSub c K).inputs, v ("c0_" ++ s) = v s) ∧
    (v "sat" = true ↔ ∃ e ∈ E, v ("c0_" ++ e) ≠ v ("c1_" ++ e)) := by
  have S := X.sv
  have V := S.mv
  obtain ⟨hce, hn1⟩ := (S.consistent_iff v).1 hv
  have w := X.lint.toWF
  have hinsp : ∀ s ∈ sp, s ∈ sc.inputs := fun s hs => (X.hsp s).1 hs
  have hnf := Miter.noFanin_inputs X.lint
  have t0 : ∀ s ∈ sc.inputs, v ("c0_" ++ s) = v s := by
    intro s hs
    rw [← Miter.pref_c0]
    exact Sens.ce_tie0 V w X.spN ((X.hsp s).2 hs) hs (hnf s hs) v hce
  refine ⟨?_, ⟨?_, ?_, ?_⟩, ?_, ?_⟩
  · rw [← X.eq.consistent X.wcone]
    simpa only [Miter.pref_c0] using Sens.ce_c0 V w X.spN hinsp v hce
  · rw [← Miter.pref_c1, ← Miter.pref_c0]
    exact hn1
  · rw [← X.eq.except X.wcone]
    simpa only [Miter.pref_c1] using Sens.ce_c1 V w X.spN hinsp v hce
  · intro s hs hsn
    have hs' := (X.eq.inputs X.wcone s).2 hs
    rw [t0 s hs', ← Miter.pref_c1]
    exact Sens.ce_tie1 V w X.spN ((X.hsp s).2 hs') hsn hs' (hnf s hs') v hce
  · intro s hs
    exact t0 s ((X.eq.inputs X.wcone s).2 hs)
  · rw [Sens.ce_sat V X.epN X.epne v hce]
    simp only [Miter.pref_c0, Miter.pref_c1]
    constructor
    · rintro ⟨e, he, hd⟩
      exact ⟨e, (X.hep e).1 he, hd⟩
    · rintro ⟨e, he, hd⟩
      exact ⟨e, (X.hep e).2 he, hd⟩

theorem EView.complete (X : EView c n E K m sc m0 sp ep) (v0 w : Val)
    (hv0 : Consistent (Tx.inducedSub c K) v0) (hw1 : w n = !v0 n)
    (hw2 : ∀ p ∈ (Tx.inducedSub c K).nodes, p.1 ≠ n → ∀ t, p.2.ty = some t → NodeOK (Tx.inducedSub c K) w p.1 t)
    (hw3 : ∀ s ∈ (Tx.inducedSub c K).inputs, s ≠ n → w s = v0 s) :
    ∃ v, Consistent m v ∧ (∀ x ∈ K, v ("c0_" ++ x) = v0 x ∧ v ("c1_" ++ x) = w x) ∧
      (∀ s ∈ (Tx.inducedSub c K).inputs, v s = v0 s) := by
  have S := X.sv
  have V := S.mv
  have wf := X.lint.toWF
  have hinsp : ∀ s ∈ sp, s ∈ sc.inputs := fun s hs => (X.hsp s).1 hs
  have hnf := Miter.noFanin_inputs X.lint
  have hep0 : ∀ e ∈ ep, sc.has e = true := by
    intro e he
    exact (X.has e).2 (X.hEK e ((X.hep e).1 he))
  have hv0' : Consistent sc v0 := (X.eq.consistent X.wcone v0).2 hv0
  have hw2' := (X.eq.except X.wcone n w).2 hw2
  refine ⟨Miter.mval sc sc sp ep v0 w, ?_, ?_, ?_⟩
  · rw [S.consistent_iff]
    refine ⟨Sens.ce_complete V wf X.spN X.epN X.epne hinsp hnf hep0 v0 w hv0' hw2' ?_, ?_⟩
    · intro s hs hsn
      exact hw3 s ((X.eq.inputs X.wcone s).1 (hinsp s hs)) hsn
    · rw [V.mval_c1 v0 w X.hasn, V.mval_c0 v0 w X.hasn]
      exact hw1
  · intro x hx
    have hx' := (X.has x).2 hx
    rw [← Miter.pref_c0, ← Miter.pref_c1]
    exact ⟨V.mval_c0 v0 w hx', V.mval_c1 v0 w hx'⟩
  · intro s hs
    exact V.mval_tie v0 w ((X.hsp s).2 ((X.eq.inputs X.wcone s).2 hs))

end eview

end SensE
end CG
