/-
  C09 (sequential_unroll, cycle-accurate semantics): why `CG.C09.SeqGood` has the fields `outsOrdinary` and `noClash`
  and why `sequential_unroll_sem` / `sequential_unroll_complete` carry the hypothesis `hig`.

  For each of the three additions there is a closed sequential circuit that satisfies the ORIGINAL hypotheses
  (`SeqGoodOrig`, the eight original fields of `SeqGood`) and the two other additions, on which `sequential_unroll`
  succeeds, and a consistent valuation of the result that is NOT a run of the circuit in the sense of
  `sequential_unroll_sem`, as well as a run that NO consistent valuation of the result shows
  (`sequential_unroll_complete`):

  * `Pin`  (`outsOrdinary` dropped): the flop's d and clk pins are marked as outputs.  Pins are renamed/removed before `unroll`, so
           the io map has no entry `f.d` and `ioName ioMap "f.d" t` is the empty name, which nothing constrains.
  * `Clk`  (`noClash` dropped): `ignore_pins = ["clk"]` and an unrelated constant node is called `f_clk`.
           `sequential_unroll` removes the non-data pins by their exposed names after stripping; the ignored pin is
           already gone, so the unrelated node `f_clk` is deleted and the `and` gate it fed computes something else.
  * `Ign`  (`hig` dropped): the data pin `d_x` is ignored while another input pin `d.x` is exposed as `a_d_x`; that pin is
           then taken for the data pin.
  (This file imports the property file and is therefore not part of the hub `CG/Proofs/UnrollSeqSem.lean`.)
-/
import CG.Props.C09
namespace CG.C09.SeqCex
open CG Circuit CG.C09

/-- the hypotheses on the circuit as originally stated -/
structure SeqGoodOrig (c : Circuit) (bb : BBox) (dPort qPort : Name) : Prop where
  clean : LintClean c
  nonempty : c.bbs ≠ []
  oneType : ∀ u ∈ c.bbs, u.2 = bb
  instNodup : (c.bbs.map (·.1)).Nodup
  dIn : dPort ∈ bb.ins
  qOut : qPort ∈ bb.outs
  pinsPresent : ∀ u ∈ c.bbs, (∀ g ∈ bb.ins, c.ty? (u.1 ++ "." ++ g) = some "bb_input") ∧
    (∀ g ∈ bb.outs, c.ty? (u.1 ++ "." ++ g) = some "bb_output")
  pinsOwned : ∀ x, (c.ty? x = some "bb_input" ∨ c.ty? x = some "bb_output") →
    ∃ u ∈ c.bbs, ∃ g ∈ bb.ins ++ bb.outs, x = u.1 ++ "." ++ g

@[reducible] def OutsOrdinary (c : Circuit) : Prop := ∀ o ∈ c.outputs, C06.isPin c o = false
@[reducible] def NoClash (c : Circuit) (bb : BBox) : Prop := ∀ u ∈ c.bbs, ∀ g ∈ bb.ins ++ bb.outs, c.has (u.1 ++ "_" ++ g) = false

/-- the new `SeqGood` is the original one plus the two added fields -/
theorem seqGood_iff (c : Circuit) (bb : BBox) (d q : Name) :
    SeqGood c bb d q ↔ SeqGoodOrig c bb d q ∧ OutsOrdinary c ∧ NoClash c bb :=
  ⟨fun h => ⟨⟨h.clean, h.nonempty, h.oneType, h.instNodup, h.dIn, h.qOut, h.pinsPresent, h.pinsOwned⟩, h.outsOrdinary,
      h.noClash⟩,
   fun ⟨h, a, b⟩ => ⟨h.clean, h.nonempty, h.oneType, h.instNodup, h.dIn, h.qOut, h.pinsPresent, h.pinsOwned, a, b⟩⟩

/-- the conclusion of `sequential_unroll_sem` -/
def IsRun (c : Circuit) (n : Nat) (d q : Name) (initStr : Option String) (ioMap : List (Name × List Name)) (v : Val) : Prop :=
  ∃ w, SeqRun c d q n w ∧
    (∀ o ∈ c.outputs, ∀ t, t < n → v (Tx.ioName ioMap o t) = w t o) ∧
    (∀ u ∈ c.bbs, ∀ t, t < n → v (Tx.ioName ioMap (u.1 ++ "_" ++ d) t) = w t (u.1 ++ "." ++ d)) ∧
    (∀ s, initStr = some s → ∀ u ∈ c.bbs, w 0 (u.1 ++ "." ++ q) = (s == "1"))

theorem consistentB_sound (c : Circuit) (v : Val) (h : consistentB c v = true) : Consistent c v := by
  intro p hp t ht b hb
  unfold consistentB at h
  rw [List.all_eq_true] at h
  have := h p hp
  rw [ht] at this
  simp only [nodeOKB] at this
  rw [hb] at this
  simpa using this

theorem ordOK_id : OrdOK (id : Ord) := fun l => List.Perm.refl l

def A (t : String) (o : Bool := false) : Attr := { ty := some t, out := some o }
def ff : BBox := { name := "ff", ins := ["clk", "d"], outs := ["q"] }

/-- a valuation: everything true except the empty name -/
def vTrue : Val := fun n => n != ""

/-- value of a constant node / of a driven pin or buffer under a consistent valuation -/
theorem const_val {c : Circuit} {w : Val} (hw : Consistent c w) (x : Name) (a : Attr) (s : String) (b : Bool)
    (hm : (x, a) ∈ c.nodes) (ht : a.ty = some s) (hg : gateFn s ((c.fanin x).map w) = some b) : w x = b :=
  hw (x, a) hm s ht b hg

/-- the conclusion of `sequential_unroll_complete` -/
def IsShown (c : Circuit) (n : Nat) (d : Name) (uc : Circuit) (ioMap : List (Name × List Name)) (w : Nat → Val) : Prop :=
  ∃ v, Consistent uc v ∧
    (∀ o ∈ c.outputs, ∀ t, t < n → v (Tx.ioName ioMap o t) = w t o) ∧
    (∀ u ∈ c.bbs, ∀ t, t < n → v (Tx.ioName ioMap (u.1 ++ "_" ++ d) t) = w t (u.1 ++ "." ++ d))

theorem run_one {c : Circuit} {d q : Name} {w : Val} (h : consistentB c w = true) : SeqRun c d q 1 (fun _ => w) :=
  ⟨fun _ _ => consistentB_sound _ _ h, fun t ht => by omega⟩

theorem buf_eq {uc : Circuit} {v : Val} (hv : Consistent uc v) (x y : Name) (hty : uc.ty? x = some "buf")
    (hf : uc.fanin x = [y]) : v x = v y := by
  obtain ⟨a, ha, hta⟩ := USS.mem_of_ty? hty
  apply hv (x, a) ha "buf" hta
  show gateFn "buf" ((uc.fanin x).map v) = _
  rw [hf]
  simp [gateFn]

theorem and1_eq {uc : Circuit} {v : Val} (hv : Consistent uc v) (x y : Name) (hty : uc.ty? x = some "and")
    (hf : uc.fanin x = [y]) : v x = v y := by
  obtain ⟨a, ha, hta⟩ := USS.mem_of_ty? hty
  apply hv (x, a) ha "and" hta
  show gateFn "and" ((uc.fanin x).map v) = _
  rw [hf]
  simp [gateFn]

theorem one_eq {uc : Circuit} {v : Val} (hv : Consistent uc v) (x : Name) (hty : uc.ty? x = some "1") : v x = true := by
  obtain ⟨a, ha, hta⟩ := USS.mem_of_ty? hty
  apply hv (x, a) ha "1" hta
  simp [gateFn]

/-! ### `outsOrdinary` -/
namespace Pin

def c : Circuit :=
  { nodes := [("z", A "1"), ("clk", A "input"), ("f.clk", A "bb_input" true), ("f.d", A "bb_input" true),
              ("f.q", A "bb_output"), ("q", A "buf" true)],
    edges := [("clk", "f.clk"), ("z", "f.d"), ("f.q", "q")],
    bbs := [("f", ff)] }

theorem good : SeqGoodOrig c ff "d" "q" ∧ NoClash c ff ∧ ¬ OutsOrdinary c := by
  refine ⟨⟨Limit.lintClean_of_checks c ⟨by decide, by decide, by decide⟩ (by decide) (by decide) (by decide),
    by decide, by decide, by decide, by decide, by decide, by decide, ?_⟩, by decide, by decide⟩
  intro x hx
  have hm : x ∈ c.nodeNames := by
    rcases hx with hx | hx <;> exact (Circuit.has_iff_mem _ _).1 (Circuit.has_of_ty? hx)
  revert hx
  revert x
  decide

def res := Tx.sequentialUnroll c 1 "d" "q" [] false none [] true "cg_unroll" id
def uc : Circuit := (res.toOption.map (·.1)).getD {}
def ioMap : List (Name × List Name) := (res.toOption.map (·.2)).getD []

theorem ok : Tx.sequentialUnroll c 1 "d" "q" [] false none [] true "cg_unroll" id = .ok (uc, ioMap) := by
  have h : res.toOption.isSome = true := by decide +kernel
  unfold uc ioMap
  unfold res at h ⊢
  cases hr : Tx.sequentialUnroll c 1 "d" "q" [] false none [] true "cg_unroll" id with
  | error e => rw [hr] at h; cases h
  | ok r => rfl

theorem cons : Consistent uc vTrue := consistentB_sound _ _ (by decide +kernel)

theorem not_run : ¬ IsRun c 1 "d" "q" none ioMap vTrue := by
  rintro ⟨w, ⟨hw, _⟩, hA, _, _⟩
  have h0 := hw 0 (by decide)
  have hz : w 0 "z" = true := const_val h0 "z" (A "1") "1" true (by decide) rfl (by simp [gateFn])
  have hd : w 0 "f.d" = w 0 "z" :=
    const_val h0 "f.d" (A "bb_input" true) "bb_input" _ (by decide) rfl
      (by show gateFn "bb_input" [w 0 "z"] = _; simp [gateFn])
  have := hA "f.d" (by decide) 0 (by decide)
  have e : Tx.ioName ioMap "f.d" 0 = "" := by decide +kernel
  rw [e, hd, hz] at this
  exact absurd this (by decide)

/-- a run: clock low, data high -/
def w : Val := fun n => n == "z" || n == "f.d"

theorem run : SeqRun c "d" "q" 1 (fun _ => w) := run_one (by decide)

theorem not_shown : ¬ IsShown c 1 "d" uc ioMap (fun _ => w) := by
  rintro ⟨v, _, hA, _⟩
  have h1 := hA "f.d" (by decide) 0 (by decide)
  have h2 := hA "f.clk" (by decide) 0 (by decide)
  have e1 : Tx.ioName ioMap "f.d" 0 = "" := by decide +kernel
  have e2 : Tx.ioName ioMap "f.clk" 0 = "" := by decide +kernel
  rw [e1] at h1
  rw [e2, h1] at h2
  exact absurd h2 (by decide)

end Pin

/-- `sequential_unroll_sem` is false without `outsOrdinary` (all other hypotheses, old and new, hold) -/
theorem sequential_unroll_sem_needs_outsOrdinary :
    ∃ c bb n d q ignore afo initStr ru pfx ord uc ioMap v, OrdOK ord ∧ SeqGoodOrig c bb d q ∧ NoClash c bb ∧
      (d ∉ ignore ∧ q ∉ ignore) ∧ (∀ s, initStr = some s → s = "0" ∨ s = "1") ∧
      Tx.sequentialUnroll c n d q ignore afo initStr [] ru pfx ord = .ok (uc, ioMap) ∧ Consistent uc v ∧
      ¬ IsRun c n d q initStr ioMap v :=
  ⟨Pin.c, ff, 1, "d", "q", [], false, none, true, "cg_unroll", id, Pin.uc, Pin.ioMap, vTrue, ordOK_id, Pin.good.1,
    Pin.good.2.1, by decide, (fun s hs => by cases hs), Pin.ok, Pin.cons, Pin.not_run⟩

/-- `sequential_unroll_complete` is false without `outsOrdinary` -/
theorem sequential_unroll_complete_needs_outsOrdinary :
    ∃ c bb n d q ignore afo initStr ru pfx ord uc ioMap w, OrdOK ord ∧ SeqGoodOrig c bb d q ∧ NoClash c bb ∧
      (d ∉ ignore ∧ q ∉ ignore) ∧ (∀ s, initStr = some s → s = "0" ∨ s = "1") ∧
      Tx.sequentialUnroll c n d q ignore afo initStr [] ru pfx ord = .ok (uc, ioMap) ∧ SeqRun c d q n w ∧
      (∀ s, initStr = some s → ∀ u ∈ c.bbs, w 0 (u.1 ++ "." ++ q) = (s == "1")) ∧
      ¬ IsShown c n d uc ioMap w :=
  ⟨Pin.c, ff, 1, "d", "q", [], false, none, true, "cg_unroll", id, Pin.uc, Pin.ioMap, fun _ => Pin.w, ordOK_id, Pin.good.1,
    Pin.good.2.1, by decide, (fun s hs => by cases hs), Pin.ok, Pin.run, (fun s hs => by cases hs), Pin.not_shown⟩

/-! ### `noClash` -/
namespace Clk

def c : Circuit :=
  { nodes := [("a", A "input"), ("f_clk", A "0"), ("o", A "and" true), ("clk", A "input"), ("f.clk", A "bb_input"),
              ("f.d", A "bb_input"), ("f.q", A "bb_output"), ("q", A "buf" true)],
    edges := [("clk", "f.clk"), ("a", "f.d"), ("f.q", "q"), ("a", "o"), ("f_clk", "o")],
    bbs := [("f", ff)] }

theorem good : SeqGoodOrig c ff "d" "q" ∧ OutsOrdinary c ∧ ¬ NoClash c ff := by
  refine ⟨⟨Limit.lintClean_of_checks c ⟨by decide, by decide, by decide⟩ (by decide) (by decide) (by decide),
    by decide, by decide, by decide, by decide, by decide, by decide, ?_⟩, by decide, by decide⟩
  intro x hx
  have hm : x ∈ c.nodeNames := by
    rcases hx with hx | hx <;> exact (Circuit.has_iff_mem _ _).1 (Circuit.has_of_ty? hx)
  revert hx
  revert x
  decide

def res := Tx.sequentialUnroll c 1 "d" "q" ["clk"] false none [] true "cg_unroll" id
def uc : Circuit := (res.toOption.map (·.1)).getD {}
def ioMap : List (Name × List Name) := (res.toOption.map (·.2)).getD []

theorem ok : Tx.sequentialUnroll c 1 "d" "q" ["clk"] false none [] true "cg_unroll" id = .ok (uc, ioMap) := by
  have h : res.toOption.isSome = true := by decide +kernel
  unfold uc ioMap
  unfold res at h ⊢
  cases hr : Tx.sequentialUnroll c 1 "d" "q" ["clk"] false none [] true "cg_unroll" id with
  | error e => rw [hr] at h; cases h
  | ok r => rfl

theorem cons : Consistent uc vTrue := consistentB_sound _ _ (by decide +kernel)

theorem not_run : ¬ IsRun c 1 "d" "q" none ioMap vTrue := by
  rintro ⟨w, ⟨hw, _⟩, hA, _, _⟩
  have h0 := hw 0 (by decide)
  have hz : w 0 "f_clk" = false := const_val h0 "f_clk" (A "0") "0" false (by decide) rfl (by simp [gateFn])
  have ho : w 0 "o" = (w 0 "a" && w 0 "f_clk") :=
    const_val h0 "o" (A "and" true) "and" _ (by decide) rfl
      (by show gateFn "and" [w 0 "a", w 0 "f_clk"] = _; simp [gateFn])
  have := hA "o" (by decide) 0 (by decide)
  have e : Tx.ioName ioMap "o" 0 = "o_cg_unroll_0" := by decide +kernel
  rw [e, ho, hz] at this
  simp [vTrue] at this

/-- a run: `a` high, so the flop's data pin is high and `o = a and f_clk` is low -/
def w : Val := fun n => n == "a" || n == "f.d"

theorem run : SeqRun c "d" "q" 1 (fun _ => w) := run_one (by decide)

theorem not_shown : ¬ IsShown c 1 "d" uc ioMap (fun _ => w) := by
  rintro ⟨v, hv, hA, hB⟩
  have h1 := hA "o" (by decide) 0 (by decide)
  have h2 := hB ("f", ff) (by decide) 0 (by decide)
  have e1 : Tx.ioName ioMap "o" 0 = "o_cg_unroll_0" := by decide +kernel
  have e2 : Tx.ioName ioMap ("f" ++ "_" ++ "d") 0 = "f_d_cg_unroll_0" := by decide +kernel
  rw [e1] at h1
  rw [e2] at h2
  have a1 := buf_eq hv "o_cg_unroll_0" "unrolled_0_o" (by decide +kernel) (by decide +kernel)
  have a2 := and1_eq hv "unrolled_0_o" "unrolled_0_a" (by decide +kernel) (by decide +kernel)
  have a3 := buf_eq hv "f_d_cg_unroll_0" "unrolled_0_f_d" (by decide +kernel) (by decide +kernel)
  have a4 := buf_eq hv "unrolled_0_f_d" "unrolled_0_a" (by decide +kernel) (by decide +kernel)
  rw [a1, a2] at h1
  rw [a3, a4, h1] at h2
  exact absurd h2 (by decide)

end Clk

/-- `sequential_unroll_sem` is false without `noClash` (all other hypotheses, old and new, hold): with
    `ignore_pins = ["clk"]` the unrelated node `f_clk` is deleted -/
theorem sequential_unroll_sem_needs_noClash :
    ∃ c bb n d q ignore afo initStr ru pfx ord uc ioMap v, OrdOK ord ∧ SeqGoodOrig c bb d q ∧ OutsOrdinary c ∧
      (d ∉ ignore ∧ q ∉ ignore) ∧ (∀ s, initStr = some s → s = "0" ∨ s = "1") ∧
      Tx.sequentialUnroll c n d q ignore afo initStr [] ru pfx ord = .ok (uc, ioMap) ∧ Consistent uc v ∧
      ¬ IsRun c n d q initStr ioMap v :=
  ⟨Clk.c, ff, 1, "d", "q", ["clk"], false, none, true, "cg_unroll", id, Clk.uc, Clk.ioMap, vTrue, ordOK_id, Clk.good.1,
    Clk.good.2.1, by decide, (fun s hs => by cases hs), Clk.ok, Clk.cons, Clk.not_run⟩

/-- `sequential_unroll_complete` is false without `noClash` -/
theorem sequential_unroll_complete_needs_noClash :
    ∃ c bb n d q ignore afo initStr ru pfx ord uc ioMap w, OrdOK ord ∧ SeqGoodOrig c bb d q ∧ OutsOrdinary c ∧
      (d ∉ ignore ∧ q ∉ ignore) ∧ (∀ s, initStr = some s → s = "0" ∨ s = "1") ∧
      Tx.sequentialUnroll c n d q ignore afo initStr [] ru pfx ord = .ok (uc, ioMap) ∧ SeqRun c d q n w ∧
      (∀ s, initStr = some s → ∀ u ∈ c.bbs, w 0 (u.1 ++ "." ++ q) = (s == "1")) ∧
      ¬ IsShown c n d uc ioMap w :=
  ⟨Clk.c, ff, 1, "d", "q", ["clk"], false, none, true, "cg_unroll", id, Clk.uc, Clk.ioMap, fun _ => Clk.w, ordOK_id,
    Clk.good.1, Clk.good.2.1, by decide, (fun s hs => by cases hs), Clk.ok, Clk.run, (fun s hs => by cases hs),
    Clk.not_shown⟩

/-! ### `hig` -/
namespace Ign

def ffx : BBox := { name := "ffx", ins := ["clk", "d_x", "d.x"], outs := ["q"] }

def c : Circuit :=
  { nodes := [("z", A "0"), ("y", A "1"), ("clk", A "input"), ("a.clk", A "bb_input"), ("a.d_x", A "bb_input"),
              ("a.d.x", A "bb_input"), ("a.q", A "bb_output"), ("q", A "buf" true)],
    edges := [("clk", "a.clk"), ("z", "a.d_x"), ("y", "a.d.x"), ("a.q", "q")],
    bbs := [("a", ffx)] }

theorem good : SeqGoodOrig c ffx "d_x" "q" ∧ OutsOrdinary c ∧ NoClash c ffx := by
  refine ⟨⟨Limit.lintClean_of_checks c ⟨by decide, by decide, by decide⟩ (by decide) (by decide) (by decide),
    by decide, by decide, by decide, by decide, by decide, by decide, ?_⟩, by decide, by decide⟩
  intro x hx
  have hm : x ∈ c.nodeNames := by
    rcases hx with hx | hx <;> exact (Circuit.has_iff_mem _ _).1 (Circuit.has_of_ty? hx)
  revert hx
  revert x
  decide

def res := Tx.sequentialUnroll c 1 "d_x" "q" ["d_x"] false none [] true "cg_unroll" id
def uc : Circuit := (res.toOption.map (·.1)).getD {}
def ioMap : List (Name × List Name) := (res.toOption.map (·.2)).getD []

theorem ok : Tx.sequentialUnroll c 1 "d_x" "q" ["d_x"] false none [] true "cg_unroll" id = .ok (uc, ioMap) := by
  have h : res.toOption.isSome = true := by decide +kernel
  unfold uc ioMap
  unfold res at h ⊢
  cases hr : Tx.sequentialUnroll c 1 "d_x" "q" ["d_x"] false none [] true "cg_unroll" id with
  | error e => rw [hr] at h; cases h
  | ok r => rfl

/-- everything true except the empty name and the copy of the constant `z` -/
def v : Val := fun n => n != "" && n != "unrolled_0_z"

theorem cons : Consistent uc v := consistentB_sound _ _ (by decide +kernel)

theorem not_run : ¬ IsRun c 1 "d_x" "q" none ioMap v := by
  rintro ⟨w, ⟨hw, _⟩, _, hB, _⟩
  have h0 := hw 0 (by decide)
  have hz : w 0 "z" = false := const_val h0 "z" (A "0") "0" false (by decide) rfl (by simp [gateFn])
  have hd : w 0 "a.d_x" = w 0 "z" :=
    const_val h0 "a.d_x" (A "bb_input") "bb_input" _ (by decide) rfl
      (by show gateFn "bb_input" [w 0 "z"] = _; simp [gateFn])
  have := hB ("a", ffx) (by decide) 0 (by decide)
  have e : Tx.ioName ioMap ("a" ++ "_" ++ "d_x") 0 = "a_d_x_cg_unroll_0" := by decide +kernel
  rw [e] at this
  have e2 : ("a" ++ "." ++ "d_x" : Name) = "a.d_x" := by decide
  rw [e2, hd, hz] at this
  simp [v] at this

/-- a run: the data pin `d_x` is low, the other pin `d.x` is high -/
def w : Val := fun n => n == "y" || n == "a.d.x"

theorem run : SeqRun c "d_x" "q" 1 (fun _ => w) := run_one (by decide)

theorem not_shown : ¬ IsShown c 1 "d_x" uc ioMap (fun _ => w) := by
  rintro ⟨v, hv, _, hB⟩
  have h2 := hB ("a", ffx) (by decide) 0 (by decide)
  have e2 : Tx.ioName ioMap ("a" ++ "_" ++ "d_x") 0 = "a_d_x_cg_unroll_0" := by decide +kernel
  rw [e2] at h2
  have a1 := buf_eq hv "a_d_x_cg_unroll_0" "unrolled_0_a_d_x" (by decide +kernel) (by decide +kernel)
  have a2 := buf_eq hv "unrolled_0_a_d_x" "unrolled_0_y" (by decide +kernel) (by decide +kernel)
  have a3 := one_eq hv "unrolled_0_y" (by decide +kernel)
  rw [a1, a2, a3] at h2
  exact absurd h2 (by decide)

end Ign

/-- `sequential_unroll_sem` is false without `hig` (all other hypotheses, old and new, hold): the ignored data pin `d_x`
    is confused with the exposed pin `d.x` -/
theorem sequential_unroll_sem_needs_hig :
    ∃ c bb n d q ignore afo initStr ru pfx ord uc ioMap v, OrdOK ord ∧ SeqGoodOrig c bb d q ∧ OutsOrdinary c ∧
      NoClash c bb ∧ (∀ s, initStr = some s → s = "0" ∨ s = "1") ∧
      Tx.sequentialUnroll c n d q ignore afo initStr [] ru pfx ord = .ok (uc, ioMap) ∧ Consistent uc v ∧
      ¬ IsRun c n d q initStr ioMap v :=
  ⟨Ign.c, Ign.ffx, 1, "d_x", "q", ["d_x"], false, none, true, "cg_unroll", id, Ign.uc, Ign.ioMap, Ign.v, ordOK_id,
    Ign.good.1, Ign.good.2.1, Ign.good.2.2, (fun s hs => by cases hs), Ign.ok, Ign.cons, Ign.not_run⟩

/-- `sequential_unroll_complete` is false without `hig` -/
theorem sequential_unroll_complete_needs_hig :
    ∃ c bb n d q ignore afo initStr ru pfx ord uc ioMap w, OrdOK ord ∧ SeqGoodOrig c bb d q ∧ OutsOrdinary c ∧
      NoClash c bb ∧ (∀ s, initStr = some s → s = "0" ∨ s = "1") ∧
      Tx.sequentialUnroll c n d q ignore afo initStr [] ru pfx ord = .ok (uc, ioMap) ∧ SeqRun c d q n w ∧
      (∀ s, initStr = some s → ∀ u ∈ c.bbs, w 0 (u.1 ++ "." ++ q) = (s == "1")) ∧
      ¬ IsShown c n d uc ioMap w :=
  ⟨Ign.c, Ign.ffx, 1, "d_x", "q", ["d_x"], false, none, true, "cg_unroll", id, Ign.uc, Ign.ioMap, fun _ => Ign.w, ordOK_id,
    Ign.good.1, Ign.good.2.1, Ign.good.2.2, (fun s hs => by cases hs), Ign.ok, Ign.run, (fun s hs => by cases hs),
    Ign.not_shown⟩

end CG.C09.SeqCex
