/-
  C09 (sequential_unroll, cycle-accurate semantics): why `CG.C09.SeqGood` has the field `outsOrdinary` and why
  `sequential_unroll_sem` / `sequential_unroll_complete` carry the hypotheses `hig` and `hclash`.

  For each of the three additions there is a closed sequential circuit that satisfies the ORIGINAL hypotheses
  (`SeqGoodOrig`, the eight original fields of `SeqGood`) and the two other additions, on which `sequential_unroll`
  succeeds, and a consistent valuation of the result that is NOT a run of the circuit in the sense of
  `sequential_unroll_sem`, as well as a run that NO consistent valuation of the result shows
  (`sequential_unroll_complete`):

  * `Pin`  (`outsOrdinary` dropped): the flop's d and clk pins are marked as outputs.  Pins are renamed/removed before `unroll`, so
           the io map has no entry `f.d` and `ioName ioMap "f.d" t` is the empty name, which nothing constrains.
  * `Dot`  (`hclash` dropped): the instance is called `a.b`, so its pins are exposed as `a_b_clk`, `a_b_d`, `a_b_q`, while
           `sequential_unroll` computes the names `a.b_clk`, `a.b_d`, `a.b_q`.  Unrelated nodes of these names pass for
           the flop: `a.b_d`/`a.b_q` are wired up as the state pair and the io map reports the value of the node
           `a.b_d` as the flop's data input (a node `a.b_clk` would be deleted from the logic).  For dot-free instance
           and pin names a clash with an exposed pin already makes `strip_blackboxes` fail (fix K32).
  * `Ign`  (`hig` dropped): the data pin `d_x` is ignored while another input pin `d.x` is exposed as `a_d_x`; that pin is
           then taken for the data pin.

  `Clk` is no counterexample any more but a regression example: `ignore_pins = ["clk"]` and an unrelated constant node
  called `f_clk`.  `sequential_unroll` used to remove ALL non-data pins by their exposed names after stripping; the
  ignored pin is deleted by `strip_blackboxes`, never exposed, so the unrelated node `f_clk` was deleted and the `and`
  gate it fed computed something else.  This is fixed in the library (K39): ignored pins are skipped, the node stays,
  and the former hypothesis `noClash` (no node called `inst_pin` for ANY pin) is weakened to `hclash` (exposed pins only).
  (This file imports the property file and is therefore not part of the hub `CG/Proofs/UnrollSeqSem.lean`.)
-/
import CG.Props.C09
namespace CG.C09.SeqCex
open CG Circuit CG.C09

/-- the hypotheses on the circuit as originally stated -/
structure SeqGoodOrig (c : Circuit) (bb : BBox) (dPort qPort : Name) : Prop where
  clean : LintClean c
  nonempty : c.bbs ≠ []
  oneType : ∀ u ∈ c.bbs, u.2 = bb
  instNodup : (c.bbs.map (·.1)).Nodup
  dIn : dPort ∈ bb.ins
  qOut : qPort ∈ bb.outs
  pinsPresent : ∀ u ∈ c.bbs, (∀ g ∈ bb.ins, c.ty? (u.1 ++ "." ++ g) = some "bb_input") ∧
    (∀ g ∈ bb.outs, c.ty? (u.1 ++ "." ++ g) = some "bb_output")
  pinsOwned : ∀ x, (c.ty? x = some "bb_input" ∨ c.ty? x = some "bb_output") →
    ∃ u ∈ c.bbs, ∃ g ∈ bb.ins ++ bb.outs, x = u.1 ++ "." ++ g

@[reducible] def OutsOrdinary (c : Circuit) : Prop := ∀ o ∈ c.outputs, C06.isPin c o = false
/-- the hypothesis `hclash` of the two theorems: no node is called like an exposed (= not ignored) pin -/
@[reducible] def NoClash (c : Circuit) (bb : BBox) (ignore : List Name) : Prop :=
  ∀ u ∈ c.bbs, ∀ g ∈ bb.ins ++ bb.outs, g ∉ ignore → c.has (u.1 ++ "_" ++ g) = false
/-- the former field `SeqGood.noClash` (before the library fix K39): no node is called like ANY pin -/
@[reducible] def NoClashOld (c : Circuit) (bb : BBox) : Prop :=
  ∀ u ∈ c.bbs, ∀ g ∈ bb.ins ++ bb.outs, c.has (u.1 ++ "_" ++ g) = false

/-- the old hypothesis implies the new one, for every `ignore_pins` -/
theorem noClash_of_old {c : Circuit} {bb : BBox} (h : NoClashOld c bb) (ignore : List Name) : NoClash c bb ignore :=
  fun u hu g hg _ => h u hu g hg

/-- the new `SeqGood` is the original one plus the added field -/
theorem seqGood_iff (c : Circuit) (bb : BBox) (d q : Name) :
    SeqGood c bb d q ↔ SeqGoodOrig c bb d q ∧ OutsOrdinary c :=
  ⟨fun h => ⟨⟨h.clean, h.nonempty, h.oneType, h.instNodup, h.dIn, h.qOut, h.pinsPresent, h.pinsOwned⟩, h.outsOrdinary⟩,
   fun ⟨h, a⟩ => ⟨h.clean, h.nonempty, h.oneType, h.instNodup, h.dIn, h.qOut, h.pinsPresent, h.pinsOwned, a⟩⟩

/-- the conclusion of `sequential_unroll_sem` -/
def IsRun (c : Circuit) (n : Nat) (d q : Name) (initStr : Option String) (ioMap : List (Name × List Name)) (v : Val) : Prop :=
  ∃ w, SeqRun c d q n w ∧
    (∀ o ∈ c.outputs, ∀ t, t < n → v (Tx.ioName ioMap o t) = w t o) ∧
    (∀ u ∈ c.bbs, ∀ t, t < n → v (Tx.ioName ioMap (u.1 ++ "_" ++ d) t) = w t (u.1 ++ "." ++ d)) ∧
    (∀ s, initStr = some s → ∀ u ∈ c.bbs, w 0 (u.1 ++ "." ++ q) = (s == "1"))

theorem consistentB_sound (c : Circuit) (v : Val) (h : consistentB c v = true) : Consistent c v := by
  intro p hp t ht b hb
  unfold consistentB at h
  rw [List.all_eq_true] at h
  have := h p hp
  rw [ht] at this
  simp only [nodeOKB] at this
  rw [hb] at this
  simpa using this

theorem ordOK_id : OrdOK (id : Ord) := fun l => List.Perm.refl l

def A (t : String) (o : Bool := false) : Attr := { ty := some t, out := some o }
def ff : BBox := { name := "ff", ins := ["clk", "d"], outs := ["q"] }

/-- a valuation: everything true except the empty name -/
def vTrue : Val := fun n => n != ""

/-- value of a constant node / of a driven pin or buffer under a consistent valuation -/
theorem const_val {c : Circuit} {w : Val} (hw : Consistent c w) (x : Name) (a : Attr) (s : String) (b : Bool)
    (hm : (x, a) ∈ c.nodes) (ht : a.ty = some s) (hg : gateFn s ((c.fanin x).map w) = some b) : w x = b :=
  hw (x, a) hm s ht b hg

/-- the conclusion of `sequential_unroll_complete` -/
def IsShown (c : Circuit) (n : Nat) (d : Name) (uc : Circuit) (ioMap : List (Name × List Name)) (w : Nat → Val) : Prop :=
  ∃ v, Consistent uc v ∧
    (∀ o ∈ c.outputs, ∀ t, t < n → v (Tx.ioName ioMap o t) = w t o) ∧
    (∀ u ∈ c.bbs, ∀ t, t < n → v (Tx.ioName ioMap (u.1 ++ "_" ++ d) t) = w t (u.1 ++ "." ++ d))

theorem run_one {c : Circuit} {d q : Name} {w : Val} (h : consistentB c w = true) : SeqRun c d q 1 (fun _ => w) :=
  ⟨fun _ _ => consistentB_sound _ _ h, fun t ht => by omega⟩

theorem buf_eq {uc : Circuit} {v : Val} (hv : Consistent uc v) (x y : Name) (hty : uc.ty? x = some "buf")
    (hf : uc.fanin x = [y]) : v x = v y := by
  obtain ⟨a, ha, hta⟩ := USS.mem_of_ty? hty
  apply hv (x, a) ha "buf" hta
  show gateFn "buf" ((uc.fanin x).map v) = _
  rw [hf]
  simp [gateFn]

theorem and1_eq {uc : Circuit} {v : Val} (hv : Consistent uc v) (x y : Name) (hty : uc.ty? x = some "and")
    (hf : uc.fanin x = [y]) : v x = v y := by
  obtain ⟨a, ha, hta⟩ := USS.mem_of_ty? hty
  apply hv (x, a) ha "and" hta
  show gateFn "and" ((uc.fanin x).map v) = _
  rw [hf]
  simp [gateFn]

theorem zero_eq {uc : Circuit} {v : Val} (hv : Consistent uc v) (x : Name) (hty : uc.ty? x = some "0") : v x = false := by
  obtain ⟨a, ha, hta⟩ := USS.mem_of_ty? hty
  apply hv (x, a) ha "0" hta
  simp [gateFn]

theorem one_eq {uc : Circuit} {v : Val} (hv : Consistent uc v) (x : Name) (hty : uc.ty? x = some "1") : v x = true := by
  obtain ⟨a, ha, hta⟩ := USS.mem_of_ty? hty
  apply hv (x, a) ha "1" hta
  simp [gateFn]

/-! ### `outsOrdinary` -/
namespace Pin

def c : Circuit :=
  { nodes := [("z", A "1"), ("clk", A "input"), ("f.clk", A "bb_input" true), ("f.d", A "bb_input" true),
              ("f.q", A "bb_output"), ("q", A "buf" true)],
    edges := [("clk", "f.clk"), ("z", "f.d"), ("f.q", "q")],
    bbs := [("f", ff)] }

theorem good : SeqGoodOrig c ff "d" "q" ∧ NoClash c ff [] ∧ ¬ OutsOrdinary c := by
  refine ⟨⟨Limit.lintClean_of_checks c ⟨by decide, by decide, by decide⟩ (by decide) (by decide) (by decide),
    by decide, by decide, by decide, by decide, by decide, by decide, ?_⟩, by decide, by decide⟩
  intro x hx
  have hm : x ∈ c.nodeNames := by
    rcases hx with hx | hx <;> exact (Circuit.has_iff_mem _ _).1 (Circuit.has_of_ty? hx)
  revert hx
  revert x
  decide

def res := Tx.sequentialUnroll c 1 "d" "q" [] false none [] true "cg_unroll" id
def uc : Circuit := (res.toOption.map (·.1)).getD {}
def ioMap : List (Name × List Name) := (res.toOption.map (·.2)).getD []

theorem ok : Tx.sequentialUnroll c 1 "d" "q" [] false none [] true "cg_unroll" id = .ok (uc, ioMap) := by
  have h : res.toOption.isSome = true := by decide +kernel
  unfold uc ioMap
  unfold res at h ⊢
  cases hr : Tx.sequentialUnroll c 1 "d" "q" [] false none [] true "cg_unroll" id with
  | error e => rw [hr] at h; cases h
  | ok r => rfl

theorem cons : Consistent uc vTrue := consistentB_sound _ _ (by decide +kernel)

theorem not_run : ¬ IsRun c 1 "d" "q" none ioMap vTrue := by
  rintro ⟨w, ⟨hw, _⟩, hA, _, _⟩
  have h0 := hw 0 (by decide)
  have hz : w 0 "z" = true := const_val h0 "z" (A "1") "1" true (by decide) rfl (by simp [gateFn])
  have hd : w 0 "f.d" = w 0 "z" :=
    const_val h0 "f.d" (A "bb_input" true) "bb_input" _ (by decide) rfl
      (by show gateFn "bb_input" [w 0 "z"] = _; simp [gateFn])
  have := hA "f.d" (by decide) 0 (by decide)
  have e : Tx.ioName ioMap "f.d" 0 = "" := by decide +kernel
  rw [e, hd, hz] at this
  exact absurd this (by decide)

/-- a run: clock low, data high -/
def w : Val := fun n => n == "z" || n == "f.d"

theorem run : SeqRun c "d" "q" 1 (fun _ => w) := run_one (by decide)

theorem not_shown : ¬ IsShown c 1 "d" uc ioMap (fun _ => w) := by
  rintro ⟨v, _, hA, _⟩
  have h1 := hA "f.d" (by decide) 0 (by decide)
  have h2 := hA "f.clk" (by decide) 0 (by decide)
  have e1 : Tx.ioName ioMap "f.d" 0 = "" := by decide +kernel
  have e2 : Tx.ioName ioMap "f.clk" 0 = "" := by decide +kernel
  rw [e1] at h1
  rw [e2, h1] at h2
  exact absurd h2 (by decide)

end Pin

/-- `sequential_unroll_sem` is false without `outsOrdinary` (all other hypotheses, old and new, hold) -/
theorem sequential_unroll_sem_needs_outsOrdinary :
    ∃ c bb n d q ignore afo initStr ru pfx ord uc ioMap v, OrdOK ord ∧ SeqGoodOrig c bb d q ∧ NoClash c bb ignore ∧
      (d ∉ ignore ∧ q ∉ ignore) ∧ (∀ s, initStr = some s → s = "0" ∨ s = "1") ∧
      Tx.sequentialUnroll c n d q ignore afo initStr [] ru pfx ord = .ok (uc, ioMap) ∧ Consistent uc v ∧
      ¬ IsRun c n d q initStr ioMap v :=
  ⟨Pin.c, ff, 1, "d", "q", [], false, none, true, "cg_unroll", id, Pin.uc, Pin.ioMap, vTrue, ordOK_id, Pin.good.1,
    Pin.good.2.1, by decide, (fun s hs => by cases hs), Pin.ok, Pin.cons, Pin.not_run⟩

/-- `sequential_unroll_complete` is false without `outsOrdinary` -/
theorem sequential_unroll_complete_needs_outsOrdinary :
    ∃ c bb n d q ignore afo initStr ru pfx ord uc ioMap w, OrdOK ord ∧ SeqGoodOrig c bb d q ∧ NoClash c bb ignore ∧
      (d ∉ ignore ∧ q ∉ ignore) ∧ (∀ s, initStr = some s → s = "0" ∨ s = "1") ∧
      Tx.sequentialUnroll c n d q ignore afo initStr [] ru pfx ord = .ok (uc, ioMap) ∧ SeqRun c d q n w ∧
      (∀ s, initStr = some s → ∀ u ∈ c.bbs, w 0 (u.1 ++ "." ++ q) = (s == "1")) ∧
      ¬ IsShown c n d uc ioMap w :=
  ⟨Pin.c, ff, 1, "d", "q", [], false, none, true, "cg_unroll", id, Pin.uc, Pin.ioMap, fun _ => Pin.w, ordOK_id, Pin.good.1,
    Pin.good.2.1, by decide, (fun s hs => by cases hs), Pin.ok, Pin.run, (fun s hs => by cases hs), Pin.not_shown⟩

/-! ### `hclash` -/
namespace Dot

/-- the instance is called `a.b`; the unrelated nodes `a.b_d` (a constant 0, marked as output) and `a.b_q` (an input)
    carry the names `sequential_unroll` computes for the data pins -/
def c : Circuit :=
  { nodes := [("z", A "1"), ("clk", A "input"), ("a.b.clk", A "bb_input"), ("a.b.d", A "bb_input"),
              ("a.b.q", A "bb_output"), ("q", A "buf" true), ("a.b_d", A "0" true), ("a.b_q", A "input")],
    edges := [("clk", "a.b.clk"), ("z", "a.b.d"), ("a.b.q", "q")],
    bbs := [("a.b", ff)] }

theorem good : SeqGoodOrig c ff "d" "q" ∧ OutsOrdinary c ∧ ¬ NoClash c ff [] := by
  refine ⟨⟨Limit.lintClean_of_checks c ⟨by decide, by decide, by decide⟩ (by decide) (by decide) (by decide),
    by decide, by decide, by decide, by decide, by decide, by decide, ?_⟩, by decide, by decide⟩
  intro x hx
  have hm : x ∈ c.nodeNames := by
    rcases hx with hx | hx <;> exact (Circuit.has_iff_mem _ _).1 (Circuit.has_of_ty? hx)
  revert hx
  revert x
  decide

def res := Tx.sequentialUnroll c 1 "d" "q" [] false none [] true "cg_unroll" id
def uc : Circuit := (res.toOption.map (·.1)).getD {}
def ioMap : List (Name × List Name) := (res.toOption.map (·.2)).getD []

theorem ok : Tx.sequentialUnroll c 1 "d" "q" [] false none [] true "cg_unroll" id = .ok (uc, ioMap) := by
  have h : res.toOption.isSome = true := by decide +kernel
  unfold uc ioMap
  unfold res at h ⊢
  cases hr : Tx.sequentialUnroll c 1 "d" "q" [] false none [] true "cg_unroll" id with
  | error e => rw [hr] at h; cases h
  | ok r => rfl

/-- everything true except the empty name, the copy of the constant `a.b_d` and the io node it drives -/
def v : Val := fun n => n != "" && n != "unrolled_0_a.b_d" && n != "a.b_d_cg_unroll_0"

theorem cons : Consistent uc v := consistentB_sound _ _ (by decide +kernel)

theorem not_run : ¬ IsRun c 1 "d" "q" none ioMap v := by
  rintro ⟨w, ⟨hw, _⟩, _, hB, _⟩
  have h0 := hw 0 (by decide)
  have hz : w 0 "z" = true := const_val h0 "z" (A "1") "1" true (by decide) rfl (by simp [gateFn])
  have hd : w 0 "a.b.d" = w 0 "z" :=
    const_val h0 "a.b.d" (A "bb_input") "bb_input" _ (by decide) rfl
      (by show gateFn "bb_input" [w 0 "z"] = _; simp [gateFn])
  have := hB ("a.b", ff) (by decide) 0 (by decide)
  have e : Tx.ioName ioMap ("a.b" ++ "_" ++ "d") 0 = "a.b_d_cg_unroll_0" := by decide +kernel
  rw [e] at this
  have e2 : ("a.b" ++ "." ++ "d" : Name) = "a.b.d" := by decide
  rw [e2, hd, hz] at this
  simp [v] at this

/-- a run: the flop's data pin is high (driven by the constant `z`) -/
def w : Val := fun n => n == "z" || n == "a.b.d"

theorem run : SeqRun c "d" "q" 1 (fun _ => w) := run_one (by decide)

theorem not_shown : ¬ IsShown c 1 "d" uc ioMap (fun _ => w) := by
  rintro ⟨v, hv, _, hB⟩
  have h2 := hB ("a.b", ff) (by decide) 0 (by decide)
  have e2 : Tx.ioName ioMap ("a.b" ++ "_" ++ "d") 0 = "a.b_d_cg_unroll_0" := by decide +kernel
  rw [e2] at h2
  have a1 := buf_eq hv "a.b_d_cg_unroll_0" "unrolled_0_a.b_d" (by decide +kernel) (by decide +kernel)
  have a2 := zero_eq hv "unrolled_0_a.b_d" (by decide +kernel)
  rw [a1, a2] at h2
  exact absurd h2 (by decide)

end Dot

/-- `sequential_unroll_sem` is false without `hclash` (all other hypotheses, old and new, hold): with an instance
    called `a.b` the unrelated nodes `a.b_d`, `a.b_q` are wired up as the flop.  In particular `hclash` does not follow
    from the success of the call. -/
theorem sequential_unroll_sem_needs_hclash :
    ∃ c bb n d q ignore afo initStr ru pfx ord uc ioMap v, OrdOK ord ∧ SeqGoodOrig c bb d q ∧ OutsOrdinary c ∧
      (d ∉ ignore ∧ q ∉ ignore) ∧ (∀ s, initStr = some s → s = "0" ∨ s = "1") ∧
      Tx.sequentialUnroll c n d q ignore afo initStr [] ru pfx ord = .ok (uc, ioMap) ∧ Consistent uc v ∧
      ¬ IsRun c n d q initStr ioMap v :=
  ⟨Dot.c, ff, 1, "d", "q", [], false, none, true, "cg_unroll", id, Dot.uc, Dot.ioMap, Dot.v, ordOK_id, Dot.good.1,
    Dot.good.2.1, by decide, (fun s hs => by cases hs), Dot.ok, Dot.cons, Dot.not_run⟩

/-- `sequential_unroll_complete` is false without `hclash` -/
theorem sequential_unroll_complete_needs_hclash :
    ∃ c bb n d q ignore afo initStr ru pfx ord uc ioMap w, OrdOK ord ∧ SeqGoodOrig c bb d q ∧ OutsOrdinary c ∧
      (d ∉ ignore ∧ q ∉ ignore) ∧ (∀ s, initStr = some s → s = "0" ∨ s = "1") ∧
      Tx.sequentialUnroll c n d q ignore afo initStr [] ru pfx ord = .ok (uc, ioMap) ∧ SeqRun c d q n w ∧
      (∀ s, initStr = some s → ∀ u ∈ c.bbs, w 0 (u.1 ++ "." ++ q) = (s == "1")) ∧
      ¬ IsShown c n d uc ioMap w :=
  ⟨Dot.c, ff, 1, "d", "q", [], false, none, true, "cg_unroll", id, Dot.uc, Dot.ioMap, fun _ => Dot.w, ordOK_id,
    Dot.good.1, Dot.good.2.1, by decide, (fun s hs => by cases hs), Dot.ok, Dot.run, (fun s hs => by cases hs),
    Dot.not_shown⟩

/-! ### regression example for K39: a node called like an ignored pin stays -/
namespace Clk

/-- `ignore_pins = ["clk"]`, and the unrelated constant `f_clk` feeds the output gate `o = a and f_clk` -/
def c : Circuit :=
  { nodes := [("a", A "input"), ("f_clk", A "0"), ("o", A "and" true), ("clk", A "input"), ("f.clk", A "bb_input"),
              ("f.d", A "bb_input"), ("f.q", A "bb_output"), ("q", A "buf" true)],
    edges := [("clk", "f.clk"), ("a", "f.d"), ("f.q", "q"), ("a", "o"), ("f_clk", "o")],
    bbs := [("f", ff)] }

/-- all hypotheses of the two theorems hold (the former, stronger `noClash` does not: `f_clk` is a node) -/
theorem good : SeqGood c ff "d" "q" ∧ NoClash c ff ["clk"] ∧ ¬ NoClashOld c ff := by
  refine ⟨⟨Limit.lintClean_of_checks c ⟨by decide, by decide, by decide⟩ (by decide) (by decide) (by decide),
    by decide, by decide, by decide, by decide, by decide, by decide, ?_, by decide⟩, by decide, by decide⟩
  intro x hx
  have hm : x ∈ c.nodeNames := by
    rcases hx with hx | hx <;> exact (Circuit.has_iff_mem _ _).1 (Circuit.has_of_ty? hx)
  revert hx
  revert x
  decide

def res := Tx.sequentialUnroll c 2 "d" "q" ["clk"] false none [] true "cg_unroll" id
def uc : Circuit := (res.toOption.map (·.1)).getD {}
def ioMap : List (Name × List Name) := (res.toOption.map (·.2)).getD []

/-- the call succeeds -/
theorem ok : Tx.sequentialUnroll c 2 "d" "q" ["clk"] false none [] true "cg_unroll" id = .ok (uc, ioMap) := by
  have h : res.toOption.isSome = true := by decide +kernel
  unfold uc ioMap
  unfold res at h ⊢
  cases hr : Tx.sequentialUnroll c 2 "d" "q" ["clk"] false none [] true "cg_unroll" id with
  | error e => rw [hr] at h; cases h
  | ok r => rfl

/-- the unrolled circuit contains the per-step copies of `f_clk` (as constants), and the copies of the output gate `o`
    still have them in their fan-in (before the fix K39 they were deleted) -/
theorem f_clk_kept :
    uc.has "unrolled_0_f_clk" = true ∧ uc.has "unrolled_1_f_clk" = true ∧
    uc.ty? "unrolled_0_f_clk" = some "0" ∧ uc.ty? "unrolled_1_f_clk" = some "0" ∧
    uc.fanin "unrolled_0_o" = ["unrolled_0_a", "unrolled_0_f_clk"] ∧
    uc.fanin "unrolled_1_o" = ["unrolled_1_a", "unrolled_1_f_clk"] ∧
    Tx.ioName ioMap "o" 0 = "o_cg_unroll_0" ∧ uc.fanin "o_cg_unroll_0" = ["unrolled_0_o"] ∧
    Tx.ioName ioMap "o" 1 = "o_cg_unroll_1" ∧ uc.fanin "o_cg_unroll_1" = ["unrolled_1_o"] := by decide +kernel

/-- so `sequential_unroll_sem` applies: every consistent valuation of the unrolled circuit is a run of `c` -/
theorem sem (v : Val) (hv : Consistent uc v) : IsRun c 2 "d" "q" none ioMap v :=
  sequential_unroll_sem c ff 2 "d" "q" ["clk"] false none true "cg_unroll" id ordOK_id good.1 (by decide) good.2.1
    (fun s hs => by cases hs) uc ioMap ok v hv

/-- in particular the output `o = a and f_clk` is low in both cycles -/
theorem o_low (v : Val) (hv : Consistent uc v) : v "o_cg_unroll_0" = false ∧ v "o_cg_unroll_1" = false := by
  obtain ⟨w, ⟨hw, _⟩, hA, _, _⟩ := sem v hv
  have low : ∀ t, t < 2 → w t "o" = false := by
    intro t ht
    have h0 := hw t ht
    have hz : w t "f_clk" = false := const_val h0 "f_clk" (A "0") "0" false (by decide) rfl (by simp [gateFn])
    have ho : w t "o" = (w t "a" && w t "f_clk") :=
      const_val h0 "o" (A "and" true) "and" _ (by decide) rfl
        (by show gateFn "and" [w t "a", w t "f_clk"] = _; simp [gateFn])
    rw [ho, hz]
    simp
  have h0 := hA "o" (by decide) 0 (by decide)
  have h1 := hA "o" (by decide) 1 (by decide)
  rw [f_clk_kept.2.2.2.2.2.2.1, low 0 (by decide)] at h0
  rw [f_clk_kept.2.2.2.2.2.2.2.2.1, low 1 (by decide)] at h1
  exact ⟨h0, h1⟩

/-- and `sequential_unroll_complete` applies: every run of `c` is shown by some consistent valuation -/
theorem complete (w : Nat → Val) (hw : SeqRun c "d" "q" 2 w) : IsShown c 2 "d" uc ioMap w :=
  sequential_unroll_complete c ff 2 "d" "q" ["clk"] false none true "cg_unroll" id ordOK_id good.1 (by decide) good.2.1
    (fun s hs => by cases hs) uc ioMap ok w hw (fun s hs => by cases hs)

end Clk

/-- regression (library fix K39): with `ignore_pins = ["clk"]` an unrelated node `f_clk` violates the former hypothesis
    `noClash` but not `hclash`; the call succeeds, the node's per-step copies are still in the unrolled circuit and in the
    fan-in of the output gate, and both C09 theorems hold for this call -/
theorem sequential_unroll_keeps_ignored_pin_names :
    SeqGood Clk.c ff "d" "q" ∧ NoClash Clk.c ff ["clk"] ∧ ¬ NoClashOld Clk.c ff ∧
    Tx.sequentialUnroll Clk.c 2 "d" "q" ["clk"] false none [] true "cg_unroll" id = .ok (Clk.uc, Clk.ioMap) ∧
    Clk.uc.has "unrolled_0_f_clk" = true ∧ Clk.uc.has "unrolled_1_f_clk" = true ∧
    "unrolled_0_f_clk" ∈ Clk.uc.fanin "unrolled_0_o" ∧ "unrolled_1_f_clk" ∈ Clk.uc.fanin "unrolled_1_o" ∧
    (∀ v, Consistent Clk.uc v → IsRun Clk.c 2 "d" "q" none Clk.ioMap v) ∧
    (∀ w, SeqRun Clk.c "d" "q" 2 w → IsShown Clk.c 2 "d" Clk.uc Clk.ioMap w) :=
  ⟨Clk.good.1, Clk.good.2.1, Clk.good.2.2, Clk.ok, Clk.f_clk_kept.1, Clk.f_clk_kept.2.1,
    by rw [Clk.f_clk_kept.2.2.2.2.1]; simp, by rw [Clk.f_clk_kept.2.2.2.2.2.1]; simp, Clk.sem, Clk.complete⟩

/-! ### `hig` -/
namespace Ign

def ffx : BBox := { name := "ffx", ins := ["clk", "d_x", "d.x"], outs := ["q"] }

def c : Circuit :=
  { nodes := [("z", A "0"), ("y", A "1"), ("clk", A "input"), ("a.clk", A "bb_input"), ("a.d_x", A "bb_input"),
              ("a.d.x", A "bb_input"), ("a.q", A "bb_output"), ("q", A "buf" true)],
    edges := [("clk", "a.clk"), ("z", "a.d_x"), ("y", "a.d.x"), ("a.q", "q")],
    bbs := [("a", ffx)] }

theorem good : SeqGoodOrig c ffx "d_x" "q" ∧ OutsOrdinary c ∧ NoClash c ffx ["d_x"] := by
  refine ⟨⟨Limit.lintClean_of_checks c ⟨by decide, by decide, by decide⟩ (by decide) (by decide) (by decide),
    by decide, by decide, by decide, by decide, by decide, by decide, ?_⟩, by decide, by decide⟩
  intro x hx
  have hm : x ∈ c.nodeNames := by
    rcases hx with hx | hx <;> exact (Circuit.has_iff_mem _ _).1 (Circuit.has_of_ty? hx)
  revert hx
  revert x
  decide

def res := Tx.sequentialUnroll c 1 "d_x" "q" ["d_x"] false none [] true "cg_unroll" id
def uc : Circuit := (res.toOption.map (·.1)).getD {}
def ioMap : List (Name × List Name) := (res.toOption.map (·.2)).getD []

theorem ok : Tx.sequentialUnroll c 1 "d_x" "q" ["d_x"] false none [] true "cg_unroll" id = .ok (uc, ioMap) := by
  have h : res.toOption.isSome = true := by decide +kernel
  unfold uc ioMap
  unfold res at h ⊢
  cases hr : Tx.sequentialUnroll c 1 "d_x" "q" ["d_x"] false none [] true "cg_unroll" id with
  | error e => rw [hr] at h; cases h
  | ok r => rfl

/-- everything true except the empty name and the copy of the constant `z` -/
def v : Val := fun n => n != "" && n != "unrolled_0_z"

theorem cons : Consistent uc v := consistentB_sound _ _ (by decide +kernel)

theorem not_run : ¬ IsRun c 1 "d_x" "q" none ioMap v := by
  rintro ⟨w, ⟨hw, _⟩, _, hB, _⟩
  have h0 := hw 0 (by decide)
  have hz : w 0 "z" = false := const_val h0 "z" (A "0") "0" false (by decide) rfl (by simp [gateFn])
  have hd : w 0 "a.d_x" = w 0 "z" :=
    const_val h0 "a.d_x" (A "bb_input") "bb_input" _ (by decide) rfl
      (by show gateFn "bb_input" [w 0 "z"] = _; simp [gateFn])
  have := hB ("a", ffx) (by decide) 0 (by decide)
  have e : Tx.ioName ioMap ("a" ++ "_" ++ "d_x") 0 = "a_d_x_cg_unroll_0" := by decide +kernel
  rw [e] at this
  have e2 : ("a" ++ "." ++ "d_x" : Name) = "a.d_x" := by decide
  rw [e2, hd, hz] at this
  simp [v] at this

/-- a run: the data pin `d_x` is low, the other pin `d.x` is high -/
def w : Val := fun n => n == "y" || n == "a.d.x"

theorem run : SeqRun c "d_x" "q" 1 (fun _ => w) := run_one (by decide)

theorem not_shown : ¬ IsShown c 1 "d_x" uc ioMap (fun _ => w) := by
  rintro ⟨v, hv, _, hB⟩
  have h2 := hB ("a", ffx) (by decide) 0 (by decide)
  have e2 : Tx.ioName ioMap ("a" ++ "_" ++ "d_x") 0 = "a_d_x_cg_unroll_0" := by decide +kernel
  rw [e2] at h2
  have a1 := buf_eq hv "a_d_x_cg_unroll_0" "unrolled_0_a_d_x" (by decide +kernel) (by decide +kernel)
  have a2 := buf_eq hv "unrolled_0_a_d_x" "unrolled_0_y" (by decide +kernel) (by decide +kernel)
  have a3 := one_eq hv "unrolled_0_y" (by decide +kernel)
  rw [a1, a2, a3] at h2
  exact absurd h2 (by decide)

end Ign

/-- `sequential_unroll_sem` is false without `hig` (all other hypotheses, old and new, hold): the ignored data pin `d_x`
    is confused with the exposed pin `d.x` -/
theorem sequential_unroll_sem_needs_hig :
    ∃ c bb n d q ignore afo initStr ru pfx ord uc ioMap v, OrdOK ord ∧ SeqGoodOrig c bb d q ∧ OutsOrdinary c ∧
      NoClash c bb ignore ∧ (∀ s, initStr = some s → s = "0" ∨ s = "1") ∧
      Tx.sequentialUnroll c n d q ignore afo initStr [] ru pfx ord = .ok (uc, ioMap) ∧ Consistent uc v ∧
      ¬ IsRun c n d q initStr ioMap v :=
  ⟨Ign.c, Ign.ffx, 1, "d_x", "q", ["d_x"], false, none, true, "cg_unroll", id, Ign.uc, Ign.ioMap, Ign.v, ordOK_id,
    Ign.good.1, Ign.good.2.1, Ign.good.2.2, (fun s hs => by cases hs), Ign.ok, Ign.cons, Ign.not_run⟩

/-- `sequential_unroll_complete` is false without `hig` -/
theorem sequential_unroll_complete_needs_hig :
    ∃ c bb n d q ignore afo initStr ru pfx ord uc ioMap w, OrdOK ord ∧ SeqGoodOrig c bb d q ∧ OutsOrdinary c ∧
      NoClash c bb ignore ∧ (∀ s, initStr = some s → s = "0" ∨ s = "1") ∧
      Tx.sequentialUnroll c n d q ignore afo initStr [] ru pfx ord = .ok (uc, ioMap) ∧ SeqRun c d q n w ∧
      (∀ s, initStr = some s → ∀ u ∈ c.bbs, w 0 (u.1 ++ "." ++ q) = (s == "1")) ∧
      ¬ IsShown c n d uc ioMap w :=
  ⟨Ign.c, Ign.ffx, 1, "d_x", "q", ["d_x"], false, none, true, "cg_unroll", id, Ign.uc, Ign.ioMap, fun _ => Ign.w, ordOK_id,
    Ign.good.1, Ign.good.2.1, Ign.good.2.2, (fun s hs => by cases hs), Ign.ok, Ign.run, (fun s hs => by cases hs),
    Ign.not_shown⟩

end CG.C09.SeqCex
