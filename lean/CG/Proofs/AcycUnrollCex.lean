/-
  Counterexamples to the ORIGINAL statements of `CG.C18.fas_cuts_all_cycles` (without `hns`) and
  `CG.C18.stable_state_preserved` (without `hnox`).  The former third counterexample (an output named like a copy
  node, K-candidate "acyclic_unroll output name collision") has been repaired in the library: the call now fails.
-/
import CG.Props.C18
namespace CG.C18.Cex
open CG Circuit CG.C18 Query

theorem consistentB_sound (c : Circuit) (v : Val) (h : consistentB c v = true) : Consistent c v := by
  intro p hp t ht b hb
  unfold consistentB at h
  rw [List.all_eq_true] at h
  have := h p hp
  rw [ht] at this
  simp only [nodeOKB] at this
  rw [hb] at this
  simpa using this

theorem ok_of_toOption {x : E Circuit} {a : Circuit} (h : x.toOption = some a) : x = .ok a := by
  cases x with
  | error e => cases h
  | ok b => simp only [Except.toOption, Option.some.injEq] at h; rw [h]

theorem ordId : OrdOK (id : Ord) := fun l => List.Perm.refl l

/-! ### 1. a self-loop is never cut -/

theorem fas_cuts_all_cycles_orig_false :
    ¬ (∀ (c : Circuit), WF c →
      isCyclic { c with edges := c.edges.filter (fun e => !(Tx.approxMinFas c).contains e) } = false) := by
  intro H
  have := H selfLoopCex ⟨by decide, by decide, by decide⟩
  exact absurd this (by decide)

/-- the original statement of `stable_state_preserved` -/
def Orig : Prop :=
  ∀ (c a : Circuit) (ord ordF : Ord), OrdOK ord → OrdOK ordF → Good c →
    Tx.acyclicUnroll c ord ordF = .ok a → ∀ (v : Val), Consistent c v →
    ∀ (w : Val), Consistent a w → (∀ i ∈ c.inputs, w i = v i) →
    (∀ f ∈ (Tx.approxMinFas c).map (·.1), w ("c0_aux_in_" ++ f) = v f) →
    ∀ o ∈ c.outputs, w o = v o

/-! ### 2. a node of type `x` -/

def xc : Circuit := { nodes := [("n", { ty := some "x", out := some true })], edges := [] }
def xa : Circuit :=
  { name := "acyc_circuit",
    nodes := [("c0_n", { ty := some "x", out := some false }), ("n", { ty := some "buf", out := some true })],
    edges := [("c0_n", "n")] }

theorem xc_good : Good xc := by
  have ty_cases : ∀ n t, xc.ty? n = some t → n = "n" ∧ t = "x" := by
    intro n t ht
    obtain ⟨p, hp, rfl, hpt⟩ := Tseitin.mem_of_ty xc n t ht
    simp only [xc, List.mem_cons, List.not_mem_nil, or_false] at hp
    subst hp
    cases hpt
    exact ⟨rfl, rfl⟩
  refine ⟨⟨⟨by decide, by decide, by decide⟩, by decide, ?_, ?_, ?_, by decide, by decide⟩, rfl, by decide⟩
  all_goals
    intro n t ht hm
    obtain ⟨rfl, rfl⟩ := ty_cases n t ht
    first | exact absurd hm (by decide) | decide

theorem preserved_needs_nox : ¬ Orig := by
  intro H
  have := H xc xa id id ordId ordId xc_good (ok_of_toOption (by decide)) (fun _ => true)
    (consistentB_sound _ _ (by decide)) (fun _ => false) (consistentB_sound _ _ (by decide))
    (by decide) (by decide) "n" (by decide)
  exact absurd this (by decide)

/-! ### 3. (repaired) an output named like a copy node: the call is now rejected -/

def cc : Circuit :=
  { nodes := [("a", { ty := some "input", out := some false }), ("y", { ty := some "not", out := some false }),
              ("c0_y", { ty := some "buf", out := some true })],
    edges := [("a", "y"), ("a", "c0_y")] }

/-- before the repair `acyclic_unroll` silently marked copy 0 of `y` as the output `c0_y`; now `add` raises -/
example : (match Tx.acyclicUnroll cc id id with | .error .valueError => true | _ => false) = true := by decide

end CG.C18.Cex
