/- C03 helper (behavioural round trip WITH blackboxes): the fold of `doAssign` over the assignments keeps the forward
   invariant `FI'` and the backward invariant `VB.BI`, with pins around.  Generalises `VT.doAssign_ok`,
   `VT.assign_items`, `VB.doAssign_bi`, `VB.assign_items_bi`; the processed list `done` may contain equations that
   are not assignments of the module (here: the pin connections). -/
import CG.Proofs.VRoundBehBBAssign
namespace CG
namespace VBB
open Verilog Circuit Ternary VT VB

variable {D P : Name → Prop} {ins : List Name} {c0 : Circuit}

theorem doAssign_ok' (hD : DeclOK' D P ins) {todo done : List (Name × Expr)} {st : TState} {l : Name} {e : Expr}
    (h : FI' D P ins c0 ((l, e) :: todo) done st) (hl : D l) (hlins : l ∉ ins) (hltodo : ∀ a ∈ todo, a.1 ≠ l)
    (htodoD : ∀ a ∈ todo, D a.1) (hids : ∀ x ∈ exprIds e, D x)
    (hdone : ∀ a ∈ done, ¬ IsSyn a.1 ∧ ∀ x ∈ exprIds a.2, ¬ IsSyn x) (hc : BinConsts e) (hnm : VP.NoMux e) :
    ∃ st', doAssign st (l, e) = .ok st' ∧ FI' D P ins c0 todo ((l, e) :: done) st' := by
  obtain ⟨s1, m, h1, o, _⟩ := evalExpr_ok2' hD e st h.si h.ge hids hc hnm
  have hlns : ¬ IsSyn l := hD.notSyn l hl
  have hundl : Und s1.c l := (h.und (l, e) (by simp)).ext o.ext hlns
  have hundt : ∀ a ∈ todo, Und s1.c a.1 := fun a ha =>
    (h.und a (List.mem_cons_of_mem _ ha)).ext o.ext (hD.notSyn _ (htodoD a ha))
  have htest := tie_test (hD.notTie l hl)
  have hdo : doAssign st (l, e) =
      (if s1.gateExprs.contains m then
        pure { c := s1.c.relabel [(m, l)], gateExprs := s1.gateExprs.filter (· != m) }
      else addNode s1 l "buf" [m] false >>= fun r2 => pure r2.1) := by
    unfold doAssign
    simp only []
    rw [h1]
    simp only [Arith.bind_ok, htest, Bool.false_eq_true, if_false]
  rw [hdo]
  rcases o.cls with hleft | ⟨hmem, hsyn, _, hhas, hnoOut⟩
  · -- buffer of a declared net or constant
    have hns : ¬ IsSyn m := by
      rcases hleft with h' | rfl | rfl
      · exact hD.notSyn m h'
      · exact tie0_not_syn
      · exact tie1_not_syn
    have hcont : s1.gateExprs.contains m = false := by
      cases hh : s1.gateExprs.contains m with
      | false => rfl
      | true => exact absurd (o.ge m (by simpa using hh)) hns
    rw [hcont]
    simp only [Bool.false_eq_true, if_false]
    obtain ⟨c', hadd, hsi, hmono, hhasl, hund', hsem⟩ := assign_buf' hD o.si hl hlins hundl (o.usable hD)
    refine ⟨{ s1 with c := c' }, ?_, hsi, o.ge, ?_, ?_, ?_⟩
    · rw [hadd]; rfl
    · intro a ha
      exact hund' a.1 (hltodo a ha) (hundt a ha)
    · intro v hv a ha
      obtain ⟨hv1, hlm⟩ := hsem v hv
      rcases List.mem_cons.mp ha with rfl | ha
      · show v l = denote v e
        rw [hlm]
        exact o.val v hv1
      · exact h.sem v (o.ext.consistent h.si.wf o.si.wf hv1) a ha
    · intro a ha
      rcases List.mem_cons.mp ha with rfl | ha
      · exact hhasl
      · exact hmono _ (o.ext.mono _ (h.hasDone a ha))
  · -- the gate is renamed onto the net
    have hcont : s1.gateExprs.contains m = true := by simpa using hmem
    rw [hcont]
    simp only [if_true]
    obtain ⟨hsi, hmono, hhasl, hund', hsem⟩ := assign_relabel' hD o.si hl hlins hundl hsyn hhas hnoOut
    refine ⟨_, rfl, hsi, ?_, ?_, ?_, ?_⟩
    · intro g hg
      exact o.ge g (List.mem_filter.mp hg).1
    · intro a ha
      exact hund' a.1 (hltodo a ha) (hD.notSyn _ (htodoD a ha)) (hundt a ha)
    · intro v hv a ha
      have hv1 := hsem v hv
      have hne : ∀ x, ¬ IsSyn x → (if x = m then l else x) = x := by
        intro x hx
        rw [if_neg]
        rintro rfl
        exact hx hsyn
      have hcongr : ∀ e', (∀ x ∈ exprIds e', ¬ IsSyn x) →
          denote (fun x => v (if x = m then l else x)) e' = denote v e' := by
        intro e' he'
        apply denote_congr
        intro x hx
        show v (if x = m then l else x) = v x
        rw [hne x (he' x hx)]
      rcases List.mem_cons.mp ha with rfl | ha
      · have hm : v (if m = m then l else m) = denote (fun x => v (if x = m then l else x)) e := o.val _ hv1
        rw [if_pos rfl] at hm
        show v l = denote v e
        rw [hm]
        exact hcongr e (fun x hx => hD.notSyn x (hids x hx))
      · have hm : v (if a.1 = m then l else a.1) = denote (fun x => v (if x = m then l else x)) a.2 :=
          h.sem _ (o.ext.consistent h.si.wf o.si.wf hv1) a ha
        rw [hne a.1 (hdone a ha).1, hcongr a.2 (hdone a ha).2] at hm
        exact hm
    · intro a ha
      rcases List.mem_cons.mp ha with rfl | ha
      · exact hhasl
      · refine hmono _ ?_ (o.ext.mono _ (h.hasDone a ha))
        rintro hx
        exact (hdone a ha).1 (hx ▸ hsyn)

/-- the fold over the `assign` items -/
theorem assign_items' (hD : DeclOK' D P ins) (bbs : List BBox) (ord : Ord) (d : Decls) :
    ∀ (todo done : List (Name × Expr)) (st : TState), FI' D P ins c0 todo done st → (todo.map (·.1)).Nodup →
      (∀ a ∈ todo, D a.1 ∧ a.1 ∉ ins ∧ (∀ x ∈ exprIds a.2, D x) ∧ BinConsts a.2 ∧ VP.NoMux a.2) →
      (∀ a ∈ done, ¬ IsSyn a.1 ∧ ∀ x ∈ exprIds a.2, ¬ IsSyn x) →
      ∃ st', (todo.map (fun a => Item.assign [a])).foldlM (doItem bbs ord) (st, d) = .ok (st', d) ∧
        FI' D P ins c0 [] (todo.reverse ++ done) st'
  | [], done, st, h, _, _, _ => ⟨st, rfl, by simpa using h⟩
  | (l, e) :: todo, done, st, h, hnd, htodo, hdone => by
    obtain ⟨hl, hlins, hids, hc, hnm⟩ := htodo (l, e) (by simp)
    rw [List.map_cons, List.nodup_cons] at hnd
    obtain ⟨st1, h1, fi1⟩ := doAssign_ok' hD h hl hlins
      (fun a ha hal => hnd.1 (List.mem_map.2 ⟨a, ha, hal⟩))
      (fun a ha => (htodo a (List.mem_cons_of_mem _ ha)).1) hids hdone hc hnm
    obtain ⟨st', h2, fi2⟩ := assign_items' hD bbs ord d todo ((l, e) :: done) st1 fi1 hnd.2
      (fun a ha => htodo a (List.mem_cons_of_mem _ ha))
      (by
        intro a ha
        rcases List.mem_cons.mp ha with rfl | ha
        · exact ⟨hD.notSyn _ hl, fun x hx => hD.notSyn x (hids x hx)⟩
        · exact hdone a ha)
    refine ⟨st', ?_, by simpa using fi2⟩
    rw [List.map_cons, List.foldlM_cons]
    have : doItem bbs ord (st, d) (Item.assign [(l, e)]) = .ok (st1, d) := by
      simp only [doItem, List.foldlM_cons, List.foldlM_nil]
      rw [h1]
      rfl
    rw [this]
    exact h2


theorem doAssign_bi' (hD : DeclOK' D P ins) {todo done : List (Name × Expr)} {st : TState} {l : Name} {e : Expr}
    (h : FI' D P ins c0 ((l, e) :: todo) done st) (hl : D l)
    (hids : ∀ x ∈ exprIds e, D x) (hc : BinConsts e) (hnm : VP.NoMux e) (hbi : BI done st.c)
    (st' : TState) (hst' : doAssign st (l, e) = .ok st') : BI ((l, e) :: done) st'.c := by
  intro v h0 h1 hdone'
  obtain ⟨v0, hv0, ag0⟩ := hbi v h0 h1 (fun a ha => hdone' a (List.mem_cons_of_mem _ ha))
  obtain ⟨s1, m, he1, o, bx⟩ := evalExpr_ok2' hD e st h.si h.ge hids hc hnm
  obtain ⟨v1, hv1, ag1⟩ := bx v0 hv0
  have agv : ∀ x, ¬ IsSyn x → v1 x = v x := fun x hx => (ag1 x (Or.inr hx)).trans (ag0 x hx)
  have hlns : ¬ IsSyn l := hD.notSyn l hl
  have hml : v1 m = v1 l := by
    have e1 : v1 m = denote v1 e := o.val v1 hv1
    have e2 : denote v1 e = denote v e := denote_congr e (fun x hx => agv x (hD.notSyn x (hids x hx)))
    have e3 : v l = denote v e := hdone' (l, e) (by simp)
    rw [e1, e2, agv l hlns, e3]
  have hundl : Und s1.c l := (h.und (l, e) (by simp)).ext o.ext hlns
  have htest := tie_test (hD.notTie l hl)
  have hdo : doAssign st (l, e) =
      (if s1.gateExprs.contains m then
        pure { c := s1.c.relabel [(m, l)], gateExprs := s1.gateExprs.filter (· != m) }
      else addNode s1 l "buf" [m] false >>= fun r2 => pure r2.1) := by
    unfold doAssign
    simp only []
    rw [he1]
    simp only [Arith.bind_ok, htest, Bool.false_eq_true, if_false]
  rw [hdo] at hst'
  rcases o.cls with hleft | ⟨hmem, hsyn, _, hhas, hnoOut⟩
  · -- buffer of a declared net or constant
    have hns : ¬ IsSyn m := by
      rcases hleft with h' | rfl | rfl
      · exact hD.notSyn m h'
      · exact tie0_not_syn
      · exact tie1_not_syn
    have hcont : s1.gateExprs.contains m = false := by
      cases hh : s1.gateExprs.contains m with
      | false => rfl
      | true => exact absurd (o.ge m (by simpa using hh)) hns
    rw [hcont] at hst'
    simp only [Bool.false_eq_true, if_false] at hst'
    have hm := (o.usable hD)
    obtain ⟨c', hadd, s, _, _⟩ := VR.add_ok_gen s1.c
      { n := l, ty := "buf", fanin := [m], uid := false, addConnected := true, allowRedef := true } l
      rfl (fun _ => rfl) (hD.nameOK l hl) (show "buf" ∈ Expected.supported_types by decide)
      (show "buf" ≠ "bb_input" ∧ "buf" ≠ "bb_output" by decide)
      (fun _ => ⟨by simp, fun _ e he => hundl.2 e he⟩)
      (by
        intro h
        have h' : "buf" = "0" ∨ "buf" = "1" ∨ "buf" = "x" ∨ "buf" = "input" := h
        exact absurd h' (by decide))
      rfl rfl
      (by
        intro u hu
        rw [List.mem_singleton] at hu; subst hu
        exact o.si.usable_fi hD hm)
    have hst2 : st' = { s1 with c := c' } := by
      unfold addNode addE at hst'
      rw [hadd] at hst'
      simp only [Arith.bind_ok] at hst'
      injection hst' with hst'
      exact hst'.symm
    rw [hst2]
    refine ⟨v1, ?_, agv⟩
    apply addSpec_consistent s o.si.wf rfl hv1
    intro b hb
    have hfi : FaninIs c' l [m] := by
      intro u
      rw [s.edges]
      constructor
      · rintro (h | h | h)
        · exact absurd rfl (hundl.2 _ h)
        · simp at h
        · exact h.1
      · intro h; exact Or.inr (Or.inr ⟨h, rfl⟩)
    rw [Arith.gate_preds (s.nodupE o.si.wf.edgesNodup) [m] (by simp) hfi] at hb
    simp only [List.map_cons, List.map_nil] at hb
    rw [gate_buf1] at hb
    injection hb with hb
    rw [← hb, hml]
  · -- the gate is renamed onto the net
    have hcont : s1.gateExprs.contains m = true := by simpa using hmem
    rw [hcont] at hst'
    simp only [if_true] at hst'
    have hst2 : st' = { c := s1.c.relabel [(m, l)], gateExprs := s1.gateExprs.filter (· != m) } := by
      injection hst' with hst'
      exact hst'.symm
    rw [hst2]
    have hlm : l ≠ m := fun h => hlns (h ▸ hsyn)
    have hmx : m ≠ "tie_x" := fun h => tiex_not_syn (h ▸ hsyn)
    obtain ⟨a, ha⟩ := Limit.attr_of_has hhas
    obtain ⟨haout, ty, haty, _⟩ := o.si.typed m a ha hmx (fun hp => hD.pNotSyn m hp hsyn)
    exact ⟨v1, relabel_consistent o.si.wf hundl hhas hnoOut hlm ha (by rw [haty]; rfl) (by rw [haout]; rfl) hv1 hml,
      agv⟩

/-- the fold over the `assign` items keeps the backward invariant -/
theorem assign_items_bi' (hD : DeclOK' D P ins) (bbs : List BBox) (ord : Ord) (d : Decls) :
    ∀ (todo done : List (Name × Expr)) (st : TState), FI' D P ins c0 todo done st → (todo.map (·.1)).Nodup →
      (∀ a ∈ todo, D a.1 ∧ a.1 ∉ ins ∧ (∀ x ∈ exprIds a.2, D x) ∧ BinConsts a.2 ∧ VP.NoMux a.2) →
      (∀ a ∈ done, ¬ IsSyn a.1 ∧ ∀ x ∈ exprIds a.2, ¬ IsSyn x) → BI done st.c →
      ∀ st', (todo.map (fun a => Item.assign [a])).foldlM (doItem bbs ord) (st, d) = .ok (st', d) →
        BI (todo.reverse ++ done) st'.c
  | [], done, st, _, _, _, _, hbi, st', hst' => by
    simp only [List.map_nil, List.foldlM_nil] at hst'
    injection hst' with hst'
    injection hst' with hst' _
    rw [← hst']
    simpa using hbi
  | (l, e) :: todo, done, st, h, hnd, htodo, hdone, hbi, st', hst' => by
    obtain ⟨hl, hlins, hids, hc, hnm⟩ := htodo (l, e) (by simp)
    rw [List.map_cons, List.nodup_cons] at hnd
    obtain ⟨st1, h1, fi1⟩ := doAssign_ok' hD h hl hlins
      (fun a ha hal => hnd.1 (List.mem_map.2 ⟨a, ha, hal⟩))
      (fun a ha => (htodo a (List.mem_cons_of_mem _ ha)).1) hids hdone hc hnm
    have bi1 := doAssign_bi' hD h hl hids hc hnm hbi st1 h1
    rw [List.map_cons, List.foldlM_cons] at hst'
    have : doItem bbs ord (st, d) (Item.assign [(l, e)]) = .ok (st1, d) := by
      simp only [doItem, List.foldlM_cons, List.foldlM_nil]
      rw [h1]
      rfl
    rw [this, Arith.bind_ok] at hst'
    have := assign_items_bi' hD bbs ord d todo ((l, e) :: done) st1 fi1 hnd.2
      (fun a ha => htodo a (List.mem_cons_of_mem _ ha))
      (by
        intro a ha
        rcases List.mem_cons.mp ha with rfl | ha
        · exact ⟨hD.notSyn _ hl, fun x hx => hD.notSyn x (hids x hx)⟩
        · exact hdone a ha) bi1 st' hst'
    simpa using this

end VBB
end CG
