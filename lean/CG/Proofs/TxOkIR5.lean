/- C05 (`insert_registers_ok`): the depth table, the clock input, and the main statement -/
import CG.Proofs.TxOkIR4
import CG.Proofs.QueryDepth
set_option linter.unusedSimpArgs false
set_option linter.unusedVariables false
namespace CG
namespace TxOk
open Circuit InsReg LintProdD

theorem ok_bind {α β : Type} (a : α) (f : α → E β) : ((Except.ok a : E α) >>= f) = f a := rfl

/-! ### the depth table -/

/-- the depth table lists the nodes in graph order, each with its computed depth -/
theorem mapM_spec (g : Name → Except Outcome Nat) : ∀ (l : List Name) (r : List (Name × Nat)),
    l.mapM (fun n => match g n with | .ok d => (Except.ok (n, d) : E (Name × Nat)) | .error e => .error e) = .ok r →
    r.map (·.1) = l ∧ ∀ p ∈ r, g p.1 = .ok p.2
  | [], r, h => by
    rw [List.mapM_nil] at h
    injection h with h
    subst h
    exact ⟨rfl, fun p hp => by cases hp⟩
  | x :: l, r, h => by
    rw [List.mapM_cons] at h
    obtain ⟨y, h1, h⟩ := AU.bind_ok h
    obtain ⟨ys, h2, h⟩ := AU.bind_ok h
    injection h with h
    subst h
    obtain ⟨i1, i2⟩ := mapM_spec g l ys h2
    cases hg : g x with
    | error e => rw [hg] at h1; cases h1
    | ok d =>
      rw [hg] at h1
      injection h1 with h1
      subst h1
      refine ⟨by rw [List.map_cons, i1], ?_⟩
      intro p hp
      rcases List.mem_cons.mp hp with rfl | hp
      · exact hg
      · exact i2 p hp

/-- a node without fan-in has depth 0 -/
theorem depth_zero (c : Circuit) (n : Name) (hn : c.has n = true) (hfi : c.fanin n = []) (ord : Ord) (hord : OrdOK ord)
    (fuel d : Nat) (hd : Query.depth c false [n] true ord fuel = .ok d) : d = 0 := by
  obtain ⟨a, ha, b, hp⟩ := Q.depth_sound c false [n] (by intro x hx; rw [List.mem_singleton] at hx; rw [hx]; exact hn)
    ord hord fuel d hd
  rw [List.mem_singleton] at ha
  subst ha
  simp only [Bool.false_eq_true, if_false] at hp
  cases d with
  | zero => rfl
  | succ k =>
    obtain ⟨b', _, he⟩ := hp.snoc_inv
    have : b' ∈ c.fanin a := mem_fanin.2 he
    rw [hfi] at this
    cases this

/-! ### the clock input -/

structure ClkView (c c1 : Circuit) : Prop where
  glob : Glob c1
  old : ∀ m, c.has m = true → c1.has m = true ∧ c1.ty? m = c.ty? m
  bbs : c1.bbs = c.bbs
  new : ∀ x, c1.has x = true → c.has x = true ∨ x = "clk"

theorem clk_stage {c : Circuit} (hc : LintClean c)
    (hclk : c.has "clk" = true → NotPin c "clk") :
    ∃ c1, (if c.has "clk" then pure c else Tx.addC c { n := "clk", ty := "input" }) = Except.ok c1 ∧ ClkView c c1 := by
  by_cases hk : c.has "clk" = true
  · rw [if_pos hk]
    exact ⟨c, rfl, ⟨hc, hk, hclk hk⟩, fun m hm => ⟨hm, rfl⟩, rfl, fun x hx => Or.inl hx⟩
  · rw [if_neg hk]
    have hk' : c.has "clk" = false := by simpa using hk
    have hadd := pin_add_ok c "clk" "input" hk' ⟨by decide, by decide⟩ (by decide)
    refine ⟨c.addNodeAttr "clk" { ty := some "input", out := some false }, ?_, ?_⟩
    · unfold Tx.addC addE
      rw [hadd]
      rfl
    · have hnodes : (c.addNodeAttr "clk" { ty := some "input", out := some false }).nodes =
          c.nodes ++ [("clk", { ty := some "input", out := some false })] := by
        rw [addNodeAttr_fresh _ hk']
      refine ⟨⟨lintClean_addInput hc hk', (Limit.ext_has hnodes "clk").2 (Or.inr rfl), ?_⟩, ?_, addNodeAttr_bbs _ _ _,
        fun x hx => (Limit.ext_has hnodes x).1 hx⟩
      · unfold NotPin
        rw [Limit.ext_ty_new hnodes hk']
        exact ⟨by decide, by decide⟩
      · intro m hm
        exact ⟨(Limit.ext_has hnodes m).2 (Or.inl hm), Limit.ext_ty_old hnodes hm⟩

/-! ### main statement -/

/-- **`insert_registers` succeeds** on a lint-clean, blackbox-free circuit without `bb_input` nodes whose node names are
    dot-free and do not start with a digit, when the depth computation succeeds, a stage boundary exists, the pins of
    the flop instances `ff_<n>` are not already nodes and an existing `clk` node is no `bb_output` -/
theorem insert_registers_succeeds (c : Circuit) (k : Nat) (ord : Ord) (hord : OrdOK ord) (fuel : Nat)
    (hc : LintClean c) (hnobb : c.bbs = [])
    (hnopin : ∀ p ∈ c.nodes, p.2.ty ≠ some "bb_input")
    (hnames : ∀ p ∈ c.nodes, Circuit.isDigit0 p.1 = false ∧ hasDot p.1 = false)
    (depths : List (Name × Nat))
    (hdepths : c.nodeNames.mapM (fun n => match Query.depth c false [n] true ord fuel with
        | .ok d => Except.ok (n, d) | .error e => .error e) = .ok depths)
    (hinc : Tx.roundDiv (depths.foldl (fun m p => max m p.2) 0) (k + 1) ≠ 0)
    (hclash : ∀ n, c.has n = true → ∀ g ∈ ["d", "q", "clk"], c.has ("ff_" ++ n ++ "." ++ g) = false)
    (hclk : c.has "clk" = true → c.ty? "clk" ≠ some "bb_output") :
    ∃ c', Tx.insertRegisters c k ord fuel = .ok c' := by
  have hnopin' : ∀ m, c.ty? m ≠ some "bb_input" := by
    intro m h
    obtain ⟨a, ha⟩ := Limit.attr_of_has (has_of_ty? h)
    apply hnopin _ (attr?_mem ha)
    unfold Circuit.ty? at h
    rw [ha] at h
    exact h
  obtain ⟨c1, hc1, V⟩ := clk_stage hc (fun h => ⟨hnopin' "clk", hclk h⟩)
  obtain ⟨dfst, dval⟩ := mapM_spec _ _ _ hdepths
  have hdnd : (depths.map (·.1)).Nodup := by rw [dfst]; exact hc.nodup
  rw [insertRegisters_eq]
  erw [hdepths]
  rw [ok_bind, hc1, ok_bind]
  have hinc' : ¬ (Tx.roundDiv (depths.foldl (fun m p => max m p.2) 0) (k + 1) == 0) = true := by
    simpa using hinc
  rw [if_neg hinc']
  generalize Tx.roundDiv (depths.foldl (fun m p => max m p.2) 0) (k + 1) = inc at hinc
  apply outer_ok hord (fun i => (depths.filter (fun p => p.2 == i)).map (·.1)) _ c1 V.glob
  · exact List.Nodup.sublist List.filter_sublist List.nodup_range
  · intro i _
    exact List.Nodup.sublist (List.Sublist.map _ List.filter_sublist) hdnd
  · intro i _ j _ hij m hmi hmj
    obtain ⟨p, hp, rfl⟩ := List.mem_map.1 hmi
    obtain ⟨q, hq, e⟩ := List.mem_map.1 hmj
    rw [List.mem_filter] at hp hq
    have hpq := Strip.eq_of_map_nodup (·.1) depths hdnd q hq.1 p hp.1 e
    apply hij
    have h1 : p.2 = i := by simpa using hp.2
    have h2 : q.2 = j := by simpa using hq.2
    rw [← h1, ← h2, hpq]
  · intro i hi m hm
    obtain ⟨p, hp, rfl⟩ := List.mem_map.1 hm
    rw [List.mem_filter] at hp hi
    have hpi : p.2 = i := by simpa using hp.2
    have hige : 1 ≤ i := by
      have : inc ≤ i := by
        have := hi.2
        simp only [Bool.and_eq_true, decide_eq_true_eq] at this
        exact this.1
      omega
    have hmem : p.1 ∈ c.nodeNames := by rw [← dfst]; exact List.mem_map.2 ⟨p, hp.1, rfl⟩
    have hhas : c.has p.1 = true := (has_iff_mem c p.1).2 hmem
    obtain ⟨a, ha⟩ := Limit.attr_of_has hhas
    obtain ⟨hdig, hdot⟩ := hnames _ (attr?_mem ha)
    obtain ⟨o1, o2⟩ := V.old p.1 hhas
    refine ⟨o1, hdig, hdot, ?_, by rw [V.bbs, hnobb]; rfl, ?_⟩
    · unfold NotPin
      rw [o2]
      refine ⟨hnopin' p.1, fun hb => ?_⟩
      have hfi := hc.noFanin p.1 "bb_output" hb (by decide)
      have := depth_zero c p.1 hhas hfi ord hord fuel p.2 (dval p hp.1)
      omega
    · intro g hg
      cases hh : c1.has ("ff_" ++ p.1 ++ "." ++ g) with
      | false => rfl
      | true =>
        exfalso
        rcases V.new _ hh with h1 | h1
        · rw [hclash p.1 hhas g hg] at h1; cases h1
        · have := hasDot_pin p.1 g
          rw [h1] at this
          exact absurd this (by decide)

end TxOk
end CG
