/- helper lemmas for C03 (Verilog write -> read round trip): from the description of the circuit that is read back
   (`VR.Result`, proved in VRoundFinal) to the clauses of the property theorems -/
import CG.Verilog
import CG.VerilogTables
import CG.Spec
import CG.Props.C06
import CG.Proofs.VRoundFinal
namespace CG
namespace VR
open Verilog Circuit

theorem mem_outputs' {c : Circuit} (hnd : c.nodeNames.Nodup) (x : Name) :
    x ∈ c.outputs ↔ ∃ a, c.attr? x = some a ∧ a.out.getD false = true := by
  unfold Circuit.outputs
  simp only [List.mem_map, List.mem_filter]
  constructor
  · rintro ⟨⟨n, a⟩, ⟨hp, hq⟩, e⟩
    simp only at e; subst e
    exact ⟨a, attr?_of_mem hnd hp, hq⟩
  · rintro ⟨a, ha, hq⟩
    exact ⟨(x, a), ⟨attr?_mem ha, hq⟩, rfl⟩

theorem Result.attr_has {c c' : Circuit} (r : Result c c') {x : Name} (hx : c.has x = true) :
    ∃ o, c'.attr? x = some { ty := some (fty c x), out := some o } ∧ (o = true ↔ x ∈ c.outputs) := by
  by_cases ho : x ∈ c.outputs
  · exact ⟨true, r.attr_out x ho, by simp [ho]⟩
  · exact ⟨false, r.attr_in x hx ho, by simp [ho]⟩

/-- the attributes of a node outside `c` -/
theorem Result.attr_not_has {c c' : Circuit} (r : Result c c') {x : Name} (hx : c.has x = false) :
    c'.attr? x = none ∨ ∃ t, t ∈ constTys ∧ x = "tie_" ++ t ∧ (∃ n, c.ty? n = some t) ∧
      c'.attr? x = some { ty := some t, out := some false } := by
  by_cases hxt : isTie x
  · obtain ⟨t, ht, rfl⟩ := (isTie_iff x).1 hxt
    by_cases hu : ∃ n, c.ty? n = some t
    · exact Or.inr ⟨t, ht, rfl, hu, r.tie_used t ht hu⟩
    · exact Or.inl (r.tie_unused t ht (fun n hn => hu ⟨n, hn⟩))
  · exact Or.inl (r.other x hx hxt)

theorem Wr.attr_full {c : Circuit} (hc : Wr c) {x : Name} (hx : c.has x = true) :
    ∃ t o, c.attr? x = some { ty := some t, out := some o } ∧ c.ty? x = some t ∧ (o = true ↔ x ∈ c.outputs) := by
  obtain ⟨a, ha⟩ := Limit.attr_of_has hx
  obtain ⟨h1, h2⟩ := hc.full (x, a) (attr?_mem ha)
  obtain ⟨t, o⟩ := a
  simp only at h1 h2
  cases t with
  | none => cases h1
  | some t =>
    cases o with
    | none => cases h2
    | some o =>
      refine ⟨t, o, ha, Ternary.ty_of_attr ha, ?_⟩
      rw [mem_outputs' hc.clean.nodup]
      constructor
      · intro ho; exact ⟨_, ha, by simp [ho]⟩
      · rintro ⟨a', ha', hq⟩
        rw [ha] at ha'; injection ha' with ha'; subst ha'
        simpa using hq

/-- gate-primitive form without constants: identical attributes and wires -/
theorem struct_of_result {c c' : Circuit} (hc : Wr c) (r : Result c c')
    (hnc : ∀ x t, c.ty? x = some t → t ∉ constTys) :
    (∀ n, c.attr? n = c'.attr? n) ∧ (∀ e, e ∈ c.edges ↔ e ∈ c'.edges) := by
  constructor
  · intro n
    cases hn : c.has n with
    | true =>
      obtain ⟨t, o, ha, hty, ho⟩ := hc.attr_full hn
      obtain ⟨o', ha', ho'⟩ := r.attr_has hn
      rw [ha, ha', fty_of hty (hnc n t hty)]
      have : o = o' := by
        cases o <;> cases o' <;> simp_all
      rw [this]
    | false =>
      rw [attr?_none_of_not_has hn]
      rcases r.attr_not_has hn with h1 | ⟨t, ht, _, ⟨m, hm⟩, _⟩
      · rw [h1]
      · exact absurd ht (hnc m t hm)
  · intro e
    rw [r.edges]
    constructor
    · exact Or.inl
    · rintro (h1 | ⟨t, ht, h1, _⟩)
      · exact h1
      · exact absurd ht (hnc _ t h1)

theorem const_ne_input {t : String} (h : t ∈ constTys) : t ≠ "input" := by
  simp only [constTys, List.mem_cons, List.not_mem_nil, or_false] at h
  rcases h with rfl | rfl | rfl <;> decide

theorem inputs_of_result {c c' : Circuit} (hc : Wr c) (r : Result c c') (x : Name) :
    x ∈ c'.inputs ↔ x ∈ c.inputs := by
  rw [mem_inputs r.wf.nodup, mem_inputs hc.clean.nodup]
  cases hx : c.has x with
  | true =>
    obtain ⟨o, ha, _⟩ := r.attr_has hx
    rw [Ternary.ty_of_attr ha]
    obtain ⟨t, ht, _⟩ := hc.ws.typed x hx
    rw [ht]
    by_cases hct : t ∈ constTys
    · rw [fty_const ht hct]
      constructor
      · intro h; injection h with h; exact absurd h (by decide)
      · intro h; injection h with h; exact absurd h (const_ne_input hct)
    · rw [fty_of ht hct]
  | false =>
    rw [ty?_none_of_not_has hx]
    rcases r.attr_not_has hx with h1 | ⟨t, ht, _, _, h1⟩
    · unfold Circuit.ty?; rw [h1]; simp
    · rw [Ternary.ty_of_attr h1]
      constructor
      · intro h; injection h with h; exact absurd h (const_ne_input ht)
      · intro h; cases h

theorem outputs_of_result {c c' : Circuit} (r : Result c c') (x : Name) :
    x ∈ c'.outputs ↔ x ∈ c.outputs := by
  constructor
  · intro h
    obtain ⟨a, ha, hq⟩ := (mem_outputs' r.wf.nodup x).1 h
    cases hx : c.has x with
    | true =>
      obtain ⟨o, ha', ho⟩ := r.attr_has hx
      rw [ha] at ha'; injection ha' with ha'; subst ha'
      exact ho.1 (by simpa using hq)
    | false =>
      rcases r.attr_not_has hx with h1 | ⟨t, _, _, _, h1⟩
      · rw [ha] at h1; cases h1
      · rw [ha] at h1; injection h1 with h1; subst h1; simp at hq
  · intro h
    exact (mem_outputs' r.wf.nodup x).2 ⟨_, r.attr_out x h, rfl⟩

theorem gate_x (l : List Bool) : gateFn "x" l = none := by
  unfold gateFn; simp

theorem gate_one (l : List Bool) : gateFn "1" l = some true := by
  unfold gateFn; simp

/-- constants come back as buffers of the reader's constant nodes: every valuation of the result is one of `c` -/
theorem consistent_of_result {c c' : Circuit} (hc : Wr c) (r : Result c c') (v : Val) (hv : Consistent c' v) :
    Consistent c v := by
  intro p hp t ht b hb
  have hnd := hc.clean.nodup
  have hpa : c.attr? p.1 = some p.2 := attr?_of_mem hnd hp
  have hx : c.has p.1 = true := Limit.has_of_attr hpa
  have hty : c.ty? p.1 = some t := by rw [Ternary.ty_of_attr hpa, ht]
  obtain ⟨o, ha', _⟩ := r.attr_has hx
  have hm' := attr?_mem ha'
  by_cases hct : t ∈ constTys
  · -- a constant: `buf` of the constant node
    have hfty := fty_const hty hct
    rw [hfty] at hm'
    have hused := r.tie_used t hct ⟨p.1, hty⟩
    have hmt := attr?_mem hused
    have hedge : ∀ u, (u, p.1) ∈ c'.edges ↔ u = "tie_" ++ t := by
      intro u
      rw [r.edges]
      constructor
      · rintro (h1 | ⟨t', _, h1, h2⟩)
        · exact absurd (const_facts hct).1 (hc.ws.noFanin u p.1 h1 t hty)
        · simp only at h1 h2
          rw [hty] at h1; injection h1 with h1
          rw [h2, h1]
      · rintro rfl
        exact Or.inr ⟨t, hct, hty, rfl⟩
    have hbuf : v p.1 = v ("tie_" ++ t) := Arith.buf_val hv r.wf.edgesNodup hm' rfl hedge
    simp only [constTys, List.mem_cons, List.not_mem_nil, or_false] at hct
    rcases hct with rfl | rfl | rfl
    · rw [Arith.gate_zero] at hb; injection hb with hb
      rw [hbuf, ← hb]
      exact Arith.zero_val hv hmt rfl
    · rw [gate_one] at hb; injection hb with hb
      rw [hbuf, ← hb]
      exact hv _ hmt "1" rfl true (gate_one _)
    · rw [gate_x] at hb; cases hb
  · -- any other node: same type, same predecessors
    rw [fty_of hty hct] at hm'
    refine Arith.node_val hv r.wf.edgesNodup hm' rfl (c.fanin p.1) (fanin_nodup hc.clean.edgesNodup p.1) ?_ hb
    intro u
    rw [mem_fanin, r.edges]
    constructor
    · rintro (h1 | ⟨t', ht', h1, _⟩)
      · exact h1
      · simp only at h1
        rw [hty] at h1; injection h1 with h1
        rw [h1] at hct; exact absurd ht' hct
    · exact Or.inl

end VR
end CG
