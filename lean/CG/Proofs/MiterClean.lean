/- helper lemmas for C04 (miter): the miter of two lint-clean circuits is `C01.Clean` -/
import CG.Proofs.MiterCompl
set_option linter.unusedSimpArgs false
set_option linter.unusedVariables false
namespace CG
namespace Miter
open Circuit

section view
variable {c0 c1 m : Circuit} {sp ep : List Name}

theorem copy_typed {c : Circuit} (hc : LintClean c) (hx : ∀ p ∈ c.nodes, p.2.ty ≠ some "x")
    {q : Name × Attr} (hq : q ∈ c.nodes) :
    ∃ t, (stripA q.2).ty = some t ∧ t ∈ Expected.supported_types ∧ t ≠ "x" := by
  obtain ⟨t, ht, hsup⟩ := hc.typed q hq
  by_cases hi : t = "input"
  · subst hi
    exact ⟨"buf", stripA_input ht, by decide, by decide⟩
  · refine ⟨t, stripA_ty_of_ne ht hi, hsup, ?_⟩
    rintro rfl
    exact hx q hq ht

theorem noFanin_inputs {c : Circuit} (hc : LintClean c) : ∀ n ∈ c.inputs, c.fanin n = [] := fun n hn =>
  hc.noFanin n "input" ((mem_inputs hc.nodup n).1 hn) (by decide)

theorem copy_single {c : Circuit} {name : Name} (hc : LintClean c) (hsp : ∀ s ∈ sp, s ∈ c.inputs)
    {q : Name × Attr} (hq : q ∈ c.nodes) {t : String} (ht : (stripA q.2).ty = some t)
    (hm : t ∈ ["buf", "not", "bb_input"])
    (fan : m.fanin (pref name q.1) = (c.fanin q.1).map (pref name) ++ (if q.1 ∈ sp then [q.1] else [])) :
    (m.fanin (pref name q.1)).length ≤ 1 := by
  rw [fan]
  rcases stripA_cases q.2 ht with ⟨hi, rfl⟩ | ⟨hty, hne⟩
  · have hin : q.1 ∈ c.inputs := (mem_inputs_of_mem hc.nodup (a := q.2) hq).2 hi
    rw [noFanin_inputs hc _ hin]
    by_cases hs : q.1 ∈ sp
    · rw [if_pos hs]; simp
    · rw [if_neg hs]; simp
  · have hns : q.1 ∉ sp := by
      intro hs
      have := (mem_inputs_of_mem hc.nodup (a := q.2) hq).1 (hsp _ hs)
      rw [hty] at this; injection this with this; exact hne this
    rw [if_neg hns, List.append_nil, List.length_map, hc.single q.1 t (ty?_of_mem hc.nodup hq hty) hm]
    exact Nat.le_refl 1

theorem copy_multi {c : Circuit} {name : Name} (hc : LintClean c)
    {q : Name × Attr} (hq : q ∈ c.nodes) {t : String} (ht : (stripA q.2).ty = some t)
    (hm : t ∈ ["and", "nand", "or", "nor", "xor", "xnor"])
    (fan : m.fanin (pref name q.1) = (c.fanin q.1).map (pref name) ++ (if q.1 ∈ sp then [q.1] else [])) :
    1 ≤ (m.fanin (pref name q.1)).length := by
  rw [fan]
  rcases stripA_cases q.2 ht with ⟨hi, rfl⟩ | ⟨hty, hne⟩
  · exact absurd hm (by decide)
  · have := hc.multi q.1 t (ty?_of_mem hc.nodup hq hty) hm
    rw [List.length_append, List.length_map]
    omega

theorem MView.clean' (V : MView c0 c1 sp ep m) (h0 : LintClean c0) (h1 : LintClean c1)
    (hsp : sp.Nodup) (hep : ep.Nodup)
    (hin0 : ∀ s ∈ sp, s ∈ c0.inputs) (hin1 : ∀ s ∈ sp, s ∈ c1.inputs)
    (hx0 : ∀ p ∈ c0.nodes, p.2.ty ≠ some "x") (hx1 : ∀ p ∈ c1.nodes, p.2.ty ≠ some "x") : C01.Clean m := by
  refine ⟨V.wf.nodup, ?_, ?_, ?_⟩
  · intro p hp
    rcases V.cases hp with ⟨q, hq, rfl⟩ | ⟨q, hq, rfl⟩ | ⟨s, hs, rfl⟩ | rfl | ⟨e, he, rfl⟩
    · exact copy_typed h0 hx0 hq
    · exact copy_typed h1 hx1 hq
    · exact ⟨"input", rfl, by decide, by decide⟩
    · refine ⟨satTy ep, rfl, ?_⟩
      rcases satTy_cases ep with h | h | h <;> rw [h] <;> exact ⟨by decide, by decide⟩
    · exact ⟨"xor", rfl, by decide, by decide⟩
  · intro n t hty hm
    obtain ⟨p, hp, rfl, ht⟩ := Tseitin.mem_of_ty m n t hty
    rcases V.cases hp with ⟨q, hq, rfl⟩ | ⟨q, hq, rfl⟩ | ⟨s, hs, rfl⟩ | rfl | ⟨e, he, rfl⟩
    · exact copy_single h0 hin0 hq ht hm (V.fanin_c0 hsp q.1)
    · exact copy_single h1 hin1 hq ht hm (V.fanin_c1 hsp q.1)
    · simp only [] at ht
      injection ht with ht
      subst ht
      exact absurd hm (by decide)
    · simp only [satNode] at ht ⊢
      injection ht with ht
      rw [V.fanin_sat, List.length_map]
      cases ep with
      | nil => rw [satTy_nil] at ht; subst ht; exact absurd hm (by decide)
      | cons a l =>
        cases l with
        | nil => exact Nat.le_refl _
        | cons b l => rw [satTy_two] at ht; subst ht; exact absurd hm (by decide)
    · simp only [] at ht
      injection ht with ht
      subst ht
      exact absurd hm (by decide)
  · intro n t hty hm
    obtain ⟨p, hp, rfl, ht⟩ := Tseitin.mem_of_ty m n t hty
    rcases V.cases hp with ⟨q, hq, rfl⟩ | ⟨q, hq, rfl⟩ | ⟨s, hs, rfl⟩ | rfl | ⟨e, he, rfl⟩
    · exact copy_multi h0 hq ht hm (V.fanin_c0 hsp q.1)
    · exact copy_multi h1 hq ht hm (V.fanin_c1 hsp q.1)
    · simp only [] at ht
      injection ht with ht
      subst ht
      exact absurd hm (by decide)
    · simp only [satNode] at ht ⊢
      rw [V.fanin_sat, List.length_map]
      cases ep with
      | nil =>
        injection ht with ht
        rw [satTy_nil] at ht; subst ht; exact absurd hm (by decide)
      | cons a l => simp
    · simp only [] at ht ⊢
      rw [V.fanin_dif hep he]
      simp

/-- (old signature, kept for the users that have `ep ≠ []` at hand) -/
theorem MView.clean (V : MView c0 c1 sp ep m) (h0 : LintClean c0) (h1 : LintClean c1)
    (hsp : sp.Nodup) (hep : ep.Nodup) (hne : ep ≠ [])
    (hin0 : ∀ s ∈ sp, s ∈ c0.inputs) (hin1 : ∀ s ∈ sp, s ∈ c1.inputs)
    (hx0 : ∀ p ∈ c0.nodes, p.2.ty ≠ some "x") (hx1 : ∀ p ∈ c1.nodes, p.2.ty ≠ some "x") : C01.Clean m :=
  V.clean' h0 h1 hsp hep hin0 hin1 hx0 hx1

end view

end Miter
end CG
