/- C14 (character level, fast parser) helper: the characters of the text of a restricted netlist in the writer's layout -/
import CG.Props.C14
import CG.Proofs.FastTextDefs
import CG.Proofs.VModTextRunMod
set_option linter.unusedSimpArgs false
namespace CG
namespace FT
open Regex BenchText Verilog C14

/-- copy of `C14.RMod.toW` -/
def toW (r : RMod) (wires : List Name) : WModule :=
  { name := r.name, inputs := r.inputs, outputs := r.outputs, wires := wires, stmts := r.stmts.map RStmt.item, parens := [] }

def opT (o : ROp) : List Char := o.text.toList

def pinOf (p : Name × Option ROp) : List Char × List Char := (p.1.toList, (p.2.map opT).getD [])

/-- the line of a statement -/
def stmtLine : RStmt → List Char
  | .gate ty inst out ops => gateLine ty.toList inst.toList (commaSep (out.toList :: ops.map opT))
  | .assign l r => asgLine l.toList (opT r)
  | .bb ty inst pins => bbLine ty.toList inst.toList (pinsT (pins.map pinOf))

theorem renderExpr_op (o : ROp) : renderExpr o.expr = o.text := by
  cases o <;> rfl

theorem stmt_line (s : RStmt) : ("  " ++ renderStmt false s.item ++ ";\n").toList = stmtLine s := by
  have e0 : "  ".toList = [' ', ' '] := by decide
  have e1 : ";\n".toList = [';', '\n'] := by decide
  have e2 : " ".toList = [' '] := by decide
  have e3 : "(".toList = ['('] := by decide
  have e4 : ")".toList = [')'] := by decide
  have e5 : ", ".toList = [',', ' '] := by decide
  have e6 : " (".toList = [' ', '('] := by decide
  have e7 : "assign ".toList = kAssign ++ [' '] := by decide
  have e8 : " = ".toList = [' ', '=', ' '] := by decide
  have e9 : ".".toList = ['.'] := by decide
  cases s with
  | gate ty inst out ops =>
    simp only [RStmt.item, renderStmt, stmtLine, gateLine, commaSep, String.toList_append, String.toList_intercalate, e0, e1, e2,
      e3, e4, e5, List.map_cons, List.map_map, renderExpr, List.cons_append, List.nil_append, List.append_assoc]
    refine congrArg (fun z => ' ' :: ' ' :: (String.toList ty ++ ' ' :: (String.toList inst ++ '(' ::
      ([',', ' '].intercalate (String.toList out :: z) ++ [')', ';', '\n'])))) ?_
    apply List.map_congr_left
    intro o _
    simp only [Function.comp, renderExpr_op, opT]
  | assign l r =>
    have : renderStmt false (Item.assign [(l, r.expr)]) = "assign " ++ l ++ " = " ++ r.text := by
      cases r <;> rfl
    simp only [RStmt.item, this, stmtLine, asgLine, opT, String.toList_append, e0, e1, e7, e8, List.cons_append,
      List.nil_append, List.append_assoc]
  | bb ty inst pins =>
    simp only [RStmt.item, renderStmt, stmtLine, bbLine, pinsT, commaSep, String.toList_append, String.toList_intercalate, e0, e1,
      e2, e4, e5, e6, List.map_map, List.cons_append, List.nil_append, List.append_assoc]
    refine congrArg (fun z => ' ' :: ' ' :: (String.toList ty ++ ' ' :: (String.toList inst ++ ' ' :: '(' ::
      ([',', ' '].intercalate z ++ [')', ';', '\n'])))) ?_
    apply List.map_congr_left
    intro p _
    obtain ⟨n, o⟩ := p
    cases o with
    | none => simp [Function.comp, pinOf, pinT, String.toList_append, e9, e3, e4]
    | some o => simp [Function.comp, pinOf, pinT, String.toList_append, e9, e3, e4, renderExpr_op, opT]

theorem zip_replicate {α β : Type} (f : α × Bool → β) : ∀ (l : List α) (n : Nat), l.length ≤ n →
    (l.zip (List.replicate n false)).map f = l.map (fun x => f (x, false))
  | [], _, _ => by simp
  | x :: l, 0, h => by simp at h
  | x :: l, n + 1, h => by
    simp only [List.replicate_succ, List.zip_cons_cons, List.map_cons]
    rw [zip_replicate f l n (by simpa using h)]

/-- everything between the header's `);` and the closing `endmodule` -/
def bodyT (r : RMod) (wires : List Name) : List Char :=
  '\n' :: ((r.inputs.map (fun i => declLine kInput i.toList)).flatten ++ '\n' ::
    ((r.outputs.map (fun i => declLine kOutput i.toList)).flatten ++ '\n' ::
    ((wires.map (fun i => declLine kWire i.toList)).flatten ++ '\n' :: (r.stmts.map stmtLine).flatten)))

def portsT (r : RMod) : List Char := commaSep ((r.inputs ++ r.outputs).map String.toList)

theorem decl_line (kw : String) (k : List Char) (hk : ("  " ++ kw ++ " ").toList = ' ' :: ' ' :: (k ++ [' '])) (i : Name) :
    ("  " ++ kw ++ " " ++ i ++ ";\n").toList = declLine k i.toList := by
  have e1 : ";\n".toList = [';', '\n'] := by decide
  rw [String.toList_append, String.toList_append, hk, e1]
  simp [declLine]

theorem text_eq (r : RMod) (wires : List Name) : (render (toW r wires)).toList =
    kModule ++ ' ' :: (r.name.toList ++ ' ' :: '(' :: (portsT r ++ ')' :: ';' :: (bodyT r wires ++ VMT.kwE ++ ['\n']))) := by
  rw [VMT.render_eq]
  have e5 : ", ".toList = [',', ' '] := by decide
  have hin : VMT.inLines (toW r wires) = r.inputs.map (fun i => declLine kInput i.toList) := by
    unfold VMT.inLines toW
    apply List.map_congr_left
    intro i _
    have := decl_line "input" kInput (by decide) i
    simpa [String.append_assoc] using this
  have hout : VMT.outLines (toW r wires) = r.outputs.map (fun i => declLine kOutput i.toList) := by
    unfold VMT.outLines toW
    apply List.map_congr_left
    intro i _
    have := decl_line "output" kOutput (by decide) i
    simpa [String.append_assoc] using this
  have hw : VMT.wireLines (toW r wires) = wires.map (fun i => declLine kWire i.toList) := by
    unfold VMT.wireLines toW
    apply List.map_congr_left
    intro i _
    have := decl_line "wire" kWire (by decide) i
    simpa [String.append_assoc] using this
  have hs : VMT.stmtLines (toW r wires) = r.stmts.map stmtLine := by
    unfold VMT.stmtLines toW
    simp only [List.nil_append, List.length_map]
    rw [zip_replicate _ _ _ (by simp), List.map_map]
    apply List.map_congr_left
    intro s _
    exact stmt_line s
  unfold VMT.bodyT VMT.portsT
  rw [hin, hout, hw, hs, e5]
  simp [bodyT, portsT, commaSep, kModule, toW]

end FT
end CG
