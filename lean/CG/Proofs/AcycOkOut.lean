/- C18 total correctness helpers: the output stage of `acyclic_unroll` succeeds and keeps the circuit dot-free and
   acyclic -/
import CG.Proofs.AcycOkBase
set_option linter.unusedSimpArgs false
set_option linter.unusedVariables false
namespace CG
namespace AU
open Circuit Query
open Tx (addC)

structure OutReq (acyc1 : Circuit) (sp : List Name) (last : Name) (outs : List Name) : Prop where
  inSp : ∀ o ∈ outs, o ∈ sp → acyc1.has o = true
  fresh : ∀ o ∈ outs, o ∉ sp → acyc1.has o = false
  name : ∀ o ∈ outs, Limit.NameOK o ∧ hasDot o = false
  src : ∀ o ∈ outs, o ∉ sp → ∃ t, acyc1.ty? (pref last o) = some t ∧ t ≠ "bb_input" ∧ t ≠ "bb_output"

structure OutX (B : Circuit) : Prop where
  nodots : LintLink.NoDots B
  acyc : Acyclic B

variable {acyc1 : Circuit} {sp : List Name} {last : Name} {outs : List Name}

theorem ok_out_step (Q : OutReq acyc1 sp last outs) {L : List Name} {B : Circuit} {o : Name}
    (I : OutInv acyc1 sp last L B) (X : OutX B) (ho : o ∈ outs) (hoL : o ∉ L) :
    ∃ B', outBody sp last B o = .ok B' ∧ OutX B' := by
  by_cases hs : sp.contains o = true
  · have hb : B.has o = true := (I.has o).2 (Or.inl (Q.inSp o ho (List.contains_iff_mem.1 hs)))
    have hset : B.setOutput [o] true = (B.setOutRaw o true, .ok) := by
      rw [setOutput, if_pos hb, setOutput]
    refine ⟨B.setOutRaw o true, ?_, ?_, ?_⟩
    · unfold outBody
      rw [if_pos hs, hset]
      rfl
    · exact X.nodots.of_sub rfl (fun g hg => by rw [setOutRaw_has] at hg; exact hg)
    · exact Sens.acyclic_of_subset X.acyc (fun e he => he)
  · have hns : o ∉ sp := fun h => hs (List.contains_iff_mem.2 h)
    have hb : B.has o = false := by
      cases hh : B.has o with
      | false => rfl
      | true =>
        rcases (I.has o).1 hh with h | h
        · rw [Q.fresh o ho hns] at h; cases h
        · exact absurd h hoL
    obtain ⟨t, ht, hb1, hb2⟩ := Q.src o ho hns
    have hsrcB : B.has (pref last o) = true ∧ B.ty? (pref last o) = some t := by
      obtain ⟨a1, a2, _⟩ := I.keeps _ (has_of_ty? ht) (by simp)
      exact ⟨a1, a2.trans ht⟩
    have k0 : Keeps B (B.addNodeAttr o { ty := some "buf", out := some true }) := keeps_addNodeAttr _ hb
    have hfiB : B.fanin o = [] := by
      rw [fanin_eq_faninL]
      apply faninL_nil_of
      intro e he e2
      have := (I.wf.closed e he).2
      rw [e2, hb] at this
      cases this
    obtain ⟨B', h4⟩ := Arith.connect_succeeds (B.addNodeAttr o { ty := some "buf", out := some true })
      [pref last o] [o]
      (by
        intro u hu; simp only [List.mem_singleton] at hu; subst hu
        exact ⟨t, (k0 _ hsrcB.1 (by simp)).2.1.trans hsrcB.2, hb1, hb2⟩)
      (by
        intro v hv; simp only [List.mem_singleton] at hv; subst hv
        refine ⟨"buf", by rw [addNodeAttr_ty_fresh _ hb, if_pos rfl], by decide, fun _ => ?_⟩
        rw [fanin_congr (addNodeAttr_edges B v _), hfiB]
        simp)
    have hEq : outBody sp last B o = .ok B' := by
      unfold outBody
      rw [if_neg hs]
      exact addC_ok_conn B { n := o, ty := "buf", fanin := [last ++ "_" ++ o], output := true } rfl rfl hb
        (show T.supported.contains "buf" = true by decide)
        (fun h => absurd h.1 (show ¬ 1 < 1 by decide)) (fun h => absurd h.2 (show "buf" ∉ T.addL 1 by decide))
        (Q.name o ho).1 _ B' (connect_empty_right _ _) h4
    have I' := out_step I hoL hEq
    have k1 := keeps_connect h4
    have k : Keeps B B' := Keeps.comp k0 k1 (fun n hn => by simp only [List.mem_singleton] at hn; rw [hn]; exact hb)
    have g : Gate B' o "buf" [pref last o] := I'.gate o (by simp) hns
    have hE : ∀ e ∈ B'.edges, e ∈ B.edges ∨ e.2 = o := by
      intro e he
      by_cases h2 : B.has e.2 = true
      · left
        have hfi : e.1 ∈ B'.fanin e.2 := mem_fanin.2 he
        rw [(k e.2 h2 (by simp)).2.2] at hfi
        exact mem_fanin.1 hfi
      · right
        rcases (I'.has e.2).1 (I'.wf.closed e he).2 with h | h
        · exact absurd ((I.has e.2).2 (Or.inl h)) h2
        · rcases List.mem_append.1 h with h | h
          · exact absurd ((I.has e.2).2 (Or.inr h)) h2
          · simpa using h
    refine ⟨B', hEq, ?_, ?_⟩
    · unfold outBody at hEq
      rw [if_neg hs] at hEq
      exact LintLink.NoDots.addC X.nodots (Q.name o ho).2 rfl rfl hEq
    · apply Sens.acyclic_sinks (fun z => z = o) X.acyc hE
      intro e he e1
      rcases hE e he with h | h
      · have := (I.wf.closed e h).1
        rw [e1, hb] at this
        cases this
      · have hfi : e.1 ∈ B'.fanin e.2 := mem_fanin.2 he
        rw [h, g.2] at hfi
        simp only [List.mem_singleton] at hfi
        have := hsrcB.1
        rw [← hfi, e1, hb] at this
        cases this

theorem ok_out_all (Q : OutReq acyc1 sp last outs) : ∀ (R L : List Name) (B : Circuit),
    OutInv acyc1 sp last L B → OutX B → (∀ o ∈ R, o ∈ outs) → (L ++ R).Nodup →
    ∃ r, R.foldlM (outBody sp last) B = .ok r ∧ OutInv acyc1 sp last (L ++ R) r ∧ OutX r := by
  intro R
  induction R with
  | nil =>
    intro L B I X _ _
    refine ⟨B, rfl, ?_, X⟩
    rw [List.append_nil]
    exact I
  | cons o R ih =>
    intro L B I X hR hnd
    have hoL : o ∉ L := by
      intro hc
      rw [List.nodup_append] at hnd
      exact hnd.2.2 o hc o (by simp) rfl
    obtain ⟨B', h1, X'⟩ := ok_out_step Q I X (hR o (by simp)) hoL
    have e : L ++ o :: R = (L ++ [o]) ++ R := by simp
    obtain ⟨r, hr, Ir, Xr⟩ := ih (L ++ [o]) B' (out_step I hoL h1) X' (fun x hx => hR x (by simp [hx]))
      (by rw [← e]; exact hnd)
    refine ⟨r, ?_, by rw [e]; exact Ir, Xr⟩
    rw [List.foldlM_cons, h1]
    exact hr

end AU
end CG
