/- C09 (sequential_unroll, semantics): the attribute folds after `unroll` change no equation except at the step-0
   state inputs, which become constants -/
import CG.Proofs.UnrollSeqSemRemove
set_option linter.unusedSimpArgs false
set_option linter.unusedVariables false
namespace CG
namespace USS
open Circuit Unroll

/-- the `set_type` loop with its frame: every node keeps its type or is a step-0 state input retyped to `v` -/
theorem tyPhase' (m : List (Name × List Name)) (qPort : Name) (v : String) : ∀ (insts : List Name) (P uc : Circuit),
    insts.foldlM (tyStep m qPort v) P = .ok uc →
    uc.edges = P.edges ∧ uc.nodeNames = P.nodeNames ∧
    (∀ x, uc.ty? x = P.ty? x ∨ (uc.ty? x = some v ∧ ∃ b ∈ insts, x = Tx.ioName m (b ++ "_" ++ qPort) 0))
  | [], P, uc, h => by
    rw [foldlM_nil_ok _ _ _ h]
    exact ⟨rfl, rfl, fun _ => Or.inl rfl⟩
  | b :: insts, P, uc, h => by
    obtain ⟨c1, h1, h2⟩ := foldlM_cons_ok _ _ _ _ _ h
    unfold tyStep at h1
    split at h1
    · rename_i x rest hl
      obtain ⟨hx, e⟩ := setType1_ok (liftO_ok h1)
      subst e
      obtain ⟨b1, b2, b3⟩ := tyPhase' m qPort v insts _ uc h2
      refine ⟨b1, by rw [b2, setTyRaw_nodeNames], ?_⟩
      intro y
      have hio : Tx.ioName m (b ++ "_" ++ qPort) 0 = x := by
        unfold Tx.ioName
        rw [hl]
        rfl
      rcases b3 y with h3 | ⟨h3, b', hb', e⟩
      · rw [setTyRaw_ty?] at h3
        by_cases hy : y = x ∧ P.has x = true
        · rw [if_pos hy] at h3
          exact Or.inr ⟨h3, b, List.mem_cons_self, by rw [hio]; exact hy.1⟩
        · rw [if_neg hy] at h3
          exact Or.inl h3
      · exact Or.inr ⟨h3, b', List.mem_cons_of_mem _ hb', e⟩
    · cases h1

/-- equations carry over between two circuits on the same graph whose node types agree wherever the target has an
    equation that the valuation does not satisfy outright -/
theorem consistent_transfer {a b : Circuit} (he : a.edges = b.edges) (hnda : a.nodeNames.Nodup)
    (hndb : b.nodeNames.Nodup) {v : Val} (hb : Consistent b v)
    (hty : ∀ x t, a.ty? x = some t → b.ty? x = some t ∨ (∀ l bb, gateFn t l = some bb → v x = bb)) :
    Consistent a v := by
  intro p hp t ht bb hg
  rcases hty p.1 t (ty?_of_mem hnda hp ht) with h1 | h1
  · obtain ⟨a', ha', hta'⟩ := mem_of_ty? h1
    apply hb (p.1, a') ha' t hta' bb
    show gateFn t ((b.fanin p.1).map v) = some bb
    rw [← fanin_congr_edges he p.1]
    exact hg
  · exact h1 _ bb hg

theorem gateFn_const {s : String} (hs : s = "0" ∨ s = "1") (l : List Bool) : gateFn s l = some (s == "1") := by
  rcases hs with rfl | rfl
  · simp [gateFn]
  · simp [gateFn]

end USS
end CG
