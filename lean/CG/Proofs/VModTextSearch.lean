/- C14 (text level, module extraction) helper: `Regex.search` with the module-extraction pattern on the writer's text -/
import CG.Proofs.VModTextMatch
import CG.Proofs.BenchTextSearch
namespace CG
namespace VMT
open Regex BenchText

/-- `re.search(pattern, text, DOTALL)` on a text of the writer's shape: group 1 is the text without its final newline -/
theorem search_module (pat : String) (T w P Bd : List Char) (hparse : Regex.parse pat = some (rxMod w, 2))
    (hT : T = shapeOf w P Bd) (hBd : Bd.getLast? = some '\n')
    (huniq : ∀ pre post, T = pre ++ kwE ++ post → BrkL pre → BrkR post → post = ['\n']) :
    ∃ mt, Regex.search pat (String.ofList T) true = some (some mt) ∧
      mt.groups.headD none = some (String.ofList T.dropLast) := by
  let ctx : Ctx := { s := T.toArray, dotall := true }
  have htxt : txt ctx = T := by simp [txt, ctx]
  obtain ⟨caps, hm, hcap⟩ := match_module ctx rfl w P Bd (by rw [htxt, hT]) hBd (by rw [htxt]; exact huniq)
  have hs := sf_hit ctx (rxMod w) (fuelFor ctx.s) (Nat.zero_le _) hm
  refine ⟨mkMatch ctx 2 0 (ctx.s.size - 1) caps, ?_, ?_⟩
  · unfold Regex.search
    rw [hparse]
    simp only [String.toList_ofList]
    show some (Option.map _ (searchFrom ctx (rxMod w) (fuelFor ctx.s) (ctx.s.size + 1) 0)) = _
    rw [hs]
    rfl
  · have e2 : List.range 2 = [0, 1] := by decide
    simp only [mkMatch, e2, List.map_cons, List.headD_cons, hcap, Option.map_some]
    congr 1
    simp only [slice, ctx, List.drop_zero, Nat.sub_zero, List.size_toArray]
    rw [List.dropLast_eq_take]

end VMT
end CG
