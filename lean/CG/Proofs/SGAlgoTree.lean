/- C17 (algorithm) helpers, part 4: abstract child tables of a rooted tree, single-child chains -/
import CG.SupergatesAlgo
import CG.Proofs.QueryBasic
set_option linter.unusedSectionVars false
set_option linter.unusedVariables false
set_option linter.unusedSimpArgs false
namespace CG
namespace SGA
open Query Supergates Q

/-- what the growth loops need to know about the child table of a rooted tree on `cone` -/
structure TreeOK (tbl : List (Name × List Name)) (cone : List Name) (root : Name) (par : Name → Option Name)
    (depth : Name → Nat) : Prop where
  len : tbl.length = cone.length
  cnd : cone.Nodup
  root_mem : root ∈ cone
  par_root : par root = none
  par_some : ∀ k ∈ cone, k ≠ root → ∃ v ∈ cone, par k = some v
  ch_par : ∀ v k, k ∈ childrenOf tbl v → k ∈ cone ∧ par k = some v
  par_ch : ∀ v k, k ∈ cone → par k = some v → k ∈ childrenOf tbl v
  ch_nd : ∀ v, (childrenOf tbl v).Nodup
  dep : ∀ v k, k ∈ cone → par k = some v → depth v < depth k

/-- descent through nodes with exactly one child -/
inductive SC (tbl : List (Name × List Name)) : Name → Name → Prop where
  | refl (y : Name) : SC tbl y y
  | step {y z x : Name} : childrenOf tbl y = [z] → SC tbl z x → SC tbl y x

/-- `x` is below `h`, all nodes strictly between having exactly one child -/
inductive Chain (tbl : List (Name × List Name)) (h : Name) : Name → Prop where
  | child {x : Name} : x ∈ childrenOf tbl h → Chain tbl h x
  | step {y x : Name} : Chain tbl h y → childrenOf tbl y = [x] → Chain tbl h x

theorem SC.snoc {tbl : List (Name × List Name)} {y z x : Name} (h1 : SC tbl y z) (h2 : childrenOf tbl z = [x]) :
    SC tbl y x := by
  induction h1 with
  | refl y => exact .step h2 (.refl _)
  | step hc _ ih => exact .step hc (ih h2)

theorem chain_iff_SC (tbl : List (Name × List Name)) (h x : Name) :
    Chain tbl h x ↔ ∃ y ∈ childrenOf tbl h, SC tbl y x := by
  constructor
  · intro hc
    induction hc with
    | child hx => exact ⟨_, hx, .refl _⟩
    | step _ hs ih =>
      obtain ⟨y, hy, hsc⟩ := ih
      exact ⟨y, hy, hsc.snoc hs⟩
  · rintro ⟨y, hy, hsc⟩
    have key : ∀ y x, SC tbl y x → Chain tbl h y → Chain tbl h x := by
      intro y x hsc
      induction hsc with
      | refl y => exact fun h => h
      | step hc _ ih => exact fun h => ih (.step h hc)
    exact key y x hsc (.child hy)

theorem SC_of_not_single {tbl : List (Name × List Name)} {y x : Name} (h : SC tbl y x)
    (hn : (childrenOf tbl y).length ≠ 1) : x = y := by
  cases h with
  | refl y => rfl
  | step hc _ => rw [hc] at hn; exact absurd rfl hn

theorem SC_single {tbl : List (Name × List Name)} {y c x : Name} (hc : childrenOf tbl y = [c]) :
    SC tbl y x ↔ x = y ∨ SC tbl c x := by
  constructor
  · intro h
    cases h with
    | refl y => exact Or.inl rfl
    | step hc' hs =>
      rw [hc] at hc'
      cases hc'
      exact Or.inr hs
  · rintro (h | h)
    · exact h ▸ .refl _
    · exact .step hc h

section
variable {tbl : List (Name × List Name)} {cone : List Name} {root : Name} {par : Name → Option Name}
  {depth : Name → Nat}

theorem Chain.mem (T : TreeOK tbl cone root par depth) {h x : Name} (hc : Chain tbl h x) : x ∈ cone := by
  cases hc with
  | child hx => exact (T.ch_par _ _ hx).1
  | step _ hs => exact (T.ch_par _ _ (by rw [hs]; exact List.mem_singleton.mpr rfl)).1

theorem Chain.depth_lt (T : TreeOK tbl cone root par depth) {h x : Name} (hc : Chain tbl h x) :
    depth h < depth x := by
  induction hc with
  | child hx => exact T.dep _ _ (T.ch_par _ _ hx).1 (T.ch_par _ _ hx).2
  | @step y x _ hs ih =>
    have hx : x ∈ childrenOf tbl y := by rw [hs]; exact List.mem_singleton.mpr rfl
    have := T.dep _ _ (T.ch_par _ _ hx).1 (T.ch_par _ _ hx).2
    omega

/-- the parent of a chain member is the head or a single-child chain member -/
theorem Chain.par_cases (T : TreeOK tbl cone root par depth) {h x : Name} (hc : Chain tbl h x) :
    par x = some h ∨ ∃ y, par x = some y ∧ childrenOf tbl y = [x] ∧ Chain tbl h y := by
  cases hc with
  | child hx => exact Or.inl (T.ch_par _ _ hx).2
  | @step y _ hy hs =>
    have hx : x ∈ childrenOf tbl y := by rw [hs]; exact List.mem_singleton.mpr rfl
    exact Or.inr ⟨y, (T.ch_par _ _ hx).2, hs, hy⟩

/-- two heads above the same node: one lies on the chain of the other and has a single child -/
theorem Chain.two_heads (T : TreeOK tbl cone root par depth) {h h' x : Name} (hc : Chain tbl h x)
    (hc' : Chain tbl h' x) (hne : h ≠ h') :
    (Chain tbl h h' ∧ (childrenOf tbl h').length = 1) ∨ (Chain tbl h' h ∧ (childrenOf tbl h).length = 1) := by
  induction hc with
  | @child x hx =>
    rcases hc'.par_cases T with h1 | ⟨y, h1, h2, h3⟩
    · rw [(T.ch_par _ _ hx).2] at h1
      cases h1
      exact absurd rfl hne
    · rw [(T.ch_par _ _ hx).2] at h1
      cases h1
      exact Or.inr ⟨h3, by rw [h2]; rfl⟩
  | @step y x hy hs ih =>
    have hx : x ∈ childrenOf tbl y := by rw [hs]; exact List.mem_singleton.mpr rfl
    have hpx := (T.ch_par _ _ hx).2
    rcases hc'.par_cases T with h1 | ⟨y', h1, _, h3⟩
    · rw [hpx] at h1
      cases h1
      exact Or.inl ⟨hy, by rw [hs]; rfl⟩
    · rw [hpx] at h1
      cases h1
      exact ih h3

theorem mem_children_of_single {y x : Name} (hs : childrenOf tbl y = [x]) : x ∈ childrenOf tbl y := by
  rw [hs]; exact List.mem_singleton.mpr rfl

end

end SGA
end CG
