/- C10 helper: frames between circuit states, the working invariant of `ternary`'s loop and the two kinds of
   `add` calls it makes (a fresh helper gate via `uid`, a companion (re)definition) -/
import CG.Proofs.TernaryAdd
import CG.Proofs.TernaryNames
namespace CG
namespace Ternary
open Circuit

/-- the hypotheses of C10 on the input circuit (same fields as `C10.Good` without `nobb`) -/
structure GoodC (c : Circuit) : Prop where
  clean : LintClean c
  types : ∀ p ∈ c.nodes, ∀ t, p.2.ty = some t →
    t ∈ multiTypes ∨ t = "buf" ∨ t = "not" ∨ t = "0" ∨ t = "1" ∨ t = "input"
  names : ∀ p ∈ c.nodes, p.1 ≠ "" ∧ Circuit.isDigit0 p.1 = false
  acyclic : Acyclic c

namespace GoodC
variable {c : Circuit} (g : GoodC c)
include g

theorem ty {n : Name} (h : c.has n = true) : ∃ ty, c.ty? n = some ty ∧
    (ty ∈ multiTypes ∨ ty = "buf" ∨ ty = "not" ∨ ty = "0" ∨ ty = "1" ∨ ty = "input") := by
  obtain ⟨a, ha⟩ := Limit.attr_of_has h
  have hm := Limit.mem_nodes_of_attr ha
  obtain ⟨t, ht, _⟩ := g.clean.typed _ hm
  exact ⟨t, by rw [ty_of_attr ha]; exact ht, g.types _ hm t ht⟩

theorem ty_ok {n : Name} {ty : String} (h : c.ty? n = some ty) : ty ∈ okTypes := by
  obtain ⟨ty', h1, h2⟩ := g.ty (has_of_ty? h)
  rw [h] at h1; cases h1
  rcases h2 with h2 | rfl | rfl | rfl | rfl | rfl
  · exact multi_ok h2
  all_goals decide

theorem digit {n : Name} (h : c.has n = true) : Circuit.isDigit0 n = false := by
  obtain ⟨a, ha⟩ := Limit.attr_of_has h
  exact (g.names _ (Limit.mem_nodes_of_attr ha)).2

theorem edge {p n : Name} (he : (p, n) ∈ c.edges) : c.has p = true ∧ c.has n = true ∧ p ≠ n := by
  have := g.clean.closed _ he
  refine ⟨this.1, this.2, ?_⟩
  obtain ⟨rank, hr⟩ := g.acyclic
  rintro rfl
  exact Nat.lt_irrefl _ (hr _ he)

end GoodC

/-- `mp` is the companion table of `ternary` -/
def MapOK (c : Circuit) (mp : Name → Name) : Prop := ∀ n, c.has n = true → c.uid (n ++ "_X") = some (mp n)

namespace MapOK
variable {c : Circuit} {mp : Name → Name} (hm : MapOK c mp)
include hm

theorem fresh {n : Name} (h : c.has n = true) : c.has (mp n) = false := (Limit.uid_spec c _ _ (hm n h)).1

theorem uidOf {n : Name} (h : c.has n = true) : UidOf (n ++ "_X") (mp n) := (Limit.uid_spec c _ _ (hm n h)).2

theorem comp {n : Name} (h : c.has n = true) : IsComp (mp n) := ⟨n, hm.uidOf h⟩

theorem inj {n m : Name} (h1 : c.has n = true) (h2 : c.has m = true) (e : mp n = mp m) : n = m :=
  comp_inj (hm.uidOf h1) (e ▸ hm.uidOf h2)

theorem ne_helper {n x : Name} (h : c.has n = true) (hx : IsHelper x) : x ≠ mp n := by
  rintro rfl; exact comp_not_helper (hm.comp h) hx

theorem nameOK (g : GoodC c) {n : Name} (h : c.has n = true) : Limit.NameOK (mp n) := by
  refine Limit.nameOK_uid c n "_X" "" (mp n) _ rfl (g.digit h) ?_
  rw [String.append_empty]; exact hm n h

end MapOK

theorem nameOK_helper {t : Circuit} {b sfx r : Name} (hs : sfx ∈ helperSfx) (hb : Circuit.isDigit0 b = false)
    (h : t.uid (b ++ sfx) = some r) : Limit.NameOK r := by
  have h' : t.uid (b ++ sfx ++ "") = some r := by rw [String.append_empty]; exact h
  simp only [helperSfx, List.mem_cons, List.not_mem_nil, or_false] at hs
  rcases hs with rfl | rfl | rfl | rfl | rfl | rfl <;>
    exact Limit.nameOK_uid t b _ "" r _ rfl hb h'

/-! ### fan-in as a set, frames -/

def FaninIs (t : Circuit) (m : Name) (l : List Name) : Prop := ∀ u, (u, m) ∈ t.edges ↔ u ∈ l

theorem FaninIs.congr {t : Circuit} {m : Name} {l l' : List Name} (h : FaninIs t m l) (hl : ∀ u, u ∈ l ↔ u ∈ l') :
    FaninIs t m l' := fun u => (h u).trans (hl u)

/-- `t'` extends `t`; attributes of old nodes outside `A` and the fan-in of nodes outside `E` are unchanged -/
structure Frame (t t' : Circuit) (A E : Name → Prop) : Prop where
  has : ∀ x, t.has x = true → t'.has x = true
  attr : ∀ x, t.has x = true → ¬ A x → t'.attr? x = t.attr? x
  mono : ∀ e, e ∈ t.edges → e ∈ t'.edges
  new : ∀ e, e ∈ t'.edges → e ∈ t.edges ∨ E e.2

namespace Frame
variable {t t' t'' : Circuit} {A E A' E' : Name → Prop}

theorem refl (t : Circuit) (A E : Name → Prop) : Frame t t A E :=
  ⟨fun _ h => h, fun _ _ _ => rfl, fun _ h => h, fun _ h => Or.inl h⟩

theorem trans (h1 : Frame t t' A E) (h2 : Frame t' t'' A' E') :
    Frame t t'' (fun x => A x ∨ A' x) (fun x => E x ∨ E' x) where
  has := fun x h => h2.has x (h1.has x h)
  attr := fun x h hA => by
    rw [h2.attr x (h1.has x h) (fun h' => hA (Or.inr h')), h1.attr x h (fun h' => hA (Or.inl h'))]
  mono := fun e h => h2.mono e (h1.mono e h)
  new := fun e h => by
    rcases h2.new e h with h | h
    · rcases h1.new e h with h | h
      · exact Or.inl h
      · exact Or.inr (Or.inl h)
    · exact Or.inr (Or.inr h)

theorem weaken (h : Frame t t' A E) (hA : ∀ x, t.has x = true → A x → A' x) (hE : ∀ x, E x → E' x) :
    Frame t t' A' E' where
  has := h.has
  attr := fun x hx hn => h.attr x hx (fun ha => hn (hA x hx ha))
  mono := h.mono
  new := fun e he => (h.new e he).imp id (hE _)

/-- composition when both frames are weakened to the same sets -/
theorem trans' (h1 : Frame t t' A E) (h2 : Frame t' t'' A' E')
    (hA : ∀ x, t.has x = true → A' x → A x) (hE : ∀ x, E' x → E x) : Frame t t'' A E :=
  (h1.trans h2).weaken (fun x hx h => h.elim id (hA x hx)) (fun x h => h.elim id (hE x))

theorem ty (h : Frame t t' A E) {x : Name} (hx : t.has x = true) (hA : ¬ A x) : t'.ty? x = t.ty? x := by
  unfold Circuit.ty?; rw [h.attr x hx hA]

theorem edge (h : Frame t t' A E) {y : Name} (hE : ¬ E y) (u : Name) :
    (u, y) ∈ t'.edges ↔ (u, y) ∈ t.edges :=
  ⟨fun he => (h.new _ he).elim id (fun h' => absurd h' hE), h.mono _⟩

theorem faninIs (h : Frame t t' A E) {y : Name} (hE : ¬ E y) {l : List Name} (hf : FaninIs t y l) :
    FaninIs t' y l := fun u => (h.edge hE u).trans (hf u)

end Frame

/-! ### the working invariant -/

structure W (c : Circuit) (mp : Name → Name) (t : Circuit) : Prop where
  nodupN : t.nodeNames.Nodup
  nodupE : t.edges.Nodup
  closed : ∀ e ∈ t.edges, t.has e.1 = true ∧ t.has e.2 = true
  typed : Typed t
  cls : ∀ x, t.has x = true → c.has x = true ∨ (∃ m, c.has m = true ∧ x = mp m) ∨ IsHelper x

theorem W.no_in {c : Circuit} {mp : Name → Name} {t : Circuit} (hW : W c mp t) {r : Name} (hr : t.has r = false) :
    ∀ e ∈ t.edges, e.2 ≠ r := by
  intro e he h
  have := (hW.closed e he).2
  rw [h, hr] at this; cases this

theorem W_add {c : Circuit} {mp : Name → Name} {t t' : Circuit} {a : AddArgs} {n : Name}
    (hW : W c mp t) (s : AddSpec t a n t') (hty : a.ty ∈ okTypes)
    (hn : (∃ m, c.has m = true ∧ n = mp m) ∨ IsHelper n)
    (hfo : ∀ v ∈ a.fanout, t.has v = true)
    (hfi : ∀ u ∈ a.fanin, t.has u = true ∨ (a.addConnected = true ∧ ∃ m, c.has m = true ∧ u = mp m)) :
    W c mp t' where
  nodupN := s.nodupN hW.nodupN
  nodupE := s.nodupE hW.nodupE
  closed := by
    have hmono : ∀ x, t.has x = true → t'.has x = true := fun x h => (s.has x).mpr (Or.inl h)
    have hnn : t'.has n = true := (s.has n).mpr (Or.inr (Or.inl rfl))
    intro e he
    rcases (s.edges e).mp he with h | ⟨h1, h2⟩ | ⟨h1, h2⟩
    · exact ⟨hmono _ (hW.closed e h).1, hmono _ (hW.closed e h).2⟩
    · exact ⟨h1 ▸ hnn, hmono _ (hfo _ h2)⟩
    · refine ⟨?_, h2 ▸ hnn⟩
      rcases hfi _ h1 with h | ⟨h, _⟩
      · exact hmono _ h
      · exact (s.has _).mpr (Or.inr (Or.inr ⟨h, h1⟩))
  typed := by
    intro x hx
    by_cases hxn : x = n
    · subst hxn; exact ⟨a.ty, ty_of_attr s.attr_self, hty⟩
    · by_cases hh : t.has x = true
      · obtain ⟨ty, h1, h2⟩ := hW.typed x hh
        refine ⟨ty, ?_, h2⟩
        unfold Circuit.ty? at h1 ⊢
        rw [s.attr_old x hxn hh]; exact h1
      · have := s.attr_new x hxn (by simpa using hh) hx
        exact ⟨"buf", by rw [ty_of_attr this]; rfl, by decide⟩
  cls := by
    intro x hx
    rcases (s.has x).mp hx with h | h | ⟨h1, h2⟩
    · exact hW.cls x h
    · subst h
      rcases hn with h | h
      · exact Or.inr (Or.inl h)
      · exact Or.inr (Or.inr h)
    · rcases hfi x h2 with h | ⟨_, h⟩
      · exact hW.cls x h
      · exact Or.inr (Or.inl h)

/-! ### a fresh helper gate -/

structure FreshOut (c : Circuit) (mp : Name → Name) (t : Circuit) (ty : String) (fi fo : List Name)
    (t' : Circuit) (r : Name) : Prop where
  w : W c mp t'
  fresh : t.has r = false
  helper : IsHelper r
  ty_r : t'.ty? r = some ty
  fanin_r : FaninIs t' r fi
  has_r : t'.has r = true
  has_fi : ∀ u ∈ fi, t'.has u = true
  frame : Frame t t' (fun y => y = r) (fun y => y = r ∨ y ∈ fo)
  into_fo : ∀ v ∈ fo, ∀ u, (u, v) ∈ t'.edges ↔ ((u, v) ∈ t.edges ∨ u = r)

theorem AddSpec.frame {t t' : Circuit} {a : AddArgs} {n : Name} (s : AddSpec t a n t') :
    Frame t t' (fun y => y = n) (fun y => y = n ∨ y ∈ a.fanout) where
  has := fun x h => (s.has x).mpr (Or.inl h)
  attr := fun x hx hA => s.attr_old x hA hx
  mono := fun e h => (s.edges e).mpr (Or.inl h)
  new := fun e h => by
    rcases (s.edges e).mp h with h | ⟨_, h⟩ | ⟨_, h⟩
    · exact Or.inl h
    · exact Or.inr (Or.inr h)
    · exact Or.inr (Or.inl h)

theorem fresh_gate {c : Circuit} {mp : Name → Name} (hm : MapOK c mp) {t : Circuit} (hW : W c mp t)
    (b sfx ty : String) (fi fo : List Name) (ac : Bool)
    (hb : Circuit.isDigit0 b = false) (hs : sfx ∈ helperSfx)
    (hty : ty ∈ ["or", "nor", "and", "not"]) (hnot : ty = "not" → fi.length ≤ 1)
    (hfo : ∀ v ∈ fo, ∃ tv, t.ty? v = some tv ∧ tv ∈ multiTypes)
    (hfi : ∀ u ∈ fi, t.has u = true ∨ (ac = true ∧ ∃ m, c.has m = true ∧ u = mp m ∧ Limit.NameOK u)) :
    ∃ t' r, t.add { n := b ++ sfx, ty := ty, fanout := fo, fanin := fi, uid := true, addConnected := ac } =
        (t', .ok, r) ∧ FreshOut c mp t ty fi fo t' r := by
  have hsome := Limit.uid_isSome t (b ++ sfx) []
  cases hr : t.uid (b ++ sfx) with
  | none => rw [hr] at hsome; cases hsome
  | some r =>
    obtain ⟨hfresh, huid⟩ := Limit.uid_spec t _ r hr
    have hhelper : IsHelper r := ⟨b, sfx, hs, huid⟩
    have hok : ty ∈ okTypes := by
      simp only [List.mem_cons, List.not_mem_nil, or_false] at hty
      rcases hty with rfl | rfl | rfl | rfl <;> decide
    have hfo_has : ∀ v ∈ fo, t.has v = true := fun v hv => by
      obtain ⟨tv, h, _⟩ := hfo v hv; exact has_of_ty? h
    have hfo_ne : ∀ v ∈ fo, v ≠ r := fun v hv e => by
      have := hfo_has v hv; rw [e, hfresh] at this; cases this
    have hfi_ne : ∀ u ∈ fi, u ≠ r := fun u hu e => by
      rcases hfi u hu with h | ⟨_, m, hmc, hmu, _⟩
      · rw [e, hfresh] at h; cases h
      · exact hm.ne_helper hmc hhelper (e ▸ hmu)
    obtain ⟨t', hadd, s⟩ := add_ok t
      { n := b ++ sfx, ty := ty, fanout := fo, fanin := fi, uid := true, addConnected := ac } r
      (by simp only [if_true]; exact hr) (by intro h; cases h) (nameOK_helper hs hb hr) hok
      (by
        intro h
        refine ⟨?_, fun _ => hW.no_in hfresh⟩
        simp only [List.mem_cons, List.not_mem_nil, or_false] at hty
        rcases h with h | h
        · rcases hty with rfl | rfl | rfl | rfl <;> simp at h
        · exact hnot h)
      (by
        intro h
        simp only [List.mem_cons, List.not_mem_nil, or_false] at hty
        rcases hty with rfl | rfl | rfl | rfl <;> simp at h)
      (fun v hv => ⟨hfo_ne v hv, hfo v hv⟩)
      (fun u hu => ⟨hfi_ne u hu, (hfi u hu).imp id (fun ⟨h1, _, _, _, h2⟩ => ⟨h1, h2⟩)⟩)
      hW.typed
    refine ⟨t', r, hadd, ?_⟩
    have hnoin := hW.no_in hfresh
    refine ⟨?_, hfresh, hhelper, ty_of_attr s.attr_self, ?_, (s.has r).mpr (Or.inr (Or.inl rfl)), ?_, s.frame, ?_⟩
    · exact W_add hW s hok (Or.inr hhelper) hfo_has
        (fun u hu => (hfi u hu).imp id (fun ⟨h1, m, h2, h3, _⟩ => ⟨h1, m, h2, h3⟩))
    · intro u
      rw [s.edges]
      constructor
      · rintro (h | ⟨_, h⟩ | ⟨h, _⟩)
        · exact absurd rfl (hnoin _ h)
        · exact absurd rfl (hfo_ne r h)
        · exact h
      · intro h; exact Or.inr (Or.inr ⟨h, rfl⟩)
    · intro u hu
      rcases hfi u hu with h | ⟨h, _⟩
      · exact (s.has u).mpr (Or.inl h)
      · exact (s.has u).mpr (Or.inr (Or.inr ⟨h, hu⟩))
    · intro v hv u
      rw [s.edges]
      constructor
      · rintro (h | ⟨h, _⟩ | ⟨_, h⟩)
        · exact Or.inl h
        · exact Or.inr h
        · exact absurd h (hfo_ne v hv)
      · rintro (h | h)
        · exact Or.inl h
        · exact Or.inr (Or.inl ⟨h, hv⟩)

/-! ### a companion (re)definition -/

structure CompOut (c : Circuit) (mp : Name → Name) (t : Circuit) (ty : String) (fi : List Name)
    (t' : Circuit) (r : Name) : Prop where
  w : W c mp t'
  ty_r : t'.ty? r = some ty
  fanin_r : FaninIs t' r fi
  has_r : t'.has r = true
  has_fi : ∀ u ∈ fi, t'.has u = true
  frame : Frame t t' (fun y => y = r) (fun y => y = r)

theorem comp_gate {c : Circuit} {mp : Name → Name} {t : Circuit} (hW : W c mp t)
    (n : Name) (hn : c.has n = true) (hname : Limit.NameOK (mp n))
    (ty : String) (fi : List Name) (out ac : Bool)
    (hty : ty ∈ ["and", "buf", "or", "0", "input"])
    (hbuf : ty = "buf" → fi.length ≤ 1) (hsrc : ty = "0" ∨ ty = "input" → fi = [])
    (hclean : ∀ e ∈ t.edges, e.2 ≠ mp n)
    (hfi : ∀ u ∈ fi, u ≠ mp n ∧
      (t.has u = true ∨ (ac = true ∧ ∃ m, c.has m = true ∧ u = mp m ∧ Limit.NameOK u))) :
    ∃ t', t.add { n := mp n, ty := ty, fanin := fi, output := out, addConnected := ac, allowRedef := true } =
        (t', .ok, mp n) ∧ CompOut c mp t ty fi t' (mp n) := by
  have hok : ty ∈ okTypes := by
    simp only [List.mem_cons, List.not_mem_nil, or_false] at hty
    rcases hty with rfl | rfl | rfl | rfl | rfl <;> decide
  obtain ⟨t', hadd, s⟩ := add_ok t
    { n := mp n, ty := ty, fanin := fi, output := out, addConnected := ac, allowRedef := true } (mp n)
    (by simp) (fun _ => rfl) hname hok
    (by
      intro h
      refine ⟨?_, fun _ => hclean⟩
      simp only [List.mem_cons, List.not_mem_nil, or_false] at hty
      rcases h with h | h
      · exact hbuf h
      · rcases hty with rfl | rfl | rfl | rfl | rfl <;> simp at h)
    (by
      intro h
      simp only [List.mem_cons, List.not_mem_nil, or_false] at hty
      rcases h with h | h | h
      · exact hsrc (Or.inl h)
      · rcases hty with rfl | rfl | rfl | rfl | rfl <;> simp at h
      · exact hsrc (Or.inr h))
    (fun v hv => nomatch hv)
    (fun u hu => ⟨(hfi u hu).1, (hfi u hu).2.imp id (fun ⟨h1, _, _, _, h2⟩ => ⟨h1, h2⟩)⟩)
    hW.typed
  refine ⟨t', hadd, ?_⟩
  refine ⟨?_, ty_of_attr s.attr_self, ?_, (s.has _).mpr (Or.inr (Or.inl rfl)), ?_, ?_⟩
  · exact W_add hW s hok (Or.inl ⟨n, hn, rfl⟩) (fun v hv => nomatch hv)
      (fun u hu => (hfi u hu).2.imp id (fun ⟨h1, m, h2, h3, _⟩ => ⟨h1, m, h2, h3⟩))
  · intro u
    rw [s.edges]
    constructor
    · rintro (h | ⟨_, h⟩ | ⟨h, _⟩)
      · exact absurd rfl (hclean _ h)
      · cases h
      · exact h
    · intro h; exact Or.inr (Or.inr ⟨h, rfl⟩)
  · intro u hu
    rcases (hfi u hu).2 with h | ⟨h, _⟩
    · exact (s.has u).mpr (Or.inl h)
    · exact (s.has u).mpr (Or.inr (Or.inr ⟨h, hu⟩))
  · exact s.frame.weaken (fun _ _ h => h) (fun x h => h.elim id (fun h' => nomatch h'))

end Ternary
end CG
