/- C03 helper: `Circuit.addBlackbox` with single-net connections succeeds -/
import CG.Proofs.VRoundOpsB
namespace CG
namespace VR
open Verilog Circuit

theorem setBB_name (c : Circuit) (i : Name) (bb : BBox) : (c.setBB i bb).name = c.name := by
  unfold setBB; split <;> rfl

theorem setBB_bbs_of_none (c : Circuit) (i : Name) (bb : BBox) (h : c.bbs.lookup i = none) :
    (c.setBB i bb).bbs = c.bbs ++ [(i, bb)] := by
  unfold setBB
  rw [h]
  rfl

theorem ty_eq_of_attr_eq {d c : Circuit} {x : Name} (h : d.attr? x = c.attr? x) : d.ty? x = c.ty? x := by
  unfold Circuit.ty?; rw [h]

/-- the circuit after the two pin loops and the registry update -/
structure PrepSpec (c : Circuit) (bb : BBox) (inst : Name) (d : Circuit) : Prop where
  name : d.name = c.name
  bbs : d.bbs = c.bbs ++ [(inst, bb)]
  edges : d.edges = c.edges
  has : ∀ x, d.has x = true ↔ (c.has x = true ∨ ∃ g ∈ bb.ins ++ bb.outs, x = inst ++ "." ++ g)
  attr_old : ∀ x, c.has x = true → d.attr? x = c.attr? x
  attr_in : ∀ g ∈ bb.ins, d.attr? (inst ++ "." ++ g) = some (pinAttr "bb_input")
  attr_out : ∀ g ∈ bb.outs, d.attr? (inst ++ "." ++ g) = some (pinAttr "bb_output")
  nodupN : c.nodeNames.Nodup → d.nodeNames.Nodup

theorem prep_ok (c : Circuit) (bb : BBox) (inst : Name) (ord : Ord)
    (hord : OrdOK ord)
    (hreg : c.bbs.lookup inst = none)
    (hinst : Limit.NameOK inst)
    (hins : bb.ins.Nodup) (houts : bb.outs.Nodup) (hdisj : ∀ g ∈ bb.ins, g ∉ bb.outs)
    (hfresh : ∀ g ∈ bb.ins ++ bb.outs, c.has (inst ++ "." ++ g) = false) :
    ∃ c1 c2, addBlackbox.pins inst c "bb_input" (ord bb.ins) = (c1, .ok) ∧
      addBlackbox.pins inst c1 "bb_output" (ord bb.outs) = (c2, .ok) ∧
      PrepSpec c bb inst (c2.setBB inst bb) := by
  have hoi : ∀ g, g ∈ ord bb.ins ↔ g ∈ bb.ins := fun g => (hord _).mem_iff
  have hoo : ∀ g, g ∈ ord bb.outs ↔ g ∈ bb.outs := fun g => (hord _).mem_iff
  have hfr_in : ∀ g ∈ ord bb.ins, c.has (inst ++ "." ++ g) = false :=
    fun g hg => hfresh g (List.mem_append_left _ ((hoi g).1 hg))
  obtain ⟨c1, e1, s1⟩ := pins_ok inst "bb_input" hinst (by decide) (ord bb.ins) c
    ((hord _).nodup_iff.2 hins) hfr_in
  have hfr_out : ∀ g ∈ ord bb.outs, c1.has (inst ++ "." ++ g) = false := by
    intro g hg
    cases h : c1.has (inst ++ "." ++ g) with
    | false => rfl
    | true =>
      rcases (s1.has _).mp h with h' | ⟨g', hg', e⟩
      · rw [hfresh g (List.mem_append_right _ ((hoo g).1 hg))] at h'; cases h'
      · have := pin_inj_right e
        rw [← this] at hg'
        exact absurd ((hoo g).1 hg) (hdisj _ ((hoi _).1 hg'))
  obtain ⟨c2, e2, s2⟩ := pins_ok inst "bb_output" hinst (by decide) (ord bb.outs) c1
    ((hord _).nodup_iff.2 houts) hfr_out
  have hmono1 : ∀ x, c.has x = true → c1.has x = true := fun x hx => (s1.has x).mpr (Or.inl hx)
  have hn : (c2.setBB inst bb).nodes = c2.nodes := setBB_nodes c2 inst bb
  refine ⟨c1, c2, e1, e2, ?_, ?_, ?_, ?_, ?_, ?_, ?_, ?_⟩
  · rw [setBB_name, s2.name, s1.name]
  · rw [setBB_bbs_of_none _ _ _ (by rw [s2.bbs, s1.bbs]; exact hreg), s2.bbs, s1.bbs]
  · rw [setBB_edges, s2.edges, s1.edges]
  · intro x
    rw [has_congr hn, s2.has, s1.has]
    constructor
    · rintro ((h | ⟨g, hg, h⟩) | ⟨g, hg, h⟩)
      · exact Or.inl h
      · exact Or.inr ⟨g, List.mem_append_left _ ((hoi g).1 hg), h⟩
      · exact Or.inr ⟨g, List.mem_append_right _ ((hoo g).1 hg), h⟩
    · rintro (h | ⟨g, hg, h⟩)
      · exact Or.inl (Or.inl h)
      · rcases List.mem_append.mp hg with hg | hg
        · exact Or.inl (Or.inr ⟨g, (hoi g).2 hg, h⟩)
        · exact Or.inr ⟨g, (hoo g).2 hg, h⟩
  · intro x hx
    rw [attr?_congr hn, s2.attr_old x (hmono1 x hx), s1.attr_old x hx]
  · intro g hg
    have hg' := (hoi g).2 hg
    rw [attr?_congr hn, s2.attr_old _ ((s1.has _).mpr (Or.inr ⟨g, hg', rfl⟩)), s1.attr_new g hg']
  · intro g hg
    rw [attr?_congr hn, s2.attr_new g ((hoo g).2 hg)]
  · intro h
    rw [nodeNames_congr hn]
    exact s2.nodupN (s1.nodupN h)

theorem addBlackbox_main (c : Circuit) (bb : BBox) (inst : Name) (conns : List (Name × Name)) (ord : Ord)
    (hord : OrdOK ord) (hwf : WF c)
    (hreg : c.bbs.lookup inst = none)
    (hinst : Limit.NameOK inst)
    (hins : bb.ins.Nodup) (houts : bb.outs.Nodup) (hdisj : ∀ g ∈ bb.ins, g ∉ bb.outs)
    (hfresh : ∀ g ∈ bb.ins ++ bb.outs, c.has (inst ++ "." ++ g) = false)
    (hkeys : (conns.map (·.1)).Nodup) (hkm : ∀ p ∈ conns, p.1 ∈ bb.ins ++ bb.outs)
    (hnets : ∀ p ∈ conns, p.2 ≠ "")
    (hin : ∀ p ∈ conns, p.1 ∈ bb.ins → ∃ t, c.ty? p.2 = some t ∧ t ≠ "bb_input" ∧ t ≠ "bb_output")
    (hout : ∀ p ∈ conns, p.1 ∈ bb.outs → c.ty? p.2 = some "buf" ∧ c.fanin p.2 = [])
    (houtnets : ∀ p ∈ conns, ∀ p' ∈ conns, p.1 ∈ bb.outs → p'.1 ∈ bb.outs → p.2 = p'.2 → p = p') :
    ∃ c', c.addBlackbox bb inst (conns.map (fun p => (p.1, if p.2.isEmpty then [] else [p.2]))) ord = (c', .ok) ∧
      c'.name = c.name ∧ c'.bbs = c.bbs ++ [(inst, bb)] ∧ WF c' ∧
      (∀ x, c'.has x = true ↔ (c.has x = true ∨ ∃ g ∈ bb.ins ++ bb.outs, x = inst ++ "." ++ g)) ∧
      (∀ x, c.has x = true → c'.attr? x = c.attr? x) ∧
      (∀ g ∈ bb.ins, c'.attr? (inst ++ "." ++ g) = some { ty := some "bb_input", out := some false }) ∧
      (∀ g ∈ bb.outs, c'.attr? (inst ++ "." ++ g) = some { ty := some "bb_output", out := some false }) ∧
      (∀ e, e ∈ c'.edges ↔ (e ∈ c.edges ∨ ∃ p ∈ conns,
        (p.1 ∈ bb.ins ∧ e = (p.2, inst ++ "." ++ p.1)) ∨ (p.1 ∈ bb.outs ∧ e = (inst ++ "." ++ p.1, p.2)))) := by
  have hmap : conns.map (fun p => (p.1, if p.2.isEmpty then [] else [p.2])) =
      conns.map (fun p => (p.1, [p.2])) := by
    apply List.map_congr_left
    intro p hp
    have : p.2.isEmpty = false := by
      cases h : p.2.isEmpty with
      | false => rfl
      | true => exact absurd (String.isEmpty_iff.mp h) (hnets p hp)
    rw [this]; rfl
  rw [hmap]
  obtain ⟨c1, c2, e1, e2, sp⟩ := prep_ok c bb inst ord hord hreg hinst hins houts hdisj hfresh
  have hlk : (c.bbs.lookup inst).isSome = false := by rw [hreg]; rfl
  unfold Circuit.addBlackbox
  rw [hlk]
  simp only [Bool.false_eq_true, if_false, e1, e2]
  generalize c2.setBB inst bb = d at sp
  have hpin_fresh : ∀ p ∈ conns, c.has (inst ++ "." ++ p.1) = false := fun p hp => hfresh _ (hkm p hp)
  have hno_in : ∀ p ∈ conns, ∀ e ∈ d.edges, e.2 ≠ inst ++ "." ++ p.1 := by
    intro p hp e he h
    rw [sp.edges] at he
    have := (hwf.closed e he).2
    rw [h, hpin_fresh p hp] at this; cases this
  have hno_out : ∀ p ∈ conns, ∀ e ∈ d.edges, e.1 ≠ inst ++ "." ++ p.1 := by
    intro p hp e he h
    rw [sp.edges] at he
    have := (hwf.closed e he).1
    rw [h, hpin_fresh p hp] at this; cases this
  obtain ⟨d', hd', s'⟩ := go_ok bb inst hdisj conns d hkeys
    (fun p hp => List.mem_append.mp (hkm p hp))
    (by
      intro p hp hpi
      obtain ⟨t, ht, ht1, ht2⟩ := hin p hp hpi
      refine ⟨⟨t, ?_, ht1, ht2⟩, ?_, hno_in p hp⟩
      · rw [ty_eq_of_attr_eq (sp.attr_old _ (has_of_ty? ht))]; exact ht
      · rw [Ternary.ty_of_attr (sp.attr_in _ hpi)]; rfl)
    (by
      intro p hp hpo
      obtain ⟨ht, hf⟩ := hout p hp hpo
      refine ⟨?_, ?_, ?_, hno_out p hp⟩
      · rw [ty_eq_of_attr_eq (sp.attr_old _ (has_of_ty? ht))]; exact ht
      · rw [sp.edges]; exact edges_of_fanin_nil hf
      · rw [Ternary.ty_of_attr (sp.attr_out _ hpo)]; rfl)
    houtnets
  have hhas : ∀ x, d'.has x = true ↔ (c.has x = true ∨ ∃ g ∈ bb.ins ++ bb.outs, x = inst ++ "." ++ g) := by
    intro x; rw [has_congr s'.nodes]; exact sp.has x
  have hedges : ∀ e, e ∈ d'.edges ↔ (e ∈ c.edges ∨ ∃ p ∈ conns,
      (p.1 ∈ bb.ins ∧ e = (p.2, inst ++ "." ++ p.1)) ∨ (p.1 ∈ bb.outs ∧ e = (inst ++ "." ++ p.1, p.2))) := by
    intro e; rw [s'.edges, sp.edges]
  refine ⟨d', hd', by rw [s'.name, sp.name], by rw [s'.bbs, sp.bbs], ?_, hhas, ?_, ?_, ?_, hedges⟩
  · refine ⟨?_, ?_, ?_⟩
    · rw [nodeNames_congr s'.nodes]; exact sp.nodupN hwf.nodup
    · apply s'.nodupE; rw [sp.edges]; exact hwf.edgesNodup
    · intro e he
      rcases (hedges e).mp he with h | ⟨p, hp, ⟨hpi, h⟩ | ⟨hpo, h⟩⟩
      · obtain ⟨a, b⟩ := hwf.closed e h
        exact ⟨(hhas _).mpr (Or.inl a), (hhas _).mpr (Or.inl b)⟩
      · obtain ⟨t, ht, _⟩ := hin p hp hpi
        rw [h]
        exact ⟨(hhas _).mpr (Or.inl (has_of_ty? ht)), (hhas _).mpr (Or.inr ⟨p.1, hkm p hp, rfl⟩)⟩
      · obtain ⟨ht, _⟩ := hout p hp hpo
        rw [h]
        exact ⟨(hhas _).mpr (Or.inr ⟨p.1, hkm p hp, rfl⟩), (hhas _).mpr (Or.inl (has_of_ty? ht))⟩
  · intro x hx; rw [attr?_congr s'.nodes]; exact sp.attr_old x hx
  · intro g hg; rw [attr?_congr s'.nodes]; exact sp.attr_in g hg
  · intro g hg; rw [attr?_congr s'.nodes]; exact sp.attr_out g hg

end VR
end CG
