/- C18 helpers: everything a successful `acyclic_unroll` call guarantees about its result -/
import CG.Proofs.AcycUnrollLoop
import CG.Proofs.AcycUnrollOut
import CG.Proofs.AcycUnrollCutSem
import CG.Proofs.AcycUnrollFas
set_option linter.unusedSimpArgs false
set_option linter.unusedVariables false
namespace CG
namespace AU
open Circuit Query

/-- the feedback nodes, in the order the function visits them -/
def fbNodes (c : Circuit) (ordF : Ord) : List Name := ordF (dedup ((Tx.approxMinFas c).map (·.1)))

theorem unroll_unfold {c a : Circuit} {ord ordF : Ord} (h : Tx.acyclicUnroll c ord ordF = .ok a) :
    c.bbs = [] ∧ c.nodes.any (fun p => p.2.ty.isNone) = false ∧
    isCyclic { c with edges := c.edges.filter (fun e => !(Tx.approxMinFas c).contains e) } = false ∧
    ∃ acyc0 cCut0 acyc1,
      (ord c.startpointsAll).foldlM (fun a n => Tx.addC a { n := n, ty := "input" })
        ({ name := "acyc_" ++ c.name } : Circuit) = .ok acyc0 ∧
      (fbNodes c ordF).foldlM (cutStep c ord) c = .ok cCut0 ∧
      (List.range ((fbNodes c ordF).length + 1)).foldlM
        (loopBody (c.outputs.foldl (fun a o => a.setOutRaw o false) cCut0) (ord c.startpointsAll)
          (fbNodes c ordF)) acyc0 = .ok acyc1 ∧
      (ord c.outputs).foldlM (outBody (ord c.startpointsAll) (cn (fbNodes c ordF).length)) acyc1 = .ok a ∧
      lint a {} ord = .ok ∧ isCyclic a = false := by
  unfold fbNodes
  unfold Tx.acyclicUnroll at h
  by_cases h1 : (!c.bbs.isEmpty) = true
  · rw [if_pos h1] at h; cases h
  rw [if_neg h1] at h
  by_cases h2 : c.nodes.any (fun p => p.2.ty.isNone) = true
  · rw [if_pos h2] at h; cases h
  rw [if_neg h2] at h
  simp only [] at h
  by_cases h3 : isCyclic { c with edges := c.edges.filter (fun e => !(Tx.approxMinFas c).contains e) } = true
  · rw [if_pos h3] at h; cases h
  rw [if_neg h3] at h
  obtain ⟨acyc0, e0, h⟩ := bind_ok h
  obtain ⟨cCut0, e1, h⟩ := bind_ok h
  obtain ⟨acyc1, e2, h⟩ := bind_ok h
  obtain ⟨acyc2, e3, h⟩ := bind_ok h
  by_cases h4 : (lint acyc2 {} ord != .ok) = true
  · rw [if_pos h4] at h; cases h
  rw [if_neg h4] at h
  by_cases h5 : isCyclic acyc2 = true
  · rw [if_pos h5] at h; cases h
  rw [if_neg h5] at h
  injection h with h
  subst h
  refine ⟨by simpa using h1, by simpa using h2, by simpa using h3, acyc0, cCut0, acyc1, e0, e1, e2, e3,
    by simpa using h4, by simpa using h5⟩

/-! ### the shared-inputs circuit `acyc` before the loop -/

structure Acyc0 (sp : List Name) (A : Circuit) : Prop where
  wf : WF A
  has : ∀ x, A.has x = true ↔ x ∈ sp
  ty : ∀ x, A.ty? x = some "input" ↔ x ∈ sp
  out : ∀ x, A.isOut x = false
  gate : ∀ n ∈ sp, Gate A n "input" []

theorem acyc0_facts {sp : List Name} {name : String} {A : Circuit}
    (h : sp.foldlM (fun a n => Tx.addC a { n := n, ty := "input" }) ({ name := name } : Circuit) = .ok A) :
    Acyc0 sp A := by
  obtain ⟨h1, h2, _, _, h5⟩ := inputsFold sp _ A h
  simp only [List.nil_append] at h1 h2
  have hnames : A.nodeNames = sp := by
    unfold nodeNames
    rw [h1, List.map_map]
    simp [Function.comp_def]
  have hnd : A.nodeNames.Nodup := by rw [hnames]; exact h5
  have hattr : ∀ x ∈ sp, A.attr? x = some inAttr := by
    intro x hx
    apply attr?_of_mem hnd
    rw [h1]
    exact List.mem_map.2 ⟨x, hx, rfl⟩
  have hhas : ∀ x, A.has x = true ↔ x ∈ sp := by
    intro x; rw [has_iff_mem, hnames]
  refine ⟨⟨hnd, by rw [h2]; exact List.nodup_nil, fun e he => by rw [h2] at he; cases he⟩, hhas, ?_, ?_, ?_⟩
  · intro x
    constructor
    · intro hx; exact (hhas x).1 (has_of_ty? hx)
    · intro hx; rw [ty?, hattr x hx]; rfl
  · intro x
    by_cases hx : x ∈ sp
    · unfold isOut; rw [hattr x hx]; rfl
    · have : A.has x = false := by
        cases hh : A.has x with
        | false => rfl
        | true => exact absurd ((hhas x).1 hh) hx
      unfold isOut; rw [attr?_none_of_not_has this]
  · intro n hn
    refine ⟨by rw [ty?, hattr n hn]; rfl, ?_⟩
    unfold fanin
    rw [h2]
    rfl

/-! ### the specification of the result -/

structure USpec (c : Circuit) (ord : Ord) (F : List Name) (cCut a : Circuit) : Prop where
  Fnodup : F.Nodup
  Fmem : ∀ x, x ∈ F ↔ x ∈ (Tx.approxMinFas c).map (·.1)
  cut : CutFacts c F cCut
  rank : ∃ rank : Name → Nat, ∀ e ∈ cCut.edges, rank e.1 < rank e.2
  noBBO : ∀ x, c.ty? x ≠ some "bb_output"
  wf : WF a
  acyc : isCyclic a = false
  lint : lint a {} ord = .ok
  inp : ∀ x, a.ty? x = some "input" ↔ (x ∈ c.inputs ∨ ∃ f ∈ F, x = pref (cn 0) (aux f))
  out : ∀ x, a.isOut x = true ↔ x ∈ c.outputs
  inGate : ∀ n ∈ c.inputs, Gate a n "input" []
  copy : ∀ i ≤ F.length, Copy cCut F i a
  outGate : ∀ o ∈ c.outputs, o ∉ c.inputs → Gate a o "buf" [pref (cn F.length) o]
  auxNotIn : ∀ i ≤ F.length, ∀ n, cCut.has n = true → pref (cn i) n ∉ c.inputs

theorem mem_sp {c : Circuit} {ord : Ord} (hord : OrdOK ord) (hc : WF c) (x : Name) :
    x ∈ ord c.startpointsAll ↔ (c.ty? x = some "input" ∨ c.ty? x = some "bb_output") := by
  rw [(hord _).mem_iff]
  unfold startpointsAll
  rw [Q.mem_filterType c hc.nodup]
  constructor
  · rintro ⟨t, ht, hm⟩
    simp only [List.mem_cons, List.not_mem_nil, or_false] at hm
    rcases hm with rfl | rfl
    · exact Or.inl ht
    · exact Or.inr ht
  · rintro (h | h)
    · exact ⟨_, h, by simp⟩
    · exact ⟨_, h, by simp⟩

theorem unroll_spec {c a : Circuit} {ord ordF : Ord} (hord : OrdOK ord) (hordF : OrdOK ordF) (hc : WF c)
    (h : Tx.acyclicUnroll c ord ordF = .ok a) :
    ∃ cCut, USpec c ord (fbNodes c ordF) cCut a := by
  obtain ⟨_, _, hcyc, acyc0, cCut0, acyc1, e0, e1, e2, e3, hlint, hacyc⟩ := unroll_unfold h
  have hFmem : ∀ x, x ∈ fbNodes c ordF ↔ x ∈ (Tx.approxMinFas c).map (·.1) := by
    intro x
    unfold fbNodes
    rw [(hordF _).mem_iff, Q.mem_dedup]
  have hFnd : (fbNodes c ordF).Nodup := by
    unfold fbNodes
    exact (hordF _).nodup_iff.2 (Q.nodup_dedup _)
  have hFc : ∀ f ∈ fbNodes c ordF, c.has f = true := by
    intro f hf
    obtain ⟨e, he, rfl⟩ := List.mem_map.1 ((hFmem f).1 hf)
    exact (hc.closed e (fas_sub c e he).1).1
  generalize hF : fbNodes c ordF = F at *
  have hI := cutFold_inv hord F [] c cCut0 (cutInv_nil c hc) hFc (by simpa using hFnd) e1
  rw [List.nil_append] at hI
  have K := cutFacts hc hI hFnd hFc
  generalize hcut : c.outputs.foldl (fun a o => a.setOutRaw o false) cCut0 = cCut at K e2
  -- rank of the cut circuit
  have hrank : ∃ rank : Name → Nat, ∀ e ∈ cCut.edges, rank e.1 < rank e.2 := by
    obtain ⟨l, hl⟩ := Q.topoSort_of_not_cyclic _ hcyc
    have hr := (Q.rank_of_topo _ (cut_wf c hc) l hl).1
    apply K.acyclic hc (Tx.approxMinFas c) (fun e he => (hFmem e.1).2 (List.mem_map.2 ⟨e, he, rfl⟩)) l.idxOf
    intro e he
    exact hr e.1 e.2 he
  have A0 := acyc0_facts e0
  have R : SubReq cCut (ord c.startpointsAll) F := by
    refine ⟨K.wf, K.outs, hFnd, K.tyAux, fun f hf => K.fanin_aux hc hf, ?_⟩
    intro n hn
    rw [mem_sp hord hc]
    exact Or.inl ((CG.mem_inputs hc.nodup n).1 ((K.mem_inputs hc n).1 hn))
  have L0 : LoopInv acyc0 cCut (ord c.startpointsAll) F 0 acyc0 := by
    refine ⟨A0.wf, KeepsX.refl _ _, ?_, A0.out, fun i hi => absurd hi (Nat.not_lt_zero _), ?_,
      fun h0 => absurd h0 (Nat.lt_irrefl 0), fun i hi => absurd hi (Nat.not_lt_zero _)⟩
    · intro x
      constructor
      · exact Or.inl
      · rintro (h1 | ⟨h1, _⟩)
        · exact h1
        · exact absurd h1 (Nat.lt_irrefl 0)
    · intro x
      constructor
      · exact Or.inl
      · rintro (h1 | ⟨i, hi, _⟩)
        · exact h1
        · exact absurd hi (Nat.not_lt_zero _)
  have L := loop_all R L0 (F.length + 1) acyc1 e2
  have hspIn := L.spIn (Nat.succ_pos _)
  have hnoBBO : ∀ x, c.ty? x ≠ some "bb_output" := by
    intro x hx
    have h1 : x ∈ ord c.startpointsAll := (mem_sp hord hc x).2 (Or.inr hx)
    have h2 := (CG.mem_inputs hc.nodup x).1 ((K.mem_inputs hc x).1 (hspIn x h1))
    rw [hx] at h2
    exact absurd h2 (by decide)
  have hsp : ∀ x, x ∈ ord c.startpointsAll ↔ x ∈ c.inputs := by
    intro x
    rw [mem_sp hord hc, CG.mem_inputs hc.nodup]
    constructor
    · rintro (h1 | h1)
      · exact h1
      · exact absurd h1 (hnoBBO x)
    · exact Or.inl
  have hOnd : ([] ++ ord c.outputs).Nodup := by
    rw [List.nil_append]
    apply (hord _).nodup_iff.2
    unfold outputs
    exact (hc.nodup.sublist (List.filter_sublist.map _))
  have O := out_all (ord c.outputs) [] acyc1 a (out_init acyc1 _ _ L.wf L.out) hOnd e3
  rw [List.nil_append] at O
  have kall : Keeps acyc0 a := L.keeps0.trans O.keeps
  refine ⟨cCut, hFnd, hFmem, K, hrank, hnoBBO, O.wf, hacyc, hlint, ?_, ?_, ?_, ?_, ?_, ?_⟩
  · intro x
    rw [O.inp, L.inp, A0.ty, hsp]
    constructor
    · rintro (h1 | ⟨_, h1⟩)
      · exact Or.inl h1
      · exact Or.inr h1
    · rintro (h1 | h1)
      · exact Or.inl h1
      · exact Or.inr ⟨Nat.succ_pos _, h1⟩
  · intro x
    rw [O.out, (hord _).mem_iff]
  · intro n hn
    exact (A0.gate n ((hsp n).2 hn)).keep kall (by simp)
  · intro i hi
    exact (L.copy i (by omega)).keep O.keeps
  · intro o ho hni
    exact O.gate o ((hord _).mem_iff.2 ho) (fun hc => hni ((hsp o).1 hc))
  · intro i hi n hn hm
    have := L.disj i (by omega) n hn
    rw [(A0.has _).2 ((hsp _).2 hm)] at this
    cases this

end AU
end CG
