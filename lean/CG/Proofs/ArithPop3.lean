/- C13 helper (popcount 3/3): the queue loop, the input and output loops, the whole generator -/
import CG.Proofs.ArithPop2
set_option linter.unusedSimpArgs false
set_option linter.unusedVariables false
namespace CG
namespace Arith
open Logic Circuit Limit
open Tx (addC)

def onesCount (v : Val) (w : Nat) : Nat := ((List.range w).filter (fun i => v ("in_" ++ toString i))).length

structure PopInv (w : Nat) (c : Circuit) (q : List (List Name)) (i : Nat) : Prop where
  inv : Inv' c []
  bbs : c.bbs = []
  driven : Driven c
  plain : ∀ n t, c.ty? n = some t → t ∈ genTypes
  names : ∀ x, c.has x = true → PName w i x
  queue : ∀ vec ∈ q, ∀ x ∈ vec, c.has x = true
  tie0 : ("tie0", { ty := some "0", out := some false }) ∈ c.nodes
  outputs : c.outputs = []
  inputs : ∀ x, x ∈ c.inputs ↔ ∃ k, k < w ∧ x = "in_" ++ toString k
  sem : ∀ v, Consistent c v → (q.map (vecVal v)).sum = onesCount v w

theorem getD_map_range (f : Nat → Name) (n j : Nat) (h : j < n) : ((List.range n).map f).getD j "" = f j := by
  simp [List.getD, h]

theorem vecVal_outs (v : Val) (f : Nat → Name) (n : Nat) :
    vecVal v ((List.range (n + 1)).map f) = sumBits (fun j => v (f j)) n + 2 ^ n * b2n (v (f n)) := by
  unfold vecVal
  rw [List.length_map, List.length_range, sumBits_succ, getD_map_range f (n + 1) n (by omega), Nat.mul_comm]
  congr 1
  apply sumBits_congr
  intro j hj
  rw [getD_map_range f (n + 1) j (by omega)]

theorem popcountStep_ok {w : Nat} {c : Circuit} {ns ms : List Name} {rest : List (List Name)} {i : Nat}
    (h : PopInv w c (ns :: ms :: rest) i) :
    ∃ c', popcountStep (c, ns :: ms :: rest, i) = .ok (c', rest ++ [(List.range (max ns.length ms.length + 1)).map
        (fun j => "add_" ++ toString i ++ "_out_" ++ toString j)], i + 1) ∧
      PopInv w c' (rest ++ [(List.range (max ns.length ms.length + 1)).map
        (fun j => "add_" ++ toString i ++ "_out_" ++ toString j)]) (i + 1) := by
  have hwf := wf_of_inv h.inv
  obtain ⟨AD, hAD, S⟩ := adder_full (max ns.length ms.length) false true
  have hclash : ∀ n, c.has (pref ("add_" ++ toString i) n) = false :=
    fun n => not_has_of h.names (not_PName_add w i n)
  have hsrcN : ∀ x, x ∈ padTo ns (max ns.length ms.length) → c.has x = true := by
    intro x hx
    rcases mem_padTo hx with h0 | h0
    · exact h.queue ns (by simp) x h0
    · rw [h0]; exact has_of_mem h.tie0
  have hsrcM : ∀ x, x ∈ padTo ms (max ns.length ms.length) → c.has x = true := by
    intro x hx
    rcases mem_padTo hx with h0 | h0
    · exact h.queue ms (by simp) x h0
    · rw [h0]; exact has_of_mem h.tie0
  obtain ⟨c1, c3, e1, e3, P⟩ := popStep_run (inst := "add_" ++ toString i)
    (fun j => (padTo ns (max ns.length ms.length)).getD j "")
    (fun j => (padTo ms (max ns.length ms.length)).getD j "")
    h.inv h.bbs h.plain hclash S
    (fun j hj => ⟨hsrcN _ (getD_mem_padTo ns _ j (Nat.le_max_left _ _) hj),
      hsrcM _ (getD_mem_padTo ms _ j (Nat.le_max_right _ _) hj)⟩)
  refine ⟨c3, ?_, ⟨P.inv, P.bbs, P.driven hwf S hclash h.driven, P.plain hwf S h.plain, ?_, ?_,
    P.mem_parent hclash h.tie0, by rw [P.outputs hclash, h.outputs], ?_, ?_⟩⟩
  · simp only [popcountStep]
    rw [hAD, bind_ok, liftO_ok e1, bind_ok]
    rw [e3, bind_ok]
    rfl
  · intro x hx
    rcases P.has_cases hx with h0 | ⟨m, rfl⟩
    · exact (h.names x h0).mono
    · exact Or.inr (Or.inr ⟨i, m, by omega, rfl⟩)
  · intro vec hvec x hx
    rcases List.mem_append.1 hvec with h0 | h0
    · exact P.has_parent hclash (h.queue vec (by simp [h0]) x hx)
    · rw [List.mem_singleton] at h0
      subst h0
      obtain ⟨j, hj, rfl⟩ := List.mem_map.1 hx
      rw [List.mem_range] at hj
      rw [pref_out]
      exact P.has_out S hj
  · intro x; rw [P.inputs hclash]; exact h.inputs x
  · intro v hv
    obtain ⟨hc, e⟩ := P.sem hwf S hclash v hv
    have ih := h.sem v hc
    have ht : v "tie0" = false := zero_val hc h.tie0 rfl
    simp only [List.map_cons, List.sum_cons] at ih
    rw [List.map_append, List.sum_append, List.map_cons, List.map_nil, List.sum_cons, List.sum_nil, Nat.add_zero]
    have e1 : vecVal v ((List.range (max ns.length ms.length + 1)).map
        (fun j => "add_" ++ toString i ++ "_out_" ++ toString j)) = vecVal v ns + vecVal v ms := by
      rw [vecVal_outs]
      simp only [pref_out]
      rw [e, ← vecVal_padTo v ns _ (Nat.le_max_left _ _) ht, ← vecVal_padTo v ms _ (Nat.le_max_right _ _) ht]
      unfold vecVal
      rw [length_padTo ns _ (Nat.le_max_left _ _), length_padTo ms _ (Nat.le_max_right _ _)]
    rw [e1]
    omega

/-! ### the queue loop -/

theorem popcountLoop_ok {w : Nat} : ∀ (fuel : Nat) (c : Circuit) (q : List (List Name)) (i : Nat),
    PopInv w c q i → 1 ≤ q.length → q.length ≤ fuel →
    ∃ c' p0 i', popcountLoop fuel (c, q, i) = .ok (c', [p0], i') ∧ PopInv w c' [p0] i'
  | 0, _, q, _, _, h1, h2 => by omega
  | fuel + 1, c, q, i, h, h1, h2 => by
    match q, h, h1, h2 with
    | [p0], h, _, _ =>
      refine ⟨c, p0, i, ?_, h⟩
      simp [popcountLoop]
      rfl
    | ns :: ms :: rest, h, _, h2 =>
      obtain ⟨c', e', h'⟩ := popcountStep_ok h
      obtain ⟨c'', p0, i', e'', h''⟩ := popcountLoop_ok fuel c' _ (i + 1) h' (by simp) (by
        simp only [List.length_append, List.length_cons, List.length_nil] at h2 ⊢; omega)
      refine ⟨c'', p0, i', ?_, h''⟩
      have hlen : (ns :: ms :: rest).length > 1 := by simp
      simp only [popcountLoop, hlen, if_true]
      rw [e', bind_ok]
      exact e''

/-! ### the input loop and `tie0` -/

def inNode (k : Nat) : Name × Attr := ("in_" ++ toString k, { ty := some "input", out := some false })

structure InInv (n : Nat) (c : Circuit) : Prop where
  inv : Inv' c []
  bbs : c.bbs = []
  nodes : c.nodes = (List.range n).map inNode
  edges : c.edges = []

theorem nameOK_in (i : Nat) : NameOK ("in_" ++ toString i) := nameOK_lit "in_" 'i' ['n', '_'] rfl (by decide) _

theorem inLoop_ok (name : String) : ∀ n, ∃ c,
    (List.range n).foldlM (fun c i => addC c { n := "in_" ++ toString i, ty := "input" }) ({ name := name } : Circuit)
      = .ok c ∧ InInv n c
  | 0 => ⟨{ name := name }, rfl, ⟨empty_Inv name, rfl, rfl, rfl⟩⟩
  | n + 1 => by
    obtain ⟨c, e, h⟩ := inLoop_ok name n
    have hfresh : c.has ("in_" ++ toString n) = false := by
      cases hh : c.has ("in_" ++ toString n) with
      | false => rfl
      | true =>
        obtain ⟨a, ha⟩ := has_exists hh
        rw [h.nodes] at ha
        obtain ⟨k, hk, e⟩ := List.mem_map.1 ha
        rw [List.mem_range] at hk
        injection e with e _
        have := (idx_inj "in_").1 e
        omega
    obtain ⟨c', e', _, r⟩ := add_spec c h.inv ("in_" ++ toString n) "input" [] [] false hfresh (nameOK_in n)
      (by decide) (fun _ => rfl) (fun _ => by simp) (fun u hu => by cases hu) (fun u hu => by cases hu)
    refine ⟨c', ?_, ⟨r.inv, by rw [r.bbs, h.bbs], ?_, by rw [r.edgesNil rfl rfl, h.edges]⟩⟩
    · rw [foldlM_range_succ, e, bind_ok]; exact e'
    · rw [r.nodes, h.nodes, List.range_succ, List.map_append]; rfl

theorem popcount_init (w : Nat) : ∃ c c0,
    (List.range w).foldlM (fun c i => addC c { n := "in_" ++ toString i, ty := "input" })
        ({ name := "popcount" } : Circuit) = .ok c ∧ addC c { n := "tie0", ty := "0" } = .ok c0 ∧
      PopInv w c0 ((List.range w).map (fun i => ["in_" ++ toString i])) 0 := by
  obtain ⟨c, e, h⟩ := inLoop_ok "popcount" w
  have hwf := wf_of_inv h.inv
  have hfresh : c.has "tie0" = false := by
    cases hh : c.has "tie0" with
    | false => rfl
    | true =>
      obtain ⟨a, ha⟩ := has_exists hh
      rw [h.nodes] at ha
      obtain ⟨k, _, e⟩ := List.mem_map.1 ha
      injection e with e _
      revert e; name_ne
  obtain ⟨c0, e0, _, r⟩ := add_spec c h.inv "tie0" "0" [] [] false hfresh
    (nameOK_lit "tie0" 't' ['i', 'e', '0'] rfl (by decide) "") (by decide) (fun _ => rfl) (fun _ => by simp)
    (fun u hu => by cases hu) (fun u hu => by cases hu)
  have hnodes : c0.nodes = (List.range w).map inNode ++ [("tie0", { ty := some "0", out := some false })] := by
    rw [r.nodes, h.nodes]
  have hmem : ∀ x a, (x, a) ∈ c0.nodes → (∃ k, k < w ∧ x = "in_" ++ toString k ∧ a.ty = some "input") ∨
      (x = "tie0" ∧ a.ty = some "0") := by
    intro x a hx
    rw [hnodes] at hx
    rcases List.mem_append.1 hx with hx | hx
    · obtain ⟨k, hk, e⟩ := List.mem_map.1 hx
      rw [List.mem_range] at hk
      injection e with e1 e2
      exact Or.inl ⟨k, hk, e1.symm, by rw [← e2]⟩
    · rw [List.mem_singleton] at hx
      injection hx with e1 e2
      exact Or.inr ⟨e1, by rw [e2]⟩
  have hty : ∀ x t, c0.ty? x = some t → t = "input" ∨ t = "0" := by
    intro x t ht
    obtain ⟨a, ha, hta⟩ := ty?_mem ht
    rcases hmem x a ha with ⟨_, _, _, h1⟩ | ⟨_, h1⟩
    · rw [hta] at h1; injection h1 with h1; exact Or.inl h1
    · rw [hta] at h1; injection h1 with h1; exact Or.inr h1
  refine ⟨c, c0, e, e0, ⟨r.inv, by rw [r.bbs, h.bbs], ?_, ?_, ?_, ?_, ?_, ?_, ?_, ?_⟩⟩
  · intro x t ht hs
    exfalso
    rcases hty x t ht with rfl | rfl <;> revert hs <;> decide
  · intro x t ht
    rcases hty x t ht with rfl | rfl <;> decide
  · intro x hx
    obtain ⟨a, ha⟩ := has_exists hx
    rcases hmem x a ha with ⟨k, hk, h1, _⟩ | ⟨h1, _⟩
    · exact Or.inr (Or.inl ⟨k, hk, h1⟩)
    · exact Or.inl h1
  · intro vec hvec x hx
    obtain ⟨k, hk, rfl⟩ := List.mem_map.1 hvec
    rw [List.mem_singleton] at hx
    subst hx
    apply has_of_mem (p := inNode k)
    rw [hnodes]
    exact List.mem_append.2 (Or.inl (List.mem_map.2 ⟨k, hk, rfl⟩))
  · rw [hnodes]; simp
  · unfold Circuit.outputs
    rw [hnodes, List.filter_append, List.map_append]
    have : ((List.range w).map inNode).filter (fun p => p.2.out.getD false) = [] := by
      rw [List.filter_eq_nil_iff]
      intro p hp
      obtain ⟨k, _, rfl⟩ := List.mem_map.1 hp
      simp [inNode]
    rw [this]
    simp
  · intro x
    rw [mem_inputs r.wf.nodup]
    constructor
    · intro ht
      obtain ⟨a, ha, hta⟩ := ty?_mem ht
      rcases hmem x a ha with ⟨k, hk, h1, _⟩ | ⟨_, h1⟩
      · exact ⟨k, hk, h1⟩
      · rw [hta] at h1; injection h1 with h1; exact absurd h1 (by decide)
    · rintro ⟨k, hk, rfl⟩
      rw [ty?_of_mem r.wf.nodup (a := (inNode k).2)]
      · rfl
      · rw [hnodes]
        exact List.mem_append.2 (Or.inl (List.mem_map.2 ⟨k, List.mem_range.2 hk, rfl⟩))
  · intro v _
    rw [List.map_map]
    have : (vecVal v ∘ fun (i : Nat) => ["in_" ++ toString i]) = fun (i : Nat) => b2n (v ("in_" ++ toString i)) := by
      funext i
      simp only [Function.comp, vecVal_singleton]
    rw [this, sum_b2n_eq_length_filter (fun i => v ("in_" ++ toString i))]
    rfl

end Arith
end CG
