/- helper lemmas for C13 (arithmetic generators): entry point.
   ArithBits    clog2 / int_to_bin / bin_to_int
   ArithNames   generated names never collide
   ArithFA      half adder and full adder as concrete circuits
   ArithGen     success and structure of `add` / `connect`; LintClean = WS + driven; embeddings of valuations
   ArithSub     success of `add_subcircuit` with single-net connections, more consequences of `SubFacts`
   ArithAdder   the ripple-carry adder by induction on the bit index
   ArithMux     the multiplexer (one invariant for its three loops, select-line arithmetic)
   ArithPop1-4  popcount: bit-vector sums over nets, relabelling, the connect loop; one queue step; the queue loop
                and the input loop; the output buffers, removal of an unused `tie0`, the whole generator -/
import CG.Logic
import CG.Spec
import CG.Props.C06
import CG.Proofs.ArithBits
import CG.Proofs.ArithFA
import CG.Proofs.ArithAdder
import CG.Proofs.ArithMux
import CG.Proofs.ArithPop4
namespace CG
end CG
