/- C18 helpers: the output stage of `acyclic_unroll` -/
import CG.Proofs.AcycUnrollFold
set_option linter.unusedSimpArgs false
set_option linter.unusedVariables false
namespace CG
namespace AU
open Circuit
open Tx (addC)

/-- body of `for o in c.outputs()` -/
def outBody (sp : List Name) (last : Name) (a : Circuit) (o : Name) : E Circuit :=
  if sp.contains o then liftO (a.setOutput [o] true)
  else addC a { n := o, ty := "buf", fanin := [last ++ "_" ++ o], output := true }

structure OutInv (acyc1 : Circuit) (sp : List Name) (last : Name) (L : List Name) (B : Circuit) : Prop where
  wf : WF B
  keeps : Keeps acyc1 B
  inp : ∀ x, B.ty? x = some "input" ↔ acyc1.ty? x = some "input"
  out : ∀ x, B.isOut x = true ↔ x ∈ L
  has : ∀ x, B.has x = true ↔ (acyc1.has x = true ∨ x ∈ L)
  gate : ∀ o ∈ L, o ∉ sp → Gate B o "buf" [pref last o]

theorem out_step {acyc1 : Circuit} {sp : List Name} {last : Name} {L : List Name} {B B' : Circuit} {o : Name}
    (I : OutInv acyc1 sp last L B) (hoL : o ∉ L) (h : outBody sp last B o = .ok B') :
    OutInv acyc1 sp last (L ++ [o]) B' := by
  unfold outBody at h
  by_cases hs : sp.contains o = true
  · rw [if_pos hs] at h
    obtain ⟨hb, e⟩ := setOutput_ok (liftO_ok h)
    subst e
    have k : Keeps B (B.setOutRaw o true) := keeps_setOutRaw B o true
    refine ⟨wf_setOutRaw o true I.wf, I.keeps.trans k, ?_, ?_, ?_, ?_⟩
    · intro x; rw [setOutRaw_ty?]; exact I.inp x
    · intro x
      rw [setOutRaw_isOut true hb, List.mem_append, List.mem_singleton]
      by_cases hx : x = o
      · rw [if_pos hx]; simp [hx]
      · rw [if_neg hx, I.out]; simp [hx]
    · intro x
      rw [setOutRaw_has, I.has, List.mem_append, List.mem_singleton]
      constructor
      · rintro (h1 | h1)
        · exact Or.inl h1
        · exact Or.inr (Or.inl h1)
      · rintro (h1 | h1 | h1)
        · exact Or.inl h1
        · exact Or.inr h1
        · subst h1
          rcases (I.has x).1 hb with h2 | h2
          · exact Or.inl h2
          · exact Or.inr h2
    · intro o' ho' hn
      rcases List.mem_append.1 ho' with h1 | h1
      · exact (I.gate o' h1 hn).keep k (by simp)
      · simp only [List.mem_singleton] at h1
        subst h1
        exact absurd (List.contains_iff_mem.1 hs) hn
  · rw [if_neg hs] at h
    obtain ⟨hb', c3, h3, h4⟩ := addC_ok rfl rfl rfl h
    have hb' : B.has o = false := hb'
    simp only [] at h3 h4
    rw [connect_empty_right] at h3
    injection h3 with h3 _
    subst h3
    have k0 : Keeps B (B.addNodeAttr o { ty := some "buf", out := some true }) := keeps_addNodeAttr _ hb'
    have k1 := keeps_connect h4
    have hn1 := (connect_ok h4).1
    have k : Keeps B B' := Keeps.comp k0 k1 (fun n hn => by simp only [List.mem_singleton] at hn; rw [hn]; exact hb')
    have hty : (B.addNodeAttr o { ty := some "buf", out := some true }).ty? o = some "buf" := by
      rw [addNodeAttr_ty_fresh _ hb', if_pos rfl]
    have g : Gate B' o "buf" [pref last o] := connect_gate h4 hty
    refine ⟨wf_connect h4 (wf_addNodeAttr _ I.wf), I.keeps.trans k, ?_, ?_, ?_, ?_⟩
    · intro x
      rw [ty?_congr hn1, addNodeAttr_ty_fresh _ hb', ← I.inp]
      by_cases hx : x = o
      · rw [if_pos hx, hx, ty?_none_of_not_has hb']
        simp
      · rw [if_neg hx]
    · intro x
      rw [isOut_congr hn1, addNodeAttr_isOut _ hb', List.mem_append, List.mem_singleton]
      by_cases hx : x = o
      · rw [if_pos hx]; simp [hx]
      · rw [if_neg hx, I.out]; simp [hx]
    · intro x
      rw [has_congr hn1, addNodeAttr_has, Bool.or_eq_true, I.has, List.mem_append, List.mem_singleton, beq_iff_eq,
        or_assoc]
    · intro o' ho' hn
      rcases List.mem_append.1 ho' with h1 | h1
      · exact (I.gate o' h1 hn).keep k (by simp)
      · simp only [List.mem_singleton] at h1
        subst h1
        exact g

theorem out_all {acyc1 : Circuit} {sp : List Name} {last : Name} : ∀ (R L : List Name) (B r : Circuit),
    OutInv acyc1 sp last L B → (L ++ R).Nodup → R.foldlM (outBody sp last) B = .ok r → OutInv acyc1 sp last (L ++ R) r := by
  intro R
  induction R with
  | nil =>
    intro L B r I _ h
    simp only [List.foldlM_nil] at h
    injection h with h
    subst h
    rw [List.append_nil]
    exact I
  | cons o R ih =>
    intro L B r I hnd h
    rw [List.foldlM_cons] at h
    obtain ⟨B', h1, h2⟩ := bind_ok h
    have hoL : o ∉ L := by
      intro hc
      rw [List.nodup_append] at hnd
      exact hnd.2.2 o hc o (by simp) rfl
    have e : L ++ o :: R = (L ++ [o]) ++ R := by simp
    rw [e]
    exact ih _ _ _ (out_step I hoL h1) (by rw [← e]; exact hnd) h2

theorem out_init (acyc1 : Circuit) (sp : List Name) (last : Name) (hw : WF acyc1) (ho : ∀ x, acyc1.isOut x = false) :
    OutInv acyc1 sp last [] acyc1 := by
  refine ⟨hw, KeepsX.refl _ _, fun _ => Iff.rfl, ?_, ?_, fun o ho => by cases ho⟩
  · intro x; rw [ho]; simp
  · intro x; simp

end AU
end CG
