/- C17 (algorithm) helpers, part 16: if the head of a supergate is internal to another supergate, so are all its
   internal nodes -/
import CG.Proofs.SGAlgoMono
import CG.Proofs.SGAlgoPerSG
set_option linter.unusedSectionVars false
set_option linter.unusedVariables false
set_option linter.unusedSimpArgs false
namespace CG
namespace SGA
open Query Supergates Q

/-- which nodes are internal depends on the node set only -/
theorem internal_indep (c2 : Circuit) (o1 h1 o2 h2 : Name) (S : List Name) (n : Name) :
    n ∈ internal (sgCircuit c2 o1 h1 S) ↔ n ∈ internal (sgCircuit c2 o2 h2 S) := by
  rw [mem_sg_internal, mem_sg_internal]

namespace SGCtx
variable {c2 : Circuit} {o h : Name} {S : List Name}

/-- the same node set seen from the cone of its own head -/
theorem intrinsic (X : SGCtx c2 o h S) : SGCtx c2 h h S :=
  ⟨X.clean, X.acyc, X.fanin2, has_of_cone c2 X.wf X.root X.head.1, ⟨root_mem_cone c2 h, Or.inl rfl⟩, X.nd,
    fun x => (X.mem x).trans (InS_intrinsic c2 X.wf X.acyc X.fanin2 X.head x)⟩

/-- a member (not the head) with a driver in the set is not a frontier node -/
theorem nonfrontier_of_driven (X : SGCtx c2 o h S) {v w : Name} (hw : w ∈ S) (hwh : w ≠ h)
    (he : (v, w) ∈ c2.edges) (hv : v ∈ S) : ¬ 1 < (childrenOf (domChildren c2 o) w).length := by
  intro hgt
  have T := treeOK c2 X.wf X.acyc o
  have hwc := X.mem_cone hw
  have hp : par c2 o v = some w := head_fanins c2 X.wf X.acyc o X.fanin2 ⟨hwc, Or.inr hgt⟩ he
  have hhw := chain_SD c2 X.wf X.acyc o (X.chain_of_ne hw hwh)
  by_cases hvh : v = h
  · subst hvh
    exact SD_asymm c2 X.wf X.acyc (par_SD c2 X.wf X.acyc X.head.1 hp) hhw
  · rcases (X.chain_of_ne hv hvh).par_cases T with h1 | ⟨y, h1, h2, _⟩
    · rw [hp] at h1; cases h1; exact hwh rfl
    · rw [hp] at h1; cases h1
      rw [h2] at hgt; simp at hgt

end SGCtx

section
variable {c2 : Circuit} {h h' : Name} {S S' : List Name}

/-- every member of the supergate headed by `h` is a member of a supergate to which `h` is internal -/
theorem mem_of_head_internal (X : SGCtx c2 h h S) (X' : SGCtx c2 h' h' S') (hne : h ≠ h') (o2 : Name)
    (hint : h ∈ internal (sgCircuit c2 o2 h' S')) : ∀ v ∈ S, v ∈ S' := by
  have hwf := X.wf
  have hac := X.acyc
  have hhS' : h ∈ S' := ((mem_sg_internal c2 o2 h' S' h).mp hint).1
  have hhc : h ∈ coneOf c2 h' := X'.mem_cone hhS'
  have hhanc : Anc c2 h h' := (chain_SD c2 hwf hac h' (X'.chain_of_ne hhS' hne)).anc hwf hhc
  have key : ∀ (k : Nat) (v : Name), RPath (EdgeRel c2) v h k → v ∈ S → v ∈ S' := by
    intro k
    induction k with
    | zero =>
      intro v hp _
      rw [hp.zero_eq]
      exact hhS'
    | succ k ih =>
      intro v hp hv
      obtain ⟨w, he, hp'⟩ := hp.succ_inv
      have hvh : v ≠ h := by
        intro h1
        subst h1
        exact anc_irrefl hac ⟨k, hp⟩
      have hwc : w ∈ coneOf c2 h := (mem_cone c2 hwf h w).mpr ⟨k, hp'⟩
      have hwS : w ∈ S := (X.mem w).mpr (fanout_closed c2 hwf hac h (X.chain_of_ne hv hvh) he hwc)
      have hwS' : w ∈ S' := ih w hp' hwS
      by_cases hwh : w = h
      · subst hwh
        rcases (X'.internal_cases ((internal_indep c2 o2 h' h' h' S' w).mp hint)).2 with h1 | ⟨a, hea, ha⟩
        · have := Q.mem_fanin.mpr he
          rw [h1] at this
          exact absurd this List.not_mem_nil
        · exact (X'.mem v).mpr (fanin_closed c2 hwf hac h' X'.fanin2 X'.head ((X'.mem w).mp hwS')
            ((X'.mem a).mp ha) hea he)
      · have hnf := X.nonfrontier_of_driven hwS hwh he hv
        have hle := children_length_mono c2 hwf hac hhc hwc (y := w)
        have hwh' : w ≠ h' := by
          intro h1
          subst h1
          exact anc_irrefl hac (Plus.trans_star hhanc ⟨k, hp'⟩)
        have hnf' : ¬ 1 < (childrenOf (domChildren c2 h') w).length := by omega
        exact (X'.mem v).mpr (Or.inr (fanins_of_nonfrontier c2 hwf hac h' (X'.chain_of_ne hwS' hwh') hnf' he))
  intro v hv
  obtain ⟨k, hp⟩ := (mem_cone c2 hwf h v).mp (X.mem_cone hv)
  exact key k v hp hv

/-- … and every internal node is internal there -/
theorem internal_of_head_internal (X : SGCtx c2 h h S) (X' : SGCtx c2 h' h' S') (hne : h ≠ h') (o1 o2 : Name)
    (hint : h ∈ internal (sgCircuit c2 o2 h' S')) {n : Name} (hn : n ∈ internal (sgCircuit c2 o1 h S)) :
    n ∈ internal (sgCircuit c2 o2 h' S') := by
  have hsub := mem_of_head_internal X X' hne o2 hint
  obtain ⟨hnS, hty⟩ := (mem_sg_internal c2 o1 h S n).mp hn
  refine (mem_sg_internal c2 o2 h' S' n).mpr ⟨hsub n hnS, ?_⟩
  intro hin
  obtain ⟨hnc, hnd⟩ := (sgTy_input_iff c2 X.clean S' n).mp hin
  apply hty
  refine (sgTy_input_iff c2 X.clean S n).mpr ⟨hnc, ?_⟩
  rw [← Bool.not_eq_true]
  intro hd
  obtain ⟨a, he, ha, _⟩ := (drivenIn_iff c2 S n).mp hd
  have := (drivenIn_iff c2 S' n).mpr ⟨a, he, hsub a ha, hsub n hnS⟩
  rw [hnd] at this
  cases this

end

end SGA
end CG
