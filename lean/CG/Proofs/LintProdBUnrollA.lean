/- C20 (second half, unroll): the wiring discipline `WS` and dot-freeness `NoDots` through the single phases of one
   iteration of `unroll` -/
import CG.Proofs.Unroll
import CG.Proofs.LintLinkNoDot
import CG.Proofs.ArithGen
import CG.Proofs.ApiSubc
import CG.Proofs.LimitUid
set_option linter.unusedSimpArgs false
set_option linter.unusedVariables false
namespace CG
namespace LintProdB
open Circuit Unroll LintLink

theorem pins_of_nobb {c : Circuit} (h : c.bbs = []) (gone : List Name) : PinsOK' c gone := by
  intro p hp
  rw [h] at hp
  cases hp

/-- turning an undriven node into an input keeps the wiring discipline -/
theorem WS_setTyRaw_input {c : Circuit} (h : WS c) (y : Name) (hf : c.fanin y = []) :
    WS (c.setTyRaw y "input") := by
  have hty : ∀ m, (c.setTyRaw y "input").ty? m = if m = y ∧ c.has y = true then some "input" else c.ty? m :=
    setTyRaw_ty? c y "input"
  have hne : ∀ m t, (c.setTyRaw y "input").ty? m = some t → t ≠ "input" → c.ty? m = some t := by
    intro m t ht hne
    rw [hty] at ht
    split at ht
    · injection ht with ht
      exact absurd ht.symm hne
    · exact ht
  have hin : ∀ u, (u, y) ∉ c.edges := by
    intro u hu
    have := (Circuit.mem_fanin (c := c)).2 hu
    rw [hf] at this
    cases this
  refine ⟨by rw [setTyRaw_nodeNames]; exact h.nodup, h.edgesNodup, ?_, ?_, ?_, ?_, ?_, ?_⟩
  · intro u v he
    rw [setTyRaw_has, setTyRaw_has]
    exact h.closed u v he
  · intro n hn
    rw [setTyRaw_has] at hn
    rw [hty]
    split
    · exact ⟨"input", rfl, by decide⟩
    · exact h.typed n hn
  · intro u v he t ht
    have hv : v ≠ y := fun e => hin u (e ▸ he)
    rw [hty, if_neg (fun hh => hv hh.1)] at ht
    exact h.noFanin u v he t ht
  · intro n t ht hs u u' hu hu'
    refine h.single n t (hne n t ht ?_) hs u u' hu hu'
    intro e
    subst e
    exact absurd hs (by decide)
  · intro u v he hb
    exact h.noBBInFanout u v he (hne u _ hb (by decide))
  · intro u v he hb
    obtain ⟨h1, h2⟩ := h.bbOut u v he (hne u _ hb (by decide))
    refine ⟨?_, h2⟩
    have hv : v ≠ y := fun e => hin u (e ▸ he)
    rw [hty, if_neg (fun hh => hv hh.1)]
    exact h1

/-! ### phase A -/

theorem unrollIO_K {c : Circuit} {stateIO : List (Name × Name)} {pfx : String} {k : Nat} {s s' : Tx.UState} {x : Name}
    (hx : hasDot x = false) (hpfx : hasDot pfx = false) (hW : WS s.1) (hN : NoDots s.1)
    (h : Tx.unrollIO c stateIO pfx k s x = .ok s') : WS s'.1 ∧ NoDots s'.1 := by
  unfold Tx.unrollIO at h
  obtain ⟨r, h1, h⟩ := Unroll.bind_ok h
  obtain ⟨uc, h2, h⟩ := Unroll.bind_ok h
  injection h with h
  subst h
  have hr : hasDot r = false := by
    obtain ⟨_, hr⟩ := Limit.uid_spec c _ r (uidE_ok h1)
    have hb : hasDot (x ++ "_" ++ pfx ++ "_" ++ toString k) = false := by
      simp only [hasDot_append, hasDot_toString, hx, hpfx]
      decide
    rcases hr with rfl | ⟨j, rfl⟩
    · exact hb
    · rw [hasDot_uidName]
      exact hb
  refine ⟨?_, hN.addC hr rfl rfl h2⟩
  show WS uc
  rw [addC_fst h2]
  exact (add_Inv ⟨hW, pins_of_nobb hN.bbs []⟩ _ ⟨rfl, rfl⟩).1

theorem ioPhase_K {c : Circuit} {stateIO : List (Name × Name)} {pfx : String} {k : Nat} (hpfx : hasDot pfx = false) :
    ∀ (io : List Name) (s s' : Tx.UState), (∀ x ∈ io, hasDot x = false) → WS s.1 → NoDots s.1 →
    io.foldlM (Tx.unrollIO c stateIO pfx k) s = .ok s' → WS s'.1 ∧ NoDots s'.1
  | [], s, s', _, hW, hN, h => by
    rw [foldlM_nil_ok _ _ _ h]
    exact ⟨hW, hN⟩
  | x :: io, s, s', hio, hW, hN, h => by
    obtain ⟨s1, h1, h2⟩ := foldlM_cons_ok _ _ _ _ _ h
    obtain ⟨a, b⟩ := unrollIO_K (hio x (by simp)) hpfx hW hN h1
    exact ioPhase_K hpfx io s1 s' (fun y hy => hio y (List.mem_cons_of_mem _ hy)) a b h2

/-! ### phase B -/

theorem subPhase_K {c P P' : Circuit} {name : Name} {conns : List (Name × List Name)} (hc : WS c) (hcN : NoDots c)
    (hname : hasDot name = false) (hW : WS P) (hN : NoDots P)
    (h : liftO (P.addSubcircuit c name conns) = .ok P') : WS P' ∧ NoDots P' := by
  refine ⟨?_, hN.addSub hcN hname h⟩
  have e := Unroll.liftO_ok h
  have := (addSubcircuit_spec ⟨hW, pins_of_nobb hN.bbs []⟩ ⟨hc, pins_of_nobb hcN.bbs []⟩ name conns).1.1
  rw [e] at this
  exact this

/-! ### phase C -/

theorem setTypePhase_K (f : Name × Name → Name) : ∀ (l : List (Name × Name)) (P uc : Circuit), WS P → NoDots P →
    (∀ p ∈ l, P.fanin (f p) = []) →
    l.foldlM (fun uc p => liftO (uc.setType [f p] "input")) P = .ok uc → WS uc ∧ NoDots uc
  | [], P, uc, hW, hN, _, h => by
    rw [foldlM_nil_ok _ _ _ h]
    exact ⟨hW, hN⟩
  | p :: l, P, uc, hW, hN, hf, h => by
    obtain ⟨c1, h1, h2⟩ := foldlM_cons_ok _ _ _ _ _ h
    obtain ⟨_, e⟩ := setType1_ok (Unroll.liftO_ok h1)
    subst e
    refine setTypePhase_K f l _ uc (WS_setTyRaw_input hW _ (hf p (by simp))) ?_ ?_ h2
    · exact hN.of_sub (setTyRaw_bbs P _ _) (fun g hg => by rw [setTyRaw_has] at hg; exact hg)
    · intro q hq
      exact hf q (List.mem_cons_of_mem _ hq)

theorem connectPhase_K (f g : Name × Name → Name) : ∀ (l : List (Name × Name)) (P uc : Circuit), WS P → NoDots P →
    l.foldlM (fun uc p => liftO (uc.connect [f p] [g p])) P = .ok uc → WS uc ∧ NoDots uc
  | [], P, uc, hW, hN, h => by
    rw [foldlM_nil_ok _ _ _ h]
    exact ⟨hW, hN⟩
  | p :: l, P, uc, hW, hN, h => by
    obtain ⟨c1, h1, h2⟩ := foldlM_cons_ok _ _ _ _ _ h
    have e := Unroll.liftO_ok h1
    have hW1 : WS c1 := by
      have := connect_WS hW [f p] [g p]
      rw [e] at this
      exact this
    exact connectPhase_K f g l c1 uc hW1 (hN.connect h1) h2

end LintProdB
end CG
