/- C14 helper: mirror of the vocabulary of CG/Props/C14.lean (the property file imports the helper files, not the other
   way round) and the specification circuit both parsers are compared with. -/
import CG.FastVerilog
import CG.Verilog
import CG.Spec
namespace CG
namespace FV
open Verilog FastVerilog

/-! ### mirror of C14's definitions -/

inductive ROp where
  | net (n : Name)
  | c0
  | c1
deriving Repr, Inhabited, DecidableEq

inductive RStmt where
  | gate (ty inst out : Name) (ops : List ROp)
  | assign (lhs : Name) (rhs : ROp)
  | bb (ty inst : Name) (pins : List (Name × Option ROp))
deriving Repr, Inhabited

structure RMod where
  name : Name
  inputs : List Name
  outputs : List Name
  stmts : List RStmt
deriving Repr, Inhabited

def ROp.expr : ROp → Expr
  | .net n => .id n
  | .c0 => .const "0"
  | .c1 => .const "1"

def ROp.text : ROp → String
  | .net n => n
  | .c0 => "1'b0"
  | .c1 => "1'b1"

def RStmt.item : RStmt → Item
  | .gate ty inst out ops => .inst ty [(inst, .positional (.id out :: ops.map ROp.expr))]
  | .assign l r => .assign [(l, r.expr)]
  | .bb ty inst pins => .inst ty [(inst, .named (pins.map (fun p => (p.1, p.2.map ROp.expr))))]

def RMod.toModule (r : RMod) : Module :=
  { name := r.name,
    ports := r.inputs ++ r.outputs.filter (fun o => !r.inputs.contains o),
    items := r.inputs.map (fun i => Item.input [i]) ++ r.outputs.map (fun o => Item.output [o]) ++ r.stmts.map RStmt.item }

def RStmt.finst : RStmt → Option FInst
  | .gate ty inst out ops => some (.inst ty inst (out :: ops.map ROp.text) [])
  | .bb ty inst pins => some (.inst ty inst [] (pins.filterMap (fun p => p.2.map (fun o => (p.1, o.text)))))
  | .assign .. => none

def RStmt.fassign : RStmt → Option (Name × String)
  | .assign l r => some (l, r.text)
  | _ => none

def RMod.toFParsed (r : RMod) : FParsed :=
  { name := r.name, inputs := dedup r.inputs, insts := r.stmts.filterMap RStmt.finst,
    assigns := r.stmts.filterMap RStmt.fassign, outputs := r.outputs }

def Plain (n : Name) : Prop :=
  n ≠ "" ∧ Circuit.isDigit0 n = false ∧ ¬ n.toList.contains '.' ∧ ¬ n.startsWith "\\" ∧
  n ∉ ["tie0", "tie1", "tie_0", "tie_1", "tie_x"]

def ROp.nets : ROp → List Name
  | .net n => [n]
  | _ => []

def RStmt.defs (bbs : List BBox) : RStmt → List Name
  | .gate _ _ out _ => [out]
  | .assign l _ => [l]
  | .bb ty _ pins =>
    match bbs.find? (fun b => b.name == ty) with
    | some d => pins.flatMap (fun p => if d.outs.contains p.1 then (p.2.map ROp.nets).getD [] else [])
    | none => []

def RStmt.uses (bbs : List BBox) : RStmt → List Name
  | .gate _ _ _ ops => ops.flatMap ROp.nets
  | .assign _ r => r.nets
  | .bb ty _ pins =>
    match bbs.find? (fun b => b.name == ty) with
    | some d => pins.flatMap (fun p => if d.ins.contains p.1 then (p.2.map ROp.nets).getD [] else [])
    | none => []

def RStmt.OK (bbs : List BBox) : RStmt → Prop
  | .gate ty inst out ops =>
    ty ∈ gateTypes ∧ Plain inst ∧ Plain out ∧ ops ≠ [] ∧ ((ty = "buf" ∨ ty = "not") → ops.length = 1) ∧
    (∀ n ∈ ops.flatMap ROp.nets, Plain n)
  | .assign l r => Plain l ∧ ∀ n ∈ r.nets, Plain n
  | .bb ty inst pins =>
    ty ∉ CG.Expected.primitive_gates ∧ Plain inst ∧
    ∃ d, bbs.find? (fun b => b.name == ty) = some d ∧
      (∀ g ∈ d.ins ++ d.outs, Plain g) ∧ (d.ins ++ d.outs).Nodup ∧
      (pins.map (·.1)).Nodup ∧ (∀ p ∈ pins, p.1 ∈ d.ins ++ d.outs) ∧
      (∀ p ∈ pins, ∀ o, p.2 = some o → (∀ n ∈ o.nets, Plain n) ∧ (p.1 ∈ d.outs → ∃ n, o = .net n))

def RStmt.instName : RStmt → List Name
  | .bb _ inst _ => [inst]
  | _ => []

structure Restricted (r : RMod) (bbs : List BBox) : Prop where
  stmts : ∀ s ∈ r.stmts, s.OK bbs
  inputsPlain : ∀ i ∈ r.inputs, Plain i
  defsNodup : (r.inputs ++ r.stmts.flatMap (RStmt.defs bbs)).Nodup
  outputsDriven : ∀ o ∈ r.outputs, o ∈ r.inputs ∨ o ∈ r.stmts.flatMap (RStmt.defs bbs)
  outputsNodup : r.outputs.Nodup
  instsNodup : (r.stmts.flatMap RStmt.instName).Nodup

def tieMap (n : Name) : Name := if n = "tie0" then "tie_0" else if n = "tie1" then "tie_1" else n

def renameTies (c : Circuit) : Circuit :=
  { c with nodes := c.nodes.map (fun p => (tieMap p.1, p.2)), edges := c.edges.map (fun e => (tieMap e.1, tieMap e.2)) }

def view (c : Circuit) (n : Name) : Option (Option String × Bool) := (c.attr? n).map (fun a => (a.ty, a.out.getD false))

def SameCircuit (a b : Circuit) : Prop :=
  a.name = b.name ∧ (∀ n, view a n = view b n) ∧ (∀ e, e ∈ a.edges ↔ e ∈ b.edges) ∧ (∀ q, q ∈ a.bbs ↔ q ∈ b.bbs)

/-! ### the specification circuit

Both parsers are shown to build the circuit described here; `t0`/`t1` are the names of the two constant nodes. -/

/-- the node an operand denotes -/
def ROp.nm (t0 t1 : Name) : ROp → Name
  | .net n => n
  | .c0 => t0
  | .c1 => t1

/-- the fan-in set of a gate: in a parity gate operands given an even number of times cancel -/
def parityOps (ty : String) (ops : List ROp) : List ROp :=
  if (ty == "xor" || ty == "xnor") && (dedup ops).length < ops.length then
    let r := (dedup ops).filter (fun p => ops.count p % 2 == 1)
    if r.isEmpty then [ROp.c0] else r
  else ops

/-- edges a statement contributes: source operand, target node -/
def RStmt.edge (bbs : List BBox) : RStmt → ROp → Name → Prop
  | .gate ty _ out ops, a, b => a ∈ parityOps ty ops ∧ b = out
  | .assign l r, a, b => a = r ∧ b = l
  | .bb ty inst pins, a, b =>
    ∃ d, bbs.find? (fun b => b.name == ty) = some d ∧ ∃ p o, (p, some o) ∈ pins ∧
      ((p ∈ d.ins ∧ a = o ∧ b = inst ++ "." ++ p) ∨ (p ∈ d.outs ∧ a = .net (inst ++ "." ++ p) ∧ o = .net b))

/-- nodes a statement defines, with their types -/
def RStmt.dty (bbs : List BBox) : RStmt → Name → String → Prop
  | .gate ty _ out _, n, t => n = out ∧ t = ty
  | .assign l _, n, t => n = l ∧ t = "buf"
  | .bb ty inst pins, n, t =>
    ∃ d, bbs.find? (fun b => b.name == ty) = some d ∧
      ((∃ p, (p, some (ROp.net n)) ∈ pins ∧ p ∈ d.outs ∧ t = "buf") ∨
       (∃ g ∈ d.ins, n = inst ++ "." ++ g ∧ t = "bb_input") ∨
       (∃ g ∈ d.outs, n = inst ++ "." ++ g ∧ t = "bb_output"))

/-- registry entries a statement contributes -/
def RStmt.reg (bbs : List BBox) : RStmt → Name × BBox → Prop
  | .bb ty inst _, q => ∃ d, bbs.find? (fun b => b.name == ty) = some d ∧ q = (inst, d)
  | _, _ => False

def DefTy (bbs : List BBox) (ins : List Name) (ss : List RStmt) (n : Name) (t : String) : Prop :=
  (n ∈ ins ∧ t = "input") ∨ ∃ s ∈ ss, s.dty bbs n t

def EdgeOf (bbs : List BBox) (ss : List RStmt) (t0 t1 : Name) (e : Name × Name) : Prop :=
  ∃ s ∈ ss, ∃ a b, s.edge bbs a b ∧ e = (a.nm t0 t1, b)

def RegOf (bbs : List BBox) (ss : List RStmt) (q : Name × BBox) : Prop := ∃ s ∈ ss, s.reg bbs q

/-- an operand (a constant, a net) is the source of an edge of some statement (after parity cancellation) -/
def ConstUsed (bbs : List BBox) (ss : List RStmt) (k : ROp) : Prop := ∃ s ∈ ss, ∃ b, s.edge bbs k b

/-- a floating net: the source of an edge (a net some statement reads, after parity cancellation) that is neither an
    input nor defined by any statement; both readers create it as an undriven `buf` -/
def Floating (bbs : List BBox) (ins : List Name) (ss : List RStmt) (n : Name) : Prop :=
  ConstUsed bbs ss (.net n) ∧ ∀ t, ¬ DefTy bbs ins ss n t

def NodeSpec (r : RMod) (bbs : List BBox) (t0 t1 : Name) (n : Name) (a : Option String × Bool) : Prop :=
  (∃ t, DefTy bbs r.inputs r.stmts n t ∧ a = (some t, decide (n ∈ r.outputs))) ∨
  (n = t0 ∧ a = (some "0", false) ∧ ConstUsed bbs r.stmts .c0) ∨
  (n = t1 ∧ a = (some "1", false) ∧ ConstUsed bbs r.stmts .c1) ∨
  (Floating bbs r.inputs r.stmts n ∧ a = (some "buf", false))

/-- `c` is the circuit of netlist `r` with constant nodes named `t0`, `t1` -/
structure Spec (r : RMod) (bbs : List BBox) (t0 t1 : Name) (c : Circuit) : Prop where
  name : c.name = r.name
  wf : WF c
  node : ∀ n a, view c n = some a ↔ NodeSpec r bbs t0 t1 n a
  edges : ∀ e, e ∈ c.edges ↔ EdgeOf bbs r.stmts t0 t1 e
  bbs : ∀ q, q ∈ c.bbs ↔ RegOf bbs r.stmts q

end FV
end CG
