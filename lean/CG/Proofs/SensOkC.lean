/- helper lemmas for C11 (total correctness of `sensitivity_transform`): the hypotheses, the original copy,
   the shared inputs and the population counter -/
import CG.Proofs.SensOkB
set_option linter.unusedSimpArgs false
set_option linter.unusedVariables false
namespace CG
namespace SensOk
open Circuit Miter Sens
open Tx (addC)

/-- what the construction needs to know about the cone, the population counter and the startpoints -/
structure OkH (cone pcC : Circuit) (sp : List Name) (n : Name) (k : Nat) : Prop where
  lcone : LintClean cone
  cbb : cone.bbs = []
  lpc : LintClean pcC
  pbb : pcC.bbs = []
  spnd : sp.Nodup
  spin : ∀ s ∈ sp, s ∈ cone.inputs
  hn : cone.has n = true
  nobb : ∀ x t, cone.ty? x = some t → t ≠ "bb_input" ∧ t ≠ "bb_output"
  pcT : ∀ x t, pcC.ty? x = some t → t ≠ "bb_input" ∧ t ≠ "bb_output"
  names : ∀ s ∈ sp, Limit.NameOK s
  pcin : ∀ i, i < sp.length → "in_" ++ toString i ∈ pcC.inputs
  pcout : ∀ o, o < k → pcC.has ("out_" ++ toString o) = true
  clOrig : ∀ s ∈ sp, ∀ x, cone.has x = true → s ≠ pref "orig" x
  clInv : ∀ s ∈ sp, ∀ s' ∈ sp, ∀ x, cone.has x = true → s ≠ pref ("inv_" ++ s') x
  clDif : ∀ s ∈ sp, ∀ s' ∈ sp, s ≠ "dif_out_" ++ s'
  clPc : ∀ s ∈ sp, ∀ x, s ≠ pref "pc" x
  clOut : ∀ s ∈ sp, ∀ o : Nat, s ≠ "sen_out_" ++ toString o
  sep : ∀ s ∈ sp, ∀ s' ∈ sp, ∀ x x', cone.has x = true → cone.has x' = true →
    pref ("inv_" ++ s) x = pref ("inv_" ++ s') x' → s = s'

section
variable {cone pcC : Circuit} {sp : List Name} {n : Name} {k : Nat}

/-! ### phase 0: the original copy -/

theorem orig_ok (H : OkH cone pcC sp n k) :
    ∃ s0, ({} : Circuit).addSubcircuit cone "orig" [] = (s0, .ok) :=
  addSub_ok_nil {} cone "orig" H.cbb (fun _ _ => rfl) (typed_isNone H.lcone)

/-- the circuit after the original copy -/
structure S0 (cone : Circuit) (s0 : Circuit) : Prop where
  wf : WF s0
  nodes : s0.nodes = nodesOf cone "orig"
  edges : s0.edges = edgesOf cone "orig"

theorem s0_of (H : OkH cone pcC sp n k) {s0 : Circuit}
    (h0 : ({} : Circuit).addSubcircuit cone "orig" [] = (s0, .ok)) : S0 cone s0 := by
  obtain ⟨n0, e0, _, w0⟩ := sub_exact wf_empty H.lcone.toWF h0
  exact ⟨w0, by rw [n0]; rfl, by rw [e0]; rfl⟩

theorem S0.names {s0 : Circuit} (Z : S0 cone s0) : s0.nodeNames = cone.nodeNames.map (pref "orig") := by
  unfold Circuit.nodeNames
  rw [Z.nodes]
  exact names_nodesOf cone "orig"

theorem S0.ty {s0 : Circuit} (Z : S0 cone s0) {p : Name × Attr} (hp : p ∈ cone.nodes) :
    s0.ty? (pref "orig" p.1) = (stripA p.2).ty := by
  have hm : (pref "orig" p.1, stripA p.2) ∈ s0.nodes := by
    rw [Z.nodes]; exact List.mem_map.2 ⟨p, hp, rfl⟩
  rw [ty?, attr?_of_mem Z.wf.nodup hm]
  rfl

theorem S0.has {s0 : Circuit} (Z : S0 cone s0) {y : Name} (hy : cone.has y = true) :
    s0.has (pref "orig" y) = true := by
  rw [has_iff_mem, Z.names]
  exact List.mem_map.2 ⟨y, (has_iff_mem _ _).1 hy, rfl⟩

/-! ### phase 1: the shared inputs -/

theorem tie_step (H : OkH cone pcC sp n k) {s0 : Circuit} (Z : S0 cone s0) {l1 l2 : List Name} {s : Name}
    (hL : sp = l1 ++ s :: l2) {A : Circuit} (h1 : l1.foldlM (fun acc s => addC acc (tieA s)) s0 = .ok A) :
    ∃ A', addC A (tieA s) = .ok A' := by
  obtain ⟨nA, eA, _, wA⟩ := foldAdd_ok tieA plain_tieA l1 s0 A Z.wf h1
  have hs : s ∈ sp := mem_mid hL
  have hsl : s ∉ l1 := not_mem_prefix H.spnd hL
  have hin := H.spin s hs
  obtain ⟨a, ha⟩ := has_exists (mem_inputs_has hin)
  have hta : a.ty = some "input" := (mem_inputs_of_mem H.lcone.nodup ha).1 hin
  have nmA : A.nodeNames = cone.nodeNames.map (pref "orig") ++ l1 := by
    rw [names_append nA, Z.names, List.map_map]
    congr 1
    exact List.map_id' _
  have hfresh : A.has s = false := by
    rw [has_false_iff, nmA, List.mem_append]
    rintro (hm | hm)
    · obtain ⟨y, hy, e⟩ := List.mem_map.1 hm
      exact H.clOrig s hs y ((has_iff_mem _ _).2 hy) e.symm
    · exact hsl hm
  have hhasO : A.has (pref "orig" s) = true := by
    rw [has_iff_mem, nmA]
    exact List.mem_append.2 (Or.inl (List.mem_map.2 ⟨s, (has_iff_mem _ _).1 (mem_inputs_has hin), rfl⟩))
  have hn : (A.addNodeAttr s (newAttr (tieA s))).nodes = A.nodes ++ [(s, newAttr (tieA s))] := by
    rw [Limit.addNodeAttr_fresh A s _ hfresh]
  have hed : (A.addNodeAttr s (newAttr (tieA s))).edges = A.edges := addNodeAttr_edges _ _ _
  have htyO : A.ty? (pref "orig" s) = some "buf" := by
    rw [Arith.ty?_append_left nA (Z.has (mem_inputs_has hin)), Z.ty ha]
    exact Miter.stripA_input hta
  have hfan : A.fanin (pref "orig" s) = [] := by
    apply fanin_nil_of_edges
    intro e he e2
    rw [eA, List.mem_append] at he
    rcases he with he | he
    · rw [Z.edges, mem_edgesOf] at he
      obtain ⟨e0, h0, rfl⟩ := he
      have : e0.2 = s := pref_inj _ e2
      have hm : e0.1 ∈ cone.fanin s := Circuit.mem_fanin.2 (by rw [← this]; exact h0)
      rw [noFanin_inputs H.lcone s hin] at hm
      cases hm
    · simp only [List.mem_flatMap, newEdges_tieA, List.mem_singleton] at he
      obtain ⟨s', hs', rfl⟩ := he
      have : s' = s := pref_inj _ e2
      exact hsl (this ▸ hs')
  have hk1 : (tieA s).fanout ≠ [] →
      (A.addNodeAttr s (newAttr (tieA s))).connectCheck [(tieA s).n] (tieA s).fanout = none := by
    intro _
    have hfo : (tieA s).fanout = [pref "orig" s] := by rw [pref_orig]; rfl
    rw [hfo]
    exact check1_none (A := A.addNodeAttr s (newAttr (tieA s))) (u := s) (v := pref "orig" s)
      (t := "buf") (tu := "input")
      ((Limit.ext_has hn _).2 (Or.inr rfl)) ((Limit.ext_has hn _).2 (Or.inl hhasO))
      (by rw [Limit.ext_ty_old hn hhasO, htyO]) (Or.inl rfl)
      (by rw [fanin_congr hed, hfan]) (Limit.ext_ty_new hn hfresh) (by decide) (by decide)
  exact addC_ok_of A (tieA s) (plain_tieA s) hfresh
    (show T.supported.contains "input" = true by rw [Limit.T_supported]; decide)
    (fun h => absurd h.1 (by simp [tieA])) (fun h => h.1 rfl)
    (H.names s hs) hk1 (fun h => absurd rfl h)

theorem ties_ok (H : OkH cone pcC sp n k) {s0 : Circuit} (Z : S0 cone s0) :
    ∃ s1, sp.foldlM (fun acc s => addC acc (tieA s)) s0 = .ok s1 :=
  foldlM_ok_prefix _ sp s0 (fun l1 s l2 A hL h1 => tie_step H Z hL h1)

/-! ### phase 2: the population counter -/

/-- the circuit after the original copy, the shared inputs and the population counter -/
structure S2 (cone pcC : Circuit) (sp : List Name) (s2 : Circuit) : Prop where
  wf : WF s2
  names : s2.nodeNames = cone.nodeNames.map (pref "orig") ++ sp ++ pcC.nodeNames.map (pref "pc")
  edges : ∀ e, e ∈ s2.edges ↔ (∃ e0 ∈ cone.edges, e = (pref "orig" e0.1, pref "orig" e0.2)) ∨
    (∃ s ∈ sp, e = (s, pref "orig" s)) ∨ (∃ e0 ∈ pcC.edges, e = (pref "pc" e0.1, pref "pc" e0.2))
  tyOrig : ∀ p ∈ cone.nodes, s2.ty? (pref "orig" p.1) = (stripA p.2).ty
  tyInp : ∀ s ∈ sp, s2.ty? s = some "input"
  tyPc : ∀ p ∈ pcC.nodes, s2.ty? (pref "pc" p.1) = (stripA p.2).ty

theorem pc_ok (H : OkH cone pcC sp n k) {s0 s1 : Circuit} (Z : S0 cone s0)
    (h1 : sp.foldlM (fun acc s => addC acc (tieA s)) s0 = .ok s1) :
    ∃ s2, s1.addSubcircuit pcC "pc" [] = (s2, .ok) ∧ S2 cone pcC sp s2 := by
  obtain ⟨n1, e1, _, w1⟩ := foldAdd_ok tieA plain_tieA sp s0 s1 Z.wf h1
  have nm1 : s1.nodeNames = cone.nodeNames.map (pref "orig") ++ sp := by
    rw [names_append n1, Z.names, List.map_map]
    congr 1
    exact List.map_id' _
  have hcl : ∀ y ∈ pcC.nodeNames, s1.has (pref "pc" y) = false := by
    intro y _
    rw [has_false_iff, nm1, List.mem_append]
    rintro (hm | hm)
    · obtain ⟨x, _, e⟩ := List.mem_map.1 hm
      exact orig_ne_pc x y e
    · exact H.clPc _ hm y rfl
  obtain ⟨s2, h2⟩ := addSub_ok_nil s1 pcC "pc" H.pbb hcl (typed_isNone H.lpc)
  obtain ⟨n2, e2, _, w2⟩ := sub_exact w1 H.lpc.toWF h2
  have nm2 : s2.nodeNames = s1.nodeNames ++ pcC.nodeNames.map (pref "pc") := by
    rw [names_append n2, names_nodesOf]
  have m01 : ∀ x, s0.has x = true → s1.has x = true := fun x hx => has_mono_of_names (nm1.trans (by rw [Z.names])) hx
  refine ⟨s2, h2, w2, by rw [nm2, nm1], ?_, ?_, ?_, ?_⟩
  · intro e
    rw [e2, List.mem_append, e1, List.mem_append, Z.edges, mem_edgesOf, mem_edgesOf]
    have hties : e ∈ sp.flatMap (fun s => newEdges (tieA s)) ↔ ∃ s ∈ sp, e = (s, pref "orig" s) := by
      simp only [List.mem_flatMap, newEdges_tieA, List.mem_singleton]
    rw [hties]
    constructor
    · rintro ((h | h) | h)
      · exact Or.inl h
      · exact Or.inr (Or.inl h)
      · exact Or.inr (Or.inr h)
    · rintro (h | h | h)
      · exact Or.inl (Or.inl h)
      · exact Or.inl (Or.inr h)
      · exact Or.inr h
  · intro p hp
    have h0' : s0.has (pref "orig" p.1) = true := Z.has (Miter.has_of_mem hp)
    rw [Arith.ty?_append_left n2 (m01 _ h0'), Arith.ty?_append_left n1 h0', Z.ty hp]
  · intro s hs
    have hm : (s, newAttr (tieA s)) ∈ s1.nodes := by
      rw [n1]; exact List.mem_append.2 (Or.inr (List.mem_map.2 ⟨s, hs, rfl⟩))
    rw [Arith.ty?_append_left n2 (Miter.has_of_mem hm), ty?, attr?_of_mem w1.nodup hm]
    rfl
  · intro p hp
    have hm : (pref "pc" p.1, stripA p.2) ∈ s2.nodes := by
      rw [n2]; exact List.mem_append.2 (Or.inr (List.mem_map.2 ⟨p, hp, rfl⟩))
    rw [ty?, attr?_of_mem w2.nodup hm]
    rfl

/-! ### membership in the base circuit -/

theorem S2.has_iff {s2 : Circuit} (B : S2 cone pcC sp s2) (x : Name) :
    s2.has x = true ↔ (∃ y, cone.has y = true ∧ x = pref "orig" y) ∨ x ∈ sp ∨
      ∃ y, pcC.has y = true ∧ x = pref "pc" y := by
  rw [has_iff_mem, B.names]
  simp only [List.mem_append, List.mem_map]
  constructor
  · rintro ((⟨y, hy, rfl⟩ | h) | ⟨y, hy, rfl⟩)
    · exact Or.inl ⟨y, (has_iff_mem _ _).2 hy, rfl⟩
    · exact Or.inr (Or.inl h)
    · exact Or.inr (Or.inr ⟨y, (has_iff_mem _ _).2 hy, rfl⟩)
  · rintro (⟨y, hy, rfl⟩ | h | ⟨y, hy, rfl⟩)
    · exact Or.inl (Or.inl ⟨y, (has_iff_mem _ _).1 hy, rfl⟩)
    · exact Or.inl (Or.inr h)
    · exact Or.inr ⟨y, (has_iff_mem _ _).1 hy, rfl⟩

end

end SensOk
end CG
