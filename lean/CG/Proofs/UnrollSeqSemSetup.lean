/- C09 (sequential_unroll, semantics): what a successful call establishes — the loop invariant of `unroll` on the pruned
   circuit, the names of the data pins, and the types after the attribute folds -/
import CG.Proofs.UnrollSeqSemVal
import CG.Proofs.UnrollSeqSemAttr
set_option linter.unusedSimpArgs false
set_option linter.unusedVariables false
namespace CG
namespace USS
open Circuit Unroll Strip

/-- facts about one data pin `g` (d or q) of every instance -/
def PinFacts (c : Circuit) (ig : List Name) (c3 : Circuit) (ord : Ord) (g : Name) : Prop :=
  ∀ u ∈ c.bbs, c.has (u.1 ++ "." ++ g) = true ∧ dropped c ig (u.1 ++ "." ++ g) = false ∧
    sname c ig (u.1 ++ "." ++ g) = u.1 ++ "_" ++ g ∧ (u.1 ++ "_" ++ g) ∈ ord c3.io

structure Setup (c : Circuit) (bb : BBox) (d q : Name) (ig : List Name) (ru : Bool) (pfx : String) (ord : Ord) (n : Nat)
    (cs0 : Circuit) (r : Tx.UState) : Prop where
  S : StripView c ig cs0
  C : Ctx (prune cs0 bb (insts c) d q ig ru) (sio c d q) (ord (prune cs0 bb (insts c) d q ig ru).io)
  I : Inv (prune cs0 bb (insts c) d q ig ru) (sio c d q) pfx (ord (prune cs0 bb (insts c) d q ig ru).io) n r
  npos : 0 < n
  dName : PinFacts c ig (prune cs0 bb (insts c) d q ig ru) ord d
  qName : PinFacts c ig (prune cs0 bb (insts c) d q ig ru) ord q

theorem mem_sio {c : Circuit} {d q : Name} {u : Name × BBox} (hu : u ∈ c.bbs) :
    (u.1 ++ "_" ++ d, u.1 ++ "_" ++ q) ∈ sio c d q := by
  unfold sio insts
  exact List.mem_map.2 ⟨u.1, List.mem_map.2 ⟨u, hu, rfl⟩, rfl⟩

theorem mem_sio_inv {c : Circuit} {d q : Name} {p : Name × Name} (hp : p ∈ sio c d q) :
    ∃ u ∈ c.bbs, p = (u.1 ++ "_" ++ d, u.1 ++ "_" ++ q) := by
  unfold sio insts at hp
  obtain ⟨b, hb, e⟩ := List.mem_map.1 hp
  obtain ⟨u, hu, rfl⟩ := List.mem_map.1 hb
  exact ⟨u, hu, e.symm⟩

theorem has_of_mem_io {c : Circuit} {x : Name} (h : x ∈ c.io) : c.has x = true := by
  rcases mem_union.1 h with h | h
  · exact mem_inputs_has h
  · exact mem_outputs_has h

theorem setup {c : Circuit} {bb : BBox} {d q : Name} {ig : List Name} {ru : Bool} {pfx : String} {ord : Ord} {n : Nat}
    {cs0 : Circuit} {r : Tx.UState} (hord : OrdOK ord) (G : SeqGood' c bb d q) (K : NoClash c bb ig) (hig : d ∉ ig ∧ q ∉ ig)
    (hs : Tx.stripBlackboxes c ig ord = .ok cs0)
    (hr : Tx.unroll (prune cs0 bb (insts c) d q ig ru) n (sio c d q) pfx ord = .ok r) :
    Setup c bb d q ig ru pfx ord n cs0 r := by
  have S := (strip_ok hord G.clean.toWF hs).2
  obtain ⟨hn, hmem, hloop⟩ := unroll_unfold hr
  have wf0 := strip_wf G.clean.toWF S
  have wf3 : WF (prune cs0 bb (insts c) d q ig ru) := by
    rw [prune_eq]
    exact remove_wf (remove_wf wf0 _) _
  -- a data pin of an instance, given that its exposed name is io of the pruned circuit
  have pin : ∀ g, g ∈ bb.ins ++ bb.outs → g ∉ ig →
      (∀ u ∈ c.bbs, (u.1 ++ "_" ++ g) ∈ ord (prune cs0 bb (insts c) d q ig ru).io) →
      PinFacts c ig (prune cs0 bb (insts c) d q ig ru) ord g := by
    intro g hg hgi hio u hu
    have h3 : (prune cs0 bb (insts c) d q ig ru).has (u.1 ++ "_" ++ g) = true :=
      has_of_mem_io ((hord _).mem_iff.1 (hio u hu))
    rw [prune_eq, remove2_has] at h3
    obtain ⟨hk, hsn⟩ := key_name G K S hu hg hgi h3.1
    exact ⟨has_of_isPin (kept_isPin hk), kept_not_dropped hk, hsn, hio u hu⟩
  have dN := pin d (List.mem_append.2 (Or.inl G.dIn)) hig.1 (fun u hu => (hmem _ (mem_sio hu)).1)
  have qN := pin q (List.mem_append.2 (Or.inr G.qOut)) hig.2 (fun u hu => (hmem _ (mem_sio hu)).2)
  have valsIn : ∀ p ∈ sio c d q, p.2 ∈ (prune cs0 bb (insts c) d q ig ru).inputs := by
    intro p hp
    obtain ⟨u, hu, rfl⟩ := mem_sio_inv hp
    obtain ⟨hhas, hd, hsn, hio⟩ := qN u hu
    have h3 : (prune cs0 bb (insts c) d q ig ru).has (u.1 ++ "_" ++ q) = true :=
      has_of_mem_io ((hord _).mem_iff.1 hio)
    rw [prune_eq, remove2_has] at h3
    have hty := (G.pinsPresent u hu).2 q G.qOut
    have hk : kept c ig (u.1 ++ "." ++ q) = true :=
      kept_of_pin_not_dropped ((isPin_iff c _).2 (Or.inr hty)) hd
    rw [sname_of_kept hk] at hsn
    obtain ⟨a, ha, hta⟩ := mem_of_ty? hty
    have hattr := S.attrOut _ a (attr?_of_mem G.clean.nodup ha) hta hk
    rw [hsn] at hattr
    rw [mem_inputs_iff]
    refine ⟨{ a with ty := some "input" }, attr?_mem ?_, rfl⟩
    rw [prune_eq, remove2_attr? h3.2.1 h3.2.2]
    exact hattr
  have valsNodup : ((sio c d q).map (·.2)).Nodup := by
    have : (sio c d q).map (·.2) = (insts c).map (fun b => b ++ "_" ++ q) := by
      unfold sio
      rw [List.map_map]
      rfl
    rw [this]
    exact nodup_map_of_inj G.instNodup (fun x _ y _ e => under_inj e)
  have C := ctx_of hord wf3 valsIn (fun p hp => (hmem p hp).1) valsNodup
  exact ⟨S, C, loop C n r hloop, hn, dN, qN⟩

section
variable {c : Circuit} {bb : BBox} {d q : Name} {ig : List Name} {ru : Bool} {pfx : String} {ord : Ord} {n : Nat}
  {cs0 : Circuit} {r : Tx.UState}

/-- the io map names the per-step io nodes -/
theorem Setup.ioName (T : Setup c bb d q ig ru pfx ord n cs0 r) {x : Name}
    (hx : x ∈ ord (prune cs0 bb (insts c) d q ig ru).io) {t : Nat} (ht : t < n) :
    Tx.ioName r.2 x t = N (prune cs0 bb (insts c) d q ig ru) pfx x t := by
  rw [T.I.map, ioName_mapAt _ _ _ _ hx ht]

/-- the step-0 state inputs are free inputs of the unrolled circuit -/
theorem Setup.q0_input (T : Setup c bb d q ig ru pfx ord n cs0 r) {u : Name × BBox} (hu : u ∈ c.bbs) :
    r.1.ty? (N (prune cs0 bb (insts c) d q ig ru) pfx (u.1 ++ "_" ++ q) 0) = some "input" := by
  have hm := T.I.memN (t := 0) T.npos (T.qName u hu).2.2.2
  unfold Circuit.ty?
  rw [attr?_of_mem T.I.wf.nodup hm]
  show some (ioTy _ _ _ 0) = some "input"
  rw [(ioTy_input_iff _ _ _ 0).2 (Or.inl ⟨rfl, (isVal_iff _ _).2 ⟨_, mem_sio hu, rfl⟩⟩)]

end

/-- the two attribute folds: same graph, and every node keeps its type or is a step-0 state input retyped to the
    initial value -/
theorem final_ty {insts : List Name} {m : List (Name × List Name)} {d q : Name} {afo : Bool} {initStr : Option String}
    {P uc1 uc : Circuit}
    (h1 : insts.foldlM (outStep m d afo) P = .ok uc1)
    (h2 : (match initStr with
       | some v => insts.foldlM (tyStep m q v) uc1
       | none => .ok uc1) = .ok uc) :
    uc.edges = P.edges ∧ uc.nodeNames = P.nodeNames ∧
    (∀ x, uc.ty? x = P.ty? x ∨
      (∃ s, initStr = some s ∧ uc.ty? x = some s ∧ ∃ b ∈ insts, x = Tx.ioName m (b ++ "_" ++ q) 0)) ∧
    (∀ s, initStr = some s → ∀ b ∈ insts, uc.ty? (Tx.ioName m (b ++ "_" ++ q) 0) = some s) := by
  obtain ⟨a1, a2, a3, _, _⟩ := outPhase m d afo _ _ _ h1
  cases initStr with
  | none =>
    injection h2 with h2
    subst h2
    exact ⟨a1, a2, fun x => Or.inl (a3 x), fun s hs => by cases hs⟩
  | some s =>
    obtain ⟨b1, b2, b3⟩ := tyPhase' m q s _ _ _ h2
    obtain ⟨_, _, _, b4, _⟩ := tyPhase m q s _ _ _ h2
    refine ⟨by rw [b1, a1], by rw [b2, a2], ?_, fun s' hs' => by injection hs' with hs'; subst hs'; exact b4⟩
    intro x
    rcases b3 x with h | ⟨h, b, hb, e⟩
    · exact Or.inl (by rw [h, a3])
    · exact Or.inr ⟨s, rfl, h, b, hb, e⟩

end USS
end CG
