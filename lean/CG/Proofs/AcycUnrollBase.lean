/- C18 helpers: inversion of the monadic plumbing and of a successful `add` -/
import CG.Tx3
import CG.Spec
import CG.Props.C01
import CG.Props.C06
import CG.Proofs.ApiCore
set_option linter.unusedSimpArgs false
set_option linter.unusedVariables false
namespace CG
namespace AU
open Circuit
open Tx (addC)

theorem bind_ok {α β : Type} {x : E α} {f : α → E β} {b : β} (h : (x >>= f) = .ok b) :
    ∃ a, x = .ok a ∧ f a = .ok b := by
  cases x with
  | error e => cases h
  | ok a => exact ⟨a, rfl, h⟩

theorem liftO_ok {r : Circuit × Outcome} {c' : Circuit} (h : liftO r = .ok c') : r = (c', .ok) := by
  obtain ⟨c1, o⟩ := r
  unfold liftO at h
  cases o <;> simp only [] at h <;> first | cases h | skip
  rfl

/-- a successful plain `add` (no uid, no auto-created neighbours, no redefinition) -/
theorem addC_ok {c c' : Circuit} {a : AddArgs} (hu : a.uid = false) (hac : a.addConnected = false)
    (hr : a.allowRedef = false) (h : addC c a = .ok c') :
    c.has a.n = false ∧
    ∃ c3, (c.addNodeAttr a.n { ty := some a.ty, out := some a.output }).connect [a.n] a.fanout = (c3, .ok) ∧
      c3.connect a.fanin [a.n] = (c', .ok) := by
  unfold addC addE at h
  rcases add_cases c a with ⟨o, m, e, ho⟩ | ⟨n, hn, hfresh, _, _, _, _, e⟩
  · rw [e] at h
    rcases ho with ho | ⟨ho, _⟩ | ⟨ho, _⟩ <;> (subst ho; simp only [Except.map] at h; cases h)
  · rw [hu] at hn
    simp only [Bool.false_eq_true, if_false] at hn
    injection hn with hn
    subst hn
    refine ⟨hfresh hr, ?_⟩
    rw [e] at h
    unfold addTail at h
    rw [hac] at h
    simp only [Bool.false_eq_true, if_false, bne_self_eq_false] at h
    generalize hc3 : (c.addNodeAttr a.n { ty := some a.ty, out := some a.output }).connect [a.n] a.fanout = r3 at h
    obtain ⟨c3, o3⟩ := r3
    simp only [] at h
    by_cases ho3 : o3 = .ok
    · subst ho3
      simp only [bne_self_eq_false, Bool.false_eq_true, if_false] at h
      refine ⟨c3, rfl, ?_⟩
      generalize hc4 : c3.connect a.fanin [a.n] = r4 at h
      obtain ⟨c4, o4⟩ := r4
      simp only [] at h
      cases o4 <;> simp only [Except.map] at h <;> first | cases h | skip
      rfl
    · have : (o3 != Outcome.ok) = true := by simpa using ho3
      rw [if_pos this] at h
      cases o3 <;> simp only [Except.map] at h <;> first | exact absurd rfl ho3 | cases h

end AU
end CG
