/- C09 (unroll succeeds): the remaining side conditions are necessary too — when the call succeeds, no io node starts with
   a digit and every output may be a source of `connect` (`PinOK`) -/
import CG.Proofs.UnrollOkMain
set_option linter.unusedSimpArgs false
set_option linter.unusedVariables false
namespace CG
namespace UnrollOk
open Circuit Unroll

/-! ### the digit condition -/

theorem isDigit0_append_left {x s : Name} (h : isDigit0 (x ++ s) = false) : isDigit0 x = false := by
  unfold isDigit0 at h ⊢
  rw [String.toList_append] at h
  cases hx : x.toList with
  | nil => rfl
  | cons ch l => rw [hx] at h; exact h

/-- a successful plain `add` was given a name that does not start with a digit -/
theorem addC_digit {uc uc' : Circuit} {r t : String} {o : Bool}
    (h : Tx.addC uc { n := r, ty := t, output := o } = .ok uc') : isDigit0 r = false := by
  cases hd : isDigit0 r with
  | false => rfl
  | true =>
    exfalso
    unfold Tx.addC addE Circuit.add at h
    simp only [hd, Bool.false_eq_true, if_false, if_true] at h
    repeat (split at h <;> try (simp [Except.map] at h; done))
    all_goals (rename_i heq; revert heq; repeat (split <;> try (intro heq; cases heq; done)))
    all_goals simp

theorem N_prefix (c : Circuit) (pfx : String) (x : Name) (k : Nat) : ∃ s, N c pfx x k = x ++ s := by
  rcases (Limit.uid_spec c _ _ (uid_N c pfx x k)).2 with h | ⟨j, h⟩
  · exact ⟨"_" ++ pfx ++ "_" ++ toString k, by rw [h]; simp only [String.append_assoc]⟩
  · refine ⟨"_" ++ pfx ++ "_" ++ toString k ++ "_" ++ toString j, ?_⟩
    rw [h]
    unfold uidName
    simp only [String.append_assoc]

theorem unrollIO_digit {c : Circuit} {stateIO : List (Name × Name)} {pfx : String} {k : Nat} {s s' : Tx.UState}
    {x : Name} (h : Tx.unrollIO c stateIO pfx k s x = .ok s') : isDigit0 x = false := by
  unfold Tx.unrollIO at h
  obtain ⟨r, h1, h⟩ := bind_ok h
  have hr : r = N c pfx x k := by
    unfold N; rw [uidE_ok h1]; rfl
  subst hr
  obtain ⟨uc, h2, _⟩ := bind_ok h
  obtain ⟨s0, hs0⟩ := N_prefix c pfx x k
  have := addC_digit h2
  rw [hs0] at this
  exact isDigit0_append_left this

theorem ioPhase_digit {c : Circuit} {stateIO : List (Name × Name)} {pfx : String} {k : Nat} :
    ∀ (io : List Name) (s s' : Tx.UState), io.foldlM (Tx.unrollIO c stateIO pfx k) s = .ok s' →
    ∀ x ∈ io, isDigit0 x = false
  | [], _, _, _, x, hx => by cases hx
  | y :: io, s, s', h, x, hx => by
    obtain ⟨s1, h1, h2⟩ := foldlM_cons_ok _ _ _ _ _ h
    rcases List.mem_cons.1 hx with rfl | hx'
    · exact unrollIO_digit h1
    · exact ioPhase_digit io s1 s' h2 x hx'

/-! ### the pin condition -/

/-- a successful splice of step `k` wired every non-input output `x` from its copy, so `connect` accepted the copy as
    a source -/
theorem subPhase_pin {c : Circuit} {k : Nat} {io : List Name} {P P' : Circuit} {nm : Name → Name}
    (hc : LintClean c) (hP : WF P)
    (h : P.addSubcircuit c ("unrolled_" ++ toString k) (io.map (fun x => (x, [nm x]))) true = (P', .ok))
    {x : Name} (hx : x ∈ io) (hxo : x ∈ c.outputs) (hxi : x ∉ c.inputs) :
    c.ty? x ≠ some "bb_input" ∧ (c.ty? x = some "bb_output" → c.fanout x = []) := by
  have hsc : WF c := hc.toWF
  obtain ⟨_, h2, _, _, hca⟩ := addSub_unfold h
  have hclash : ∀ n, c.has n = true → P.has (pref ("unrolled_" ++ toString k) n) = false := by
    intro n hn
    rw [List.any_eq_false] at h2
    have := h2 n ((has_iff_mem c n).1 hn)
    simpa using this
  have hq : ([pref ("unrolled_" ++ toString k) x], [nm x]) ∈
      subConns c ("unrolled_" ++ toString k) (io.map (fun x => (x, [nm x]))) := by
    unfold subConns
    refine List.mem_map.2 ⟨(x, [nm x]), List.mem_map.2 ⟨x, hx, rfl⟩, ?_⟩
    have hc' : c.inputs.contains x = false := by
      cases hh : c.inputs.contains x with
      | false => rfl
      | true => exact absurd (List.contains_iff_mem.1 hh) hxi
    simp only [hc', Bool.false_eq_true, if_false]
  obtain ⟨ci, n1, e1, cj, hcj⟩ := connectAll_each _ _ _ hca _ hq
  obtain ⟨_, _, _, _, _, _, a7⟩ := connect_ok hcj
  obtain ⟨_, _, _, hU⟩ := connectCheck_none (a7 (by simp) (by simp))
  obtain ⟨t, ht, hne, hbo⟩ := hU _ (List.mem_singleton.2 rfl)
  obtain ⟨a, ha⟩ := has_exists (mem_outputs_has hxo)
  obtain ⟨t0, ht0, _⟩ := hc.typed _ ha
  simp only [] at ht0
  have hty : c.ty? x = some t0 := by rw [Arith.ty?_of_mem hsc.nodup ha]; exact ht0
  have hne0 : t0 ≠ "input" := by
    intro e
    apply hxi
    rw [mem_inputs_of_mem hsc.nodup ha, ht0, e]
  have htt : t = t0 := by
    rw [ty?_congr n1, Arith.subPre_ty_child hP hsc _ hclash ha, stripA_ty_of_ne ht0 hne0] at ht
    injection ht with ht
    exact ht.symm
  subst htt
  rw [hty]
  refine ⟨fun e => hne (by injection e), fun e => ?_⟩
  have hb : t = "bb_output" := by injection e
  obtain ⟨_, hlen⟩ := hbo hb
  have hnil : ci.fanout (pref ("unrolled_" ++ toString k) x) = [] := by
    apply List.eq_nil_of_length_eq_zero
    simp only [List.length_singleton] at hlen
    omega
  rw [fanout_nil_iff] at hnil ⊢
  intro e0 he0 e01
  apply hnil (pref ("unrolled_" ++ toString k) e0.1, pref ("unrolled_" ++ toString k) e0.2)
  · apply e1
    rw [(subPre_view hP hsc _ hclash).2.1]
    exact List.mem_append.2 (Or.inr (List.mem_map.2 ⟨e0, he0, rfl⟩))
  · show pref _ e0.1 = pref _ x
    rw [e01]

/-- **necessity**: a successful call implies the digit condition on the io nodes and `PinOK` -/
theorem conds_of_success (c : Circuit) (n : Nat) (stateIO : List (Name × Name)) (pfx : String) (ord : Ord)
    (hord : ∀ l, (ord l).Perm l) (hc : LintClean c) (r : Tx.UState)
    (h : Tx.unroll c n stateIO pfx ord = .ok r) :
    (∀ x ∈ ord c.io, isDigit0 x = false) ∧ PinOK c := by
  obtain ⟨hn, _, hloop⟩ := unroll_unfold h
  obtain ⟨m, rfl⟩ : ∃ m, n = m + 1 := ⟨n - 1, by omega⟩
  rw [List.range_succ_eq_map] at hloop
  obtain ⟨s1, hstep, _⟩ := foldlM_cons_ok _ _ _ _ _ hloop
  unfold Tx.unrollStep at hstep
  obtain ⟨sA, hA, hstep⟩ := bind_ok hstep
  obtain ⟨P', hB, _⟩ := bind_ok hstep
  have wf0 : WF ({} : Circuit) := ⟨List.nodup_nil, List.nodup_nil, fun e he => by cases he⟩
  obtain ⟨wfP, _, _, _⟩ := ioPhase (ord c.io) _ sA wf0 hA
  refine ⟨ioPhase_digit _ _ _ hA, ?_⟩
  intro x hxo
  by_cases hxi : x ∈ c.inputs
  · obtain ⟨a, ha⟩ := has_exists (mem_inputs_has hxi)
    have hty : c.ty? x = some "input" := by
      rw [Arith.ty?_of_mem hc.toWF.nodup ha]
      exact (mem_inputs_of_mem hc.toWF.nodup ha).1 hxi
    rw [hty]
    exact ⟨by decide, fun e => absurd e (by decide)⟩
  · have hx : x ∈ ord c.io := (hord c.io).mem_iff.2 (mem_union.2 (Or.inr hxo))
    exact subPhase_pin (nm := fun x => Tx.ioName sA.2 x 0) hc wfP (liftO_ok hB) hx hxo hxi

end UnrollOk
end CG
