/- C09 (unroll), phase A of an iteration: creation of the per-step io nodes -/
import CG.Proofs.UnrollBase
set_option linter.unusedSimpArgs false
set_option linter.unusedVariables false
namespace CG
namespace Unroll
open Circuit

/-- type of an io node on creation -/
def ioTy0 (c : Circuit) (stateIO : List (Name × Name)) (x : Name) : String :=
  if stateIO.any (fun p => p.2 == x) then "buf" else if c.inputs.contains x then "input" else "buf"

def isVal (stateIO : List (Name × Name)) (x : Name) : Bool := stateIO.any (fun p => p.2 == x)

/-- final type of the io node of `x` at step `t` -/
def ioTy (c : Circuit) (stateIO : List (Name × Name)) (x : Name) (t : Nat) : String :=
  if t = 0 ∧ isVal stateIO x = true then "input" else ioTy0 c stateIO x

def ioAttr0 (c : Circuit) (stateIO : List (Name × Name)) (x : Name) : Attr :=
  { ty := some (ioTy0 c stateIO x), out := some (c.isOut x) }

def ioAttr (c : Circuit) (stateIO : List (Name × Name)) (x : Name) (t : Nat) : Attr :=
  { ty := some (ioTy c stateIO x t), out := some (c.isOut x) }

theorem wf_append_node {c c' : Circuit} {r : Name} {a : Attr} (h : WF c) (hn : c'.nodes = c.nodes ++ [(r, a)])
    (he : c'.edges = c.edges) (hr : c.has r = false) : WF c' := by
  refine ⟨?_, by rw [he]; exact h.edgesNodup, ?_⟩
  · rw [Limit.ext_nodeNames hn, List.nodup_append]
    refine ⟨h.nodup, by simp, ?_⟩
    intro x hx y hy e
    rw [List.mem_singleton] at hy
    subst hy; subst e
    rw [(has_iff_mem c x).2 hx] at hr
    cases hr
  · intro e hm
    rw [he] at hm
    exact ⟨(Limit.ext_has hn _).2 (Or.inl (h.closed e hm).1), (Limit.ext_has hn _).2 (Or.inl (h.closed e hm).2)⟩

/-- one `unrollIO` call -/
theorem unrollIO_ok {c : Circuit} {stateIO : List (Name × Name)} {pfx : String} {k : Nat} {s s' : Tx.UState} {x : Name}
    (h : Tx.unrollIO c stateIO pfx k s x = .ok s') :
    s.1.has (N c pfx x k) = false ∧ s'.1.nodes = s.1.nodes ++ [(N c pfx x k, ioAttr0 c stateIO x)] ∧
    s'.1.edges = s.1.edges ∧
    s'.2 = s.2.map (fun p => if p.1 == x then (p.1, p.2 ++ [N c pfx x k]) else p) := by
  unfold Tx.unrollIO at h
  obtain ⟨r, h1, h⟩ := bind_ok h
  have hr : r = N c pfx x k := by
    unfold N; rw [uidE_ok h1]; rfl
  subst hr
  obtain ⟨uc, h2, h⟩ := bind_ok h
  obtain ⟨a1, a2, a3, _, _⟩ := addC_plain h2
  injection h with h
  subst h
  exact ⟨a1, a2, a3, rfl⟩

theorem ioPhase {c : Circuit} {stateIO : List (Name × Name)} {pfx : String} {k : Nat} :
    ∀ (io : List Name) (s s' : Tx.UState), WF s.1 → io.foldlM (Tx.unrollIO c stateIO pfx k) s = .ok s' →
    WF s'.1 ∧ s'.1.nodes = s.1.nodes ++ io.map (fun x => (N c pfx x k, ioAttr0 c stateIO x)) ∧
    s'.1.edges = s.1.edges ∧
    s'.2 = io.foldl (fun m x => m.map (fun p => if p.1 == x then (p.1, p.2 ++ [N c pfx x k]) else p)) s.2
  | [], s, s', hwf, h => by
    rw [foldlM_nil_ok _ _ _ h]
    exact ⟨hwf, by simp, rfl, rfl⟩
  | x :: io, s, s', hwf, h => by
    obtain ⟨s1, h1, h2⟩ := foldlM_cons_ok _ _ _ _ _ h
    obtain ⟨a1, a2, a3, a4⟩ := unrollIO_ok h1
    obtain ⟨b1, b2, b3, b4⟩ := ioPhase io s1 s' (wf_append_node hwf a2 a3 a1) h2
    refine ⟨b1, ?_, by rw [b3, a3], ?_⟩
    · rw [b2, a2]; simp
    · rw [b4, a4]; rfl

theorem foldl_map_append {β} (g : Name → β) (all : List Name) :
    ∀ (todo : List Name), todo.Nodup → ∀ (f : Name → List β),
    todo.foldl (fun m x => m.map (fun p => if p.1 == x then (p.1, p.2 ++ [g x]) else p)) (all.map (fun x => (x, f x))) =
      all.map (fun x => (x, if x ∈ todo then f x ++ [g x] else f x))
  | [], _, f => by simp
  | a :: l, hnd, f => by
    rw [List.nodup_cons] at hnd
    rw [List.foldl_cons]
    have e : (all.map (fun x => (x, f x))).map (fun p => if p.1 == a then (p.1, p.2 ++ [g a]) else p) =
        all.map (fun x => (x, (fun x => if x = a then f x ++ [g x] else f x) x)) := by
      rw [List.map_map]
      apply List.map_congr_left
      intro x _
      simp only [Function.comp]
      by_cases hx : x = a
      · subst hx; simp
      · have : (x == a) = false := by simpa using hx
        simp [this, hx]
    rw [e, foldl_map_append g all l hnd.2]
    apply List.map_congr_left
    intro x _
    by_cases hx : x = a
    · subst hx
      simp [hnd.1]
    · simp [hx]

theorem ioPhase_map (c : Circuit) (pfx : String) (io : List Name) (hio : io.Nodup) (k : Nat) :
    io.foldl (fun m x => m.map (fun p => if p.1 == x then (p.1, p.2 ++ [N c pfx x k]) else p)) (mapAt c pfx io k) =
      mapAt c pfx io (k + 1) := by
  unfold mapAt
  rw [foldl_map_append (fun x => N c pfx x k) io io hio]
  apply List.map_congr_left
  intro x hx
  rw [if_pos hx, List.range_succ, List.map_append]
  rfl

end Unroll
end CG
