/- helper lemmas for C06: the decomposition of a successful `fill_blackbox` -/
import CG.Proofs.ComposeRel
import CG.Proofs.ComposeSubThm
set_option linter.unusedSimpArgs false
set_option linter.unusedVariables false
namespace CG
open Circuit

/-! ### attribute view of the strip folds -/

theorem foldl_setTyRaw_attr (t : String) (L : List Name) (c : Circuit) (m : Name) :
    (L.foldl (fun acc n => acc.setTyRaw n t) c).attr? m =
      (c.attr? m).map (fun a => if L.contains m then { a with ty := some t } else a) := by
  unfold attr?
  rw [foldl_setTyRaw_nodes]
  have : (c.nodes.map (fun p => if L.contains p.1 then (p.1, ({ p.2 with ty := some t } : Attr)) else p)) =
      c.nodes.map (fun p => (p.1, (fun k (a : Attr) => if L.contains k then ({ a with ty := some t } : Attr) else a) p.1 p.2)) := by
    apply List.map_congr_left
    intro p _
    by_cases h : L.contains p.1 = true
    · simp only [h, if_true]
    · simp only [h, if_false, Bool.false_eq_true]
  rw [this]
  exact lookup_map_val (fun k (a : Attr) => if L.contains k then ({ a with ty := some t } : Attr) else a) c.nodes m

theorem foldl_setOutRaw_attr (b : Bool) (L : List Name) (c : Circuit) (m : Name) :
    (L.foldl (fun acc n => acc.setOutRaw n b) c).attr? m =
      (c.attr? m).map (fun a => if L.contains m then { a with out := some b } else a) := by
  unfold attr?
  rw [foldl_setOutRaw_nodes]
  have : (c.nodes.map (fun p => if L.contains p.1 then (p.1, ({ p.2 with out := some b } : Attr)) else p)) =
      c.nodes.map (fun p => (p.1, (fun k (a : Attr) => if L.contains k then ({ a with out := some b } : Attr) else a) p.1 p.2)) := by
    apply List.map_congr_left
    intro p _
    by_cases h : L.contains p.1 = true
    · simp only [h, if_true]
    · simp only [h, if_false, Bool.false_eq_true]
  rw [this]
  exact lookup_map_val (fun k (a : Attr) => if L.contains k then ({ a with out := some b } : Attr) else a) c.nodes m

theorem strip_cases (a : Attr) (bi bo : Bool) (hi : bi = true ↔ a.ty = some "input")
    (ho : bo = true ↔ a.out = some true) :
    (if bo then { (if bi then { a with ty := some "buf" } else a) with out := some false }
      else (if bi then { a with ty := some "buf" } else a)) = stripA a := by
  unfold stripA
  by_cases h1 : a.ty = some "input"
  · have h1' : bi = true := hi.2 h1
    by_cases h2 : a.out = some true
    · have h2' : bo = true := ho.2 h2
      simp only [h1', h2', if_true, h1, h2]
    · have h2' : bo = false := by
        cases hb : bo with
        | false => rfl
        | true => exact absurd (ho.1 hb) h2
      simp only [h1', h2', if_true, h1, h2, if_false, Bool.false_eq_true]
  · have h1' : bi = false := by
      cases hb : bi with
      | false => rfl
      | true => exact absurd (hi.1 hb) h1
    by_cases h2 : a.out = some true
    · have h2' : bo = true := ho.2 h2
      simp only [h1', h2', if_true, h1, h2, if_false, Bool.false_eq_true]
    · have h2' : bo = false := by
        cases hb : bo with
        | false => rfl
        | true => exact absurd (ho.1 hb) h2
      simp only [h1', h2', h1, h2, if_false, Bool.false_eq_true]

/-! ### the pin renaming -/

theorem renP_pin (inst : Name) (bb : BBox) {p : Name} (hp : p ∈ bb.outs ++ bb.ins) :
    renP inst bb (inst ++ "." ++ p) = pref inst p := by
  unfold renP
  cases hf : (bb.outs ++ bb.ins).find? (fun q => inst ++ "." ++ p == inst ++ "." ++ q) with
  | none =>
    rw [List.find?_eq_none] at hf
    exact absurd (by simp) (hf p hp)
  | some q =>
    have := List.find?_some hf
    simp only [beq_iff_eq] at this
    rw [pin_inj inst this]

theorem renP_other (inst : Name) (bb : BBox) {x : Name} (h : ∀ p ∈ bb.outs ++ bb.ins, x ≠ inst ++ "." ++ p) :
    renP inst bb x = x := by
  unfold renP
  cases hf : (bb.outs ++ bb.ins).find? (fun q => x == inst ++ "." ++ q) with
  | none => rfl
  | some q =>
    have h1 := List.find?_some hf
    have h2 := List.mem_of_find?_eq_some hf
    simp only [beq_iff_eq] at h1
    exact absurd h1 (h q h2)

/-! ### unfolding a successful call -/

def fillRes (P : Circuit) (inst : Name) (bb : BBox) (sub : Circuit) (ord : Ord) : Circuit :=
  sub.bbs.foldl (fun acc p => acc.setBB (pref inst p.1) p.2)
    ((bb.outs.foldl (fun acc n => acc.setOutRaw (pref inst n) false)
      (bb.ins.foldl (fun acc n => acc.setTyRaw (pref inst n) "buf")
        ((P.relabel ((ord (union bb.outs bb.ins)).map (fun p => (inst ++ "." ++ p, pref inst p)))).graphUpdate
          (sub.relabelCopy (pref inst))))).popBB inst)

theorem fill_unfold {P sub P' : Circuit} {inst : Name} {bb : BBox} {ord : Ord}
    (hbb : P.bbs.lookup inst = some bb) (h : P.fillBlackbox inst sub ord = (P', .ok)) :
    (sub.bbs.any (fun p => (P.bbs.lookup (pref inst p.1)).isSome)) = false ∧
    sameSet sub.inputs bb.ins = true ∧ sameSet sub.outputs bb.outs = true ∧
    (sub.nodeNames.any (fun n => P.has (pref inst n))) = false ∧
    P' = fillRes P inst bb sub ord := by
  unfold fillBlackbox at h
  rw [hbb] at h
  simp only [] at h
  split at h
  · injection h with _ h; cases h
  · rename_i h1
    split at h
    · injection h with _ h; cases h
    · split at h
      · injection h with _ h; cases h
      · rename_i h3
        split at h
        · injection h with _ h; cases h
        · rename_i h4
          split at h
          · injection h with _ h; cases h
          · rename_i h5
            injection h with h _
            exact ⟨by simpa using h1, by simpa using h3, by simpa using h4, by simpa using h5, h.symm⟩

/-- everything the property theorems need to know about a successful `fill_blackbox` -/
structure FillFacts (P sub P' : Circuit) (inst : Name) (bb : BBox) : Prop where
  clash : ∀ n, sub.has n = true → P.has (pref inst n) = false
  ins : ∀ x, x ∈ sub.inputs ↔ x ∈ bb.ins
  outs : ∀ x, x ∈ sub.outputs ↔ x ∈ bb.outs
  has : ∀ n, P'.has n = true ↔ ((P.has n = true ∧ ∀ p ∈ bb.outs ++ bb.ins, n ≠ inst ++ "." ++ p) ∨
      ∃ m, sub.has m = true ∧ n = pref inst m)
  attrChild : ∀ m a, (m, a) ∈ sub.nodes → P'.attr? (pref inst m) = some (stripA a)
  attrParent : ∀ n, P.has n = true → (∀ p ∈ bb.outs ++ bb.ins, n ≠ inst ++ "." ++ p) → P'.attr? n = P.attr? n
  nodup : P'.nodeNames.Nodup
  edgesNodup : P'.edges.Nodup
  edges : ∃ E1 : List (Name × Name), E1.Nodup ∧
      (∀ e, e ∈ E1 ↔ ∃ e0 ∈ P.edges, e = (renP inst bb e0.1, renP inst bb e0.2)) ∧
      P'.edges = E1 ++ (sub.edges.map (fun e => (pref inst e.1, pref inst e.2))).filter (fun e => !E1.contains e)
  bbs : (sub.bbs.map (·.1)).Nodup →
      P'.bbs = (P.bbs.filter (fun p => !(p.1 == inst))) ++ sub.bbs.map (fun p => (pref inst p.1, p.2))

theorem fill_facts {P sub P' : Circuit} {inst : Name} {bb : BBox} {ord : Ord} (hord : OrdOK ord)
    (hP : WF P) (hsub : WF sub) (hfull : FullA sub) (hbb : P.bbs.lookup inst = some bb)
    (h : P.fillBlackbox inst sub ord = (P', .ok)) : FillFacts P sub P' inst bb := by
  obtain ⟨k1, k3, k4, k5, hP'⟩ := fill_unfold hbb h
  subst hP'
  have hf : ∀ a b, pref inst a = pref inst b → a = b := fun a b e => pref_inj inst e
  have hclash : ∀ n, sub.has n = true → P.has (pref inst n) = false := by
    intro n hn
    rw [List.any_eq_false] at k5
    simpa using k5 n ((has_iff_mem sub n).1 hn)
  have hbbclash : ∀ p ∈ sub.bbs, P.bbs.lookup (pref inst p.1) = none := by
    intro p hp
    rw [List.any_eq_false] at k1
    have := k1 p hp
    cases hl : P.bbs.lookup (pref inst p.1) with
    | none => rfl
    | some b => rw [hl] at this; simp at this
  have hins := sameSet_iff k3
  have houts := sameSet_iff k4
  -- the pin list
  have hpins : ∀ p, p ∈ ord (union bb.outs bb.ins) ↔ p ∈ bb.outs ++ bb.ins := by
    intro p; rw [(hord _).mem_iff, mem_union, List.mem_append]
  have hsubhas : ∀ p, p ∈ bb.outs ++ bb.ins → sub.has p = true := by
    intro p hp
    rcases List.mem_append.1 hp with hp | hp
    · exact mem_outputs_has ((houts p).2 hp)
    · exact mem_inputs_has ((hins p).2 hp)
  obtain ⟨r1, r2, r3, r4, r5, r6, r7⟩ := fill_relabel' hP inst (ord (union bb.outs bb.ins))
    (fun p hp => hclash p (hsubhas p ((hpins p).1 hp))) (renP inst bb)
    (fun p hp => renP_pin inst bb ((hpins p).1 hp))
    (fun x hx => renP_other inst bb (fun p hp => hx p ((hpins p).2 hp)))
  unfold fillRes
  generalize P.relabel ((ord (union bb.outs bb.ins)).map (fun p => (inst ++ "." ++ p, pref inst p))) = c1
    at r1 r2 r3 r4 r5 r6 r7
  -- the prefixed copy
  obtain ⟨g1, g2, g3, g4⟩ := relabelCopy_exact hsub.nodup hsub.edgesNodup (pref inst) hf
  generalize sub.relabelCopy (pref inst) = g at g1 g2 g3 g4
  have hgnames : g.nodeNames = sub.nodeNames.map (pref inst) := by
    simp [nodeNames, g1, List.map_map, Function.comp_def]
  have hgn : g.nodeNames.Nodup := by
    rw [hgnames]; exact nodup_map_of_inj hsub.nodup (fun x _ y _ e => hf x y e)
  have hge : g.edges.Nodup := by
    rw [g2]
    apply nodup_map_of_inj hsub.edgesNodup
    intro x _ y _ e
    injection e with e1 e2
    exact Prod.ext (hf _ _ e1) (hf _ _ e2)
  have hghas : ∀ n, g.has n = true ↔ ∃ m, sub.has m = true ∧ n = pref inst m := by
    intro n
    rw [has_iff_mem, hgnames, List.mem_map]
    constructor
    · rintro ⟨m, hm, e⟩; exact ⟨m, (has_iff_mem sub m).2 hm, e.symm⟩
    · rintro ⟨m, hm, e⟩; exact ⟨m, (has_iff_mem sub m).1 hm, e.symm⟩
  have hgfull : FullA g := by
    intro q hq
    rw [g1] at hq
    obtain ⟨p, hp, rfl⟩ := List.mem_map.1 hq
    exact hfull p hp
  -- the merge
  obtain ⟨u1, u2⟩ := graphUpdate_attr_full c1 g hgn hgfull
  have uh := graphUpdate_has c1 g
  have und := graphUpdate_nodup c1 g r1
  have ue := graphUpdate_edges c1 g hge
  have uen := graphUpdate_edges_nodup c1 g r2
  have ub := graphUpdate_bbs c1 g
  generalize c1.graphUpdate g = U at u1 u2 uh und ue uen ub
  -- strip
  have e1 : ∀ (L : List Name) (c0 : Circuit), L.foldl (fun acc n => acc.setTyRaw (pref inst n) "buf") c0 =
      (L.map (pref inst)).foldl (fun acc n => acc.setTyRaw n "buf") c0 := fun L c0 => by rw [List.foldl_map]
  have e2 : ∀ (L : List Name) (c0 : Circuit), L.foldl (fun acc n => acc.setOutRaw (pref inst n) false) c0 =
      (L.map (pref inst)).foldl (fun acc n => acc.setOutRaw n false) c0 := fun L c0 => by rw [List.foldl_map]
  rw [e1, e2]
  have ta := foldl_setTyRaw_attr "buf" (bb.ins.map (pref inst)) U
  obtain ⟨te, tb, tnn, _⟩ := foldl_setTyRaw_view "buf" (bb.ins.map (pref inst)) U
  generalize (bb.ins.map (pref inst)).foldl (fun acc n => acc.setTyRaw n "buf") U = S at ta te tb tnn
  have oa := foldl_setOutRaw_attr false (bb.outs.map (pref inst)) S
  obtain ⟨oe, ob, onn, _⟩ := foldl_setOutRaw_view false (bb.outs.map (pref inst)) S
  generalize (bb.outs.map (pref inst)).foldl (fun acc n => acc.setOutRaw n false) S = O at oa oe ob onn
  obtain ⟨bn, be, _⟩ := foldl_setBB_frame (pref inst) sub.bbs (O.popBB inst)
  have hnodes : (sub.bbs.foldl (fun acc p => acc.setBB (pref inst p.1) p.2) (O.popBB inst)).nodes = O.nodes := by
    rw [bn]; rfl
  have hedges : (sub.bbs.foldl (fun acc p => acc.setBB (pref inst p.1) p.2) (O.popBB inst)).edges = U.edges := by
    rw [be]; show O.edges = U.edges; rw [oe, te]
  have hattr : ∀ m, (sub.bbs.foldl (fun acc p => acc.setBB (pref inst p.1) p.2) (O.popBB inst)).attr? m =
      ((U.attr? m).map (fun a => if (bb.ins.map (pref inst)).contains m then { a with ty := some "buf" } else a)).map
        (fun a => if (bb.outs.map (pref inst)).contains m then { a with out := some false } else a) := by
    intro m; rw [attr?_congr hnodes, oa, ta]
  have hnames : (sub.bbs.foldl (fun acc p => acc.setBB (pref inst p.1) p.2) (O.popBB inst)).nodeNames =
      U.nodeNames := by rw [nodeNames_congr hnodes, onn, tnn]
  generalize hR : sub.bbs.foldl (fun acc p => acc.setBB (pref inst p.1) p.2) (O.popBB inst) = R
    at hnodes hedges hattr hnames
  -- membership of prefixed names in the strip lists
  have cin : ∀ n, (bb.ins.map (pref inst)).contains (pref inst n) = true ↔ n ∈ sub.inputs := by
    intro n
    rw [List.contains_iff_mem, List.mem_map, hins]
    exact ⟨fun ⟨m, hm, e⟩ => hf _ _ e ▸ hm, fun hm => ⟨n, hm, rfl⟩⟩
  have cout : ∀ n, (bb.outs.map (pref inst)).contains (pref inst n) = true ↔ n ∈ sub.outputs := by
    intro n
    rw [List.contains_iff_mem, List.mem_map, houts]
    exact ⟨fun ⟨m, hm, e⟩ => hf _ _ e ▸ hm, fun hm => ⟨n, hm, rfl⟩⟩
  have pin' : ∀ n, P.has n = true → (bb.ins.map (pref inst)).contains n = false := by
    intro n hn
    cases hh : (bb.ins.map (pref inst)).contains n with
    | false => rfl
    | true =>
      obtain ⟨m, hm, e⟩ := List.mem_map.1 (List.contains_iff_mem.1 hh)
      have := hclash m (hsubhas m (List.mem_append.2 (Or.inr hm)))
      rw [e, hn] at this; cases this
  have pout' : ∀ n, P.has n = true → (bb.outs.map (pref inst)).contains n = false := by
    intro n hn
    cases hh : (bb.outs.map (pref inst)).contains n with
    | false => rfl
    | true =>
      obtain ⟨m, hm, e⟩ := List.mem_map.1 (List.contains_iff_mem.1 hh)
      have := hclash m (hsubhas m (List.mem_append.2 (Or.inl hm)))
      rw [e, hn] at this; cases this
  -- a parent node that is not a pin survives the renaming untouched
  have hkeep : ∀ n, P.has n = true → (∀ p ∈ bb.outs ++ bb.ins, n ≠ inst ++ "." ++ p) →
      c1.attr? n = P.attr? n ∧ g.has n = false := by
    intro n hn hnp
    constructor
    · apply r6 n (fun p hp => hnp p ((hpins p).1 hp))
      intro p hp e
      have := hclash p (hsubhas p ((hpins p).1 hp))
      rw [← e, hn] at this; cases this
    · cases hg : g.has n with
      | false => rfl
      | true =>
        obtain ⟨m, hm, e⟩ := (hghas n).1 hg
        have := hclash m hm
        rw [← e, hn] at this; cases this
  have hattrParent : ∀ n, P.has n = true → (∀ p ∈ bb.outs ++ bb.ins, n ≠ inst ++ "." ++ p) →
      R.attr? n = P.attr? n := by
    intro n hn hnp
    obtain ⟨q1, q2⟩ := hkeep n hn hnp
    rw [hattr, u2 n q2, q1, pin' n hn, pout' n hn]
    cases P.attr? n <;> simp
  have hhasR : ∀ n, R.has n = (c1.has n || g.has n) := by
    intro n; rw [has_of_names hnames, uh]
  refine ⟨hclash, hins, houts, ?_, ?_, hattrParent, by rw [hnames]; exact und, by rw [hedges]; exact uen,
    ⟨c1.edges, r2, r7, by rw [hedges, ue, g2]⟩, ?_⟩
  · -- has
    intro n
    rw [hhasR, Bool.or_eq_true, hghas]
    constructor
    · rintro (hc | hg)
      · by_cases hpin : ∃ p ∈ bb.outs ++ bb.ins, n = inst ++ "." ++ p
        · obtain ⟨p, hp, rfl⟩ := hpin
          rw [has_eq_isSome, r5 p ((hpins p).2 hp)] at hc
          simp at hc
        · by_cases hpre : ∃ p ∈ bb.outs ++ bb.ins, n = pref inst p
          · obtain ⟨p, hp, rfl⟩ := hpre
            exact Or.inr ⟨p, hsubhas p hp, rfl⟩
          · left
            have hnp : ∀ p ∈ bb.outs ++ bb.ins, n ≠ inst ++ "." ++ p := fun p hp e => hpin ⟨p, hp, e⟩
            refine ⟨?_, hnp⟩
            rw [has_eq_isSome, r6 n (fun p hp => hnp p ((hpins p).1 hp))
              (fun p hp e => hpre ⟨p, (hpins p).1 hp, e⟩), ← has_eq_isSome] at hc
            exact hc
      · exact Or.inr hg
    · rintro (⟨hn, hnp⟩ | hg)
      · left
        rw [has_eq_isSome, (hkeep n hn hnp).1, ← has_eq_isSome]; exact hn
      · exact Or.inr hg
  · -- attributes of the spliced nodes
    intro m a hma
    have hgm : (pref inst m, a) ∈ g.nodes := by
      rw [g1]; exact List.mem_map.2 ⟨(m, a), hma, rfl⟩
    rw [hattr, u1 _ a hgm]
    simp only [Option.map_some]
    congr 1
    have hi := mem_inputs_of_mem hsub.nodup hma
    have ho := mem_outputs_of_mem hsub.nodup hma
    exact strip_cases a _ _ ((cin m).trans hi) ((cout m).trans ho)
  · -- registry
    intro hbbs
    rw [← hR]
    have hpop : (O.popBB inst).bbs = P.bbs.filter (fun p => !(p.1 == inst)) := by
      show O.bbs.filter _ = _
      rw [ob, tb, ub, r3]
    rw [foldl_setBB_bbs (pref inst) sub.bbs (O.popBB inst)]
    · rw [hpop]
    · have : sub.bbs.map (fun p => pref inst p.1) = (sub.bbs.map (·.1)).map (pref inst) := by
        simp [List.map_map, Function.comp_def]
      rw [this]
      exact nodup_map_of_inj hbbs (fun x _ y _ e => hf x y e)
    · intro p hp
      rw [hpop, lookup_filter_key (fun k => !(k == inst)), hbbclash p hp]
      simp

end CG
