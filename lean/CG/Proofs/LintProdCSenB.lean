/- helper lemmas for C20 (sensitivity_transform passes lint): the sensitivity circuit is `LintClean` -/
import CG.Proofs.LintProdCKView
import CG.Proofs.LintProdCSenA
set_option linter.unusedSimpArgs false
set_option linter.unusedVariables false
namespace CG
namespace LintProd
open Circuit Miter Sens Arith

/-! ### stripped types -/

theorem sty_source {t : String} (h : sty t ∈ sourceTypes) : t ≠ "input" ∧ t ∈ sourceTypes := by
  unfold sty at h
  by_cases h0 : t = "input"
  · rw [if_pos h0] at h; exact absurd h (by decide)
  · rw [if_neg h0] at h; exact ⟨h0, h⟩

theorem sty_bb {t b : String} (hb : b = "bb_output" ∨ b = "bb_input") (h : sty t = b) : t = b := by
  unfold sty at h
  by_cases h0 : t = "input"
  · rw [if_pos h0] at h
    subst h
    rcases hb with hb | hb <;> exact absurd hb (by decide)
  · rw [if_neg h0] at h; exact h

theorem styOf_ne_bb {c : Circuit} {y b : String} (hb : b = "bb_output" ∨ b = "bb_input") (h : c.ty? y ≠ some b) :
    styOf c y ≠ b := by
  intro e
  cases hty : c.ty? y with
  | none =>
    unfold styOf at e
    rw [hty] at e
    simp only [Option.map_none, Option.getD_none] at e
    subst e
    rcases hb with hb | hb <;> exact absurd hb (by decide)
  | some t =>
    rw [styOf_ty hty] at e
    exact h (by rw [hty, sty_bb hb e])

theorem lit_not_source_xor : ¬ "xor" ∈ sourceTypes := by decide
theorem lit_not_source_buf : ¬ "buf" ∈ sourceTypes := by decide
theorem lit_not_source_not : ¬ "not" ∈ sourceTypes := by decide
theorem lit_input_ne_bbo : "input" ≠ "bb_output" := by decide
theorem lit_input_ne_bbi : "input" ≠ "bb_input" := by decide
theorem lit_xor_ne_bbo : "xor" ≠ "bb_output" := by decide
theorem lit_xor_ne_bbi : "xor" ≠ "bb_input" := by decide
theorem lit_buf_ne_bbo : "buf" ≠ "bb_output" := by decide
theorem lit_not_ne_bbo : "not" ≠ "bb_output" := by decide
theorem lit_not_ne_bbi : "not" ≠ "bb_input" := by decide
theorem lit_sup_input : "input" ∈ Expected.supported_types := by decide
theorem lit_sup_xor : "xor" ∈ Expected.supported_types := by decide
theorem lit_sup_buf : "buf" ∈ Expected.supported_types := by decide
theorem lit_sup_not : "not" ∈ Expected.supported_types := by decide

theorem sty_sup {t : String} (h : t ∈ Expected.supported_types) : sty t ∈ Expected.supported_types := by
  unfold sty
  by_cases h0 : t = "input"
  · rw [if_pos h0]; decide
  · rw [if_neg h0]; exact h

section clean
variable {cone pcC : Circuit} {sp : List Name} {n : Name} {k m : Nat} {sen : Circuit}

theorem cone_src (H : SenHyp cone pcC sp n k) {α : Type} (f : Name → α) (g : Name → α) {y t : String}
    (hty : cone.ty? y = some t) (hs : sty t ∈ sourceTypes) :
    ((cone.fanin y).map f ++ if y ∈ sp then [g y] else []) = [] := by
  obtain ⟨h0, h1⟩ := sty_source hs
  rw [if_neg (not_sp_of_ty H hty h0), H.lcone.noFanin y t hty h1]
  rfl

theorem cone_single_eq (H : SenHyp cone pcC sp n k) {α : Type} (f : Name → α) (g : Name → α) {y t : String}
    (hty : cone.ty? y = some t) (hs : sty t ∈ ["buf", "not", "bb_input"]) :
    ((cone.fanin y).map f ++ if y ∈ sp then [g y] else []).length = 1 := by
  rcases sty_single hs with h0 | ⟨h0, h1⟩
  · subst h0
    have hin : y ∈ cone.inputs := (CG.mem_inputs H.lcone.nodup y).2 hty
    rw [noFanin_inputs H.lcone y hin, if_pos (H.inpsp y hin)]
    rfl
  · rw [if_neg (not_sp_of_ty H hty h0), List.append_nil, List.length_map, H.lcone.single y t hty h1]

theorem pc_ty_nobb (hpcT : ∀ p ∈ pcC.nodes, ∀ t, p.2.ty = some t → t ∈ genTypes) (y b : String)
    (hb : b = "bb_output" ∨ b = "bb_input") : pcC.ty? y ≠ some b := by
  intro hty
  obtain ⟨p, hp, _, ht⟩ := Tseitin.mem_of_ty pcC y b hty
  have := genTypes_nobb (hpcT p hp b ht)
  rcases hb with hb | hb
  · exact this.2 hb
  · exact this.1 hb

/-- the sensitivity circuit is lint-clean -/
theorem sen_lintClean (H : SenHyp cone pcC sp n k) (V : SV cone pcC sp n k sen) (S : PopSpec sp.length pcC m)
    (hpcT : ∀ p ∈ pcC.nodes, ∀ t, p.2.ty = some t → t ∈ genTypes) (hnbi : cone.ty? n ≠ some "bb_input") :
    LintClean sen := by
  have cbo : ∀ y, styOf cone y ≠ "bb_output" := fun y => styOf_ne_bb (Or.inl rfl) (H.nobbo y)
  have pbo : ∀ y, styOf pcC y ≠ "bb_output" := fun y => styOf_ne_bb (Or.inl rfl) (pc_ty_nobb hpcT y _ (Or.inl rfl))
  have pbi : ∀ y, styOf pcC y ≠ "bb_input" := fun y => styOf_ne_bb (Or.inr rfl) (pc_ty_nobb hpcT y _ (Or.inr rfl))
  have cbi : ∀ a y, a ∈ cone.fanin y → styOf cone a ≠ "bb_input" := fun a y ha =>
    styOf_ne_bb (Or.inr rfl) (H.lcone.noBBInFanout (a, y) (mem_fanin.1 ha))
  have nbi : styOf cone n ≠ "bb_input" := styOf_ne_bb (Or.inr rfl) hnbi
  apply kview_lintClean V
  · intro x hx
    rcases (mem_KL cone pcC sp k x).1 hx with ⟨y, hy, rfl⟩ | ⟨s, hs, rfl⟩ | ⟨y, hy, rfl⟩ |
      ⟨q, hq, ⟨y, hy, rfl⟩ | rfl⟩ | ⟨o, ho, rfl⟩
    · obtain ⟨a, t, ha, ht, hty, hsup⟩ := cone_ty_of_names H hy
      show styOf cone y ∈ _
      rw [styOf_ty hty]
      exact sty_sup hsup
    · exact lit_sup_input
    · obtain ⟨a, t, ha, ht, hty, hsup⟩ := pc_ty_of_names H hy
      show styOf pcC y ∈ _
      rw [styOf_ty hty]
      exact sty_sup hsup
    · obtain ⟨a, t, ha, ht, hty, hsup⟩ := cone_ty_of_names H hy
      show (if y = q.2 then "not" else styOf cone y) ∈ _
      by_cases hy0 : y = q.2
      · rw [if_pos hy0]; exact lit_sup_not
      · rw [if_neg hy0, styOf_ty hty]
        exact sty_sup hsup
    · exact lit_sup_xor
    · exact lit_sup_buf
  · intro x hx hs
    rcases (mem_KL cone pcC sp k x).1 hx with ⟨y, hy, rfl⟩ | ⟨s, hs', rfl⟩ | ⟨y, hy, rfl⟩ |
      ⟨q, hq, ⟨y, hy, rfl⟩ | rfl⟩ | ⟨o, ho, rfl⟩
    · obtain ⟨a, t, ha, ht, hty, hsup⟩ := cone_ty_of_names H hy
      have hs1 : styOf cone y ∈ sourceTypes := hs
      rw [styOf_ty hty] at hs1
      exact cone_src H K.orig K.inp hty hs1
    · rfl
    · obtain ⟨a, t, ha, ht, hty, hsup⟩ := pc_ty_of_names H hy
      have hs1 : styOf pcC y ∈ sourceTypes := hs
      rw [styOf_ty hty] at hs1
      obtain ⟨h0, h1⟩ := sty_source hs1
      show ((pcC.fanin y).map K.pc ++
        ((idxL sp).filter (fun q => y == "in_" ++ toString q.1)).map (fun q => K.dif q.2)) = []
      rw [pc_filter_nil H hty h0, H.lpc.noFanin y t hty h1]
      rfl
    · obtain ⟨a, t, ha, ht, hty, hsup⟩ := cone_ty_of_names H hy
      have hs1 : (if y = q.2 then "not" else styOf cone y) ∈ sourceTypes := hs
      by_cases hy0 : y = q.2
      · rw [if_pos hy0] at hs1; exact absurd hs1 lit_not_source_not
      · rw [if_neg hy0, styOf_ty hty] at hs1
        exact cone_src H (K.inv q.2) K.inp hty hs1
    · exact absurd hs lit_not_source_xor
    · exact absurd hs lit_not_source_buf
  · intro x hx hs
    rcases (mem_KL cone pcC sp k x).1 hx with ⟨y, hy, rfl⟩ | ⟨s, hs', rfl⟩ | ⟨y, hy, rfl⟩ |
      ⟨q, hq, ⟨y, hy, rfl⟩ | rfl⟩ | ⟨o, ho, rfl⟩
    · obtain ⟨a, t, ha, ht, hty, hsup⟩ := cone_ty_of_names H hy
      have hs1 : styOf cone y ∈ ["buf", "not", "bb_input"] := hs
      rw [styOf_ty hty] at hs1
      exact cone_single_eq H K.orig K.inp hty hs1
    · exact absurd hs input_not_single
    · obtain ⟨a, t, ha, ht, hty, hsup⟩ := pc_ty_of_names H hy
      have hs1 : styOf pcC y ∈ ["buf", "not", "bb_input"] := hs
      rw [styOf_ty hty] at hs1
      show ((pcC.fanin y).map K.pc ++
        ((idxL sp).filter (fun q => y == "in_" ++ toString q.1)).map (fun q => K.dif q.2)).length = 1
      rcases sty_single hs1 with h0 | ⟨h0, h1⟩
      · subst h0
        have hin : y ∈ pcC.inputs := (CG.mem_inputs H.lpc.nodup y).2 hty
        obtain ⟨i, hi, rfl⟩ := (S.inputs y).1 hin
        rw [noFanin_inputs H.lpc _ hin, idxL_filter H.spnd hi]
        rfl
      · rw [pc_filter_nil H hty h0, List.map_nil, List.append_nil, List.length_map, H.lpc.single y t hty h1]
    · obtain ⟨a, t, ha, ht, hty, hsup⟩ := cone_ty_of_names H hy
      have hs1 : (if y = q.2 then "not" else styOf cone y) ∈ ["buf", "not", "bb_input"] := hs
      show ((cone.fanin y).map (K.inv q.2) ++ if y ∈ sp then [K.inp y] else []).length = 1
      by_cases hy0 : y = q.2
      · have hsp := mem_idxL_snd hq
        rw [hy0, cone_input_fanin H hsp, if_pos hsp]
        rfl
      · rw [if_neg hy0, styOf_ty hty] at hs1
        exact cone_single_eq H (K.inv q.2) K.inp hty hs1
    · exact absurd hs xor_not_single
    · rfl
  · intro x hx hs
    rcases (mem_KL cone pcC sp k x).1 hx with ⟨y, hy, rfl⟩ | ⟨s, hs', rfl⟩ | ⟨y, hy, rfl⟩ |
      ⟨q, hq, ⟨y, hy, rfl⟩ | rfl⟩ | ⟨o, ho, rfl⟩
    · obtain ⟨a, t, ha, ht, hty, hsup⟩ := cone_ty_of_names H hy
      have hs1 : styOf cone y ∈ ["and", "nand", "or", "nor", "xor", "xnor"] := hs
      rw [styOf_ty hty] at hs1
      exact cone_multi H K.orig K.inp hty hs1
    · exact absurd hs input_not_multi
    · obtain ⟨a, t, ha, ht, hty, hsup⟩ := pc_ty_of_names H hy
      have hs1 : styOf pcC y ∈ ["and", "nand", "or", "nor", "xor", "xnor"] := hs
      rw [styOf_ty hty] at hs1
      obtain ⟨h0, h1⟩ := sty_multi hs1
      have := H.lpc.multi y t hty h1
      show 1 ≤ ((pcC.fanin y).map K.pc ++ _).length
      rw [List.length_append, List.length_map]
      omega
    · obtain ⟨a, t, ha, ht, hty, hsup⟩ := cone_ty_of_names H hy
      have hs1 : (if y = q.2 then "not" else styOf cone y) ∈ ["and", "nand", "or", "nor", "xor", "xnor"] := hs
      by_cases hy0 : y = q.2
      · rw [if_pos hy0] at hs1; exact absurd hs1 (by decide)
      · rw [if_neg hy0, styOf_ty hty] at hs1
        exact cone_multi H (K.inv q.2) K.inp hty hs1
    · simp [kfi]
    · exact absurd hs buf_not_multi
  · intro x hx
    rcases (mem_KL cone pcC sp k x).1 hx with ⟨y, hy, rfl⟩ | ⟨s, hs', rfl⟩ | ⟨y, hy, rfl⟩ |
      ⟨q, hq, ⟨y, hy, rfl⟩ | rfl⟩ | ⟨o, ho, rfl⟩
    · exact cbo y
    · exact lit_input_ne_bbo
    · exact pbo y
    · show (if y = q.2 then "not" else styOf cone y) ≠ "bb_output"
      by_cases hy0 : y = q.2
      · rw [if_pos hy0]; exact lit_not_ne_bbo
      · rw [if_neg hy0]; exact cbo y
    · exact lit_xor_ne_bbo
    · exact lit_buf_ne_bbo
  · intro x hx x' hx'
    have invbi : ∀ (s0 a y : Name), a ∈ cone.fanin y → kty cone pcC (K.inv s0 a) ≠ "bb_input" := by
      intro s0 a y ha
      show (if a = s0 then "not" else styOf cone a) ≠ "bb_input"
      by_cases h0 : a = s0
      · rw [if_pos h0]; exact lit_not_ne_bbi
      · rw [if_neg h0]; exact cbi a y ha
    rcases (mem_KL cone pcC sp k x).1 hx with ⟨y, hy, rfl⟩ | ⟨s, hs', rfl⟩ | ⟨y, hy, rfl⟩ |
      ⟨q, hq, ⟨y, hy, rfl⟩ | rfl⟩ | ⟨o, ho, rfl⟩
    · simp only [kfi, List.mem_append, List.mem_map] at hx'
      rcases hx' with ⟨a, ha, rfl⟩ | hx'
      · exact cbi a y ha
      · by_cases hs : y ∈ sp
        · rw [if_pos hs, List.mem_singleton] at hx'
          subst hx'
          exact lit_input_ne_bbi
        · rw [if_neg hs] at hx'; cases hx'
    · cases hx'
    · simp only [kfi, List.mem_append, List.mem_map, List.mem_filter] at hx'
      rcases hx' with ⟨a, ha, rfl⟩ | ⟨q, _, rfl⟩
      · exact pbi a
      · exact lit_xor_ne_bbi
    · simp only [kfi, List.mem_append, List.mem_map] at hx'
      rcases hx' with ⟨a, ha, rfl⟩ | hx'
      · exact invbi q.2 a y ha
      · by_cases hs : y ∈ sp
        · rw [if_pos hs, List.mem_singleton] at hx'
          subst hx'
          exact lit_input_ne_bbi
        · rw [if_neg hs] at hx'; cases hx'
    · simp only [kfi, List.mem_cons, List.not_mem_nil, or_false] at hx'
      rcases hx' with rfl | rfl
      · exact nbi
      · show (if n = q.2 then "not" else styOf cone n) ≠ "bb_input"
        by_cases h0 : n = q.2
        · rw [if_pos h0]; exact lit_not_ne_bbi
        · rw [if_neg h0]; exact nbi
    · simp only [kfi, List.mem_singleton] at hx'
      subst hx'
      exact pbi _

end clean

end LintProd
end CG
