/- C13 helper: the half adder and the full adder as concrete circuits -/
import CG.Logic
import CG.Spec
import CG.Proofs.Limit
namespace CG
namespace Arith
open Logic Circuit

def b2n (b : Bool) : Nat := if b then 1 else 0

def HA : Circuit :=
  { name := "half_adder",
    nodes := [("x", { ty := some "input", out := some false }), ("y", { ty := some "input", out := some false }),
              ("c", { ty := some "and", out := some true }), ("s", { ty := some "xor", out := some true })],
    edges := [("x", "c"), ("y", "c"), ("x", "s"), ("y", "s")] }

def FA : Circuit :=
  { name := "full_adder",
    nodes := [("x", { ty := some "input", out := some false }),
              ("y", { ty := some "input", out := some false }),
              ("cin", { ty := some "input", out := some false }),
              ("x_y_ha_x", { ty := some "buf", out := some false }),
              ("x_y_ha_y", { ty := some "buf", out := some false }),
              ("x_y_ha_c", { ty := some "and", out := some false }),
              ("x_y_ha_s", { ty := some "xor", out := some false }),
              ("cin_s_ha_x", { ty := some "buf", out := some false }),
              ("cin_s_ha_y", { ty := some "buf", out := some false }),
              ("cin_s_ha_c", { ty := some "and", out := some false }),
              ("cin_s_ha_s", { ty := some "xor", out := some false }),
              ("cout", { ty := some "or", out := some true }),
              ("s", { ty := some "buf", out := some true })],
    edges := [("x_y_ha_x", "x_y_ha_c"), ("x_y_ha_y", "x_y_ha_c"), ("x_y_ha_x", "x_y_ha_s"), ("x_y_ha_y", "x_y_ha_s"),
              ("x", "x_y_ha_x"), ("y", "x_y_ha_y"),
              ("cin_s_ha_x", "cin_s_ha_c"), ("cin_s_ha_y", "cin_s_ha_c"), ("cin_s_ha_x", "cin_s_ha_s"),
              ("cin_s_ha_y", "cin_s_ha_s"), ("x_y_ha_s", "cin_s_ha_x"), ("cin", "cin_s_ha_y"),
              ("x_y_ha_c", "cout"), ("cin_s_ha_c", "cout"), ("cin_s_ha_s", "s")] }

theorem ok_of_toOption {α} {e : E α} {c : α} (h : e.toOption = some c) : e = .ok c := by
  cases e with
  | error o => cases h
  | ok a => simp only [Except.toOption, Option.some.injEq] at h; rw [h]

theorem halfAdder_eq : halfAdder = .ok HA := ok_of_toOption (by decide)
theorem fullAdder_eq : fullAdder = .ok FA := ok_of_toOption (by decide)

theorem HA_wf : WF HA := ⟨by decide, by decide, by decide⟩
theorem FA_wf : WF FA := ⟨by decide, by decide, by decide⟩

theorem HA_lint : LintClean HA :=
  Limit.lintClean_of_checks HA HA_wf (by decide) (by decide) (by decide)

theorem FA_lint : LintClean FA :=
  Limit.lintClean_of_checks FA FA_wf (by decide) (by decide) (by decide)

/-- unfold the equation of one node of a concrete circuit -/
theorem node_eq {c : Circuit} {v : Val} (hv : Consistent c v) (n : Name) (t : String) (l : List Name)
    (b : Bool) (ht : c.ty? n = some t) (hf : c.fanin n = l)
    (hg : gateFn t (l.map v) = some b) : v n = b := by
  unfold Circuit.ty? at ht
  cases ha : c.attr? n with
  | none => rw [ha] at ht; cases ht
  | some a =>
    rw [ha] at ht
    apply hv (n, a) (Limit.mem_nodes_of_attr ha) t ht b
    rw [hf]
    exact hg

theorem HA_sem (v : Val) (hv : Consistent HA v) :
    v "s" = Bool.xor (v "x") (v "y") ∧ v "c" = (v "x" && v "y") := by
  have hs := node_eq hv "s" "xor" ["x", "y"] _ (by decide) (by decide) rfl
  have hc := node_eq hv "c" "and" ["x", "y"] _ (by decide) (by decide) rfl
  simp only [List.map_cons, List.map_nil, xorL, List.all_cons, List.all_nil, id, Bool.xor_false, Bool.and_true] at hs hc
  exact ⟨hs, hc⟩

theorem FA_sem (v : Val) (hv : Consistent FA v) :
    b2n (v "s") + 2 * b2n (v "cout") = b2n (v "x") + b2n (v "y") + b2n (v "cin") := by
  have h1 := node_eq hv "x_y_ha_x" "buf" ["x"] _ (by decide) (by decide) rfl
  have h2 := node_eq hv "x_y_ha_y" "buf" ["y"] _ (by decide) (by decide) rfl
  have h3 := node_eq hv "x_y_ha_c" "and" ["x_y_ha_x", "x_y_ha_y"] _ (by decide) (by decide) rfl
  have h4 := node_eq hv "x_y_ha_s" "xor" ["x_y_ha_x", "x_y_ha_y"] _ (by decide) (by decide) rfl
  have h5 := node_eq hv "cin_s_ha_x" "buf" ["x_y_ha_s"] _ (by decide) (by decide) rfl
  have h6 := node_eq hv "cin_s_ha_y" "buf" ["cin"] _ (by decide) (by decide) rfl
  have h7 := node_eq hv "cin_s_ha_c" "and" ["cin_s_ha_x", "cin_s_ha_y"] _ (by decide) (by decide) rfl
  have h8 := node_eq hv "cin_s_ha_s" "xor" ["cin_s_ha_x", "cin_s_ha_y"] _ (by decide) (by decide) rfl
  have h9 := node_eq hv "cout" "or" ["x_y_ha_c", "cin_s_ha_c"] _ (by decide) (by decide) rfl
  have h10 := node_eq hv "s" "buf" ["cin_s_ha_s"] _ (by decide) (by decide) rfl
  simp only [List.map_cons, List.map_nil, xorL, List.all_cons, List.all_nil, List.any_cons, List.any_nil, id,
    Bool.xor_false, Bool.and_true, Bool.or_false] at h1 h2 h3 h4 h5 h6 h7 h8 h9 h10
  rw [h10, h9, h8, h7, h6, h5, h4, h3, h2, h1]
  cases v "x" <;> cases v "y" <;> cases v "cin" <;> decide

end Arith
end CG
