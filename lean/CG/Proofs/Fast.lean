/-
  CG.Proofs.Fast — helper lemmas for C14 (fast vs full Verilog parser); import hub.
  FastDefs: mirror of C14's vocabulary + the specification circuit; FastFacts: facts about the restricted subset;
  FastAsm, FastAsmA–D: the fast reader builds the specification circuit; FastFull, FastFullA–C: so does the full
  reader's transformer;
  FastMain: two realisations agree up to the names of the constant nodes, inputs/outputs/valuations/lint.
-/
import CG.FastVerilog
import CG.Verilog
import CG.Spec
import CG.Proofs.FastDefs
import CG.Proofs.FastFacts
import CG.Proofs.FastAsm
import CG.Proofs.FastFull
import CG.Proofs.FastMain
