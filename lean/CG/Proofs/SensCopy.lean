/- helper lemmas for C11: one inverted copy of `sensitivity_transform` (`senCopy`) and the fold over the startpoints -/
import CG.Proofs.SensBuild
set_option linter.unusedSimpArgs false
set_option linter.unusedVariables false
namespace CG
namespace Sens
open Circuit Miter
open Tx (addC)

/-! ### the wiring loop of one copy -/

def invStep (s0 : Name) (acc : Circuit) (s1 : Name) : E Circuit :=
  if s0 != s1 then liftO (acc.connect [s1] ["inv_" ++ s0 ++ "_" ++ s1])
  else liftO (acc.setType ["inv_" ++ s0 ++ "_" ++ s1] "not") >>= fun a =>
       liftO (a.connect [s0] ["inv_" ++ s0 ++ "_" ++ s1])

theorem connect_single_edges {A B : Circuit} {u x : Name} (h : A.connect [u] [x] = (B, .ok)) (e : Name × Name) :
    e ∈ B.edges ↔ e ∈ A.edges ∨ e = (u, x) := by
  rw [(connect_ok h).2.2.2.2.1 e]
  simp only [List.mem_singleton]
  constructor
  · rintro (h0 | ⟨h1, h2⟩)
    · exact Or.inl h0
    · exact Or.inr (Prod.ext h1 h2)
  · rintro (h0 | h0)
    · exact Or.inl h0
    · rw [h0]; exact Or.inr ⟨rfl, rfl⟩

theorem invFold (s0 : Name) : ∀ (F : List Name) (A B : Circuit), F.foldlM (invStep s0) A = .ok B → WF A →
    WF B ∧ B.nodeNames = A.nodeNames ∧
    (∀ e, e ∈ B.edges ↔ e ∈ A.edges ∨ ∃ s1 ∈ F, e = (s1, pref ("inv_" ++ s0) s1)) ∧
    (∀ x, x ≠ pref ("inv_" ++ s0) s0 → B.ty? x = A.ty? x) ∧
    (s0 ∈ F → B.ty? (pref ("inv_" ++ s0) s0) = some "not") ∧
    (s0 ∉ F → B.ty? (pref ("inv_" ++ s0) s0) = A.ty? (pref ("inv_" ++ s0) s0)) := by
  intro F
  induction F with
  | nil =>
    intro A B h hA
    simp only [List.foldlM_nil] at h
    injection h with h
    subst h
    exact ⟨hA, rfl, fun e => by simp, fun _ _ => rfl, fun h => (by cases h), fun _ => rfl⟩
  | cons s1 F ih =>
    intro A B h hA
    rw [List.foldlM_cons] at h
    obtain ⟨A1, h1, h2⟩ := bind_ok h
    by_cases hs : s0 = s1
    · subst hs
      have hne : (s0 != s0) = false := by simp
      unfold invStep at h1
      rw [hne] at h1
      simp only [Bool.false_eq_true, if_false] at h1
      obtain ⟨A0, h0, h1⟩ := bind_ok h1
      obtain ⟨hhas, e0⟩ := AU.setType_ok (liftO_ok h0)
      subst e0
      have h1 := liftO_ok h1
      have wf0 : WF (A.setTyRaw ("inv_" ++ s0 ++ "_" ++ s0) "not") := AU.wf_setTyRaw _ _ hA
      obtain ⟨b1, b2, b3, b4, b5, b6⟩ := ih A1 B h2 (AU.wf_connect h1 wf0)
      have hn1 : A1.nodes = (A.setTyRaw ("inv_" ++ s0 ++ "_" ++ s0) "not").nodes := (connect_ok h1).1
      have ty1 : ∀ x, A1.ty? x = if x = pref ("inv_" ++ s0) s0 then some "not" else A.ty? x := by
        intro x
        rw [ty?_congr hn1, setTyRaw_ty?]
        by_cases hx : x = pref ("inv_" ++ s0) s0
        · rw [if_pos hx, if_pos ⟨hx, hhas⟩]
        · rw [if_neg hx, if_neg (fun hc => hx hc.1)]
      refine ⟨b1, ?_, ?_, ?_, ?_, ?_⟩
      · rw [b2, nodeNames_congr hn1, setTyRaw_nodeNames]
      · intro e
        rw [b3, connect_single_edges h1]
        show (e ∈ A.edges ∨ _) ∨ _ ↔ _
        constructor
        · rintro ((h0 | h0) | ⟨s, hs, h0⟩)
          · exact Or.inl h0
          · exact Or.inr ⟨s0, by simp, h0⟩
          · exact Or.inr ⟨s, by simp [hs], h0⟩
        · rintro (h0 | ⟨s, hs, h0⟩)
          · exact Or.inl (Or.inl h0)
          · rcases List.mem_cons.1 hs with rfl | hs
            · exact Or.inl (Or.inr h0)
            · exact Or.inr ⟨s, hs, h0⟩
      · intro x hx
        rw [b4 x hx, ty1, if_neg hx]
      · intro _
        by_cases hF : s0 ∈ F
        · exact b5 hF
        · rw [b6 hF, ty1, if_pos rfl]
      · intro hF
        exact absurd (List.mem_cons_self) hF
    · have hne : (s0 != s1) = true := by simpa using hs
      unfold invStep at h1
      rw [hne] at h1
      simp only [if_true] at h1
      have h1 := liftO_ok h1
      obtain ⟨b1, b2, b3, b4, b5, b6⟩ := ih A1 B h2 (AU.wf_connect h1 hA)
      have hn1 : A1.nodes = A.nodes := (connect_ok h1).1
      refine ⟨b1, by rw [b2, nodeNames_congr hn1], ?_, ?_, ?_, ?_⟩
      · intro e
        rw [b3, connect_single_edges h1]
        constructor
        · rintro ((h0 | h0) | ⟨s, hs, h0⟩)
          · exact Or.inl h0
          · exact Or.inr ⟨s1, by simp, h0⟩
          · exact Or.inr ⟨s, by simp [hs], h0⟩
        · rintro (h0 | ⟨s, hs, h0⟩)
          · exact Or.inl (Or.inl h0)
          · rcases List.mem_cons.1 hs with rfl | hs
            · exact Or.inl (Or.inr h0)
            · exact Or.inr ⟨s, hs, h0⟩
      · intro x hx
        rw [b4 x hx, ty?_congr hn1]
      · intro hF
        rcases List.mem_cons.1 hF with h0 | h0
        · exact absurd h0 hs
        · exact b5 h0
      · intro hF
        rw [b6 (fun h0 => hF (List.mem_cons_of_mem _ h0)), ty?_congr hn1]

/-! ### one copy -/

def difA (n s0 : Name) (i : Nat) : AddArgs :=
  { n := "dif_out_" ++ s0, ty := "xor", fanin := ["orig_" ++ n, "inv_" ++ s0 ++ "_" ++ n],
    fanout := ["pc_in_" ++ toString i], output := true }

theorem plain_difA (n s0 : Name) (i : Nat) : Plain (difA n s0 i) := by
  refine ⟨rfl, rfl, rfl, by simp [difA], ?_, ?_⟩
  · simp only [difA, List.nodup_cons, List.mem_singleton, List.not_mem_nil, not_false_eq_true, List.nodup_nil,
      and_true]
    name_ne
  · simp only [difA, List.mem_cons, List.not_mem_nil, or_false, not_or]
    constructor <;> name_ne

theorem senCopy_unfold {cone : Circuit} {sp : List Name} {n : Name} {A B : Circuit} {i : Nat} {s0 : Name}
    (h : Tx.senCopy cone sp n A (i, s0) = .ok B) :
    ∃ A1 A2, A.addSubcircuit cone ("inv_" ++ s0) [] = (A1, .ok) ∧ sp.foldlM (invStep s0) A1 = .ok A2 ∧
      addC A2 (difA n s0 i) = .ok B := by
  unfold Tx.senCopy at h
  simp only [] at h
  obtain ⟨A1, h1, h⟩ := bind_ok h
  obtain ⟨A2, h2, h3⟩ := bind_ok h
  exact ⟨A1, A2, liftO_ok h1, h2, h3⟩

/-- what one inverted copy adds to the circuit -/
structure CopyRes (cone : Circuit) (sp : List Name) (n : Name) (A B : Circuit) (i : Nat) (s0 : Name) : Prop where
  wf : WF B
  names : B.nodeNames = A.nodeNames ++ (cone.nodeNames.map (pref ("inv_" ++ s0)) ++ ["dif_out_" ++ s0])
  edges : ∀ e, e ∈ B.edges ↔ e ∈ A.edges ∨
    (∃ e0 ∈ cone.edges, e = (pref ("inv_" ++ s0) e0.1, pref ("inv_" ++ s0) e0.2)) ∨
    (∃ s1 ∈ sp, e = (s1, pref ("inv_" ++ s0) s1)) ∨ e = ("dif_out_" ++ s0, pref "pc" ("in_" ++ toString i)) ∨
    e = (pref "orig" n, "dif_out_" ++ s0) ∨ e = (pref ("inv_" ++ s0) n, "dif_out_" ++ s0)
  tyOld : ∀ x, A.has x = true → B.ty? x = A.ty? x
  tyCopy : ∀ p ∈ cone.nodes, B.ty? (pref ("inv_" ++ s0) p.1) =
    if p.1 = s0 ∧ s0 ∈ sp then some "not" else (stripA p.2).ty
  tyDif : B.ty? ("dif_out_" ++ s0) = some "xor"

theorem copyRes_of {cone : Circuit} {sp : List Name} {n : Name} {A B : Circuit} {i : Nat} {s0 : Name}
    (hA : WF A) (hcone : WF cone) (hs0 : cone.has s0 = true)
    (h : Tx.senCopy cone sp n A (i, s0) = .ok B) : CopyRes cone sp n A B i s0 := by
  obtain ⟨A1, A2, h1, h2, h3⟩ := senCopy_unfold h
  obtain ⟨n1, e1, _, w1⟩ := sub_exact hA hcone h1
  obtain ⟨w2, nm2, ed2, ty2, ty2a, ty2b⟩ := invFold s0 sp A1 A2 h2 w1
  have K := addOK_of w2 (plain_difA n s0 i) h3
  have nm1 : A1.nodeNames = A.nodeNames ++ cone.nodeNames.map (pref ("inv_" ++ s0)) := by
    rw [names_append n1]
    congr 1
    simp [nodesOf, Circuit.nodeNames, List.map_map, Function.comp_def]
  have hnd1 : (A.nodeNames ++ cone.nodeNames.map (pref ("inv_" ++ s0))).Nodup := by
    rw [← nm1]; exact w1.nodup
  have htgt : pref ("inv_" ++ s0) s0 ∈ cone.nodeNames.map (pref ("inv_" ++ s0)) :=
    List.mem_map.2 ⟨s0, (has_iff_mem _ _).1 hs0, rfl⟩
  have hA2has : ∀ x, A1.has x = true → A2.has x = true := by
    intro x hx
    rw [has_iff_mem, nm2, ← has_iff_mem]; exact hx
  have hA1has : ∀ x, A.has x = true → A1.has x = true := by
    intro x hx
    rw [has_iff_mem, nm1]
    exact List.mem_append.2 (Or.inl ((has_iff_mem _ _).1 hx))
  refine ⟨K.wf, ?_, ?_, ?_, ?_, ?_⟩
  · rw [names_append K.nodes, nm2, nm1, List.append_assoc]
    rfl
  · intro e
    rw [K.edges, List.mem_append, ed2, e1, List.mem_append]
    have hnew : e ∈ newEdges (difA n s0 i) ↔ e = ("dif_out_" ++ s0, pref "pc" ("in_" ++ toString i)) ∨
        e = (pref "orig" n, "dif_out_" ++ s0) ∨ e = (pref ("inv_" ++ s0) n, "dif_out_" ++ s0) := by
      rw [← pc_in, pref_orig]
      simp [newEdges, difA, pref]
    rw [hnew]
    have hcopy : e ∈ edgesOf cone ("inv_" ++ s0) ↔
        ∃ e0 ∈ cone.edges, e = (pref ("inv_" ++ s0) e0.1, pref ("inv_" ++ s0) e0.2) := by
      unfold edgesOf
      rw [List.mem_map]
      constructor
      · rintro ⟨e0, h0, rfl⟩; exact ⟨e0, h0, rfl⟩
      · rintro ⟨e0, h0, rfl⟩; exact ⟨e0, h0, rfl⟩
    rw [hcopy]
    constructor
    · rintro (((h0 | h0) | h0) | h0)
      · exact Or.inl h0
      · exact Or.inr (Or.inl h0)
      · exact Or.inr (Or.inr (Or.inl h0))
      · exact Or.inr (Or.inr (Or.inr h0))
    · rintro (h0 | h0 | h0 | h0)
      · exact Or.inl (Or.inl (Or.inl h0))
      · exact Or.inl (Or.inl (Or.inr h0))
      · exact Or.inl (Or.inr h0)
      · exact Or.inr h0
  · intro x hx
    have hne : x ≠ pref ("inv_" ++ s0) s0 := by
      intro e
      exact not_mem_right_of_nodup hnd1 ((has_iff_mem _ _).1 hx) (e ▸ htgt)
    rw [Limit.ext_ty_old K.nodes (hA2has x (hA1has x hx)), ty2 x hne]
    exact Arith.ty?_append_left n1 hx
  · intro p hp
    have hm : (pref ("inv_" ++ s0) p.1, stripA p.2) ∈ A1.nodes := by
      rw [n1]
      exact List.mem_append.2 (Or.inr (List.mem_map.2 ⟨p, hp, rfl⟩))
    have hty1 : A1.ty? (pref ("inv_" ++ s0) p.1) = (stripA p.2).ty := by
      rw [ty?, attr?_of_mem w1.nodup hm]
      rfl
    rw [Limit.ext_ty_old K.nodes (hA2has _ (has_of_mem hm))]
    by_cases hp0 : p.1 = s0
    · by_cases hsp : s0 ∈ sp
      · rw [if_pos ⟨hp0, hsp⟩, hp0]
        exact ty2a hsp
      · rw [if_neg (fun hc => hsp hc.2), hp0, ty2b hsp]
        rw [hp0] at hty1
        exact hty1
    · rw [if_neg (fun hc => hp0 hc.1), ty2 _ (fun e => hp0 (pref_inj _ e))]
      exact hty1
  · exact Limit.ext_ty_new K.nodes K.fresh

/-! ### all the copies -/

def copyNames (cone : Circuit) (q : Nat × Name) : List Name :=
  cone.nodeNames.map (pref ("inv_" ++ q.2)) ++ ["dif_out_" ++ q.2]

def CopyEdge (cone : Circuit) (sp : List Name) (n : Name) (q : Nat × Name) (e : Name × Name) : Prop :=
  (∃ e0 ∈ cone.edges, e = (pref ("inv_" ++ q.2) e0.1, pref ("inv_" ++ q.2) e0.2)) ∨
  (∃ s1 ∈ sp, e = (s1, pref ("inv_" ++ q.2) s1)) ∨ e = ("dif_out_" ++ q.2, pref "pc" ("in_" ++ toString q.1)) ∨
  e = (pref "orig" n, "dif_out_" ++ q.2) ∨ e = (pref ("inv_" ++ q.2) n, "dif_out_" ++ q.2)

theorem copiesFold {cone : Circuit} {sp : List Name} {n : Name} (hcone : WF cone) :
    ∀ (L : List (Nat × Name)) (A B : Circuit), L.foldlM (Tx.senCopy cone sp n) A = .ok B → WF A →
    (∀ q ∈ L, cone.has q.2 = true) →
    WF B ∧ B.nodeNames = A.nodeNames ++ L.flatMap (copyNames cone) ∧
    (∀ e, e ∈ B.edges ↔ e ∈ A.edges ∨ ∃ q ∈ L, CopyEdge cone sp n q e) ∧
    (∀ x, A.has x = true → B.ty? x = A.ty? x) ∧
    (∀ q ∈ L, (∀ p ∈ cone.nodes, B.ty? (pref ("inv_" ++ q.2) p.1) =
        if p.1 = q.2 ∧ q.2 ∈ sp then some "not" else (stripA p.2).ty) ∧
      B.ty? ("dif_out_" ++ q.2) = some "xor") := by
  intro L
  induction L with
  | nil =>
    intro A B h hA _
    simp only [List.foldlM_nil] at h
    injection h with h
    subst h
    exact ⟨hA, by simp, fun e => by simp, fun _ _ => rfl, fun q hq => by cases hq⟩
  | cons q L ih =>
    intro A B h hA hL
    obtain ⟨A1, h1, h2⟩ := foldlM_cons_ok h
    obtain ⟨i, s0⟩ := q
    have R := copyRes_of hA hcone (hL (i, s0) (by simp)) h1
    obtain ⟨b1, b2, b3, b4, b5⟩ := ih A1 B h2 R.wf (fun q hq => hL q (List.mem_cons_of_mem _ hq))
    have hmono : ∀ x, A.has x = true → A1.has x = true := by
      intro x hx
      rw [has_iff_mem, R.names]
      exact List.mem_append.2 (Or.inl ((has_iff_mem _ _).1 hx))
    refine ⟨b1, ?_, ?_, ?_, ?_⟩
    · rw [b2, R.names, List.flatMap_cons, List.append_assoc]
      rfl
    · intro e
      rw [b3, R.edges]
      constructor
      · rintro (h0 | ⟨q, hq, h0⟩)
        · rcases h0 with h0 | h0
          · exact Or.inl h0
          · exact Or.inr ⟨(i, s0), by simp, h0⟩
        · exact Or.inr ⟨q, List.mem_cons_of_mem _ hq, h0⟩
      · rintro (h0 | ⟨q, hq, h0⟩)
        · exact Or.inl (Or.inl h0)
        · rcases List.mem_cons.1 hq with rfl | hq
          · exact Or.inl (Or.inr h0)
          · exact Or.inr ⟨q, hq, h0⟩
    · intro x hx
      rw [b4 x (hmono x hx), R.tyOld x hx]
    · intro q hq
      rcases List.mem_cons.1 hq with rfl | hq
      · refine ⟨?_, ?_⟩
        · intro p hp
          have hhas : A1.has (pref ("inv_" ++ s0) p.1) = true := by
            rw [has_iff_mem, R.names]
            apply List.mem_append.2 (Or.inr (List.mem_append.2 (Or.inl ?_)))
            exact List.mem_map.2 ⟨p.1, List.mem_map.2 ⟨p, hp, rfl⟩, rfl⟩
          rw [b4 _ hhas]
          exact R.tyCopy p hp
        · have hhas : A1.has ("dif_out_" ++ s0) = true := by
            rw [has_iff_mem, R.names]
            exact List.mem_append.2 (Or.inr (List.mem_append.2 (Or.inr (by simp))))
          rw [b4 _ hhas]
          exact R.tyDif
      · exact b5 q hq

end Sens
end CG
