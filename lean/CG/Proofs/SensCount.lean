/- helper lemmas for C11: the `sen_out` bits of the sensitivity circuit count the set `dif_out` bits -/
import CG.Proofs.SensRead
set_option linter.unusedSimpArgs false
set_option linter.unusedVariables false
namespace CG
namespace Sens
open Circuit Miter Arith Logic

theorem sumBits_trunc (g : Nat → Bool) (k : Nat) : ∀ m, k ≤ m → sumBits g m < 2 ^ k → sumBits g m = sumBits g k := by
  intro m
  induction m with
  | zero =>
    intro hk _
    have : k = 0 := by omega
    rw [this]
  | succ m ih =>
    intro hk hlt
    by_cases hkm : k = m + 1
    · rw [hkm]
    · have hk' : k ≤ m := by omega
      rw [sumBits_succ] at hlt ⊢
      have hp : 2 ^ k ≤ 2 ^ m := Nat.pow_le_pow_right (by decide) hk'
      have hb : b2n (g m) = 0 := by
        cases hg : g m with
        | false => rfl
        | true =>
          rw [hg] at hlt
          have : b2n true = 1 := rfl
          rw [this, Nat.one_mul] at hlt
          omega
      rw [hb, Nat.zero_mul, Nat.add_zero] at hlt ⊢
      exact ih hk' hlt

theorem map_getD_range (l : List Name) : (List.range l.length).map (fun i => l.getD i "") = l := by
  apply List.ext_getElem
  · simp
  · intro i h1 h2
    simp [List.getD_eq_getElem?_getD, List.getElem?_eq_getElem h2]

theorem filter_range_getD (l : List Name) (f : Name → Bool) :
    ((List.range l.length).filter (fun i => f (l.getD i ""))).length = (l.filter f).length := by
  have h : (l.filter f) = ((List.range l.length).filter (fun i => f (l.getD i ""))).map (fun i => l.getD i "") := by
    have := List.filter_map (f := fun i => l.getD i "") (p := f) (l := List.range l.length)
    rw [map_getD_range] at this
    exact this
  rw [h, List.length_map]

section count
variable {cone pcC : Circuit} {sp : List Name} {n : Name} {k m : Nat} {sen : Circuit}

/-- the count encoded on the `sen_out` bits -/
theorem read_count (H : SenHyp cone pcC sp n k) (V : SV cone pcC sp n k sen) (S : PopSpec sp.length pcC m)
    (hkm : k ≤ m) (hk : sp.length + 1 ≤ 2 ^ k) {v : Val} (hv : Consistent sen v) :
    Arith.bitsVal v "sen_out_" k = (sp.filter (fun s => v ("dif_out_" ++ s))).length := by
  have hpc := read_pc_gate H V hv
  have h1 := S.sem _ hpc
  have h2 : onesCount (fun x => v (pref "pc" x)) sp.length = (sp.filter (fun s => v ("dif_out_" ++ s))).length := by
    unfold onesCount
    rw [← filter_range_getD sp (fun s => v ("dif_out_" ++ s))]
    congr 1
    apply List.filter_congr
    intro i hi
    exact read_pc_in H V hv (List.mem_range.1 hi)
  have h3 : (sp.filter (fun s => v ("dif_out_" ++ s))).length ≤ sp.length := List.length_filter_le _ _
  rw [bitsVal_eq_sumBits] at h1 ⊢
  have h4 : sumBits (fun j => v ("sen_out_" ++ toString j)) k =
      sumBits (fun j => v (pref "pc" ("out_" ++ toString j))) k := by
    apply sumBits_congr
    intro j hj
    exact read_out H V hv hj
  rw [h4, ← sumBits_trunc _ k m hkm (by rw [h1, h2]; omega), h1, h2]

end count

end Sens
end CG
