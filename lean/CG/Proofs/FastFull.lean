/- C14 helper: the full reader's transformer builds the specification circuit (constant nodes `tie_0`, `tie_1`) -/
import CG.Proofs.FastFullC
namespace CG
namespace FV
open Verilog FastVerilog Circuit Ternary

theorem uses_plain {bbs : List BBox} {s : RStmt} (hok : s.OK bbs) {n : Name} (h : n ∈ s.uses bbs) : Plain n := by
  cases s with
  | gate ty inst out ops => exact hok.2.2.2.2.2 n h
  | assign l r => exact hok.2 n h
  | bb ty inst pins =>
    obtain ⟨_, _, d, hd, _, _, _, _, hpo⟩ := hok
    simp only [RStmt.uses, hd] at h
    obtain ⟨⟨p, o⟩, hp, hx⟩ := List.mem_flatMap.1 h
    by_cases hc : d.ins.contains p = true
    · rw [if_pos hc] at hx
      cases o with
      | none => simp at hx
      | some o => exact (hpo _ hp o rfl).1 n (by simpa using hx)
    · rw [if_neg hc] at hx; cases hx

/-! ### one statement, the statement list -/

section
variable {Def : Name → String → Prop} {E : Name × Name → Prop} {B : Name × BBox → Prop} {U : Name → Prop}

theorem stmt_step {bbs : List BBox} {ord : Ord} (hord : OrdOK ord) {st : TState} (dcl : Decls)
    (h : FI Def E B U st.c) (hg : st.gateExprs = []) (s : RStmt) (hok : s.OK bbs)
    (hnew : ∀ n t t', s.dty bbs n t → ¬ Def n t')
    (hregnew : ∀ i ∈ s.instName, ∀ d, ¬ B (i, d))
    (hU : ∀ n b, s.edge bbs (.net n) b → Plain n → U n) (hdefs : (s.defs bbs).Nodup) :
    ∃ st', doItem bbs ord (st, dcl) s.item = .ok (st', dcl) ∧ st'.gateExprs = [] ∧ st'.c.name = st.c.name ∧
      FI (fun x t => Def x t ∨ s.dty bbs x t)
         (fun e => E e ∨ ∃ a b, s.edge bbs a b ∧ e = (a.nm "tie_0" "tie_1", b))
         (fun q => B q ∨ s.reg bbs q) U st'.c := by
  cases s with
  | gate ty inst out ops =>
    refine gate_step dcl h hg ty inst out ops hok (fun t => hnew out ty t ⟨rfl, rfl⟩) (fun n hn => ?_)
    refine hU n out ⟨hn, rfl⟩ (hok.2.2.2.2.2 n ?_)
    rcases mem_parityOps hn with hm | hm
    · exact List.mem_flatMap.2 ⟨_, hm, by simp [ROp.nets]⟩
    · cases hm
  | assign l r =>
    refine assign_step dcl h hg l r hok (fun t => hnew l "buf" t ⟨rfl, rfl⟩) (fun n hn => ?_)
    cases r with
    | net m =>
      simp only [ROp.nets, List.mem_singleton] at hn
      subst hn
      exact hU n l ⟨rfl, rfl⟩ (hok.2 n (by simp [ROp.nets]))
    | c0 => simp [ROp.nets] at hn
    | c1 => simp [ROp.nets] at hn
  | bb ty inst pins =>
    exact bb_step hord dcl h hg ty inst pins hok hnew (hregnew inst (by simp [RStmt.instName])) hU hdefs

end

theorem reg_inst {bbs : List BBox} {s : RStmt} {q : Name × BBox} (h : s.reg bbs q) : q.1 ∈ s.instName := by
  cases s with
  | gate ty inst out ops => exact h.elim
  | assign l r => exact h.elim
  | bb ty inst pins =>
    obtain ⟨d, _, rfl⟩ := h
    simp [RStmt.instName]

/-- nets that exist as auto-created buffers: plain names at which an edge of the statements read so far starts -/
def USrc (bbs : List BBox) (ss : List RStmt) (x : Name) : Prop :=
  Plain x ∧ ∃ e, EdgeOf bbs ss "tie_0" "tie_1" e ∧ e.1 = x

theorem stmts_fold {bbs : List BBox} {ord : Ord} (hord : OrdOK ord) (ins : List Name) (dcl : Decls)
    (st0 : TState) (hg0 : st0.gateExprs = [])
    (h0 : FI (DefTy bbs ins []) (EdgeOf bbs [] "tie_0" "tie_1") (RegOf bbs []) (USrc bbs []) st0.c) :
    ∀ ss : List RStmt, RL bbs ins ss →
    ∃ st', (ss.map RStmt.item).foldlM (doItem bbs ord) (st0, dcl) = .ok (st', dcl) ∧ st'.gateExprs = [] ∧
      st'.c.name = st0.c.name ∧
      FI (DefTy bbs ins ss) (EdgeOf bbs ss "tie_0" "tie_1") (RegOf bbs ss) (USrc bbs ss) st'.c := by
  intro ss
  induction ss using rev_ind with
  | h0 => intro _; exact ⟨st0, rfl, hg0, rfl, h0⟩
  | hs ss s ih =>
    intro hrl
    obtain ⟨st1, e1, g1, n1, f1'⟩ := ih hrl.init
    have f1 : FI (DefTy bbs ins ss) (EdgeOf bbs ss "tie_0" "tie_1") (RegOf bbs ss) (USrc bbs (ss ++ [s])) st1.c :=
      f1'.mono_U (fun x hx => ⟨hx.1, hx.2.imp (fun e he => ⟨edgeOf_append.2 (Or.inl he.1), he.2⟩)⟩) (fun x hx => hx.1)
    obtain ⟨st2, e2, g2, n2, f2⟩ := stmt_step hord dcl f1 g1 s hrl.last_ok
      (fun n t t' hd => hrl.fresh hd)
      (by
        rintro i hi d ⟨s', hs', hr⟩
        have h1 := reg_inst hr
        have hin := hrl.instsNodup
        rw [List.flatMap_append, List.nodup_append] at hin
        exact hin.2.2 i (List.mem_flatMap.2 ⟨s', hs', h1⟩) i (by simpa using hi) rfl)
      (fun n b hnb hp => ⟨hp, (n, b), edgeOf_append.2 (Or.inr ⟨.net n, b, hnb, rfl⟩), rfl⟩)
      (by
        have := (List.nodup_append.1 hrl.defsNodup).2.1
        rw [List.flatMap_append, List.nodup_append] at this
        simpa using this.2.1)
    refine ⟨st2, ?_, g2, by rw [n2, n1], ?_⟩
    · rw [List.map_append, List.foldlM_append, e1, Arith.bind_ok]
      simp only [List.map_cons, List.map_nil]
      rw [VR.foldlM_single]
      exact e2
    · exact f2.congr (fun x t => defTy_append) (fun e => edgeOf_append) (fun q => regOf_append)

/-! ### the declarations -/

theorem fi_tie3 (U : Name → Prop) (hU : ∀ x, U x → Plain x) :
    FI (fun _ _ => False) (fun _ => False) (fun _ => False) U VR.tie3 where
  wf := ⟨by decide, by decide, fun e he => nomatch he⟩
  tie0 := by decide
  tie1 := by decide
  tiex := by decide
  def_ := fun _ _ h => h.elim
  other := fun x hx => Or.inl (VR.tie3_has hx)
  edges := fun e => by simp [VR.tie3]
  bbs := fun q => by simp [VR.tie3]
  defName := fun _ _ h => h.elim
  defTy := fun _ _ h => h.elim
  edgeDef := fun _ h => h.elim
  uPlain := hU

theorem inputs_fold {bbs : List BBox} {ord : Ord} (U : Name → Prop) (st0 : TState) (hg0 : st0.gateExprs = [])
    (h0 : FI (fun _ _ => False) (fun _ => False) (fun _ => False) U st0.c) (io : List Name) :
    ∀ ins : List Name, ins.Nodup → (∀ i ∈ ins, Plain i) →
    ∃ st', (ins.map (fun i => Item.input [i])).foldlM (doItem bbs ord) (st0, { io := io }) =
        .ok (st', { io := io, inputs := ins }) ∧ st'.gateExprs = [] ∧ st'.c.name = st0.c.name ∧
      FI (fun x t => x ∈ ins ∧ t = "input") (fun _ => False) (fun _ => False) U st'.c := by
  intro ins
  induction ins using rev_ind with
  | h0 =>
    intro _ _
    exact ⟨st0, rfl, hg0, rfl, h0.congr (fun x t => by simp) (fun _ => Iff.rfl) (fun _ => Iff.rfl)⟩
  | hs ins i ih =>
    intro hnd hpl
    rw [List.nodup_append] at hnd
    obtain ⟨st1, e1, g1, n1, f1⟩ := ih hnd.1 (fun x hx => hpl x (by simp [hx]))
    obtain ⟨c', hadd, hname, hfi⟩ := fi_add f1 i "input" [] (hpl i (by simp))
      (by rintro t ⟨hm, _⟩; exact hnd.2.2 i hm i (by simp) rfl)
      (Or.inr rfl) (fun _ => by simp) (fun _ => rfl) (fun u hu => nomatch hu)
    refine ⟨{ st1 with c := c' }, ?_, g1, by rw [← n1]; exact hname, ?_⟩
    · rw [List.map_append, List.foldlM_append, e1, Arith.bind_ok]
      simp only [List.map_cons, List.map_nil]
      rw [VR.foldlM_single]
      show ([i].foldlM (fun st n => addNode st n "input" [] false >>= fun r => pure r.1) st1 >>= fun st =>
        pure (st, ({ io := io, inputs := ins ++ [i] } : Decls))) = _
      rw [VR.foldlM_single, VR.addNode_ok hadd]
      rfl
    · refine hfi.congr ?_ (fun e => by simp) (fun _ => Iff.rfl)
      intro x t
      rw [List.mem_append, List.mem_singleton]
      constructor
      · rintro ⟨h1 | h1, h2⟩
        · exact Or.inl ⟨h1, h2⟩
        · exact Or.inr ⟨h1, h2⟩
      · rintro (⟨h1, h2⟩ | ⟨h1, h2⟩)
        · exact ⟨Or.inl h1, h2⟩
        · exact ⟨Or.inr h1, h2⟩

/-! ### the port check, the outputs, the unused constants -/

theorem post_checks' (I O : List Name) :
    (I.any (fun i => !(I ++ O.filter (fun o => !I.contains o)).contains i)) = false ∧
    (O.any (fun o => !(I ++ O.filter (fun o => !I.contains o)).contains o)) = false ∧
    ((I ++ O.filter (fun o => !I.contains o)).any (fun v => !I.contains v && !O.contains v)) = false := by
  refine ⟨?_, ?_, ?_⟩
  · rw [List.any_eq_false]; intro x hx; simp [hx]
  · rw [List.any_eq_false]; intro x hx
    by_cases h : x ∈ I <;> simp [hx, h]
  · rw [List.any_eq_false]; intro x hx
    rcases List.mem_append.1 hx with h | h
    · simp [h]
    · simp [(List.mem_filter.1 h).1]

theorem post_ok' (m : Module) (st : TState) (I O : List Name) {c4 : Circuit}
    (h : O.foldlM (fun c o => liftO (c.setOutput [o] true)) { st.c with name := m.name } = .ok c4) :
    VR.post m (st, { io := I ++ O.filter (fun o => !I.contains o), inputs := I, outputs := O }) =
      .ok (VR.dropTie (VR.dropTie (VR.dropTie c4 "tie_0") "tie_1") "tie_x") := by
  obtain ⟨k1, k2, k3⟩ := post_checks' I O
  unfold VR.post
  simp only [k1, k2, k3, Bool.false_eq_true, if_false]
  rw [h]
  rfl

theorem tnm_c0 {a : ROp} (hv : a.Valid "tie_0" "tie_1") (h : a.nm "tie_0" "tie_1" = "tie_0") : a = .c0 :=
  nm_inj (t0 := "tie_0") (t1 := "tie_1") (by decide) hv (b := .c0) trivial h

theorem tnm_c1 {a : ROp} (hv : a.Valid "tie_0" "tie_1") (h : a.nm "tie_0" "tie_1" = "tie_1") : a = .c1 :=
  nm_inj (t0 := "tie_0") (t1 := "tie_1") (by decide) hv (b := .c1) trivial h

theorem full_spec {r : RMod} {bbs : List BBox} (h : Restricted r bbs) (ord : Ord) (hord : OrdOK ord) :
    ∃ cv, Verilog.transform r.toModule bbs ord = .ok cv ∧ Spec r bbs "tie_0" "tie_1" cv := by
  have hrl := RL.of_restricted h
  have hUp : ∀ x, USrc bbs [] x → Plain x := fun x hx => hx.1
  have hinsnd : r.inputs.Nodup := (List.nodup_append.1 h.defsNodup).1
  -- declarations
  obtain ⟨st1, e1, g1, n1, f1⟩ := inputs_fold (bbs := bbs) (ord := ord) (USrc bbs []) { c := VR.tie3 } rfl (fi_tie3 _ hUp)
    r.toModule.ports r.inputs hinsnd h.inputsPlain
  have e2 := VR.ophase (bbs := bbs) (ord' := ord) r.outputs st1 { io := r.toModule.ports, inputs := r.inputs }
  -- statements
  obtain ⟨st3, e3, g3, n3, f3⟩ := stmts_fold hord r.inputs
    { io := r.toModule.ports, inputs := r.inputs, outputs := r.outputs } st1 g1
    (f1.congr (fun x t => by simp [DefTy]) (fun e => by simp [EdgeOf]) (fun q => by simp [RegOf]))
    r.stmts hrl
  have hfold : r.toModule.items.foldlM (doItem bbs ord) ({ c := VR.tie3 }, { io := r.toModule.ports }) =
      .ok (st3, { io := r.toModule.ports, inputs := r.inputs, outputs := r.outputs }) := by
    show (r.inputs.map (fun i => Item.input [i]) ++ r.outputs.map (fun o => Item.output [o]) ++
      r.stmts.map RStmt.item).foldlM (doItem bbs ord) _ = _
    rw [List.foldlM_append, List.foldlM_append, e1, Arith.bind_ok, e2, Arith.bind_ok]
    simpa using e3
  -- every node of the final state is a constant node, defined, or a floating net created as an undriven buffer
  have hdefd : ∀ x, st3.c.has x = true → VR.isTie x ∨ (∃ t, DefTy bbs r.inputs r.stmts x t) ∨
      (st3.c.attr? x = some bufAttr ∧ Floating bbs r.inputs r.stmts x) := by
    intro x hx
    by_cases hd : ∃ t, DefTy bbs r.inputs r.stmts x t
    · exact Or.inr (Or.inl hd)
    rcases f3.other x hx with h1 | h1 | ⟨hat, hpl, e, ⟨s, hs, a, b, hab, rfl⟩, he1⟩
    · exact Or.inl h1
    · exact Or.inr (Or.inl h1)
    · have hva := edge_src_valid (h.stmts s hs) hab (t0 := "tie_0") (t1 := "tie_1") (by decide) (by decide)
      have := nm_inj (t0 := "tie_0") (t1 := "tie_1") (by decide) hva (plain_valid hpl) he1
      subst this
      exact Or.inr (Or.inr ⟨hat, ⟨s, hs, b, hab⟩, fun t ht => hd ⟨t, ht⟩⟩)
  have hfl_has : ∀ x, Floating bbs r.inputs r.stmts x → st3.c.attr? x = some bufAttr := by
    intro x hfl
    obtain ⟨s, hs, b, hb⟩ := hfl.1
    have he : (x, b) ∈ st3.c.edges := (f3.edges _).2 ⟨s, hs, .net x, b, hb, rfl⟩
    rcases hdefd x (f3.wf.closed _ he).1 with h1 | ⟨t, ht⟩ | ⟨h1, _⟩
    · exact absurd h1 (floating_plain h.stmts hfl).not_isTie
    · exact absurd ht (hfl.2 t)
    · exact h1
  -- outputs
  have houts : ∀ o ∈ r.outputs, ({ st3.c with name := r.name } : Circuit).has o = true := by
    intro o ho
    obtain ⟨t, ht⟩ := h.out_def ho
    exact f3.has_def ht
  obtain ⟨c4, e4, ed4, bb4, nm4, nn4, at4⟩ := VR.setOut_fold r.outputs { st3.c with name := r.name } houts
  have hwf4 : WF c4 := by
    refine ⟨by rw [nn4]; exact f3.wf.nodup, by rw [ed4]; exact f3.wf.edgesNodup, ?_⟩
    intro e he
    rw [ed4] at he
    obtain ⟨k1, k2⟩ := f3.wf.closed e he
    rw [has_iff_mem, has_iff_mem, nn4]
    exact ⟨(has_iff_mem _ _).1 k1, (has_iff_mem _ _).1 k2⟩
  have hedge4 : ∀ e, e ∈ c4.edges ↔ EdgeOf bbs r.stmts "tie_0" "tie_1" e := by
    intro e; rw [ed4]; exact f3.edges e
  have hnotie : ∀ e ∈ c4.edges, ¬ VR.isTie e.2 := by
    intro e he
    obtain ⟨t, ht⟩ := f3.edgeDef e ((hedge4 e).1 he)
    exact f3.defName _ t ht
  obtain ⟨wf7, ed7, bb7, nm7, at7, tk7, td7⟩ := VR.drop3 hwf4 hnotie
  refine ⟨VR.dropTie (VR.dropTie (VR.dropTie c4 "tie_0") "tie_1") "tie_x", ?_, ?_⟩
  · rw [VR.transform_eq, hfold, Arith.bind_ok]
    exact post_ok' r.toModule st3 r.inputs r.outputs e4
  -- attributes of defined nodes after marking the outputs
  have hattr4 : ∀ x t, DefTy bbs r.inputs r.stmts x t →
      c4.attr? x = some { ty := some t, out := some (decide (x ∈ r.outputs)) } := by
    intro x t hd
    rw [at4]
    show Option.map _ (st3.c.attr? x) = _
    rw [f3.def_ x t hd]
    by_cases hx : x ∈ r.outputs <;> simp [hx]
  have hfl4 : ∀ x, Floating bbs r.inputs r.stmts x → c4.attr? x = some bufAttr := by
    intro x hfl
    rw [at4]
    show Option.map _ (st3.c.attr? x) = _
    rw [hfl_has x hfl]
    have hx : x ∉ r.outputs := by
      intro ho
      obtain ⟨t, ht⟩ := h.out_def ho
      exact hfl.2 t ht
    simp [hx]
  have hout_nt : ∀ x, VR.isTie x → x ∉ r.outputs := by
    intro x hx ho
    obtain ⟨t, ht⟩ := h.out_def ho
    exact f3.defName x t ht hx
  have htie4 : ∀ x, VR.isTie x → c4.attr? x = st3.c.attr? x := by
    intro x hx
    rw [at4]
    show Option.map _ (st3.c.attr? x) = _
    cases st3.c.attr? x with
    | none => rfl
    | some a => simp [hout_nt x hx]
  -- sources of edges
  have hsrc : ∀ v T, (T, v) ∈ c4.edges → ∃ s ∈ r.stmts, ∃ a, s.edge bbs a v ∧ T = a.nm "tie_0" "tie_1" ∧
      a.Valid "tie_0" "tie_1" ∧ a.Valid "tie_x" "tie_x" := by
    intro v T he
    obtain ⟨s, hs, a, b, hab, e⟩ := (hedge4 _).1 he
    injection e with e1 e2
    subst e2
    exact ⟨s, hs, a, hab, e1, edge_src_valid (h.stmts s hs) hab (by decide) (by decide),
      edge_src_valid (h.stmts s hs) hab (by decide) (by decide)⟩
  constructor
  · rw [nm7, nm4]
  · exact wf7
  · intro n a
    unfold view
    constructor
    · intro hv
      by_cases hn : VR.isTie n
      · -- a constant node that survived
        have hkeep : ∃ v, (n, v) ∈ c4.edges := by
          apply Classical.byContradiction
          intro hno
          rw [td7 n hn (fun v hv' => hno ⟨v, hv'⟩)] at hv
          cases hv
        rw [tk7 n hn hkeep, htie4 n hn] at hv
        obtain ⟨v, hv'⟩ := hkeep
        obtain ⟨s, hs, x, hx, e, hval, hvalx⟩ := hsrc v n hv'
        rcases hn with rfl | rfl | rfl
        · rw [f3.tie0] at hv
          have := tnm_c0 hval e.symm; subst this
          right; left
          refine ⟨rfl, ?_, s, hs, v, hx⟩
          simpa using hv.symm
        · rw [f3.tie1] at hv
          have := tnm_c1 hval e.symm; subst this
          right; right; left
          refine ⟨rfl, ?_, s, hs, v, hx⟩
          simpa using hv.symm
        · exfalso
          cases x with
          | net m => exact hvalx.1 e.symm
          | c0 => revert e; decide
          | c1 => revert e; decide
      · rw [at7 n hn] at hv
        have hhas : st3.c.has n = true := by
          cases hc : c4.attr? n with
          | none => rw [hc] at hv; cases hv
          | some a4 =>
            have : c4.has n = true := has_of_attr' hc
            rw [has_iff_mem, nn4, ← has_iff_mem] at this
            exact this
        rcases hdefd n hhas with h1 | ⟨t, ht⟩ | ⟨hat, hfl⟩
        · exact absurd h1 hn
        · rw [hattr4 n t ht] at hv
          left
          exact ⟨t, ht, by simpa using hv.symm⟩
        · rw [hfl4 n hfl] at hv
          right; right; right
          exact ⟨hfl, by simpa [bufAttr] using hv.symm⟩
    · rintro (⟨t, ht, rfl⟩ | ⟨rfl, rfl, s, hs, b, hb⟩ | ⟨rfl, rfl, s, hs, b, hb⟩ | ⟨hfl, rfl⟩)
      · rw [at7 n (f3.defName n t ht), hattr4 n t ht]
        rfl
      · have he : ("tie_0", b) ∈ c4.edges := (hedge4 _).2 ⟨s, hs, .c0, b, hb, rfl⟩
        rw [tk7 _ (Or.inl rfl) ⟨b, he⟩, htie4 _ (Or.inl rfl), f3.tie0]
        rfl
      · have he : ("tie_1", b) ∈ c4.edges := (hedge4 _).2 ⟨s, hs, .c1, b, hb, rfl⟩
        rw [tk7 _ (Or.inr (Or.inl rfl)) ⟨b, he⟩, htie4 _ (Or.inr (Or.inl rfl)), f3.tie1]
        rfl
      · rw [at7 n (floating_plain h.stmts hfl).not_isTie, hfl4 n hfl]
        rfl
  · intro e; rw [ed7]; exact hedge4 e
  · intro q; rw [bb7, bb4]; exact f3.bbs q

end FV
end CG
