/- helper lemmas for C11: every valuation of the cone extends to the sensitivity circuit; `dif_out_s` is 1 exactly
   when flipping `s` flips `n` -/
import CG.Proofs.SensClean
set_option linter.unusedSimpArgs false
set_option linter.unusedVariables false
namespace CG
namespace Sens
open Circuit Miter Arith

theorem clean_of_lint {c : Circuit} (hc : LintClean c) (hx : ∀ p ∈ c.nodes, p.2.ty ≠ some "x") : C01.Clean c := by
  refine ⟨hc.nodup, ?_, ?_, ?_⟩
  · intro p hp
    obtain ⟨t, ht, hs⟩ := hc.typed p hp
    exact ⟨t, ht, hs, fun e => hx p hp (by rw [ht, e])⟩
  · intro y t hty hm
    rw [hc.single y t hty hm]
    exact Nat.le_refl 1
  · intro y t hty hm
    exact hc.multi y t hty hm

section flip
variable {cone pcC : Circuit} {sp : List Name} {n : Name} {k : Nat} {sen : Circuit}

/-- a valuation of the `orig_` copy that agrees with `u` on the startpoints agrees with `u` everywhere -/
theorem cone_unique (H : SenHyp cone pcC sp n k) (hcx : ∀ p ∈ cone.nodes, p.2.ty ≠ some "x") (hac : Acyclic cone)
    {u w : Val} (hu : Consistent cone u) (hw : Consistent cone w) (hag : ∀ s ∈ sp, w s = u s) :
    ∀ y, cone.has y = true → w y = u y := by
  apply C01.acyclic_unique cone (clean_of_lint H.lcone hcx) H.lcone.closed hac w u hw hu
  rintro y (h | h | ⟨t, ht, hm, hf⟩)
  · exact hag y (H.inpsp y ((CG.mem_inputs H.lcone.nodup y).2 h))
  · exact absurd h (H.nobbo y)
  · have := H.lcone.single y t ht hm
    rw [hf] at this
    cases this

/-- every consistent valuation of the cone is the `orig_` copy of a consistent valuation of the sensitivity circuit -/
theorem sen_complete (H : SenHyp cone pcC sp n k) (V : SV cone pcC sp n k sen)
    (hcx : ∀ p ∈ cone.nodes, p.2.ty ≠ some "x") (hac : Acyclic cone) (hpc : Acyclic pcC)
    {u : Val} (hu : Consistent cone u) :
    ∃ v, Consistent sen v ∧ ∀ y, cone.has y = true → v (pref "orig" y) = u y := by
  obtain ⟨v, hv, hfree⟩ := exists_of_acyclic V.wf (sen_acyclic H V hac hpc) u
  refine ⟨v, hv, ?_⟩
  have hin : ∀ s ∈ sp, v s = u s := by
    intro s hs
    apply hfree
    left
    exact V.tys (K.inp s) (inp_mem hs)
  have hw : Consistent cone (fun x => v (pref "orig" x)) := fun p hp t ht => read_orig_gate H V hv hp ht
  apply cone_unique H hcx hac hu hw
  intro s hs
  show v (pref "orig" s) = u s
  rw [read_orig_in H V hv hs]
  exact hin s hs

/-- `dif_out_s` is 1 exactly when some valuation of the cone with `s` flipped differs on `n` -/
theorem flips_iff (H : SenHyp cone pcC sp n k) (V : SV cone pcC sp n k sen)
    (hcx : ∀ p ∈ cone.nodes, p.2.ty ≠ some "x") (hac : Acyclic cone)
    {v u : Val} (hv : Consistent sen v) (hu : ∀ y, cone.has y = true → v (pref "orig" y) = u y)
    {s : Name} (hs : s ∈ sp) :
    (∃ w, (Consistent cone w ∧ w s = !u s ∧ ∀ i ∈ cone.inputs, i ≠ s → w i = u i) ∧ w n ≠ u n) ↔
      v ("dif_out_" ++ s) = true := by
  have hsc : ∀ i ∈ sp, cone.has i = true := fun i hi => mem_inputs_has (H.spin i hi)
  have hus : ∀ i ∈ sp, v i = u i := by
    intro i hi
    rw [← read_orig_in H V hv hi]
    exact hu i (hsc i hi)
  have hw0 : Consistent cone (fun x => v (pref ("inv_" ++ s) x)) := fun p hp t ht => read_inv_gate H V hv hs hp ht
  have hw1 : v (pref ("inv_" ++ s) s) = !u s := by rw [read_inv_self H V hv hs, hus s hs]
  have hw2 : ∀ i ∈ cone.inputs, i ≠ s → v (pref ("inv_" ++ s) i) = u i := by
    intro i hi hne
    rw [read_inv_in H V hv hs (H.inpsp i hi) hne, hus i (H.inpsp i hi)]
  rw [read_dif H V hv hs, hu n H.hn]
  constructor
  · rintro ⟨w, ⟨c1, c2, c3⟩, c4⟩
    have huniq : ∀ y, cone.has y = true → w y = v (pref ("inv_" ++ s) y) := by
      apply C01.acyclic_unique cone (clean_of_lint H.lcone hcx) H.lcone.closed hac w _ c1 hw0
      rintro y (h | h | ⟨t, ht, hm, hf⟩)
      · have hyi : y ∈ cone.inputs := (CG.mem_inputs H.lcone.nodup y).2 h
        by_cases hys : y = s
        · rw [hys, c2, hw1]
        · rw [c3 y hyi hys, hw2 y hyi hys]
      · exact absurd h (H.nobbo y)
      · have := H.lcone.single y t ht hm
        rw [hf] at this
        cases this
    rw [← huniq n H.hn, bne_iff_ne]
    exact fun e => c4 e.symm
  · intro hd
    rw [bne_iff_ne] at hd
    exact ⟨fun x => v (pref ("inv_" ++ s) x), ⟨hw0, hw1, hw2⟩, fun e => hd e.symm⟩

end flip

end Sens
end CG
