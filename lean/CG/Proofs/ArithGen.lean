/- C13 helper: generic facts about circuits built through `add` / `connect` / `add_subcircuit`:
   success conditions, structure of the result, `LintClean` = wiring discipline + every gate driven,
   and transfer of consistent valuations along embeddings -/
import CG.Logic
import CG.Spec
import CG.Props.C06
import CG.Proofs.Api
import CG.Proofs.Limit
import CG.Proofs.ArithNames
set_option linter.unusedSimpArgs false
set_option linter.unusedVariables false
namespace CG
namespace Arith
open Logic Circuit Limit
open Tx (addC)

/-! ### the E monad -/

theorem bind_ok {α β} (a : α) (f : α → E β) : (Except.ok a >>= f) = f a := rfl

theorem liftO_ok {c : Circuit} {r : Circuit × Outcome} (h : r = (c, .ok)) : liftO r = .ok c := by
  rw [h]; rfl

theorem foldlM_range_succ {α} (f : α → Nat → E α) (a : α) (n : Nat) :
    (List.range (n + 1)).foldlM f a = (List.range n).foldlM f a >>= fun s => f s n := by
  rw [List.range_succ, List.foldlM_append]
  simp only [List.foldlM_cons, List.foldlM_nil, bind_pure]

/-! ### LintClean = wiring discipline (`WS`, preserved by every API call) + every gate is driven -/

def Driven (c : Circuit) : Prop :=
  ∀ n t, c.ty? n = some t → t ∈ singleTypes ∨ t ∈ multiTypes → ∃ u, (u, n) ∈ c.edges

theorem lintClean_of_WS {c : Circuit} (h : WS c) (hd : Driven c) : LintClean c := by
  have hw := (WiredL_iff_WS c).2 h
  refine ⟨⟨hw.nodup, hw.edgesNodup, hw.closed⟩, hw.typed, ?_, ?_, ?_, hw.bbOut, hw.noBBInFanout⟩
  · intro n t ht hs
    cases hf : c.fanin n with
    | nil => rfl
    | cons u l =>
      exfalso
      have hu : (u, n) ∈ c.edges := mem_fanin.1 (by rw [hf]; simp)
      exact h.noFanin u n hu t ht hs
  · intro n t ht hs
    have h1 := hw.single n t ht (by
      simp only [singleTypes, List.mem_cons, List.not_mem_nil, or_false] at hs
      rcases hs with rfl | rfl | rfl <;> decide)
    obtain ⟨u, hu⟩ := hd n t ht (Or.inl hs)
    have := List.length_pos_of_mem (mem_fanin.2 hu)
    omega
  · intro n t ht hs
    obtain ⟨u, hu⟩ := hd n t ht (Or.inr hs)
    exact List.length_pos_of_mem (mem_fanin.2 hu)

theorem WS_of_lintClean {c : Circuit} (h : LintClean c) : WS c := by
  apply (WiredL_iff_WS c).1
  refine ⟨h.nodup, h.edgesNodup, h.closed, h.typed, ?_, ?_, h.noBBInFanout, h.bbOut⟩
  · intro e he t ht hs
    have := h.noFanin e.2 t ht hs
    have hm : e.1 ∈ c.fanin e.2 := mem_fanin.2 he
    rw [this] at hm; cases hm
  · intro n t ht hs
    have := h.single n t ht (by
      simp only [List.mem_cons, List.not_mem_nil, or_false] at hs
      rcases hs with rfl | rfl | rfl <;> decide)
    omega

theorem driven_of_lintClean {c : Circuit} (h : LintClean c) : Driven c := by
  intro n t ht hs
  have : 1 ≤ (c.fanin n).length := by
    rcases hs with hs | hs
    · rw [h.single n t ht hs]; exact Nat.le_refl 1
    · exact h.multi n t ht hs
  cases hf : c.fanin n with
  | nil => rw [hf] at this; simp at this
  | cons u l => exact ⟨u, mem_fanin.1 (by rw [hf]; simp)⟩

theorem inv_of_WS {c : Circuit} (h : WS c) (hb : c.bbs = []) : Inv' c [] :=
  ⟨h, fun p hp => by rw [hb] at hp; cases hp⟩

/-! ### connect -/

theorem connect_succeeds (c : Circuit) (us vs : List Name)
    (hus : ∀ u ∈ us, ∃ t, c.ty? u = some t ∧ t ≠ "bb_input" ∧ t ≠ "bb_output")
    (hvs : ∀ v ∈ vs, ∃ t, c.ty? v = some t ∧ t ∉ sourceTypes ∧
      (t ∈ singleTypes → (c.fanin v).length + us.length ≤ 1)) :
    ∃ c', c.connect us vs = (c', .ok) := by
  unfold connect
  split
  · exact ⟨c, rfl⟩
  · have : c.connectCheck us vs = none := by
      apply Limit.connectCheck_none
      · intro u hu; obtain ⟨t, ht, _⟩ := hus u hu; exact has_of_ty ht
      · intro v hv; obtain ⟨t, ht, _⟩ := hvs v hv; exact has_of_ty ht
      · intro v hv
        obtain ⟨t, ht, h1, h2⟩ := hvs v hv
        refine ⟨t, ht, ?_, ?_⟩
        · rw [T_connectL0]
          cases hc : ["input", "0", "1", "x", "bb_output"].contains t with
          | false => rfl
          | true => exact absurd (List.contains_iff_mem.1 hc) h1
        · intro hc
          rw [T_connectL1] at hc
          apply h2
          have := List.contains_iff_mem.1 hc
          simp only [List.mem_cons, List.not_mem_nil, or_false] at this
          rcases this with rfl | rfl | rfl <;> decide
      · intro u hu
        obtain ⟨t, ht, h1, h2⟩ := hus u hu
        refine ⟨t, ht, ?_, ?_⟩
        · rw [T_connectL2]; simp [h1]
        · rw [T_connectL3]; simp [h2]
    rw [this]
    exact ⟨_, rfl⟩

/-! ### add -/

/-- the types the generators use -/
def genTypes : List String := ["input", "0", "buf", "not", "and", "or", "xor"]

theorem add_eq_of_connects (c c2 c3 : Circuit) (n ty : String) (fi fo : List Name) (out : Bool)
    (hfresh : c.has n = false) (hok : NameOK n) (hsup : ty ∈ T.supported)
    (h0 : ¬ (1 < fi.length ∧ ty ∈ T.addL 0)) (h1 : ¬ (fi.isEmpty = false ∧ ty ∈ T.addL 1))
    (hk1 : (c.addNodeAttr n { ty := some ty, out := some out }).connect [n] fo = (c2, .ok))
    (hk2 : c2.connect fi [n] = (c3, .ok)) :
    c.add { n := n, ty := ty, fanin := fi, fanout := fo, output := out } = (c3, .ok, n) := by
  have h1' : ¬ fi = [] → ¬ ty ∈ T.addL 1 := fun hne hm => h1 ⟨by simpa using hne, hm⟩
  unfold Circuit.add
  simp [hfresh, hsup, h0, hok.1, hok.2, hk1, hk2]
  exact h1'

structure AddRes (c c' : Circuit) (n : Name) (a : Attr) (fi fo : List Name) : Prop where
  nodes : c'.nodes = c.nodes ++ [(n, a)]
  edges : ∀ e, e ∈ c'.edges ↔ e ∈ c.edges ∨ (e.1 = n ∧ e.2 ∈ fo) ∨ (e.1 ∈ fi ∧ e.2 = n)
  bbs : c'.bbs = c.bbs
  inv : Inv' c' []
  edgesNil : fi = [] → fo = [] → c'.edges = c.edges

theorem add_spec (c : Circuit) (hc : Inv' c []) (n ty : String) (fi fo : List Name) (out : Bool)
    (hfresh : c.has n = false) (hok : NameOK n) (hty : ty ∈ genTypes)
    (hsrc : ty = "input" ∨ ty = "0" → fi = [])
    (hsingle : ty = "buf" ∨ ty = "not" → fi.length ≤ 1)
    (hfi : ∀ u ∈ fi, ∃ t, c.ty? u = some t ∧ t ≠ "bb_input" ∧ t ≠ "bb_output")
    (hfo : ∀ w ∈ fo, ∃ t, c.ty? w = some t ∧ t ∈ multiTypes) :
    ∃ c', addC c { n := n, ty := ty, fanin := fi, fanout := fo, output := out } = .ok c' ∧
      addE c { n := n, ty := ty, fanin := fi, fanout := fo, output := out } = .ok (c', n) ∧
      AddRes c c' n { ty := some ty, out := some out } fi fo := by
  have hn1 := addNodeAttr_fresh (c := c) { ty := some ty, out := some out } hfresh
  have hnodes1 : (c.addNodeAttr n { ty := some ty, out := some out }).nodes =
      c.nodes ++ [(n, { ty := some ty, out := some out })] := by rw [hn1]
  have hed1 : (c.addNodeAttr n { ty := some ty, out := some out }).edges = c.edges := addNodeAttr_edges c n _
  have hty_new : (c.addNodeAttr n { ty := some ty, out := some out }).ty? n = some ty :=
    ext_ty_new hnodes1 hfresh
  have hty_old : ∀ m t, c.ty? m = some t → (c.addNodeAttr n { ty := some ty, out := some out }).ty? m = some t := by
    intro m t ht
    rw [ext_ty_old hnodes1 (has_of_ty ht)]; exact ht
  have hnb : ty ≠ "bb_input" ∧ ty ≠ "bb_output" ∧ ty ≠ "1" ∧ ty ≠ "x" := by
    simp only [genTypes, List.mem_cons, List.not_mem_nil, or_false] at hty
    rcases hty with rfl | rfl | rfl | rfl | rfl | rfl | rfl <;> decide
  -- fan-out connection
  obtain ⟨c2, hk1⟩ := connect_succeeds (c.addNodeAttr n { ty := some ty, out := some out }) [n] fo
    (by
      intro u hu
      simp only [List.mem_singleton] at hu
      subst hu
      exact ⟨ty, hty_new, hnb.1, hnb.2.1⟩)
    (by
      intro w hw
      obtain ⟨t, ht, hm⟩ := hfo w hw
      refine ⟨t, hty_old w t ht, (multi_facts hm).2.2.2.1, fun hs => absurd hs (multi_facts hm).2.2.2.2.1⟩)
  obtain ⟨a1, a2, a3, _, a5, a6, _⟩ := connect_ok hk1
  have hnotin : ∀ e ∈ c2.edges, e.2 ≠ n := by
    intro e he
    rcases (a5 e).1 he with h | ⟨h1, h2⟩
    · rw [hed1] at h
      exact (fresh_not_edge ⟨hc.1.nodup, hc.1.edgesNodup, fun e he => hc.1.closed e.1 e.2 he⟩ hfresh e h).2
    · obtain ⟨t, ht, _⟩ := hfo e.2 h2
      intro e2
      have := has_of_ty ht
      rw [e2, hfresh] at this
      cases this
  have hfan_n : c2.fanin n = [] := by
    rw [fanin_eq_faninL]
    exact faninL_nil_of hnotin
  -- fan-in connection
  have hk2 : ∃ c3, c2.connect fi [n] = (c3, .ok) := by
    by_cases hfi0 : fi = []
    · subst hfi0; exact ⟨c2, rfl⟩
    apply connect_succeeds
    · intro u hu
      obtain ⟨t, ht, h1, h2⟩ := hfi u hu
      refine ⟨t, ?_, h1, h2⟩
      rw [ty?_congr a1]
      exact hty_old u t ht
    · intro w hw
      simp only [List.mem_singleton] at hw
      subst hw
      refine ⟨ty, by rw [ty?_congr a1]; exact hty_new, ?_, ?_⟩
      · intro hs
        simp only [sourceTypes, List.mem_cons, List.not_mem_nil, or_false] at hs
        rcases hs with h | h | h | h | h
        · exact hfi0 (hsrc (Or.inl h))
        · exact hfi0 (hsrc (Or.inr h))
        · exact hnb.2.2.1 h
        · exact hnb.2.2.2 h
        · exact hnb.2.1 h
      · intro hs
        rw [hfan_n]
        simp only [singleTypes, List.mem_cons, List.not_mem_nil, or_false] at hs
        rcases hs with h | h | h
        · simpa using hsingle (Or.inl h)
        · simpa using hsingle (Or.inr h)
        · exact absurd h hnb.1
  obtain ⟨c3, hk2⟩ := hk2
  obtain ⟨b1, b2, b3, _, b5, b6, _⟩ := connect_ok hk2
  have hsup : ty ∈ T.supported := by
    rw [T_supported]
    simp only [genTypes, List.mem_cons, List.not_mem_nil, or_false] at hty
    rcases hty with rfl | rfl | rfl | rfl | rfl | rfl | rfl <;> decide
  have h0 : ¬ (1 < fi.length ∧ ty ∈ T.addL 0) := by
    rw [T_addL0]
    rintro ⟨h, hm⟩
    simp only [List.mem_cons, List.not_mem_nil, or_false] at hm
    have := hsingle hm
    omega
  have h1 : ¬ (fi.isEmpty = false ∧ ty ∈ T.addL 1) := by
    rw [T_addL1]
    rintro ⟨h, hm⟩
    simp only [List.mem_cons, List.not_mem_nil, or_false] at hm
    rcases hm with hm | hm | hm | hm
    · rw [hsrc (Or.inr hm)] at h; simp at h
    · exact hnb.2.2.1 hm
    · exact hnb.2.2.2 hm
    · rw [hsrc (Or.inl hm)] at h; simp at h
  have hadd := add_eq_of_connects c c2 c3 n ty fi fo out hfresh hok hsup h0 h1 hk1 hk2
  have hinv := add_Inv hc { n := n, ty := ty, fanin := fi, fanout := fo, output := out } ⟨rfl, rfl⟩
  rw [hadd] at hinv
  refine ⟨c3, ?_, ?_, ⟨by rw [b1, a1, hnodes1], ?_, by rw [b2, a2, addNodeAttr_bbs], hinv, ?_⟩⟩
  · unfold Tx.addC addE
    rw [hadd]; rfl
  · unfold addE
    rw [hadd]
  · intro e
    rw [b5, a5, hed1]
    simp only [List.mem_singleton]
    constructor
    · rintro ((h | h) | h)
      · exact Or.inl h
      · exact Or.inr (Or.inl h)
      · exact Or.inr (Or.inr h)
    · rintro (h | h | h)
      · exact Or.inl (Or.inl h)
      · exact Or.inl (Or.inr h)
      · exact Or.inr h
  · intro e1 e2
    subst e1; subst e2
    have q1 : c2 = c.addNodeAttr n { ty := some ty, out := some out } := by
      have : (c.addNodeAttr n { ty := some ty, out := some out }).connect [n] [] =
          (c.addNodeAttr n { ty := some ty, out := some out }, .ok) := rfl
      rw [this] at hk1
      injection hk1 with hk1 _
      exact hk1.symm
    have q2 : c3 = c2 := by
      have : c2.connect [] [n] = (c2, .ok) := rfl
      rw [this] at hk2
      injection hk2 with hk2 _
      exact hk2.symm
    rw [q2, q1, hed1]

namespace AddRes
variable {c c' : Circuit} {n : Name} {a : Attr} {fi fo : List Name}

theorem has (r : AddRes c c' n a fi fo) (m : Name) : c'.has m = true ↔ c.has m = true ∨ m = n :=
  ext_has r.nodes m

theorem ws (r : AddRes c c' n a fi fo) : WS c' := r.inv.1

theorem wf (r : AddRes c c' n a fi fo) : WF c' :=
  ⟨r.inv.1.nodup, r.inv.1.edgesNodup, fun e he => r.inv.1.closed e.1 e.2 he⟩

theorem inputs (r : AddRes c c' n a fi fo) :
    c'.inputs = c.inputs ++ (if a.ty = some "input" then [n] else []) := by
  unfold Circuit.inputs Circuit.filterType
  rw [r.nodes, List.filter_append, List.map_append]
  congr 1
  cases hty : a.ty with
  | none => simp [hty]
  | some t =>
    by_cases h : t = "input"
    · simp [hty, h]
    · simp [hty, h]

theorem outputs (r : AddRes c c' n a fi fo) :
    c'.outputs = c.outputs ++ (if a.out.getD false = true then [n] else []) := by
  unfold Circuit.outputs
  rw [r.nodes, List.filter_append, List.map_append]
  congr 1
  by_cases h : a.out.getD false = true
  · simp [h]
  · simp [h]

theorem driven (r : AddRes c c' n a fi fo) (hc : Driven c) (hcw : WF c) (hfresh : c.has n = false)
    (hn : ∀ t, a.ty = some t → t ∈ singleTypes ∨ t ∈ multiTypes → fi ≠ []) : Driven c' := by
  intro m t ht hs
  rcases ext_ty_cases r.nodes hfresh ht with ⟨hm, htm⟩ | ⟨rfl, hta⟩
  · obtain ⟨u, hu⟩ := hc m t htm hs
    exact ⟨u, (r.edges _).2 (Or.inl hu)⟩
  · have := hn t hta hs
    cases hfi : fi with
    | nil => exact absurd hfi this
    | cons u l => exact ⟨u, (r.edges _).2 (Or.inr (Or.inr ⟨by rw [hfi]; simp, rfl⟩))⟩

end AddRes

/-! ### circuits with a list of nodes appended -/

section append
variable {c c' : Circuit} {L : List (Name × Attr)}

theorem has_append (hn : c'.nodes = c.nodes ++ L) (x : Name) :
    c'.has x = true ↔ c.has x = true ∨ ∃ a, (x, a) ∈ L := by
  rw [has_iff_mem, has_iff_mem]
  unfold nodeNames
  rw [hn, List.map_append, List.mem_append]
  apply or_congr Iff.rfl
  rw [List.mem_map]
  constructor
  · rintro ⟨p, hp, rfl⟩; exact ⟨p.2, hp⟩
  · rintro ⟨a, ha⟩; exact ⟨(x, a), ha, rfl⟩

theorem ty?_append_left (hn : c'.nodes = c.nodes ++ L) {x : Name} (hx : c.has x = true) : c'.ty? x = c.ty? x := by
  obtain ⟨a, ha⟩ := attr_of_has hx
  unfold Circuit.ty? Circuit.attr? at *
  rw [hn, List.lookup_append, ha]
  rfl

theorem ty?_append_cases (hn : c'.nodes = c.nodes ++ L) (hnd : c'.nodeNames.Nodup) {x : Name} {t : String}
    (h : c'.ty? x = some t) : (c.has x = true ∧ c.ty? x = some t) ∨ ∃ a, (x, a) ∈ L ∧ a.ty = some t := by
  rcases (has_append hn x).1 (has_of_ty h) with hx | ⟨a, ha⟩
  · left; exact ⟨hx, by rw [← ty?_append_left hn hx]; exact h⟩
  · right
    refine ⟨a, ha, ?_⟩
    have hm : (x, a) ∈ c'.nodes := by rw [hn]; exact List.mem_append.2 (Or.inr ha)
    unfold Circuit.ty? at h
    rw [attr?_of_mem hnd hm] at h
    exact h

end append

/-! ### semantics along embeddings -/

theorem gate_input (l : List Bool) : gateFn "input" l = none := by
  unfold gateFn; simp

theorem gate_zero (l : List Bool) : gateFn "0" l = some false := by
  unfold gateFn; simp

theorem perm_of_mem_iff {l₁ l₂ : List Name} (h1 : l₁.Nodup) (h2 : l₂.Nodup) (h : ∀ x, x ∈ l₁ ↔ x ∈ l₂) :
    l₁.Perm l₂ := (List.perm_ext_iff_of_nodup h1 h2).2 h

/-- the value of the gate function only depends on the set of predecessors -/
theorem gate_preds {c : Circuit} (hnd : c.edges.Nodup) {n : Name} (L : List Name) (hL : L.Nodup)
    (hmem : ∀ u, (u, n) ∈ c.edges ↔ u ∈ L) (t : String) (v : Val) :
    gateFn t ((c.fanin n).map v) = gateFn t (L.map v) := by
  apply gateFn_perm_any
  apply List.Perm.map
  apply perm_of_mem_iff (fanin_nodup hnd n) hL
  intro u
  rw [mem_fanin, hmem]

theorem node_val {c : Circuit} {v : Val} (hv : Consistent c v) (hnd : c.edges.Nodup) {n : Name} {a : Attr}
    {t : String} (hn : (n, a) ∈ c.nodes) (ht : a.ty = some t) (L : List Name) (hL : L.Nodup)
    (hmem : ∀ u, (u, n) ∈ c.edges ↔ u ∈ L) {b : Bool} (hg : gateFn t (L.map v) = some b) : v n = b := by
  apply hv (n, a) hn t ht b
  rw [gate_preds hnd L hL hmem]
  exact hg

theorem buf_val {c : Circuit} {v : Val} (hv : Consistent c v) (hnd : c.edges.Nodup) {n x : Name} {a : Attr}
    (hn : (n, a) ∈ c.nodes) (ht : a.ty = some "buf") (hmem : ∀ u, (u, n) ∈ c.edges ↔ u = x) : v n = v x :=
  node_val hv hnd hn ht [x] (by simp) (by intro u; rw [hmem]; simp) rfl

theorem zero_val {c : Circuit} {v : Val} (hv : Consistent c v) {n : Name} {a : Attr}
    (hn : (n, a) ∈ c.nodes) (ht : a.ty = some "0") : v n = false :=
  hv (n, a) hn "0" ht false (gate_zero _)

/-- a copy of `sc` (under the renaming `f`) sits inside `c'`: every non-input node of `sc` is a node of `c'` of the
    same type whose predecessors are exactly the images of its predecessors.  Then consistent valuations pull back. -/
theorem consistent_embed {sc c' : Circuit} (f : Name → Name) (v : Val)
    (hsc : WF sc) (hc' : c'.edges.Nodup)
    (hinj : ∀ x y, sc.has x = true → sc.has y = true → f x = f y → x = y)
    (hnode : ∀ p ∈ sc.nodes, ∀ t, p.2.ty = some t → t ≠ "input" →
      (∃ a', (f p.1, a') ∈ c'.nodes ∧ a'.ty = some t) ∧
      (∀ u, (u, f p.1) ∈ c'.edges ↔ ∃ u0, (u0, p.1) ∈ sc.edges ∧ u = f u0))
    (hv : Consistent c' v) : Consistent sc (fun n => v (f n)) := by
  intro p hp t ht b hb
  by_cases hin : t = "input"
  · subst hin; rw [gate_input] at hb; cases hb
  obtain ⟨⟨a', ha', hta'⟩, hed⟩ := hnode p hp t ht hin
  apply node_val hv hc' ha' hta' ((sc.fanin p.1).map f)
  · apply nodup_map_of_inj (fanin_nodup hsc.edgesNodup p.1)
    intro x hx y hy e
    exact hinj x y (hsc.closed _ (mem_fanin.1 hx)).1 (hsc.closed _ (mem_fanin.1 hy)).1 e
  · intro u
    rw [hed, List.mem_map]
    constructor
    · rintro ⟨u0, h1, rfl⟩; exact ⟨u0, mem_fanin.2 h1, rfl⟩
    · rintro ⟨u0, h1, rfl⟩; exact ⟨u0, mem_fanin.1 h1, rfl⟩
  · rw [List.map_map]
    exact hb

/-- `c'` extends `c` without touching the fan-in of `c`'s gates -/
theorem consistent_sub {c c' : Circuit} (v : Val) (hc : WF c) (hc' : c'.edges.Nodup)
    (hnodes : ∀ p ∈ c.nodes, p ∈ c'.nodes)
    (hedges : ∀ p ∈ c.nodes, ∀ t, p.2.ty = some t → t ≠ "input" → ∀ u, (u, p.1) ∈ c'.edges ↔ (u, p.1) ∈ c.edges)
    (hv : Consistent c' v) : Consistent c v := by
  apply consistent_embed id v hc hc' (fun x y _ _ e => e) ?_ hv
  intro p hp t ht hne
  refine ⟨⟨p.2, hnodes p hp, ht⟩, ?_⟩
  intro u
  simp only [id]
  rw [hedges p hp t ht hne]
  constructor
  · intro h; exact ⟨u, h, rfl⟩
  · rintro ⟨u0, h, rfl⟩; exact h

/-! ### connectAll with single nets -/

theorem connectAll_singles_ok : ∀ (l : List (Name × Name)) (c : Circuit),
    (l.map (·.2)).Nodup →
    (∀ q ∈ l, (∃ t, c.ty? q.1 = some t ∧ t ≠ "bb_input" ∧ t ≠ "bb_output") ∧
        ∃ t, c.ty? q.2 = some t ∧ t ∉ sourceTypes ∧ (t ∈ singleTypes → c.fanin q.2 = [])) →
    ∃ c', c.connectAll (l.map fun q => ([q.1], [q.2])) = (c', .ok)
  | [], c, _, _ => ⟨c, rfl⟩
  | q :: l, c, hnd, h => by
    obtain ⟨hq1, t2, ht2, hs2, hf2⟩ := h q (by simp)
    obtain ⟨c1, h1⟩ := connect_succeeds c [q.1] [q.2]
      (by intro u hu; simp only [List.mem_singleton] at hu; subst hu; exact hq1)
      (by
        intro w hw; simp only [List.mem_singleton] at hw; subst hw
        exact ⟨t2, ht2, hs2, fun hs => by rw [hf2 hs]; simp⟩)
    obtain ⟨a1, _, _, _, a5, _, _⟩ := connect_ok h1
    simp only [List.map_cons, List.nodup_cons] at hnd
    obtain ⟨c', h2⟩ := connectAll_singles_ok l c1 hnd.2 (by
      intro q' hq'
      obtain ⟨⟨t, ht, hb⟩, t', ht', hs', hf'⟩ := h q' (by simp [hq'])
      refine ⟨⟨t, by rw [ty?_congr a1]; exact ht, hb⟩, t', by rw [ty?_congr a1]; exact ht', hs', ?_⟩
      intro hs
      rw [fanin_eq_faninL]
      apply faninL_nil_of
      intro e he e2
      rcases (a5 e).1 he with h0 | ⟨_, h0⟩
      · have : e.1 ∈ c.fanin q'.2 := mem_fanin.2 (by rw [← e2]; exact h0)
        rw [hf' hs] at this; cases this
      · simp only [List.mem_singleton] at h0
        apply hnd.1
        rw [← h0, e2]
        exact List.mem_map.2 ⟨q', hq', rfl⟩)
    refine ⟨c', ?_⟩
    simp only [List.map_cons]
    rw [connectAll, h1]
    exact h2

end Arith
end CG
