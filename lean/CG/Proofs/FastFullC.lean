/- C14 helper: replay of one blackbox instance statement (constants on input pins, unconnected pins) by the full reader -/
import CG.Proofs.FastFullB
namespace CG
namespace FV
open Verilog FastVerilog Circuit Ternary

/-! ### the connection list of the statement -/

abbrev tnm : ROp → Name := ROp.nm "tie_0" "tie_1"

def connsOf (pins : List (Name × Option ROp)) : List (Name × Name) :=
  pins.filterMap (fun p => p.2.map (fun o => (p.1, tnm o)))

def namedOf (pins : List (Name × Option ROp)) : List (Name × Option Expr) :=
  pins.map (fun p => (p.1, p.2.map ROp.expr))

theorem named_exprs : ∀ pins : List (Name × Option ROp),
    (namedOf pins).filterMap (·.2) = (pins.filterMap (·.2)).map ROp.expr
  | [] => rfl
  | (k, none) :: pins => by
    have ih := named_exprs pins
    simp only [namedOf, List.map_cons, List.filterMap_cons, Option.map_none] at ih ⊢
    exact ih
  | (k, some o) :: pins => by
    have ih := named_exprs pins
    simp only [namedOf, List.map_cons, List.filterMap_cons, Option.map_some] at ih ⊢
    rw [ih]

theorem named_zip : ∀ pins : List (Name × Option ROp),
    (((namedOf pins).filter (·.2.isSome)).map (·.1)).zip ((pins.filterMap (·.2)).map tnm) = connsOf pins
  | [] => rfl
  | (k, none) :: pins => by
    have ih := named_zip pins
    simp only [namedOf, connsOf, List.map_cons, List.filterMap_cons, Option.map_none, List.filter_cons,
      Option.isSome_none, Bool.false_eq_true, if_false] at ih ⊢
    exact ih
  | (k, some o) :: pins => by
    have ih := named_zip pins
    simp only [namedOf, connsOf, List.map_cons, List.filterMap_cons, Option.map_some, List.filter_cons,
      Option.isSome_some, if_true, List.zip_cons_cons] at ih ⊢
    rw [ih]

theorem mem_connsOf {pins : List (Name × Option ROp)} {k x : Name} :
    (k, x) ∈ connsOf pins ↔ ∃ o, (k, some o) ∈ pins ∧ x = tnm o := by
  unfold connsOf
  rw [List.mem_filterMap]
  constructor
  · rintro ⟨⟨k', o'⟩, hp, h⟩
    cases o' with
    | none => simp at h
    | some o =>
      simp only [Option.map_some, Option.some.injEq, Prod.mk.injEq] at h
      obtain ⟨rfl, rfl⟩ := h
      exact ⟨o, hp, rfl⟩
  · rintro ⟨o, hp, rfl⟩
    exact ⟨(k, some o), hp, rfl⟩

theorem connsOf_keys_sublist : ∀ pins : List (Name × Option ROp), ((connsOf pins).map (·.1)).Sublist (pins.map (·.1))
  | [] => List.Sublist.slnil
  | (k, none) :: pins => by
    have ih := connsOf_keys_sublist pins
    unfold connsOf at ih ⊢
    simp only [List.filterMap_cons, Option.map_none, List.map_cons]
    exact List.Sublist.cons _ ih
  | (k, some o) :: pins => by
    have ih := connsOf_keys_sublist pins
    unfold connsOf at ih ⊢
    simp only [List.filterMap_cons, Option.map_some, List.map_cons]
    exact List.Sublist.cons_cons _ ih

theorem doInstance_bb' {bbs : List BBox} {ord : Ord} (st : TState) (ty inst : Name) (d : BBox)
    (pins : List (Name × Option ROp)) (hprim : ty ∉ Expected.primitive_gates)
    (hkeys : (pins.map (·.1)).Nodup) (hfind : bbs.find? (fun b => b.name == ty) = some d) :
    doInstance bbs ord ty st (inst, Conns.named (namedOf pins)) = VR.bbTail ord (inst, d) (connsOf pins) st := by
  unfold doInstance
  have hp : T.primitive.contains ty = false := by
    rw [VR.T_primitive]
    cases hc : Expected.primitive_gates.contains ty with
    | false => rfl
    | true => exact absurd (List.contains_iff_mem.1 hc) hprim
  rw [if_neg (by rw [hp]; simp)]
  show (evalExprs st ((namedOf pins).filterMap (·.2)) >>= fun r =>
        pure (r.1, some (((namedOf pins).filter (·.2.isSome)).map (·.1) |>.zip r.2))) >>= _ = _
  rw [named_exprs, evalExprs_ops, Arith.bind_ok, pure_bind]
  simp only [hfind]
  rw [named_zip, VR.dedup_fold _ [] (by simpa using (connsOf_keys_sublist pins).nodup hkeys)]
  rfl

section
variable {E : Name × Name → Prop} {B : Name × BBox → Prop} {U : Name → Prop}

/-! ### the three loops -/

theorem loadLoop (cs : List (Name × Name)) :
    ∀ (L : List Name), L.Nodup → ∀ (Def : Name → String → Prop) (st : TState), FI Def E B U st.c →
    (∀ o ∈ L, ∀ net, cs.lookup o = some net → Plain net ∧ ∀ t, ¬ Def net t) →
    (∀ o ∈ L, ∀ o' ∈ L, ∀ net, cs.lookup o = some net → cs.lookup o' = some net → o = o') →
    ∃ st', L.foldlM (VR.loadStep cs) st = .ok st' ∧ st'.gateExprs = st.gateExprs ∧ st'.c.name = st.c.name ∧
      FI (fun x t => Def x t ∨ (t = "buf" ∧ ∃ o ∈ L, cs.lookup o = some x)) E B U st'.c
  | [], _, Def, st, h, _, _ =>
    ⟨st, rfl, rfl, rfl, h.congr (fun x t => by simp) (fun _ => Iff.rfl) (fun _ => Iff.rfl)⟩
  | o :: L, hnd, Def, st, h, hnet, hinj => by
    rw [List.nodup_cons] at hnd
    rw [List.foldlM_cons]
    unfold VR.loadStep
    cases hl : cs.lookup o with
    | none =>
      simp only []
      rw [pure_bind]
      obtain ⟨st', e, g1, g2, g3⟩ := loadLoop cs L hnd.2 Def st h
        (fun o' ho' => hnet o' (by simp [ho'])) (fun a ha b hb => hinj a (by simp [ha]) b (by simp [hb]))
      refine ⟨st', e, g1, g2, g3.congr ?_ (fun _ => Iff.rfl) (fun _ => Iff.rfl)⟩
      intro x t
      constructor
      · rintro (hd | ⟨rfl, o', ho', hl'⟩)
        · exact Or.inl hd
        · rcases List.mem_cons.1 ho' with rfl | ho'
          · rw [hl] at hl'; cases hl'
          · exact Or.inr ⟨rfl, o', ho', hl'⟩
      · rintro (hd | ⟨rfl, o', ho', hl'⟩)
        · exact Or.inl hd
        · exact Or.inr ⟨rfl, o', by simp [ho'], hl'⟩
    | some net =>
      simp only []
      obtain ⟨hpn, hnew⟩ := hnet o (by simp) net hl
      obtain ⟨c', hadd, hname, hfi⟩ := fi_add h net "buf" [] hpn hnew (Or.inl buf_gate) (fun _ => by simp)
        (fun hc => absurd hc (by decide)) (fun u hu => nomatch hu)
      rw [VR.addNode_ok hadd, Arith.bind_ok, pure_bind]
      have hfi' : FI (fun x t => Def x t ∨ (x = net ∧ t = "buf")) E B U c' :=
        hfi.congr (fun _ _ => Iff.rfl) (fun e => by simp) (fun _ => Iff.rfl)
      obtain ⟨st', e, g1, g2, g3⟩ := loadLoop cs L hnd.2 _ { st with c := c' } hfi'
        (by
          intro o' ho' net' hl'
          refine ⟨(hnet o' (by simp [ho']) net' hl').1, ?_⟩
          rintro t (hd | ⟨rfl, _⟩)
          · exact (hnet o' (by simp [ho']) net' hl').2 t hd
          · have := hinj o (by simp) o' (by simp [ho']) net' hl hl'
            exact hnd.1 (this ▸ ho'))
        (fun a ha b hb => hinj a (by simp [ha]) b (by simp [hb]))
      refine ⟨st', e, g1, by rw [g2]; exact hname, g3.congr ?_ (fun _ => Iff.rfl) (fun _ => Iff.rfl)⟩
      intro x t
      constructor
      · rintro (hd | ⟨rfl, o', ho', hl'⟩)
        · exact Or.inl (Or.inl hd)
        · rcases List.mem_cons.1 ho' with rfl | ho'
          · rw [hl] at hl'; injection hl' with hl'
            exact Or.inl (Or.inr ⟨hl'.symm, rfl⟩)
          · exact Or.inr ⟨rfl, o', ho', hl'⟩
      · rintro ((hd | ⟨rfl, rfl⟩) | ⟨rfl, o', ho', hl'⟩)
        · exact Or.inl hd
        · exact Or.inr ⟨rfl, o, by simp, hl⟩
        · exact Or.inr ⟨rfl, o', by simp [ho'], hl'⟩

theorem netLoop {Def : Name → String → Prop} :
    ∀ (l : List (Name × Name)) (c0 : Circuit), FI Def E B U c0 → (∀ p ∈ l, c0.has p.2 = true ∨ U p.2) →
    ∃ c1, l.foldlM VR.netStep c0 = .ok c1 ∧ FI Def E B U c1 ∧ (∀ p ∈ l, c1.has p.2 = true) ∧
      (∀ x, c0.has x = true → c1.has x = true) ∧ c1.name = c0.name
  | [], c0, h, _ => ⟨c0, rfl, h, fun _ hp => (nomatch hp), fun _ hx => hx, rfl⟩
  | p :: l, c0, h, hl => by
    rw [List.foldlM_cons]
    unfold VR.netStep
    by_cases hh : c0.has p.2 = true
    · rw [if_pos hh, pure_bind]
      obtain ⟨c1, e1, h1, h2, h3, h4⟩ := netLoop l c0 h (fun x hx => hl x (by simp [hx]))
      refine ⟨c1, e1, h1, ?_, h3, h4⟩
      intro x hx
      rcases List.mem_cons.1 hx with rfl | hx
      · exact h3 _ hh
      · exact h2 x hx
    · rw [if_neg hh]
      have hf : c0.has p.2 = false := by simpa using hh
      have hU : U p.2 := (hl p (by simp)).resolve_left hh
      rw [VR.addC_plain hf (h.uPlain _ hU).nameOK (by decide), Arith.bind_ok]
      have hmono : ∀ x, c0.has x = true → (c0.addNodeAttr p.2 { ty := some "buf", out := some false }).has x = true := by
        intro x hx; rw [addNodeAttr_has, hx]; rfl
      obtain ⟨c1, e1, h1, h2, h3, h4⟩ := netLoop l _ (fi_fresh h hU hf)
        (fun x hx => (hl x (by simp [hx])).imp (hmono _) id)
      refine ⟨c1, e1, h1, ?_, fun x hx => h3 x (hmono x hx), by rw [h4, addNodeAttr_name]⟩
      intro x hx
      rcases List.mem_cons.1 hx with rfl | hx
      · exact h3 _ (by rw [addNodeAttr_has]; simp)
      · exact h2 x hx

/-! ### the whole statement -/

theorem bb_step {Def : Name → String → Prop} {bbs : List BBox} {ord : Ord} (hord : OrdOK ord) {st : TState} (dcl : Decls)
    (h : FI Def E B U st.c) (hg : st.gateExprs = []) (ty inst : Name) (pins : List (Name × Option ROp))
    (hok : (RStmt.bb ty inst pins).OK bbs)
    (hnew : ∀ n t t', (RStmt.bb ty inst pins).dty bbs n t → ¬ Def n t')
    (hregnew : ∀ d, ¬ B (inst, d))
    (hU : ∀ n b, (RStmt.bb ty inst pins).edge bbs (.net n) b → Plain n → U n)
    (hdefs : ((RStmt.bb ty inst pins).defs bbs).Nodup) :
    ∃ st', doItem bbs ord (st, dcl) (RStmt.bb ty inst pins).item = .ok (st', dcl) ∧ st'.gateExprs = [] ∧
      st'.c.name = st.c.name ∧
      FI (fun x t => Def x t ∨ (RStmt.bb ty inst pins).dty bbs x t)
         (fun e => E e ∨ ∃ a b, (RStmt.bb ty inst pins).edge bbs a b ∧ e = (a.nm "tie_0" "tie_1", b))
         (fun q => B q ∨ (RStmt.bb ty inst pins).reg bbs q) U st'.c := by
  obtain ⟨hprim, hinst, d, hd, hpl, hnd, hpn, hpm, hpo⟩ := hok
  have hnd' := List.nodup_append.1 hnd
  have hdisj : ∀ g, g ∈ d.ins → g ∈ d.outs → False := fun g h1 h2 => hnd'.2.2 g h1 g h2 rfl
  let cs := connsOf pins
  have hkeys : (cs.map (·.1)).Nodup := (connsOf_keys_sublist pins).nodup hpn
  -- connections on output pins are nets this statement defines
  have hcs_out : ∀ k x, (k, x) ∈ cs → k ∈ d.outs → (k, some (ROp.net x)) ∈ pins ∧ Plain x := by
    intro k x hm hk
    obtain ⟨o, ho, rfl⟩ := mem_connsOf.1 hm
    obtain ⟨h1, h2⟩ := hpo _ ho o rfl
    obtain ⟨n, rfl⟩ := h2 hk
    exact ⟨ho, h1 n (by simp [ROp.nets])⟩
  have hdty_out : ∀ k x, (k, x) ∈ cs → k ∈ d.outs → (RStmt.bb ty inst pins).dty bbs x "buf" := by
    intro k x hm hk
    exact ⟨d, hd, Or.inl ⟨k, (hcs_out k x hm hk).1, hk, rfl⟩⟩
  have hcs_in : ∀ k x, (k, x) ∈ cs → k ∈ d.ins → x = "tie_0" ∨ x = "tie_1" ∨ U x := by
    intro k x hm hk
    obtain ⟨o, ho, rfl⟩ := mem_connsOf.1 hm
    cases o with
    | c0 => exact Or.inl rfl
    | c1 => exact Or.inr (Or.inl rfl)
    | net n =>
      exact Or.inr (Or.inr (hU n (inst ++ "." ++ k) ⟨d, hd, k, .net n, ho, Or.inl ⟨hk, rfl, rfl⟩⟩
        ((hpo _ ho _ rfl).1 n (by simp [ROp.nets]))))
  have hlk : ∀ k x, cs.lookup k = some x ↔ (k, x) ∈ cs :=
    fun k x => ⟨lookup_mem, lookup_of_mem_nodup hkeys⟩
  -- the statement
  have hitem : doItem bbs ord (st, dcl) (RStmt.bb ty inst pins).item =
      (VR.bbTail ord (inst, d) cs st >>= fun st => pure (st, dcl)) := by
    show (do let st ← [(inst, Conns.named (namedOf pins))].foldlM (doInstance bbs ord ty) st; pure (st, dcl)) = _
    rw [VR.foldlM_single, doInstance_bb' st ty inst d pins hprim hpn hd]
  rw [hitem]
  unfold VR.bbTail
  -- loop 1: the loads of the output pins
  have hperm := hord d.outs
  obtain ⟨st1, e1, g1, n1, f1⟩ := loadLoop (E := E) (B := B) (U := U) cs (ord d.outs) (hperm.nodup_iff.2 hnd'.2.1) Def st h
    (by
      intro o ho net hl
      have ho' : o ∈ d.outs := hperm.mem_iff.1 ho
      have hm := (hlk o net).1 hl
      exact ⟨(hcs_out o net hm ho').2, fun t => hnew net "buf" t (hdty_out o net hm ho')⟩)
    (by
      intro o ho o' ho' net hl hl'
      have h1 := hcs_out o net ((hlk o net).1 hl) (hperm.mem_iff.1 ho)
      have h2 := hcs_out o' net ((hlk o' net).1 hl') (hperm.mem_iff.1 ho')
      have hdefs' := hdefs
      simp only [RStmt.defs, hd] at hdefs'
      have := eq_of_mem_flatMap_nodup hdefs' h1.1 h2.1 (x := net)
        (by simp [hperm.mem_iff.1 ho, ROp.nets]) (by simp [hperm.mem_iff.1 ho', ROp.nets])
      injection this)
  rw [e1, Arith.bind_ok]
  -- loop 2: the nets on input pins
  obtain ⟨c1, e2, f2, has2, mono2, n2⟩ := netLoop cs st1.c f1
    (by
      rintro ⟨k, x⟩ hp
      obtain ⟨o0, ho0, _⟩ := mem_connsOf.1 hp
      rcases List.mem_append.1 (hpm (k, some o0) ho0) with hk | hk
      · rcases hcs_in k x hp hk with rfl | rfl | hu
        · exact Or.inl f1.has_tie0
        · exact Or.inl f1.has_tie1
        · exact Or.inr hu
      · left
        exact f1.has_def (Or.inr ⟨rfl, k, hperm.mem_iff.2 hk, (hlk k x).2 hp⟩))
  rw [e2, Arith.bind_ok]
  -- add_blackbox
  obtain ⟨c2, e3, n3, f3⟩ := fi_bb f2 d inst cs ord hord hinst hregnew hnd
    (by
      rintro g hg t (hdf | ⟨_, o, ho, hl⟩)
      · rcases List.mem_append.1 hg with hg | hg
        · exact hnew _ "bb_input" t ⟨d, hd, Or.inr (Or.inl ⟨g, hg, rfl, rfl⟩)⟩ hdf
        · exact hnew _ "bb_output" t ⟨d, hd, Or.inr (Or.inr ⟨g, hg, rfl, rfl⟩)⟩ hdf
      · exact pin_not_plain inst g (hcs_out o _ ((hlk o _).1 hl) (hperm.mem_iff.1 ho)).2)
    hkeys
    (by
      rintro ⟨k, x⟩ hp
      obtain ⟨o, ho, _⟩ := mem_connsOf.1 hp
      exact hpm _ ho)
    (by
      rintro ⟨k, x⟩ hp hk
      exact ⟨has2 _ hp, hcs_in k x hp hk⟩)
    (by
      rintro ⟨k, x⟩ hp hk
      refine ⟨Or.inr ⟨rfl, k, hperm.mem_iff.2 hk, (hlk k x).2 hp⟩, (hcs_out k x hp hk).2, ?_⟩
      intro e he hx
      obtain ⟨t, ht⟩ := h.edgeDef e he
      simp only at hx
      rw [hx] at ht
      exact hnew x "buf" t (hdty_out k x hp hk) ht)
    (by
      rintro ⟨k, x⟩ hp ⟨k', x'⟩ hp' hk hk' hx
      simp only at hx hk hk'
      subst hx
      have h1 := hcs_out k x hp hk
      have h2 := hcs_out k' x hp' hk'
      have hdefs' := hdefs
      simp only [RStmt.defs, hd] at hdefs'
      have := eq_of_mem_flatMap_nodup hdefs' h1.1 h2.1 (x := x) (by simp [hk, ROp.nets]) (by simp [hk', ROp.nets])
      injection this with this
      rw [this])
  rw [e3]
  refine ⟨{ st1 with c := c2 }, rfl, by rw [← hg]; exact g1, by rw [n3, n2, n1], ?_⟩
  refine f3.congr ?_ ?_ ?_
  · intro x t
    constructor
    · rintro (hdf | ⟨d', hd', hc⟩)
      · exact Or.inl (Or.inl hdf)
      · rw [hd] at hd'; injection hd' with hd'; subst hd'
        rcases hc with ⟨p, hp, hpo', rfl⟩ | hc | hc
        · exact Or.inl (Or.inr ⟨rfl, p, hperm.mem_iff.2 hpo', (hlk p x).2 (mem_connsOf.2 ⟨_, hp, rfl⟩)⟩)
        · exact Or.inr (Or.inl hc)
        · exact Or.inr (Or.inr hc)
    · rintro ((hdf | ⟨rfl, o, ho, hl⟩) | hc | hc)
      · exact Or.inl hdf
      · exact Or.inr (hdty_out o x ((hlk o x).1 hl) (hperm.mem_iff.1 ho))
      · exact Or.inr ⟨d, hd, Or.inr (Or.inl hc)⟩
      · exact Or.inr ⟨d, hd, Or.inr (Or.inr hc)⟩
  · intro e
    constructor
    · rintro (he | ⟨a, b, ⟨d', hd', p, o, hp, hc⟩, rfl⟩)
      · exact Or.inl he
      · rw [hd] at hd'; injection hd' with hd'; subst hd'
        right
        rcases hc with ⟨hpi, rfl, rfl⟩ | ⟨hpo', rfl, rfl⟩
        · exact ⟨(p, tnm a), mem_connsOf.2 ⟨a, hp, rfl⟩, Or.inl ⟨hpi, rfl⟩⟩
        · exact ⟨(p, b), mem_connsOf.2 ⟨_, hp, rfl⟩, Or.inr ⟨hpo', rfl⟩⟩
    · rintro (he | ⟨⟨k, x⟩, hp, ⟨hk, rfl⟩ | ⟨hk, rfl⟩⟩)
      · exact Or.inl he
      · obtain ⟨o, ho, rfl⟩ := mem_connsOf.1 hp
        exact Or.inr ⟨o, _, ⟨d, hd, k, o, ho, Or.inl ⟨hk, rfl, rfl⟩⟩, rfl⟩
      · exact Or.inr ⟨.net (inst ++ "." ++ k), x, ⟨d, hd, k, .net x, (hcs_out k x hp hk).1, Or.inr ⟨hk, rfl, rfl⟩⟩, rfl⟩
  · intro q
    constructor
    · rintro (hq | ⟨d', hd', rfl⟩)
      · exact Or.inl hq
      · rw [hd] at hd'; injection hd' with hd'; subst hd'
        exact Or.inr rfl
    · rintro (hq | rfl)
      · exact Or.inl hq
      · exact Or.inr ⟨d, hd, rfl⟩

end

end FV
end CG
