/- helper lemmas for C01 (Tseitin encoding) -/
import CG.Sat
import CG.Sem
set_option linter.unusedSimpArgs false
namespace CG
namespace Tseitin

/-! ## tables -/

theorem T_cnf : T.cnf = Expected.cnf := by decide

/-! ## Boolean list facts -/

theorem xorL_append (l₁ l₂ : List Bool) : xorL (l₁ ++ l₂) = Bool.xor (xorL l₁) (xorL l₂) := by
  induction l₁ with
  | nil => simp [xorL]
  | cons a l ih => simp [xorL, ih]

theorem xorL_perm {l₁ l₂ : List Bool} (h : l₁.Perm l₂) : xorL l₁ = xorL l₂ := by
  induction h with
  | nil => rfl
  | cons x _ ih => simp [xorL, ih]
  | swap x y l => simp only [xorL]; cases x <;> cases y <;> simp
  | trans _ _ ih₁ ih₂ => exact ih₁.trans ih₂

theorem all_perm {l₁ l₂ : List Bool} (h : l₁.Perm l₂) : l₁.all id = l₂.all id := by
  induction h with
  | nil => rfl
  | cons x _ ih => simp only [List.all_cons, ih]
  | swap x y l => simp only [List.all_cons]; cases x <;> cases y <;> simp
  | trans _ _ ih₁ ih₂ => exact ih₁.trans ih₂

theorem any_perm {l₁ l₂ : List Bool} (h : l₁.Perm l₂) : l₁.any id = l₂.any id := by
  induction h with
  | nil => rfl
  | cons x _ ih => simp only [List.any_cons, ih]
  | swap x y l => simp only [List.any_cons]; cases x <;> cases y <;> simp
  | trans _ _ ih₁ ih₂ => exact ih₁.trans ih₂

/-- the gate function does not depend on the order of the fan-in -/
theorem gateFn_perm (t : String) {l₁ l₂ : List Bool} (h : l₁.Perm l₂) : gateFn t l₁ = gateFn t l₂ := by
  have hl := h.length_eq
  have e1 := all_perm h
  have e2 := any_perm h
  have e3 := xorL_perm h
  match l₁, l₂, h, hl, e1, e2, e3 with
  | [], [], _, _, _, _, _ => rfl
  | [a], [b], h, _, _, _, _ => simp at h; subst h; rfl
  | _ :: _ :: _, _ :: _ :: _, _, _, e1, e2, e3 => unfold gateFn; rw [e1, e2, e3]
  | [], _ :: _, _, hl, _, _, _ => simp at hl
  | _ :: _, [], _, hl, _, _, _ => simp at hl
  | [_], _ :: _ :: _, _, hl, _, _, _ => simp at hl
  | _ :: _ :: _, [_], _, hl, _, _, _ => simp at hl

/-! ## satisfaction of clause lists -/

theorem cnf_sat_iff (σ : Var → Bool) (f : CNF) :
    CNF.sat σ f = true ↔ ∀ cl ∈ f, Clause.sat σ cl = true := by
  simp [CNF.sat]

theorem cnf_sat_append (σ : Var → Bool) (f g : CNF) :
    CNF.sat σ (f ++ g) = (CNF.sat σ f && CNF.sat σ g) := by
  simp [CNF.sat]

/-- the demotion of single-fan-in gates -/
def demoteTy (t0 : String) (fi : List Name) : String :=
  if fi.length == 1 then
    (match T.cnf.demote.find? (fun d => d.1.contains t0) with | some d => d.2 | none => t0)
  else t0

/-- the body of `cnfNode` once the (demoted) node type is known -/
def gateBody (t : String) (n : Name) (fi : List Name) : Except Outcome (List Clause) :=
  let fs := fi.map Var.node
  let e : TEnv := { n := .node n, f := .node n, fs := fs, a := .node n, b := .node n, c := .node n,
                    inv := .xorInv n }
  match T.cnf.gates.find? (fun g => g.1.contains t) with
  | some g => .ok (g.2.flatMap (instStmt e))
  | none =>
    if T.cnf.xorTypes.contains t then
      let (cls, nets) := xorChain fs.length fs
      if nets.length < 2 then .error .indexError else
      let a := nets[nets.length - 2]!
      let b := nets[nets.length - 1]!
      if T.cnf.xorDirect.contains t then .ok (cls ++ xorClauses a b (.node n))
      else .ok (cls ++ xorClauses a b (.xorInv n) ++ T.cnf.invClauses.map (instClause e))
    else .error .valueError

def nodeBody (t0 : String) (n : Name) (fi : List Name) : Except Outcome (List Clause) :=
  gateBody (demoteTy t0 fi) n fi

theorem cnfNode_eq (c : Circuit) (ord : Ord) (n : Name) :
    cnfNode c ord n = match c.ty? n with
      | none => .error .keyError
      | some t0 => nodeBody t0 n (ord (c.fanin n)) := rfl

abbrev P (v : Var) : Lit := { pos := true, v := v }
abbrev N (v : Var) : Lit := { pos := false, v := v }

theorem xorClauses_eq (a b c : Var) :
    xorClauses a b c = [[N c, N b, N a], [N c, P b, P a], [P c, N b, P a], [P c, P b, N a]] := by
  simp [xorClauses, T_cnf, Expected.cnf, instClause, TEnv.get]

theorem xorClauses_sat (σ : Var → Bool) (a b c : Var) :
    CNF.sat σ (xorClauses a b c) = true ↔ σ c = Bool.xor (σ a) (σ b) := by
  rw [xorClauses_eq]
  simp only [CNF.sat, Clause.sat, Lit.sat, List.all_cons, List.any_cons, List.all_nil, List.any_nil]
  cases σ a <;> cases σ b <;> cases σ c <;> simp

/-- `for f: [±n, ±f]` followed by `[∓n, ∓f …]` -/
def gateCls (p q : Bool) (n : Var) (fs : List Var) : List Clause :=
  (fs.map fun f => [{ pos := p, v := n }, { pos := q, v := f }]) ++
    [{ pos := !p, v := n } :: fs.map fun f => { pos := !q, v := f }]

def bufCls (n f : Var) : List Clause := [[P n, N f], [N n, P f]]
def notCls (n f : Var) : List Clause := [[P n, P f], [N n, N f]]

theorem lit_sat_neg (σ : Var → Bool) (p : Bool) (v : Var) :
    Lit.sat σ { pos := !p, v := v } = !Lit.sat σ { pos := p, v := v } := by
  cases p <;> simp [Lit.sat]

theorem gateCls_sat (σ : Var → Bool) (p q : Bool) (n : Var) (fs : List Var) :
    CNF.sat σ (gateCls p q n fs) = true ↔
      (!Lit.sat σ { pos := p, v := n }) = fs.all (fun f => Lit.sat σ { pos := q, v := f }) := by
  have h1 : ∀ A : Bool, (fs.all fun f => A || Lit.sat σ { pos := q, v := f }) =
      (A || fs.all fun f => Lit.sat σ { pos := q, v := f }) := by
    intro A; cases A <;> simp
  have h2 : (fs.any fun f => !Lit.sat σ { pos := q, v := f }) =
      !(fs.all fun f => Lit.sat σ { pos := q, v := f }) := by rw [List.not_all_eq_any_not]
  simp only [gateCls, CNF.sat, Clause.sat, List.all_append, List.all_map, List.any_cons, List.any_map,
    List.all_cons, List.all_nil, List.any_nil, Function.comp_def, lit_sat_neg, h1, h2, Bool.or_false, Bool.and_true]
  cases Lit.sat σ { pos := p, v := n } <;> cases (fs.all fun f => Lit.sat σ { pos := q, v := f }) <;> simp

theorem bufCls_sat (σ : Var → Bool) (n f : Var) : CNF.sat σ (bufCls n f) = true ↔ σ n = σ f := by
  simp only [bufCls, CNF.sat, Clause.sat, Lit.sat, List.all_cons, List.any_cons, List.all_nil, List.any_nil]
  cases σ n <;> cases σ f <;> simp

theorem notCls_sat (σ : Var → Bool) (n f : Var) : CNF.sat σ (notCls n f) = true ↔ σ n = !σ f := by
  simp only [notCls, CNF.sat, Clause.sat, Lit.sat, List.all_cons, List.any_cons, List.all_nil, List.any_nil]
  cases σ n <;> cases σ f <;> simp

/-! ## evaluation of `nodeBody` on each supported type -/

theorem demoteTy_multi (t0 : String) (fi : List Name) (h : fi.length ≠ 1) : demoteTy t0 fi = t0 := by
  simp [demoteTy, h]

theorem demoteTy_buf (t : String) (ht : t ∈ ["and", "or", "xor", "buf", "bb_input"]) (f : Name) :
    demoteTy t [f] = "buf" ∨ demoteTy t [f] = "bb_input" := by
  simp only [List.mem_cons, List.not_mem_nil, or_false] at ht
  rcases ht with rfl | rfl | rfl | rfl | rfl <;> simp [demoteTy, T_cnf, Expected.cnf]

theorem demoteTy_not (t : String) (ht : t ∈ ["nand", "nor", "xnor", "not"]) (f : Name) :
    demoteTy t [f] = "not" := by
  simp only [List.mem_cons, List.not_mem_nil, or_false] at ht
  rcases ht with rfl | rfl | rfl | rfl <;> simp [demoteTy, T_cnf, Expected.cnf]

theorem demoteTy_other (t : String) (ht : t ∈ ["0", "1", "input", "bb_output"]) (fi : List Name) :
    demoteTy t fi = t := by
  simp only [List.mem_cons, List.not_mem_nil, or_false] at ht
  rcases ht with rfl | rfl | rfl | rfl <;> by_cases h : fi.length = 1 <;> simp [demoteTy, h, T_cnf, Expected.cnf]

theorem gate_and (n : Name) (fi : List Name) :
    gateBody "and" n fi = .ok (gateCls false true (.node n) (fi.map .node)) := by
  simp [gateBody, gateCls, T_cnf, Expected.cnf, instStmt, instClause, TEnv.get]

theorem gate_nand (n : Name) (fi : List Name) :
    gateBody "nand" n fi = .ok (gateCls true true (.node n) (fi.map .node)) := by
  simp [gateBody, gateCls, T_cnf, Expected.cnf, instStmt, instClause, TEnv.get]

theorem gate_or (n : Name) (fi : List Name) :
    gateBody "or" n fi = .ok (gateCls true false (.node n) (fi.map .node)) := by
  simp [gateBody, gateCls, T_cnf, Expected.cnf, instStmt, instClause, TEnv.get]

theorem gate_nor (n : Name) (fi : List Name) :
    gateBody "nor" n fi = .ok (gateCls false false (.node n) (fi.map .node)) := by
  simp [gateBody, gateCls, T_cnf, Expected.cnf, instStmt, instClause, TEnv.get]

theorem gate_buf (n f : Name) : gateBody "buf" n [f] = .ok (bufCls (.node n) (.node f)) := by
  simp [gateBody, bufCls, T_cnf, Expected.cnf, instStmt, instClause, TEnv.get]

theorem gate_bb_input (n f : Name) : gateBody "bb_input" n [f] = .ok (bufCls (.node n) (.node f)) := by
  simp [gateBody, bufCls, T_cnf, Expected.cnf, instStmt, instClause, TEnv.get]

theorem gate_not (n f : Name) : gateBody "not" n [f] = .ok (notCls (.node n) (.node f)) := by
  simp [gateBody, notCls, T_cnf, Expected.cnf, instStmt, instClause, TEnv.get]

theorem gate_buf_nil (n : Name) : gateBody "buf" n [] = .ok [[P (.node n), N (.node n)]] := by
  simp [gateBody, T_cnf, Expected.cnf, instStmt, instClause, TEnv.get]

theorem gate_bb_input_nil (n : Name) : gateBody "bb_input" n [] = .ok [[P (.node n), N (.node n)]] := by
  simp [gateBody, T_cnf, Expected.cnf, instStmt, instClause, TEnv.get]

theorem gate_not_nil (n : Name) : gateBody "not" n [] = .ok [[P (.node n), N (.node n)]] := by
  simp [gateBody, T_cnf, Expected.cnf, instStmt, instClause, TEnv.get]

theorem gate_zero (n : Name) (fi : List Name) : gateBody "0" n fi = .ok [[N (.node n)]] := by
  simp [gateBody, T_cnf, Expected.cnf, instStmt, instClause, TEnv.get]

theorem gate_one (n : Name) (fi : List Name) : gateBody "1" n fi = .ok [[P (.node n)]] := by
  simp [gateBody, T_cnf, Expected.cnf, instStmt, instClause, TEnv.get]

theorem gate_input (n : Name) (fi : List Name) :
    gateBody "input" n fi = .ok [[P (.node n), N (.node n)]] := by
  simp [gateBody, T_cnf, Expected.cnf, instStmt, instClause, TEnv.get]

theorem gate_bb_output (n : Name) (fi : List Name) :
    gateBody "bb_output" n fi = .ok [[P (.node n), N (.node n)]] := by
  simp [gateBody, T_cnf, Expected.cnf, instStmt, instClause, TEnv.get]

theorem gate_xor (n : Name) (fi : List Name) (cls : List Clause) (a b : Var)
    (hch : xorChain fi.length (fi.map Var.node) = (cls, [a, b])) :
    gateBody "xor" n fi = .ok (cls ++ xorClauses a b (.node n)) := by
  simp [gateBody, T_cnf, Expected.cnf, hch]

theorem gate_xnor (n : Name) (fi : List Name) (cls : List Clause) (a b : Var)
    (hch : xorChain fi.length (fi.map Var.node) = (cls, [a, b])) :
    gateBody "xnor" n fi = .ok (cls ++ xorClauses a b (.xorInv n) ++ notCls (.node n) (.xorInv n)) := by
  simp [gateBody, T_cnf, Expected.cnf, hch, notCls, instClause, TEnv.get]

theorem body_buf_like (t : String) (ht : t ∈ ["and", "or", "xor", "buf", "bb_input"]) (n f : Name) :
    nodeBody t n [f] = .ok (bufCls (.node n) (.node f)) := by
  unfold nodeBody
  rcases demoteTy_buf t ht f with h | h <;> rw [h]
  · exact gate_buf n f
  · exact gate_bb_input n f

theorem body_not_like (t : String) (ht : t ∈ ["nand", "nor", "xnor", "not"]) (n f : Name) :
    nodeBody t n [f] = .ok (notCls (.node n) (.node f)) := by
  unfold nodeBody
  rw [demoteTy_not t ht f]
  exact gate_not n f

/-! ## the parity chain -/

theorem split2 (nets : List Var) (h : 2 ≤ nets.length) : ∃ l a b, nets = l ++ [a, b] := by
  have h2 : (nets.drop (nets.length - 2)).length = 2 := by simp; omega
  match hd : nets.drop (nets.length - 2), h2 with
  | [a, b], _ => exact ⟨nets.take (nets.length - 2), a, b, by rw [← hd, List.take_append_drop]⟩

theorem xorChain_two (fuel : Nat) (a b : Var) : xorChain fuel [a, b] = ([], [a, b]) := by
  cases fuel <;> simp [xorChain]

theorem xorChain_succ (fuel : Nat) (l : List Var) (a b : Var) (h : l ≠ []) :
    xorChain (fuel + 1) (l ++ [a, b]) =
      (xorClauses a b (.xorAux a b) ++ (xorChain fuel (.xorAux a b :: l)).1,
       (xorChain fuel (.xorAux a b :: l)).2) := by
  have hl : 0 < l.length := List.length_pos_iff.mpr h
  have h1 : (l ++ [a, b]).length - 2 = l.length := by simp
  have h2 : (l ++ [a, b]).length - 1 = l.length + 1 := by simp
  have h3 : (l ++ [a, b]).length > 2 := by simp; omega
  rw [xorChain, if_pos h3, h1, h2]
  simp

/-- induction principle following the `while len(nets) > 2` loop -/
theorem chain_induct {motive : List Var → List Clause × List Var → Prop}
    (base : ∀ a b, motive [a, b] ([], [a, b]))
    (step : ∀ l a b r, l ≠ [] → motive (.xorAux a b :: l) r →
      motive (l ++ [a, b]) (xorClauses a b (.xorAux a b) ++ r.1, r.2)) :
    ∀ fuel nets, 2 ≤ nets.length → nets.length ≤ fuel → motive nets (xorChain fuel nets) := by
  intro fuel
  induction fuel with
  | zero => intro nets h2 h0; omega
  | succ fuel ih =>
    intro nets h2 hf
    obtain ⟨l, a, b, rfl⟩ := split2 nets h2
    cases l with
    | nil => rw [List.nil_append, xorChain_two]; exact base a b
    | cons x l =>
      rw [xorChain_succ fuel (x :: l) a b (by simp)]
      refine step (x :: l) a b _ (by simp) (ih _ ?_ ?_)
      · simp
      · simp at hf ⊢; omega

theorem chain_len (fuel : Nat) (nets : List Var) (h2 : 2 ≤ nets.length) (hf : nets.length ≤ fuel) :
    ∃ a b, (xorChain fuel nets).2 = [a, b] := by
  refine chain_induct (motive := fun _ r => ∃ a b, r.2 = [a, b]) ?_ ?_ fuel nets h2 hf
  · intro a b; exact ⟨a, b, rfl⟩
  · intro l a b r _ ih; exact ih

theorem chain_sound (σ : Var → Bool) (fuel : Nat) (nets : List Var) (h2 : 2 ≤ nets.length)
    (hf : nets.length ≤ fuel) (hs : CNF.sat σ (xorChain fuel nets).1 = true) :
    xorL ((xorChain fuel nets).2.map σ) = xorL (nets.map σ) := by
  revert hs
  refine chain_induct
    (motive := fun nets r => CNF.sat σ r.1 = true → xorL (r.2.map σ) = xorL (nets.map σ)) ?_ ?_ fuel nets h2 hf
  · intro a b _; rfl
  · intro l a b r _ ih hs
    rw [cnf_sat_append, Bool.and_eq_true, xorClauses_sat] at hs
    rw [ih hs.2, List.map_append, xorL_append]
    simp only [List.map_cons, List.map_nil, xorL, hs.1, Bool.xor_false]
    rw [Bool.xor_comm]

theorem chain_complete (σ : Var → Bool) (haux : ∀ a b, σ (.xorAux a b) = Bool.xor (σ a) (σ b))
    (fuel : Nat) (nets : List Var) (h2 : 2 ≤ nets.length) (hf : nets.length ≤ fuel) :
    CNF.sat σ (xorChain fuel nets).1 = true := by
  refine chain_induct (motive := fun _ r => CNF.sat σ r.1 = true) ?_ ?_ fuel nets h2 hf
  · intro a b; rfl
  · intro l a b r _ ih
    rw [cnf_sat_append, Bool.and_eq_true, xorClauses_sat]
    exact ⟨haux a b, ih⟩

theorem xorClauses_vars (a b c : Var) : ∀ cl ∈ xorClauses a b c, ∀ l ∈ cl, l.v = a ∨ l.v = b ∨ l.v = c := by
  rw [xorClauses_eq]
  intro cl hcl l hl
  simp only [List.mem_cons, List.not_mem_nil, or_false] at hcl
  rcases hcl with rfl | rfl | rfl | rfl <;>
    simp only [List.mem_cons, List.not_mem_nil, or_false] at hl <;>
    rcases hl with rfl | rfl | rfl <;> simp

theorem chain_determined (σ τ : Var → Bool) (haux : ∀ a b, τ (.xorAux a b) = Bool.xor (τ a) (τ b))
    (fuel : Nat) (nets : List Var) (h2 : 2 ≤ nets.length) (hf : nets.length ≤ fuel)
    (hs : CNF.sat σ (xorChain fuel nets).1 = true) (hn : ∀ x ∈ nets, σ x = τ x) :
    (∀ cl ∈ (xorChain fuel nets).1, ∀ l ∈ cl, σ l.v = τ l.v) ∧ (∀ x ∈ (xorChain fuel nets).2, σ x = τ x) := by
  revert hs hn
  refine chain_induct
    (motive := fun nets r => CNF.sat σ r.1 = true → (∀ x ∈ nets, σ x = τ x) →
      (∀ cl ∈ r.1, ∀ l ∈ cl, σ l.v = τ l.v) ∧ (∀ x ∈ r.2, σ x = τ x)) ?_ ?_ fuel nets h2 hf
  · intro a b _ hn; exact ⟨by simp, hn⟩
  · intro l a b r _ ih hs hn
    rw [cnf_sat_append, Bool.and_eq_true, xorClauses_sat] at hs
    have ha : σ a = τ a := hn a (by simp)
    have hb : σ b = τ b := hn b (by simp)
    have hnew : σ (.xorAux a b) = τ (.xorAux a b) := by rw [hs.1, haux, ha, hb]
    have hn' : ∀ x ∈ Var.xorAux a b :: l, σ x = τ x := by
      intro x hx
      rcases List.mem_cons.mp hx with rfl | hx
      · exact hnew
      · exact hn x (by simp [hx])
    obtain ⟨i1, i2⟩ := ih hs.2 hn'
    refine ⟨?_, i2⟩
    intro cl hcl lit hlit
    rcases List.mem_append.mp hcl with hcl | hcl
    · rcases xorClauses_vars a b _ cl hcl lit hlit with h | h | h <;> rw [h] <;> assumption
    · exact i1 cl hcl lit hlit

/-! ## per-node specification -/

def NodeVars (cls : List Clause) : Prop := ∀ cl ∈ cls, ∀ l ∈ cl, ∃ s, l.v = .node s

/-- the node equation, stated on the (reordered) fan-in actually used by the encoder -/
def GateEq (σ : Var → Bool) (t0 : String) (n : Name) (fi : List Name) : Prop :=
  ∀ b, gateFn t0 (fi.map fun m => σ (.node m)) = some b → σ (.node n) = b

def Spec (t0 : String) (n : Name) (fi : List Name) (cls : List Clause) : Prop :=
  NodeVars cls ∧ ∀ σ : Var → Bool, CNF.sat σ cls = true ↔ GateEq σ t0 n fi

theorem nodeVars_gate (p q : Bool) (n : Name) (fi : List Name) :
    NodeVars (gateCls p q (.node n) (fi.map .node)) := by
  intro cl hcl l hl
  simp only [gateCls, List.mem_append, List.mem_map, List.mem_singleton] at hcl
  rcases hcl with ⟨f, ⟨m, _, rfl⟩, rfl⟩ | rfl
  · simp only [List.mem_cons, List.not_mem_nil, or_false] at hl
    rcases hl with rfl | rfl
    · exact ⟨n, rfl⟩
    · exact ⟨m, rfl⟩
  · simp only [List.mem_cons, List.mem_map] at hl
    rcases hl with rfl | ⟨f, ⟨m, _, rfl⟩, rfl⟩
    · exact ⟨n, rfl⟩
    · exact ⟨m, rfl⟩

theorem nodeVars_buf (n f : Name) : NodeVars (bufCls (.node n) (.node f)) := by
  intro cl hcl l hl
  simp only [bufCls, List.mem_cons, List.not_mem_nil, or_false] at hcl
  rcases hcl with rfl | rfl <;> simp only [List.mem_cons, List.not_mem_nil, or_false] at hl <;>
    rcases hl with rfl | rfl <;> first | exact ⟨n, rfl⟩ | exact ⟨f, rfl⟩

theorem nodeVars_not (n f : Name) : NodeVars (notCls (.node n) (.node f)) := by
  intro cl hcl l hl
  simp only [notCls, List.mem_cons, List.not_mem_nil, or_false] at hcl
  rcases hcl with rfl | rfl <;> simp only [List.mem_cons, List.not_mem_nil, or_false] at hl <;>
    rcases hl with rfl | rfl <;> first | exact ⟨n, rfl⟩ | exact ⟨f, rfl⟩

theorem forall_some (x y : Bool) : (∀ b, some x = some b → y = b) ↔ y = x := by
  constructor
  · intro h; exact h x rfl
  · intro h b hb; cases hb; exact h

theorem forall_none (y : Bool) : (∀ b, (none : Option Bool) = some b → y = b) ↔ True := by
  simp

theorem gateEq_and (σ : Var → Bool) (n : Name) (fi : List Name) :
    GateEq σ "and" n fi ↔ σ (.node n) = fi.all fun m => σ (.node m) := by
  have h : ∀ l, gateFn "and" l = some (l.all id) := by intro l; simp [gateFn]
  simp only [GateEq, h, forall_some, List.all_map, Function.comp_def, id]

theorem gateEq_nand (σ : Var → Bool) (n : Name) (fi : List Name) :
    GateEq σ "nand" n fi ↔ σ (.node n) = !fi.all fun m => σ (.node m) := by
  have h : ∀ l, gateFn "nand" l = some (!l.all id) := by intro l; simp [gateFn]
  simp only [GateEq, h, forall_some, List.all_map, Function.comp_def, id]

theorem gateEq_or (σ : Var → Bool) (n : Name) (fi : List Name) :
    GateEq σ "or" n fi ↔ σ (.node n) = fi.any fun m => σ (.node m) := by
  have h : ∀ l, gateFn "or" l = some (l.any id) := by intro l; simp [gateFn]
  simp only [GateEq, h, forall_some, List.any_map, Function.comp_def, id]

theorem gateEq_nor (σ : Var → Bool) (n : Name) (fi : List Name) :
    GateEq σ "nor" n fi ↔ σ (.node n) = !fi.any fun m => σ (.node m) := by
  have h : ∀ l, gateFn "nor" l = some (!l.any id) := by intro l; simp [gateFn]
  simp only [GateEq, h, forall_some, List.any_map, Function.comp_def, id]

theorem gateEq_xor (σ : Var → Bool) (n : Name) (fi : List Name) :
    GateEq σ "xor" n fi ↔ σ (.node n) = xorL (fi.map fun m => σ (.node m)) := by
  have h : ∀ l, gateFn "xor" l = some (xorL l) := by intro l; simp [gateFn]
  simp only [GateEq, h, forall_some]

theorem gateEq_xnor (σ : Var → Bool) (n : Name) (fi : List Name) :
    GateEq σ "xnor" n fi ↔ σ (.node n) = !xorL (fi.map fun m => σ (.node m)) := by
  have h : ∀ l, gateFn "xnor" l = some (!xorL l) := by intro l; simp [gateFn]
  simp only [GateEq, h, forall_some]

theorem gateEq_buf (σ : Var → Bool) (n f : Name) : GateEq σ "buf" n [f] ↔ σ (.node n) = σ (.node f) := by
  have h : ∀ a, gateFn "buf" [a] = some a := by intro a; simp [gateFn]
  simp only [GateEq, List.map_cons, List.map_nil, h, forall_some]

theorem gateEq_bb_input (σ : Var → Bool) (n f : Name) :
    GateEq σ "bb_input" n [f] ↔ σ (.node n) = σ (.node f) := by
  have h : ∀ a, gateFn "bb_input" [a] = some a := by intro a; simp [gateFn]
  simp only [GateEq, List.map_cons, List.map_nil, h, forall_some]

theorem gateEq_not (σ : Var → Bool) (n f : Name) : GateEq σ "not" n [f] ↔ σ (.node n) = !σ (.node f) := by
  have h : ∀ a, gateFn "not" [a] = some (!a) := by intro a; simp [gateFn]
  simp only [GateEq, List.map_cons, List.map_nil, h, forall_some]

theorem gateEq_zero (σ : Var → Bool) (n : Name) (fi : List Name) : GateEq σ "0" n fi ↔ σ (.node n) = false := by
  have h : ∀ l, gateFn "0" l = some false := by intro l; simp [gateFn]
  simp only [GateEq, h, forall_some]

theorem gateEq_one (σ : Var → Bool) (n : Name) (fi : List Name) : GateEq σ "1" n fi ↔ σ (.node n) = true := by
  have h : ∀ l, gateFn "1" l = some true := by intro l; simp [gateFn]
  simp only [GateEq, h, forall_some]

theorem gateEq_input (σ : Var → Bool) (n : Name) (fi : List Name) : GateEq σ "input" n fi ↔ True := by
  have h : ∀ l, gateFn "input" l = none := by intro l; simp [gateFn]
  simp only [GateEq, h, forall_none]

theorem gateEq_bb_output (σ : Var → Bool) (n : Name) (fi : List Name) : GateEq σ "bb_output" n fi ↔ True := by
  have h : ∀ l, gateFn "bb_output" l = none := by intro l; simp [gateFn]
  simp only [GateEq, h, forall_none]

theorem all_single (σ : Var → Bool) (f : Name) : ([f].all fun m => σ (.node m)) = σ (.node f) := by simp
theorem any_single (σ : Var → Bool) (f : Name) : ([f].any fun m => σ (.node m)) = σ (.node f) := by simp
theorem xorL_single (σ : Var → Bool) (f : Name) : xorL ([f].map fun m => σ (.node m)) = σ (.node f) := by
  simp [xorL]

theorem gate_sem_and (σ : Var → Bool) (n : Name) (fi : List Name) :
    CNF.sat σ (gateCls false true (.node n) (fi.map .node)) = true ↔
      σ (.node n) = fi.all fun m => σ (.node m) := by
  rw [gateCls_sat]
  simp only [Lit.sat, List.all_map, Function.comp_def, if_true, Bool.false_eq_true, if_false, Bool.not_not]

theorem gate_sem_nand (σ : Var → Bool) (n : Name) (fi : List Name) :
    CNF.sat σ (gateCls true true (.node n) (fi.map .node)) = true ↔
      σ (.node n) = !fi.all fun m => σ (.node m) := by
  rw [gateCls_sat]
  simp only [Lit.sat, List.all_map, Function.comp_def, if_true]
  generalize (fi.all fun m => σ (.node m)) = A
  cases σ (.node n) <;> cases A <;> simp

theorem gate_sem_or (σ : Var → Bool) (n : Name) (fi : List Name) :
    CNF.sat σ (gateCls true false (.node n) (fi.map .node)) = true ↔
      σ (.node n) = fi.any fun m => σ (.node m) := by
  rw [gateCls_sat]
  simp only [Lit.sat, List.all_map, Function.comp_def, if_true, Bool.false_eq_true, if_false,
    ← List.not_any_eq_all_not, List.any_map]
  generalize (fi.any fun m => σ (.node m)) = A
  cases σ (.node n) <;> cases A <;> simp

theorem gate_sem_nor (σ : Var → Bool) (n : Name) (fi : List Name) :
    CNF.sat σ (gateCls false false (.node n) (fi.map .node)) = true ↔
      σ (.node n) = !fi.any fun m => σ (.node m) := by
  rw [gateCls_sat]
  simp only [Lit.sat, List.all_map, Function.comp_def, if_true, Bool.false_eq_true, if_false,
    ← List.not_any_eq_all_not, Bool.not_not, List.any_map]

theorem spec_and (n : Name) (fi : List Name) : ∃ cls, nodeBody "and" n fi = .ok cls ∧ Spec "and" n fi cls := by
  by_cases h1 : fi.length = 1
  · match fi, h1 with
    | [f], _ =>
      refine ⟨_, body_buf_like "and" (by simp) n f, nodeVars_buf n f, fun σ => ?_⟩
      rw [bufCls_sat, gateEq_and, all_single]
  · refine ⟨_, by rw [nodeBody, demoteTy_multi _ _ h1, gate_and], nodeVars_gate _ _ n fi, fun σ => ?_⟩
    rw [gate_sem_and, gateEq_and]

theorem spec_nand (n : Name) (fi : List Name) : ∃ cls, nodeBody "nand" n fi = .ok cls ∧ Spec "nand" n fi cls := by
  by_cases h1 : fi.length = 1
  · match fi, h1 with
    | [f], _ =>
      refine ⟨_, body_not_like "nand" (by simp) n f, nodeVars_not n f, fun σ => ?_⟩
      rw [notCls_sat, gateEq_nand, all_single]
  · refine ⟨_, by rw [nodeBody, demoteTy_multi _ _ h1, gate_nand], nodeVars_gate _ _ n fi, fun σ => ?_⟩
    rw [gate_sem_nand, gateEq_nand]

theorem spec_or (n : Name) (fi : List Name) : ∃ cls, nodeBody "or" n fi = .ok cls ∧ Spec "or" n fi cls := by
  by_cases h1 : fi.length = 1
  · match fi, h1 with
    | [f], _ =>
      refine ⟨_, body_buf_like "or" (by simp) n f, nodeVars_buf n f, fun σ => ?_⟩
      rw [bufCls_sat, gateEq_or, any_single]
  · refine ⟨_, by rw [nodeBody, demoteTy_multi _ _ h1, gate_or], nodeVars_gate _ _ n fi, fun σ => ?_⟩
    rw [gate_sem_or, gateEq_or]

theorem spec_nor (n : Name) (fi : List Name) : ∃ cls, nodeBody "nor" n fi = .ok cls ∧ Spec "nor" n fi cls := by
  by_cases h1 : fi.length = 1
  · match fi, h1 with
    | [f], _ =>
      refine ⟨_, body_not_like "nor" (by simp) n f, nodeVars_not n f, fun σ => ?_⟩
      rw [notCls_sat, gateEq_nor, any_single]
  · refine ⟨_, by rw [nodeBody, demoteTy_multi _ _ h1, gate_nor], nodeVars_gate _ _ n fi, fun σ => ?_⟩
    rw [gate_sem_nor, gateEq_nor]

theorem spec_xor_single (n f : Name) : ∃ cls, nodeBody "xor" n [f] = .ok cls ∧ Spec "xor" n [f] cls := by
  refine ⟨_, body_buf_like "xor" (by simp) n f, nodeVars_buf n f, fun σ => ?_⟩
  rw [bufCls_sat, gateEq_xor, xorL_single]

theorem spec_xnor_single (n f : Name) : ∃ cls, nodeBody "xnor" n [f] = .ok cls ∧ Spec "xnor" n [f] cls := by
  refine ⟨_, body_not_like "xnor" (by simp) n f, nodeVars_not n f, fun σ => ?_⟩
  rw [notCls_sat, gateEq_xnor, xorL_single]

theorem spec_buf (n f : Name) : ∃ cls, nodeBody "buf" n [f] = .ok cls ∧ Spec "buf" n [f] cls := by
  refine ⟨_, body_buf_like "buf" (by simp) n f, nodeVars_buf n f, fun σ => ?_⟩
  rw [bufCls_sat, gateEq_buf]

theorem spec_bb_input (n f : Name) : ∃ cls, nodeBody "bb_input" n [f] = .ok cls ∧ Spec "bb_input" n [f] cls := by
  refine ⟨_, body_buf_like "bb_input" (by simp) n f, nodeVars_buf n f, fun σ => ?_⟩
  rw [bufCls_sat, gateEq_bb_input]

theorem spec_not (n f : Name) : ∃ cls, nodeBody "not" n [f] = .ok cls ∧ Spec "not" n [f] cls := by
  refine ⟨_, body_not_like "not" (by simp) n f, nodeVars_not n f, fun σ => ?_⟩
  rw [notCls_sat, gateEq_not]

theorem gateEq_undriven (σ : Var → Bool) (t : String) (ht : t ∈ ["buf", "not", "bb_input"]) (n : Name) :
    GateEq σ t n [] ↔ True := by
  simp only [List.mem_cons, List.not_mem_nil, or_false] at ht
  have h : gateFn t [] = none := by rcases ht with rfl | rfl | rfl <;> simp [gateFn]
  simp only [GateEq, List.map_nil, h, forall_none]

/-- an undriven buf / not / bb_input is a free node: the encoder emits the tautology `[n, ¬n]` -/
theorem spec_undriven (t : String) (ht : t ∈ ["buf", "not", "bb_input"]) (n : Name) :
    ∃ cls, nodeBody t n [] = .ok cls ∧ Spec t n [] cls := by
  refine ⟨[[P (.node n), N (.node n)]], ?_, ?_, fun σ => ?_⟩
  · rw [nodeBody, demoteTy_multi _ _ (by simp)]
    simp only [List.mem_cons, List.not_mem_nil, or_false] at ht
    rcases ht with rfl | rfl | rfl
    · exact gate_buf_nil n
    · exact gate_not_nil n
    · exact gate_bb_input_nil n
  · intro cl hcl l hl; simp at hcl; subst hcl; simp at hl; rcases hl with rfl | rfl <;> exact ⟨n, rfl⟩
  · rw [gateEq_undriven σ t ht]; simp [CNF.sat, Clause.sat, Lit.sat]

theorem spec_zero (n : Name) (fi : List Name) : ∃ cls, nodeBody "0" n fi = .ok cls ∧ Spec "0" n fi cls := by
  refine ⟨_, by rw [nodeBody, demoteTy_other _ (by simp), gate_zero], ?_, fun σ => ?_⟩
  · intro cl hcl l hl; simp at hcl; subst hcl; simp at hl; subst hl; exact ⟨n, rfl⟩
  · rw [gateEq_zero]; simp [CNF.sat, Clause.sat, Lit.sat]

theorem spec_one (n : Name) (fi : List Name) : ∃ cls, nodeBody "1" n fi = .ok cls ∧ Spec "1" n fi cls := by
  refine ⟨_, by rw [nodeBody, demoteTy_other _ (by simp), gate_one], ?_, fun σ => ?_⟩
  · intro cl hcl l hl; simp at hcl; subst hcl; simp at hl; subst hl; exact ⟨n, rfl⟩
  · rw [gateEq_one]; simp [CNF.sat, Clause.sat, Lit.sat]

theorem spec_input (n : Name) (fi : List Name) : ∃ cls, nodeBody "input" n fi = .ok cls ∧ Spec "input" n fi cls := by
  refine ⟨_, by rw [nodeBody, demoteTy_other _ (by simp), gate_input], ?_, fun σ => ?_⟩
  · intro cl hcl l hl; simp at hcl; subst hcl; simp at hl; rcases hl with rfl | rfl <;> exact ⟨n, rfl⟩
  · rw [gateEq_input]; simp [CNF.sat, Clause.sat, Lit.sat]

theorem spec_bb_output (n : Name) (fi : List Name) :
    ∃ cls, nodeBody "bb_output" n fi = .ok cls ∧ Spec "bb_output" n fi cls := by
  refine ⟨_, by rw [nodeBody, demoteTy_other _ (by simp), gate_bb_output], ?_, fun σ => ?_⟩
  · intro cl hcl l hl; simp at hcl; subst hcl; simp at hl; rcases hl with rfl | rfl <;> exact ⟨n, rfl⟩
  · rw [gateEq_bb_output]; simp [CNF.sat, Clause.sat, Lit.sat]

/-- what the property theorems need to know about the clauses of one node -/
structure NodeSpec (t0 : String) (n : Name) (fi : List Name) (cls : List Clause) : Prop where
  sound : ∀ σ : Var → Bool, CNF.sat σ cls = true → GateEq σ t0 n fi
  complete : ∀ σ : Var → Bool, (∀ a b, σ (.xorAux a b) = Bool.xor (σ a) (σ b)) →
    σ (.xorInv n) = xorL (fi.map fun m => σ (.node m)) → GateEq σ t0 n fi → CNF.sat σ cls = true
  det : ∀ σ τ : Var → Bool, (∀ s, τ (.node s) = σ (.node s)) →
    (∀ a b, τ (.xorAux a b) = Bool.xor (τ a) (τ b)) →
    τ (.xorInv n) = xorL (fi.map fun m => σ (.node m)) → CNF.sat σ cls = true →
    ∀ cl ∈ cls, ∀ l ∈ cl, σ l.v = τ l.v

theorem Spec.toNodeSpec {t0 : String} {n : Name} {fi : List Name} {cls : List Clause}
    (h : Spec t0 n fi cls) : NodeSpec t0 n fi cls where
  sound σ hs := (h.2 σ).mp hs
  complete σ _ _ hg := (h.2 σ).mpr hg
  det σ τ hnode _ _ _ cl hcl l hl := by
    obtain ⟨s, hs⟩ := h.1 cl hcl l hl
    rw [hs, hnode]

theorem xorL_pair (x y : Bool) : xorL [x, y] = Bool.xor x y := by simp [xorL]

theorem spec_xor_multi (n : Name) (fi : List Name) (h2 : 2 ≤ fi.length) :
    ∃ cls, nodeBody "xor" n fi = .ok cls ∧ NodeSpec "xor" n fi cls := by
  have h1 : fi.length ≠ 1 := by omega
  have hl2 : 2 ≤ (fi.map Var.node).length := by simpa using h2
  have hlf : (fi.map Var.node).length ≤ fi.length := by simp
  obtain ⟨a, b, hab⟩ := chain_len fi.length (fi.map Var.node) hl2 hlf
  have hch : xorChain fi.length (fi.map Var.node) = ((xorChain fi.length (fi.map Var.node)).1, [a, b]) := by
    rw [← hab]
  have hpar : ∀ σ : Var → Bool, CNF.sat σ (xorChain fi.length (fi.map Var.node)).1 = true →
      Bool.xor (σ a) (σ b) = xorL (fi.map fun m => σ (.node m)) := by
    intro σ hs
    have := chain_sound σ fi.length (fi.map Var.node) hl2 hlf hs
    rw [hab, List.map_map] at this
    simpa [xorL_pair, Function.comp_def] using this
  refine ⟨_, by rw [nodeBody, demoteTy_multi _ _ h1, gate_xor n fi _ a b hch], ?_, ?_, ?_⟩
  · intro σ hs
    rw [cnf_sat_append, Bool.and_eq_true, xorClauses_sat] at hs
    rw [gateEq_xor, hs.2, hpar σ hs.1]
  · intro σ haux _ hg
    have hc := chain_complete σ haux fi.length (fi.map Var.node) hl2 hlf
    rw [cnf_sat_append, Bool.and_eq_true, xorClauses_sat]
    rw [gateEq_xor] at hg
    exact ⟨hc, by rw [hg, hpar σ hc]⟩
  · intro σ τ hnode haux _ hs cl hcl l hl
    rw [cnf_sat_append, Bool.and_eq_true, xorClauses_sat] at hs
    have hn : ∀ x ∈ fi.map Var.node, σ x = τ x := by
      intro x hx
      obtain ⟨m, _, rfl⟩ := List.mem_map.mp hx
      exact (hnode m).symm
    obtain ⟨d1, d2⟩ := chain_determined σ τ haux fi.length (fi.map Var.node) hl2 hlf hs.1 hn
    rw [hab] at d2
    rcases List.mem_append.mp hcl with hcl | hcl
    · exact d1 cl hcl l hl
    · rcases xorClauses_vars a b _ cl hcl l hl with h | h | h <;> rw [h]
      · exact d2 a (by simp)
      · exact d2 b (by simp)
      · exact (hnode n).symm

theorem spec_xnor_multi (n : Name) (fi : List Name) (h2 : 2 ≤ fi.length) :
    ∃ cls, nodeBody "xnor" n fi = .ok cls ∧ NodeSpec "xnor" n fi cls := by
  have h1 : fi.length ≠ 1 := by omega
  have hl2 : 2 ≤ (fi.map Var.node).length := by simpa using h2
  have hlf : (fi.map Var.node).length ≤ fi.length := by simp
  obtain ⟨a, b, hab⟩ := chain_len fi.length (fi.map Var.node) hl2 hlf
  have hch : xorChain fi.length (fi.map Var.node) = ((xorChain fi.length (fi.map Var.node)).1, [a, b]) := by
    rw [← hab]
  have hpar : ∀ σ : Var → Bool, CNF.sat σ (xorChain fi.length (fi.map Var.node)).1 = true →
      Bool.xor (σ a) (σ b) = xorL (fi.map fun m => σ (.node m)) := by
    intro σ hs
    have := chain_sound σ fi.length (fi.map Var.node) hl2 hlf hs
    rw [hab, List.map_map] at this
    simpa [xorL_pair, Function.comp_def] using this
  refine ⟨_, by rw [nodeBody, demoteTy_multi _ _ h1, gate_xnor n fi _ a b hch], ?_, ?_, ?_⟩
  · intro σ hs
    rw [cnf_sat_append, cnf_sat_append, Bool.and_eq_true, Bool.and_eq_true, xorClauses_sat, notCls_sat] at hs
    rw [gateEq_xnor, hs.2, hs.1.2, hpar σ hs.1.1]
  · intro σ haux hinv hg
    have hc := chain_complete σ haux fi.length (fi.map Var.node) hl2 hlf
    rw [cnf_sat_append, cnf_sat_append, Bool.and_eq_true, Bool.and_eq_true, xorClauses_sat, notCls_sat]
    rw [gateEq_xnor] at hg
    exact ⟨⟨hc, by rw [hinv, hpar σ hc]⟩, by rw [hg, hinv]⟩
  · intro σ τ hnode haux hinv hs cl hcl l hl
    rw [cnf_sat_append, cnf_sat_append, Bool.and_eq_true, Bool.and_eq_true, xorClauses_sat, notCls_sat] at hs
    have hn : ∀ x ∈ fi.map Var.node, σ x = τ x := by
      intro x hx
      obtain ⟨m, _, rfl⟩ := List.mem_map.mp hx
      exact (hnode m).symm
    obtain ⟨d1, d2⟩ := chain_determined σ τ haux fi.length (fi.map Var.node) hl2 hlf hs.1.1 hn
    rw [hab] at d2
    have hi : σ (.xorInv n) = τ (.xorInv n) := by rw [hs.1.2, hpar σ hs.1.1, hinv]
    rcases List.mem_append.mp hcl with hcl | hcl
    · rcases List.mem_append.mp hcl with hcl | hcl
      · exact d1 cl hcl l hl
      · rcases xorClauses_vars a b _ cl hcl l hl with h | h | h <;> rw [h]
        · exact d2 a (by simp)
        · exact d2 b (by simp)
        · exact hi
    · simp only [notCls, List.mem_cons, List.not_mem_nil, or_false] at hcl
      rcases hcl with rfl | rfl <;> simp only [List.mem_cons, List.not_mem_nil, or_false] at hl <;>
        rcases hl with rfl | rfl <;> first | exact (hnode n).symm | exact hi

/-- every supported node type (except `x`) with a lint-clean fan-in count is encoded exactly -/
theorem node_spec (t0 : String) (n : Name) (fi : List Name)
    (hsup : t0 ∈ Expected.supported_types) (hx : t0 ≠ "x")
    (hsingle : t0 ∈ ["buf", "not", "bb_input"] → fi.length ≤ 1)
    (hmulti : t0 ∈ ["and", "nand", "or", "nor", "xor", "xnor"] → 1 ≤ fi.length) :
    ∃ cls, nodeBody t0 n fi = .ok cls ∧ NodeSpec t0 n fi cls := by
  simp only [Expected.supported_types, Expected.addable_types, Expected.primitive_gates, List.cons_append,
    List.nil_append, List.mem_cons, List.not_mem_nil, or_false] at hsup
  rcases hsup with rfl | rfl | rfl | rfl | rfl | rfl | rfl | rfl | rfl | rfl | rfl | rfl | rfl | rfl
  · -- buf
    have h1 := hsingle (by simp)
    match fi, h1 with
    | [], _ => obtain ⟨cls, h, hs⟩ := spec_undriven "buf" (by simp) n; exact ⟨cls, h, hs.toNodeSpec⟩
    | [f], _ => obtain ⟨cls, h, hs⟩ := spec_buf n f; exact ⟨cls, h, hs.toNodeSpec⟩
  · obtain ⟨cls, h, hs⟩ := spec_and n fi; exact ⟨cls, h, hs.toNodeSpec⟩
  · obtain ⟨cls, h, hs⟩ := spec_or n fi; exact ⟨cls, h, hs.toNodeSpec⟩
  · -- xor
    have h1 := hmulti (by simp)
    by_cases h : fi.length = 1
    · match fi, h with
      | [f], _ => obtain ⟨cls, h, hs⟩ := spec_xor_single n f; exact ⟨cls, h, hs.toNodeSpec⟩
    · exact spec_xor_multi n fi (by omega)
  · -- not
    have h1 := hsingle (by simp)
    match fi, h1 with
    | [], _ => obtain ⟨cls, h, hs⟩ := spec_undriven "not" (by simp) n; exact ⟨cls, h, hs.toNodeSpec⟩
    | [f], _ => obtain ⟨cls, h, hs⟩ := spec_not n f; exact ⟨cls, h, hs.toNodeSpec⟩
  · obtain ⟨cls, h, hs⟩ := spec_nand n fi; exact ⟨cls, h, hs.toNodeSpec⟩
  · obtain ⟨cls, h, hs⟩ := spec_nor n fi; exact ⟨cls, h, hs.toNodeSpec⟩
  · -- xnor
    have h1 := hmulti (by simp)
    by_cases h : fi.length = 1
    · match fi, h with
      | [f], _ => obtain ⟨cls, h, hs⟩ := spec_xnor_single n f; exact ⟨cls, h, hs.toNodeSpec⟩
    · exact spec_xnor_multi n fi (by omega)
  · obtain ⟨cls, h, hs⟩ := spec_zero n fi; exact ⟨cls, h, hs.toNodeSpec⟩
  · obtain ⟨cls, h, hs⟩ := spec_one n fi; exact ⟨cls, h, hs.toNodeSpec⟩
  · exact absurd rfl hx
  · obtain ⟨cls, h, hs⟩ := spec_input n fi; exact ⟨cls, h, hs.toNodeSpec⟩
  · -- bb_input
    have h1 := hsingle (by simp)
    match fi, h1 with
    | [], _ => obtain ⟨cls, h, hs⟩ := spec_undriven "bb_input" (by simp) n; exact ⟨cls, h, hs.toNodeSpec⟩
    | [f], _ => obtain ⟨cls, h, hs⟩ := spec_bb_input n f; exact ⟨cls, h, hs.toNodeSpec⟩
  · obtain ⟨cls, h, hs⟩ := spec_bb_output n fi; exact ⟨cls, h, hs.toNodeSpec⟩

end Tseitin
end CG
