/- C20 (second half, sequential_unroll): generic preservation lemmas — `LintClean` survives the removal of unloaded
   nodes and the retyping of free inputs to constants; the attribute folds keep the registry -/
import CG.Proofs.UnrollSeqSemRemove
import CG.Proofs.UnrollSeq
set_option linter.unusedSimpArgs false
set_option linter.unusedVariables false
namespace CG
namespace LintProdG
open Circuit Unroll USS

/-! ### removal of unloaded nodes -/

theorem remove_fanout (c : Circuit) (ns : List Name) {x : Name} (hx : x ∉ ns) :
    (c.remove ns).fanout x = (c.fanout x).filter (fun u => !ns.contains u) := by
  unfold Circuit.fanout
  rw [remove_edges, List.filter_filter, List.filter_map, List.filter_filter]
  congr 1
  apply List.filter_congr
  intro e _
  simp only [Function.comp]
  by_cases h : e.1 = x
  · subst h
    have : ns.contains e.1 = false := by
      cases hh : ns.contains e.1 with
      | false => rfl
      | true => exact absurd (List.contains_iff_mem.1 hh) hx
    simp only [this, Bool.not_false, Bool.true_and, beq_self_eq_true, Bool.and_true]
  · have : (e.1 == x) = false := by simpa using h
    simp only [this, Bool.and_false, Bool.false_and]

/-- removing nodes that drive nothing keeps every other node's fanin -/
theorem remove_fanin_eq {c : Circuit} {ns : List Name} (hfo : ∀ x ∈ ns, c.fanout x = []) {y : Name} (hy : y ∉ ns) :
    (c.remove ns).fanin y = c.fanin y := by
  rw [remove_fanin c ns hy]
  apply List.filter_eq_self.2
  intro u hu
  cases hh : ns.contains u with
  | false => rfl
  | true =>
    have h1 := hfo u (List.contains_iff_mem.1 hh)
    have h2 : y ∈ c.fanout u := mem_fanout.2 (mem_fanin.1 hu)
    rw [h1] at h2
    cases h2

/-- **removing unloaded nodes keeps a circuit lint-clean** -/
theorem remove_lintClean {c : Circuit} (hc : LintClean c) (ns : List Name) (hfo : ∀ x ∈ ns, c.fanout x = []) :
    LintClean (c.remove ns) := by
  have hty : ∀ n t, (c.remove ns).ty? n = some t → n ∉ ns ∧ c.ty? n = some t := by
    intro n t h
    rw [remove_ty?] at h
    by_cases hn : n ∈ ns
    · rw [if_pos hn] at h; cases h
    · rw [if_neg hn] at h; exact ⟨hn, h⟩
  refine { toWF := remove_wf hc.toWF ns, typed := ?_, noFanin := ?_, single := ?_, multi := ?_, bbOut := ?_,
           noBBInFanout := ?_ }
  · intro p hp
    exact hc.typed p (remove_mem_nodes.1 hp).1
  · intro n t h hs
    obtain ⟨hn, h'⟩ := hty n t h
    rw [remove_fanin_eq hfo hn]
    exact hc.noFanin n t h' hs
  · intro n t h hs
    obtain ⟨hn, h'⟩ := hty n t h
    rw [remove_fanin_eq hfo hn]
    exact hc.single n t h' hs
  · intro n t h hs
    obtain ⟨hn, h'⟩ := hty n t h
    rw [remove_fanin_eq hfo hn]
    exact hc.multi n t h' hs
  · intro e he h
    obtain ⟨he1, hn1, hn2⟩ := remove_mem_edges.1 he
    obtain ⟨_, h'⟩ := hty _ _ h
    obtain ⟨a, b⟩ := hc.bbOut e he1 h'
    refine ⟨?_, ?_⟩
    · rw [remove_ty?, if_neg hn2]; exact a
    · rw [remove_fanout c ns hn1]
      exact Nat.le_trans (List.length_filter_le _ _) b
  · intro e he h
    obtain ⟨he1, _, _⟩ := remove_mem_edges.1 he
    obtain ⟨_, h'⟩ := hty _ _ h
    exact hc.noBBInFanout e he1 h'

/-- a name that is not a node drives nothing -/
theorem fanout_nil_of_not_has {c : Circuit} (h : WF c) {x : Name} (hx : c.has x = false) : c.fanout x = [] := by
  cases hf : c.fanout x with
  | nil => rfl
  | cons y l =>
    have hy : y ∈ c.fanout x := by rw [hf]; exact List.mem_cons_self
    have := (h.closed _ (mem_fanout.1 hy)).1
    rw [hx] at this
    cases this

/-! ### retyping free inputs to constants -/

theorem fanout_congr_edges {c c' : Circuit} (h : c'.edges = c.edges) (y : Name) : c'.fanout y = c.fanout y := by
  unfold Circuit.fanout; rw [h]

/-- **same graph, every node keeps its type or is a free input turned into a constant** -/
theorem retype_lintClean {a b : Circuit} (hc : LintClean a) (he : b.edges = a.edges) (hn : b.nodeNames = a.nodeNames)
    (hty : ∀ x, b.ty? x = a.ty? x ∨ (a.ty? x = some "input" ∧ (b.ty? x = some "0" ∨ b.ty? x = some "1"))) :
    LintClean b := by
  have hhas : ∀ x, b.has x = true ↔ a.has x = true := by
    intro x
    rw [has_iff_mem, has_iff_mem, hn]
  have hwf : WF b := by
    refine ⟨by rw [hn]; exact hc.nodup, by rw [he]; exact hc.edgesNodup, ?_⟩
    intro e h
    rw [he] at h
    obtain ⟨h1, h2⟩ := hc.closed e h
    exact ⟨(hhas _).2 h1, (hhas _).2 h2⟩
  have hfi : ∀ y, b.fanin y = a.fanin y := fanin_congr_edges he
  have hfo : ∀ y, b.fanout y = a.fanout y := fanout_congr_edges he
  refine { toWF := hwf, typed := ?_, noFanin := ?_, single := ?_, multi := ?_, bbOut := ?_, noBBInFanout := ?_ }
  · intro p hp
    have hmem : p.1 ∈ a.nodeNames := by rw [← hn]; exact List.mem_map.2 ⟨p, hp, rfl⟩
    obtain ⟨q, hq, e⟩ := List.mem_map.1 hmem
    obtain ⟨t, ht, hs⟩ := hc.typed q hq
    have hat : a.ty? p.1 = some t := by rw [← e]; exact ty?_of_mem hc.nodup hq ht
    have hbt : b.ty? p.1 = p.2.ty := by
      unfold Circuit.ty?
      rw [attr?_of_mem hwf.nodup (n := p.1) (a := p.2) hp]
      rfl
    rcases hty p.1 with h | ⟨_, h | h⟩
    · exact ⟨t, by rw [← hbt, h, hat], hs⟩
    · exact ⟨"0", by rw [← hbt, h], by decide⟩
    · exact ⟨"1", by rw [← hbt, h], by decide⟩
  · intro n t h hs
    rw [hfi]
    rcases hty n with h' | ⟨h', _⟩
    · exact hc.noFanin n t (h'.symm.trans h) hs
    · exact hc.noFanin n "input" h' (by decide)
  · intro n t h hs
    rw [hfi]
    rcases hty n with h' | ⟨_, h' | h'⟩
    · exact hc.single n t (h'.symm.trans h) hs
    · rw [h'] at h; injection h with h; subst h; exact absurd hs (by decide)
    · rw [h'] at h; injection h with h; subst h; exact absurd hs (by decide)
  · intro n t h hs
    rw [hfi]
    rcases hty n with h' | ⟨_, h' | h'⟩
    · exact hc.multi n t (h'.symm.trans h) hs
    · rw [h'] at h; injection h with h; subst h; exact absurd hs (by decide)
    · rw [h'] at h; injection h with h; subst h; exact absurd hs (by decide)
  · intro e hee h
    rw [he] at hee
    have h1 : a.ty? e.1 = some "bb_output" := by
      rcases hty e.1 with h' | ⟨_, h' | h'⟩
      · exact h'.symm.trans h
      · rw [h'] at h; exact absurd h (by decide)
      · rw [h'] at h; exact absurd h (by decide)
    obtain ⟨x, y⟩ := hc.bbOut e hee h1
    refine ⟨?_, by rw [hfo]; exact y⟩
    rcases hty e.2 with h' | ⟨h', _⟩
    · exact h'.trans x
    · rw [h'] at x; exact absurd x (by decide)
  · intro e hee h
    rw [he] at hee
    apply hc.noBBInFanout e hee
    rcases hty e.1 with h' | ⟨_, h' | h'⟩
    · exact h'.symm.trans h
    · rw [h'] at h; exact absurd h (by decide)
    · rw [h'] at h; exact absurd h (by decide)

/-! ### the attribute folds keep the registry -/

theorem setOutput_bbs : ∀ (l : List Name) (c c' : Circuit) (b : Bool), c.setOutput l b = (c', .ok) → c'.bbs = c.bbs
  | [], c, c', b, h => by
    rw [Circuit.setOutput] at h
    injection h with h _
    subst h
    rfl
  | n :: l, c, c', b, h => by
    rw [Circuit.setOutput] at h
    by_cases hn : c.has n = true
    · rw [if_pos hn] at h
      rw [setOutput_bbs l _ c' b h]
      rfl
    · rw [if_neg hn] at h
      injection h with _ h
      cases h

theorem outPhase_bbs (m : List (Name × List Name)) (dPort : Name) (afo : Bool) : ∀ (insts : List Name) (P uc1 : Circuit),
    insts.foldlM (outStep m dPort afo) P = .ok uc1 → uc1.bbs = P.bbs
  | [], P, uc1, h => by rw [foldlM_nil_ok _ _ _ h]
  | b :: insts, P, uc1, h => by
    obtain ⟨c1, h1, h2⟩ := foldlM_cons_ok _ _ _ _ _ h
    unfold outStep at h1
    cases hl : m.lookup (b ++ "_" ++ dPort) with
    | none => rw [hl] at h1; cases h1
    | some l =>
      rw [hl] at h1
      simp only [] at h1
      rw [outPhase_bbs m dPort afo insts c1 uc1 h2, setOutput_bbs l P c1 afo (liftO_ok h1)]

theorem tyPhase_bbs (m : List (Name × List Name)) (qPort : Name) (v : String) : ∀ (insts : List Name) (P uc : Circuit),
    insts.foldlM (tyStep m qPort v) P = .ok uc → uc.bbs = P.bbs
  | [], P, uc, h => by rw [foldlM_nil_ok _ _ _ h]
  | b :: insts, P, uc, h => by
    obtain ⟨c1, h1, h2⟩ := foldlM_cons_ok _ _ _ _ _ h
    unfold tyStep at h1
    split at h1
    · rename_i x rest hl
      obtain ⟨hx, e⟩ := setType1_ok (liftO_ok h1)
      subst e
      rw [tyPhase_bbs m qPort v insts _ uc h2]
      rfl
    · cases h1

end LintProdG
end CG
