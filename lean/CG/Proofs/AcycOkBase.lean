/- C18 total correctness helpers: generic "the call succeeds" lemmas for `add`, `set_type`, the chaining connects and
   `add_subcircuit` with input connections only -/
import CG.Proofs.AcycUnrollSpec
import CG.Proofs.ArithSub
import CG.Proofs.MiterOk
import CG.Proofs.LintLink
import CG.Proofs.SensAcyc
set_option linter.unusedSimpArgs false
set_option linter.unusedVariables false
namespace CG
namespace AU
open Circuit
open Tx (addC)

/-- a plain `add` succeeds when its two `connect` calls do -/
theorem addC_ok_conn (c : Circuit) (a : AddArgs) (hu : a.uid = false) (hac : a.addConnected = false)
    (hfresh : c.has a.n = false) (hsup : T.supported.contains a.ty = true)
    (h0 : ¬ (1 < a.fanin.length ∧ a.ty ∈ T.addL 0)) (h1 : ¬ (¬ a.fanin = [] ∧ a.ty ∈ T.addL 1))
    (hname : Limit.NameOK a.n) (c3 c4 : Circuit)
    (e1 : (c.addNodeAttr a.n { ty := some a.ty, out := some a.output }).connect [a.n] a.fanout = (c3, .ok))
    (e2 : c3.connect a.fanin [a.n] = (c4, .ok)) :
    addC c a = .ok c4 := by
  have hadd : c.add a = (c4, .ok, a.n) := by
    unfold Circuit.add
    simp only [hu, Bool.false_eq_true, if_false]
    have hsup' : a.ty ∈ T.supported := List.contains_iff_mem.1 hsup
    simp [hfresh, hsup', h0, h1, hname.1, hname.2, hac, e1, e2]
  unfold Tx.addC addE
  rw [hadd]
  rfl

theorem nameOK_of (x : Name) (h1 : x ≠ "") (h2 : isDigit0 x = false) : Limit.NameOK x := by
  refine ⟨h2, ?_⟩
  cases h : x.isEmpty with
  | false => rfl
  | true => exact absurd (String.isEmpty_iff.1 h) h1

/-! ### the shared inputs -/

theorem ok_inputs : ∀ (l : List Name) (A : Circuit), LintLink.NoDots A → (∀ n ∈ l, A.has n = false) → l.Nodup →
    (∀ n ∈ l, Limit.NameOK n ∧ hasDot n = false) →
    ∃ r, l.foldlM (fun a n => addC a { n := n, ty := "input" }) A = .ok r ∧ LintLink.NoDots r := by
  intro l
  induction l with
  | nil =>
    intro A hA _ _ _
    exact ⟨A, rfl, hA⟩
  | cons n l ih =>
    intro A hA hfr hnd hnm
    rw [List.nodup_cons] at hnd
    have e1 : (A.addNodeAttr n { ty := some "input", out := some false }).connect [n] [] =
        (A.addNodeAttr n { ty := some "input", out := some false }, .ok) := connect_empty_right _ _
    have e2 : (A.addNodeAttr n { ty := some "input", out := some false }).connect [] [n] =
        (A.addNodeAttr n { ty := some "input", out := some false }, .ok) := connect_empty_left _ _
    have hadd : addC A { n := n, ty := "input" } = .ok (A.addNodeAttr n { ty := some "input", out := some false }) := by
      apply addC_ok_conn A { n := n, ty := "input" } rfl rfl (hfr n (by simp)) (show T.supported.contains "input" = true by decide)
        (fun h => absurd h.1 (show ¬ 1 < 0 by decide)) (fun h => h.1 rfl) (hnm n (by simp)).1 _ _ e1 e2
    have hA1 : LintLink.NoDots (A.addNodeAttr n { ty := some "input", out := some false }) :=
      LintLink.NoDots.addC hA (a := { n := n, ty := "input" }) (hnm n (by simp)).2 rfl rfl hadd
    obtain ⟨r, hr, hrd⟩ := ih (A.addNodeAttr n { ty := some "input", out := some false }) hA1
      (by
        intro m hm
        rw [addNodeAttr_has, hfr m (by simp [hm])]
        have : m ≠ n := fun e => hnd.1 (e ▸ hm)
        simp [this])
      hnd.2 (fun m hm => hnm m (by simp [hm]))
    refine ⟨r, ?_, hrd⟩
    rw [List.foldlM_cons, hadd]
    exact hr

/-! ### `set_type(.., "input")` -/

theorem setType_single_ok (A : Circuit) (x : Name) (h : A.has x = true) :
    A.setType [x] "input" = (A.setTyRaw x "input", .ok) := by
  unfold setType
  rw [if_neg (by decide)]
  rw [setType.go, if_pos h, setType.go]

theorem ok_setTypeFold (tgt : Name → Name) : ∀ (F : List Name) (A : Circuit), (∀ f ∈ F, A.has (tgt f) = true) →
    ∃ B, F.foldlM (fun a f => liftO (a.setType [tgt f] "input")) A = .ok B := by
  intro F
  induction F with
  | nil => intro A _; exact ⟨A, rfl⟩
  | cons f F ih =>
    intro A h
    obtain ⟨B, hB⟩ := ih (A.setTyRaw (tgt f) "input") (fun g hg => by rw [setTyRaw_has]; exact h g (by simp [hg]))
    refine ⟨B, ?_⟩
    rw [List.foldlM_cons, setType_single_ok A _ (h f (by simp))]
    exact hB

/-! ### the chaining connects -/

theorem ok_connectFold (src tgt : Name → Name) : ∀ (F : List Name) (A : Circuit), WF A → (F.map tgt).Nodup →
    (∀ f ∈ F, A.ty? (tgt f) = some "buf" ∧ A.fanin (tgt f) = []) →
    (∀ f ∈ F, ∃ t, A.ty? (src f) = some t ∧ t ≠ "bb_input" ∧ t ≠ "bb_output") →
    ∃ B, F.foldlM (fun a f => liftO (a.connect [src f] [tgt f])) A = .ok B := by
  intro F
  induction F with
  | nil => intro A _ _ _ _; exact ⟨A, rfl⟩
  | cons f F ih =>
    intro A hA hnd ht hs
    rw [List.map_cons, List.nodup_cons] at hnd
    obtain ⟨A1, h1⟩ := Arith.connect_succeeds A [src f] [tgt f]
      (by intro u hu; simp only [List.mem_singleton] at hu; subst hu; exact hs f (by simp))
      (by
        intro v hv; simp only [List.mem_singleton] at hv; subst hv
        refine ⟨"buf", (ht f (by simp)).1, by decide, fun _ => ?_⟩
        rw [(ht f (by simp)).2]; simp)
    have hn1 := (connect_ok h1).1
    have k1 : KeepsX [tgt f] A A1 := keeps_connect h1
    obtain ⟨B, hB⟩ := ih A1 (wf_connect h1 hA) hnd.2
      (by
        intro g hg
        have hne : tgt g ∉ [tgt f] := by
          simp only [List.mem_singleton]
          intro e
          exact hnd.1 (e ▸ List.mem_map.2 ⟨g, hg, rfl⟩)
        obtain ⟨_, k2, k3⟩ := k1 (tgt g) (has_of_ty? (ht g (by simp [hg])).1) hne
        exact ⟨k2.trans (ht g (by simp [hg])).1, k3.trans (ht g (by simp [hg])).2⟩)
      (by
        intro g hg
        obtain ⟨t, h2, h3⟩ := hs g (by simp [hg])
        exact ⟨t, by rw [ty?_congr hn1]; exact h2, h3⟩)
    refine ⟨B, ?_⟩
    rw [List.foldlM_cons, h1]
    exact hB

/-! ### `add_subcircuit` wiring inputs only -/

theorem addSub_ins_ok {P sc : Circuit} (hP : WF P) (hsc : WF sc) (name : Name) (ins : List Name)
    (hbbs : sc.bbs = [])
    (hclash : ∀ n, sc.has n = true → P.has (pref name n) = false)
    (htyped : ∀ p ∈ sc.nodes, ∃ t, p.2.ty = some t)
    (hins : ∀ q ∈ ins, q ∈ sc.inputs ∧ sc.fanin q = [] ∧
      ∃ t, P.ty? q = some t ∧ t ≠ "bb_input" ∧ t ≠ "bb_output")
    (hinsnd : ins.Nodup) :
    ∃ P', P.addSubcircuit sc name (ins.map (fun q => (q, [q]))) true = (P', .ok) := by
  have c1 : (sc.bbs.any fun p => (P.bbs.lookup (pref name p.1)).isSome) = false := by rw [hbbs]; rfl
  have c2 : (sc.nodeNames.any fun n => P.has (pref name n)) = false := by
    rw [List.any_eq_false]
    intro n hn
    rw [hclash n ((has_iff_mem sc n).2 hn)]
    simp
  have c3 : (sc.nodes.any fun p => p.2.ty.isNone) = false := by
    rw [List.any_eq_false]
    intro p hp
    obtain ⟨t, ht⟩ := htyped p hp
    rw [ht]; simp
  have c4 : ((ins.map (fun q => (q, [q]))).any
      fun p => !sc.inputs.contains p.1 && !sc.outputs.contains p.1) = false := by
    rw [List.any_eq_false]
    intro p hp
    obtain ⟨q, hq, rfl⟩ := List.mem_map.1 hp
    have := List.contains_iff_mem.2 (hins q hq).1
    simp only [this, Bool.not_true, Bool.false_and, Bool.false_eq_true, not_false_eq_true]
  have hsub : ((ins.map (fun q => (q, [q]))).map (fun p =>
      if sc.inputs.contains p.1 then (p.2, [pref name p.1]) else ([pref name p.1], p.2))) =
      (ins.map (fun q => (q, pref name q))).map (fun q => ([q.1], [q.2])) := by
    rw [List.map_map, List.map_map]
    apply List.map_congr_left
    intro q hq
    simp only [Function.comp]
    rw [if_pos (List.contains_iff_mem.2 (hins q hq).1)]
  suffices key : ∃ P', (subPre P sc name).connectAll (subConns sc name (ins.map (fun q => (q, [q])))) = (P', .ok) by
    obtain ⟨P', hP'⟩ := key
    refine ⟨P', ?_⟩
    unfold addSubcircuit
    simp only [c1, c2, c3, c4, Bool.false_eq_true, if_false, if_true]
    exact hP'
  unfold subConns
  rw [hsub]
  apply Arith.connectAll_singles_ok
  · rw [List.map_map]
    exact nodup_map_of_inj hinsnd (fun x _ y _ e => pref_inj name e)
  · intro q hq
    obtain ⟨q0, hq0, rfl⟩ := List.mem_map.1 hq
    obtain ⟨h1, h2, t, ht, hb⟩ := hins q0 hq0
    refine ⟨⟨t, ?_, hb⟩, "buf", ?_, by decide, ?_⟩
    · rw [Arith.subPre_ty_parent hP hsc name hclash (has_of_ty? ht)]; exact ht
    · obtain ⟨a, ha⟩ := has_exists (mem_inputs_has h1)
      rw [Arith.subPre_ty_child hP hsc name hclash ha]
      exact Arith.stripA_input ((mem_inputs_of_mem hsc.nodup ha).1 h1)
    · intro _
      rw [Arith.subPre_fanin_child hP hsc name hclash (mem_inputs_has h1), h2]
      rfl

end AU
end CG
