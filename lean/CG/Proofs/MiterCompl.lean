/- helper lemmas for C04 (miter): building a consistent valuation of the miter; the miter is `C01.Clean` -/
import CG.Proofs.MiterSem
set_option linter.unusedSimpArgs false
set_option linter.unusedVariables false
namespace CG
namespace Miter
open Circuit

theorem gateFn_buf0 : gateFn "buf" [] = none := by
  unfold gateFn
  simp

theorem stripA_cases (a : Attr) {t : String} (h : (stripA a).ty = some t) :
    (a.ty = some "input" ∧ t = "buf") ∨ (a.ty = some t ∧ t ≠ "input") := by
  unfold stripA at h
  by_cases hi : a.ty = some "input"
  · simp only [hi, if_true] at h
    injection h with h
    exact Or.inl ⟨hi, h.symm⟩
  · simp only [hi, if_false] at h
    refine Or.inr ⟨h, ?_⟩
    rintro rfl
    exact hi h

theorem ty?_of_mem {c : Circuit} (hnd : c.nodeNames.Nodup) {q : Name × Attr} (hq : q ∈ c.nodes) {t : String}
    (ht : q.2.ty = some t) : c.ty? q.1 = some t := by
  rw [ty?, attr?_of_mem hnd (a := q.2) hq]
  exact ht

theorem has_of_mem {c : Circuit} {q : Name × Attr} (hq : q ∈ c.nodes) : c.has q.1 = true :=
  (has_iff_mem c q.1).2 (List.mem_map.2 ⟨q, hq, rfl⟩)

/-! ### the valuation -/

def valList (c0 c1 : Circuit) (sp ep : List Name) (v0 v1 : Val) : List (Name × Bool) :=
  c0.nodes.map (fun p => (pref "c0" p.1, v0 p.1)) ++ c1.nodes.map (fun p => (pref "c1" p.1, v1 p.1)) ++
    sp.map (fun s => (s, v0 s)) ++ [("sat", ep.any (fun e => v0 e != v1 e))] ++
    ep.map (fun e => (dif e, v0 e != v1 e))

def mval (c0 c1 : Circuit) (sp ep : List Name) (v0 v1 : Val) : Val :=
  fun x => ((valList c0 c1 sp ep v0 v1).lookup x).getD false

section view
variable {c0 c1 m : Circuit} {sp ep : List Name}

theorem MView.valKeys (V : MView c0 c1 sp ep m) (v0 v1 : Val) :
    (valList c0 c1 sp ep v0 v1).map (·.1) = m.nodeNames := by
  unfold valList Circuit.nodeNames
  rw [V.nodes]
  simp [nodesOf, tieNodes, satNode, difNodes, List.map_append, List.map_map, Function.comp_def]

theorem MView.mval_of_mem (V : MView c0 c1 sp ep m) (v0 v1 : Val) {x : Name} {b : Bool}
    (h : (x, b) ∈ valList c0 c1 sp ep v0 v1) : mval c0 c1 sp ep v0 v1 x = b := by
  unfold mval
  rw [lookup_of_mem_nodup (by rw [V.valKeys]; exact V.wf.nodup) h]
  rfl

theorem MView.mval_c0 (V : MView c0 c1 sp ep m) (v0 v1 : Val) {n : Name} (hn : c0.has n = true) :
    mval c0 c1 sp ep v0 v1 (pref "c0" n) = v0 n := by
  obtain ⟨a, ha⟩ := has_exists hn
  apply V.mval_of_mem
  unfold valList
  simp only [List.mem_append]
  exact Or.inl (Or.inl (Or.inl (Or.inl (List.mem_map.2 ⟨(n, a), ha, rfl⟩))))

theorem MView.mval_c1 (V : MView c0 c1 sp ep m) (v0 v1 : Val) {n : Name} (hn : c1.has n = true) :
    mval c0 c1 sp ep v0 v1 (pref "c1" n) = v1 n := by
  obtain ⟨a, ha⟩ := has_exists hn
  apply V.mval_of_mem
  unfold valList
  simp only [List.mem_append]
  exact Or.inl (Or.inl (Or.inl (Or.inr (List.mem_map.2 ⟨(n, a), ha, rfl⟩))))

theorem MView.mval_tie (V : MView c0 c1 sp ep m) (v0 v1 : Val) {s : Name} (hs : s ∈ sp) :
    mval c0 c1 sp ep v0 v1 s = v0 s := by
  apply V.mval_of_mem
  unfold valList
  simp only [List.mem_append]
  exact Or.inl (Or.inl (Or.inr (List.mem_map.2 ⟨s, hs, rfl⟩)))

theorem MView.mval_sat (V : MView c0 c1 sp ep m) (v0 v1 : Val) :
    mval c0 c1 sp ep v0 v1 "sat" = ep.any (fun e => v0 e != v1 e) := by
  apply V.mval_of_mem
  unfold valList
  simp only [List.mem_append]
  exact Or.inl (Or.inr (by simp))

theorem MView.mval_dif (V : MView c0 c1 sp ep m) (v0 v1 : Val) {e : Name} (he : e ∈ ep) :
    mval c0 c1 sp ep v0 v1 (dif e) = (v0 e != v1 e) := by
  apply V.mval_of_mem
  unfold valList
  simp only [List.mem_append]
  exact Or.inr (List.mem_map.2 ⟨e, he, rfl⟩)

/-- the equation of a copied node, from a consistent valuation of the original -/
theorem copy_ok {c : Circuit} {name : Name} {w v : Val} (hc : WF c) (hw : Consistent c w)
    (hval : ∀ n, c.has n = true → v (pref name n) = w n)
    (hnf : ∀ n ∈ c.inputs, c.fanin n = []) (hsp : ∀ s ∈ sp, s ∈ c.inputs) (hvs : ∀ s ∈ sp, v s = w s)
    {q : Name × Attr} (hq : q ∈ c.nodes) {t : String} (ht : (stripA q.2).ty = some t)
    (fan : m.fanin (pref name q.1) = (c.fanin q.1).map (pref name) ++ (if q.1 ∈ sp then [q.1] else [])) :
    NodeOK m v (pref name q.1) t := by
  intro b hb
  rw [fan] at hb
  rcases stripA_cases q.2 ht with ⟨hi, rfl⟩ | ⟨hty, hne⟩
  · have hin : q.1 ∈ c.inputs := (mem_inputs_of_mem hc.nodup (a := q.2) hq).2 hi
    rw [hnf _ hin] at hb
    by_cases hs : q.1 ∈ sp
    · rw [if_pos hs] at hb
      simp only [List.map_nil, List.nil_append, List.map_cons] at hb
      rw [gateFn_buf1] at hb
      injection hb with hb
      rw [hval _ (has_of_mem hq), ← hvs _ hs]
      exact hb
    · rw [if_neg hs] at hb
      simp only [List.map_nil, List.nil_append] at hb
      rw [gateFn_buf0] at hb
      cases hb
  · have hns : q.1 ∉ sp := by
      intro hs
      have := (mem_inputs_of_mem hc.nodup (a := q.2) hq).1 (hsp _ hs)
      rw [hty] at this; injection this with this; exact hne this
    rw [if_neg hns, List.append_nil, List.map_map] at hb
    have e : (c.fanin q.1).map (v ∘ pref name) = (c.fanin q.1).map w := by
      apply List.map_congr_left
      intro u hu
      exact hval u (hc.closed (u, q.1) (mem_fanin.1 hu)).1
    rw [e] at hb
    rw [hval _ (has_of_mem hq)]
    exact hw q hq t hty b hb

theorem MView.complete' (V : MView c0 c1 sp ep m) (h0 : WF c0) (h1 : WF c1)
    (hsp : sp.Nodup) (hep : ep.Nodup)
    (hin0 : ∀ s ∈ sp, s ∈ c0.inputs) (hin1 : ∀ s ∈ sp, s ∈ c1.inputs)
    (hnf0 : ∀ n ∈ c0.inputs, c0.fanin n = []) (hnf1 : ∀ n ∈ c1.inputs, c1.fanin n = [])
    (hep0 : ∀ e ∈ ep, c0.has e = true ∧ c1.has e = true)
    (v0 v1 : Val) (hv0 : Consistent c0 v0) (hv1 : Consistent c1 v1) (hag : ∀ s ∈ sp, v0 s = v1 s) :
    Consistent m (mval c0 c1 sp ep v0 v1) := by
  intro p hp t ht
  rcases V.cases hp with ⟨q, hq, rfl⟩ | ⟨q, hq, rfl⟩ | ⟨s, hs, rfl⟩ | rfl | ⟨e, he, rfl⟩
  · exact copy_ok h0 hv0 (fun n hn => V.mval_c0 v0 v1 hn) hnf0 hin0 (fun s hs => V.mval_tie v0 v1 hs) hq ht
      (V.fanin_c0 hsp q.1)
  · exact copy_ok h1 hv1 (fun n hn => V.mval_c1 v0 v1 hn) hnf1 hin1
      (fun s hs => by rw [V.mval_tie v0 v1 hs]; exact hag s hs) hq ht (V.fanin_c1 hsp q.1)
  · simp only [] at ht
    injection ht with ht
    subst ht
    intro b hb
    rw [gateFn_input] at hb
    cases hb
  · simp only [satNode] at ht
    injection ht with ht
    subst ht
    intro b hb
    simp only [satNode] at hb ⊢
    rw [V.fanin_sat, List.map_map] at hb
    have e : ep.map (mval c0 c1 sp ep v0 v1 ∘ dif) = ep.map (fun e => v0 e != v1 e) := by
      apply List.map_congr_left
      intro e he
      exact V.mval_dif v0 v1 he
    rw [e, gateFn_satTy' ep] at hb
    injection hb with hb
    rw [V.mval_sat]
    exact hb
  · simp only [] at ht
    injection ht with ht
    subst ht
    intro b hb
    simp only [] at hb ⊢
    rw [V.fanin_dif hep he] at hb
    simp only [List.map_cons, List.map_nil] at hb
    rw [V.mval_c0 v0 v1 (hep0 e he).1, V.mval_c1 v0 v1 (hep0 e he).2, gateFn_xor2] at hb
    injection hb with hb
    rw [V.mval_dif v0 v1 he]
    exact hb

/-- (old signature, kept for the users that have `ep ≠ []` at hand) -/
theorem MView.complete (V : MView c0 c1 sp ep m) (h0 : WF c0) (h1 : WF c1)
    (hsp : sp.Nodup) (hep : ep.Nodup) (hne : ep ≠ [])
    (hin0 : ∀ s ∈ sp, s ∈ c0.inputs) (hin1 : ∀ s ∈ sp, s ∈ c1.inputs)
    (hnf0 : ∀ n ∈ c0.inputs, c0.fanin n = []) (hnf1 : ∀ n ∈ c1.inputs, c1.fanin n = [])
    (hep0 : ∀ e ∈ ep, c0.has e = true ∧ c1.has e = true)
    (v0 v1 : Val) (hv0 : Consistent c0 v0) (hv1 : Consistent c1 v1) (hag : ∀ s ∈ sp, v0 s = v1 s) :
    Consistent m (mval c0 c1 sp ep v0 v1) :=
  V.complete' h0 h1 hsp hep hin0 hin1 hnf0 hnf1 hep0 v0 v1 hv0 hv1 hag

end view

end Miter
end CG
