/- C17 (algorithm) helpers, part 3: strict dominators of a cone, the immediate dominator -/
import CG.Proofs.SGAlgoCone
set_option linter.unusedSectionVars false
set_option linter.unusedVariables false
set_option linter.unusedSimpArgs false
namespace CG
namespace SGA
open Query Supergates Q

/-- `d` strictly dominates `x` in the cone of `o` -/
def SD (c2 : Circuit) (o d x : Name) : Prop := d ∈ coneOf c2 o ∧ d ≠ x ∧ ¬ Rd c2 o d x

theorem mem_reachAvoid_cone (c2 : Circuit) (o d x : Name) :
    x ∈ reachAvoid (gSucc c2 (coneOf c2 o) o) (coneOf c2 o).length o d ↔ Rd c2 o d x :=
  mem_reachAvoid _ (coneOf c2 o) (fun a _ hb => gE_mem c2 (x := a) hb) _ (Nat.le_refl _) o d x (root_mem_cone c2 o)

theorem mem_sdoms (c2 : Circuit) (o d x : Name) :
    d ∈ sdoms (gSucc c2 (coneOf c2 o) o) (coneOf c2 o) o x ↔ SD c2 o d x := by
  unfold sdoms SD
  rw [List.mem_filter, Bool.and_eq_true, bne_iff_ne, Bool.not_eq_true', ← Bool.not_eq_true,
    List.contains_iff_mem, mem_reachAvoid_cone]

theorem cone_rch (c2 : Circuit) (hwf : WF c2) {o x : Name} (hx : x ∈ coneOf c2 o) : Rch (gE c2 o) o x := by
  obtain ⟨k, hp⟩ := (mem_cone c2 hwf o x).mp hx
  induction hp with
  | nil a => exact .refl a (fun h => h)
  | @cons a m b k he hp ih =>
    have hm : m ∈ coneOf c2 b := (mem_cone c2 hwf b m).mpr ⟨k, hp⟩
    exact .step (ih hm) (gE_back c2 hwf he hm) (fun h => h)

/-- a node that cannot be reached avoiding `d` lies below `d` -/
theorem ancR_of_not_Rd (c2 : Circuit) (hwf : WF c2) {o d x : Name} (hx : x ∈ coneOf c2 o) (h : ¬ Rd c2 o d x) :
    AncR c2 x d := by
  have hxo := (mem_cone c2 hwf o x).mp hx
  refine Classical.byContradiction (fun hn => h ?_)
  have hod : o ≠ d := fun hod => hn (hod ▸ hxo)
  exact Rd_back_star c2 hwf hxo (Rd_root c2 hod) (fun z hz _ hzd => hn (hzd ▸ hz))

theorem SD.mem {c2 : Circuit} {o d x : Name} (h : SD c2 o d x) : d ∈ coneOf c2 o := h.1

theorem SD.anc {c2 : Circuit} (hwf : WF c2) {o d x : Name} (h : SD c2 o d x) (hx : x ∈ coneOf c2 o) : Anc c2 x d := by
  rcases (ancR_of_not_Rd c2 hwf hx h.2.2).cases with h' | h'
  · exact absurd h'.symm h.2.1
  · exact h'

theorem SD_root (c2 : Circuit) {o x : Name} (hxo : x ≠ o) : SD c2 o o x :=
  ⟨root_mem_cone c2 o, fun h => hxo h.symm, fun h => h.start_ok rfl⟩

theorem not_SD_root (c2 : Circuit) {o d : Name} : ¬ SD c2 o d o :=
  fun h => h.2.2 (Rd_root c2 (fun h' => h.2.1 h'.symm))

theorem SD_trans (c2 : Circuit) (hwf : WF c2) (hac : Acyclic c2) {o d e x : Name} (h1 : SD c2 o d e)
    (h2 : SD c2 o e x) (hx : x ∈ coneOf c2 o) : SD c2 o d x := by
  refine ⟨h1.1, ?_, dom_trans h1.2.2 h2.2.2⟩
  intro hdx
  subst hdx
  exact anc_asymm hac (h1.anc hwf h2.1) (h2.anc hwf hx)

theorem SD_asymm (c2 : Circuit) (hwf : WF c2) (hac : Acyclic c2) {o d x : Name} (h1 : SD c2 o d x)
    (h2 : SD c2 o x d) : False :=
  anc_asymm hac (h1.anc hwf h2.1) (h2.anc hwf h1.1)

theorem SD_chain (c2 : Circuit) (hwf : WF c2) {o d e x : Name} (hx : x ∈ coneOf c2 o) (hd : SD c2 o d x)
    (he : SD c2 o e x) (hne : d ≠ e) : SD c2 o d e ∨ SD c2 o e d := by
  rcases dom_chain (cone_rch c2 hwf hx) hne hd.2.2 he.2.2 with h | h
  · exact Or.inr ⟨he.1, fun h' => hne h'.symm, h⟩
  · exact Or.inl ⟨hd.1, hne, h⟩

theorem filter_length_lt {α} (p q : α → Bool) : ∀ (l : List α), (∀ a ∈ l, p a = true → q a = true) →
    (∃ a ∈ l, q a = true ∧ p a = false) → (l.filter p).length < (l.filter q).length
  | [], _, h => by obtain ⟨a, ha, _⟩ := h; exact absurd ha List.not_mem_nil
  | x :: xs, himp, hex => by
    have hle : (xs.filter p).length ≤ (xs.filter q).length := by
      clear hex
      induction xs with
      | nil => simp
      | cons y ys ih =>
        have hy := himp y (List.mem_cons_of_mem _ List.mem_cons_self)
        have ih' := ih (fun a ha => himp a (by
          rcases List.mem_cons.mp ha with h | h
          · exact h ▸ List.mem_cons_self
          · exact List.mem_cons_of_mem _ (List.mem_cons_of_mem _ h)))
        by_cases hpy : p y = true
        · simp [hpy, hy hpy]; omega
        · simp only [Bool.not_eq_true] at hpy
          by_cases hqy : q y = true
          · simp [hpy, hqy]; omega
          · simp only [Bool.not_eq_true] at hqy
            simp [hpy, hqy]; omega
    obtain ⟨a, ha, hqa, hpa⟩ := hex
    rcases List.mem_cons.mp ha with h | h
    · subst h
      simp [hqa, hpa]; omega
    · have ih := filter_length_lt p q xs (fun b hb => himp b (List.mem_cons_of_mem _ hb)) ⟨a, h, hqa, hpa⟩
      have hx := himp x List.mem_cons_self
      by_cases hpx : p x = true
      · simp [hpx, hx hpx]; omega
      · simp only [Bool.not_eq_true] at hpx
        by_cases hqx : q x = true
        · simp [hpx, hqx]; omega
        · simp only [Bool.not_eq_true] at hqx
          simp [hpx, hqx]; omega

/-- depth in the dominator tree -/
def depthOf (c2 : Circuit) (o x : Name) : Nat := (sdoms (gSucc c2 (coneOf c2 o) o) (coneOf c2 o) o x).length

theorem depth_lt (c2 : Circuit) (hwf : WF c2) (hac : Acyclic c2) {o d x : Name} (h : SD c2 o d x)
    (hx : x ∈ coneOf c2 o) : depthOf c2 o d < depthOf c2 o x := by
  unfold depthOf sdoms
  apply filter_length_lt
  · intro a ha hp
    have h1 : SD c2 o a d := (mem_sdoms c2 o a d).mp (List.mem_filter.mpr ⟨ha, hp⟩)
    exact (List.mem_filter.mp ((mem_sdoms c2 o a x).mpr (SD_trans c2 hwf hac h1 h hx))).2
  · refine ⟨d, h.1, (List.mem_filter.mp ((mem_sdoms c2 o d x).mpr h)).2, ?_⟩
    rw [← Bool.not_eq_true]
    intro hp
    have h1 : SD c2 o d d := (mem_sdoms c2 o d d).mp (List.mem_filter.mpr ⟨h.1, hp⟩)
    exact h1.2.1 rfl

/-- the parent in the dominator tree of the cone of `o` -/
abbrev par (c2 : Circuit) (o x : Name) : Option Name := idom (gSucc c2 (coneOf c2 o) o) (coneOf c2 o) o x

theorem par_root (c2 : Circuit) (o : Name) : par c2 o o = none := by
  unfold par idom
  simp

/-- `m` is the immediate dominator of `x` -/
def IsIdom (c2 : Circuit) (o m x : Name) : Prop := SD c2 o m x ∧ ∀ d, SD c2 o d x → d = m ∨ SD c2 o d m

theorem isIdom_unique (c2 : Circuit) (hwf : WF c2) (hac : Acyclic c2) {o m m' x : Name} (h : IsIdom c2 o m x)
    (h' : IsIdom c2 o m' x) : m = m' := by
  rcases h.2 m' h'.1 with h1 | h1
  · exact h1.symm
  · rcases h'.2 m h.1 with h2 | h2
    · exact h2
    · exact (SD_asymm c2 hwf hac h1 h2).elim

theorem par_spec (c2 : Circuit) (hwf : WF c2) (hac : Acyclic c2) {o x : Name} (hx : x ∈ coneOf c2 o) (hxo : x ≠ o) :
    ∃ m, par c2 o x = some m ∧ IsIdom c2 o m x := by
  unfold par
  rw [idom_eq_fold, if_neg (by simpa using hxo)]
  have hne : sdoms (gSucc c2 (coneOf c2 o) o) (coneOf c2 o) o x ≠ [] :=
    List.ne_nil_of_mem ((mem_sdoms c2 o o x).mpr (SD_root c2 hxo))
  obtain ⟨m, h1, h2, h3⟩ := foldl_pick (fun d => (sdoms (gSucc c2 (coneOf c2 o) o) (coneOf c2 o) o d).length) _ hne
  have hm : SD c2 o m x := (mem_sdoms c2 o m x).mp h2
  refine ⟨m, h1, hm, ?_⟩
  intro d hd
  by_cases hdm : d = m
  · exact Or.inl hdm
  · rcases SD_chain c2 hwf hx hd hm hdm with h | h
    · exact Or.inr h
    · have := h3 d ((mem_sdoms c2 o d x).mpr hd)
      have hlt := depth_lt c2 hwf hac h hd.1
      unfold depthOf at hlt
      omega

theorem par_eq_iff (c2 : Circuit) (hwf : WF c2) (hac : Acyclic c2) {o x m : Name} (hx : x ∈ coneOf c2 o) :
    par c2 o x = some m ↔ IsIdom c2 o m x := by
  by_cases hxo : x = o
  · subst hxo
    rw [par_root]
    constructor
    · intro h; cases h
    · intro h; exact absurd h.1 (not_SD_root c2)
  · obtain ⟨m', h1, h2⟩ := par_spec c2 hwf hac hx hxo
    rw [h1]
    constructor
    · intro h; cases h; exact h2
    · intro h; rw [isIdom_unique c2 hwf hac h2 h]

theorem par_SD (c2 : Circuit) (hwf : WF c2) (hac : Acyclic c2) {o x m : Name} (hx : x ∈ coneOf c2 o)
    (h : par c2 o x = some m) : SD c2 o m x := ((par_eq_iff c2 hwf hac hx).mp h).1

end SGA
end CG
