/- the `add(..., uid=True)` calls of limit_fanin / limit_fanout evaluated symbolically (C05 helper) -/
import CG.Proofs.LimitOps
namespace CG
namespace Limit
open Circuit

theorem add_uid_ok (c : Circuit) (base ty : String) (fi fo : List Name) (r : Name)
    (hr : c.uid base = some r) (hok : NameOK r)
    (hsup : ty ∈ T.supported)
    (h0 : ¬ (1 < fi.length ∧ ty ∈ T.addL 0))
    (h1 : ty ∉ T.addL 1)
    (hfo : fo.isEmpty = false) (hfi : fi.isEmpty = false)
    (hk1 : (c.addNodeAttr r { ty := some ty, out := some false }).connectCheck [r] fo = none)
    (hk2 : ((c.addNodeAttr r { ty := some ty, out := some false }).addEdges [r] fo).connectCheck fi [r] = none) :
    c.add { n := base, ty := ty, fanin := fi, fanout := fo, uid := true } =
      (((c.addNodeAttr r { ty := some ty, out := some false }).addEdges [r] fo).addEdges fi [r], .ok, r) := by
  unfold Circuit.add
  simp only [hr, if_true]
  simp [hsup, h0, h1, hok.1, hok.2, Circuit.connect, hk1, hk2, hfo, hfi]

theorem addNodeAttr_fresh (c : Circuit) (r : Name) (a : Attr) (h : c.has r = false) :
    c.addNodeAttr r a = { c with nodes := c.nodes ++ [(r, a)] } := by
  simp [Circuit.addNodeAttr, h]

theorem addEdge_new (c : Circuit) (u v : Name) (h : (u, v) ∉ c.edges) :
    c.addEdge u v = { c with edges := c.edges ++ [(u, v)] } := by
  simp [Circuit.addEdge, h]

theorem fresh_not_edge {c : Circuit} (hc : WF c) {r : Name} (hr : c.has r = false) :
    ∀ e ∈ c.edges, e.1 ≠ r ∧ e.2 ≠ r := by
  intro e he
  have := hc.closed e he
  constructor
  · rintro rfl; rw [hr] at this; exact absurd this.1 (by simp)
  · rintro rfl; rw [hr] at this; exact absurd this.2 (by simp)

/-! ### facts about the type strings -/

theorem multi_facts {t : String} (h : t ∈ multiTypes) :
    (T.connectL 0).contains t = false ∧ (T.connectL 1).contains t = false ∧ t ≠ "buf" ∧
      t ∉ sourceTypes ∧ t ∉ singleTypes ∧ t ≠ "bb_output" ∧ t ≠ "bb_input" := by
  rw [T_connectL0, T_connectL1]
  simp only [multiTypes, List.mem_cons, List.not_mem_nil, or_false] at h
  rcases h with rfl | rfl | rfl | rfl | rfl | rfl <;> decide

theorem gate_facts {g : String} (h : g ∈ ["and", "or", "xor"]) :
    g ∈ T.supported ∧ g ∉ T.addL 0 ∧ g ∉ T.addL 1 ∧ (T.connectL 2).contains g = false ∧
      (T.connectL 3).contains g = false ∧ g ∈ multiTypes ∧ g ≠ "input" ∧ g ∈ Expected.supported_types := by
  rw [T_supported, T_addL0, T_addL1, T_connectL2, T_connectL3]
  simp only [List.mem_cons, List.not_mem_nil, or_false] at h
  rcases h with rfl | rfl | rfl <;> decide

theorem buf_facts :
    "buf" ∈ T.supported ∧ "buf" ∉ T.addL 1 ∧ (T.connectL 0).contains "buf" = false ∧
      (T.connectL 2).contains "buf" = false ∧ (T.connectL 3).contains "buf" = false ∧
      "buf" ∈ Expected.supported_types := by
  rw [T_supported, T_addL1, T_connectL0, T_connectL2, T_connectL3]
  decide

theorem gatemap_facts {t g : String} (h : (t, g) ∈ Expected.gatemap) :
    t ∈ multiTypes ∧ g ∈ ["and", "or", "xor"] := by
  simp only [Expected.gatemap, List.mem_cons, Prod.mk.injEq, List.not_mem_nil, or_false] at h
  rcases h with ⟨rfl, rfl⟩ | ⟨rfl, rfl⟩ | ⟨rfl, rfl⟩ | ⟨rfl, rfl⟩ | ⟨rfl, rfl⟩ | ⟨rfl, rfl⟩ <;> decide

theorem gatemapLookup_multi {t : String} (h : t ∈ multiTypes) :
    ∃ g, Tx.gatemapLookup t = some g ∧ (t, g) ∈ Expected.gatemap := by
  unfold Tx.gatemapLookup
  rw [T_gatemap]
  simp only [multiTypes, List.mem_cons, List.not_mem_nil, or_false] at h
  rcases h with rfl | rfl | rfl | rfl | rfl | rfl
  · exact ⟨"and", by decide, by decide⟩
  · exact ⟨"and", by decide, by decide⟩
  · exact ⟨"or", by decide, by decide⟩
  · exact ⟨"or", by decide, by decide⟩
  · exact ⟨"xor", by decide, by decide⟩
  · exact ⟨"xor", by decide, by decide⟩

/-- a node with more than one fan-in in a lint-clean circuit has a multi-input type -/
theorem multi_of_fanin {c : Circuit} (hc : LintClean c) {n : Name} (hn : c.has n = true)
    (hf : 2 ≤ (c.fanin n).length) : ∃ t, c.ty? n = some t ∧ t ∈ multiTypes := by
  obtain ⟨a, ha⟩ := attr_of_has hn
  obtain ⟨t, ht, hsup⟩ := hc.typed (n, a) (mem_nodes_of_attr ha)
  have hty : c.ty? n = some t := by simp only [Circuit.ty?, ha]; exact ht
  refine ⟨t, hty, ?_⟩
  by_cases h1 : t ∈ sourceTypes
  · have := hc.noFanin n t hty h1; rw [this] at hf; simp at hf
  by_cases h2 : t ∈ singleTypes
  · have := hc.single n t hty h2; omega
  simp only [Expected.supported_types, Expected.addable_types, Expected.primitive_gates, List.cons_append,
    List.nil_append, List.mem_cons, List.not_mem_nil, or_false] at hsup
  simp only [sourceTypes, singleTypes, multiTypes, List.mem_cons, List.not_mem_nil, or_false] at h1 h2 ⊢
  rcases hsup with rfl | rfl | rfl | rfl | rfl | rfl | rfl | rfl | rfl | rfl | rfl | rfl | rfl | rfl <;>
    first | (exact absurd (by decide) h1) | (exact absurd (by decide) h2) | decide

end Limit
end CG
