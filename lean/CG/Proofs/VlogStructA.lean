/- C02 helper (structural netlists): list facts — duplicates, parity, singleton fan-ins -/
import CG.Proofs.Fast
namespace CG
namespace VS

/-! ### `dedup` -/

theorem dedup_nodup {α : Type} [BEq α] [LawfulBEq α] : ∀ l : List α, (dedup l).Nodup
  | [] => List.nodup_nil
  | x :: l => by
    rw [dedup, List.nodup_cons]
    refine ⟨?_, List.Nodup.sublist List.filter_sublist (dedup_nodup l)⟩
    intro h
    have := (List.mem_filter.1 h).2
    simp at this

/-- a list that `dedup` does not shorten has no duplicates -/
theorem nodup_of_dedup_length {α : Type} [BEq α] [LawfulBEq α] :
    ∀ l : List α, ¬ (dedup l).length < l.length → l.Nodup
  | [], _ => List.nodup_nil
  | x :: l, h => by
    rw [dedup, List.length_cons, List.length_cons] at h
    have h1 : ((dedup l).filter (fun y => !(y == x))).length ≤ (dedup l).length := List.length_filter_le _ _
    have h2 := FV.dedup_length_le l
    have e1 : ((dedup l).filter (fun y => !(y == x))).length = (dedup l).length := by omega
    have e2 : ¬ (dedup l).length < l.length := by omega
    rw [List.nodup_cons]
    refine ⟨fun hx => ?_, nodup_of_dedup_length l e2⟩
    have hall := List.length_filter_eq_length_iff.1 e1 x ((FV.dedup_mem l x).2 hx)
    simp at hall

/-! ### parity -/

theorem xorL_map_false {α : Type} : ∀ D : List α, xorL (D.map (fun _ => false)) = false
  | [] => rfl
  | _ :: D => by rw [List.map_cons, xorL, xorL_map_false D]; rfl

theorem xorL_map_congr {α : Type} (f f' : α → Bool) : ∀ D : List α, (∀ x ∈ D, f' x = f x) →
    xorL (D.map f') = xorL (D.map f)
  | [], _ => rfl
  | x :: D, h => by
    rw [List.map_cons, List.map_cons, xorL, xorL, h x (by simp),
      xorL_map_congr f f' D (fun y hy => h y (by simp [hy]))]

/-- changing the summand of one member of a duplicate-free list flips the parity by that change -/
theorem xorL_flip {α : Type} (y : α) (b : Bool) (f f' : α → Bool)
    (hne : ∀ x, x ≠ y → f' x = f x) (hy : f' y = Bool.xor b (f y)) :
    ∀ D : List α, D.Nodup → y ∈ D → xorL (D.map f') = Bool.xor b (xorL (D.map f))
  | [], _, hm => nomatch hm
  | x :: D, hnd, hm => by
    rw [List.nodup_cons] at hnd
    rw [List.map_cons, List.map_cons, xorL, xorL]
    by_cases hxy : x = y
    · subst hxy
      rw [hy, xorL_map_congr f f' D (fun z hz => hne z (fun e => hnd.1 (e ▸ hz)))]
      cases b <;> cases f x <;> cases xorL (D.map f) <;> rfl
    · have hm' : y ∈ D := by
        rcases List.mem_cons.1 hm with e | e
        · exact absurd e.symm hxy
        · exact e
      rw [hne x hxy, xorL_flip y b f f' hne hy D hnd.2 hm']
      cases b <;> cases f x <;> cases xorL (D.map f) <;> rfl

theorem xorL_count {α : Type} [BEq α] [LawfulBEq α] (g : α → Bool) (D : List α) (hD : D.Nodup) :
    ∀ l : List α, (∀ x ∈ l, x ∈ D) → xorL (l.map g) = xorL (D.map (fun x => (l.count x % 2 == 1) && g x))
  | [], _ => by
    have : (fun x : α => (([] : List α).count x % 2 == 1) && g x) = fun _ => false := by
      funext x; simp
    rw [this, xorL_map_false]; rfl
  | y :: l, h => by
    rw [List.map_cons, xorL, xorL_count g D hD l (fun x hx => h x (by simp [hx]))]
    symm
    apply xorL_flip y (g y) _ _ _ _ D hD (h y (by simp))
    · intro x hx
      have : (y == x) = false := by simpa using fun e : y = x => hx e.symm
      simp only [List.count_cons, this]
      simp
    · simp only [List.count_cons, beq_self_eq_true, if_true]
      rcases Nat.mod_two_eq_zero_or_one (l.count y) with e | e
      · have e' : (l.count y + 1) % 2 = 1 := by omega
        rw [e, e']; cases g y <;> rfl
      · have e' : (l.count y + 1) % 2 = 0 := by omega
        rw [e, e']; cases g y <;> rfl

theorem xorL_filter {α : Type} (p g : α → Bool) : ∀ D : List α,
    xorL (D.map (fun x => p x && g x)) = xorL ((D.filter p).map g)
  | [] => rfl
  | x :: D => by
    rw [List.map_cons, xorL, xorL_filter p g D, List.filter_cons]
    cases hp : p x
    · simp
    · simp [xorL]

/-- the parity of a list is the parity of its members that occur an odd number of times -/
theorem xorL_odd {α : Type} [BEq α] [LawfulBEq α] (g : α → Bool) (l : List α) :
    xorL (((dedup l).filter (fun p => l.count p % 2 == 1)).map g) = xorL (l.map g) := by
  rw [xorL_count g (dedup l) (dedup_nodup l) l (fun x hx => (FV.dedup_mem l x).2 hx), xorL_filter]

/-! ### lists determined by their members -/

theorem eq_singleton_of_nodup {α : Type} {l : List α} {a : α} (hnd : l.Nodup) (h : ∀ x, x ∈ l ↔ x = a) : l = [a] := by
  have : l.Perm [a] := by
    rw [List.perm_ext_iff_of_nodup hnd (by simp : [a].Nodup)]
    intro x; rw [h, List.mem_singleton]
  exact List.perm_singleton.1 this

theorem eq_nil_of_no_mem {α : Type} {l : List α} (h : ∀ x, ¬ x ∈ l) : l = [] := by
  cases l with
  | nil => rfl
  | cons a l => exact absurd (List.mem_cons_self) (h a)

theorem all_map_eq {α β : Type} (f : α → Bool) (g : β → Bool) (l : List α) (m : List β)
    (h1 : ∀ x ∈ l, ∃ y ∈ m, g y = f x) (h2 : ∀ y ∈ m, ∃ x ∈ l, f x = g y) :
    (l.map f).all id = (m.map g).all id := by
  rw [Bool.eq_iff_iff, List.all_eq_true, List.all_eq_true]
  constructor
  · intro h b hb
    obtain ⟨y, hy, rfl⟩ := List.mem_map.1 hb
    obtain ⟨x, hx, e⟩ := h2 y hy
    rw [← e]; exact h _ (List.mem_map.2 ⟨x, hx, rfl⟩)
  · intro h b hb
    obtain ⟨x, hx, rfl⟩ := List.mem_map.1 hb
    obtain ⟨y, hy, e⟩ := h1 x hx
    rw [← e]; exact h _ (List.mem_map.2 ⟨y, hy, rfl⟩)

theorem any_map_eq {α β : Type} (f : α → Bool) (g : β → Bool) (l : List α) (m : List β)
    (h1 : ∀ x ∈ l, ∃ y ∈ m, g y = f x) (h2 : ∀ y ∈ m, ∃ x ∈ l, f x = g y) :
    (l.map f).any id = (m.map g).any id := by
  rw [Bool.eq_iff_iff, List.any_eq_true, List.any_eq_true]
  constructor
  · rintro ⟨b, hb, hv⟩
    obtain ⟨x, hx, rfl⟩ := List.mem_map.1 hb
    obtain ⟨y, hy, e⟩ := h1 x hx
    exact ⟨g y, List.mem_map.2 ⟨y, hy, rfl⟩, by rw [e]; exact hv⟩
  · rintro ⟨b, hb, hv⟩
    obtain ⟨y, hy, rfl⟩ := List.mem_map.1 hb
    obtain ⟨x, hx, e⟩ := h2 y hy
    exact ⟨f x, List.mem_map.2 ⟨x, hx, rfl⟩, by rw [e]; exact hv⟩

/-! ### association lists -/

theorem lookup_map_snd {β γ : Type} (f : β → γ) : ∀ (l : List (Name × β)) (k : Name),
    (l.map (fun p => (p.1, f p.2))).lookup k = (l.lookup k).map f
  | [], _ => rfl
  | p :: l, k => by
    rw [List.map_cons, List.lookup_cons, List.lookup_cons]
    cases k == p.1
    · exact lookup_map_snd f l k
    · rfl

theorem lookup_iff_mem {β : Type} {l : List (Name × β)} (hnd : (l.map (·.1)).Nodup) (k : Name) (b : β) :
    l.lookup k = some b ↔ (k, b) ∈ l :=
  ⟨fun h => lookup_mem h, fun h => lookup_of_mem_nodup hnd h⟩

end VS
end CG
