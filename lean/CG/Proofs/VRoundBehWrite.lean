/- C03 helper (behavioural round trip): what `toWModule c true` emits for a writable blackbox-free circuit -/
import CG.Proofs.VRound
import CG.Proofs.Vlog
namespace CG
namespace VB
open Verilog Circuit

/-- right-hand side the behavioural writer emits for a gate of type `t` with (ordered) fan-in `F` -/
def bexpr (t : String) (F : List Name) : Expr :=
  if t == "buf" then Expr.id (F.headD "")
  else if t == "not" then Expr.not (Expr.id (F.headD ""))
  else
    let body := if t == "xor" || t == "xnor" then chain Expr.xor F
                else if t == "and" || t == "nand" then chain Expr.and F else chain Expr.or F
    if t == "xnor" || t == "nor" || t == "nand" then Expr.not body else body

/-- the assignment (if any) emitted for node `n` -/
def asgOf (ord : Ord) (c : Circuit) (n : Name) : List (Name × Expr) :=
  match c.ty? n with
  | some t =>
    if gateTypes.contains t then (if (ord (c.fanin n)).isEmpty then [] else [(n, bexpr t (ord (c.fanin n)))])
    else if t == "0" || t == "1" || t == "x" then [(n, Expr.const t)] else []
  | none => []

def asgs (ord : Ord) (c : Circuit) : List (Name × Expr) := (ord c.nodeNames).flatMap (asgOf ord c)

/-! ### the writer -/

theorem step_gate (c : Circuit) (ord : Ord) (st : List Item × List Name × List Bool) (n : Name) (t : String)
    (hty : c.ty? n = some t) (hg : gateTypes.contains t = true) :
    ∃ w p, VR.gateStep ord true c st n = .ok (st.1 ++ (asgOf ord c n).map (fun a => Item.assign [a]), w, p) := by
  unfold VR.gateStep asgOf
  rw [hty]
  simp only [hg, if_true]
  cases he : (ord (c.fanin n)).isEmpty with
  | true => exact ⟨_, _, by simp; rfl⟩
  | false =>
    simp only [Bool.false_eq_true, if_false, bexpr]
    repeat' split
    all_goals exact ⟨_, _, rfl⟩

theorem step_const (c : Circuit) (ord : Ord) (st : List Item × List Name × List Bool) (n : Name) (t : String)
    (hty : c.ty? n = some t) (hg : gateTypes.contains t = false) (hk : (t == "0" || t == "1" || t == "x") = true) :
    ∃ w p, VR.gateStep ord true c st n = .ok (st.1 ++ (asgOf ord c n).map (fun a => Item.assign [a]), w, p) := by
  unfold VR.gateStep asgOf
  rw [hty]
  simp only [hg, hk, if_true, Bool.false_eq_true, if_false]
  exact ⟨_, _, rfl⟩

theorem step_skip (c : Circuit) (ord : Ord) (st : List Item × List Name × List Bool) (n : Name) (t : String)
    (hty : c.ty? n = some t) (hg : gateTypes.contains t = false) (hk : (t == "0" || t == "1" || t == "x") = false)
    (hi : (t == "input" || t == "bb_input" || t == "bb_output") = true) :
    ∃ w p, VR.gateStep ord true c st n = .ok (st.1 ++ (asgOf ord c n).map (fun a => Item.assign [a]), w, p) := by
  unfold VR.gateStep asgOf
  rw [hty]
  simp only [hg, hk, hi, if_true, Bool.false_eq_true, if_false, List.map_nil, List.append_nil]
  exact ⟨_, _, rfl⟩

theorem step_ok (c : Circuit) (ord : Ord) (st : List Item × List Name × List Bool) (n : Name) (t : String)
    (hty : c.ty? n = some t) (hsup : t ∈ Expected.supported_types) :
    ∃ w p, VR.gateStep ord true c st n = .ok (st.1 ++ (asgOf ord c n).map (fun a => Item.assign [a]), w, p) := by
  simp only [Expected.supported_types, Expected.addable_types, Expected.primitive_gates, List.mem_append,
    List.mem_cons, List.not_mem_nil, or_false] at hsup
  rcases hsup with ((rfl | rfl | rfl | rfl | rfl | rfl | rfl | rfl) | (rfl | rfl | rfl | rfl)) | (rfl | rfl)
  · exact step_gate c ord st n _ hty (by decide)
  · exact step_gate c ord st n _ hty (by decide)
  · exact step_gate c ord st n _ hty (by decide)
  · exact step_gate c ord st n _ hty (by decide)
  · exact step_gate c ord st n _ hty (by decide)
  · exact step_gate c ord st n _ hty (by decide)
  · exact step_gate c ord st n _ hty (by decide)
  · exact step_gate c ord st n _ hty (by decide)
  · exact step_const c ord st n _ hty (by decide) (by decide)
  · exact step_const c ord st n _ hty (by decide) (by decide)
  · exact step_const c ord st n _ hty (by decide) (by decide)
  · exact step_skip c ord st n _ hty (by decide) (by decide) (by decide)
  · exact step_skip c ord st n _ hty (by decide) (by decide) (by decide)
  · exact step_skip c ord st n _ hty (by decide) (by decide) (by decide)

theorem fold_ok (c : Circuit) (ord : Ord) :
    ∀ (l : List Name) (st : List Item × List Name × List Bool),
    (∀ n ∈ l, ∃ t, c.ty? n = some t ∧ t ∈ Expected.supported_types) →
    ∃ w p, l.foldlM (VR.gateStep ord true c) st =
      .ok (st.1 ++ (l.flatMap (asgOf ord c)).map (fun a => Item.assign [a]), w, p)
  | [], st, _ => ⟨st.2.1, st.2.2, by simp; rfl⟩
  | n :: l, st, h => by
    obtain ⟨t, hty, hsup⟩ := h n (by simp)
    obtain ⟨w1, p1, h1⟩ := step_ok c ord st n t hty hsup
    obtain ⟨w, p, hf⟩ := fold_ok c ord l (st.1 ++ (asgOf ord c n).map (fun a => Item.assign [a]), w1, p1)
      (fun m hm => h m (by simp [hm]))
    refine ⟨w, p, ?_⟩
    rw [List.foldlM_cons, h1, Arith.bind_ok, hf, List.flatMap_cons, List.map_append, List.append_assoc]

/-- the writer succeeds and emits exactly `asgs` -/
theorem write_beh (c : Circuit) (ord : Ord) (hord : OrdOK ord) (hc : VR.Wr c) (hnobb : c.bbs = []) :
    ∃ wm, toWModule c true ord = .ok wm ∧ wm.name = c.name ∧ wm.inputs = ord c.inputs ∧ wm.outputs = ord c.outputs ∧
      wm.stmts = (asgs ord c).map (fun a => Item.assign [a]) := by
  obtain ⟨w, p, hf⟩ := fold_ok c ord (ord c.nodeNames) ([], [], [])
    (fun n hn => VR.ty?_of_mem_nodeNames hc ((hord _).mem_iff.1 hn))
  refine ⟨{ name := c.name, inputs := ord c.inputs, outputs := ord c.outputs, wires := w,
            stmts := (asgs ord c).map (fun a => Item.assign [a]), parens := p }, ?_, rfl, rfl, rfl, rfl⟩
  rw [VR.toWModule_eq, VR.c1_eq ord hord hc, VR.any_none hc, hnobb]
  simp only [Bool.false_eq_true, if_false, pure_bind, List.foldlM_nil, List.map_nil]
  rw [hf, Arith.bind_ok]
  simp only [List.nil_append]
  rfl

/-! ### shape and meaning of the emitted expressions -/

theorem foldl_prop (P : Expr → Prop) (op : Expr → Expr → Expr) (hid : ∀ s, P (Expr.id s))
    (hop : ∀ a b, P a → P b → P (op a b)) :
    ∀ (xs : List Name) (e : Expr), P e → P (xs.foldl (fun acc y => op acc (Expr.id y)) e)
  | [], _, he => he
  | y :: xs, e, he => by
    rw [List.foldl_cons]
    exact foldl_prop P op hid hop xs _ (hop _ _ he (hid y))

theorem chain_prop (P : Expr → Prop) (op : Expr → Expr → Expr) (hid : ∀ s, P (Expr.id s))
    (hop : ∀ a b, P a → P b → P (op a b)) : ∀ (F : List Name), P (chain op F)
  | [] => hid ""
  | x :: xs => foldl_prop P op hid hop xs _ (hid x)

theorem bexpr_prop (P : Expr → Prop) (hid : ∀ s, P (Expr.id s)) (hnot : ∀ a, P a → P (Expr.not a))
    (hand : ∀ a b, P a → P b → P (Expr.and a b)) (hor : ∀ a b, P a → P b → P (Expr.or a b))
    (hxor : ∀ a b, P a → P b → P (Expr.xor a b)) (t : String) (F : List Name) : P (bexpr t F) := by
  have hb : P (if (t == "xor" || t == "xnor") = true then chain Expr.xor F
      else if (t == "and" || t == "nand") = true then chain Expr.and F else chain Expr.or F) := by
    split
    · exact chain_prop P _ hid hxor F
    · split
      · exact chain_prop P _ hid hand F
      · exact chain_prop P _ hid hor F
  unfold bexpr
  split
  · exact hid _
  · split
    · exact hnot _ (hid _)
    · simp only
      split
      · exact hnot _ hb
      · exact hb

theorem exprIds_foldl (op : Expr → Expr → Expr) (hop : ∀ a b, VT.exprIds (op a b) = VT.exprIds a ++ VT.exprIds b) :
    ∀ (xs : List Name) (e : Expr), VT.exprIds (xs.foldl (fun acc y => op acc (Expr.id y)) e) = VT.exprIds e ++ xs
  | [], e => by simp
  | y :: xs, e => by
    rw [List.foldl_cons, exprIds_foldl op hop xs, hop]
    simp [VT.exprIds]

theorem exprIds_chain (op : Expr → Expr → Expr) (hop : ∀ a b, VT.exprIds (op a b) = VT.exprIds a ++ VT.exprIds b)
    (x : Name) (xs : List Name) : VT.exprIds (chain op (x :: xs)) = x :: xs := by
  unfold chain
  rw [exprIds_foldl op hop]
  simp [VT.exprIds]

theorem exprIds_bexpr (t : String) (x : Name) (xs : List Name) :
    ∀ y ∈ VT.exprIds (bexpr t (x :: xs)), y ∈ x :: xs := by
  have hx := exprIds_chain Expr.xor (fun _ _ => rfl) x xs
  have ha := exprIds_chain Expr.and (fun _ _ => rfl) x xs
  have ho := exprIds_chain Expr.or (fun _ _ => rfl) x xs
  intro y hy
  unfold bexpr at hy
  repeat' split at hy
  all_goals simp only [VT.exprIds, List.headD_cons, hx, ha, ho, List.mem_singleton] at hy
  all_goals first | exact hy | (rw [hy]; exact List.mem_cons_self)

theorem denote_and (v : Val) : ∀ (xs : List Name) (e : Expr),
    VT.denote v (xs.foldl (fun acc y => Expr.and acc (Expr.id y)) e) = (VT.denote v e && (xs.map v).all id)
  | [], e => by simp
  | y :: xs, e => by
    rw [List.foldl_cons, denote_and v xs]
    simp [VT.denote, Bool.and_assoc]

theorem denote_or (v : Val) : ∀ (xs : List Name) (e : Expr),
    VT.denote v (xs.foldl (fun acc y => Expr.or acc (Expr.id y)) e) = (VT.denote v e || (xs.map v).any id)
  | [], e => by simp
  | y :: xs, e => by
    rw [List.foldl_cons, denote_or v xs]
    simp [VT.denote, Bool.or_assoc]

theorem denote_xor (v : Val) : ∀ (xs : List Name) (e : Expr),
    VT.denote v (xs.foldl (fun acc y => Expr.xor acc (Expr.id y)) e) = Bool.xor (VT.denote v e) (xorL (xs.map v))
  | [], e => by simp [xorL]
  | y :: xs, e => by
    rw [List.foldl_cons, denote_xor v xs]
    simp [VT.denote, xorL]

theorem gateFn_bexpr (v : Val) (t : String) (x : Name) (xs : List Name) (hg : t ∈ gateTypes)
    (h1 : t = "buf" ∨ t = "not" → xs = []) :
    gateFn t ((x :: xs).map v) = some (VT.denote v (bexpr t (x :: xs))) := by
  simp only [gateTypes, List.mem_cons, List.not_mem_nil, or_false] at hg
  rcases hg with rfl | rfl | rfl | rfl | rfl | rfl | rfl | rfl
  · simp [gateFn, bexpr, chain, denote_xor, VT.denote, xorL]
  · simp [gateFn, bexpr, chain, denote_xor, VT.denote, xorL]
  · rw [h1 (Or.inl rfl)]; simp [gateFn, bexpr, VT.denote]
  · rw [h1 (Or.inr rfl)]; simp [gateFn, bexpr, VT.denote]
  · simp [gateFn, bexpr, chain, denote_or, VT.denote]
  · simp [gateFn, bexpr, chain, denote_or, VT.denote]
  · simp [gateFn, bexpr, chain, denote_and, VT.denote]
  · simp [gateFn, bexpr, chain, denote_and, VT.denote]

/-! ### which nodes get an assignment -/

theorem classify_gate {c : Circuit} {ord : Ord} (hord : OrdOK ord) (n : Name) (t : String) (hty : c.ty? n = some t)
    (hg : gateTypes.contains t = true) (hlen : 1 ≤ (c.fanin n).length)
    (h1 : (t = "buf" ∨ t = "not") → (c.fanin n).length = 1) :
    ∃ x xs, ord (c.fanin n) = x :: xs ∧ ((t = "buf" ∨ t = "not") → xs = []) ∧
      asgOf ord c n = [(n, bexpr t (x :: xs))] := by
  have hl := (hord (c.fanin n)).length_eq
  cases hf : ord (c.fanin n) with
  | nil => rw [hf] at hl; simp at hl; omega
  | cons x xs =>
    refine ⟨x, xs, rfl, ?_, ?_⟩
    · intro h
      rw [hf, h1 h] at hl
      simp at hl
      exact hl
    · unfold asgOf
      rw [hty]
      simp only [hg, if_true, hf, List.isEmpty_cons, Bool.false_eq_true, if_false]

theorem classify {c : Circuit} {ord : Ord} (hord : OrdOK ord) (hc : VR.Wr c) (hnobb : c.bbs = [])
    (hnx : ∀ p ∈ c.nodes, p.2.ty ≠ some "x") {n : Name} {t : String} (hty : c.ty? n = some t) :
    (t ∈ gateTypes ∧ ∃ x xs, ord (c.fanin n) = x :: xs ∧ ((t = "buf" ∨ t = "not") → xs = []) ∧
        asgOf ord c n = [(n, bexpr t (x :: xs))]) ∨
    ((t = "0" ∨ t = "1") ∧ asgOf ord c n = [(n, Expr.const t)]) ∨
    (t = "input" ∧ asgOf ord c n = []) := by
  obtain ⟨t', hty', hsup⟩ := VR.ty?_of_mem_nodeNames hc (VR.mem_nodeNames_of_ty? hty)
  rw [hty] at hty'
  injection hty' with hty'
  subst hty'
  obtain ⟨a, ha, hat⟩ := VR.mem_of_ty? hty
  have hS := fun h => hc.clean.single n t hty h
  have hM := fun h => hc.clean.multi n t hty h
  have hbb : ¬ (t = "bb_input" ∨ t = "bb_output") := by
    intro h
    obtain ⟨q, hq, _⟩ := hc.pins (n, a) ha (by rcases h with rfl | rfl; exact Or.inl hat; exact Or.inr hat)
    rw [hnobb] at hq
    cases hq
  simp only [Expected.supported_types, Expected.addable_types, Expected.primitive_gates, List.mem_append,
    List.mem_cons, List.not_mem_nil, or_false] at hsup
  rcases hsup with ((rfl | rfl | rfl | rfl | rfl | rfl | rfl | rfl) | (rfl | rfl | rfl | rfl)) | (rfl | rfl)
  · have := hS (by decide)
    exact Or.inl ⟨by decide, classify_gate hord n _ hty (by decide) (by omega) (fun _ => this)⟩
  · exact Or.inl ⟨by decide, classify_gate hord n _ hty (by decide) (hM (by decide)) (fun h => absurd h (by decide))⟩
  · exact Or.inl ⟨by decide, classify_gate hord n _ hty (by decide) (hM (by decide)) (fun h => absurd h (by decide))⟩
  · exact Or.inl ⟨by decide, classify_gate hord n _ hty (by decide) (hM (by decide)) (fun h => absurd h (by decide))⟩
  · have := hS (by decide)
    exact Or.inl ⟨by decide, classify_gate hord n _ hty (by decide) (by omega) (fun _ => this)⟩
  · exact Or.inl ⟨by decide, classify_gate hord n _ hty (by decide) (hM (by decide)) (fun h => absurd h (by decide))⟩
  · exact Or.inl ⟨by decide, classify_gate hord n _ hty (by decide) (hM (by decide)) (fun h => absurd h (by decide))⟩
  · exact Or.inl ⟨by decide, classify_gate hord n _ hty (by decide) (hM (by decide)) (fun h => absurd h (by decide))⟩
  · refine Or.inr (Or.inl ⟨Or.inl rfl, ?_⟩)
    unfold asgOf; rw [hty]; rfl
  · refine Or.inr (Or.inl ⟨Or.inr rfl, ?_⟩)
    unfold asgOf; rw [hty]; rfl
  · exact absurd hat (hnx (n, a) ha)
  · refine Or.inr (Or.inr ⟨rfl, ?_⟩)
    unfold asgOf; rw [hty]; rfl
  · exact absurd (Or.inl rfl) hbb
  · exact absurd (Or.inr rfl) hbb

theorem asgOf_fst (ord : Ord) (c : Circuit) (n : Name) :
    (asgOf ord c n).map (·.1) = [] ∨ (asgOf ord c n).map (·.1) = [n] := by
  unfold asgOf
  repeat' split
  all_goals simp

theorem fst_sublist (ord : Ord) (c : Circuit) :
    ∀ l : List Name, ((l.flatMap (asgOf ord c)).map (·.1)).Sublist l
  | [] => by simp
  | n :: l => by
    rw [List.flatMap_cons, List.map_append]
    rcases asgOf_fst ord c n with h | h
    · rw [h, List.nil_append]
      exact (fst_sublist ord c l).cons n
    · rw [h]
      exact (fst_sublist ord c l).cons_cons n

/-- every emitted assignment defines a non-input node of `c` by an expression over nodes of `c` whose Verilog value is
    the gate function of the node; every non-input node is assigned exactly once -/
theorem asgs_spec (c : Circuit) (ord : Ord) (hord : OrdOK ord) (hc : VR.Wr c) (hnobb : c.bbs = [])
    (hnx : ∀ p ∈ c.nodes, p.2.ty ≠ some "x") :
    (∀ a ∈ asgs ord c, ∃ t, c.ty? a.1 = some t ∧ t ≠ "input" ∧ VT.BinConsts a.2 ∧ VP.NoMux a.2 ∧
        (∀ x ∈ VT.exprIds a.2, c.has x = true) ∧
        ∀ v : Val, gateFn t ((c.fanin a.1).map v) = some (VT.denote v a.2)) ∧
    ((asgs ord c).map (·.1)).Nodup ∧
    (∀ n t, c.ty? n = some t → t ≠ "input" → n ∈ (asgs ord c).map (·.1)) := by
  refine ⟨?_, ?_, ?_⟩
  · intro a ha
    simp only [asgs, List.mem_flatMap] at ha
    obtain ⟨n, hn, ha⟩ := ha
    obtain ⟨t, hty, _⟩ := VR.ty?_of_mem_nodeNames hc ((hord _).mem_iff.1 hn)
    rcases classify hord hc hnobb hnx hty with ⟨hg, x, xs, hf, h1, hasg⟩ | ⟨hk, hasg⟩ | ⟨_, hasg⟩
    · rw [hasg, List.mem_singleton] at ha
      subst ha
      refine ⟨t, hty, ?_, ?_, ?_, ?_, ?_⟩
      · intro h; subst h; exact absurd hg (by decide)
      · exact bexpr_prop VT.BinConsts (fun _ => trivial) (fun _ h => h) (fun _ _ h1 h2 => ⟨h1, h2⟩)
          (fun _ _ h1 h2 => ⟨h1, h2⟩) (fun _ _ h1 h2 => ⟨h1, h2⟩) t _
      · exact bexpr_prop VP.NoMux (fun _ => trivial) (fun _ h => h) (fun _ _ h1 h2 => ⟨h1, h2⟩)
          (fun _ _ h1 h2 => ⟨h1, h2⟩) (fun _ _ h1 h2 => ⟨h1, h2⟩) t _
      · intro y hy
        have hy' : y ∈ ord (c.fanin n) := by rw [hf]; exact exprIds_bexpr t x xs y hy
        have he : (y, n) ∈ c.edges := mem_fanin.1 ((hord _).mem_iff.1 hy')
        exact (hc.clean.closed _ he).1
      · intro v
        show gateFn t ((c.fanin n).map v) = _
        rw [← Limit.gateFn_perm_any t ((hord (c.fanin n)).map v), hf]
        exact gateFn_bexpr v t x xs hg h1
    · rw [hasg, List.mem_singleton] at ha
      subst ha
      refine ⟨t, hty, ?_, ?_, trivial, ?_, ?_⟩
      · rcases hk with rfl | rfl <;> decide
      · exact hk
      · intro y hy; simp [VT.exprIds] at hy
      · intro v
        rcases hk with rfl | rfl <;> simp [gateFn, VT.denote]
    · rw [hasg] at ha
      cases ha
  · have hs : ((asgs ord c).map (·.1)).Sublist (ord c.nodeNames) := fst_sublist ord c _
    exact hs.nodup ((hord _).nodup_iff.2 hc.clean.nodup)
  · intro n t hty hti
    have hn : n ∈ ord c.nodeNames := (hord _).mem_iff.2 (VR.mem_nodeNames_of_ty? hty)
    simp only [asgs, List.mem_map, List.mem_flatMap]
    rcases classify hord hc hnobb hnx hty with ⟨_, x, xs, _, _, hasg⟩ | ⟨_, hasg⟩ | ⟨h, _⟩
    · exact ⟨_, ⟨n, hn, by rw [hasg]; exact List.mem_singleton.2 rfl⟩, rfl⟩
    · exact ⟨_, ⟨n, hn, by rw [hasg]; exact List.mem_singleton.2 rfl⟩, rfl⟩
    · exact absurd h hti

end VB
end CG
