/- C14 (text level, module extraction): the module-extraction pattern parses to `rxMod` for every identifier name -/
import CG.Proofs.VModTextParseLit
namespace CG
namespace VMT
open Regex

/-- the concrete tail of the pattern text, with the `)` closing group 1 -/
def tailS : String := "\\s*\\(.*?\\);(.*?)\\bendmodule\\b)"

theorem parseSeq_tail_aux : (parseSeq 140 ⟨tailS.toList, 1⟩).map (fun p => (p.1, p.2.rest, p.2.ngroups)) =
    some (rxTail, [')'], 2) := by decide +kernel

theorem parseSeq_tail : parseSeq 140 ⟨tailS.toList, 1⟩ = some (rxTail, ⟨[')'], 2⟩) := by
  have h := parseSeq_tail_aux
  cases h1 : parseSeq 140 ⟨tailS.toList, 1⟩ with
  | none => simp [h1] at h
  | some p =>
    obtain ⟨a, r, g⟩ := p
    simp [h1] at h
    simp [h]

theorem tailS_noQ : NoQ tailS.toList := by
  have e : tailS.toList = '\\' :: tailS.toList.drop 1 := by decide
  intro r
  rw [e]
  simp

theorem rxTail_ne : rxTail ≠ Re.eps := by simp [rxTail]

theorem parseQuant_wsPlus (f : Nat) {X : List Char} (hq : NoQ X) (g : Nat) :
    parseQuant (f + 2) ⟨'\\' :: 's' :: '+' :: X, g⟩ = some (Re.plus (Re.set wsS) true, ⟨X, g⟩) := by
  have ha : parseAtom (f + 1) ⟨'\\' :: 's' :: '+' :: X, g⟩ = some (Re.set wsS, ⟨'+' :: X, g⟩) := by
    rw [parseAtom.eq_2]
    simp [escapeSet, wsS, BenchText.wsS]
  rw [parseQuant.eq_2, ha]
  simp only [Option.bind_eq_bind, Option.bind_some]
  split
  all_goals first | (rename_i heq; exfalso; have := hq; simp_all [NoQ]; done) | skip
  rename_i heq
  simp at heq
  simp [heq]

/-- the six letters of `module` -/
def kwM : List Char := ['m', 'o', 'd', 'u', 'l', 'e']

theorem parseAtom_group (f : Nat) {rest rest' : List Char} {g g' : Nat} {r : Re} (hne : ∀ t, rest ≠ '?' :: ':' :: t)
    (h : parseAlt f ⟨rest, g + 1⟩ = some (r, ⟨')' :: rest', g'⟩)) :
    parseAtom (f + 1) ⟨'(' :: rest, g⟩ = some (Re.group (g + 1) r, ⟨rest', g'⟩) := by
  rw [parseAtom.eq_2]
  simp only []
  simp [h]

theorem parseSeq_single (f : Nat) {st : PState} {a : Re} {g : Nat} (h0 : ∀ r, st.rest ≠ [] ∧ st.rest ≠ '|' :: r ∧ st.rest ≠ ')' :: r)
    (h : parseQuant (f + 1) st = some (a, ⟨[], g⟩)) :
    parseSeq (f + 2) st = some (a, ⟨[], g⟩) := by
  rw [parseSeq.eq_2]
  split
  all_goals first | (rename_i heq; exfalso; have := h0; simp_all; done) | skip
  rw [h]
  simp [parseSeq.eq_2]

theorem parseAlt_pat (w : List Char) (hw : ∀ c ∈ w, IdC c) :
    parseAlt (w.length + 152) ⟨'(' :: (kwM ++ '\\' :: 's' :: '+' :: (w ++ tailS.toList)), 0⟩ =
      some (rxMod w, ⟨[], 2⟩) := by
  -- NAME and the tail
  have h1 := parseSeq_litThen 138 tailS_noQ parseSeq_tail rxTail_ne w hw
  have hqX : NoQ (w ++ tailS.toList) := by
    cases w with
    | nil => simpa using tailS_noQ
    | cons d w => exact (hw d (by simp)).noQ_cons _
  -- `\s+`
  have h2 : parseSeq (w.length + 139 + 2) ⟨'\\' :: 's' :: '+' :: (w ++ tailS.toList), 1⟩ =
      some (Re.seq (Re.plus (Re.set wsS) true) (litThen w rxTail), ⟨[')'], 2⟩) :=
    parseSeq_cons (w.length + 138 + 2) (by intro r; simp) (parseQuant_wsPlus (w.length + 138) hqX 1)
      (parseSeq_mono h1 (by omega)) (litThen_ne_eps w rxTail_ne)
  -- `module`
  have hq2 : NoQ ('\\' :: 's' :: '+' :: (w ++ tailS.toList)) := by intro r; simp
  have h3 := parseSeq_litThen (w.length + 139) hq2 h2 (by simp) kwM (by decide)
  -- the group
  have h4 : parseAlt (w.length + 148) ⟨kwM ++ '\\' :: 's' :: '+' :: (w ++ tailS.toList), 1⟩ =
      some (litThen kwM (Re.seq (Re.plus (Re.set wsS) true) (litThen w rxTail)), ⟨[')'], 2⟩) := by
    rw [parseAlt.eq_2, parseSeq_mono h3 (by simp [kwM])]; rfl
  have h5 : parseAtom (w.length + 148 + 1)
      ⟨'(' :: (kwM ++ '\\' :: 's' :: '+' :: (w ++ tailS.toList)), 0⟩ = some (rxMod w, ⟨[], 2⟩) :=
    parseAtom_group _ (by intro t; simp [kwM]) h4
  have h6 := parseQuant_noq _ h5 (by intro r; simp)
  have h7 := parseSeq_single _ (by intro r; simp) h6
  have h8 : parseAlt (w.length + 148 + 1 + 2 + 1)
      ⟨'(' :: (kwM ++ '\\' :: 's' :: '+' :: (w ++ tailS.toList)), 0⟩ = some (rxMod w, ⟨[], 2⟩) := by
    rw [parseAlt.eq_2, h7]; rfl
  exact h8

theorem patText_toList (name : String) :
    (patText name).toList = '(' :: (kwM ++ '\\' :: 's' :: '+' :: (name.toList ++ tailS.toList)) := by
  simp [patText, tailS, kwM, String.toList_append]

theorem parse_patText (name : String)
    (h : ∀ c ∈ name.toList, Verilog.isLetter c = true ∨ Verilog.isDigit c = true ∨ c = '_') :
    Regex.parse (patText name) = some (rxMod name.toList, 2) := by
  have h1 := parseAlt_pat name.toList h
  have hlen : (patText name).toList.length = name.toList.length + 40 := by
    rw [patText_toList]; simp [kwM, tailS]
  rw [← patText_toList] at h1
  unfold Regex.parse
  rw [parseAlt_mono (f' := 4 * (patText name).toList.length + 8) h1 (by omega)]
  rfl

end VMT
end CG

