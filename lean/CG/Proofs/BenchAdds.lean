/- C15 helper: the reader's `add` passes (inputs, gate lines, DFF nets) succeed and establish the invariant -/
import CG.Proofs.BenchInv
set_option linter.unusedSimpArgs false
set_option linter.unusedVariables false
namespace CG
namespace BenchP
open Circuit Ternary Bench

/-- side conditions on one definition -/
structure DefOK (d : Def) : Prop where
  name : Limit.NameOK d.1
  ops : ∀ u ∈ d.2.2, Limit.NameOK u
  ty : d.2.1 ∈ okTypes
  single : d.2.1 = "buf" ∨ d.2.1 = "not" → d.2.2.length ≤ 1
  source : d.2.1 = "0" ∨ d.2.1 = "1" ∨ d.2.1 = "input" → d.2.2 = []

theorem add_step {c : Circuit} {D : List Def} {d : Def} (h : BInv c D) (hD : ∀ d' ∈ D, d'.2.1 ∈ okTypes)
    (hnew : d.1 ∉ names D) (ok : DefOK d)
    (a : AddArgs) (han : a.n = d.1) (hty : a.ty = d.2.1) (hfi : a.fanin = d.2.2) (hfo : a.fanout = [])
    (hout : a.output = false) (hu : a.uid = false)
    (hac : a.addConnected = true ∨ a.fanin = [])
    (hre : a.allowRedef = true ∨ c.has d.1 = false) :
    ∃ c', Tx.addC c a = .ok c' ∧ BInv c' (D ++ [d]) := by
  have key : ∀ a' : AddArgs, a'.n = d.1 → a'.ty = d.2.1 → a'.fanin = d.2.2 → a'.fanout = [] → a'.uid = false →
      (a'.addConnected = true ∨ a'.fanin = []) → a'.allowRedef = true →
      ∃ t', c.add a' = (t', .ok, d.1) ∧ AddSpec c a' d.1 t' := by
    intro a' han hty hfi hfo hu hac hre
    refine add_ok2 c a' d.1 (by rw [hu, han]; rfl) (fun _ => hre) ok.name (by rw [hty]; exact ok.ty) ?_ ?_ ?_ ?_
      (h.typed hD)
    · intro h0
      rw [hty] at h0
      rw [hfi]
      refine ⟨ok.single h0, ?_⟩
      intro _ e he h2
      obtain ⟨d', hd', h3, _⟩ := (h.edges e).mp he
      exact hnew (List.mem_map.mpr ⟨d', hd', by rw [← h3, h2]⟩)
    · intro h1
      rw [hty] at h1
      rw [hfi]; exact ok.source h1
    · intro v hv; rw [hfo] at hv; cases hv
    · intro u hu'
      rcases hac with h1 | h1
      · right; right; exact ⟨h1, ok.ops u (by rw [← hfi]; exact hu')⟩
      · rw [h1] at hu'; cases hu'
  have key2 : ∃ t', c.add a = (t', .ok, d.1) ∧ AddSpec c a d.1 t' := by
    rcases hre with hre | hre
    · exact key a han hty hfi hfo hu hac hre
    · rw [add_redef_irrel c a hu (by rw [han]; exact hre)]
      obtain ⟨t', e, s⟩ := key { a with allowRedef := true } han hty hfi hfo hu hac rfl
      exact ⟨t', e, ⟨s.has, s.attr_self, s.attr_old, s.attr_new, s.edges, s.nodupN, s.nodupE⟩⟩
  obtain ⟨t', e, s⟩ := key2
  refine ⟨t', ?_, h.step hnew s ?_ hty hfi hfo hout hac⟩
  · unfold Tx.addC addE
    rw [e]; rfl
  · have := add_bbs c a
    rw [e] at this
    exact this

/-- which definition a statement of the `add` passes makes -/
inductive StmtFor : Stmt → Def → Prop
  | input (n : Name) : StmtFor (.input n) (n, "input", [])
  | gate (n : Name) (t : String) (ins : List Name) :
      StmtFor (.gate n t ins) (n, (parityGate t ins).1, (parityGate t ins).2)   -- repeated XOR operands cancel (K35)
  | dffNet (n : Name) : StmtFor (.dffNet n) (n, "buf", [])

theorem build1_step {c : Circuit} {D : List Def} {d : Def} {s : Stmt} (h : BInv c D)
    (hD : ∀ d' ∈ D, d'.2.1 ∈ okTypes) (hnew : d.1 ∉ names D) (ok : DefOK d) (hs : StmtFor s d)
    (hin : d.2.1 = "input" → ∀ d' ∈ D, d.1 ∉ d'.2.2) :
    ∃ c', build1 c s = .ok c' ∧ BInv c' (D ++ [d]) := by
  cases hs with
  | input n =>
    refine add_step h hD hnew ok { n := n, ty := "input" } rfl rfl rfl rfl rfl rfl (Or.inr rfl) (Or.inr ?_)
    cases hh : c.has n with
    | false => rfl
    | true =>
      exfalso
      rcases (h.has n).mp hh with h1 | ⟨d', h1, h2⟩
      · exact hnew h1
      · exact hin rfl d' h1 h2
  | gate n t ins =>
    exact add_step h hD hnew ok
      { n := n, ty := (parityGate t ins).1, fanin := (parityGate t ins).2, addConnected := true, allowRedef := true }
      rfl rfl rfl rfl rfl rfl (Or.inl rfl) (Or.inl rfl)
  | dffNet n =>
    exact add_step h hD hnew ok { n := n, ty := "buf", allowRedef := true } rfl rfl rfl rfl rfl rfl (Or.inr rfl)
      (Or.inl rfl)

theorem build_adds : ∀ (l : List (Stmt × Def)) (c : Circuit) (D : List Def), BInv c D →
    (∀ d ∈ D, d.2.1 ∈ okTypes) → (names D ++ names (l.map (·.2))).Nodup →
    (∀ p ∈ l, StmtFor p.1 p.2 ∧ DefOK p.2) →
    (∀ p ∈ l, p.2.2.1 = "input" → ∀ d' ∈ D ++ l.map (·.2), p.2.1 ∉ d'.2.2) →
    ∃ c', (l.map (·.1)).foldlM build1 c = .ok c' ∧ BInv c' (D ++ l.map (·.2))
  | [], c, D, h, _, _, _, _ => ⟨c, rfl, by simpa using h⟩
  | p :: l, c, D, h, hD, hnd, hok, hin => by
    have hnd' : (names D ++ p.2.1 :: names (l.map (·.2))).Nodup := by simpa [names] using hnd
    have hnew : p.2.1 ∉ names D := by
      intro hm
      have := (List.nodup_append.mp hnd').2.2 _ hm p.2.1 (by simp)
      exact this rfl
    obtain ⟨c1, e1, h1⟩ := build1_step h hD hnew (hok p (by simp)).2 (hok p (by simp)).1
      (fun ht d' hd' => hin p (by simp) ht d' (by simp [hd']))
    have hD1 : ∀ d ∈ D ++ [p.2], d.2.1 ∈ okTypes := by
      intro d hd
      rcases List.mem_append.mp hd with h2 | h2
      · exact hD d h2
      · rw [List.mem_singleton] at h2; rw [h2]; exact (hok p (by simp)).2.ty
    have hnd1 : (names (D ++ [p.2]) ++ names (l.map (·.2))).Nodup := by
      rw [names_append, List.append_assoc]
      simpa [names] using hnd
    obtain ⟨c', e2, h2⟩ := build_adds l c1 (D ++ [p.2]) h1 hD1 hnd1 (fun q hq => hok q (by simp [hq]))
      (fun q hq ht d' hd' => hin q (by simp [hq]) ht d' (by
        simp only [List.map_cons, List.mem_append, List.mem_cons, List.mem_singleton, List.not_mem_nil, or_false] at hd' ⊢
        rcases hd' with (h3 | h3) | h3
        · exact Or.inl h3
        · exact Or.inr (Or.inl h3)
        · exact Or.inr (Or.inr h3)))
    refine ⟨c', ?_, by simpa using h2⟩
    rw [List.map_cons, List.foldlM_cons, e1]
    exact e2

end BenchP
end CG
