/- C14 (text level, module extraction) helper: `String.replace` on the module-extraction pattern template.
   `String.replace` is a fold over the steps of the forward string searcher; core proves that list of steps is a
   valid search (`IsValidSearchFrom`), and a text with exactly one occurrence of the pattern is rewritten to
   prefix ++ replacement ++ suffix. -/
import CG.Proofs.VModTextDefs
namespace CG
namespace VMT
open String String.Slice String.Slice.Pattern String.Slice.Pattern.Model

/-- one step of the fold `String.Slice.replace` runs -/
def rstep (s : Slice) (repl : String) : String → SearchStep s → String
  | sofar, .matched .. => sofar ++ repl
  | sofar, .rejected a b => sofar ++ (s.slice! a b).copy

theorem slice_replace_eq_foldl (s : Slice) (pat repl : String) :
    s.replace pat repl = (ToForwardSearcher.toSearcher pat s).toList.foldl (rstep s repl) "" := by
  rw [String.Slice.replace, ← Std.Iter.foldl_toList]
  congr 1
  funext acc st
  cases st <;> simp [rstep, String.appendSlice_eq, ToSlice.toSlice]

theorem copy_slice_append {s : Slice} {a b c : s.Pos} (h₁ : a ≤ b) (h₂ : b ≤ c) :
    (s.slice a c (Std.le_trans h₁ h₂)).copy = (s.slice a b h₁).copy ++ (s.slice b c h₂).copy := by
  rw [← String.toByteArray_inj, String.toByteArray_append]
  simp only [Slice.toByteArray_copy_slice]
  exact ByteArray.extract_eq_extract_append_extract _ h₁ h₂

theorem copy_sliceFrom_eq_append {s : Slice} {a b : s.Pos} (h : a ≤ b) :
    (s.sliceFrom a).copy = (s.slice a b h).copy ++ (s.sliceFrom b).copy := by
  have h1 := a.splits.eq_append
  have h2 := Slice.copy_eq_copy_slice (s := s) (pos₁ := a) (pos₂ := b) (h := h)
  rw [h1, String.append_assoc] at h2
  exact (String.append_right_inj _).1 h2

/-- no occurrence from `pos` on: the fold appends the rest of the text unchanged -/
theorem foldl_noMatch {pat : String} {s : Slice} (repl : String) {pos : s.Pos}
    {l : List (SearchStep s)} (h : IsValidSearchFrom pat pos l)
    (hno : ∀ p, pos ≤ p → ¬ MatchesAt pat p) (acc : String) :
    l.foldl (rstep s repl) acc = acc ++ (s.sliceFrom pos).copy := by
  induction h generalizing acc with
  | endPos => simp
  | matched hm _ _ => exact absurd hm.matchesAt (hno _ (Std.le_refl _))
  | @mismatched l a b hlt _ _ ih =>
    have hle : a ≤ b := Std.le_of_lt hlt
    rw [List.foldl_cons, ih (fun p hp => hno p (Std.le_trans hle hp))]
    simp only [rstep]
    rw [← Slice.slice_eq_slice! (h := hle), copy_sliceFrom_eq_append hle, String.append_assoc]

/-- exactly one occurrence, at `q`: the fold copies up to `q`, appends the replacement, copies the rest -/
theorem foldl_oneMatch {pat : String} (hpat : pat ≠ "") {s : Slice} (repl : String) {q q' : s.Pos}
    (hq : IsLongestMatchAt pat q q') (huniq : ∀ p, MatchesAt pat p → p = q) {pos : s.Pos}
    {l : List (SearchStep s)} (h : IsValidSearchFrom pat pos l) (hle : pos ≤ q) (acc : String) :
    l.foldl (rstep s repl) acc = acc ++ (s.slice pos q hle).copy ++ repl ++ (s.sliceFrom q').copy := by
  haveI := ForwardStringSearcher.strictPatternModel hpat
  induction h generalizing acc with
  | endPos =>
    have : q = s.endPos := Std.le_antisymm (Slice.Pos.le_endPos _) hle
    exact absurd (this ▸ hq.matchesAt) not_matchesAt_endPos
  | @matched l a b hm valid _ =>
    obtain rfl : a = q := huniq _ hm.matchesAt
    obtain rfl : b = q' := hm.eq hq
    rw [List.foldl_cons, foldl_noMatch repl valid]
    · simp [rstep]
    · intro p hp hmp
      have := huniq p hmp
      subst this
      exact absurd (Std.lt_of_lt_of_le hq.lt hp) (Std.lt_irrefl)
  | @mismatched l a b hlt hrej _ ih =>
    have hab : a ≤ b := Std.le_of_lt hlt
    have hbq : b ≤ q := Std.not_lt.1 (fun hqb => hrej q hle hqb hq.matchesAt)
    rw [List.foldl_cons, ih hbq]
    simp only [rstep]
    rw [← Slice.slice_eq_slice! (h := hab), copy_slice_append hab hbq]
    simp [String.append_assoc]

/-- a text with exactly one occurrence of a non-empty pattern: `String.replace` rewrites that occurrence -/
theorem replace_unique {pat : String} (hpat : pat ≠ "") (X Y repl : String)
    (huniq : ∀ u v : String, X ++ pat ++ Y = u ++ pat ++ v → u = X) :
    (X ++ pat ++ Y).replace pat repl = X ++ repl ++ Y := by
  have hlaw := ForwardStringSearcher.lawfulToForwardSearcherModel hpat
  let s : Slice := (X ++ pat ++ Y).toSlice
  have hc : s.copy = X ++ pat ++ Y := by simp [s]
  have h1 : s.copy = X ++ (pat ++ Y) := by rw [hc, String.append_assoc]
  have hq := Slice.Pos.splits_ofEqAppend h1
  have hq' := Slice.Pos.splits_ofEqAppend hc
  have hm : IsLongestMatchAt pat (Slice.Pos.ofEqAppend h1) (Slice.Pos.ofEqAppend hc) :=
    ForwardStringSearcher.isLongestMatchAt_iff_splits.2 ⟨X, Y, hq, hq'⟩
  have hu : ∀ p : s.Pos, MatchesAt pat p → p = Slice.Pos.ofEqAppend h1 := by
    intro p hp
    obtain ⟨t₁, t₂, ht⟩ := ForwardStringSearcher.matchesAt_iff_splits.1 hp
    have := ht.eq_append
    rw [hc, ← String.append_assoc] at this
    obtain rfl := huniq _ _ this
    exact ht.pos_eq hq
  have hv := hlaw.isValidSearchFrom_toList s
  show s.replace pat repl = _
  rw [slice_replace_eq_foldl, foldl_oneMatch hpat repl hm hu hv (Slice.Pos.startPos_le _)]
  have h2 := copy_sliceFrom_eq_append (Slice.Pos.startPos_le (Slice.Pos.ofEqAppend h1))
  rw [hq.copy_sliceFrom_eq] at h2
  rw [Slice.sliceFrom_startPos, h1] at h2
  rw [hq'.copy_sliceFrom_eq, ← (String.append_left_inj _).1 h2, String.empty_append]

/-- list-level uniqueness check: every place where `P` starts in `L` is place `k` -/
theorem list_occ_unique {L P u v : List Char} {k : Nat} (h : L = u ++ P ++ v)
    (hk : ∀ n, n < L.length + 1 → (L.drop n).take P.length = P → n = k) : u = L.take k := by
  have hlen : u.length < L.length + 1 := by rw [h]; simp; omega
  have hd : (L.drop u.length).take P.length = P := by
    rw [h, List.append_assoc, List.drop_left, List.take_left]
  rw [← hk _ hlen hd, h, List.append_assoc, List.take_left]

/-- the text before NAME in the pattern template -/
def tplPre : String := "(module\\s+"
/-- the text after NAME in the pattern template -/
def tplPost : String := "\\s*\\(.*?\\);(.*?)\\bendmodule\\b)"

theorem tpl_unique (u v : String) (h : tplPre ++ "NAME" ++ tplPost = u ++ "NAME" ++ v) : u = tplPre := by
  have hl := congrArg String.toList h
  simp only [String.toList_append] at hl
  have := list_occ_unique (k := 10) hl (by decide)
  rw [← String.toList_inj, this]
  decide

theorem replace_NAME (name : String) :
    "(module\\s+NAME\\s*\\(.*?\\);(.*?)\\bendmodule\\b)".replace "NAME" name = patText name := by
  have h := replace_unique (pat := "NAME") (by decide) tplPre tplPost name tpl_unique
  have e : "(module\\s+NAME\\s*\\(.*?\\);(.*?)\\bendmodule\\b)" = tplPre ++ "NAME" ++ tplPost := by decide
  rw [e, h]
  rfl

theorem moduleRegex_eq (name : String) : Verilog.moduleRegex name = (patText name, true) := by
  show ("(module\\s+NAME\\s*\\(.*?\\);(.*?)\\bendmodule\\b)".replace "NAME" name, true) = _
  rw [replace_NAME]

end VMT
end CG
